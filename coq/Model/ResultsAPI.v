(* M3 (public API part): the rest of pyparsing.results.ParseResults at value level, each definition mirroring the
   Python method statement by statement, stored positions included (`__delitem__`/`insert`/`pop` rewrite them).
   Builds on Model/Results.v (the type and the operations the parser itself performs).
   Executable definitions only.  Not represented at this level: object identity, `_parent` (hence the second branch
   of get_name), `flatten=True` of as_list, `pprint`, `__dir__`.  dump/str/repr are in Model/ResultsSpec.v (they read
   only the public views). *)
From Coq Require Import List ZArith NArith Bool Lia.
From PP Require Import Model.Str Model.Results.
Import ListNotations.
Local Open Scope Z_scope.

(* ------------------------------------------------------------------------------------------------------ *)
(* Python list primitives (polymorphic: used for the token list here and for the plain-list specification)   *)
(* ------------------------------------------------------------------------------------------------------ *)
Definition llen {A} (l : list A) : Z := Z.of_nat (length l).

(* index normalisation of `l[i]`: None = IndexError *)
Definition norm_index (i len : Z) : option nat :=
  let j := if i <? 0 then i + len else i in
  if (j <? 0) || (len <=? j) then None else Some (Z.to_nat j).

Definition py_getitem {A} (l : list A) (i : Z) : option A :=
  match norm_index i (llen l) with Some j => nth_error l j | None => None end.

Definition remove_nth {A} (l : list A) (j : nat) : list A := firstn j l ++ skipn (S j) l.
Definition set_nth {A} (l : list A) (j : nat) (x : A) : list A := firstn j l ++ x :: skipn (S j) l.

(* `del l[i]` *)
Definition py_delitem {A} (l : list A) (i : Z) : option (list A) :=
  match norm_index i (llen l) with Some j => Some (remove_nth l j) | None => None end.
(* `l[i] = x` *)
Definition py_setitem {A} (l : list A) (i : Z) (x : A) : option (list A) :=
  match norm_index i (llen l) with Some j => Some (set_nth l j x) | None => None end.

(* `l.insert(i, x)` : CPython ins1 — negative counts from the end, then clamp to [0, len] *)
Definition insert_pos (i len : Z) : nat :=
  let w := if i <? 0 then i + len else i in
  Z.to_nat (if w <? 0 then 0 else if len <? w then len else w).
Definition py_insert {A} (l : list A) (i : Z) (x : A) : list A :=
  let w := insert_pos i (llen l) in firstn w l ++ x :: skipn w l.

(* slices: `slice(lo, hi, st).indices(len)` ; None = ValueError (step 0) *)
Inductive slice_ := Slice (lo hi st : option Z).
Definition slice_indices (s : slice_) (len : Z) : option (Z * Z * Z) :=
  match s with
  | Slice lo hi st =>
    let step := match st with Some k => k | None => 1 end in
    if step =? 0 then None
    else
      let lower := if step <? 0 then -1 else 0 in
      let upper := if step <? 0 then len - 1 else len in
      let clamp := fun v : Z => if v <? 0 then Z.max (v + len) lower else Z.min v upper in
      let start := match lo with Some v => clamp v | None => if step <? 0 then upper else lower end in
      let stop := match hi with Some v => clamp v | None => if step <? 0 then lower else upper end in
      Some (start, stop, step)
  end.
(* len(range(start, stop, step)) *)
Definition range_len (start stop step : Z) : nat :=
  if 0 <? step then (if start <? stop then Z.to_nat ((stop - start - 1) / step + 1) else 0%nat)
  else (if stop <? start then Z.to_nat ((start - stop - 1) / (- step) + 1) else 0%nat).
(* list(range(start, stop, step)) *)
Definition range_list (start stop step : Z) : list Z :=
  map (fun k => start + Z.of_nat k * step) (seq 0 (range_len start stop step)).

(* [l[i] for i in idxs] (indices produced by slice.indices are always in range) *)
Definition select {A} (l : list A) (idxs : list Z) : list A :=
  flat_map (fun i => match nth_error l (Z.to_nat i) with Some x => [x] | None => [] end) idxs.
(* l without the elements whose index is in idxs; k = index of the head *)
Fixpoint del_idx {A} (k : Z) (idxs : list Z) (l : list A) : list A :=
  match l with
  | [] => []
  | x :: t => if existsb (Z.eqb k) idxs then del_idx (k + 1) idxs t else x :: del_idx (k + 1) idxs t
  end.

(* `l[slice]` *)
Definition py_getslice {A} (l : list A) (s : slice_) : option (list A) :=
  match slice_indices s (llen l) with
  | Some (start, stop, step) => Some (select l (range_list start stop step))
  | None => None
  end.
(* `del l[slice]` *)
Definition py_delslice {A} (l : list A) (s : slice_) : option (list A) :=
  match slice_indices s (llen l) with
  | Some (start, stop, step) => Some (del_idx 0 (range_list start stop step) l)
  | None => None
  end.
(* `l[slice] = vs` : step 1 replaces l[start:max(start,stop)]; an extended slice needs len(vs) == len(range) *)
Fixpoint assign_at {A} (l : list A) (idxs : list Z) (vs : list A) : list A :=
  match idxs, vs with
  | i :: idxs', v :: vs' => assign_at (set_nth l (Z.to_nat i) v) idxs' vs'
  | _, _ => l
  end.
Definition py_setslice {A} (l : list A) (s : slice_) (vs : list A) : option (list A) :=
  match slice_indices s (llen l) with
  | Some (start, stop, step) =>
    if step =? 1 then
      let stop' := Z.max start stop in
      Some (firstn (Z.to_nat start) l ++ vs ++ skipn (Z.to_nat stop') l)
    else
      let idxs := range_list start stop step in
      if Nat.eqb (length idxs) (length vs) then Some (assign_at l idxs vs) else None
  | None => None
  end.

(* ------------------------------------------------------------------------------------------------------ *)
(* results of operations                                                                                     *)
(* ------------------------------------------------------------------------------------------------------ *)
Inductive exn := IndexError | KeyError | TypeError | ValueError | AttributeError.

(* values of as_dict() *)
Inductive dval :=
| DTok (t : tok)                        (* a non-ParseResults value, as is *)
| DList (l : list dval)
| DDict (d : list (str * dval)).

Inductive result :=
| RNone                                  (* a statement, or a method returning None *)
| RTok (t : tok)
| RToks (l : list tok)                   (* the contents of a returned list / iterator *)
| RBoolR (b : bool)
| RIntR (z : Z)
| RKeys (l : list str)
| RItems (l : list (str * tok))
| RDict (d : list (str * dval))
| RPres (r : pres)                       (* a new ParseResults *)
| ROptStr (s : option str)               (* get_name() *)
| RExc (e : exn).

Definition with_toks (r : pres) (l : list tok) : pres := PR l (dict r) (allnames r) (rname r) (modal r).
Definition with_dict (r : pres) (d : list (str * list (tok * Z))) : pres := PR (toks r) d (allnames r) (rname r) (modal r).
Definition map_positions (f : Z -> Z) (d : list (str * list (tok * Z))) : list (str * list (tok * Z)) :=
  map (fun kv => (fst kv, map (fun vp => (fst vp, f (snd vp))) (snd kv))) d.

(* ---- __getitem__ ---- *)
Definition getitem_int (r : pres) (i : Z) : option tok := py_getitem (toks r) i.       (* None = IndexError *)
Definition getitem_slice (r : pres) (s : slice_) : option (list tok) := py_getslice (toks r) s.   (* None = ValueError *)
Definition getitem_name (r : pres) (k : str) : option tok := pr_getname r k.            (* None = KeyError *)

(* ---- __setitem__ ---- *)
Definition setitem_int (r : pres) (i : Z) (v : tok) : option pres :=
  option_map (with_toks r) (py_setitem (toks r) i v).
Definition setitem_slice (r : pres) (s : slice_) (vs : list tok) : option pres :=
  option_map (with_toks r) (py_setslice (toks r) s vs).
Definition setitem_name (r : pres) (k : str) (v : tok) : pres := pr_setname r k v 0.
Definition setitem_name_off (r : pres) (k : str) (v : tok) (pos : Z) : pres := pr_setname r k v pos.

(* ---- __delitem__ ---- *)
(* the fix-up loop: for j in removed (already reversed): position - (position > j) *)
Definition adjust_del (removed_rev : list Z) (p : Z) : Z :=
  fold_left (fun q j => if j <? q then q - 1 else q) removed_rev p.
Definition delitem_int (r : pres) (i : Z) : option pres :=
  let mylen := llen (toks r) in
  match py_delitem (toks r) i with
  | None => None                                                  (* IndexError from `del self._toklist[i]` *)
  | Some l' =>
    let i' := if i <? 0 then i + mylen else i in
    match slice_indices (Slice (Some i') (Some (i' + 1)) None) mylen with
    | Some (a, b, c) => Some (PR l' (map_positions (adjust_del (rev (range_list a b c))) (dict r)) (allnames r) (rname r) (modal r))
    | None => None
    end
  end.
Definition delitem_slice (r : pres) (s : slice_) : option pres :=
  let mylen := llen (toks r) in
  match py_delslice (toks r) s, slice_indices s mylen with
  | Some l', Some (a, b, c) =>
    Some (PR l' (map_positions (adjust_del (rev (range_list a b c))) (dict r)) (allnames r) (rname r) (modal r))
  | _, _ => None                                                  (* ValueError: slice step cannot be zero *)
  end.
Definition contains (r : pres) (k : str) : bool :=
  match dict_get (dict r) k with Some _ => true | None => false end.
Definition delitem_name (r : pres) (k : str) : option pres :=
  if contains r k then Some (with_dict r (dict_del (dict r) k)) else None.       (* None = KeyError *)

(* ---- simple observers ---- *)
Definition len (r : pres) : Z := llen (toks r).
Definition iter (r : pres) : list tok := toks r.
Definition reversed (r : pres) : list tok := rev (toks r).
Definition keys (r : pres) : list str := map fst (dict r).
(* self[k] for k in keys(): the key is present, so the lookup cannot fail; an empty occurrence list (IndexError) is
   mapped to TNone, excluded by wf *)
Definition lookup_present (r : pres) (k : str) : tok := match pr_getname r k with Some v => v | None => TNone end.
Definition values (r : pres) : list tok := map (lookup_present r) (keys r).
Definition items (r : pres) : list (str * tok) := map (fun k => (k, lookup_present r k)) (keys r).

(* ---- get / getattr ---- *)
Definition get (r : pres) (k : str) (dflt : tok) : tok :=
  if contains r k then lookup_present r k else dflt.
Definition starts_dunder (k : str) : bool :=
  match k with 95%N :: 95%N :: _ => true | _ => false end.
Definition getattr (r : pres) (k : str) : result :=
  match pr_getname r k with
  | Some v => RTok v
  | None => if starts_dunder k then RExc AttributeError else RTok (TStr [])
  end.

(* ---- insert / append / extend / clear ---- *)
Definition insert (r : pres) (index : Z) (v : tok) : pres :=
  PR (py_insert (toks r) index v)
     (map_positions (fun p => if index <? p then p + 1 else p) (dict r))
     (allnames r) (rname r) (modal r).
Definition append (r : pres) (v : tok) : pres := with_toks r (toks r ++ [v]).
Definition extend_list (r : pres) (vs : list tok) : pres := with_toks r (toks r ++ vs).
Definition extend_pr (r other : pres) : pres := pr_iadd r other.
Definition clear (r : pres) : pres := PR [] [] (allnames r) (rname r) (modal r).

(* ---- pop ---- *)
Inductive popkey := PKInt (i : Z) | PKName (k : str).
(* pop with positional and keyword arguments: a0 = first positional (if any), extra = further positionals, kwdefault = default=..., badkw =
   some other keyword is present *)
Definition pop (r : pres) (a0 : option popkey) (extra : list tok) (kwdefault : option tok) (badkw : bool)
  : pres * result :=
  let a0' := match a0 with Some a => a | None => PKInt (-1) end in
  (* `args = (args[0], v)` for default=v ; the loop over kwargs raises TypeError for any other keyword *)
  if badkw then (r, RExc TypeError)
  else
    let rest := match kwdefault with Some d => [d] | None => extra end in
    let list_sem := match a0' with
                    | PKInt _ => true
                    | PKName k => match rest with [] => true | _ => contains r k end
                    end in
    if list_sem then
      match a0' with
      | PKInt i => match getitem_int r i, delitem_int r i with
                   | Some v, Some r' => (r', RTok v)
                   | _, _ => (r, RExc IndexError)
                   end
      | PKName k => match getitem_name r k, delitem_name r k with
                    | Some v, Some r' => (r', RTok v)
                    | _, _ => (r, RExc KeyError)
                    end
      end
    else (r, match rest with d :: _ => RTok d | [] => RNone end).

(* ---- + += radd ---- *)
Definition iadd (r other : pres) : pres := pr_iadd r other.
Definition add (r other : pres) : pres := pr_iadd (pr_copy r) other.
Definition radd_zero (r : pres) : pres := pr_copy r.                 (* 0 + r, the first step of sum() *)
Definition pr_sum (l : list pres) : option pres :=                   (* sum(l): 0 + l0 + l1 + ... ; sum([]) = 0 is not a result *)
  match l with
  | [] => None
  | r0 :: rest => Some (fold_left add rest (radd_zero r0))
  end.

(* ---- as_dict ---- *)
Fixpoint to_item (t : tok) : dval :=
  match t with
  | TPR r =>
    match dict r with
    | [] => DList (map to_item (toks r))
    | _ => DDict (map (fun kv =>
                        let vs := map (fun vp => to_item (fst vp)) (snd kv) in
                        (fst kv, if name_in (fst kv) (allnames r) then DList vs else last vs (DTok TNone)))
                      (dict r))
    end
  | other => DTok other
  end.
Definition as_dict (r : pres) : list (str * dval) :=
  map (fun kv =>
         let vs := map (fun vp => to_item (fst vp)) (snd kv) in
         (fst kv, if name_in (fst kv) (allnames r) then DList vs else last vs (DTok TNone)))
      (dict r).
Definition as_list (r : pres) : list tok := pr_as_list r.

(* ---- copy / deepcopy (value level: identity is not represented; see Model/ResultsHeap.v) ---- *)
Definition copy (r : pres) : pres := pr_copy r.
Fixpoint tok_deepcopy (t : tok) : tok :=
  match t with
  | TPR r => TPR (PR (map tok_deepcopy (toks r)) (dict r) (names_union [] (allnames r)) (rname r) true)
  | TList l => TList (map (fun v => match v with TPR _ => tok_deepcopy v | other => other end) l)
  | other => other
  end.
Definition deepcopy (r : pres) : pres :=
  PR (map tok_deepcopy (toks r)) (dict r) (names_union [] (allnames r)) (rname r) true.

(* ---- pickle protocol ---- *)
Definition pstate := (list tok * (list (str * list (tok * Z)) * list str * option str))%type.
Definition getstate (r : pres) : pstate := (toks r, (dict r, allnames r, rname r)).
Definition getnewargs (r : pres) : list tok * option str := (toks r, rname r).
(* `__setstate__` on the object made by `__new__(cls, *getnewargs)`: every slot but `_modal` is overwritten; `__init__`
   does not run, so `_modal` stays unset (it is never read) — represented as true *)
Definition setstate (st : pstate) : pres :=
  match st with (tl, (d, an, nm)) => PR tl d an nm true end.
Definition pickle_roundtrip (r : pres) : pres := setstate (getstate r).

(* ---- get_name (for an object without `_parent`) ---- *)
Definition get_name (r : pres) : option str :=
  match rname r with
  | Some (c :: n) => Some (c :: n)                    (* `if self._name` : a non-empty name *)
  | _ =>
    match toks r, dict r with
    | [_], [(k, occ)] =>
      match occ with
      | (_, p) :: _ => if (p =? 0) || (p =? -1) then Some k else None
      | [] => None
      end
    | _, _ => None
    end
  end.

(* ---- from_dict ---- *)
Inductive pyval :=
| PV (t : tok)                                (* a scalar or a list (TList) *)
| PD (d : list (str * pyval)).                (* a Mapping *)
Definition is_iterable (t : tok) : bool := match t with TList _ => true | TPR _ => true | _ => false end.
(* what `ret += ...` receives for the item (k, v) *)
Fixpoint from_dict_item (k : str) (v : pyval) : pres :=
  match v with
  | PV t => pr_init (RList [t]) (Some k) (is_iterable t) true
  | PD d =>
    let inner := fold_left (fun acc kv => pr_iadd acc (from_dict_item (fst kv) (snd kv))) d (pr_init (RList []) None true true) in
    pr_init (RList [TPR inner]) (Some k) true true
  end.
Definition from_dict (d : list (str * pyval)) : pres :=
  fold_left (fun acc kv => pr_iadd acc (from_dict_item (fst kv) (snd kv))) d (pr_init (RList []) None true true).

(* `ParseResults(x, name, asList=True)` raises TypeError (`toklist[0]` on a scalar) — pr_init is total *)
Definition pr_init_raises (x : raw) (name : option str) (asList : bool) : bool :=
  match name, x with
  | Some (_ :: _), RVal (TInt _) => asList
  | Some (_ :: _), RVal (TBool _) => asList
  | _, _ => false
  end.

(* ------------------------------------------------------------------------------------------------------ *)
(* operations as data                                                                                        *)
(* ------------------------------------------------------------------------------------------------------ *)
Inductive op :=
| OGetInt (i : Z) | OGetSlice (s : slice_) | OGetName (k : str)
| OSetInt (i : Z) (v : tok) | OSetSlice (s : slice_) (vs : list tok) | OSetName (k : str) (v : tok)
| OSetNameOff (k : str) (v : tok) (pos : Z)                 (* r[k] = _ParseResultsWithOffset(v, pos) *)
| ODelInt (i : Z) | ODelSlice (s : slice_) | ODelName (k : str)
| OContains (k : str) | OLen | OBool | OIter | OReversed | OKeys | OValues | OItems | OHaskeys
| OPop (a0 : option popkey) (extra : list tok) (kwdefault : option tok) (badkw : bool)
| OGet (k : str) (dflt : tok)
| OInsert (i : Z) (v : tok) | OAppend (v : tok) | OExtendList (vs : list tok) | OExtendPR (other : pres) | OClear
| OGetAttr (k : str)
| OAdd (other : pres) | OIAdd (other : pres) | ORAddZero | ORAddPR (other : pres)      (* other + self *)
| OAsList | OAsDict | OCopy | ODeepcopy | OPickle | OGetNameM.

Definition opt_state (r : pres) (o : option pres) (e : exn) : pres * result :=
  match o with Some r' => (r', RNone) | None => (r, RExc e) end.
Definition opt_tok (r : pres) (o : option tok) (e : exn) : pres * result :=
  match o with Some v => (r, RTok v) | None => (r, RExc e) end.

Definition apply_op (r : pres) (o : op) : pres * result :=
  match o with
  | OGetInt i => opt_tok r (getitem_int r i) IndexError
  | OGetSlice s => (r, match getitem_slice r s with Some l => RToks l | None => RExc ValueError end)
  | OGetName k => opt_tok r (getitem_name r k) KeyError
  | OSetInt i v => opt_state r (setitem_int r i v) IndexError
  | OSetSlice s vs => opt_state r (setitem_slice r s vs) ValueError
  | OSetName k v => (setitem_name r k v, RNone)
  | OSetNameOff k v pos => (setitem_name_off r k v pos, RNone)
  | ODelInt i => opt_state r (delitem_int r i) IndexError
  | ODelSlice s => opt_state r (delitem_slice r s) ValueError
  | ODelName k => opt_state r (delitem_name r k) KeyError
  | OContains k => (r, RBoolR (contains r k))
  | OLen => (r, RIntR (len r))
  | OBool => (r, RBoolR (pr_bool r))
  | OIter => (r, RToks (iter r))
  | OReversed => (r, RToks (reversed r))
  | OKeys => (r, RKeys (keys r))
  | OValues => (r, RToks (values r))
  | OItems => (r, RItems (items r))
  | OHaskeys => (r, RBoolR (pr_haskeys r))
  | OPop a0 extra kwd badkw => pop r a0 extra kwd badkw
  | OGet k d => (r, RTok (get r k d))
  | OInsert i v => (insert r i v, RNone)
  | OAppend v => (append r v, RNone)
  | OExtendList vs => (extend_list r vs, RNone)
  | OExtendPR other => (extend_pr r other, RNone)
  | OClear => (clear r, RNone)
  | OGetAttr k => (r, getattr r k)
  | OAdd other => (r, RPres (add r other))
  | OIAdd other => (iadd r other, RNone)
  | ORAddZero => (r, RPres (radd_zero r))
  | ORAddPR other => (r, RPres (add other r))
  | OAsList => (r, RToks (as_list r))
  | OAsDict => (r, RDict (as_dict r))
  | OCopy => (r, RPres (copy r))
  | ODeepcopy => (r, RPres (deepcopy r))
  | OPickle => (r, RPres (pickle_roundtrip r))
  | OGetNameM => (r, ROptStr (get_name r))
  end.

(* a history: the results of every step and the final state *)
Fixpoint run_ops (r : pres) (ops : list op) : list result * pres :=
  match ops with
  | [] => ([], r)
  | o :: rest =>
    let (r1, res) := apply_op r o in
    let (rs, rf) := run_ops r1 rest in (res :: rs, rf)
  end.

(* exploration tree used by the correspondence harness: every history of length <= depth over an alphabet, in DFS
   pre-order: (result of the last operation, state after it) *)
Fixpoint explore (depth : nat) (alphabet : list op) (r : pres) : list (result * pres) :=
  match depth with
  | O => []
  | S d => flat_map (fun o => let (r1, res) := apply_op r o in (res, r1) :: explore d alphabet r1) alphabet
  end.
