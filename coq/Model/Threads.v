(* M14 — interleaving model of pyparsing's process-global parse state (DESIGN 2.2 `small_step`, 3 M14, 4 C15).

   Part 1 (Section Packrat): threads evaluating the handler `parsec` of Model/Prog.v ONE SHARED-STATE OPERATION AT A
   TIME, generic in `step`, `A`, `O`, `A_eqb`.  What the code does (pyparsing/core.py):

     _parseCache(a):   with packrat_cache_lock:                      EAcq      (RLock: free or already mine)
                          value = cache.get(lookup)                  EGet hit / EGet miss
                          miss: value = self._parseNoCache(...)      (nested `_parse` calls re-enter the lock)
                                cache.set(lookup, ...)               ESet      (only ParseBaseException / values)
                          hit:  return / raise the stored value
                       (leaving the with-block)                      ERel
     reset_cache():    with packrat_cache_lock:                      EAcq
                          packrat_cache.clear(); stats                EClear
                          recursion_memos.clear()                     EMClear
                                                                     ERel
     parse_string / scan_string / matches / transform_string  =  reset_cache() ; then top-level `_parse` calls that are
     NOT themselves inside any lock: the lock is free between two top-level `_parse` calls (scan_string) and other
     threads, including their reset_cache(), run there.  A parse action that calls parse_string (common._ipv6_part
     .matches, strip_html_tags) does the same INSIDE an outer `_parseCache`, i.e. while this thread already owns the lock.

   An argument `a` with `entry a = true` stands for such an entry-point call (its `step a` is the body after
   reset_cache); every other `Call a k` is a plain `self._parse(...)`.
   `memo_on = false` is disable_memoization(): `_parse = _parseNoCache`, the cache is the NullCache (never stores).

   Part 2 (Section LR): left-recursion mode: `_parse = _parseNoCache`; Forward.parseImpl runs inside
   `with recursion_lock:` and reads/writes `recursion_memos`; reset_cache clears `recursion_memos` while holding
   only packrat_cache_lock. *)
From Coq Require Import List Arith Bool.
From PP Require Import Model.Prog.
Import ListNotations.

Definition tid := nat.

(* RLock bookkeeping shared by both parts *)
Definition can_acq (ow : option tid) (t : tid) : bool :=
  match ow with None => true | Some u => Nat.eqb u t end.

Definition release (ow : option tid) (n : nat) : option tid * nat :=
  match n with S (S m) => (ow, S m) | _ => (None, 0) end.

Fixpoint upd {T} (l : list T) (i : nat) (x : T) : list T :=
  match l, i with
  | [], _ => []
  | _ :: l', 0 => x :: l'
  | y :: l', S i' => y :: upd l' i' x
  end.

(* visible operations; the instrumented lock/cache objects of tools/props/c15.py observe exactly these *)
Inductive ev :=
| EAcq | ERel | EGet (hit : bool) | ESet | EClear      (* packrat_cache_lock, packrat_cache *)
| EAcqR | ERelR | EMGet (hit : bool) | EMSet | EMDel | EMClear   (* recursion_lock, recursion_memos *)
| ETau                                                  (* thread-local computation *)
| EBlock                                                (* scheduled while waiting for a lock owned by another thread *)
| EDone.                                                (* scheduled after it finished (or no such thread) *)

Definition visible (e : ev) : bool :=
  match e with ETau | EBlock | EDone => false | _ => true end.

(* ---- what the model implements, in the vocabulary of the regenerated source facts (Gen/GenLocks.v);
        Props/C15.v proves `src_* = model_*`, so an edit of the locking in core.py breaks a named theorem ---- *)
Inductive lockname := LockP | LockR.            (* packrat_cache_lock, recursion_lock *)
Inductive rop := RAcq (l : lockname) | RRel (l : lockname) | RClearCache | RStats | RClearMemo.
Inductive keyfield := KSelf | KInstring | KLoc | KCallPre | KDoActions.

(* reset_cache = RstClear / RstClearM / RstRel resp. LRstClear / LRstClearM / LRstRel below (the stats reset is not an event) *)
Definition model_reset_ops : list rop := [RAcq LockP; RClearCache; RStats; RClearMemo; RRel LockP].
(* the packrat key: the model's cache key is the whole argument `A` of `_parse` = (element, input, loc, callPreParse, do_actions) *)
Definition model_packrat_key : list keyfield := [KSelf; KInstring; KLoc; KCallPre; KDoActions].
(* the recursion-memo key of Part 2 / ThreadsMini.mkey: (loc, Forward, do_actions) — the input string is NOT part of it *)
Definition model_memo_key : list keyfield := [KLoc; KSelf; KDoActions].
Definition rop_ev (r : rop) : option ev :=
  match r with
  | RAcq LockP => Some EAcq | RRel LockP => Some ERel | RAcq LockR => Some EAcqR | RRel LockR => Some ERelR
  | RClearCache => Some EClear | RClearMemo => Some EMClear | RStats => None
  end.

Section Packrat.
  Variables A O : Type.
  Variable step : A -> prog A O.
  Variable A_eqb : A -> A -> bool.
  Variable size : option nat.
  Variable entry : A -> bool.
  Variable cacheable : O -> bool.      (* values and ParseBaseExceptions; any other exception passes `_parseCache` unstored *)
  Variable memo_on : bool.

  Inductive frame :=
  | FCache (a : A) (k : O -> prog A O)      (* inside `_parseCache(a)`'s with-block after a miss *)
  | FPlain (a : A) (k : O -> prog A O).     (* inside `_parseNoCache(a)` resp. the body of entry point a *)

  Inductive ctl :=
  | Run (p : prog A O)
  | RstClear (a : A) (k : O -> prog A O)    (* inside reset_cache's with-block, before packrat_cache.clear() *)
  | RstClearM (a : A) (k : O -> prog A O)   (* ... before recursion_memos.clear() (the memo is unused in these modes) *)
  | RstRel (a : A) (k : O -> prog A O)      (* about to leave reset_cache's with-block *)
  | Get (a : A) (k : O -> prog A O)         (* inside _parseCache's with-block, before cache.get *)
  | Rel (p : prog A O).                     (* about to leave _parseCache's with-block, then go on as p *)

  Record thread := { t_ctl : ctl; t_stack : list frame }.

  Record config := { c_threads : list thread; c_cache : cache A O; c_owner : option tid; c_count : nat }.

  Definition tstep (t : tid) (th : thread) (c : cache A O) (ow : option tid) (n : nat)
    : thread * cache A O * option tid * nat * ev :=
    let st := t_stack th in
    match t_ctl th with
    | Run (Ret o) =>
        match st with
        | [] => (th, c, ow, n, EDone)
        | FPlain _ k :: st' => ({| t_ctl := Run (k o); t_stack := st' |}, c, ow, n, ETau)
        | FCache a k :: st' =>
            if cacheable o
            then ({| t_ctl := Rel (k o); t_stack := st' |}, cset A_eqb size c a o, ow, n, ESet)
            else ({| t_ctl := Rel (k o); t_stack := st' |}, c, ow, n, ETau)
        end
    | Run (Call a k) =>
        if entry a || memo_on then
          if can_acq ow t
          then ({| t_ctl := if entry a then RstClear a k else Get a k; t_stack := st |}, c, Some t, S n, EAcq)
          else (th, c, ow, n, EBlock)
        else ({| t_ctl := Run (step a); t_stack := FPlain a k :: st |}, c, ow, n, ETau)
    | RstClear a k => ({| t_ctl := RstClearM a k; t_stack := st |}, [], ow, n, EClear)
    | RstClearM a k => ({| t_ctl := RstRel a k; t_stack := st |}, c, ow, n, EMClear)
    | RstRel a k =>
        let '(ow', n') := release ow n in
        ({| t_ctl := Run (step a); t_stack := FPlain a k :: st |}, c, ow', n', ERel)
    | Get a k =>
        match lookup A_eqb c a with
        | Some o => ({| t_ctl := Rel (k o); t_stack := st |}, c, ow, n, EGet true)
        | None => ({| t_ctl := Run (step a); t_stack := FCache a k :: st |}, c, ow, n, EGet false)
        end
    | Rel p =>
        let '(ow', n') := release ow n in
        ({| t_ctl := Run p; t_stack := st |}, c, ow', n', ERel)
    end.

  Definition cstep (t : tid) (cf : config) : config * ev :=
    match nth_error (c_threads cf) t with
    | None => (cf, EDone)
    | Some th =>
        let '(th', c', ow', n', e) := tstep t th (c_cache cf) (c_owner cf) (c_count cf) in
        ({| c_threads := upd (c_threads cf) t th'; c_cache := c'; c_owner := ow'; c_count := n' |}, e)
    end.

  (* a schedule is a list of thread ids; every prefix of every interleaving is some schedule *)
  Fixpoint exec (sched : list tid) (cf : config) : config :=
    match sched with [] => cf | t :: s' => exec s' (fst (cstep t cf)) end.

  Fixpoint trace (sched : list tid) (cf : config) : list (tid * ev) :=
    match sched with [] => [] | t :: s' => (t, snd (cstep t cf)) :: trace s' (fst (cstep t cf)) end.

  Definition init (c0 : cache A O) (progs : list (prog A O)) : config :=
    {| c_threads := map (fun p => {| t_ctl := Run p; t_stack := [] |}) progs;
       c_cache := c0; c_owner := None; c_count := 0 |}.

  Definition result_of (th : thread) : option O :=
    match t_ctl th, t_stack th with Run (Ret o), [] => Some o | _, _ => None end.

  Definition finished (cf : config) (t : tid) : option O :=
    match nth_error (c_threads cf) t with Some th => result_of th | None => None end.

  Definition all_finished (cf : config) : bool :=
    forallb (fun th => match result_of th with Some _ => true | None => false end) (c_threads cf).

  (* how many times a thread is inside a `with packrat_cache_lock:` block *)
  Definition ctl_holds (c : ctl) : nat :=
    match c with Run _ => 0 | _ => 1 end.
  Fixpoint stack_holds (st : list frame) : nat :=
    match st with [] => 0 | FCache _ _ :: st' => S (stack_holds st') | FPlain _ _ :: st' => stack_holds st' end.
  Definition holds (th : thread) : nat := ctl_holds (t_ctl th) + stack_holds (t_stack th).

  (* ---- scheduling at the granularity of visible operations (what the replay harness controls):
          thread t runs its local steps, then exactly one visible operation (or blocks / is done) ---- *)
  Fixpoint vstep (fuel : nat) (t : tid) (cf : config) : config * ev :=
    match fuel with
    | 0 => (cf, ETau)
    | S f => let '(cf', e) := cstep t cf in
             match e with ETau => vstep f t cf' | _ => (cf', e) end
    end.

  Fixpoint vtrace (fuel : nat) (sched : list tid) (cf : config) : list (tid * ev) * config :=
    match sched with
    | [] => ([], cf)
    | t :: s' => let '(cf', e) := vstep fuel t cf in
                 let '(tr, cf'') := vtrace fuel s' cf' in ((t, e) :: tr, cf'')
    end.

  (* run every thread to completion in round-robin order after the schedule is used up (the harness's drain) *)
  Fixpoint drain (fuel : nat) (vf : nat) (cf : config) : list (tid * ev) * config :=
    match fuel with
    | 0 => ([], cf)
    | S f =>
        if all_finished cf then ([], cf) else
        let '(tr1, cf1) := vtrace vf (filter (fun t => match finished cf t with Some _ => false | None => true end)
                                             (seq 0 (length (c_threads cf)))) cf in
        let '(tr2, cf2) := drain f vf cf1 in (tr1 ++ tr2, cf2)
    end.
End Packrat.

Arguments FCache {A O}.
Arguments FPlain {A O}.
Arguments Run {A O}.
Arguments RstClear {A O}.
Arguments RstClearM {A O}.
Arguments RstRel {A O}.
Arguments Get {A O}.
Arguments Rel {A O}.
Arguments t_ctl {A O}.
Arguments t_stack {A O}.
Arguments c_threads {A O}.
Arguments c_cache {A O}.
Arguments c_owner {A O}.
Arguments c_count {A O}.
Arguments result_of {A O}.
Arguments finished {A O}.
Arguments all_finished {A O}.
Arguments init {A O}.
Arguments holds {A O}.
Arguments ctl_holds {A O}.
Arguments stack_holds {A O}.

(* ================================================================================================
   Part 2 — left-recursion mode (enable_left_recursion): `_parse = _parseNoCache`, the packrat cache is the NullCache.

     Forward.parseImpl(a):  with recursion_lock:                       EAcqR   (RLock)
                               memo = recursion_memos ; memo[...] reads / writes / dels      EMGet / EMSet / EMDel
                               nested `_parse` calls (re-entering recursion_lock for nested Forwards)
                            (leaving the with-block)                   ERelR
     reset_cache():         with packrat_cache_lock:                   EAcq
                               packrat_cache.clear()  (NullCache: nothing)                   EClear
                               recursion_memos.clear()                                       EMClear   <- NOT under recursion_lock
                                                                       ERel

   Element semantics here may read and write the memo, so programs are resumption trees with memo operations.
   `locked a = true`: the body of the call runs inside `with recursion_lock:`.
   The memo is an UnboundedMemo (the default of enable_left_recursion()): `__delitem__` is `pass`.
   The memo key type K is whatever the code uses: (loc, Forward, do_actions) — WITHOUT the input string. *)
Section LR.
  Variables A O K V : Type.

  Inductive mprog :=
  | MRet (o : O)
  | MCall (a : A) (k : O -> mprog)
  | MGet (key : K) (k : option V -> mprog)        (* memo[key], None = KeyError *)
  | MSet (key : K) (v : V) (k : mprog)            (* memo[key] = v *)
  | MDel (key : K) (k : mprog).                   (* del memo[key] *)

  Variable mstep : A -> mprog.
  Variable K_eqb : K -> K -> bool.
  Variable entry : A -> bool.
  Variable locked : A -> bool.
  Variable del_is_noop : bool.        (* true = UnboundedMemo.__delitem__ (`pass`); false = a plain dict *)

  Definition memo := list (K * V).

  Fixpoint mlookup (m : memo) (key : K) : option V :=
    match m with [] => None | (k', v) :: m' => if K_eqb k' key then Some v else mlookup m' key end.

  Definition mset (m : memo) (key : K) (v : V) : memo :=
    match mlookup m key with
    | Some _ => map (fun p => if K_eqb (fst p) key then (fst p, v) else p) m
    | None => m ++ [(key, v)]
    end.

  Definition mdel (m : memo) (key : K) : memo :=
    if del_is_noop then m else filter (fun p => negb (K_eqb (fst p) key)) m.

  Inductive lframe :=
  | LPlain (a : A) (k : O -> mprog)       (* inside `_parseNoCache(a)` / the body of entry point a *)
  | LLock (a : A) (k : O -> mprog).       (* inside Forward.parseImpl's `with recursion_lock:` *)

  Inductive lctl :=
  | LRun (p : mprog)
  | LRstClear (a : A) (k : O -> mprog)    (* inside reset_cache's `with packrat_cache_lock:` *)
  | LRstClearM (a : A) (k : O -> mprog)
  | LRstRel (a : A) (k : O -> mprog).

  Record lthread := { l_ctl : lctl; l_stack : list lframe }.

  Record lconfig := { l_threads : list lthread; l_memo : memo;
                      l_pown : option tid; l_pcnt : nat;      (* packrat_cache_lock *)
                      l_rown : option tid; l_rcnt : nat }.    (* recursion_lock *)

  Definition lstep (t : tid) (th : lthread) (cf : lconfig) : lthread * memo * (option tid * nat) * (option tid * nat) * ev :=
    let st := l_stack th in
    let m := l_memo cf in
    let P := (l_pown cf, l_pcnt cf) in
    let R := (l_rown cf, l_rcnt cf) in
    match l_ctl th with
    | LRun (MRet o) =>
        match st with
        | [] => (th, m, P, R, EDone)
        | LPlain _ k :: st' => ({| l_ctl := LRun (k o); l_stack := st' |}, m, P, R, ETau)
        | LLock _ k :: st' => ({| l_ctl := LRun (k o); l_stack := st' |}, m, P, release (l_rown cf) (l_rcnt cf), ERelR)
        end
    | LRun (MCall a k) =>
        if entry a then
          if can_acq (l_pown cf) t
          then ({| l_ctl := LRstClear a k; l_stack := st |}, m, (Some t, S (l_pcnt cf)), R, EAcq)
          else (th, m, P, R, EBlock)
        else if locked a then
          if can_acq (l_rown cf) t
          then ({| l_ctl := LRun (mstep a); l_stack := LLock a k :: st |}, m, P, (Some t, S (l_rcnt cf)), EAcqR)
          else (th, m, P, R, EBlock)
        else ({| l_ctl := LRun (mstep a); l_stack := LPlain a k :: st |}, m, P, R, ETau)
    | LRun (MGet key k) =>
        ({| l_ctl := LRun (k (mlookup m key)); l_stack := st |}, m, P, R,
         EMGet (match mlookup m key with Some _ => true | None => false end))
    | LRun (MSet key v k) => ({| l_ctl := LRun k; l_stack := st |}, mset m key v, P, R, EMSet)
    | LRun (MDel key k) => ({| l_ctl := LRun k; l_stack := st |}, mdel m key, P, R, EMDel)
    | LRstClear a k => ({| l_ctl := LRstClearM a k; l_stack := st |}, m, P, R, EClear)
    | LRstClearM a k => ({| l_ctl := LRstRel a k; l_stack := st |}, [], P, R, EMClear)
    | LRstRel a k =>
        ({| l_ctl := LRun (mstep a); l_stack := LPlain a k :: st |}, m, release (l_pown cf) (l_pcnt cf), R, ERel)
    end.

  Definition lcstep (t : tid) (cf : lconfig) : lconfig * ev :=
    match nth_error (l_threads cf) t with
    | None => (cf, EDone)
    | Some th =>
        let '(th', m', P', R', e) := lstep t th cf in
        ({| l_threads := upd (l_threads cf) t th'; l_memo := m';
            l_pown := fst P'; l_pcnt := snd P'; l_rown := fst R'; l_rcnt := snd R' |}, e)
    end.

  Fixpoint lexec (sched : list tid) (cf : lconfig) : lconfig :=
    match sched with [] => cf | t :: s' => lexec s' (fst (lcstep t cf)) end.

  Fixpoint ltrace (sched : list tid) (cf : lconfig) : list (tid * ev) :=
    match sched with [] => [] | t :: s' => (t, snd (lcstep t cf)) :: ltrace s' (fst (lcstep t cf)) end.

  Definition linit (progs : list mprog) : lconfig :=
    {| l_threads := map (fun p => {| l_ctl := LRun p; l_stack := [] |}) progs;
       l_memo := []; l_pown := None; l_pcnt := 0; l_rown := None; l_rcnt := 0 |}.

  Definition lresult_of (th : lthread) : option O :=
    match l_ctl th, l_stack th with LRun (MRet o), [] => Some o | _, _ => None end.

  Definition lfinished (cf : lconfig) (t : tid) : option O :=
    match nth_error (l_threads cf) t with Some th => lresult_of th | None => None end.

  Definition lall_finished (cf : lconfig) : bool :=
    forallb (fun th => match lresult_of th with Some _ => true | None => false end) (l_threads cf).

  Definition lholdsP (th : lthread) : nat := match l_ctl th with LRun _ => 0 | _ => 1 end.
  Fixpoint lstack_holdsR (st : list lframe) : nat :=
    match st with [] => 0 | LLock _ _ :: st' => S (lstack_holdsR st') | LPlain _ _ :: st' => lstack_holdsR st' end.
  Definition lholdsR (th : lthread) : nat := lstack_holdsR (l_stack th).

  Fixpoint lvstep (fuel : nat) (t : tid) (cf : lconfig) : lconfig * ev :=
    match fuel with
    | 0 => (cf, ETau)
    | S f => let '(cf', e) := lcstep t cf in
             match e with ETau => lvstep f t cf' | _ => (cf', e) end
    end.

  Fixpoint lvtrace (fuel : nat) (sched : list tid) (cf : lconfig) : list (tid * ev) * lconfig :=
    match sched with
    | [] => ([], cf)
    | t :: s' => let '(cf', e) := lvstep fuel t cf in
                 let '(tr, cf'') := lvtrace fuel s' cf' in ((t, e) :: tr, cf'')
    end.
End LR.

Arguments MRet {A O K V}.
Arguments MCall {A O K V}.
Arguments MGet {A O K V}.
Arguments MSet {A O K V}.
Arguments MDel {A O K V}.
Arguments LPlain {A O K V}.
Arguments LLock {A O K V}.
Arguments LRun {A O K V}.
Arguments LRstClear {A O K V}.
Arguments LRstClearM {A O K V}.
Arguments LRstRel {A O K V}.
Arguments l_ctl {A O K V}.
Arguments l_stack {A O K V}.
Arguments l_threads {A O K V}.
Arguments l_memo {A O K V}.
Arguments l_pown {A O K V}.
Arguments l_pcnt {A O K V}.
Arguments l_rown {A O K V}.
Arguments l_rcnt {A O K V}.
Arguments linit {A O K V}.
Arguments lresult_of {A O K V}.
Arguments lfinished {A O K V}.
Arguments lall_finished {A O K V}.
Arguments lholdsP {A O K V}.
Arguments lholdsR {A O K V}.
Arguments lstack_holdsR {A O K V}.

Definition ev_code (e : ev) : nat :=
  match e with
  | EAcq => 1 | ERel => 2 | EGet true => 3 | EGet false => 4 | ESet => 5 | EClear => 6
  | EAcqR => 7 | ERelR => 8 | EMGet true => 9 | EMGet false => 10 | EMSet => 11 | EMDel => 12 | EMClear => 13
  | ETau => 14 | EBlock => 15 | EDone => 16
  end.
