(* M11 (base part) — value types of pyparsing's process-wide settings and the small control-flow monad
   that the regenerated file Gen/GenSettings.v (tools/translate/gen_settings.py) is written in.
   Executable definitions only, no proofs.

   The settings record itself, the saved-context record, `save`, `restore` and every setter are NOT here:
   they are regenerated from /repo on every run (Gen/GenSettings.v).  Model/SettingsRun.v (operation
   histories) is built on top of the generated file. *)
From Coq Require Import List ZArith NArith Bool.
From PP Require Import Model.Str.
Import ListNotations.

(* Python exception classes that the modelled functions can raise *)
Inductive exn := RuntimeError | NotImplementedError | ValueError | AttributeError | KeyError.

(* The class installed by inline_literals_using: only its identity matters (0 = Literal, 1 = Suppress, ...,
   numbering chosen by the harness). *)
Definition litclass := N.

(* "which cache object is installed" as ParserElement.packrat_cache: class and size; contents are not a setting *)
Inductive pcache := PNull | PUnbounded | PFifo (size : Z).
(* ParserElement.recursion_memos: the plain dict of the class body, UnboundedMemo, LRUMemo(capacity) *)
Inductive memo := MDict | MUnbounded | MLRU (capacity : Z).
(* the function bound to ParserElement._parse *)
Inductive parsefn := ParseNoCache | ParseCache.

(* `cache.size`: _FifoCache -> its size, _UnboundedCache -> None, NullCache has no such attribute (AttributeError).
   outer None = AttributeError *)
Definition pcache_size (c : pcache) : option (option Z) :=
  match c with PNull => None | PUnbounded => Some None | PFifo n => Some (Some n) end.

(* Python values that can end up in a __compat__ flag: the pinned restore() stores a dict there, and a later
   save() wraps whatever it finds in a new dict, so nesting is unbounded.  Keys are the key strings. *)
Inductive pyval := PVBool (b : bool) | PVDict (kvs : list (str * pyval)).

Definition truthy (v : pyval) : bool :=
  match v with PVBool b => b | PVDict [] => false | PVDict (_ :: _) => true end.

(* Just enough of a ParserElement object for the whitespace-scope part of C19.
   e_white stands for the *set* whiteChars = set(e_white): the model keeps the string the set was built from. *)
Record expr_obj := mkExpr { e_white : str; e_copydef : bool }.
Definition set_e_white (w : str) (e : expr_obj) : expr_obj := mkExpr w (e_copydef e).
Definition set_e_copydef (b : bool) (e : expr_obj) : expr_obj := mkExpr (e_white e) b.

(* ---- control flow of a translated function body ------------------------------------------------------ *)
Section Flow.
  Variable S : Type.
  (* result of a call: returned normally / raised, each with the global state it leaves behind *)
  Inductive result := Ok (s : S) | Raised (e : exn) (s : S).
  (* state of a statement list: fall through / `return` executed / exception in flight *)
  Inductive flow := Next (s : S) | Return (s : S) | Raise (e : exn) (s : S).
  Definition seq (a : flow) (k : S -> flow) : flow := match a with Next s => k s | x => x end.
  Definition call (r : result) (k : S -> flow) : flow :=
    match r with Ok s => k s | Raised e s => Raise e s end.
  Definition finish (f : flow) : result :=
    match f with Next s => Ok s | Return s => Ok s | Raise e s => Raised e s end.
  Definition result_state (r : result) : S := match r with Ok s => s | Raised _ s => s end.
  Definition result_exn (r : result) : option exn := match r with Ok _ => None | Raised e _ => Some e end.
End Flow.
Arguments Ok {S}. Arguments Raised {S}. Arguments Next {S}. Arguments Return {S}. Arguments Raise {S}.
Arguments seq {S}. Arguments call {S}. Arguments finish {S}. Arguments result_state {S}. Arguments result_exn {S}.

(* result of save(): the context it built, or the exception raised while reading the globals *)
Inductive cresult (C : Type) := COk (c : C) | CRaised (e : exn).
Arguments COk {C}. Arguments CRaised {C}.
