(* M11 (histories) — operation alphabet on the process-wide settings, contexts as first-class objects, and the
   execution of finite operation histories.  Everything an operation *does* is a call of a function regenerated
   from the source (Gen/GenSettings.v); this file only says which Python call an operation stands for.
   Executable definitions only, no proofs.

   A `with reset_pyparsing_context(): body` block is the history  OSave :: body ++ [ORestore k]  where k is the
   index the new context object got (= number of context objects created before).  Context objects are never
   destroyed (a Python object one holds a reference to), so nested / interleaved / repeated save and restore
   calls, and copy(), are all expressible.  An operation that raises is caught by the caller (the history goes
   on with the state the failed call left behind) - this subsumes "the body of the with-block was cut short". *)
From Coq Require Import List ZArith NArith Bool.
From PP Require Import Model.Str Model.Settings Gen.GenSettings.
Import ListNotations.

Inductive op :=
| OSetWs (chars : str)                          (* ParserElement.set_default_whitespace_chars(chars) *)
| OSetKw (chars : str)                          (* Keyword.set_default_keyword_chars(chars) *)
| OInline (c : litclass)                        (* ParserElement.inline_literals_using(cls) *)
| OPackrat (size : option Z) (force : bool)     (* ParserElement.enable_packrat(size, force=force) *)
| OLR (size : option Z) (force : bool)          (* ParserElement.enable_left_recursion(size, force=force) *)
| ODisable                                      (* ParserElement.disable_memoization() *)
| OResetCache                                   (* ParserElement.reset_cache() *)
| ODiagEnable (n : flagname)                    (* __diag__.enable(name) *)
| ODiagDisable (n : flagname)                   (* __diag__.disable(name) *)
| OEnableDiag (n : flagname)                    (* enable_diag(Diagnostics.<n>) *)
| ODisableDiag (n : flagname)                   (* disable_diag(Diagnostics.<n>) *)
| OAllWarnings                                  (* enable_all_warnings() *)
| OCompatEnable (n : flagname)                  (* __compat__.enable(name) *)
| OCompatDisable (n : flagname)                 (* __compat__.disable(name) *)
| OCompatAssign (n : flagname) (b : bool)       (* __compat__.<n> = b   (plain attribute assignment) *)
| OVerbose (b : bool)                           (* ParserElement.verbose_stacktrace = b *)
| ONew                                          (* create an expression (ParserElement.__init__) *)
| OCopy (i : nat)                               (* users[i].copy()  -> appended to users *)
| OCopyBuiltin (i : nat)                        (* _builtin_exprs[i].copy() -> appended to users *)
| OSetWsOf (i : nat) (chars : str) (cd : bool)  (* users[i].set_whitespace_chars(chars, copy_defaults=cd) *)
| OSave                                         (* k = reset_pyparsing_context().save()   (a new context object) *)
| ORestore (i : nat)                            (* ctxs[i].restore() *)
| OCtxCopy (i : nat).                           (* ctxs[i].copy()  (a new context object) *)

Record world := mkWorld { w_st : state; w_ctxs : list ctx }.

Fixpoint replace_nth {A} (l : list A) (i : nat) (f : A -> A) : list A :=
  match l, i with
  | [], _ => []
  | x :: t, O => f x :: t
  | x :: t, S j => x :: replace_nth t j f
  end.

Definition lift (r : result state) (w : world) : world * option exn :=
  (mkWorld (result_state r) (w_ctxs w), result_exn r).

(* one operation: the world it leaves and the exception it raised, if any.
   An index that does not name an existing object makes the operation a no-op (the harness never emits one). *)
Definition step (o : op) (w : world) : world * option exn :=
  let s := w_st w in
  match o with
  | OSetWs ch => lift (gen_set_default_whitespace_chars ch s) w
  | OSetKw ch => lift (gen_set_default_keyword_chars ch s) w
  | OInline c => lift (gen_inline_literals_using c s) w
  | OPackrat sz f => lift (gen_enable_packrat sz f s) w
  | OLR sz f => lift (gen_enable_left_recursion sz f s) w
  | ODisable => lift (gen_disable_memoization s) w
  | OResetCache => lift (gen_reset_cache s) w
  | ODiagEnable n => lift (gen_diag_enable n s) w
  | ODiagDisable n => lift (gen_diag_disable n s) w
  | OEnableDiag n => lift (gen_enable_diag n s) w
  | ODisableDiag n => lift (gen_disable_diag n s) w
  | OAllWarnings => lift (gen_enable_all_warnings s) w
  | OCompatEnable n => lift (gen_compat_enable n s) w
  | OCompatDisable n => lift (gen_compat_disable n s) w
  | OCompatAssign n b => (mkWorld (setattr_compat n b s) (w_ctxs w), None)
  | OVerbose b => (mkWorld (set_s_verbose b s) (w_ctxs w), None)
  | ONew => (mkWorld (set_s_users (s_users s ++ [gen_new_expr s]) s) (w_ctxs w), None)
  | OCopy i =>
      match nth_error (s_users s) i with
      | Some e => (mkWorld (set_s_users (s_users s ++ [gen_copy_expr e s]) s) (w_ctxs w), None)
      | None => (w, None)
      end
  | OCopyBuiltin i =>
      match nth_error (s_builtins s) i with
      | Some e => (mkWorld (set_s_users (s_users s ++ [gen_copy_expr e s]) s) (w_ctxs w), None)
      | None => (w, None)
      end
  | OSetWsOf i ch cd =>
      (mkWorld (set_s_users (replace_nth (s_users s) i (gen_set_whitespace_chars ch cd)) s) (w_ctxs w), None)
  | OSave =>
      match gen_save s with
      | COk c => (mkWorld s (w_ctxs w ++ [c]), None)
      | CRaised e => (w, Some e)
      end
  | ORestore i =>
      match nth_error (w_ctxs w) i with
      | Some c => lift (gen_restore c s) w
      | None => (w, None)
      end
  | OCtxCopy i =>
      match nth_error (w_ctxs w) i with
      | Some c => (mkWorld s (w_ctxs w ++ [gen_ctx_copy c]), None)
      | None => (w, None)
      end
  end.

Fixpoint run (ops : list op) (w : world) : world :=
  match ops with
  | [] => w
  | o :: t => run t (fst (step o w))
  end.

(* what the harness compares: after every operation, the exception (if any) and the whole state *)
Fixpoint trace (ops : list op) (w : world) : list (option exn * state) :=
  match ops with
  | [] => []
  | o :: t => let r := step o w in (snd r, w_st (fst r)) :: trace t (fst r)
  end.

(* outcome of the last operation of a history *)
Fixpoint last_exn (ops : list op) (w : world) : option exn :=
  match ops with
  | [] => None
  | [o] => snd (step o w)
  | o :: t => last_exn t (fst (step o w))
  end.

(* does the operation write into an existing user expression? (only OSetWsOf does) *)
Definition targets_user (o : op) : bool := match o with OSetWsOf _ _ _ => true | _ => false end.

(* the same state with the expression store blanked: "every setting" *)
Definition settings_of (s : state) : state := set_s_users [] (set_s_builtins [] s).

(* set_default_whitespace_chars' effect on the list of built-in expressions *)
Definition bsync (chars : str) (l : list expr_obj) : list expr_obj :=
  map (fun e => if e_copydef e then set_e_white chars e else e) l.

(* `with reset_pyparsing_context(): body` executed in world w: the context object it creates gets index length (w_ctxs w) *)
Definition with_block (body : list op) (w : world) : list op := OSave :: body ++ [ORestore (length (w_ctxs w))].

(* packrat and left recursion not both enabled; packrat enabled => a real cache object is installed;
   the caching _parse is bound exactly when packrat is enabled *)
Definition good (s : state) : Prop :=
  s_packrat s && s_lr s = false /\ (s_packrat s = true -> s_pcache s <> PNull) /\
  s_parse s = (if s_packrat s then ParseCache else ParseNoCache).

(* built-ins whose whitespace follows the default *)
Definition builtins_synced (s : state) : Prop := bsync (s_ws s) (s_builtins s) = s_builtins s.

(* the world right after `import pyparsing` (b = the built-in expressions) *)
Definition import_world (b : list expr_obj) : world := mkWorld (initial_state b) [].

(* ---- the pinned (pre-fix) save/restore, for the refutation witnesses only --------------------------- *)
Definition old_with (body : state -> state) (s : state) : option (result state) :=
  match old_save s with
  | COk c => Some (old_restore c (body s))
  | CRaised _ => None
  end.
