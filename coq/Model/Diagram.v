(* M12: the railroad converter of pyparsing/diagram/__init__.py as an executable model.

   Modelled at assignment granularity: the grammar as a graph of element objects (ids = Python object identity, may be
   cyclic through Forward), the heap of EditablePartial objects (kwargs "item" / "items" are mutable slots that
   extract_into_diagram and the child loop of _to_diagram_element overwrite), ElementState / ConverterState, the module
   level bookmark table of _make_bookmark, to_railroad's post-processing (root extraction, de-duplication by name,
   "..." removal, stable sort by index) and resolve_partial.

   Python recursion is unbounded: conv recurses on explicit fuel and returns OutOfFuel; the recursion depth of
   _to_diagram_element calls is recorded in c_maxdepth (each such call costs two Python frames: the decorator's
   _inner and the function itself).

   Executable definitions only; proofs are in Proofs/DiagramProofs.v. *)
From Coq Require Import List NArith Arith Bool.
From PP Require Import Model.Str.
Import ListNotations.
Local Open Scope nat_scope.

(* ------------------------------------------------------------------------------------------------ strings *)
Fixpoint dec_aux (fuel n : nat) (acc : str) : str :=
  match fuel with
  | 0 => acc
  | S f => let acc' := N.of_nat (48 + n mod 10) :: acc in
           if n / 10 =? 0 then acc' else dec_aux f (n / 10) acc'
  end.
(* str(n) *)
Definition dec (n : nat) : str := dec_aux (S n) n [].
(* f"{n:04d}" *)
Definition fmt4 (n : nat) : str := let s := dec n in repeat 48%N (4 - length s) ++ s.

Definition HYPHEN : char := 45%N.
Definition is_upper (c : char) : bool := (N.leb 65 c && N.leb c 90)%N.
Definition is_lower (c : char) : bool := (N.leb 97 c && N.leb c 122)%N.
Definition is_digit (c : char) : bool := (N.leb 48 c && N.leb c 57)%N.
Definition is_alpha (c : char) : bool := is_upper c || is_lower c.
Definition bm_valid (c : char) : bool := is_alpha c || is_digit c || N.eqb c HYPHEN.
Definition lower_c (c : char) : char := if is_upper c then (c + 32)%N else c.
Definition lower (s : str) : str := map lower_c s.

(* re.sub(r'[^a-zA-Z0-9-]+', '-', s) *)
Fixpoint resub (s : str) (inrun : bool) : str :=
  match s with
  | [] => []
  | c :: t => if bm_valid c then c :: resub t false
              else if inrun then resub t true else HYPHEN :: resub t true
  end.
Fixpoint lstrip_h (s : str) : str :=
  match s with
  | c :: t => if N.eqb c HYPHEN then lstrip_h t else s
  | [] => []
  end.
Definition strip_h (s : str) : str := rev (lstrip_h (rev (lstrip_h s))).

(* the part of _make_bookmark before the counter suffix *)
Definition sanitize (s : str) : str :=
  let b := resub s false in
  let b := match b with c :: _ => if is_alpha c then b else 122%N :: b | [] => [122%N] end in
  strip_h (lower b).

Definition bookmark_of (s : str) (n : nat) : str := sanitize s ++ HYPHEN :: fmt4 n.

Definition py_repr (s : str) : str := 39%N :: s ++ [39%N].   (* repr() of a str without quotes/backslashes/controls *)

Definition truthy (o : option str) : bool := match o with Some (_ :: _) => true | _ => false end.
Definition ostr_eqb (a b : option str) : bool :=
  match a, b with
  | Some x, Some y => str_eqb x y
  | None, None => true
  | _, _ => false
  end.

Definition S_NOT : str := [91; 78; 79; 84; 93]%N.                                        (* "[NOT]" *)
Definition S_LOOKAHEAD : str := [91; 76; 79; 79; 75; 65; 72; 69; 65; 68; 93]%N.          (* "[LOOKAHEAD]" *)
Definition S_LOOKBEHIND : str := [91; 76; 79; 79; 75; 66; 69; 72; 73; 78; 68; 93]%N.     (* "[LOOKBEHIND]" *)
Definition S_TOKENCONVERTER : str := [116; 111; 107; 101; 110; 99; 111; 110; 118; 101; 114; 116; 101; 114]%N.
Definition ELLIPSIS : str := [46; 46; 46]%N.                                             (* "..." *)
Definition UNNAMED : str := [85; 110; 110; 97; 109; 101; 100; 32]%N.                     (* "Unnamed " *)

(* ------------------------------------------------------------------------------------------------ grammar graph *)
Definition id := nat.
Definition ref := nat.

Inductive kind :=
| KAnd | KOr (* Or, MatchFirst *) | KEach | KNotAny | KFollowedBy | KPrecededBy | KGroup
| KTokConv      (* TokenConverter other than Group: Combine, Dict, Suppress, ... *)
| KOpt | KOneOrMore | KZeroOrMore   (* without stop_on *)
| KEmpty        (* isinstance(e, Empty): Empty, And._ErrorStop, ... *)
| KFwd          (* Forward, Located: by-passed when unnamed; otherwise a ParseElementEnhance *)
| KEnh          (* any other ParseElementEnhance: SkipTo, DelimitedList, AtLineStart, ... *)
| KRegex
| KOther.       (* any other class: tokens (no children) or a foreign class with children *)

Record node := {
  n_kind : kind;
  n_custom : option str;     (* element.customName *)
  n_rname : option str;      (* element.resultsName *)
  n_modal : bool;            (* element.modalResults *)
  n_show : bool;             (* element.show_in_diagram *)
  n_vis : bool;              (* counted by _visible_exprs (not ParseElementEnhance / PositionToken / _ErrorStop) *)
  n_tname : str;             (* type(element).__name__ *)
  n_dname : str;             (* element.default_name *)
  n_pat : str;               (* element.pattern (Regex only; no newline) *)
  n_kids : list id           (* element.recurse() *)
}.
Definition graph := list (id * node).

Definition dummy_node : node :=
  {| n_kind := KOther; n_custom := None; n_rname := None; n_modal := true; n_show := true; n_vis := true;
     n_tname := [63%N]; n_dname := [63%N]; n_pat := []; n_kids := [] |}.

Fixpoint assoc {A} (k : nat) (l : list (nat * A)) : option A :=
  match l with
  | [] => None
  | (k', v) :: t => if k =? k' then Some v else assoc k t
  end.
(* dict[k] = v : keeps the position of an existing key *)
Fixpoint assoc_set {A} (k : nat) (v : A) (l : list (nat * A)) : list (nat * A) :=
  match l with
  | [] => [(k, v)]
  | (k', v') :: t => if k =? k' then (k, v) :: t else (k', v') :: assoc_set k v t
  end.
Fixpoint assoc_del {A} (k : nat) (l : list (nat * A)) : list (nat * A) :=
  match l with
  | [] => []
  | (k', v') :: t => if k =? k' then t else (k', v') :: assoc_del k t
  end.

(* ids that do not occur in the graph behave as childless tokens (the harness only supplies closed graphs) *)
Definition gnode (G : graph) (x : id) : node := match assoc x G with Some n => n | None => dummy_node end.
Definition kids (G : graph) (x : id) : list id := n_kids (gnode G x).
Definition has_kids (G : graph) (x : id) : bool := match kids G x with [] => false | _ => true end.
(* _worth_extracting *)
Definition worth (G : graph) (x : id) : bool := existsb (has_kids G) (kids G x).
Definition ename (G : graph) (x : id) : str :=     (* element.name *)
  match n_custom (gnode G x) with Some c => c | None => n_dname (gnode G x) end.

Record opts := { o_vertical : option nat; o_rnames : bool; o_groups : bool; o_hidden : bool }.

(* ------------------------------------------------------------------------------------------------ partial heap *)
Inductive pfunc :=
| FNonTerminal (text href : str) | FTerminal (text : str)
| FSequence | FStack | FChoice | FHChoice | FEach
| FAnnot (label : str)             (* AnnotatedItem, label as displayed *)
| FGroup (label : option str)      (* railroad.Group itself *)
| FOptional | FOneOrMore (repeat : option str) | FZeroOrMore.

Inductive ival := IVNone | IVEmpty | IVRef (r : ref).       (* None, "", a partial *)
Inductive slot := SLeaf | SItem (v : ival) | SItems (l : list (option ref)).
Record pnode := { p_func : pfunc; p_slot : slot }.

Definition is_group (f : pfunc) : bool := match f with FGroup _ => true | _ => false end.

Record estate := {
  es_conv : ref; es_parent : option ref; es_pidx : nat; es_number : nat;
  es_name : option str; es_extract : bool; es_complete : bool }.

Record dentry := { d_name : str; d_content : ival; d_index : nat }.

Record cstate := {
  c_heap : list pnode;
  c_states : list (id * estate);
  c_diagrams : list (id * dentry);      (* insertion ordered, like the dict *)
  c_index : nat;
  c_unnamed : nat;                      (* ConverterState.unnamed_index *)
  c_bm : list (str * str);              (* _bookmark_lookup *)
  c_bmnext : nat;                       (* next value of _bookmark_ids *)
  c_maxdepth : nat;
  c_err : bool                          (* a Python IndexError/KeyError/TypeError would have been raised *)
}.

Definition init_state : cstate :=
  {| c_heap := []; c_states := []; c_diagrams := []; c_index := 0; c_unnamed := 1; c_bm := []; c_bmnext := 1;
     c_maxdepth := 0; c_err := false |}.

Definition set_heap (st : cstate) (h : list pnode) : cstate :=
  {| c_heap := h; c_states := c_states st; c_diagrams := c_diagrams st; c_index := c_index st; c_unnamed := c_unnamed st;
     c_bm := c_bm st; c_bmnext := c_bmnext st; c_maxdepth := c_maxdepth st; c_err := c_err st |}.
Definition set_states (st : cstate) (s : list (id * estate)) : cstate :=
  {| c_heap := c_heap st; c_states := s; c_diagrams := c_diagrams st; c_index := c_index st; c_unnamed := c_unnamed st;
     c_bm := c_bm st; c_bmnext := c_bmnext st; c_maxdepth := c_maxdepth st; c_err := c_err st |}.
Definition set_diagrams (st : cstate) (d : list (id * dentry)) : cstate :=
  {| c_heap := c_heap st; c_states := c_states st; c_diagrams := d; c_index := c_index st; c_unnamed := c_unnamed st;
     c_bm := c_bm st; c_bmnext := c_bmnext st; c_maxdepth := c_maxdepth st; c_err := c_err st |}.
Definition set_index (st : cstate) (i : nat) : cstate :=
  {| c_heap := c_heap st; c_states := c_states st; c_diagrams := c_diagrams st; c_index := i; c_unnamed := c_unnamed st;
     c_bm := c_bm st; c_bmnext := c_bmnext st; c_maxdepth := c_maxdepth st; c_err := c_err st |}.
Definition set_unnamed (st : cstate) (k : nat) : cstate :=
  {| c_heap := c_heap st; c_states := c_states st; c_diagrams := c_diagrams st; c_index := c_index st; c_unnamed := k;
     c_bm := c_bm st; c_bmnext := c_bmnext st; c_maxdepth := c_maxdepth st; c_err := c_err st |}.
Definition set_bm (st : cstate) (t : list (str * str)) (n : nat) : cstate :=
  {| c_heap := c_heap st; c_states := c_states st; c_diagrams := c_diagrams st; c_index := c_index st; c_unnamed := c_unnamed st;
     c_bm := t; c_bmnext := n; c_maxdepth := c_maxdepth st; c_err := c_err st |}.
Definition note_depth (d : nat) (st : cstate) : cstate :=
  {| c_heap := c_heap st; c_states := c_states st; c_diagrams := c_diagrams st; c_index := c_index st; c_unnamed := c_unnamed st;
     c_bm := c_bm st; c_bmnext := c_bmnext st; c_maxdepth := Nat.max (c_maxdepth st) d; c_err := c_err st |}.
Definition set_err (st : cstate) : cstate :=
  {| c_heap := c_heap st; c_states := c_states st; c_diagrams := c_diagrams st; c_index := c_index st; c_unnamed := c_unnamed st;
     c_bm := c_bm st; c_bmnext := c_bmnext st; c_maxdepth := c_maxdepth st; c_err := true |}.

Definition alloc (p : pnode) (st : cstate) : ref * cstate := (length (c_heap st), set_heap st (c_heap st ++ [p])).

Fixpoint list_set {A} (i : nat) (v : A) (l : list A) : list A :=
  match l, i with
  | [], _ => []
  | _ :: t, 0 => v :: t
  | x :: t, S j => x :: list_set j v t
  end.
Definition insert_at {A} (i : nat) (v : A) (l : list A) : list A := firstn i l ++ v :: skipn i l.   (* list.insert *)
Definition remove_at {A} (i : nat) (l : list A) : list A := firstn i l ++ skipn (S i) l.           (* del l[i] *)

Definition slot_of (st : cstate) (r : ref) : slot :=
  match nth_error (c_heap st) r with Some p => p_slot p | None => SLeaf end.
Definition set_slot (st : cstate) (r : ref) (s : slot) : cstate :=
  match nth_error (c_heap st) r with
  | Some p => set_heap st (list_set r {| p_func := p_func p; p_slot := s |} (c_heap st))
  | None => st
  end.
(* kwargs["item"] = v   /   kwargs["items"][i] = v   (the if/elif of the code) *)
Definition put_child (st : cstate) (r : ref) (i : nat) (v : ref) : cstate :=
  match slot_of st r with
  | SItem _ => set_slot st r (SItem (IVRef v))
  | SItems l => if i <? length l then set_slot st r (SItems (list_set i (Some v) l)) else set_err st
  | SLeaf => st
  end.

Fixpoint str_assoc (k : str) (l : list (str * str)) : option str :=
  match l with
  | [] => None
  | (k', v) :: t => if str_eqb k k' then Some v else str_assoc k t
  end.

(* _make_bookmark *)
Definition make_bookmark (s : str) (st : cstate) : str * cstate :=
  match str_assoc s (c_bm st) with
  | Some b => (b, st)
  | None => let b := bookmark_of s (c_bmnext st) in (b, set_bm st ((s, b) :: c_bm st) (S (c_bmnext st)))
  end.

Definition oname (o : option str) : str := match o with Some s => s | None => [] end.

(* EditablePartial.from_call(railroad.NonTerminal, text=text, href="#" + _make_bookmark(text)) *)
Definition new_nonterminal (text : str) (st : cstate) : ref * cstate :=
  let '(b, st) := make_bookmark text st in
  alloc {| p_func := FNonTerminal text (35%N :: b); p_slot := SLeaf |} st.

(* ConverterState.extract_into_diagram *)
Definition extract_into_diagram (x : id) (st : cstate) : cstate :=
  match assoc x (c_states st) with
  | None => set_err st
  | Some pos =>
    let st :=
      match es_parent pos with
      | Some p => let '(r, st) := new_nonterminal (oname (es_name pos)) st in put_child st p (es_pidx pos) r
      | None => st
      end in
    let content :=
      match nth_error (c_heap st) (es_conv pos) with
      | Some pn => if is_group (p_func pn)
                   then match p_slot pn with SItem v => v | _ => IVRef (es_conv pos) end
                   else IVRef (es_conv pos)
      | None => IVRef (es_conv pos)
      end in
    let st := set_diagrams st (assoc_set x {| d_name := oname (es_name pos); d_content := content; d_index := es_number pos |}
                                         (c_diagrams st)) in
    set_states st (assoc_del x (c_states st))
  end.

(* ElementState.mark_for_extraction *)
Definition mark_for_extraction (G : graph) (x : id) (name : option str) (force : bool) (st : cstate) : cstate :=
  match assoc x (c_states st) with
  | None => set_err st
  | Some s =>
    let nm := if truthy (es_name s) then es_name s
              else if truthy name then name
              else if truthy (n_custom (gnode G x)) then n_custom (gnode G x)
              else Some [] in
    let s' := {| es_conv := es_conv s; es_parent := es_parent s; es_pidx := es_pidx s; es_number := es_number s;
                 es_name := nm; es_extract := true; es_complete := es_complete s |} in
    let st := set_states st (assoc_set x s' (c_states st)) in
    if force || (es_complete s && worth G x) then extract_into_diagram x st else st
  end.

(* ------------------------------------------------------------------------------------------------ conversion *)
Inductive res (A : Type) := Ok (a : A) | OutOfFuel.
Arguments Ok {A} a.
Arguments OutOfFuel {A}.

Definition vis_count (G : graph) (es : list id) : nat := length (filter (fun e => n_vis (gnode G e)) es).
Definition should_vertical (G : graph) (o : opts) (es : list id) : bool :=
  match o_vertical o with None => false | Some v => v <=? vis_count G es end.

Definition same_key (G : graph) (a b : id) : bool :=
  str_eqb (ename G a) (ename G b) && ostr_eqb (n_rname (gnode G a)) (n_rname (gnode G b)).
(* len(set((e.name, e.resultsName) for e in exprs)) == 1 and len(exprs) > 2 *)
Definition times_n (G : graph) (es : list id) : bool :=
  match es with
  | a :: _ => forallb (same_key G a) es && (2 <? length es)
  | [] => false
  end.

(* the isinstance chain: None = "return None" *)
Definition choose (G : graph) (o : opts) (x : id) (name : str) : option pnode :=
  let n := gnode G x in
  let es := n_kids n in
  let mk f s := Some {| p_func := f; p_slot := s |} in
  match n_kind n with
  | KAnd => match es with [] => None | _ =>
              if times_n G es then mk (FOneOrMore (Some (dec (length es)))) (SItem IVEmpty)
              else if should_vertical G o es then mk FStack (SItems []) else mk FSequence (SItems []) end
  | KOr => match es with [] => None | _ =>
              if should_vertical G o es then mk FChoice (SItems []) else mk FHChoice (SItems []) end
  | KEach => match es with [] => None | _ => mk FEach (SItems []) end
  | KNotAny => mk (FAnnot S_NOT) (SItem IVEmpty)
  | KFollowedBy => mk (FAnnot S_LOOKAHEAD) (SItem IVEmpty)
  | KPrecededBy => mk (FAnnot S_LOOKBEHIND) (SItem IVEmpty)
  | KGroup => if o_groups o then mk (FAnnot []) (SItem IVEmpty) else mk (FGroup (n_rname n)) (SItem IVNone)
  | KTokConv => let label := lower (n_tname n) in
                if str_eqb label S_TOKENCONVERTER then mk FSequence (SItems [])
                else mk (FAnnot (91%N :: label ++ [93%N])) (SItem IVEmpty)
  | KOpt => mk FOptional (SItem IVEmpty)
  | KOneOrMore => mk (FOneOrMore None) (SItem IVNone)
  | KZeroOrMore => mk FZeroOrMore (SItem IVEmpty)
  | KFwd | KEnh => mk FSequence (SItems [])
  | KEmpty | KRegex | KOther =>
      let generic :=
        match es with
        | _ :: _ => if truthy (n_rname n) then mk FSequence (SItems []) else mk (FGroup (Some name)) (SItem IVEmpty)
        | [] => match n_kind n with KRegex => mk (FTerminal (n_pat n)) SLeaf | _ => mk (FTerminal (n_dname n)) SLeaf end
        end in
      match n_kind n with
      | KEmpty => if truthy (n_custom n) then generic else None
      | _ => generic
      end
  end.

(* the decorator _apply_diagram_item_enhancements *)
Definition wrap_rn (G : graph) (o : opts) (x : id) (ret : option ref) (st : cstate) : option ref * cstate :=
  match ret with
  | Some r =>
    if o_rnames o && truthy (n_rname (gnode G x)) then
      let label := py_repr (oname (n_rname (gnode G x))) ++ (if n_modal (gnode G x) then [] else [42%N]) in
      let '(g, st) := alloc {| p_func := FGroup (Some label); p_slot := SItem (IVRef r) |} st in (Some g, st)
    else (ret, st)
  | None => (None, st)
  end.

Definition bypass (G : graph) (x : id) : bool :=
  negb (truthy (n_custom (gnode G x))) &&
  match n_kind (gnode G x) with KFwd => has_kids G x | _ => false end.

Definition with_items (st : cstate) (r : ref) (f : list (option ref) -> list (option ref)) : cstate :=
  match slot_of st r with SItems l => set_slot st r (SItems (f l)) | _ => st end.

(* what the loop body does with the value returned for one child *)
Definition place (st : cstate) (r : ref) (i : nat) (item : option ref) : nat * cstate :=
  match item with
  | Some it =>
    match slot_of st r with
    | SItem _ => (i, set_slot st r (SItem (IVRef it)))
    | SItems l => (S i, if i <? length l then set_slot st r (SItems (list_set i (Some it) l)) else set_err st)
    | SLeaf => (i, st)
    end
  | None => (i, with_items st r (remove_at i))
  end.

Definition set_name (s : estate) (nm : option str) : estate :=
  {| es_conv := es_conv s; es_parent := es_parent s; es_pidx := es_pidx s; es_number := es_number s;
     es_name := nm; es_extract := es_extract s; es_complete := es_complete s |}.
Definition set_complete (s : estate) : estate :=
  {| es_conv := es_conv s; es_parent := es_parent s; es_pidx := es_pidx s; es_number := es_number s;
     es_name := es_name s; es_extract := es_extract s; es_complete := true |}.

Section Conv.
  Variable G : graph.
  Variable o : opts.
  (* fx = false: the repeat test of the pinned tree (`looked_up.name is not None`);
     fx = true: the repaired test of notes/C20-fix.diff (`... or not looked_up.complete`, where the unnamed in-progress
     element is first named "Unnamed <n>").  Gen/GenDiagram.v says which of the two /repo contains. *)
  Variable fx : bool.

  Fixpoint kids_loop (rec : id -> option ref -> nat -> cstate -> res (option ref) * cstate)
                     (r : ref) (es : list id) (i : nat) (st : cstate) : res unit * cstate :=
    match es with
    | [] => (Ok tt, st)
    | e :: es' =>
      let st1 := with_items st r (insert_at i None) in
      match rec e (Some r) i st1 with
      | (Ok item, st2) => let '(i', st3) := place st2 r i item in kids_loop rec r es' i' st3
      | (OutOfFuel, st2) => (OutOfFuel, st2)
      end
    end.

  Definition in_diagrams (x : id) (st : cstate) : option (ref * cstate) :=
    match assoc x (c_diagrams st) with
    | Some d => Some (new_nonterminal (d_name d) st)
    | None => None
    end.

  (* the repeat test at the top of _to_diagram_element: Some = "return this NonTerminal" *)
  Definition repeat_test (x : id) (hint : option str) (st : cstate) : option (ref * cstate) :=
    if worth G x then
      match assoc x (c_states st) with
      | Some s =>
        match es_name s with
        | Some _ =>
          let st := mark_for_extraction G x hint false st in
          (* looked_up is the same object that mark_for_extraction just updated *)
          let nm := if truthy (es_name s) then es_name s
                    else if truthy hint then hint
                    else if truthy (n_custom (gnode G x)) then n_custom (gnode G x) else Some [] in
          Some (new_nonterminal (oname nm) st)
        | None =>
          if fx && negb (es_complete s) then
            let k := S (c_unnamed st) in
            let nm := UNNAMED ++ dec k in
            let st := set_unnamed (set_states st (assoc_set x (set_name s (Some nm)) (c_states st))) k in
            let st := mark_for_extraction G x hint false st in
            Some (new_nonterminal nm st)
          else in_diagrams x st
        end
      | None => in_diagrams x st
      end
    else None.

  Definition name_of (x : id) (hint : option str) : str :=
    if truthy hint then oname hint
    else if truthy (n_custom (gnode G x)) then oname (n_custom (gnode G x)) else n_tname (gnode G x).

  (* after the child loop *)
  Definition finish (x : id) (name : str) (r : ref) (st : cstate) : option ref * cstate :=
    let empty := match slot_of st r with SItems [] => true | SItem IVNone => true | _ => false end in
    let '(ret, st) := if empty then alloc {| p_func := FTerminal name; p_slot := SLeaf |} st else (r, st) in
    let st :=
      match assoc x (c_states st) with
      | Some s => set_states st (assoc_set x (set_complete s) (c_states st))
      | None => st
      end in
    let '(ret, st) :=
      match assoc x (c_states st) with
      | Some s =>
        if es_extract s && es_complete s then
          let st := extract_into_diagram x st in
          let text := match assoc x (c_diagrams st) with Some d => d_name d | None => [] end in
          new_nonterminal text st
        else (ret, st)
      | None => (ret, st)
      end in
    wrap_rn G o x (Some ret) st.

  (* lookup[el_id] = ElementState(...) ; if element.customName: mark_for_extraction *)
  Definition create (x : id) (pn : pnode) (parent : option ref) (index : nat) (st : cstate) : ref * cstate :=
    let '(r, st) := alloc pn st in
    let number := S (c_index st) in
    let st := set_index st number in
    let st := set_states st (assoc_set x {| es_conv := r; es_parent := parent; es_pidx := index; es_number := number;
                                            es_name := None; es_extract := false; es_complete := false |}
                                       (c_states st)) in
    let st := if truthy (n_custom (gnode G x)) then mark_for_extraction G x (n_custom (gnode G x)) false st else st in
    (r, st).

  Fixpoint conv (fuel d : nat) (x : id) (parent : option ref) (index : nat) (hint : option str) (st : cstate)
    : res (option ref) * cstate :=
    match fuel with
    | 0 => (OutOfFuel, note_depth d st)
    | S f =>
      let st := note_depth d st in
      let name := name_of x hint in
      if bypass G x then
        let c := hd 0 (kids G x) in
        let prop := if truthy (n_custom (gnode G c)) then None else Some name in
        match conv f (S d) c parent index prop st with
        | (Ok ret, st) => let '(ret, st) := wrap_rn G o x ret st in (Ok ret, st)
        | (OutOfFuel, st) => (OutOfFuel, st)
        end
      else
        match repeat_test x hint st with
        | Some (r, st) => let '(ret, st) := wrap_rn G o x (Some r) st in (Ok ret, st)
        | None =>
          if negb (n_show (gnode G x)) && negb (o_hidden o) then (Ok None, st)
          else
            match choose G o x name with
            | None => (Ok None, st)
            | Some pn =>
              let '(r, st) := create x pn parent index st in
              match kids_loop (fun e p i s => conv f (S d) e p i None s) r (kids G x) 0 st with
              | (Ok _, st) => let '(ret, st) := finish x name r st in (Ok ret, st)
              | (OutOfFuel, st) => (OutOfFuel, st)
              end
            end
        end
    end.
End Conv.

(* ------------------------------------------------------------------------------------------------ output *)
Inductive phkind := PNone | PEmpty | PUnresolved.
Inductive item :=
| INode (f : pfunc) (children : list item)
| IPlaceholder (k : phkind).

Fixpoint resolve (fuel : nat) (h : list pnode) (r : ref) : item :=
  match fuel with
  | 0 => IPlaceholder PUnresolved
  | S f =>
    match nth_error h r with
    | None => IPlaceholder PUnresolved
    | Some pn =>
      INode (p_func pn)
        match p_slot pn with
        | SLeaf => []
        | SItem IVNone => [IPlaceholder PNone]
        | SItem IVEmpty => [IPlaceholder PEmpty]
        | SItem (IVRef c) => [resolve f h c]
        | SItems l => map (fun oc => match oc with Some c => resolve f h c | None => IPlaceholder PNone end) l
        end
    end
  end.

Definition resolve_ival (h : list pnode) (v : ival) : item :=
  match v with
  | IVNone => IPlaceholder PNone
  | IVEmpty => IPlaceholder PEmpty
  | IVRef r => resolve (S (length h)) h r
  end.

Record odiag := { od_name : str; od_index : nat; od_bookmark : str; od_item : item }.

(* the de-duplication loop of to_railroad *)
Fixpoint dedup (seen : list str) (ds : list dentry) : list dentry :=
  match ds with
  | [] => []
  | d :: t =>
    if str_eqb (d_name d) ELLIPSIS then dedup seen t
    else if existsb (str_eqb (d_name d)) seen then dedup seen t
    else d :: dedup (d_name d :: seen) t
  end.

Fixpoint insert_sorted (d : dentry) (l : list dentry) : list dentry :=
  match l with
  | [] => [d]
  | e :: t => if d_index d <=? d_index e then d :: e :: t else e :: insert_sorted d t
  end.
Definition sort_by_index (l : list dentry) : list dentry := fold_right insert_sorted [] l.   (* sorted(): stable *)

(* NamedDiagram.bookmark, evaluated in output order; the heap does not change any more *)
Fixpoint emit (ds : list dentry) (st : cstate) : list odiag * cstate :=
  match ds with
  | [] => ([], st)
  | d :: t =>
    let '(b, st1) := make_bookmark (d_name d) st in
    let '(out, st2) := emit t st1 in
    ({| od_name := d_name d; od_index := d_index d; od_bookmark := b; od_item := resolve_ival (c_heap st) (d_content d) |} :: out, st2)
  end.

(* the part of to_railroad after the top-level _to_diagram_element call, up to `diags = list(lookup.diagrams.values())` *)
Definition root_extract (G : graph) (root : id) (st : cstate) : cstate :=
  match assoc root (c_states st) with
  | Some s =>
    let st := if truthy (n_custom (gnode G root)) then st
              else set_states st (assoc_set root (set_name s (Some [])) (c_states st)) in
    mark_for_extraction G root None true st
  | None => st
  end.

Definition select (diags : list dentry) : list dentry :=
  sort_by_index match diags with _ :: _ :: _ => dedup [] diags | _ => diags end.

Definition to_railroad_from (G : graph) (o : opts) (fx : bool) (root : id) (fuel : nat) (st0 : cstate)
  : res (list odiag) * cstate :=
  match conv G o fx fuel 1 root None 0 None st0 with
  | (OutOfFuel, st) => (OutOfFuel, st)
  | (Ok _, st) =>
    let st := root_extract G root st in
    let '(out, st) := emit (select (map snd (c_diagrams st))) st in
    (Ok out, st)
  end.

Definition to_railroad (G : graph) (o : opts) (fx : bool) (root : id) (fuel : nat) : res (list odiag) * cstate :=
  to_railroad_from G o fx root fuel init_state.

(* Python frames used by a conversion whose deepest _to_diagram_element call is at depth d (root call = 1):
   two per call (decorator + function); the frames below to_railroad and the leaf calls are not counted. *)
Definition frames (d : nat) : nat := 2 * d.
Definition PY_RECURSION_LIMIT : nat := 1000.
