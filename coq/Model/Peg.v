(* M9: the reference PEG reading of C01, over the attributed grammar.  Exactly the rules of the property statement:
   a sequence needs every element in order, '|' takes the first alternative that matches, '&' accepts its operands in any
   order with each required one exactly once, repetition is greedy and never
   gives back, lookaheads consume nothing, and every whitespace-skipping element first consumes leading whitespace
   (even when it then matches nothing); a repetition with stop_on goes on while the stop expression does not match; SkipTo
   advances one character at a time to the first position where its target matches (tried there without the target's own
   whitespace skip), failing at the end of the text.  `in_class` is the boolean predicate saying which grammars the theorem
   covers. *)
From Coq Require Import List ZArith NArith Bool Arith.
From PP Require Import Model.Str Model.Results Model.Prog Model.Core.
Import ListNotations.

Inductive res :=
| POk (loc : nat) (ts : list tok)      (* matched up to loc, with this token list (as_list view) *)
| PFail                                (* no match *)
| PDiv                                 (* a repetition body matched without consuming: the real parser spins *)
| POut.                                (* recursion deeper than the fuel *)

(* what is compared: success/failure, end position, token list *)
Definition proj (o : option outcome) : option res :=
  match o with
  | None => Some POut
  | Some (Ok l r) => Some (POk l (pr_as_list r))
  | Some (Err x) => if is_pe (xk x) then Some PFail else None
  | Some Div => Some PDiv
  end.

Definition raw_tokens (r : raw) : list tok := pr_as_list (pr_new r).

(* Combine: the strings of all leaves (as_list view), the join string between top-level items *)
Fixpoint leaf_strings (t : tok) : list str :=
  match t with
  | TList l => flat_map leaf_strings l
  | TPR r => flat_map leaf_strings (toks r)
  | other => tok_strings other
  end.
Fixpoint join_strings_go (sep : str) (l : list tok) (nonempty : bool) : list str :=
  match l with
  | [] => []
  | t :: rest =>
    let pre := if nonempty then match sep with [] => [] | _ => [sep] end else [] in
    let body := leaf_strings t in
    pre ++ body ++ join_strings_go sep rest (nonempty || negb (match pre ++ body with [] => true | _ => false end))
  end.
Definition join_strings (sep : str) (l : list tok) : list str := join_strings_go sep l false.

(* SkipTo calls its target WITHOUT pre-parse (`self.expr._parse(instring, tmploc, do_actions=False, callPreParse=False)`):
   at each position of the scan the target is tried exactly there, without the leading whitespace skip of its own (this is
   why the skipped text keeps its trailing blanks).  The reading says so through `nopre target`: the same element with
   `callPreparse` off, i.e. an element that does not consume leading whitespace itself (its components do, as always). *)
Definition nopre_attrs (a : attrs) : attrs :=
  {| nid := nid a; rsname := rsname a; modalr := modalr a; aslist := aslist a; skipws := skipws a; white := white a;
     callpre := false; mayidx := mayidx a; custom := custom a; hasmsg := hasmsg a; acts := acts a;
     calltry := calltry a; slen := slen a |}.
Definition nopre (e : expr) : expr := set_attrs e (nopre_attrs (attrs_of e)).

Section Peg.
Variable G : env.
Variable s : str.

(* "every whitespace-skipping element first consumes leading whitespace" *)
Definition eff (e : expr) (loc : nat) : nat :=
  let a := attrs_of e in
  if callpre a && skipws a then skip_white s loc (white a) else loc.

Section Level.
  Variable rec : expr -> nat -> res.
  Fixpoint peg_seq (es : list expr) (loc : nat) (acc : list tok) : res :=
    match es with
    | [] => POk loc acc
    | e :: es' => match rec e loc with POk l ts => peg_seq es' l (acc ++ ts) | r => r end
    end.
  Fixpoint peg_first (es : list expr) (loc : nat) : res :=
    match es with
    | [] => PFail
    | e :: es' => match rec e loc with PFail => peg_first es' loc | r => r end
    end.
  Fixpoint peg_star (n : nat) (e : expr) (loc : nat) (acc : list tok) : res :=
    match n with
    | 0 => PDiv
    | S n' => match rec e loc with
              | POk l ts => if Nat.eqb l loc then PDiv else peg_star n' e l (acc ++ ts)
              | PFail => POk loc acc
              | r => r
              end
    end.
  (* '^' : every alternative is tried; the one that consumes the most input wins, leftmost on a tie *)
  Fixpoint peg_longest (es : list expr) (loc : nat) (best : option (nat * list tok)) : res :=
    match es with
    | [] => match best with Some (l, ts) => POk l ts | None => PFail end
    | e :: es' =>
      match rec e loc with
      | POk l ts => peg_longest es' loc (match best with
                                         | Some (bl, _) => if Nat.ltb bl l then Some (l, ts) else best
                                         | None => Some (l, ts)
                                         end)
      | PFail => peg_longest es' loc best
      | r => r
      end
    end.
  (* repetition with stop_on: the ender is tested (as a lookahead) before every iteration *)
  Fixpoint peg_star_stop (n : nat) (e ender : expr) (loc : nat) (acc : list tok) : res :=
    match n with
    | 0 => PDiv
    | S n' =>
      match rec ender loc with
      | PFail => POk loc acc               (* NotAny(ender) fails = ender matches: stop *)
      | POk _ _ =>
        match rec e loc with
        | POk l ts => if Nat.eqb l loc then PDiv else peg_star_stop n' e ender l (acc ++ ts)
        | PFail => POk loc acc
        | r => r
        end
      | r => r
      end
    end.
  (* SkipTo: from the current position, one character at a time, up to and including the end of the text: the first position
     at which the target matches (tried exactly there: `nopre`); no such position = no match.  `fail_on` matching at a
     position reached before the target was found makes the SkipTo fail ("if found before the target expression is found,
     the SkipTo is not a match").  n bounds the number of positions (length s + 2 suffices). *)
  Fixpoint peg_skip_scan (n : nat) (target : expr) (failon : option expr) (tl : nat) : res :=
    match n with
    | 0 => PFail
    | S n' =>
      if Nat.ltb (length s) tl then PFail
      else
        let try_target :=
          match rec (nopre target) tl with
          | POk _ _ => POk tl []
          | PFail => peg_skip_scan n' target failon (S tl)
          | r => r
          end in
        match failon with
        | None => try_target
        | Some fo => match rec fo tl with
                     | POk _ _ => PFail
                     | PFail => try_target
                     | r => r
                     end
        end
    end.
  (* '&' (Each): "accepts its operands in any order with each required one exactly once": a plain operand exactly once, the
     content of an Opt at most once, of a ZeroOrMore any number of times, of a OneOrMore at least once.  At each point the
     candidates are tried in the order required / optional / repeatable (each group in the order written); every candidate
     that matches is taken; rounds are repeated until none matches.  The tokens are those of the sequence of the operands in
     the order taken, followed by the Opt operands never taken (default value, whitespace in front of them).
     Unlike Each.parseImpl the reading has no second list for required operands that can match empty.
     The classification of the operands and their equality classes are those of Model/Core.v. *)
  Fixpoint peg_each_round (es : list expr) (cands : list each_ent) (loc : nat) (reqd opt : list each_ent) (mo : list expr) (nf : nat)
           (k : nat -> list each_ent -> list each_ent -> list expr -> nat -> res) : res :=
    match cands with
    | [] => k loc reqd opt mo nf
    | en :: rest =>
      match rec (ee_e en) loc with
      | POk l _ =>
        let mo' := mo ++ [each_order es en] in
        if mem_cls (ee_cls en) reqd then peg_each_round es rest l (remove_cls (ee_cls en) reqd) opt mo' nf k
        else if mem_cls (ee_cls en) opt then peg_each_round es rest l reqd (remove_cls (ee_cls en) opt) mo' nf k
        else peg_each_round es rest l reqd opt mo' nf k
      | PFail => peg_each_round es rest loc reqd opt mo (S nf) k
      | r => r
      end
    end.
  Fixpoint peg_each_loop (es : list expr) (fuel : nat) (loc : nat) (reqd opt multis : list each_ent) (mo : list expr)
           (k : list each_ent -> list each_ent -> list expr -> res) : res :=
    match fuel with
    | 0 => PDiv
    | S f =>
      let cands := reqd ++ opt ++ multis in
      peg_each_round es cands loc reqd opt mo 0 (fun loc' reqd' opt' mo' nf =>
        if Nat.eqb nf (length cands) then k reqd' opt' mo'
        else if Nat.eqb loc' loc && Nat.eqb (length reqd') (length reqd) && Nat.eqb (length opt') (length opt) then PDiv
        else peg_each_loop es f loc' reqd' opt' multis mo' k)
    end.
  Definition peg_each (es : list expr) (info : list each_info) (loc : nat) : res :=
    let zs := each_zip es info in
    let reqd := each_req1 zs ++ each_multi true zs in
    let opt := each_opt1 zs in
    let multis := each_multi false zs in
    peg_each_loop es (each_fuel (length s) reqd opt multis) loc reqd opt multis []
      (fun reqd' opt' mo =>
         match reqd' with
         | _ :: _ => PFail
         | [] =>
           let unmatched := flat_map (fun z : expr * each_info =>
                                        if is_opt (fst z) && mem_cls (snd (snd (snd z))) opt' then [fst z] else []) zs in
           peg_seq (mo ++ unmatched) loc []
         end).
End Level.

Fixpoint peg (fuel : nat) (e : expr) (loc0 : nat) : res :=
  match fuel with
  | 0 => POut
  | S f =>
    let a := attrs_of e in
    let loc := eff e loc0 in
    match e with
    | Tok _ _ t =>
      match tok_impl a t s loc with
      | IOk l r => POk l (raw_tokens r)
      | _ => PFail
      end
    | Nary _ _ NAnd es => peg_seq (peg f) es loc []
    | Nary _ _ NMatchFirst es => peg_first (peg f) es loc
    | Nary _ _ NOr es =>
      (* Or itself never pre-parses (callPreparse = False) but skips its own whitespace first when every alternative pre-parses *)
      let loc1 := if forallb (fun c => callpre (attrs_of c)) es
                  then (if skipws a then skip_white s loc (white a) else loc) else loc in
      peg_longest (peg f) es loc1 None
    | Nary _ _ (NEach info) es => peg_each (peg f) es info loc
    | Enh _ _ (EOpt d) c =>
      match peg f c loc with
      | PFail => POk loc (match d with Some v => [tok_as_list v] | None => [] end)
      | r => r
      end
    | Enh _ _ ENot c => match peg f c loc with POk _ _ => PFail | PFail => POk loc [] | r => r end
    | Enh _ _ EFollowedBy c => match peg f c loc with POk _ _ => POk loc [] | r => r end
    | Enh _ _ ELookahead c => match peg f c loc with POk _ _ => POk loc [] | r => r end
    | Enh _ _ (EGroup false) c => match peg f c loc with POk l ts => POk l [TList ts] | r => r end
    | Enh _ _ ESuppress c => match peg f c loc with POk l _ => POk l [] | r => r end
    | Enh _ _ EPass c => peg f c loc
    | Enh _ _ (ECombine join) c =>
      match peg f c loc with
      | POk l ts => POk l [TStr (concat (join_strings join ts))]
      | r => r
      end
    | Rep _ _ zero body (Some ne) =>
      (* `ne` is NotAny(stop_on): it matches (POk) when the ender does NOT match *)
      match peg f ne loc with
      | PFail => if zero then POk loc [] else PFail
      | POk _ _ =>
        match peg f body loc with
        | POk l ts => peg_star_stop (peg f) (length s + 3) body ne l ts
        | PFail => if zero then POk loc [] else PFail
        | r => r
        end
      | r => r
      end
    | Rep _ _ zero body None =>
      match peg f body loc with
      | POk l ts => peg_star (peg f) (length s + 3) body l ts
      | PFail => if zero then POk loc [] else PFail
      | r => r
      end
    | Skip _ _ target incl [] failon =>
      (* the token is the skipped text (after SkipTo's own leading whitespace skip), followed, with include=True, by the
         tokens of the target, which is then consumed.  (SkipTo's private ignore expressions are not in the reading.) *)
      match peg_skip_scan (peg f) (length s + 2) target failon loc with
      | POk tl _ =>
        if incl then match peg f (nopre target) tl with
                     | POk l ts => POk l (TStr (slice_ s loc tl) :: ts)
                     | r => r
                     end
        else POk tl [TStr (slice_ s loc tl)]
      | r => r
      end
    | Fwd _ _ (Some id) => match nth_error G id with Some c => peg f c loc | None => PFail end
    | _ => PFail
    end
  end.
End Peg.

(* ---- the class of grammars covered by the equivalence theorem ---- *)
Fixpoint str_list_eqb (a b : list char) : bool := str_eqb a b.

(* a child that its container calls WITHOUT pre-parse must not skip more than the container already did *)
Definition child_ok (a : attrs) (c : expr) : bool :=
  let ac := attrs_of c in
  implb (callpre ac && skipws ac) (callpre a && skipws a && str_eqb (white a) (white ac)).

Definition plain_attrs (a : attrs) : bool :=
  match acts a, rsname a with [], None => true | _, _ => false end.

Definition tok_in_class (t : tkind) : bool :=
  match t with KLineStart _ _ | KGoToCol _ | KErrorStop => false | _ => true end.

(* Combine joins the strings of the leaves of its content's results.  The proved class asks the content to be built from
   constructs that yield only scalar tokens (strings; scalar defaults of Opt): no Group (a nested list), no list-valued
   default, no Each, no Forward (the predicate is structural).  Such a content yields a flat list of scalars, on which
   `_asStringList` and the `join_strings` of the reading visibly coincide.  (Outside this restriction Combine stays in the
   reference class `in_ref_class`, compared with the implementation by correspondence.) *)
Definition scalar_tok (t : tok) : bool := match t with TList _ | TPR _ => false | _ => true end.
Fixpoint flat_class (e : expr) : bool :=
  match e with
  | Tok _ _ _ => true
  | Nary _ _ (NEach _) _ => false
  | Nary _ _ _ es => (fix all (l : list expr) : bool := match l with [] => true | x :: r => flat_class x && all r end) es
  | Enh _ _ k c =>
    match k with
    | EPass | ESuppress | ECombine _ | EOpt None => flat_class c
    | EOpt (Some v) => scalar_tok v && flat_class c
    | ENot | EFollowedBy | ELookahead => true          (* they yield no token *)
    | _ => false
    end
  | Rep _ _ _ b _ => flat_class b                 (* the stop_on sentinel yields no token *)
  | _ => false
  end.

Definition nonskip (c : expr) : bool := negb (callpre (attrs_of c) && skipws (attrs_of c)).

Section Class.
Variable G : env.
(* the target of a SkipTo is called without pre-parse at EVERY position of the scan, and hands that on to the component it
   calls without pre-parse itself (first element of an And, content of a wrapper / Forward): that component must not skip
   whitespace on its own, for the reading `nopre target` ("the target does not skip, its components do") to apply.
   Tokens, MatchFirst, Or, Each, lookaheads, repetitions (they call their components with pre-parse) always qualify. *)
(* the component that an element calls without pre-parse *)
Definition head_child (e : expr) : option expr :=
  match e with
  | Nary _ _ NAnd (c :: _) => Some c
  | Enh _ _ k c => match k with ENot | EFollowedBy | ELookahead => None | _ => Some c end
  | Fwd _ _ (Some id) => nth_error G id
  | _ => None
  end.
Definition np_ok (e : expr) : bool :=
  match head_child e with Some c => nonskip c | None => true end.
Fixpoint in_class (e : expr) : bool :=
  match e with
  | Tok a ign t => plain_attrs a && match ign with [] => true | _ => false end && tok_in_class t
  | Nary a ign NAnd es =>
    plain_attrs a && match ign with [] => true | _ => false end &&
    match es with [] => false | c :: _ => child_ok a c end &&
    (fix all (l : list expr) : bool := match l with [] => true | x :: r => in_class x && all r end) es
  | Nary a ign NMatchFirst es =>
    plain_attrs a && match ign with [] => true | _ => false end &&
    (fix all (l : list expr) : bool := match l with [] => true | x :: r => in_class x && all r end) es
  | Nary a ign NOr es =>
    plain_attrs a && match ign with [] => true | _ => false end &&
    (fix all (l : list expr) : bool := match l with [] => true | x :: r => in_class x && all r end) es
  | Nary a ign (NEach info) es =>
    (* no required operand may return empty: Each.parseImpl would take it twice (Props/C01.v C01_each_once_refuted) *)
    plain_attrs a && match ign with [] => true | _ => false end &&
    match each_opt2 (each_zip es info) with [] => true | _ => false end &&
    (fix all (l : list expr) : bool := match l with [] => true | x :: r => in_class x && all r end) es
  | Enh a ign k c =>
    plain_attrs a && match ign with [] => true | _ => false end && in_class c &&
    match k with
    | EOpt _ | EGroup false | ESuppress | EPass => child_ok a c
    | ECombine _ => child_ok a c && flat_class c
    | ENot | EFollowedBy | ELookahead => true
    | _ => false
    end
  | Rep a ign _ body ne =>
    (* with stop_on: `ne` is the dumped sentinel NotAny(stop_on), tried (try_parse) before every round *)
    plain_attrs a && match ign with [] => true | _ => false end && in_class body &&
    match ne with Some n => in_class n | None => true end
  | Skip a ign target _ [] None =>
    (* SkipTo(target, include = any): no private ignore expression; no fail_on (Props/C01.v C01_skipto_fail_on_refuted) *)
    plain_attrs a && match ign with [] => true | _ => false end && in_class target && np_ok target
  | Fwd a ign (Some id) =>
    plain_attrs a && match ign with [] => true | _ => false end &&
    match nth_error G id with Some c => child_ok a c | None => true end
  | _ => false
  end.
End Class.

Definition env_in_class (G : env) : bool := forallb (in_class G) G.

(* the (wider) class on which the reference reading `peg` is defined and compared with the implementation by the
   correspondence check; `in_class` above is the part covered by the theorem (Proofs/ClassIncl.v: in_class -> in_ref_class).
   What it has beyond `in_class`: Combine over any content of the class (Group, Each, Forward inside the Combine). *)
Section RefClass.
Variable G : env.
Fixpoint in_ref_class (e : expr) : bool :=
  let all := fix all (l : list expr) : bool := match l with [] => true | x :: r => in_ref_class x && all r end in
  match e with
  | Tok a ign t => plain_attrs a && match ign with [] => true | _ => false end && tok_in_class t
  | Nary a ign NAnd es =>
    plain_attrs a && match ign with [] => true | _ => false end &&
    match es with [] => false | c :: _ => child_ok a c end && all es
  | Nary a ign NMatchFirst es => plain_attrs a && match ign with [] => true | _ => false end && all es
  | Nary a ign NOr es => plain_attrs a && match ign with [] => true | _ => false end && all es
  | Nary a ign (NEach info) es =>
    plain_attrs a && match ign with [] => true | _ => false end &&
    match each_opt2 (each_zip es info) with [] => true | _ => false end && all es
  | Enh a ign k c =>
    plain_attrs a && match ign with [] => true | _ => false end && in_ref_class c &&
    match k with
    | EOpt _ | EGroup false | ESuppress | EPass | ECombine _ => child_ok a c
    | ENot | EFollowedBy | ELookahead => true
    | _ => false
    end
  | Rep a ign _ body ne =>
    plain_attrs a && match ign with [] => true | _ => false end && in_ref_class body &&
    match ne with Some n => in_ref_class n | None => true end
  | Skip a ign target _ [] None =>
    plain_attrs a && match ign with [] => true | _ => false end && in_ref_class target && np_ok G target
  | Fwd a ign (Some id) =>
    plain_attrs a && match ign with [] => true | _ => false end &&
    match nth_error G id with Some c => child_ok a c | None => true end
  | _ => false
  end.
End RefClass.
Definition env_in_ref_class (G : env) : bool := forallb (in_ref_class G) G.
