(* transform_string: unmatched text is kept verbatim and every match is replaced by its tokens - whenever no token is falsy.
   The `if o` filter drops '' and [] (harmless: they print as nothing) but also 0, 0.0, False and None. *)
From Coq Require Import List ZArith NArith Bool Arith Lia.
From PP Require Import Model.Str Model.Results Model.Transform.
Import ListNotations.

(* an entry that is dropped although it would print something *)
Definition lossy (t : tok) : bool :=
  match t with
  | TInt z => Z.eqb z 0
  | TBool false => true
  | TNone => true
  | _ => false
  end.

Lemma concat_app' : forall (a b : list str), concat (a ++ b) = concat a ++ concat b.
Proof. intros; apply concat_app. Qed.

Lemma dropped_prints_nothing t : tok_truthy t = false -> lossy t = false -> concat (leaf_strs t) = [].
Proof.
  destruct t as [s|z|b| |l|r]; cbn; intros H L; try discriminate.
  - destruct s; [reflexivity|discriminate].
  - destruct (Z.eqb z 0); discriminate.
  - destruct b; discriminate.
  - destruct l; [reflexivity|discriminate].
  - destruct (toks r); [reflexivity|discriminate].
Qed.

Lemma filter_items_toks (l : list tok) :
  forallb (fun t => negb (lossy t)) l = true ->
  concat (flat_map item_strs (filter item_truthy (map ITok l))) = concat (flat_map leaf_strs l).
Proof.
  induction l as [|t l IH]; cbn [map filter flat_map forallb]; intro H; [reflexivity|].
  apply andb_true_iff in H as [Ht Hl]. apply negb_true_iff in Ht.
  cbn [item_truthy]. destruct (tok_truthy t) eqn:E.
  - cbn [flat_map item_strs]. rewrite !concat_app'. f_equal. apply IH; assumption.
  - rewrite concat_app'. rewrite (dropped_prints_nothing t E Ht). cbn. apply IH; assumption.
Qed.

Lemma filter_app' {A} (f : A -> bool) (a b : list A) : filter f (a ++ b) = filter f a ++ filter f b.
Proof. apply filter_app. Qed.
Lemma flat_map_app' {A B} (f : A -> list B) (a b : list A) : flat_map f (a ++ b) = flat_map f a ++ flat_map f b.
Proof. apply flat_map_app. Qed.

Lemma text_item (s : str) : concat (flat_map item_strs (filter item_truthy [IText s])) = s.
Proof. destruct s; cbn; [reflexivity|]. rewrite app_nil_r. reflexivity. Qed.

Lemma sub_empty s a b : b <= a -> sub s a b = [].
Proof. intro H. unfold sub. replace (b - a) with 0 by lia. reflexivity. Qed.

(* a ParseResults that is falsy has no tokens *)
Lemma not_truthy_no_toks (t : pres) : pr_truthy t = false -> toks t = [].
Proof. unfold pr_truthy. destruct (toks t); [reflexivity|discriminate]. Qed.

Theorem transform_spec : forall orig ms last,
  forallb (fun m => forallb (fun t => negb (lossy t)) (toks (fst (fst m)))) ms = true ->
  concat (flat_map item_strs (filter item_truthy (out_items orig ms last))) = transform_ref orig ms last.
Proof.
  intros orig ms. induction ms as [|[[t s] e] rest IH]; intros last H.
  - cbn [out_items transform_ref]. apply text_item.
  - cbn [forallb fst] in H. apply andb_true_iff in H as [Ht Hr].
    cbn [out_items transform_ref].
    rewrite !filter_app', !flat_map_app', !concat_app'. f_equal; [|f_equal].
    + destruct (Nat.ltb last s) eqn:E.
      * apply text_item.
      * apply Nat.ltb_ge in E. rewrite sub_empty by assumption. reflexivity.
    + destruct (pr_truthy t) eqn:E.
      * apply filter_items_toks; assumption.
      * rewrite (not_truthy_no_toks t E). reflexivity.
    + apply IH; assumption.
Qed.

Theorem transform_no_match orig : transform orig [] = orig.
Proof. unfold transform. cbn [out_items]. rewrite text_item. reflexivity. Qed.

(* the filter is not harmless: a match whose only token is the integer 0 disappears (F-08c) *)
Theorem transform_falsy_refuted : exists orig ms,
  transform orig ms <> transform_ref orig ms 0 /\
  transform orig ms = [120%N; 121%N] /\ transform_ref orig ms 0 = [120%N; 48%N; 121%N].
Proof.
  exists [120%N; 97%N; 121%N], [(pr_of_list [TInt 0], 1, 2)].
  vm_compute. repeat split; try reflexivity. discriminate.
Qed.
