(* Packrat transparency instantiated for the pyparsing element semantics (Model/Core.v) and lifted to the
   entry points (Model/Entry.v). *)
From Coq Require Import List Arith Bool Lia.
From PP Require Import Model.Str Model.Results Model.Prog Model.Core Model.Entry Proofs.Packrat Proofs.EqDec.
Import ListNotations.

Section PC.
  Variable G : env.
  Variable size : option nat.

  Notation pparse := (parse (step G)).
  Notation pparsec := (parsec (step G) args_eqb size).
  Notation okc := (okm args outcome (step G)).

  Lemma elem_sound fuel c a o : okc c -> snd (pparsec fuel c a) = Some o -> exists f, pparse f a = Some o.
  Proof. apply (packrat_transparent args outcome (step G) args_eqb args_eqb_spec size). Qed.

  Lemma elem_inv fuel c a : okc c -> okc (fst (pparsec fuel c a)).
  Proof. intros H. apply (parsec_sound args outcome (step G) args_eqb args_eqb_spec size fuel c a H). Qed.

  Lemma elem_complete fuel c a o : okc c -> pparse fuel a = Some o -> snd (pparsec fuel c a) = Some o.
  Proof. apply (packrat_complete args outcome (step G) args_eqb args_eqb_spec size). Qed.

  (* fuel monotonicity for drivers *)
  Lemma drun_mono {R} (d : dprog R) (rec1 rec2 : args -> option outcome) :
    (forall a o, rec1 a = Some o -> rec2 a = Some o) ->
    forall r, drun rec1 d = Some r -> drun rec2 d = Some r.
  Proof.
    intros H. induction d as [r'|a k IH]; simpl; intros r Hr; [exact Hr|].
    destruct (rec1 a) as [o|] eqn:E; [|discriminate]. rewrite (H a o E). apply IH. exact Hr.
  Qed.

  Lemma drunc_sound {R} (d : dprog R) fuel : forall c, okc c ->
    okc (fst (drunc (pparsec fuel) c d)) /\
    (forall r, snd (drunc (pparsec fuel) c d) = Some r -> exists f, drun (pparse f) d = Some r).
  Proof.
    induction d as [r'|a k IH]; intros c Hc; simpl.
    - split; [exact Hc|]. intros r [= <-]. exists 0. reflexivity.
    - pose proof (elem_inv fuel c a Hc) as Hinv.
      pose proof (elem_sound fuel c a) as Hs.
      destruct (pparsec fuel c a) as [c' [o|]]; simpl in *.
      + destruct (IH o c' Hinv) as [I1 I2]. split; [exact I1|].
        intros r Hr. destruct (I2 r Hr) as [f2 Hf2]. destruct (Hs o Hc eq_refl) as [f1 Hf1].
        exists (Nat.max f1 f2).
        rewrite (parse_mono args outcome (step G) f1 a o Hf1) by lia.
        eapply drun_mono; [|exact Hf2]. intros b ob Hb.
        eapply (parse_mono args outcome (step G)); [exact Hb|lia].
      + split; [exact Hinv|]. intros r Hr; discriminate.
  Qed.

  Lemma drunc_complete {R} (d : dprog R) fuel : forall c r, okc c ->
    drun (pparse fuel) d = Some r ->
    snd (drunc (pparsec fuel) c d) = Some r /\ okc (fst (drunc (pparsec fuel) c d)).
  Proof.
    induction d as [r'|a k IH]; intros c r Hc Hr; simpl in *.
    - split; [exact Hr|exact Hc].
    - destruct (pparse fuel a) as [o|] eqn:E; [|discriminate].
      pose proof (elem_complete fuel c a o Hc E) as H1.
      pose proof (elem_inv fuel c a Hc) as H2.
      destruct (pparsec fuel c a) as [c' r0]. simpl in *. subst r0.
      apply IH; assumption.
  Qed.
End PC.

(* what `lookup = (self, instring, loc, callPreParse, do_actions)` must contain: every component of `args` *)
Definition args_fields : list nat := [0; 1; 2; 3; 4].   (* self=a_e, instring=a_s, loc=a_loc, callPreParse=a_pre, do_actions=a_do *)
