(* one_of: the reordering loop terminates, keeps exactly the distinct symbols, leaves no symbol before one it
   masks; hence first-match = longest match; the regex alternation / class agrees with first-match. *)
From Coq Require Import List NArith Arith Bool Lia Permutation.
From PP Require Import Model.Str Model.Regex Model.ReGen Model.OneOf Proofs.RegexProofs Proofs.ReGenProofs.
Import ListNotations.

(* ------------------------------------------------------------------ strings *)
Lemma str_eqb_eq : forall a b, str_eqb a b = true <-> a = b.
Proof.
  induction a as [|x a IH]; destruct b as [|y b]; simpl; split; intro H; try discriminate; auto.
  - apply andb_true_iff in H. destruct H as [H1 H2]. apply N.eqb_eq in H1. apply IH in H2. subst. reflexivity.
  - inversion H; subst. rewrite N.eqb_refl. simpl. apply IH. reflexivity.
Qed.

Lemma fold_case_length : forall cl w, length (fold_case cl w) = length w.
Proof. intros [] w; simpl; [apply map_length|reflexivity]. Qed.

Lemma prefix_of_length : forall a l, prefix_of a l = true -> length a <= length l.
Proof.
  induction a as [|x a IH]; destruct l as [|y l]; simpl; intros; try discriminate; try lia.
  apply andb_true_iff in H. destruct H as [_ H]. apply IH in H. lia.
Qed.

(* two prefixes of the same string: the shorter is a prefix of the longer *)
Lemma prefix_of_both : forall a b l,
  prefix_of a l = true -> prefix_of b l = true -> length a <= length b -> prefix_of a b = true.
Proof.
  induction a as [|x a IH]; intros b l Ha Hb L; [reflexivity|].
  destruct b as [|y b]; [simpl in L; lia|]. destruct l as [|z l]; [discriminate|].
  simpl in *. apply andb_true_iff in Ha, Hb. destruct Ha as [Ha1 Ha2], Hb as [Hb1 Hb2].
  apply N.eqb_eq in Ha1, Hb1. subst. rewrite N.eqb_refl. simpl. eapply IH; eauto. lia.
Qed.

(* ------------------------------------------------------------------ the inner scan *)
Section Loop.
  Variable cl : bool.

  (* a may stand before b *)
  Definition ok (a b : str) : Prop := sym_eq cl b a = false /\ pmask cl a b = false.

  Lemma scan_spec : forall cur rest,
    match scan cl cur rest with
    | Some (SDel rest') => exists o, Permutation rest (o :: rest') /\ fold_case cl o = fold_case cl cur
    | Some (SMove o rest') => Permutation rest (o :: rest') /\ pmask cl cur o = true
    | None => forall o, In o rest -> ok cur o
    end.
  Proof.
    intros cur. induction rest as [|o t IH]; simpl.
    - intros o [].
    - destruct (sym_eq cl o cur) eqn:E.
      + exists o. split; [apply Permutation_refl|]. apply str_eqb_eq. exact E.
      + destruct (pmask cl cur o) eqn:P.
        * split; [apply Permutation_refl|exact P].
        * destruct (scan cl cur t) as [[t'|x t']|].
          -- destruct IH as (o' & HP & HE). exists o'. split; [|exact HE].
             eapply perm_trans; [apply perm_skip; exact HP|apply perm_swap].
          -- destruct IH as (HP & HM). split; [|exact HM].
             eapply perm_trans; [apply perm_skip; exact HP|apply perm_swap].
          -- intros o' [<-|H]; [split; assumption|apply IH; exact H].
  Qed.

  (* ---------------------------------------------------------------- termination *)
  Lemma reorder_go_terminates : forall M fuel done cur rest,
    (forall x, In x (cur :: rest) -> length x <= M) ->
    length rest * S M + (M - length cur) < fuel ->
    exists l, reorder_go cl fuel done cur rest = Some l.
  Proof.
    intros M. induction fuel; intros done cur rest HM HF; [lia|].
    simpl. destruct rest as [|r rest1]; [eauto|].
    pose proof (scan_spec cur (r :: rest1)) as SP.
    destruct (scan cl cur (r :: rest1)) as [[rest'|o rest']|].
    - destruct SP as (o & HP & _).
      apply IHfuel.
      + intros x [<-|H]; [apply HM; left; reflexivity|]. apply HM. right.
        eapply Permutation_in; [apply Permutation_sym; exact HP|right; exact H].
      + apply Permutation_length in HP. unfold str, char in *. simpl in HP. injection HP as Q. simpl in HF. rewrite Q in HF. lia.
    - destruct SP as (HP & HK).
      assert (In o (r :: rest1)) by (eapply Permutation_in; [apply Permutation_sym; exact HP|left; reflexivity]).
      assert (length cur < length o).
      { unfold pmask in HK. apply andb_true_iff in HK. destruct HK as [HK _]. apply Nat.ltb_lt in HK. exact HK. }
      assert (length o <= M) by (apply HM; right; exact H).
      apply IHfuel.
      + intros x [<-|[<-|Hx]].
        * exact H1.
        * apply HM. left. reflexivity.
        * apply HM. right. eapply Permutation_in; [apply Permutation_sym; exact HP|right; exact Hx].
      + apply Permutation_length in HP. unfold str, char in *. simpl in HP. injection HP as Q. simpl in HF. rewrite Q in HF. simpl. lia.
    - apply IHfuel.
      + intros x Hx. apply HM. right. exact Hx.
      + assert (length r <= M) by (apply HM; right; left; reflexivity).
        simpl in HF. simpl. lia.
  Qed.

  Lemma max_sym_len_bound : forall syms x, In x syms -> length x <= max_sym_len syms.
  Proof.
    induction syms; simpl; intros x []; subst; [lia|]. apply IHsyms in H. lia.
  Qed.

  Theorem reorder_terminates : forall syms, exists l, reorder cl syms = Some l.
  Proof.
    intros [|c t]; [eexists; reflexivity|]. unfold reorder.
    apply (reorder_go_terminates (max_sym_len (c :: t))).
    - intros x H. apply max_sym_len_bound. exact H.
    - unfold reorder_fuel. set (M := max_sym_len (c :: t)). simpl length. rewrite !Nat.mul_succ_l. unfold str, char in *. lia.
  Qed.

  (* ---------------------------------------------------------------- what the loop preserves / establishes *)
  Fixpoint ordered (l : list str) : Prop :=
    match l with
    | [] => True
    | a :: t => (forall b, In b t -> ok a b) /\ ordered t
    end.

  Lemma ordered_app : forall l1 l2,
    ordered (l1 ++ l2) <-> ordered l1 /\ ordered l2 /\ (forall u v, In u l1 -> In v l2 -> ok u v).
  Proof.
    induction l1 as [|x l1 IH]; intros l2.
    - simpl. split.
      + intros H. split; [exact I|]. split; [exact H|]. intros u v [].
      + intros (_ & H & _). exact H.
    - cbn [app ordered]. rewrite IH. split.
      + intros (H1 & H2 & H3 & H4). split; [split|split].
        * intros v Hv. apply H1. apply in_or_app. left. exact Hv.
        * exact H2.
        * exact H3.
        * intros u v [<-|Hu] Hv; [apply H1; apply in_or_app; right; exact Hv|apply H4; assumption].
      + intros ((H1 & H2) & H3 & H4). split; [|split; [exact H2|split; [exact H3|]]].
        * intros v Hv. apply in_app_or in Hv. destruct Hv as [Hv|Hv]; [apply H1; exact Hv|apply H4; [left; reflexivity|exact Hv]].
        * intros u v Hu Hv. apply H4; [right; exact Hu|exact Hv].
  Qed.

  (* every x of X has a representative in l with the same folded text *)
  Definition covers (l X : list str) : Prop :=
    forall x, In x X -> exists y, In y l /\ fold_case cl x = fold_case cl y.

  Lemma reorder_go_inv : forall fuel done cur rest l,
    reorder_go cl fuel done cur rest = Some l ->
    ordered (rev done) -> (forall d x, In d done -> In x (cur :: rest) -> ok d x) ->
    ordered l /\ (forall x, In x l -> In x (done ++ cur :: rest)) /\ covers l (done ++ cur :: rest).
  Proof.
    induction fuel; intros done cur rest l H OD OK; [discriminate|].
    cbn [reorder_go] in H. destruct rest as [|r rest1].
    - inversion H; subst l. split; [|split].
      + apply ordered_app. split; [exact OD|split].
        * simpl. split; [intros ? []|exact I].
        * intros u v Ha [<-|[]]. apply OK; [apply in_rev; exact Ha|left; reflexivity].
      + intros x Hx. apply in_app_or in Hx. apply in_or_app. destruct Hx as [Hx|Hx]; [left; apply in_rev; exact Hx|right; exact Hx].
      + intros x Hx. exists x. split; [|reflexivity]. apply in_app_or in Hx. apply in_or_app.
        destruct Hx as [Hx|Hx]; [left; apply in_rev in Hx; exact Hx|right; exact Hx].
    - pose proof (scan_spec cur (r :: rest1)) as SP.
      destruct (scan cl cur (r :: rest1)) as [[rest'|o rest']|].
      + destruct SP as (o & HP & HE).
        assert (SUB : forall x, In x (cur :: rest') -> In x (cur :: r :: rest1)).
        { intros x [<-|Hx]; [left; reflexivity|right].
          eapply Permutation_in; [apply Permutation_sym; exact HP|right; exact Hx]. }
        destruct (IHfuel done cur rest' l H OD) as (I1 & I2 & I3).
        { intros d x Hd Hx. apply OK; auto. }
        split; [exact I1|split].
        * intros x Hx. apply I2 in Hx. apply in_app_or in Hx. apply in_or_app. destruct Hx; [left; assumption|right; apply SUB; assumption].
        * intros x Hx. apply in_app_or in Hx. destruct Hx as [Hx|[<-|Hx]].
          -- apply I3. apply in_or_app. left. exact Hx.
          -- apply I3. apply in_or_app. right. left. reflexivity.
          -- eapply Permutation_in in Hx; [|exact HP]. destruct Hx as [<-|Hx].
             ++ destruct (I3 cur) as (y & Hy & Hf); [apply in_or_app; right; left; reflexivity|].
                exists y. split; [exact Hy|]. rewrite HE. exact Hf.
             ++ apply I3. apply in_or_app. right. right. exact Hx.
      + destruct SP as (HP & HK).
        assert (EQV : forall x, In x (o :: cur :: rest') <-> In x (cur :: r :: rest1)).
        { intros x. split.
          - intros [<-|[<-|Hx]].
            + right. eapply Permutation_in; [apply Permutation_sym; exact HP|left; reflexivity].
            + left. reflexivity.
            + right. eapply Permutation_in; [apply Permutation_sym; exact HP|right; exact Hx].
          - intros [<-|Hx]; [right; left; reflexivity|].
            eapply Permutation_in in Hx; [|exact HP]. destruct Hx as [<-|Hx]; [left; reflexivity|right; right; exact Hx]. }
        destruct (IHfuel done o (cur :: rest') l H OD) as (I1 & I2 & I3).
        { intros d x Hd Hx. apply OK; auto. apply EQV. exact Hx. }
        split; [exact I1|split].
        * intros x Hx. apply I2 in Hx. apply in_app_or in Hx. apply in_or_app.
          destruct Hx; [left; assumption|right; apply EQV; assumption].
        * intros x Hx. apply I3. apply in_app_or in Hx. apply in_or_app.
          destruct Hx; [left; assumption|right; apply EQV; assumption].
      + destruct (IHfuel (cur :: done) r rest1 l H) as (I1 & I2 & I3).
        * simpl. apply ordered_app. split; [exact OD|split].
          -- simpl. split; [intros ? []|exact I].
          -- intros u v Ha [<-|[]]. apply OK; [apply in_rev; exact Ha|left; reflexivity].
        * intros d x [<-|Hd] Hx; [apply SP; exact Hx|apply OK; [exact Hd|right; exact Hx]].
        * assert (EQV : forall x, In x ((cur :: done) ++ r :: rest1) <-> In x (done ++ cur :: r :: rest1)).
          { intros x. simpl. rewrite !in_app_iff. simpl. tauto. }
          split; [exact I1|split].
          -- intros x Hx. apply EQV. apply I2. exact Hx.
          -- intros x Hx. apply I3. apply EQV. exact Hx.
  Qed.

  (* The loop's result: no listed symbol stands before an equal one or one it masks (properly),
     every result symbol is one of the given ones, every given symbol is represented (up to case when caseless). *)
  Theorem reorder_spec : forall syms l,
    reorder cl syms = Some l ->
    ordered l /\ (forall x, In x l -> In x syms) /\ covers l syms.
  Proof.
    intros [|c t] l H.
    - inversion H; subst. split; [exact I|split]; intros x [].
    - unfold reorder in H. apply reorder_go_inv in H; simpl; auto. intros d x [].
  Qed.

  (* ---------------------------------------------------------------- first match = longest match *)
  Lemma sym_match_fold_eq : forall s loc x y,
    fold_case cl x = fold_case cl y -> sym_match cl s loc x = sym_match cl s loc y.
  Proof. intros. unfold sym_match. rewrite H. reflexivity. Qed.

  Lemma find_split : forall (p : str -> bool) l r,
    find p l = Some r -> exists l1 l2, l = l1 ++ r :: l2 /\ (forall x, In x l1 -> p x = false) /\ p r = true.
  Proof.
    induction l as [|a l IH]; simpl; intros r H; [discriminate|].
    destruct (p a) eqn:E.
    - inversion H; subst. exists [], l. repeat split; auto. intros x [].
    - apply IH in H. destruct H as (l1 & l2 & -> & H1 & H2). exists (a :: l1), l2. repeat split; auto.
      intros x [<-|Hx]; auto.
  Qed.

  Lemma find_none_iff : forall (p : str -> bool) l, find p l = None -> forall x, In x l -> p x = false.
  Proof.
    induction l as [|a l IH]; simpl; intros H x []; destruct (p a) eqn:E; try discriminate; subst; auto.
  Qed.

  Theorem first_match_longest : forall syms l s loc,
    reorder cl syms = Some l ->
    (forall r, match_first cl l s loc = Some r -> is_longest_match cl syms s loc r) /\
    (match_first cl l s loc = None -> forall w, In w syms -> sym_match cl s loc w = false).
  Proof.
    intros syms l s loc H. apply reorder_spec in H. destruct H as (ORD & SUB & COV). split.
    - intros r Hr. unfold match_first in Hr. apply find_split in Hr.
      destruct Hr as (l1 & l2 & -> & HN & HR). repeat split.
      + apply SUB. apply in_or_app. right. left. reflexivity.
      + exact HR.
      + intros v Hv Mv. destruct (COV v Hv) as (y & Hy & Hf).
        assert (My : sym_match cl s loc y = true) by (rewrite <- (sym_match_fold_eq s loc v y Hf); exact Mv).
        assert (Lv : length v = length y).
        { rewrite <- (fold_case_length cl v), <- (fold_case_length cl y), Hf. reflexivity. }
        rewrite Lv. destruct (le_lt_dec (length y) (length r)) as [|LT]; [assumption|exfalso].
        (* r is a proper prefix of y, and y cannot stand before r (it would have matched first) *)
        assert (PM : pmask cl r y = true).
        { unfold pmask. apply andb_true_iff. split; [apply Nat.ltb_lt; exact LT|].
          unfold masks. unfold sym_match, starts_at in HR, My.
          eapply prefix_of_both; eauto. rewrite !fold_case_length. lia. }
        apply in_app_or in Hy. destruct Hy as [Hy|[<-|Hy]].
        * rewrite (HN y Hy) in My. discriminate.
        * lia.
        * apply ordered_app in ORD. destruct ORD as (_ & ORD & _). simpl in ORD. destruct ORD as (O1 & _).
          destruct (O1 y Hy) as (_ & O2). congruence.
    - intros HN w Hw. destruct (COV w Hw) as (y & Hy & Hf).
      rewrite (sym_match_fold_eq s loc w y Hf). eapply find_none_iff; eauto.
  Qed.
End Loop.

(* exact-case: duplicate-free, same set of symbols *)
Lemma ordered_nodup : forall l, ordered false l -> NoDup l.
Proof.
  induction l as [|a t IH]; simpl; intros H; [constructor|].
  destruct H as (H1 & H2). constructor; [|apply IH; exact H2].
  intros Hin. destruct (H1 a Hin) as (E & _). unfold sym_eq in E. simpl in E.
  assert (str_eqb a a = true) by (apply str_eqb_eq; reflexivity). congruence.
Qed.

Theorem reorder_nodup : forall (syms l : list str),
  reorder false syms = Some l -> NoDup l /\ (forall x, In x l <-> In x syms).
Proof.
  intros syms l H. apply reorder_spec in H. destruct H as (O & S & C). split.
  - apply ordered_nodup. exact O.
  - intros x. split; [apply S|]. intros Hx. destruct (C x Hx) as (y & Hy & E). simpl in E. subst. exact Hy.
Qed.

(* ------------------------------------------------------------------ ASCII case folding vs IGNORECASE *)
Lemma icase_char : forall c d, cset_mem true false [CI_char d] c = N.eqb (ascii_upper c) (ascii_upper d).
Proof.
  intros c d. unfold cset_mem, items_mem, citem_mem. simpl.
  unfold ascii_lower, ascii_upper, is_upper_ascii, is_lower_ascii, in_range.
  repeat match goal with
  | |- context [N.leb ?a ?b] => destruct (N.leb_spec a b)
  end; simpl;
  repeat match goal with
  | |- context [N.eqb ?a ?b] => destruct (N.eqb_spec a b)
  end; simpl; try reflexivity; try lia.
Qed.

Lemma char_at_upper : forall s i, char_at (str_upper s) i = option_map ascii_upper (char_at s i).
Proof. intros. unfold char_at, str_upper. apply nth_error_map. Qed.

Lemma rm_rlit_i : forall s w i k,
  rm s (rlit_i w) i k = if starts_at (str_upper s) i (str_upper w) then k (i + length w) else None.
Proof.
  intros s. unfold rlit_i. induction w as [|a w IH]; intros i k.
  - simpl. rewrite Nat.add_0_r. reflexivity.
  - assert (E : rm s (rseq (map RChrI (a :: w))) i k = rm s (RChrI a) i (fun j => rm s (rseq (map RChrI w)) j k)).
    { simpl map. destruct w; simpl; [|reflexivity].
      unfold set_step. destruct (char_at s i); [|reflexivity].
      destruct (cset_mem true false [CI_char a] c); reflexivity. }
    rewrite E. unfold RChrI. cbn [rm]. rewrite set_step_eq.
    change (str_upper (a :: w)) with (ascii_upper a :: str_upper w). rewrite starts_at_cons, char_at_upper.
    destruct (char_at s i) as [c|]; simpl option_map; [|reflexivity].
    rewrite icase_char, N.eqb_sym.
    destruct (N.eqb (ascii_upper a) (ascii_upper c)); simpl; [|reflexivity].
    rewrite IH. replace (S i + length w) with (i + length (a :: w)) by (simpl; lia). reflexivity.
Qed.

(* ------------------------------------------------------------------ the regex agrees with MatchFirst of literals *)
Lemma sym_match_plain : forall s loc w, sym_match false s loc w = starts_at s loc w.
Proof. reflexivity. Qed.

Lemma sym_match_caseless : forall s loc w, sym_match true s loc w = starts_at (str_upper s) loc (str_upper w).
Proof. reflexivity. Qed.

Lemma rm_oneof_alternation : forall (cl : bool) syms s i k,
  rm s (ralt (map (if cl then rlit_i else rlit) syms)) i k =
  first_some (fun w => if sym_match cl s i w then k (i + length w) else None) syms.
Proof.
  intros. rewrite rm_ralt. induction syms as [|w t IH]; simpl; [reflexivity|].
  rewrite IH. f_equal. destruct cl.
  - rewrite rm_rlit_i. reflexivity.
  - rewrite rm_rlit. reflexivity.
Qed.

Lemma first_some_find : forall (p : str -> bool) (f : str -> nat) l,
  first_some (fun w => if p w then Some (f w) else None) l =
  match find p l with Some w => Some (f w) | None => None end.
Proof.
  induction l as [|w t IH]; simpl; [reflexivity|]. destruct (p w); simpl; [reflexivity|exact IH].
Qed.

Lemma starts_at_single_char : forall s loc f,
  starts_at s loc [f] = match char_at s loc with Some c => N.eqb f c | None => false end.
Proof.
  intros. rewrite starts_at_cons. destruct (char_at s loc); [|reflexivity].
  unfold starts_at. simpl. rewrite andb_true_r. reflexivity.
Qed.

(* class fast path: all symbols are single characters *)
Lemma oneof_class_match : forall cl syms s loc,
  all_single syms = true ->
  re_match (RSet cl false (map CI_char (concat syms))) s loc =
  match find (sym_match cl s loc) syms with Some w => Some (loc + length w) | None => None end.
Proof.
  intros cl syms s loc AS. rewrite re_match_set.
  destruct (char_at s loc) as [c|] eqn:C.
  - induction syms as [|w t IH].
    + cbn. unfold cset_mem. simpl. destruct cl; reflexivity.
    + unfold all_single in AS. cbn [forallb] in AS. apply andb_true_iff in AS. destruct AS as [A1 A2]. apply Nat.eqb_eq in A1.
      destruct w as [|d [|e w']]; simpl in A1; try lia. cbn [concat app map find].
      assert (HD : sym_match cl s loc [d] = cset_mem cl false [CI_char d] c).
      { destruct cl.
        - rewrite sym_match_caseless. change (str_upper [d]) with [ascii_upper d].
          rewrite starts_at_single_char, char_at_upper, C. cbn [option_map]. rewrite icase_char. apply N.eqb_sym.
        - rewrite sym_match_plain, starts_at_single_char, C, cset_mem_single. apply N.eqb_sym. }
      rewrite HD.
      assert (SPLIT : cset_mem cl false (CI_char d :: map CI_char (concat t)) c =
                      cset_mem cl false [CI_char d] c || cset_mem cl false (map CI_char (concat t)) c).
      { unfold cset_mem, items_mem. simpl. destruct cl; simpl;
          repeat match goal with |- context [N.eqb ?a ?b] => destruct (N.eqb a b) end; simpl;
          repeat match goal with |- context [existsb ?f ?l] => destruct (existsb f l) end; reflexivity. }
      rewrite SPLIT. destruct (cset_mem cl false [CI_char d] c); cbn [orb].
      * simpl. f_equal. lia.
      * apply IH. exact A2.
  - assert (forall w, In w syms -> sym_match cl s loc w = false).
    { intros w Hw. unfold all_single in AS. rewrite forallb_forall in AS. specialize (AS w Hw).
      apply Nat.eqb_eq in AS. destruct w as [|d [|e w']]; simpl in AS; try lia.
      destruct cl.
      - rewrite sym_match_caseless. change (str_upper [d]) with [ascii_upper d].
        rewrite starts_at_single_char, char_at_upper, C. reflexivity.
      - rewrite sym_match_plain, starts_at_single_char, C. reflexivity. }
    destruct (find (sym_match cl s loc) syms) eqn:F; [|reflexivity].
    apply find_some in F. destruct F as (F1 & F2). rewrite (H _ F1) in F2. discriminate.
Qed.

(* use_regex=True and use_regex=False give the same end position and the same listed symbol
   (no as_keyword): the regex finds exactly the first listed symbol that matches *)
Theorem oneof_regex_agrees : forall cl syms s loc,
  oneof_regex_path cl false syms s loc =
  match match_first cl syms s loc with Some w => Some (loc + length w) | None => None end.
Proof.
  intros. unfold oneof_regex_path, oneof_regex, oneof_alt, match_first.
  destruct (all_single syms) eqn:AS.
  - apply oneof_class_match. exact AS.
  - unfold re_match. rewrite rm_oneof_alternation. apply first_some_find.
Qed.

(* ------------------------------------------------------------------ the index-level transcription is the split-level model *)
Lemma delete_at_app : forall (a b : list str) n, delete_at (length a + n) (a ++ b) = a ++ delete_at n b.
Proof.
  induction a as [|x a IH]; intros b n; [reflexivity|]. simpl. rewrite IH. reflexivity.
Qed.

Lemma insert_at_app : forall (a b : list str) x, insert_at (length a) x (a ++ b) = a ++ x :: b.
Proof.
  induction a as [|y a IH]; intros b x; [destruct b; reflexivity|]. simpl. rewrite IH. reflexivity.
Qed.

(* the inner for loop: same verdict; the index found is the position of the removed element *)
Lemma scan_ix_scan : forall cl cur rest j0,
  match scan_ix cl cur rest j0, scan cl cur rest with
  | Some (HDel j), Some (SDel rest') => j0 <= j /\ rest' = delete_at (j - j0) rest
  | Some (HMove j o), Some (SMove o' rest') => o = o' /\ j0 <= j /\ rest' = delete_at (j - j0) rest
  | None, None => True
  | _, _ => False
  end.
Proof.
  intros cl cur. induction rest as [|o t IH]; intros j0; simpl; [exact I|].
  destruct (sym_eq cl o cur).
  - split; [lia|]. rewrite Nat.sub_diag. reflexivity.
  - destruct (pmask cl cur o).
    + split; [reflexivity|]. split; [lia|]. rewrite Nat.sub_diag. reflexivity.
    + specialize (IH (S j0)).
      destruct (scan_ix cl cur t (S j0)) as [[j|j x]|]; destruct (scan cl cur t) as [[t'|y t']|]; try contradiction; try exact I.
      * destruct IH as (L & ->). split; [lia|]. replace (j - j0) with (S (j - S j0)) by lia. reflexivity.
      * destruct IH as (-> & L & ->). split; [reflexivity|]. split; [lia|].
        replace (j - j0) with (S (j - S j0)) by lia. reflexivity.
Qed.

Lemma reorder_ix_go : forall cl fuel done cur rest,
  reorder_ix cl fuel (rev done ++ cur :: rest) (length done) = reorder_go cl fuel done cur rest.
Proof.
  intros cl. induction fuel as [|f IH]; intros done cur rest; [reflexivity|].
  cbn [reorder_ix reorder_go].
  assert (LEN : length (rev done ++ cur :: rest) = length done + S (length rest)).
  { rewrite app_length, rev_length. reflexivity. }
  destruct rest as [|r rest1].
  - rewrite LEN. simpl length. replace (S (length done) <? length done + 1) with false; [reflexivity|].
    symmetry. apply Nat.ltb_ge. lia.
  - rewrite LEN. replace (S (length done) <? length done + S (length (r :: rest1))) with true
      by (symmetry; apply Nat.ltb_lt; simpl; lia).
    assert (NTH : nth_error (rev done ++ cur :: r :: rest1) (length done) = Some cur).
    { rewrite nth_error_app2 by (rewrite rev_length; lia). rewrite rev_length, Nat.sub_diag. reflexivity. }
    rewrite NTH.
    assert (SK : skipn (S (length done)) (rev done ++ cur :: r :: rest1) = r :: rest1).
    { replace (S (length done)) with (length (rev done) + 1) by (rewrite rev_length; lia).
      rewrite skipn_app, skipn_all2 by lia.
      replace (length (rev done) + 1 - length (rev done)) with 1 by lia. reflexivity. }
    rewrite SK.
    pose proof (scan_ix_scan cl cur (r :: rest1) 0) as SS.
    destruct (scan_ix cl cur (r :: rest1) 0) as [[j|j o]|]; destruct (scan cl cur (r :: rest1)) as [[rest'|o' rest']|];
      try contradiction.
    + destruct SS as (_ & ->). rewrite Nat.sub_0_r.
      replace (length done + j + 1) with (length (rev done) + S j) by (rewrite rev_length; lia).
      rewrite delete_at_app. cbn [delete_at]. apply IH.
    + destruct SS as (-> & _ & ->). rewrite Nat.sub_0_r.
      replace (length done + j + 1) with (length (rev done) + S j) by (rewrite rev_length; lia).
      rewrite delete_at_app. cbn [delete_at].
      rewrite <- (rev_length done) at 1. rewrite insert_at_app. apply IH.
    + replace (rev done ++ cur :: r :: rest1) with (rev (cur :: done) ++ r :: rest1)
        by (simpl; rewrite <- app_assoc; reflexivity).
      apply (IH (cur :: done) r rest1).
Qed.

(* the loop as written in helpers.py (indices, del, insert) computes what `reorder` computes *)
Theorem reorder_ix_eq : forall cl syms, reorder_ix cl (reorder_fuel syms) syms 0 = reorder cl syms.
Proof.
  intros cl [|c t]; [reflexivity|]. unfold reorder. apply (reorder_ix_go cl _ [] c t).
Qed.
