(* QuotedString round trip with an esc_quote: (3) esc_char and esc_quote together (contents without the esc_quote),
   (2) esc_quote only (SQL style: one-character end quote, esc_quote starting with it). *)
From Coq Require Import List NArith ZArith Arith Bool Lia.
From PP Require Import Model.Str Model.Regex Proofs.RegexProofs Model.Builtins Proofs.BuiltinsProofs Model.Quoted Gen.GenRegex
  Proofs.QuotedProofs Proofs.QuotedProofs2.
Import ListNotations.

(* ------------------------------------------------------------------ (3) esc_char and esc_quote *)
Lemma mem_char_false : forall c l, mem_char c l = false -> ~ In c l.
Proof.
  intros c l H Hin. unfold mem_char in H. assert (X : existsb (N.eqb c) l = true).
  { apply existsb_exists. exists c. split; auto. apply N.eqb_refl. }
  congruence.
Qed.

Lemma scan_step_ext : forall c1 c2 t, q_esc c1 = q_esc c2 -> q_cws c1 = q_cws c2 -> q_multiline c1 = q_multiline c2 ->
  scan_step c1 t = scan_step c2 t.
Proof. intros c1 c2 t H1 H2 H3. unfold scan_step, dot_ok. rewrite H1, H2, H3. reflexivity. Qed.

Lemma unq_scan_ext : forall c1 c2, q_esc c1 = q_esc c2 -> q_cws c1 = q_cws c2 -> q_multiline c1 = q_multiline c2 ->
  forall fuel t, unq_scan c1 fuel t = unq_scan c2 fuel t.
Proof.
  intros c1 c2 H1 H2 H3. induction fuel; intros t; simpl; auto.
  rewrite (scan_step_ext c1 c2 t H1 H2 H3). destruct (scan_step c2 t) as [[o r]|]; auto. rewrite IHfuel. reflexivity.
Qed.

Lemma str_replace_absent : forall w new fuel s, occurs w s = false -> str_replace fuel w new s = s.
Proof.
  intros w new. induction fuel; intros s H; simpl; auto.
  destruct s as [|c r]; auto. cbn [occurs] in H. apply orb_false_iff in H. destruct H as [H1 H2].
  rewrite H1. f_equal. apply IHfuel. exact H2.
Qed.

Lemma rep_ok_ralt_cons : forall a l, rep_ok a = true -> rep_ok (ralt l) = true -> rep_ok (ralt (a :: l)) = true.
Proof. intros a [|b l] H1 H2; auto. change (ralt (a :: b :: l)) with (RAlt a (ralt (b :: l))). simpl. rewrite H1. exact H2. Qed.

Lemma consuming_ralt_cons : forall a l, consuming a = true -> consuming (ralt l) = true -> consuming (ralt (a :: l)) = true.
Proof. intros a [|b l] H1 H2; auto. change (ralt (a :: b :: l)) with (RAlt a (ralt (b :: l))). simpl. rewrite H1. exact H2. Qed.

Section Both.
  Variables (q eq' w : str) (e0 e : char) (ml cws unq : bool).
  Let eq := e0 :: eq'.
  Definition both_cfg : qcfg :=
    {| q_quote := q; q_end := eq; q_esc := Some e; q_escq := Some w; q_multiline := ml; q_unquote := unq; q_cws := cws |}.
  Let cfg := both_cfg.
  Let cfg0 := rt_cfg q eq' e0 e ml cws unq.
  Let body := ralt (qs_inner cfg).
  Let body0 := ralt (qs_inner cfg0).
  Let escs' := escs e0 e cws.
  Let At' := At eq' e0 e cws.

  Hypothesis Hq : q <> [].
  Hypothesis Hne : e <> e0.
  Hypothesis HeNL : e <> NL.
  Hypothesis He0NL : e0 <> NL.
  Hypothesis Hsp : cws = true -> e = BS -> after_backslash_special e0 = false.
  Hypothesis Hw : w <> [].
  Hypothesis Hwe : ~ In e w.

  Lemma both_inner : qs_inner cfg = rlit w :: qs_inner cfg0.
  Proof. reflexivity. Qed.

  Lemma den_body_cases : forall s i m, den body s i m <-> den (rlit w) s i m \/ den body0 s i m.
  Proof.
    intros s i m. unfold body, body0. rewrite both_inner. rewrite !den_ralt. split.
    - intros (r & [<- | Hin] & H); [left; auto | right; eauto].
    - intros [H | (r & Hin & H)]; [exists (rlit w); simpl; auto | exists r; simpl; auto].
  Qed.

  (* a literal without esc_char, read from a unit boundary, runs over unescaped content characters only, or reaches the
     closing quote and stops strictly after its first character *)
  Lemma lit_units : forall v rc t, ~ In e v -> escs' rc ++ eq = v ++ t ->
    (exists rc2, t = escs' rc2 ++ eq) \/ length t < length eq.
  Proof.
    induction v as [|a v IH]; intros rc t H1 E.
    - left. exists rc. simpl in E. auto.
    - destruct rc as [|c rc'].
      + right. simpl in E. rewrite E. simpl. rewrite app_length. lia.
      + unfold escs' in E. change (escs e0 e cws (c :: rc')) with (unit1 e0 e cws c ++ escs e0 e cws rc') in E.
        unfold unit1 in E. destruct (esc1 e0 e cws c) eqn:Ec.
        * simpl in E. injection E as E1 _. exfalso. apply H1. left. auto.
        * simpl in E. injection E as E1 E2. apply (IH rc' t); auto. intros Hin. apply H1. right. exact Hin.
  Qed.

  Section Source.
    Variable s : str.

    (* either at a unit boundary of the escaped content, or strictly inside the closing quote *)
    Definition BInv (i : nat) : Prop := (exists rc, At' s i rc) \/ length s - length eq < i.

    Lemma both_lit_step : forall i m, (exists rc, At' s i rc) -> den (rlit w) s i m -> BInv m.
    Proof.
      intros i m (rc & HA) H. apply den_rlit in H. destruct H as (t & E & ->).
      unfold At', At in HA. fold eq in HA. fold escs' in HA.
      assert (T : skipn (i + length w) s = t) by (rewrite <- skipn_plus, E; apply skipn_app_exact).
      pose proof E as E'. rewrite HA in E'. apply lit_units in E'; [|exact Hwe].
      destruct E' as [(rc2 & Ht) | Hlt].
      - left. exists rc2. unfold At', At. fold eq. fold escs'. rewrite T. exact Ht.
      - right. pose proof (skipn_length (i + length w) s) as L. rewrite T in L.
        assert (1 <= length w) by (clear - Hw; destruct w; [contradiction | simpl; lia]). lia.
    Qed.

    Lemma both_step : forall i m, BInv i -> den body s i m -> BInv m.
    Proof.
      intros i m [HA | Hlt] H.
      - apply den_body_cases in H. destruct H as [H | H].
        + eapply both_lit_step; eauto.
        + destruct HA as (rc & HA).
          destruct (body_step q eq' e0 e ml cws Hne HeNL He0NL Hsp unq s i m rc HA H) as (c & rc' & _ & HA').
          left. exists rc'. exact HA'.
      - right. apply den_mono in H. lia.
    Qed.

    Lemma both_iter : forall n i m, BInv i -> iter_rel (den body s) n i m -> BInv m.
    Proof.
      induction n; simpl; intros i m HI H.
      - subst. auto.
      - destruct H as (m1 & H1 & H2). eapply IHn; [|exact H2]. eapply both_step; eauto.
    Qed.

    Lemma both_end : forall i j, BInv i -> den_list (map RChr eq) s i j -> j = length s.
    Proof.
      intros i j [(rc & HA) | Hlt] H.
      - apply (end_only eq' e0 e cws Hne HeNL He0NL Hsp s i j rc HA H).
      - exfalso. apply den_chars in H. destruct H as (t & E & _).
        pose proof (skipn_length i s) as L. rewrite E, app_length in L. unfold eq in *. cbn [length] in *. lia.
    Qed.

    Lemma both_body_ok : rep_ok body = true /\ consuming body = true.
    Proof.
      destruct (body_rep_ok q eq' e0 e ml cws Hne HeNL He0NL Hsp unq) as [B1 B2].
      unfold body. rewrite both_inner. split.
      - apply rep_ok_ralt_cons; auto. apply rep_ok_rlit.
      - apply consuming_ralt_cons; auto. apply consuming_rlit. exact Hw.
    Qed.

    Variable content : str.
    Hypothesis Hs : s = q ++ escs' content ++ eq.
    Hypothesis Hok : Forall (okc ml) content.

    Theorem both_match_whole : re_match (qs_pattern cfg) s 0 = Some (length s).
    Proof.
      destruct both_body_ok as [B1 B2].
      pose proof (at_start q eq' e0 e cws s content Hs) as HA0.
      apply match_from_den.
      - apply pattern_rep_ok_gen; auto.
      - apply den_pattern_gen. cbn [q_quote q_end cfg both_cfg].
        destruct (body_exists q eq' e0 e ml cws Hsp unq s content (length q) Hok HA0) as (m & Hm & HAm).
        exists (length q), m. split; [apply den_chars; exists (escs' content ++ eq); split; auto|]. split.
        + exists (length content). eapply iter_rel_impl; [|exact Hm]. intros i j H. apply den_body_cases. right. exact H.
        + apply den_chars. exists []. unfold At in HAm. simpl in HAm. rewrite app_nil_r. split; auto.
          pose proof (skipn_length m s) as L. rewrite HAm in L.
          assert (m <= length s).
          { eapply iter_rel_mono in Hm; [|intros; eapply den_mono; eauto]. destruct Hm as [_ Hm]. apply Hm.
            rewrite Hs, app_length. lia. }
          unfold eq in *. cbn [length] in *. lia.
      - intros j H. apply den_pattern_gen in H. cbn [q_quote q_end cfg both_cfg] in H.
        destruct H as (m1 & m2 & H1 & (n & H2) & H3).
        apply den_chars in H1. destruct H1 as (t1 & _ & ->). simpl in H2.
        eapply both_end; [|exact H3]. eapply both_iter; [|exact H2]. left. exists content. exact HA0.
    Qed.
  End Source.

  Theorem both_roundtrip : forall content, Forall (okc ml) content -> occurs w content = false ->
    let s := q ++ escs' content ++ eq in
    qs_parse cfg s 0 = Some (length s, if unq then content else s).
  Proof.
    intros content Hok Hocc s. unfold qs_parse.
    assert (C : char_at s 0 = Some (hd 0%N q)).
    { unfold s. clear - Hq. destruct q; [contradiction | reflexivity]. }
    rewrite C. cbn [q_quote cfg both_cfg]. rewrite N.eqb_refl.
    fold cfg. rewrite (both_match_whole s content eq_refl Hok). rewrite substr_all.
    cbn [q_unquote cfg both_cfg]. destruct unq eqn:U; [|reflexivity].
    unfold unquote. cbn [q_quote q_end q_escq cfg both_cfg]. unfold s. rewrite inner_split; [|exact []].
    rewrite (unq_scan_ext both_cfg (rt_cfg q eq' e0 e ml cws true)) by reflexivity.
    unfold escs'. rewrite (scan_escs q eq' e0 e ml cws Hne HeNL He0NL Hsp true).
    - rewrite str_replace_absent; auto.
    - exact Hok.
    - pose proof (escs_length e0 e cws Hne HeNL He0NL Hsp content). lia.
  Qed.
End Both.

Definition escboth_cfg (q eq : str) (e : char) (w : str) (ml unq cws : bool) : qcfg :=
  {| q_quote := q; q_end := eq; q_esc := Some e; q_escq := Some w; q_multiline := ml; q_unquote := unq; q_cws := cws |}.

Theorem quoted_roundtrip_both : forall q eq e w ml unq cws content,
  let cfg := escboth_cfg q eq e w ml unq cws in
  both_hyp cfg e w content = true ->
  qs_parse cfg (quoted_source cfg content) 0 =
    Some (length (quoted_source cfg content), if unq then content else quoted_source cfg content).
Proof.
  intros q eq e w ml unq cws content cfg H. unfold both_hyp, roundtrip_hyp in H.
  repeat (apply andb_true_iff in H; let H' := fresh "H" in destruct H as [H H']).
  cbn [q_quote q_end q_multiline q_cws cfg escboth_cfg] in *.
  destruct eq as [|e0 eq']; [discriminate|]. unfold end0 in *. cbn [q_end cfg escboth_cfg hd] in *.
  apply negb_true_iff in H, H8, H7, H6, H5, H3, H2, H1, H0.
  apply (both_roundtrip q eq' w e0 e ml cws unq).
  - intros ->. discriminate.
  - apply N.eqb_neq. exact H7.
  - apply N.eqb_neq. exact H6.
  - apply N.eqb_neq. exact H5.
  - intros -> ->. simpl in H3. exact H3.
  - intros ->. discriminate.
  - apply mem_char_false. exact H0.
  - apply no_newline_okc. exact H4.
  - exact H1.
Qed.
