(* C08: facts about the scan_string loop (Model/Entry.v), for EVERY handler `rec` interpreting the `_parse` calls. *)
From Coq Require Import List ZArith NArith Bool Arith Lia.
From PP Require Import Model.Str Model.Results Model.Prog Model.Core Model.Entry.
Import ListNotations.

Lemma drun_lift {R} rec p (k : outcome -> dprog R) :
  drun rec (lift p k) = match run rec p with Some o => drun rec (k o) | None => None end.
Proof.
  induction p as [o|a k' IH]; simpl; [reflexivity|].
  destruct (rec a) as [o|]; [apply IH|reflexivity].
Qed.

(* whitespace skipping never moves backwards *)
Lemma run_while_ge fuel s p : forall loc m, loc <= run_while fuel s loc m p.
Proof.
  induction fuel as [|f IH]; intros loc m; simpl; [lia|].
  destruct (Nat.ltb loc m); [|lia]. destruct (at_ s loc); [|lia]. destruct (p c); [|lia].
  specialize (IH (S loc) m). lia.
Qed.
Lemma skip_white_ge s loc w : loc <= skip_white s loc w.
Proof. apply run_while_ge. Qed.

(* an element without ignore expressions that is not LineStart / GoToColumn pre-parses by skipping its whitespace *)
Definition plainpre (e : expr) : Prop :=
  ign_of e = [] /\ match e with Tok _ _ (KLineStart _ _) | Tok _ _ (KGoToCol _) => False | _ => True end.

Lemma pre_parse_plainpre fail e s loc k : plainpre e ->
  pre_parse fail e s loc k = k (if skipws (attrs_of e) then skip_white s loc (white (attrs_of e)) else loc).
Proof.
  intros [Hi Hs]. unfold pre_parse.
  assert (forall n, skip_ignorables fail n (ign_of e) s loc
            (fun loc1 => k (if skipws (attrs_of e) then skip_white s loc1 (white (attrs_of e)) else loc1)) =
          k (if skipws (attrs_of e) then skip_white s loc (white (attrs_of e)) else loc)) as H.
  { intros n. rewrite Hi. destruct n; reflexivity. }
  destruct e as [a i t| | | | |]; try apply H. destruct t; try apply H; contradiction.
Qed.

Definition ploc (root : expr) (s : str) (always_skip : bool) (loc : nat) : nat :=
  let pp := if always_skip then preparser root else root in
  if skipws (attrs_of pp) then skip_white s loc (white (attrs_of pp)) else loc.

Lemma ploc_ge root s al loc : loc <= ploc root s al loc.
Proof. unfold ploc. destruct (skipws _); [apply skip_white_ge|lia]. Qed.

Lemma plainpre_preparser root : ign_of root = [] -> plainpre (preparser root).
Proof. intros H. split; [exact H|exact I]. Qed.

(* matches reported from position loc on, in non-overlapping mode: each starts at or after the current position, ends
   strictly after it, and the next ones start from its end *)
Inductive chain : nat -> list (pres * nat * nat) -> Prop :=
| chain_nil loc : chain loc []
| chain_cons loc t st en rest : loc <= st -> loc < en -> chain en rest -> chain loc ((t, st, en) :: rest).

Lemma chain_weaken loc loc' l : loc' <= loc -> chain loc l -> chain loc' l.
Proof. intros H Hc. inversion Hc; subst; constructor; try assumption; lia. Qed.

Section Scan.
Variable rec : args -> option outcome.
Variable root : expr. Variable s : str. Variable always_skip : bool. Variable maxm : option nat.
Hypothesis Hplain : plainpre root.

Lemma pre_step (R : Type) loc (k : outcome -> dprog R) :
  drun rec (lift (pre_parse escape (if always_skip then preparser root else root) s loc (fun l => Ret (Ok l pr_empty))) k) =
  drun rec (k (Ok (ploc root s always_skip loc) pr_empty)).
Proof.
  rewrite drun_lift. rewrite pre_parse_plainpre.
  - reflexivity.
  - destruct always_skip; [apply plainpre_preparser; apply Hplain|exact Hplain].
Qed.

(* soundness + order (non-overlapping scan): everything the loop appends is a direct parse at its start, and the matches
   form a chain from the current position *)
Theorem scan_loop_spec : forall fuel loc matches acc res fin,
  drun rec (scan_loop fuel root s always_skip false maxm loc matches acc) = Some (res, fin) ->
  exists new, res = acc ++ new /\ chain loc new /\
    Forall (fun m => match m with (t, st, en) => rec (mkargs root s st true false) = Some (Ok en t) end) new /\
    (match maxm with Some m => matches + length new <= Nat.max matches m | None => True end).
Proof.
  induction fuel as [|f IH]; intros loc matches acc res fin H; simpl in H.
  - injection H as <- _. exists []. rewrite app_nil_r. repeat split; try constructor. destruct maxm; simpl; lia.
  - destruct (Nat.leb loc (length s) && match maxm with Some m => Nat.ltb matches m | None => true end) eqn:Hc.
    + rewrite pre_step in H. cbn [drun] in H.
      destruct (rec (mkargs root s (ploc root s always_skip loc) true false)) as [[nl tk|x|]|] eqn:Hr; try discriminate.
      * destruct (Nat.ltb loc nl) eqn:Hlt.
        -- apply IH in H. destruct H as (new & -> & Hch & Hall & Hm).
           exists ((tk, ploc root s always_skip loc, nl) :: new). rewrite <- app_assoc. repeat split.
           ++ constructor; [apply ploc_ge|apply Nat.ltb_lt; exact Hlt|exact Hch].
           ++ constructor; [exact Hr|exact Hall].
           ++ apply andb_prop in Hc as [_ Hc]. destruct maxm as [m|]; [|exact I]. apply Nat.ltb_lt in Hc. simpl. lia.
        -- apply IH in H. destruct H as (new & -> & Hch & Hall & Hm).
           exists new. repeat split; try assumption.
           eapply chain_weaken; [|exact Hch]. pose proof (ploc_ge root s always_skip loc). lia.
      * destruct (is_pe (xk x)).
        -- apply IH in H. destruct H as (new & -> & Hch & Hall & Hm).
           exists new. repeat split; try assumption.
           eapply chain_weaken; [|exact Hch]. pose proof (ploc_ge root s always_skip loc). lia.
        -- injection H as <- _. exists []. rewrite app_nil_r. repeat split; try constructor. destruct maxm; simpl; lia.
      * injection H as <- _. exists []. rewrite app_nil_r. repeat split; try constructor. destruct maxm; simpl; lia.
    + injection H as <- _. exists []. rewrite app_nil_r. repeat split; try constructor. destruct maxm; simpl; lia.
Qed.
End Scan.

(* ---- split: rejoining the pieces with the matched separators restores the string, provided the matches are ordered,
   lie inside the string, and the string handed to split() is the string that was parsed (no tab expansion) ---- *)
Lemma firstn_add {X} n m : forall t : list X, firstn n t ++ firstn m (skipn n t) = firstn (n + m) t.
Proof.
  induction n as [|n IH]; intros t; simpl; [reflexivity|].
  destruct t as [|x t]; simpl; [rewrite firstn_nil; reflexivity|]. f_equal. apply IH.
Qed.

Lemma skipn_add {X} n m : forall t : list X, skipn m (skipn n t) = skipn (n + m) t.
Proof.
  induction n as [|n IH]; intros t; simpl; [reflexivity|].
  destruct t as [|x t]; simpl; [destruct m; reflexivity|]. apply IH.
Qed.

Lemma slice_app s a b c : a <= b -> b <= c -> slice_ s a b ++ slice_ s b c = slice_ s a c.
Proof.
  intros H1 H2. unfold slice_.
  assert (skipn b s = skipn (b - a) (skipn a s)) as -> by (rewrite skipn_add; f_equal; lia).
  rewrite firstn_add. f_equal. lia.
Qed.

Lemma slice_to_end s a : a <= length s -> slice_ s a (length s) = skipn a s.
Proof. intros H. unfold slice_. apply firstn_all2. rewrite skipn_length. lia. Qed.

Inductive ordered_in (len : nat) : nat -> list (pres * nat * nat) -> Prop :=
| oi_nil last : last <= len -> ordered_in len last []
| oi_cons last t st en rest : last <= st -> st <= en -> en <= len -> ordered_in len en rest ->
    ordered_in len last ((t, st, en) :: rest).

Theorem split_rejoin s : forall ms last, ordered_in (length s) last ms ->
  rejoin s (split_pieces s ms last) ms = skipn last s.
Proof.
  induction ms as [|[[t st] en] rest IH]; intros last H; inversion H; subst; simpl.
  - reflexivity.
  - rewrite IH by assumption. rewrite <- (slice_to_end s en) by assumption.
    rewrite slice_app by lia. rewrite slice_app by lia. apply slice_to_end. lia.
Qed.
