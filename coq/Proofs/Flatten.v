(* C12 (model part): what streamline() does to nested And / MatchFirst — splicing the elements of an action-free, unnamed
   inner And (MatchFirst) into the enclosing one — does not change the reading. *)
From Coq Require Import List ZArith NArith Bool Arith Lia.
From PP Require Import Model.Str Model.Results Model.Prog Model.Core Model.Peg Proofs.PegEquiv Proofs.InfixProofs.
Import ListNotations.

Section Flat.
Variable G : env. Variable s : str.
Notation ppeg := (peg G s).

Lemma seq_app rec es1 es2 : forall l acc,
  peg_seq rec (es1 ++ es2) l acc =
  match peg_seq rec es1 l acc with POk l' acc' => peg_seq rec es2 l' acc' | r => r end.
Proof.
  induction es1 as [|e es1 IH]; intros l acc; simpl; [reflexivity|].
  destruct (rec e l) as [l' ts| | |]; try reflexivity. apply IH.
Qed.

Lemma first_app rec es1 es2 l :
  peg_first rec (es1 ++ es2) l = match peg_first rec es1 l with PFail => peg_first rec es2 l | r => r end.
Proof.
  induction es1 as [|e es1 IH]; simpl; [reflexivity|].
  destruct (rec e l) as [l' ts| | |]; try reflexivity. exact IH.
Qed.

(* a sequence / alternation that terminates at fuel f gives the same answer at fuel S f *)
Lemma seq_mono f es : forall l acc r, peg_seq (ppeg f) es l acc = r -> r <> POut -> peg_seq (ppeg (S f)) es l acc = r.
Proof.
  induction es as [|e es IH]; intros l acc r H N; cbn [peg_seq] in *; [exact H|].
  destruct (ppeg f e l) as [l' ts| | |] eqn:E.
  - rewrite (peg_mono_eq G s f (S f) e l _ E) by (try discriminate; lia). apply IH; assumption.
  - rewrite (peg_mono_eq G s f (S f) e l _ E) by (try discriminate; lia). exact H.
  - rewrite (peg_mono_eq G s f (S f) e l _ E) by (try discriminate; lia). exact H.
  - congruence.
Qed.

Lemma first_mono f es : forall l r, peg_first (ppeg f) es l = r -> r <> POut -> peg_first (ppeg (S f)) es l = r.
Proof.
  induction es as [|e es IH]; intros l r H N; cbn [peg_first] in *; [exact H|].
  destruct (ppeg f e l) as [l' ts| | |] eqn:E.
  - rewrite (peg_mono_eq G s f (S f) e l _ E) by (try discriminate; lia). exact H.
  - rewrite (peg_mono_eq G s f (S f) e l _ E) by (try discriminate; lia). apply IH; assumption.
  - rewrite (peg_mono_eq G s f (S f) e l _ E) by (try discriminate; lia). exact H.
  - congruence.
Qed.

Lemma peg_S_and f a i es loc :
  ppeg (S f) (Nary a i NAnd es) loc = peg_seq (ppeg f) es (eff s (Nary a i NAnd es) loc) [].
Proof. reflexivity. Qed.
Lemma peg_S_mf f a i es loc :
  ppeg (S f) (Nary a i NMatchFirst es) loc = peg_first (ppeg f) es (eff s (Nary a i NMatchFirst es) loc).
Proof. reflexivity. Qed.

(* And: `(a + b) + c` reads as `And([a, b, c])` — the inner And in FIRST position (what `self.exprs[0]` flattening does) *)
Theorem and_flatten_first f ao ai es1 c loc r :
  child_ok ao (Nary ai [] NAnd es1) = true ->
  ppeg (S (S f)) (Nary ao [] NAnd [Nary ai [] NAnd es1; c]) loc = r -> r <> POut ->
  ppeg (S (S f)) (Nary ao [] NAnd (es1 ++ [c])) loc = r.
Proof.
  intros Hck H N. rewrite peg_S_and in H. rewrite peg_S_and.
  set (L := eff s (Nary ao [] NAnd [Nary ai [] NAnd es1; c]) loc) in *.
  assert (eff s (Nary ao [] NAnd (es1 ++ [c])) loc = L) as -> by reflexivity.
  rewrite seq_app. cbn [peg_seq] in H. rewrite peg_S_and in H.
  assert (eff s (Nary ai [] NAnd es1) L = L) as HL.
  { unfold L. apply (stable_child s (Nary ao [] NAnd [Nary ai [] NAnd es1; c]) (Nary ai [] NAnd es1) loc Hck). }
  rewrite HL in H.
  destruct (peg_seq (ppeg f) es1 L []) as [l' ts| | |] eqn:E.
  - rewrite (seq_mono f es1 L [] _ E) by discriminate. cbn [app] in H. exact H.
  - rewrite (seq_mono f es1 L [] _ E) by discriminate. exact H.
  - rewrite (seq_mono f es1 L [] _ E) by discriminate. exact H.
  - congruence.
Qed.

(* MatchFirst: `(a | b) | c` and `a | (b | c)` read as `MatchFirst([a, b, c])` (a MatchFirst never pre-parses itself) *)
Theorem mf_flatten_first f ao ai es1 c loc r :
  callpre ai = false ->
  ppeg (S (S f)) (Nary ao [] NMatchFirst [Nary ai [] NMatchFirst es1; c]) loc = r -> r <> POut ->
  ppeg (S (S f)) (Nary ao [] NMatchFirst (es1 ++ [c])) loc = r.
Proof.
  intros Hcp H N. rewrite peg_S_mf in H. rewrite peg_S_mf.
  set (L := eff s (Nary ao [] NMatchFirst [Nary ai [] NMatchFirst es1; c]) loc) in *.
  assert (eff s (Nary ao [] NMatchFirst (es1 ++ [c])) loc = L) as -> by reflexivity.
  rewrite first_app. cbn [peg_first] in H. rewrite peg_S_mf in H.
  assert (eff s (Nary ai [] NMatchFirst es1) L = L) as HL by (unfold eff; cbn [attrs_of]; rewrite Hcp; reflexivity).
  rewrite HL in H.
  destruct (peg_first (ppeg f) es1 L) as [l' ts| | |] eqn:E.
  - rewrite (first_mono f es1 L _ E) by discriminate. exact H.
  - rewrite (first_mono f es1 L _ E) by discriminate. exact H.
  - rewrite (first_mono f es1 L _ E) by discriminate. exact H.
  - congruence.
Qed.

Theorem mf_flatten_last f ao ai a0 es2 loc r :
  callpre ai = false ->
  ppeg (S (S f)) (Nary ao [] NMatchFirst [a0; Nary ai [] NMatchFirst es2]) loc = r -> r <> POut ->
  ppeg (S (S f)) (Nary ao [] NMatchFirst (a0 :: es2)) loc = r.
Proof.
  intros Hcp H N. rewrite peg_S_mf in H. rewrite peg_S_mf.
  set (L := eff s (Nary ao [] NMatchFirst [a0; Nary ai [] NMatchFirst es2]) loc) in *.
  assert (eff s (Nary ao [] NMatchFirst (a0 :: es2)) loc = L) as -> by reflexivity.
  cbn [peg_first] in *.
  destruct (ppeg (S f) a0 L) as [l1 t1| | |] eqn:E0; try exact H.
  rewrite peg_S_mf in H.
  assert (eff s (Nary ai [] NMatchFirst es2) L = L) as HL by (unfold eff; cbn [attrs_of]; rewrite Hcp; reflexivity).
  rewrite HL in H.
  destruct (peg_first (ppeg f) es2 L) as [l' ts| | |] eqn:E.
  - rewrite (first_mono f es2 L _ E) by discriminate. exact H.
  - rewrite (first_mono f es2 L _ E) by discriminate. exact H.
  - rewrite (first_mono f es2 L _ E) by discriminate. exact H.
  - congruence.
Qed.
End Flat.
