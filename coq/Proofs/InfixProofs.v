(* C16: proofs about the elaboration of infix_notation (Model/Infix.v) at the level of the reference PEG reading (Model/Peg.v). *)
From Coq Require Import List ZArith NArith Bool Arith Lia.
From PP Require Import Model.Str Model.Results Model.Prog Model.Core Model.Peg Model.Infix Proofs.PegEquiv Proofs.Packrat Proofs.EqDec Proofs.PackratCore.
Import ListNotations.

(* ------------------------------------------------------------------------------------------- *)
(* 1. `peg` is monotone in the fuel; results that are not POut are stable                        *)
(* ------------------------------------------------------------------------------------------- *)
Definition le_res (r1 r2 : res) : Prop := r1 = POut \/ r1 = r2.
Definition rec_le (rec1 rec2 : expr -> nat -> res) : Prop := forall e l, le_res (rec1 e l) (rec2 e l).

Lemma le_res_refl r : le_res r r.
Proof. right; reflexivity. Qed.
Lemma le_res_out r : le_res POut r.
Proof. left; reflexivity. Qed.
Lemma le_res_trans a b c : le_res a b -> le_res b c -> le_res a c.
Proof. intros [-> | ->] H; [left; reflexivity|exact H]. Qed.
Lemma le_res_eq a b : le_res a b -> a <> POut -> a = b.
Proof. intros [-> | ->] H; [congruence|reflexivity]. Qed.

Ltac le_case H :=
  let E := fresh "E" in destruct H as [E|E]; rewrite E; [try (left; reflexivity)|].

Section Mono.
Variables rec1 rec2 : expr -> nat -> res.
Hypothesis Hrec : rec_le rec1 rec2.

Lemma peg_seq_le es : forall l acc, le_res (peg_seq rec1 es l acc) (peg_seq rec2 es l acc).
Proof.
  induction es as [|e es IH]; intros l acc; simpl; [apply le_res_refl|].
  le_case (Hrec e l). destruct (rec2 e l); try apply le_res_refl. apply IH.
Qed.

Lemma peg_first_le es : forall l, le_res (peg_first rec1 es l) (peg_first rec2 es l).
Proof.
  induction es as [|e es IH]; intros l; simpl; [apply le_res_refl|].
  le_case (Hrec e l). destruct (rec2 e l); try apply le_res_refl. apply IH.
Qed.

Lemma peg_star_le n e : forall l acc, le_res (peg_star rec1 n e l acc) (peg_star rec2 n e l acc).
Proof.
  induction n as [|n IH]; intros l acc; simpl; [apply le_res_refl|].
  le_case (Hrec e l). destruct (rec2 e l); try apply le_res_refl.
  destruct (Nat.eqb loc l); [apply le_res_refl|apply IH].
Qed.

Lemma peg_longest_le es : forall l best, le_res (peg_longest rec1 es l best) (peg_longest rec2 es l best).
Proof.
  induction es as [|e es IH]; intros l best; simpl; [apply le_res_refl|].
  le_case (Hrec e l). destruct (rec2 e l); try apply le_res_refl; apply IH.
Qed.

Lemma peg_star_stop_le n e ender : forall l acc,
  le_res (peg_star_stop rec1 n e ender l acc) (peg_star_stop rec2 n e ender l acc).
Proof.
  induction n as [|n IH]; intros l acc; simpl; [apply le_res_refl|].
  le_case (Hrec ender l). destruct (rec2 ender l); try apply le_res_refl.
  le_case (Hrec e l). destruct (rec2 e l); try apply le_res_refl.
  destruct (Nat.eqb loc0 l); [apply le_res_refl|apply IH].
Qed.
Lemma peg_skip_scan_le s n t fo : forall tl, le_res (peg_skip_scan s rec1 n t fo tl) (peg_skip_scan s rec2 n t fo tl).
Proof.
  induction n as [|n IH]; intros tl; cbn [peg_skip_scan]; [apply le_res_refl|]. cbv zeta.
  destruct (Nat.ltb (length s) tl); [apply le_res_refl|].
  assert (HT : le_res (match rec1 (nopre t) tl with
                       | POk _ _ => POk tl [] | PFail => peg_skip_scan s rec1 n t fo (S tl) | PDiv => PDiv | POut => POut end)
                      (match rec2 (nopre t) tl with
                       | POk _ _ => POk tl [] | PFail => peg_skip_scan s rec2 n t fo (S tl) | PDiv => PDiv | POut => POut end)).
  { le_case (Hrec (nopre t) tl). destruct (rec2 (nopre t) tl); try apply le_res_refl. apply IH. }
  destruct fo as [fo|]; [|exact HT].
  le_case (Hrec fo tl). destruct (rec2 fo tl); try apply le_res_refl. exact HT.
Qed.
Lemma peg_each_round_le es : forall cands l reqd opt mo nf k1 k2,
  (forall l' r o m nf', le_res (k1 l' r o m nf') (k2 l' r o m nf')) ->
  le_res (peg_each_round rec1 es cands l reqd opt mo nf k1) (peg_each_round rec2 es cands l reqd opt mo nf k2).
Proof.
  induction cands as [|en rest IH]; intros l reqd opt mo nf k1 k2 Hk; cbn [peg_each_round]; [apply Hk|].
  le_case (Hrec (ee_e en) l). destruct (rec2 (ee_e en) l); try apply le_res_refl.
  - destruct (mem_cls (ee_cls en) reqd); [apply IH; exact Hk|].
    destruct (mem_cls (ee_cls en) opt); apply IH; exact Hk.
  - apply IH; exact Hk.
Qed.

Lemma peg_each_loop_le es multis : forall fuel l reqd opt mo k1 k2,
  (forall r o m, le_res (k1 r o m) (k2 r o m)) ->
  le_res (peg_each_loop rec1 es fuel l reqd opt multis mo k1) (peg_each_loop rec2 es fuel l reqd opt multis mo k2).
Proof.
  induction fuel as [|f IH]; intros l reqd opt mo k1 k2 Hk; cbn [peg_each_loop]; [apply le_res_refl|].
  apply peg_each_round_le. intros l' r o m nf'.
  destruct (Nat.eqb nf' _); [apply Hk|]. destruct (_ && _); [apply le_res_refl|]. apply IH; exact Hk.
Qed.

Lemma peg_each_le s es info l : le_res (peg_each s rec1 es info l) (peg_each s rec2 es info l).
Proof.
  unfold peg_each. apply peg_each_loop_le. intros r o m. destruct r; [|apply le_res_refl]. apply peg_seq_le.
Qed.
End Mono.

(* one unfolding of `peg` is monotone in the recursive calls; Forward is the only case that reads the environment *)
Lemma peg_S_le G1 G2 s f1 f2 :
  rec_le (peg G1 s f1) (peg G2 s f2) ->
  (forall id l, le_res (match nth_error G1 id with Some c => peg G1 s f1 c l | None => PFail end)
                       (match nth_error G2 id with Some c => peg G2 s f2 c l | None => PFail end)) ->
  rec_le (peg G1 s (S f1)) (peg G2 s (S f2)).
Proof.
  intros H HF e loc0. cbn [peg].
  set (loc := eff s e loc0).
  destruct e as [a i t|a i k es|a i k c|a i z b ne|a i t inc ig fo|a i id].
  - apply le_res_refl.
  - destruct k.
    + apply peg_seq_le, H.
    + apply peg_first_le, H.
    + apply peg_longest_le, H.
    + apply peg_each_le, H.
  - destruct k as [|aspy| | | | | | | | | | | ]; try apply le_res_refl;
      try (destruct aspy; [apply le_res_refl|]); le_case (H c loc); apply le_res_refl.
  - destruct ne as [n|].
    + le_case (H n loc). destruct (peg G2 s f2 n loc); try apply le_res_refl.
      le_case (H b loc). destruct (peg G2 s f2 b loc); try apply le_res_refl.
      apply peg_star_stop_le, H.
    + le_case (H b loc). destruct (peg G2 s f2 b loc); try apply le_res_refl.
      apply peg_star_le, H.
  - destruct ig; [|apply le_res_refl].
    le_case (peg_skip_scan_le _ _ H s (length s + 2) t fo loc).
    destruct (peg_skip_scan s (peg G2 s f2) (length s + 2) t fo loc) as [tl ts| | |]; try apply le_res_refl.
    destruct inc; [|apply le_res_refl]. le_case (H (nopre t) tl). apply le_res_refl.
  - destruct id as [id|]; [|apply le_res_refl]. apply HF.
Qed.

Lemma peg_mono_S G s f : rec_le (peg G s f) (peg G s (S f)).
Proof.
  induction f as [|f IH]; [intros e l; apply le_res_out|].
  apply peg_S_le; [exact IH|]. intros id l. destruct (nth_error G id); [apply IH|apply le_res_refl].
Qed.

Lemma peg_mono G s f f' : f <= f' -> rec_le (peg G s f) (peg G s f').
Proof.
  induction 1 as [|f' _ IH]; intros e l; [apply le_res_refl|].
  eapply le_res_trans; [apply IH|apply peg_mono_S].
Qed.

Lemma peg_mono_eq G s f f' e l r : peg G s f e l = r -> r <> POut -> f <= f' -> peg G s f' e l = r.
Proof.
  intros E N L. destruct (peg_mono G s f f' L e l) as [X|X]; congruence.
Qed.

(* the terminating, fuel-independent reading *)
Definition pegR (G : env) (s : str) (e : expr) (loc : nat) (r : res) : Prop :=
  exists f, peg G s f e loc = r /\ r <> POut.

Lemma pegR_fun G s e loc r1 r2 : pegR G s e loc r1 -> pegR G s e loc r2 -> r1 = r2.
Proof.
  intros [f1 [E1 N1]] [f2 [E2 N2]].
  rewrite <- (peg_mono_eq G s f1 (Nat.max f1 f2) e loc r1 E1 N1 (Nat.le_max_l _ _)).
  apply (peg_mono_eq G s f2 (Nat.max f1 f2) e loc r2 E2 N2 (Nat.le_max_r _ _)).
Qed.

(* ------------------------------------------------------------------------------------------- *)
(* 2. replacing Forward bodies by equivalent ones                                                *)
(* ------------------------------------------------------------------------------------------- *)
(* If every body of G1 is refined (with K more fuel, in ANY single environment) by the body of G2 with the same index,
   then every expression evaluated in G1 is refined by its evaluation in G2. *)
Definition body_le (s : str) (K : nat) (b1 b2 : option expr) : Prop :=
  match b1, b2 with
  | Some c1, Some c2 => forall G f l, le_res (peg G s f c1 l) (peg G s (f + K) c2 l)
  | None, None => True
  | _, _ => False
  end.

Lemma env_transfer G1 G2 s K :
  (forall id, body_le s K (nth_error G1 id) (nth_error G2 id)) ->
  forall f, rec_le (peg G1 s f) (peg G2 s ((S K) * f)).
Proof.
  intros HB. induction f as [|f IH]; [intros e l; apply le_res_out|].
  assert (Hstep : rec_le (peg G1 s (S f)) (peg G2 s (S (S K * f + K)))).
  { apply peg_S_le.
    - intros e l. eapply le_res_trans; [apply IH|]. apply peg_mono. lia.
    - intros id l. specialize (HB id). unfold body_le in HB.
      destruct (nth_error G1 id) as [c1|], (nth_error G2 id) as [c2|]; try contradiction; [|apply le_res_refl].
      eapply le_res_trans; [apply IH|]. apply HB. }
  intros e l. eapply le_res_trans; [apply Hstep|]. apply peg_mono. lia.
Qed.

Lemma pegR_transfer G1 G2 s K :
  (forall id, body_le s K (nth_error G1 id) (nth_error G2 id)) ->
  forall e loc r, pegR G1 s e loc r -> pegR G2 s e loc r.
Proof.
  intros HB e loc r [f [E N]]. exists (S K * f). split; [|exact N].
  destruct (env_transfer G1 G2 s K HB f e loc) as [X|X]; congruence.
Qed.

(* ------------------------------------------------------------------------------------------- *)
(* 3. whitespace bookkeeping                                                                     *)
(* ------------------------------------------------------------------------------------------- *)
Definition wspec (a : attrs) : bool * list char := (callpre a && skipws a, white a).
Definition effw (s : str) (w : bool * list char) (l : nat) : nat := if fst w then skip_white s l (snd w) else l.

Lemma eff_wspec s e l : eff s e l = effw s (wspec (attrs_of e)) l.
Proof. reflexivity. Qed.
Lemma effw_idem s w l : effw s w (effw s w l) = effw s w l.
Proof. unfold effw. destruct (fst w); [apply skip_white_idem|reflexivity]. Qed.
Lemma eff_of_spec s e w l : wspec (attrs_of e) = w -> eff s e l = effw s w l.
Proof. intros <-. reflexivity. Qed.

Lemma peg_eff_eq G s f e l1 l2 : eff s e l1 = eff s e l2 -> peg G s f e l1 = peg G s f e l2.
Proof. intros H. destruct f; [reflexivity|]. cbn [peg]. rewrite H. reflexivity. Qed.

Lemma peg_at_eff G s f e w l : wspec (attrs_of e) = w -> peg G s f e (effw s w l) = peg G s f e l.
Proof. intros H. apply peg_eff_eq. rewrite !(eff_of_spec s e w) by exact H. apply effw_idem. Qed.

(* sequences *)
Lemma peg_seq_app rec es1 : forall es2 l acc,
  peg_seq rec (es1 ++ es2) l acc = match peg_seq rec es1 l acc with POk l' acc' => peg_seq rec es2 l' acc' | r => r end.
Proof.
  induction es1 as [|e es1 IH]; intros es2 l acc; simpl; [reflexivity|].
  destruct (rec e l); try reflexivity. apply IH.
Qed.

(* the accumulated tokens do not influence where / whether a sequence fails *)
Definition same_status (r1 r2 : res) : Prop :=
  match r1, r2 with POk l1 _, POk l2 _ => l1 = l2 | PFail, PFail | PDiv, PDiv | POut, POut => True | _, _ => False end.
Lemma peg_seq_status rec es : forall l acc acc', same_status (peg_seq rec es l acc) (peg_seq rec es l acc').
Proof.
  induction es as [|e es IH]; intros l acc acc'; simpl; [reflexivity|].
  destruct (rec e l); simpl; auto.
Qed.
Lemma same_status_fail r1 r2 : same_status r1 r2 -> (r1 = PFail \/ r1 = PDiv \/ r1 = POut) -> r2 = r1.
Proof. destruct r1, r2; simpl; intros H [E|[E|E]]; try discriminate; try contradiction; reflexivity. Qed.
Lemma same_status_notout r1 r2 : same_status r1 r2 -> r1 <> POut -> r2 <> POut.
Proof. destruct r1, r2; simpl; intros H N; try contradiction; congruence. Qed.

(* one-step unfoldings (so that proofs never unfold `peg` on a variable) *)
Section Unfold.
Variable G : env. Variable s : str.
Notation pg := (peg G s).
Lemma peg_mf f a i es loc : pg (S f) (Nary a i NMatchFirst es) loc = peg_first (pg f) es (eff s (Nary a i NMatchFirst es) loc).
Proof. reflexivity. Qed.
Lemma peg_and f a i es loc : pg (S f) (Nary a i NAnd es) loc = peg_seq (pg f) es (eff s (Nary a i NAnd es) loc) [].
Proof. reflexivity. Qed.
Lemma peg_la f a i c loc : pg (S f) (Enh a i ELookahead c) loc =
  match pg f c (eff s (Enh a i ELookahead c) loc) with POk _ _ => POk (eff s (Enh a i ELookahead c) loc) [] | r => r end.
Proof. reflexivity. Qed.
Lemma peg_group f a i c loc : pg (S f) (Enh a i (EGroup false) c) loc =
  match pg f c (eff s (Enh a i (EGroup false) c) loc) with POk l ts => POk l [TList ts] | r => r end.
Proof. reflexivity. Qed.
Lemma peg_opt f a i c loc : pg (S f) (Enh a i (EOpt None) c) loc =
  match pg f c (eff s (Enh a i (EOpt None) c) loc) with PFail => POk (eff s (Enh a i (EOpt None) c) loc) [] | r => r end.
Proof. reflexivity. Qed.
Lemma peg_rep f a i z b loc : pg (S f) (Rep a i z b None) loc =
  match pg f b (eff s (Rep a i z b None) loc) with
  | POk l ts => peg_star (pg f) (length s + 3) b l ts
  | PFail => if z then POk (eff s (Rep a i z b None) loc) [] else PFail
  | r => r end.
Proof. reflexivity. Qed.
Lemma peg_fwd f a i id loc : pg (S f) (Fwd a i (Some id)) loc =
  match nth_error G id with Some c => pg f c (eff s (Fwd a i (Some id)) loc) | None => PFail end.
Proof. reflexivity. Qed.
Lemma peg_0 e loc : pg 0 e loc = POut.
Proof. reflexivity. Qed.
End Unfold.

(* ------------------------------------------------------------------------------------------- *)
(* 4. eliminating the look-ahead of one level                                                    *)
(* ------------------------------------------------------------------------------------------- *)
Section LaElim.
Variable G : env. Variable s : str.
Notation pg := (peg G s).
Variables (a1 a1' a4 a5 : attrs) (i1 i1' i4 i5 : list expr) (P GQ GQ' : expr) (tail : list expr).
Variable w : bool * list char. Variable c : nat.
Hypothesis H1 : callpre a1 = false.
Hypothesis H1' : callpre a1' = false.
Hypothesis W4 : wspec a4 = w.
Hypothesis W5 : wspec a5 = w.
Hypothesis WQ : wspec (attrs_of GQ) = w.

Definition lvE : expr := Nary a1 i1 NMatchFirst (Nary a4 i4 NAnd [Enh a5 i5 ELookahead P; GQ] :: tail).
Definition lvR : expr := Nary a1' i1' NMatchFirst (GQ' :: tail).

(* "if _FB(p) fails then the grouped form fails the same way" *)
Hypothesis HA : forall f loc r, pg f P (effw s w loc) = r -> r = PFail \/ r = PDiv -> pg (f + c) GQ' loc = r.
(* termination of the grouped form implies termination of the look-ahead *)
Hypothesis HB : forall f loc, pg f GQ' loc <> POut -> pg (f + c) P (effw s w loc) <> POut.
(* when the look-ahead matches, the two grouped forms agree *)
Hypothesis HC1 : forall g f loc l ts, pg g P (effw s w loc) = POk l ts -> le_res (pg f GQ loc) (pg (f + c) GQ' loc).
Hypothesis HC2 : forall g f loc l ts, pg g P (effw s w loc) = POk l ts -> le_res (pg f GQ' loc) (pg (f + c) GQ loc).

Lemma eff_mf a i es loc : callpre a = false -> eff s (Nary a i NMatchFirst es) loc = loc.
Proof. intros H. unfold eff. simpl. rewrite H. reflexivity. Qed.

Lemma le_first a a' b b' : le_res a a' -> le_res b b' ->
  le_res (match a with PFail => b | r => r end) (match a' with PFail => b' | r => r end).
Proof. intros [-> | ->] H; [left; reflexivity|]. destruct a'; try apply le_res_refl. exact H. Qed.

Lemma lvE_unfold n loc : pg (S (S (S n))) lvE loc =
  match match pg n P (effw s w loc) with
        | POk _ _ => match pg (S n) GQ loc with POk l ts => POk l ts | r => r end
        | r => r end
  with PFail => peg_first (pg (S (S n))) tail loc | r => r end.
Proof.
  unfold lvE. rewrite peg_mf, eff_mf by exact H1. cbn [peg_first]. rewrite peg_and. cbn [peg_seq].
  rewrite (eff_of_spec s (Nary a4 i4 NAnd [Enh a5 i5 ELookahead P; GQ]) w) by exact W4.
  rewrite peg_la. rewrite (eff_of_spec s (Enh a5 i5 ELookahead P) w) by exact W5.
  rewrite effw_idem.
  destruct (pg n P (effw s w loc)); try reflexivity.
  cbn [app]. rewrite (peg_at_eff G s (S n) GQ w loc WQ). reflexivity.
Qed.
Lemma lvR_unfold n loc : pg (S n) lvR loc = match pg n GQ' loc with PFail => peg_first (pg n) tail loc | r => r end.
Proof. unfold lvR. rewrite peg_mf, eff_mf by exact H1'. reflexivity. Qed.

Lemma la_elim_ER f loc : le_res (pg f lvE loc) (pg (f + c) lvR loc).
Proof.
  destruct f as [|[|[|g]]]; try (left; reflexivity).
  replace (S (S (S g)) + c) with (S (S (S g) + c)) by lia.
  rewrite lvE_unfold, lvR_unfold.
  assert (Ht : le_res (peg_first (pg (S (S g))) tail loc) (peg_first (pg (S (S g) + c)) tail loc)).
  { apply peg_first_le. apply peg_mono. lia. }
  destruct (pg g P (effw s w loc)) as [l ts| | |] eqn:EP.
  - assert (Hq : le_res (pg (S g) GQ loc) (pg (S (S g) + c) GQ' loc)).
    { eapply le_res_trans; [apply (HC1 g (S g) loc l ts EP)|]. apply peg_mono. lia. }
    destruct Hq as [Eq|Eq]; rewrite Eq; [left; reflexivity|].
    destruct (pg (S (S g) + c) GQ' loc); try apply le_res_refl. exact Ht.
  - rewrite (peg_mono_eq G s (g + c) (S (S g) + c) GQ' loc PFail (HA g loc PFail EP (or_introl eq_refl))) by (discriminate || lia).
    exact Ht.
  - rewrite (peg_mono_eq G s (g + c) (S (S g) + c) GQ' loc PDiv (HA g loc PDiv EP (or_intror eq_refl))) by (discriminate || lia).
    apply le_res_refl.
  - left; reflexivity.
Qed.

Lemma la_elim_RE f loc : le_res (pg f lvR loc) (pg (f + (c + 2)) lvE loc).
Proof.
  destruct f as [|g]; [left; reflexivity|].
  replace (S g + (c + 2)) with (S (S (S (g + c)))) by lia.
  rewrite lvE_unfold, lvR_unfold.
  assert (Ht : le_res (peg_first (pg g) tail loc) (peg_first (pg (S (S (g + c)))) tail loc)).
  { apply peg_first_le. apply peg_mono. lia. }
  assert (Hcontra : forall r r', pg g GQ' loc = r -> r <> POut -> pg (g + c) P (effw s w loc) = r' ->
                                 r' = PFail \/ r' = PDiv -> r = r').
  { intros r r' E1 N1 E2 D. pose proof (HA (g + c) loc r' E2 D) as X.
    rewrite (peg_mono_eq G s g (g + c + c) GQ' loc r E1 N1) in X by lia. exact X. }
  destruct (pg g GQ' loc) as [l ts| | |] eqn:EQ; [| | |left; reflexivity].
  - assert (N : pg g GQ' loc <> POut) by (rewrite EQ; discriminate).
    pose proof (HB g loc N) as NP.
    destruct (pg (g + c) P (effw s w loc)) as [l' ts'| | |] eqn:EP; [| | |congruence].
    + destruct (HC2 (g + c) g loc l' ts' EP) as [X|X]; [congruence|].
      rewrite EQ in X. rewrite (peg_mono_eq G s (g + c) (S (g + c)) GQ loc (POk l ts) (eq_sym X)) by (discriminate || lia).
      apply le_res_refl.
    + exfalso. assert (X : POk l ts = PFail) by (apply Hcontra; auto; discriminate). discriminate.
    + exfalso. assert (X : POk l ts = PDiv) by (apply Hcontra; auto; discriminate). discriminate.
  - assert (N : pg g GQ' loc <> POut) by (rewrite EQ; discriminate).
    pose proof (HB g loc N) as NP.
    destruct (pg (g + c) P (effw s w loc)) as [l' ts'| | |] eqn:EP; [| | |congruence].
    + destruct (HC2 (g + c) g loc l' ts' EP) as [X|X]; [congruence|].
      rewrite EQ in X. rewrite (peg_mono_eq G s (g + c) (S (g + c)) GQ loc PFail (eq_sym X)) by (discriminate || lia).
      exact Ht.
    + exact Ht.
    + exfalso. assert (X : PFail = PDiv) by (apply Hcontra; auto; discriminate). discriminate.
  - assert (N : pg g GQ' loc <> POut) by (rewrite EQ; discriminate).
    pose proof (HB g loc N) as NP.
    destruct (pg (g + c) P (effw s w loc)) as [l' ts'| | |] eqn:EP; [| | |congruence].
    + destruct (HC2 (g + c) g loc l' ts' EP) as [X|X]; [congruence|].
      rewrite EQ in X. rewrite (peg_mono_eq G s (g + c) (S (g + c)) GQ loc PDiv (eq_sym X)) by (discriminate || lia).
      apply le_res_refl.
    + exfalso. assert (X : PDiv = PFail) by (apply Hcontra; auto; discriminate). discriminate.
    + apply le_res_refl.
Qed.
End LaElim.

(* ------------------------------------------------------------------------------------------- *)
(* 5. the look-ahead sequence versus the grouped form, per shape                                 *)
(* ------------------------------------------------------------------------------------------- *)
Section Shapes.
Variable G : env. Variable s : str.
Notation pg := (peg G s).

Lemma peg_seq_mono_notout f f' es l acc : f <= f' ->
  peg_seq (pg f) es l acc <> POut -> peg_seq (pg f') es l acc = peg_seq (pg f) es l acc.
Proof.
  intros L N. destruct (peg_seq_le (pg f) (pg f') (peg_mono G s f f' L) es l acc) as [X|X]; congruence.
Qed.

(* --- operand followed by a repetition: Group(x + B[1, ...]) against _FB(x + W), B being W as one element --- *)
Section RepShape.
Variables (a6 a15 a16 a17 : attrs) (i6 i15 i16 i17 : list expr) (x B : expr) (W : list expr).
Variables w v : bool * list char.
Hypothesis W6 : wspec a6 = w.
Hypothesis W15 : wspec a15 = w.
Hypothesis W16 : wspec a16 = w.
Hypothesis W17 : wspec a17 = v.
Hypothesis HBfail : forall f l r, peg_seq (pg f) W l [] = r -> r = PFail \/ r = PDiv -> pg (S f) B (effw s v l) = r.
Hypothesis HBterm : forall f l, pg f B (effw s v l) <> POut -> peg_seq (pg f) W l [] <> POut.

Definition repP : expr := Nary a6 i6 NAnd (x :: W).
Definition repGQ : expr := Enh a15 i15 (EGroup false) (Nary a16 i16 NAnd [x; Rep a17 i17 false B None]).

Lemma repP_unfold f loc : pg (S f) repP (effw s w loc) =
  match pg f x (effw s w loc) with POk l1 t1 => peg_seq (pg f) W l1 t1 | r => r end.
Proof.
  unfold repP. rewrite peg_and. rewrite (eff_of_spec s _ w) by exact W6. rewrite effw_idem. reflexivity.
Qed.

Lemma repGQ_unfold f loc : pg (S (S (S f))) repGQ loc =
  match pg (S f) x (effw s w loc) with
  | POk l1 t1 =>
    match match pg f B (effw s v l1) with
          | POk l ts => peg_star (pg f) (length s + 3) B l ts
          | r => r end
    with POk l2 t2 => POk l2 [TList (t1 ++ t2)] | r => r end
  | r => r end.
Proof.
  unfold repGQ. rewrite peg_group. rewrite (eff_of_spec s _ w) by exact W15.
  rewrite peg_and. rewrite (eff_of_spec s _ w) by exact W16. rewrite effw_idem. cbn [peg_seq].
  destruct (pg (S f) x (effw s w loc)) as [l1 t1| | |]; try reflexivity.
  rewrite peg_rep. rewrite (eff_of_spec s _ v) by exact W17. cbn [app].
  destruct (pg f B (effw s v l1)); try reflexivity.
  destruct (peg_star (pg f) (length s + 3) B loc0 ts); reflexivity.
Qed.

Lemma rep_A f loc r : pg f repP (effw s w loc) = r -> r = PFail \/ r = PDiv -> pg (f + 3) repGQ loc = r.
Proof.
  intros E D. destruct f as [|f]; [rewrite peg_0 in E; destruct D; congruence|].
  replace (S f + 3) with (S (S (S (S f)))) by lia.
  rewrite repP_unfold in E. rewrite repGQ_unfold.
  destruct (pg f x (effw s w loc)) as [l1 t1| | |] eqn:EX.
  - rewrite (peg_mono_eq G s f (S (S f)) x _ _ EX) by (discriminate || lia).
    assert (E0 : peg_seq (pg f) W l1 [] = r).
    { rewrite <- E. apply (same_status_fail _ _ (peg_seq_status (pg f) W l1 t1 [])). rewrite E. tauto. }
    rewrite (HBfail f l1 r E0 D). destruct D as [D|D]; rewrite D; reflexivity.
  - rewrite (peg_mono_eq G s f (S (S f)) x _ _ EX) by (discriminate || lia). exact E.
  - rewrite (peg_mono_eq G s f (S (S f)) x _ _ EX) by (discriminate || lia). exact E.
  - destruct D; congruence.
Qed.

Lemma rep_B f loc : pg f repGQ loc <> POut -> pg (f + 3) repP (effw s w loc) <> POut.
Proof.
  intros N. destruct f as [|[|[|g]]]; try (exfalso; apply N; reflexivity).
  replace (S (S (S g)) + 3) with (S (S (S (S (S (S g)))))) by lia.
  rewrite repGQ_unfold in N. rewrite repP_unfold.
  destruct (pg (S g) x (effw s w loc)) as [l1 t1| | |] eqn:EX; [| | |congruence];
    rewrite (peg_mono_eq G s (S g) (S (S (S (S (S g))))) x _ _ EX) by (discriminate || lia); try discriminate.
  assert (NB : pg g B (effw s v l1) <> POut).
  { intros X. rewrite X in N. apply N. reflexivity. }
  pose proof (HBterm g l1 NB) as NW.
  assert (NW' : peg_seq (pg (S (S (S (S (S g)))))) W l1 [] <> POut).
  { rewrite (peg_seq_mono_notout g) by (lia || exact NW). exact NW. }
  apply (same_status_notout _ _ (peg_seq_status _ W l1 [] t1) NW').
Qed.
End RepShape.

Lemma peg_det f1 f2 e l r1 r2 : pg f1 e l = r1 -> r1 <> POut -> pg f2 e l = r2 -> r2 <> POut -> r1 = r2.
Proof.
  intros E1 N1 E2 N2.
  rewrite <- (peg_mono_eq G s f1 (Nat.max f1 f2) e l r1 E1 N1 (Nat.le_max_l _ _)).
  apply (peg_mono_eq G s f2 (Nat.max f1 f2) e l r2 E2 N2 (Nat.le_max_r _ _)).
Qed.

(* the repeated element is And(W) : (op + last)[1, ...], (op1 + last + op2 + last)[1, ...] *)
Lemma body_and_fail a18 i18 w1 W' v : wspec a18 = v ->
  (forall f l, pg f w1 (effw s v l) = pg f w1 l) ->
  forall f l r, peg_seq (pg f) (w1 :: W') l [] = r -> r = PFail \/ r = PDiv ->
                pg (S f) (Nary a18 i18 NAnd (w1 :: W')) (effw s v l) = r.
Proof.
  intros W18 Habs f l r E _. rewrite peg_and. rewrite (eff_of_spec s _ v) by exact W18. rewrite effw_idem.
  cbn [peg_seq] in *. rewrite Habs. exact E.
Qed.
Lemma body_and_term a18 i18 w1 W' v : wspec a18 = v ->
  (forall f l, pg f w1 (effw s v l) = pg f w1 l) ->
  forall f l, pg f (Nary a18 i18 NAnd (w1 :: W')) (effw s v l) <> POut -> peg_seq (pg f) (w1 :: W') l [] <> POut.
Proof.
  intros W18 Habs f l N. destruct f as [|f]; [exfalso; apply N; reflexivity|].
  rewrite peg_and in N. rewrite (eff_of_spec s _ v) in N by exact W18. rewrite effw_idem in N.
  assert (E : peg_seq (pg f) (w1 :: W') (effw s v l) [] = peg_seq (pg f) (w1 :: W') l []).
  { cbn [peg_seq]. rewrite Habs. reflexivity. }
  rewrite E in N. rewrite (peg_seq_mono_notout f (S f)) by (lia || exact N). exact N.
Qed.

(* the repeated element is a single element: op[1, ...], thisExpr[1, ...] *)
Lemma body_one_fail w1 v :
  (forall f l, pg f w1 (effw s v l) = pg f w1 l) ->
  forall f l r, peg_seq (pg f) [w1] l [] = r -> r = PFail \/ r = PDiv -> pg (S f) w1 (effw s v l) = r.
Proof.
  intros Habs f l r E D. rewrite Habs. cbn [peg_seq] in E.
  assert (E' : pg f w1 l = r).
  { destruct (pg f w1 l); exact E. }
  apply (peg_mono_eq G s f (S f) w1 l r E'); [destruct D as [D|D]; rewrite D; discriminate|lia].
Qed.
Lemma body_one_term w1 v :
  (forall f l, pg f w1 (effw s v l) = pg f w1 l) ->
  forall f l, pg f w1 (effw s v l) <> POut -> peg_seq (pg f) [w1] l [] <> POut.
Proof.
  intros Habs f l N. rewrite Habs in N. cbn [peg_seq]. destruct (pg f w1 l); congruence.
Qed.

(* --- the grouped sequence starts with the look-ahead sequence: lastExpr[2, ...], the right-associative ternary form,
       and the reference reading of the prefix form --- *)
Section PrefixShape.
Variables (a6 a15 a16 : attrs) (i6 i15 i16 : list expr) (es1 es2 : list expr).
Variable w : bool * list char.
Hypothesis W6 : wspec a6 = w.
Hypothesis W15 : wspec a15 = w.
Hypothesis W16 : wspec a16 = w.
Definition preP : expr := Nary a6 i6 NAnd es1.
Definition preGQ : expr := Enh a15 i15 (EGroup false) (Nary a16 i16 NAnd (es1 ++ es2)).

Lemma preP_unfold f loc : pg (S f) preP (effw s w loc) = peg_seq (pg f) es1 (effw s w loc) [].
Proof. unfold preP. rewrite peg_and. rewrite (eff_of_spec s _ w) by exact W6. rewrite effw_idem. reflexivity. Qed.
Lemma preGQ_unfold f loc : pg (S (S f)) preGQ loc =
  match match peg_seq (pg f) es1 (effw s w loc) [] with POk l' acc' => peg_seq (pg f) es2 l' acc' | r => r end
  with POk l ts => POk l [TList ts] | r => r end.
Proof.
  unfold preGQ. rewrite peg_group. rewrite (eff_of_spec s _ w) by exact W15.
  rewrite peg_and. rewrite (eff_of_spec s _ w) by exact W16. rewrite effw_idem. rewrite peg_seq_app. reflexivity.
Qed.

Lemma pre_A f loc r : pg f preP (effw s w loc) = r -> r = PFail \/ r = PDiv -> pg (f + 3) preGQ loc = r.
Proof.
  intros E D. destruct f as [|f]; [rewrite peg_0 in E; destruct D; congruence|].
  replace (S f + 3) with (S (S (S (S f)))) by lia.
  rewrite preP_unfold in E. rewrite preGQ_unfold.
  rewrite (peg_seq_mono_notout f (S (S f))) by (lia || (rewrite E; destruct D as [D|D]; rewrite D; discriminate)).
  rewrite E. destruct D as [D|D]; rewrite D; reflexivity.
Qed.
Lemma pre_B f loc : pg f preGQ loc <> POut -> pg (f + 3) preP (effw s w loc) <> POut.
Proof.
  intros N. destruct f as [|[|g]]; try (exfalso; apply N; reflexivity).
  replace (S (S g) + 3) with (S (S (S (S (S g))))) by lia.
  rewrite preGQ_unfold in N. rewrite preP_unfold.
  assert (N1 : peg_seq (pg g) es1 (effw s w loc) [] <> POut).
  { intros X. rewrite X in N. apply N. reflexivity. }
  rewrite (peg_seq_mono_notout g) by (lia || exact N1). exact N1.
Qed.
End PrefixShape.

(* --- prefix operator: Group(Opt(op) + this) behind _FB(op + this) against Group(op + this) --- *)
Section OptShape.
Variables (a6 a9 a15 a16 a15' a16' : attrs) (i6 i9 i15 i16 i15' i16' : list expr) (op this : expr).
Variable w : bool * list char.
Hypothesis W6 : wspec a6 = w.
Hypothesis W15 : wspec a15 = w.
Hypothesis W16 : wspec a16 = w.
Hypothesis W15' : wspec a15' = w.
Hypothesis W16' : wspec a16' = w.
Hypothesis W9 : forall l, effw s (wspec a9) (effw s w l) = effw s w l.
Definition optP : expr := Nary a6 i6 NAnd [op; this].
Definition optGQ : expr := Enh a15 i15 (EGroup false) (Nary a16 i16 NAnd [Enh a9 i9 (EOpt None) op; this]).
Definition optGQ' : expr := Enh a15' i15' (EGroup false) (Nary a16' i16' NAnd [op; this]).

Lemma optP_unfold f loc : pg (S f) optP (effw s w loc) =
  match pg f op (effw s w loc) with
  | POk l1 t1 => match pg f this l1 with POk l2 t2 => POk l2 (t1 ++ t2) | r => r end
  | r => r end.
Proof.
  unfold optP. rewrite peg_and. rewrite (eff_of_spec s _ w) by exact W6. rewrite effw_idem. cbn [peg_seq app].
  destruct (pg f op (effw s w loc)); try reflexivity; destruct (pg f this _); reflexivity.
Qed.
Lemma optGQ'_unfold f loc : pg (S (S f)) optGQ' loc =
  match pg f op (effw s w loc) with
  | POk l1 t1 => match pg f this l1 with POk l2 t2 => POk l2 [TList (t1 ++ t2)] | r => r end
  | r => r end.
Proof.
  unfold optGQ'. rewrite peg_group. rewrite (eff_of_spec s _ w) by exact W15'.
  rewrite peg_and. rewrite (eff_of_spec s _ w) by exact W16'. rewrite effw_idem. cbn [peg_seq app].
  destruct (pg f op (effw s w loc)); try reflexivity; destruct (pg f this _); reflexivity.
Qed.
Lemma optGQ_unfold f loc : pg (S (S (S f))) optGQ loc =
  match match pg f op (effw s w loc) with PFail => POk (effw s w loc) [] | r => r end with
  | POk l1 t1 => match pg (S f) this l1 with POk l2 t2 => POk l2 [TList (t1 ++ t2)] | r => r end
  | r => r end.
Proof.
  unfold optGQ. rewrite peg_group. rewrite (eff_of_spec s _ w) by exact W15.
  rewrite peg_and. rewrite (eff_of_spec s _ w) by exact W16. rewrite effw_idem. cbn [peg_seq app].
  rewrite peg_opt. rewrite (eff_wspec s (Enh a9 i9 (EOpt None) op)). cbn [attrs_of]. rewrite W9.
  destruct (pg f op (effw s w loc)); try reflexivity; destruct (pg (S f) this _); reflexivity.
Qed.

Lemma opt_C1 g f loc l ts : pg g optP (effw s w loc) = POk l ts -> le_res (pg f optGQ loc) (pg (f + 3) optGQ' loc).
Proof.
  intros EP. destruct g as [|g]; [discriminate|]. rewrite optP_unfold in EP.
  destruct (pg g op (effw s w loc)) as [l1 t1| | |] eqn:EO; try discriminate.
  destruct f as [|[|[|f]]]; try (left; reflexivity).
  replace (S (S (S f)) + 3) with (S (S (S (S (S (S f)))))) by lia.
  rewrite optGQ_unfold, optGQ'_unfold.
  destruct (pg f op (effw s w loc)) as [l1' t1'| | |] eqn:EO'; try (left; reflexivity);
    try (exfalso; assert (X : POk l1 t1 = pg f op (effw s w loc)) by (eapply peg_det; eauto; try discriminate; rewrite EO'; discriminate);
         rewrite EO' in X; discriminate).
  assert (X : POk l1 t1 = POk l1' t1') by (eapply peg_det; eauto; discriminate). injection X as <- <-.
  rewrite (peg_mono_eq G s f (S (S (S (S f)))) op _ _ EO') by (discriminate || lia).
  destruct (peg_mono G s (S f) (S (S (S (S f)))) ltac:(lia) this l1) as [Y|Y]; rewrite Y; [left; reflexivity|apply le_res_refl].
Qed.
Lemma opt_C2 g f loc l ts : pg g optP (effw s w loc) = POk l ts -> le_res (pg f optGQ' loc) (pg (f + 3) optGQ loc).
Proof.
  intros EP. destruct g as [|g]; [discriminate|]. rewrite optP_unfold in EP.
  destruct (pg g op (effw s w loc)) as [l1 t1| | |] eqn:EO; try discriminate.
  destruct f as [|[|f]]; try (left; reflexivity).
  replace (S (S f) + 3) with (S (S (S (S (S f))))) by lia.
  rewrite optGQ_unfold, optGQ'_unfold.
  destruct (pg f op (effw s w loc)) as [l1' t1'| | |] eqn:EO'; try (left; reflexivity);
    try (exfalso; assert (X : POk l1 t1 = pg f op (effw s w loc)) by (eapply peg_det; eauto; try discriminate; rewrite EO'; discriminate);
         rewrite EO' in X; discriminate).
  assert (X : POk l1 t1 = POk l1' t1') by (eapply peg_det; eauto; discriminate). injection X as <- <-.
  rewrite (peg_mono_eq G s f (S (S f)) op _ _ EO') by (discriminate || lia).
  destruct (peg_mono G s f (S (S (S f))) ltac:(lia) this l1) as [Y|Y]; rewrite Y; [left; reflexivity|apply le_res_refl].
Qed.
End OptShape.
End Shapes.

(* ------------------------------------------------------------------------------------------- *)
(* 6. level equivalence, generic in the shape                                                    *)
(* ------------------------------------------------------------------------------------------- *)
(* both directions, in every environment, with 5 more units of fuel *)
Definition level_equiv (s : str) (bE bR : expr) : Prop :=
  forall G f l, le_res (peg G s f bE l) (peg G s (f + 5) bR l) /\ le_res (peg G s f bR l) (peg G s (f + 5) bE l).

Lemma level_equiv_refl s b : level_equiv s b b.
Proof. intros G f l. split; apply peg_mono; lia. Qed.

Lemma level_equiv_pegR s bE bR : level_equiv s bE bR ->
  forall G loc r, pegR G s bE loc r <-> pegR G s bR loc r.
Proof.
  intros H G loc r. split; intros [f [E N]]; exists (f + 5); (split; [|exact N]).
  - destruct (proj1 (H G f loc)) as [X|X]; congruence.
  - destruct (proj2 (H G f loc)) as [X|X]; congruence.
Qed.

Lemma mono3 G s f e l : le_res (peg G s f e l) (peg G s (f + 3) e l).
Proof. apply peg_mono. lia. Qed.

Lemma rep_level s a1 a1' a4 a5 a6 a15 a16 a17 i1 i1' i4 i5 i6 i15 i16 i17 x B W tail w v :
  callpre a1 = false -> callpre a1' = false -> wspec a4 = w -> wspec a5 = w -> wspec a6 = w ->
  wspec a15 = w -> wspec a16 = w -> wspec a17 = v ->
  (forall G f l r, peg_seq (peg G s f) W l [] = r -> r = PFail \/ r = PDiv -> peg G s (S f) B (effw s v l) = r) ->
  (forall G f l, peg G s f B (effw s v l) <> POut -> peg_seq (peg G s f) W l [] <> POut) ->
  level_equiv s (lvE a1 a4 a5 i1 i4 i5 (repP a6 i6 x W) (repGQ a15 a16 a17 i15 i16 i17 x B) tail)
                (lvR a1' i1' (repGQ a15 a16 a17 i15 i16 i17 x B) tail).
Proof.
  intros H1 H1' W4 W5 W6 W15 W16 W17 HF HT G f l. split.
  - eapply le_res_trans; [|apply (peg_mono G s (f + 3) (f + 5)); lia].
    apply (la_elim_ER G s a1 a1' a4 a5 i1 i1' i4 i5 _ _ _ tail w 3); auto.
    + intros f0 loc r. apply (rep_A G s a6 a15 a16 a17 i6 i15 i16 i17 x B W w v); auto.
    + intros. apply mono3.
  - apply (la_elim_RE G s a1 a1' a4 a5 i1 i1' i4 i5 _ _ _ tail w 3); auto.
    + intros f0 loc r. apply (rep_A G s a6 a15 a16 a17 i6 i15 i16 i17 x B W w v); auto.
    + intros f0 loc. apply (rep_B G s a6 a15 a16 a17 i6 i15 i16 i17 x B W w v); auto.
    + intros. apply mono3.
Qed.

Lemma pre_level s a1 a1' a4 a5 a6 a15 a16 i1 i1' i4 i5 i6 i15 i16 es1 es2 tail w :
  callpre a1 = false -> callpre a1' = false -> wspec a4 = w -> wspec a5 = w -> wspec a6 = w ->
  wspec a15 = w -> wspec a16 = w ->
  level_equiv s (lvE a1 a4 a5 i1 i4 i5 (preP a6 i6 es1) (preGQ a15 a16 i15 i16 es1 es2) tail)
                (lvR a1' i1' (preGQ a15 a16 i15 i16 es1 es2) tail).
Proof.
  intros H1 H1' W4 W5 W6 W15 W16 G f l. split.
  - eapply le_res_trans; [|apply (peg_mono G s (f + 3) (f + 5)); lia].
    apply (la_elim_ER G s a1 a1' a4 a5 i1 i1' i4 i5 _ _ _ tail w 3); auto.
    + intros f0 loc r. apply (pre_A G s a6 a15 a16 i6 i15 i16 es1 es2 w); auto.
    + intros. apply mono3.
  - apply (la_elim_RE G s a1 a1' a4 a5 i1 i1' i4 i5 _ _ _ tail w 3); auto.
    + intros f0 loc r. apply (pre_A G s a6 a15 a16 i6 i15 i16 es1 es2 w); auto.
    + intros f0 loc. apply (pre_B G s a6 a15 a16 i6 i15 i16 es1 es2 w); auto.
    + intros. apply mono3.
Qed.

Lemma opt_level s a1 a1' a4 a5 a6 a9 a15 a16 a15' a16' i1 i1' i4 i5 i6 i9 i15 i16 i15' i16' op this tail w :
  callpre a1 = false -> callpre a1' = false -> wspec a4 = w -> wspec a5 = w -> wspec a6 = w ->
  wspec a15 = w -> wspec a16 = w -> wspec a15' = w -> wspec a16' = w ->
  (forall l, effw s (wspec a9) (effw s w l) = effw s w l) ->
  level_equiv s (lvE a1 a4 a5 i1 i4 i5 (optP a6 i6 op this) (optGQ a9 a15 a16 i9 i15 i16 op this) tail)
                (lvR a1' i1' (optGQ' a15' a16' i15' i16' op this) tail).
Proof.
  intros H1 H1' W4 W5 W6 W15 W16 W15' W16' W9 G f l.
  assert (HA : forall f0 loc r, peg G s f0 (optP a6 i6 op this) (effw s w loc) = r -> r = PFail \/ r = PDiv ->
                                peg G s (f0 + 3) (optGQ' a15' a16' i15' i16' op this) loc = r).
  { intros f0 loc r. apply (pre_A G s a6 a15' a16' i6 i15' i16' [op; this] [] w); auto. }
  assert (HB : forall f0 loc, peg G s f0 (optGQ' a15' a16' i15' i16' op this) loc <> POut ->
                              peg G s (f0 + 3) (optP a6 i6 op this) (effw s w loc) <> POut).
  { intros f0 loc. apply (pre_B G s a6 a15' a16' i6 i15' i16' [op; this] [] w); auto. }
  split.
  - eapply le_res_trans; [|apply (peg_mono G s (f + 3) (f + 5)); lia].
    apply (la_elim_ER G s a1 a1' a4 a5 i1 i1' i4 i5 _ _ _ tail w 3); auto.
    intros g f0 loc l0 ts. apply (opt_C1 G s a6 a9 a15 a16 a15' a16' i6 i9 i15 i16 i15' i16' op this w); auto.
  - apply (la_elim_RE G s a1 a1' a4 a5 i1 i1' i4 i5 _ _ _ tail w 3); auto.
    intros g f0 loc l0 ts. apply (opt_C2 G s a6 a9 a15 a16 a15' a16' i6 i9 i15 i16 i15' i16' op this w); auto.
Qed.

(* ------------------------------------------------------------------------------------------- *)
(* 7. the eight forms that infix_notation builds                                                 *)
(* ------------------------------------------------------------------------------------------- *)
(* whitespace that the repetition element And(op + ..) skips before `op` *)
Definition rep_spec (dw : list char) (op : expr) : bool * list char :=
  (first_sk op (sk_of op), if is_white_tok op then dw else white (attrs_of op)).
(* skipping that whitespace first does not change what `op` does (true for every element that pre-parses itself, and
   for a MatchFirst of such elements with the same whitespace characters: `absorb_okb` below) *)
Definition absorbs (s : str) (v : bool * list char) (op : expr) : Prop :=
  forall G f l, peg G s f op (effw s v l) = peg G s f op l.
Definition last_spec (dw : list char) (last : expr) (lsk : bool) : bool * list char :=
  (first_sk last lsk, if is_white_tok last then dw else white (attrs_of last)).

Lemma fm_items l : Forall (fun e => and_items e = [e]) l -> flat_map and_items l = l.
Proof. induction 1 as [|e l He _ IH]; [reflexivity|]. cbn [flat_map]. rewrite He, IH. reflexivity. Qed.

Ltac items := rewrite !fm_items by (repeat constructor; (assumption || reflexivity)).

(* side conditions of one level (all of them hold for Literal / Keyword / Word ... operators) *)
Definition level_ok (s : str) (dw : list char) (lsk : bool) (lv : level) : Prop :=
  match lv with
  | LPostfix op _ => and_items op = [op]
  | LPrefix op _ => and_items op = [op] /\ is_white_tok op = false
  | LBinL op _ | LBinR op _ => and_items op = [op] /\ absorbs s (rep_spec dw op) op
  | LJuxL _ => True
  | LJuxR _ => lsk = true
  | LTernL o1 o2 _ => and_items o1 = [o1] /\ and_items o2 = [o2] /\ absorbs s (rep_spec dw o1) o1
  | LTernR o1 o2 _ => and_items o1 = [o1] /\ and_items o2 = [o2]
  end.

Section Forms.
Variables (s : str) (dw : list char) (ids : nat -> nat * nat) (k idx : nat) (last : expr) (lsk : bool).
Hypothesis Hl : and_items last = [last].
Notation lvl la lv := (snd (mk_level la dw ids k idx last lsk lv)).

Lemma level_Postfix op pa : and_items op = [op] -> level_equiv s (lvl true (LPostfix op pa)) (lvl false (LPostfix op pa)).
Proof.
  intros Ho. unfold mk_level, mk_rep_of, mk_and. cbn [snd]. items.
  unfold mk_mf, mk_enh, mk_rep. cbn [flat_map mf_items app].
  apply rep_level with (w := last_spec dw last lsk) (v := wspec (attrs_of op)) (W := [op]); try reflexivity.
  - intros G. apply body_one_fail. intros f l. apply peg_at_eff. reflexivity.
  - intros G. apply body_one_term. intros f l. apply peg_at_eff. reflexivity.
Qed.

Lemma level_BinL op pa : and_items op = [op] -> absorbs s (rep_spec dw op) op ->
  level_equiv s (lvl true (LBinL op pa)) (lvl false (LBinL op pa)).
Proof.
  intros Ho Habs. unfold mk_level, mk_rep_of, mk_and. cbn [snd]. items.
  unfold mk_mf, mk_enh, mk_rep. cbn [flat_map mf_items app].
  apply rep_level with (w := last_spec dw last lsk) (v := rep_spec dw op) (W := [op; last]); try reflexivity.
  - intros G. apply body_and_fail; [reflexivity|apply Habs].
  - intros G. apply body_and_term; [reflexivity|apply Habs].
Qed.

Lemma level_BinR op pa : and_items op = [op] -> absorbs s (rep_spec dw op) op ->
  level_equiv s (lvl true (LBinR op pa)) (lvl false (LBinR op pa)).
Proof.
  intros Ho Habs. unfold mk_level, mk_rep_of, mk_and. cbn [snd]. items.
  unfold mk_mf, mk_enh, mk_rep. cbn [flat_map mf_items app].
  apply rep_level with (w := last_spec dw last lsk) (v := rep_spec dw op)
                       (W := [op; mk_fwd dw ids (code k rTHIS) (this_skip lsk (LBinR op pa)) idx]); try reflexivity.
  - intros G. apply body_and_fail; [reflexivity|apply Habs].
  - intros G. apply body_and_term; [reflexivity|apply Habs].
Qed.

Lemma level_TernL o1 o2 pa : and_items o1 = [o1] -> and_items o2 = [o2] -> absorbs s (rep_spec dw o1) o1 ->
  level_equiv s (lvl true (LTernL o1 o2 pa)) (lvl false (LTernL o1 o2 pa)).
Proof.
  intros Ho1 Ho2 Habs. unfold mk_level, mk_rep_of, mk_and. cbn [snd]. items.
  unfold mk_mf, mk_enh, mk_rep. cbn [flat_map mf_items app].
  apply rep_level with (w := last_spec dw last lsk) (v := rep_spec dw o1) (W := [o1; last; o2; last]); try reflexivity.
  - intros G. apply body_and_fail; [reflexivity|apply Habs].
  - intros G. apply body_and_term; [reflexivity|apply Habs].
Qed.

Lemma level_JuxR pa : lsk = true -> level_equiv s (lvl true (LJuxR pa)) (lvl false (LJuxR pa)).
Proof.
  intros Hs. unfold mk_level, mk_rep_of, mk_and. cbn [snd]. items.
  unfold mk_mf, mk_enh, mk_rep. cbn [flat_map mf_items app].
  apply rep_level with (w := last_spec dw last lsk) (v := (true, dw))
                       (W := [mk_fwd dw ids (code k rTHIS) (this_skip lsk (LJuxR pa)) idx]); try reflexivity.
  - intros G. apply body_one_fail. intros f l. apply peg_at_eff. cbn. rewrite Hs. reflexivity.
  - intros G. apply body_one_term. intros f l. apply peg_at_eff. cbn. rewrite Hs. reflexivity.
Qed.

Lemma level_JuxL pa : level_equiv s (lvl true (LJuxL pa)) (lvl false (LJuxL pa)).
Proof.
  unfold mk_level, mk_rep_of, mk_and. cbn [snd]. items.
  unfold mk_mf, mk_enh, mk_rep. cbn [flat_map mf_items app].
  apply (pre_level s _ _ _ _ _ _ _ _ _ _ _ _ _ _ [last; last] [_] _ (last_spec dw last lsk)); reflexivity.
Qed.

Lemma level_TernR o1 o2 pa : and_items o1 = [o1] -> and_items o2 = [o2] ->
  level_equiv s (lvl true (LTernR o1 o2 pa)) (lvl false (LTernR o1 o2 pa)).
Proof.
  intros Ho1 Ho2. unfold mk_level, mk_rep_of, mk_and. cbn [snd]. items.
  unfold mk_mf, mk_enh, mk_rep. cbn [flat_map mf_items app].
  apply (pre_level s _ _ _ _ _ _ _ _ _ _ _ _ _ _ [last; o1; _; o2; _] [] _ (last_spec dw last lsk)); try reflexivity.
Qed.

Lemma level_Prefix op pa : and_items op = [op] -> is_white_tok op = false ->
  level_equiv s (lvl true (LPrefix op pa)) (lvl false (LPrefix op pa)).
Proof.
  intros Ho Hw. unfold mk_level, mk_rep_of, mk_and, mk_enh. cbn [snd is_white_tok]. items.
  unfold mk_mf. rewrite ?Hw. cbn [flat_map mf_items app].
  apply opt_level with (w := (sk_of op, white (attrs_of op))); try reflexivity;
    try (unfold first_sk; rewrite ?Hw; reflexivity).
  intros l. unfold wspec, effw, sk_of. cbn.
  destruct (skipws (attrs_of op)); [|rewrite andb_false_r; reflexivity].
  destruct (callpre (attrs_of op)); cbn; [apply skip_white_idem|reflexivity].
Qed.

Theorem level_equiv_all lv : level_ok s dw lsk lv -> level_equiv s (lvl true lv) (lvl false lv).
Proof.
  destruct lv; cbn [level_ok]; intros H.
  - apply level_Postfix; exact H.
  - apply level_Prefix; apply H.
  - apply level_BinL; apply H.
  - apply level_BinR; apply H.
  - apply level_JuxL.
  - apply level_JuxR; exact H.
  - apply level_TernL; apply H.
  - apply level_TernR; apply H.
Qed.

Lemma level_this_same lv : fst (mk_level true dw ids k idx last lsk lv) = fst (mk_level false dw ids k idx last lsk lv).
Proof. destruct lv; reflexivity. Qed.
End Forms.

(* ------------------------------------------------------------------------------------------- *)
(* 8. the whole table                                                                            *)
(* ------------------------------------------------------------------------------------------- *)
Fixpoint table_ok (s : str) (dw : list char) (lsk : bool) (table : list level) : Prop :=
  match table with
  | [] => True
  | lv :: rest => level_ok s dw lsk lv /\ table_ok s dw (this_skip lsk lv) rest
  end.

Lemma this_items la dw ids k idx last lsk lv :
  and_items (fst (mk_level la dw ids k idx last lsk lv)) = [fst (mk_level la dw ids k idx last lsk lv)].
Proof. destruct lv; reflexivity. Qed.

Lemma mk_levels_rel s dw ids n table : forall k last lsk accE accR,
  and_items last = [last] -> table_ok s dw lsk table -> Forall2 (level_equiv s) accE accR ->
  fst (mk_levels true dw ids n k last lsk table accE) = fst (mk_levels false dw ids n k last lsk table accR) /\
  Forall2 (level_equiv s) (snd (mk_levels true dw ids n k last lsk table accE))
                          (snd (mk_levels false dw ids n k last lsk table accR)).
Proof.
  induction table as [|lv rest IH]; intros k last lsk accE accR Hl Hok Hacc; cbn [mk_levels].
  - split; [reflexivity|exact Hacc].
  - destruct Hok as [Hlv Hrest].
    pose proof (level_equiv_all s dw ids k (n - k + 1) last lsk Hl lv Hlv) as HE.
    pose proof (level_this_same dw ids k (n - k + 1) last lsk lv) as HT.
    pose proof (this_items true dw ids k (n - k + 1) last lsk lv) as HI.
    destruct (mk_level true dw ids k (n - k + 1) last lsk lv) as [thisE bodyE].
    destruct (mk_level false dw ids k (n - k + 1) last lsk lv) as [thisR bodyR].
    cbn [fst snd] in *. subst thisR.
    apply IH; [exact HI|exact Hrest|]. constructor; [exact HE|exact Hacc].
Qed.

Definition start_skip (base lpar : expr) : bool := sk_of base && first_sk lpar (sk_of lpar).

Lemma infix_gen_rel s dw ids base table lpar rpar :
  table_ok s dw (start_skip base lpar) table ->
  snd (infix_gen true dw ids base table lpar rpar) = snd (infix_gen false dw ids base table lpar rpar) /\
  Forall2 (level_equiv s) (fst (infix_gen true dw ids base table lpar rpar)) (fst (infix_gen false dw ids base table lpar rpar)).
Proof.
  intros Hok. unfold infix_gen.
  match goal with |- context [mk_levels true dw ids ?n ?k ?op ?sk table []] =>
    pose proof (mk_levels_rel s dw ids n table k op sk [] [] eq_refl Hok (Forall2_nil _)) as [H1 H2];
    destruct (mk_levels true dw ids n k op sk table []) as [[lastE skE] bE];
    destruct (mk_levels false dw ids n k op sk table []) as [[lastR skR] bR]
  end.
  cbn [fst snd] in *. injection H1 as -> ->.
  destruct table; cbn [fst snd]; (split; [reflexivity|]).
  - constructor; [apply level_equiv_refl|constructor].
  - constructor; [apply level_equiv_refl|exact H2].
Qed.

Lemma Forall2_body_le s (G1 G2 : env) : Forall2 (level_equiv s) G1 G2 ->
  (forall id, body_le s 5 (nth_error G1 id) (nth_error G2 id)) /\ (forall id, body_le s 5 (nth_error G2 id) (nth_error G1 id)).
Proof.
  induction 1 as [|b1 b2 G1 G2 H _ [IH1 IH2]].
  - split; intros [|id]; exact I.
  - split; intros [|id]; cbn [nth_error].
    + intros G f l. apply (proj1 (H G f l)).
    + apply IH1.
    + intros G f l. apply (proj2 (H G f l)).
    + apply IH2.
Qed.

(* C16_table_equiv: for every table, base, parentheses, default whitespace, object identities: every expression (in
   particular the root) has the same terminating PEG reading in the environment that infix_notation builds and in the
   reference environment without look-aheads, on every input and at every location *)
Theorem table_equiv s dw ids base table lpar rpar :
  table_ok s dw (start_skip base lpar) table ->
  snd (infix_elab dw ids base table lpar rpar) = snd (infix_ref dw ids base table lpar rpar) /\
  forall e loc r, pegR (fst (infix_elab dw ids base table lpar rpar)) s e loc r <->
                  pegR (fst (infix_ref dw ids base table lpar rpar)) s e loc r.
Proof.
  intros Hok. destruct (infix_gen_rel s dw ids base table lpar rpar Hok) as [HR HF].
  split; [exact HR|]. destruct (Forall2_body_le s _ _ HF) as [H1 H2].
  intros e loc r. split; apply pegR_transfer with (K := 5); assumption.
Qed.

(* ------------------------------------------------------------------------------------------- *)
(* 9. decidable side conditions                                                                  *)
(* ------------------------------------------------------------------------------------------- *)
Definition is_plain_and (e : expr) : bool := match e with Nary a _ NAnd _ => plainb a | _ => false end.
Lemma not_plain_and_items e : is_plain_and e = false -> and_items e = [e].
Proof. destruct e as [| a i k es | | | |]; try reflexivity. destruct k; try reflexivity. cbn. intros ->. reflexivity. Qed.

Definition absorb_okb (dw : list char) (op : expr) : bool :=
  negb (first_sk op (sk_of op)) || callpre (attrs_of op) ||
  match op with
  | Nary a _ NMatchFirst es =>
    negb (callpre a) && forallb (fun c => callpre (attrs_of c) && skipws (attrs_of c) && str_eqb (white (attrs_of c)) (white a)) es
  | _ => false
  end.

Lemma absorb_ok s dw op : absorb_okb dw op = true -> absorbs s (rep_spec dw op) op.
Proof.
  unfold absorb_okb, absorbs, rep_spec, first_sk. intros H G f l.
  destruct (is_white_tok op) eqn:Hw; [reflexivity|].
  destruct (sk_of op) eqn:Hs; [|reflexivity]. cbn [negb orb] in H.
  destruct (callpre (attrs_of op)) eqn:Hc.
  - apply peg_at_eff. unfold wspec. unfold sk_of in Hs. rewrite Hc, Hs. reflexivity.
  - cbn [orb] in H. destruct op as [| a i k es | | | |]; try discriminate. destruct k; try discriminate.
    cbn [attrs_of] in *. apply andb_true_iff in H. destruct H as [_ H].
    destruct f as [|f]; [reflexivity|]. rewrite !peg_mf. unfold eff. cbn [attrs_of]. rewrite Hc. cbn [andb].
    unfold effw. cbn [fst snd]. clear Hw Hs.
    induction es as [|c es IH]; [reflexivity|]. cbn [forallb] in H. apply andb_true_iff in H. destruct H as [Hc1 Hes].
    apply andb_true_iff in Hc1. destruct Hc1 as [Hc1 Hw1]. apply andb_true_iff in Hc1. destruct Hc1 as [Hcp Hsk].
    apply str_eqb_eq in Hw1. cbn [peg_first].
    assert (E : peg G s f c (skip_white s l (white a)) = peg G s f c l).
    { apply (peg_at_eff G s f c (true, white a) l). unfold wspec. rewrite Hcp, Hsk, Hw1. reflexivity. }
    rewrite E. destruct (peg G s f c l); try reflexivity. apply IH. exact Hes.
Qed.

Definition level_okb (dw : list char) (lsk : bool) (lv : level) : bool :=
  match lv with
  | LPostfix op _ => negb (is_plain_and op)
  | LPrefix op _ => negb (is_plain_and op) && negb (is_white_tok op)
  | LBinL op _ | LBinR op _ => negb (is_plain_and op) && absorb_okb dw op
  | LJuxL _ => true
  | LJuxR _ => lsk
  | LTernL o1 o2 _ => negb (is_plain_and o1) && negb (is_plain_and o2) && absorb_okb dw o1
  | LTernR o1 o2 _ => negb (is_plain_and o1) && negb (is_plain_and o2)
  end.
Fixpoint table_okb (dw : list char) (lsk : bool) (table : list level) : bool :=
  match table with [] => true | lv :: rest => level_okb dw lsk lv && table_okb dw (this_skip lsk lv) rest end.

Lemma level_okb_ok s dw lsk lv : level_okb dw lsk lv = true -> level_ok s dw lsk lv.
Proof.
  destruct lv; cbn [level_okb level_ok]; intros H;
    repeat (apply andb_true_iff in H; let H2 := fresh "H" in destruct H as [H H2]);
    repeat match goal with X : negb _ = true |- _ => apply negb_true_iff in X end;
    repeat split; auto using not_plain_and_items, absorb_ok.
Qed.
Lemma table_okb_ok s dw table : forall lsk, table_okb dw lsk table = true -> table_ok s dw lsk table.
Proof.
  induction table as [|lv rest IH]; intros lsk H; cbn in *; [exact I|].
  apply andb_true_iff in H. destruct H as [H1 H2]. split; [apply level_okb_ok; exact H1|apply IH; exact H2].
Qed.

(* ------------------------------------------------------------------------------------------- *)
(* 10. statements in the fuel-free reading, transfer to the parser model and to packrat          *)
(* ------------------------------------------------------------------------------------------- *)
Lemma level_pegR s dw ids k idx last lsk lv : and_items last = [last] -> level_okb dw lsk lv = true ->
  forall G loc r, pegR G s (snd (mk_level true dw ids k idx last lsk lv)) loc r <->
                  pegR G s (snd (mk_level false dw ids k idx last lsk lv)) loc r.
Proof.
  intros Hl Hok. apply level_equiv_pegR. apply level_equiv_all; [exact Hl|]. apply level_okb_ok. exact Hok.
Qed.

Lemma table_equiv_b s dw ids base table lpar rpar :
  table_okb dw (start_skip base lpar) table = true ->
  snd (infix_elab dw ids base table lpar rpar) = snd (infix_ref dw ids base table lpar rpar) /\
  forall e loc r, pegR (fst (infix_elab dw ids base table lpar rpar)) s e loc r <->
                  pegR (fst (infix_ref dw ids base table lpar rpar)) s e loc r.
Proof. intros H. apply table_equiv. apply table_okb_ok. exact H. Qed.

Section Transfer.
Variables (s : str) (dw : list char) (ids : nat -> nat * nat) (base : expr) (table : list level) (lpar rpar : expr).
Let GE := fst (infix_elab dw ids base table lpar rpar).
Let root := snd (infix_elab dw ids base table lpar rpar).
Let GR := fst (infix_ref dw ids base table lpar rpar).
Let rootR := snd (infix_ref dw ids base table lpar rpar).
Hypothesis Hok : table_okb dw (start_skip base lpar) table = true.
Hypothesis HG : env_in_class GE = true.
Hypothesis Hroot : in_class GE root = true.

(* whatever `_parse` of the generated grammar answers is the reference reading of the look-ahead-free grammar *)
Lemma table_parse_sound fuel loc d r :
  proj (parse (step GE) fuel (mkargs root s loc d true)) = Some r -> r <> POut -> pegR GR s rootR loc r.
Proof.
  intros E N. pose proof (proj1 (peg_equiv GE s HG fuel root Hroot loc d)) as P. unfold good in P.
  rewrite E in P. injection P as P.
  destruct (table_equiv_b s dw ids base table lpar rpar Hok) as [HR HE]. unfold rootR. rewrite <- HR.
  apply HE. exists fuel. split; [symmetry; exact P|exact N].
Qed.

Lemma table_parse_complete loc r : pegR GR s rootR loc r ->
  exists fuel, forall d, proj (parse (step GE) fuel (mkargs root s loc d true)) = Some r.
Proof.
  intros H. destruct (table_equiv_b s dw ids base table lpar rpar Hok) as [HR HE]. unfold rootR in H. rewrite <- HR in H.
  apply HE in H. destruct H as [fuel [E N]]. exists fuel. intros d.
  pose proof (proj1 (peg_equiv GE s HG fuel root Hroot loc d)) as P. unfold good in P. rewrite P. f_equal. exact E.
Qed.

(* with packrat, any cache size *)
Lemma table_packrat_sound size fuel loc d o r :
  snd (parsec (step GE) EqDec.args_eqb size fuel [] (mkargs root s loc d true)) = Some o ->
  proj (Some o) = Some r -> pegR GR s rootR loc r.
Proof.
  intros E P.
  destruct (PackratCore.elem_sound GE size fuel [] _ o (Packrat.okm_nil args outcome (step GE)) E) as [f Hf].
  apply (table_parse_sound f loc d r); [rewrite Hf; exact P|].
  destruct o as [l pr|x|]; cbn in P; [| destruct (is_pe (xk x)) |]; congruence.
Qed.
End Transfer.

(* the six arity x associativity cases, and the two juxtaposition forms, as separate statements *)
Section Cases.
Variables (s : str) (dw : list char) (ids : nat -> nat * nat) (k idx : nat) (last : expr) (lsk : bool).
Hypothesis Hl : and_items last = [last].
Notation lvl la lv := (snd (mk_level la dw ids k idx last lsk lv)).
Notation equivl lv := (forall G loc r, pegR G s (lvl true lv) loc r <-> pegR G s (lvl false lv) loc r).

Lemma case_1_left op pa : is_plain_and op = false -> equivl (LPostfix op pa).
Proof. intros H. apply level_pegR; [exact Hl|]. cbn. rewrite H. reflexivity. Qed.
Lemma case_1_right op pa : is_plain_and op = false -> is_white_tok op = false -> equivl (LPrefix op pa).
Proof. intros H H2. apply level_pegR; [exact Hl|]. cbn. rewrite H, H2. reflexivity. Qed.
Lemma case_2_left op pa : is_plain_and op = false -> absorb_okb dw op = true -> equivl (LBinL op pa).
Proof. intros H H2. apply level_pegR; [exact Hl|]. cbn. rewrite H, H2. reflexivity. Qed.
Lemma case_2_right op pa : is_plain_and op = false -> absorb_okb dw op = true -> equivl (LBinR op pa).
Proof. intros H H2. apply level_pegR; [exact Hl|]. cbn. rewrite H, H2. reflexivity. Qed.
Lemma case_2_left_juxt pa : equivl (LJuxL pa).
Proof. apply level_pegR; [exact Hl|]. reflexivity. Qed.
Lemma case_2_right_juxt pa : lsk = true -> equivl (LJuxR pa).
Proof. intros H. apply level_pegR; [exact Hl|]. exact H. Qed.
Lemma case_3_left o1 o2 pa : is_plain_and o1 = false -> is_plain_and o2 = false -> absorb_okb dw o1 = true -> equivl (LTernL o1 o2 pa).
Proof. intros H H2 H3. apply level_pegR; [exact Hl|]. cbn. rewrite H, H2, H3. reflexivity. Qed.
Lemma case_3_right o1 o2 pa : is_plain_and o1 = false -> is_plain_and o2 = false -> equivl (LTernR o1 o2 pa).
Proof. intros H H2. apply level_pegR; [exact Hl|]. cbn. rewrite H, H2. reflexivity. Qed.
End Cases.
