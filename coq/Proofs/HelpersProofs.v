(* Proofs for Model/Helpers.v: DelimitedList arithmetic, counted_array, nested_expr. *)
From Coq Require Import List NArith Arith Bool Lia.
From PP Require Import Model.Str Gen.GenHelpers Model.Helpers.
Import ListNotations.

(* ------------------------------------------------------------------ DelimitedList / counted_array *)
Section Delimited.
  Variable A : Type.
  Variable content : str -> option (A * str).
  Variable delim : str -> option str.
  Notation pair := (pair A content delim).
  Notation chain := (chain A content delim).

  Lemma rep_exact_chain : forall n s xs s', rep_exact A content delim n s = Some (xs, s') ->
    chain xs s s' /\ length xs = n.
  Proof.
    induction n; simpl; intros s xs s' H.
    - injection H as <- <-. split; [constructor | reflexivity].
    - destruct (pair s) as [[x s1]|] eqn:P; [|discriminate].
      destruct (rep_exact A content delim n s1) as [[ys s2]|] eqn:R; [|discriminate].
      injection H as <- <-. apply IHn in R. destruct R as [C L]. split.
      + econstructor; eauto.
      + simpl. lia.
  Qed.

  Lemma chain_rep_exact : forall xs s s', chain xs s s' -> rep_exact A content delim (length xs) s = Some (xs, s').
  Proof.
    induction 1; simpl; auto. rewrite H, IHchain. reflexivity.
  Qed.

  Lemma chain_app : forall xs ys s s1 s2, chain xs s s1 -> chain ys s1 s2 -> chain (xs ++ ys) s s2.
  Proof. induction 1; simpl; intros; auto. econstructor; eauto. Qed.

  Lemma chain_length_progress :
    (forall s x s', pair s = Some (x, s') -> length s' < length s) ->
    forall xs s s', chain xs s s' -> length xs + length s' <= length s.
  Proof.
    intros Hp. induction 1; simpl; [lia|]. apply Hp in H. lia.
  Qed.

  Lemma rep_greedy_spec : forall k s xs s', rep_greedy A content delim k s = (xs, s') ->
    chain xs s s' /\ length xs <= k /\ (length xs < k -> pair s' = None).
  Proof.
    induction k; simpl; intros s xs s' H.
    - injection H as <- <-. split; [constructor|]. split; [simpl; lia|]. simpl. lia.
    - destruct (pair s) as [[x s1]|] eqn:P.
      + destruct (rep_greedy A content delim k s1) as [ys s2] eqn:R. injection H as <- <-.
        apply IHk in R. destruct R as (C & L & M). split; [econstructor; eauto|]. simpl. split; [lia|].
        intros. apply M. lia.
      + injection H as <- <-. split; [constructor|]. simpl. split; [lia|]. auto.
  Qed.

  (* what a successful DelimitedList parse returns *)
  Theorem delimited_list_spec : forall mn mx trail s items rest,
    1 <= mn -> (forall m, mx = Some m -> mn <= m) ->
    (mx = None -> forall s x s', pair s = Some (x, s') -> length s' < length s) ->
    delimited_list A content delim mn mx trail s = Some (items, rest) ->
    exists x s1 xs s3,
      content s = Some (x, s1) /\ items = x :: xs /\ chain xs s1 s3 /\
      mn <= length items /\ (forall m, mx = Some m -> length items <= m) /\
      ((forall m, mx = Some m -> length items < m) -> pair s3 = None) /\
      rest = (if trail then match delim s3 with Some s' => s' | None => s3 end else s3).
  Proof.
    intros mn mx trail s items rest Hmn Hmx Hprog H. unfold delimited_list in H.
    destruct (empty_and_survives mn mx trail); [discriminate|].
    destruct (content s) as [[x s1]|] eqn:C; [|discriminate].
    destruct (rep_exact A content delim (dl_lo mn) s1) as [[xs s2]|] eqn:R; [|discriminate].
    apply rep_exact_chain in R. destruct R as [C1 L1]. unfold dl_lo in L1.
    destruct (rep_greedy A content delim _ s2) as [ys s3] eqn:G. injection H as <- <-.
    apply rep_greedy_spec in G. destruct G as (C2 & L2 & M).
    exists x, s1, (xs ++ ys), s3. split; auto. split; auto. split; [eapply chain_app; eauto|].
    simpl. rewrite app_length. split; [lia|]. split.
    - intros m E. subst mx. specialize (Hmx m eq_refl). unfold dl_hi, dl_lo in L2. lia.
    - split; auto. intros Hlt. apply M. destruct mx as [m|].
      + specialize (Hlt m eq_refl). specialize (Hmx m eq_refl). unfold dl_hi, dl_lo. lia.
      + pose proof (chain_length_progress (Hprog eq_refl) _ _ _ C2). lia.
  Qed.

  (* when it fails: no first element, or fewer than min - 1 further (delim content) pairs *)
  Theorem delimited_list_fails : forall mn mx trail s,
    empty_and_survives mn mx trail = false ->
    (delimited_list A content delim mn mx trail s = None <->
     (content s = None \/
      exists x s1, content s = Some (x, s1) /\ ~ exists xs s2, chain xs s1 s2 /\ length xs = mn - 1)).
  Proof.
    intros mn mx trail s HE. unfold delimited_list. rewrite HE. destruct (content s) as [[x s1]|] eqn:C.
    - destruct (rep_exact A content delim (dl_lo mn) s1) as [[xs s2]|] eqn:R.
      + destruct (rep_greedy A content delim _ s2) as [ys s3]. split; [discriminate|].
        intros [H | (x' & s1' & E & H)]; [discriminate|]. injection E as <- <-. exfalso. apply H.
        apply rep_exact_chain in R. destruct R as [C1 L1]. exists xs, s2. auto.
      + split; auto. intros _. right. exists x, s1. split; auto. intros (xs & s2 & Hc & L).
        apply chain_rep_exact in Hc. rewrite L in Hc. unfold dl_lo in R. congruence.
    - split; auto.
  Qed.

  (* counted_array *)
  Variable count : str -> option (nat * str).
  Variable item : str -> option (A * str).
  Variable skipw : str -> str.

  Lemma items_exact_length : forall n s xs s', items_exact A item n s = Some (xs, s') -> length xs = n.
  Proof.
    induction n; simpl; intros s xs s' H.
    - injection H as <- _. reflexivity.
    - destruct (item s) as [[x s1]|]; [|discriminate].
      destruct (items_exact A item n s1) as [[ys s2]|] eqn:R; [|discriminate].
      injection H as <- _. simpl. f_equal. eapply IHn; eauto.
  Qed.

  Lemma ca_body_length : forall n s xs s', ca_body A item skipw n s = Some (xs, s') -> length xs = n.
  Proof.
    intros [|n] s xs s' H.
    - simpl in H. injection H as <- _. reflexivity.
    - eapply items_exact_length. exact H.
  Qed.

  Theorem counted_array_spec : forall body0 s items rest body,
    counted_array A count item skipw body0 s = (Some (items, rest), body) ->
    exists n s1, count s = Some (n, s1) /\ length items = n /\ body = Some n /\
                 ca_body A item skipw n s1 = Some (items, rest).
  Proof.
    intros body0 s items rest body H. unfold counted_array in H.
    destruct (count s) as [[n s1]|] eqn:C; [|discriminate].
    unfold ca_items in H. injection H as H <-. exists n, s1. split; auto. split; [|split; auto].
    eapply ca_body_length; eauto.
  Qed.

  (* fewer than n items after the count: the parse fails (no partial array is returned) *)
  Theorem counted_array_short : forall body0 s n s1,
    count s = Some (n, s1) -> ca_body A item skipw n s1 = None ->
    fst (counted_array A count item skipw body0 s) = None.
  Proof. intros. unfold counted_array. rewrite H. unfold ca_items. simpl. exact H0. Qed.
End Delimited.

(* ------------------------------------------------------------------ nested_expr *)
Section Nested.
  Variables o c : char.
  Hypothesis Ho : is_ws o = false.
  Hypothesis Hc : is_ws c = false.
  Hypothesis Hoc : N.eqb c o = false.

  Notation wc := (word_char o c).
  Notation shw := (show o c).
  Notation pn := (fun f => parse_nested f o c).
  Notation pi := (fun f => parse_items f o c).

  Lemma wc_c : wc c = false.
  Proof. unfold word_char. rewrite N.eqb_refl, orb_true_r. reflexivity. Qed.
  Lemma wc_space : wc 32%N = false.
  Proof. unfold word_char. replace (is_ws 32%N) with true by reflexivity. rewrite !orb_true_r. reflexivity. Qed.
  Lemma wc_props : forall x, wc x = true -> is_ws x = false /\ N.eqb x o = false /\ N.eqb x c = false.
  Proof.
    intros x H. unfold word_char in H. apply negb_true_iff in H. apply orb_false_iff in H. destruct H as [H H3].
    apply orb_false_iff in H. tauto.
  Qed.

  Lemma skip_ws_prefix : forall sp x r, forallb is_ws sp = true -> is_ws x = false -> skip_ws (sp ++ x :: r) = x :: r.
  Proof.
    induction sp; simpl; intros x r H Hx.
    - rewrite Hx. reflexivity.
    - apply andb_true_iff in H. destruct H as [H1 H2]. rewrite H1. apply IHsp; auto.
  Qed.

  Lemma span_word_app : forall w r, forallb wc w = true ->
    match r with x :: _ => wc x = false | [] => True end -> span_word o c (w ++ r) = (w, r).
  Proof.
    induction w; intros r H Hr.
    - cbn [app]. destruct r; auto. cbn [span_word]. rewrite Hr. reflexivity.
    - cbn [forallb] in H. apply andb_true_iff in H. destruct H as [H1 H2]. cbn [app span_word].
      rewrite H1, IHw; auto.
  Qed.

  Lemma pn_not_opener : forall f sp x r, forallb is_ws sp = true -> is_ws x = false -> N.eqb x o = false ->
    parse_nested f o c (sp ++ x :: r) = None.
  Proof.
    intros [|f] sp x r Hs Hx Hxo; simpl; auto. rewrite skip_ws_prefix by auto. rewrite Hxo. reflexivity.
  Qed.

  Definition tail_of (l : list ntree) (rest : str) : str := join_items shw l ++ c :: rest.

  Lemma join_cons : forall t l rest,
    tail_of (t :: l) rest = shw t ++ (match l with [] => c :: rest | _ :: _ => 32%N :: tail_of l rest end).
  Proof.
    intros t l rest. unfold tail_of. destruct l as [|t' l']; simpl; auto. rewrite <- app_assoc. reflexivity.
  Qed.

  Lemma tail_head_not_wc : forall l rest, match (match l with [] => c :: rest | _ :: _ => 32%N :: tail_of l rest end) with
                                          | x :: _ => wc x = false | [] => True end.
  Proof. intros [|t l] rest; [apply wc_c | apply wc_space]. Qed.

  (* completeness on the canonical text, by induction on the fuel *)
  Lemma canonical : forall f,
    (forall lt rest sp, forallb is_ws sp = true -> forallb (wf_tree o c) lt = true -> tsize (NList lt) <= f ->
       parse_nested f o c (sp ++ shw (NList lt) ++ rest) = Some (NList lt, rest)) /\
    (forall l rest sp, (sp = [] \/ (sp = [32%N] /\ l <> [])) -> forallb (wf_tree o c) l = true -> lsize l + 1 <= f ->
       parse_items f o c (sp ++ tail_of l rest) = (l, c :: rest)).
  Proof.
    induction f as [|f [IHn IHi]].
    - split; intros; simpl in *; lia.
    - split.
      + intros lt rest sp Hsp Hwf Hf. cbn [parse_nested]. cbn [show]. cbn [app].
        rewrite skip_ws_prefix by auto. rewrite N.eqb_refl.
        replace ((join_items shw lt ++ [c]) ++ rest) with ([] ++ tail_of lt rest)
          by (unfold tail_of; rewrite <- app_assoc; reflexivity).
        rewrite IHi; auto; [|simpl in Hf; unfold lsize; lia].
        cbn [skip_ws]. rewrite Hc, N.eqb_refl. reflexivity.
      + intros l rest sp Hsp Hwf Hf. destruct l as [|t l'].
        * destruct Hsp as [-> | [_ Hne]]; [|congruence]. unfold tail_of. cbn [app join_items parse_items].
          pose proof (pn_not_opener f [] c rest eq_refl Hc Hoc) as PN. cbn [app] in PN. rewrite PN.
          cbn [skip_ws]. rewrite Hc.
          cbn [span_word]. rewrite wc_c. reflexivity.
        * assert (Hsp' : forallb is_ws sp = true) by (destruct Hsp as [-> | [-> _]]; reflexivity).
          cbn [forallb] in Hwf. apply andb_true_iff in Hwf. destruct Hwf as [Wt Wl].
          assert (Hfl : lsize l' + 1 <= f) by (unfold lsize in *; simpl in Hf; lia).
          assert (Tl : parse_items f o c (match l' with [] => c :: rest | _ :: _ => 32%N :: tail_of l' rest end) = (l', c :: rest)).
          { destruct l' as [|t' l''].
            - apply (IHi [] rest []); auto.
            - apply (IHi (t' :: l'') rest [32%N]); auto. right. split; [reflexivity | discriminate]. }
          rewrite join_cons. cbn [parse_items]. destruct t as [w|lt].
          -- (* a word *)
             cbn [wf_tree] in Wt. apply andb_true_iff in Wt. destruct Wt as [Wn Ww].
             destruct w as [|x w']; [discriminate|]. cbn [show].
             cbn [forallb] in Ww. apply andb_true_iff in Ww. destruct Ww as [Wx Ww'].
             destruct (wc_props x Wx) as (X1 & X2 & X3).
             rewrite <- app_comm_cons. rewrite pn_not_opener by auto. rewrite skip_ws_prefix by auto.
             rewrite app_comm_cons. rewrite span_word_app; [| simpl; rewrite Wx, Ww'; reflexivity | apply tail_head_not_wc].
             match goal with |- context [parse_items f o c ?X] =>
               replace (parse_items f o c X) with (l', c :: rest) by (symmetry; exact Tl) end.
             reflexivity.
          -- (* a nested list *)
             rewrite IHn; auto; [|unfold lsize in Hf; simpl in Hf; simpl; lia].
             match goal with |- context [parse_items f o c ?X] =>
               replace (parse_items f o c X) with (l', c :: rest) by (symmetry; exact Tl) end.
             reflexivity.
  Qed.

  Theorem nested_canonical : forall l rest f, forallb (wf_tree o c) l = true -> tsize (NList l) <= f ->
    parse_nested f o c (shw (NList l) ++ rest) = Some (NList l, rest).
  Proof.
    intros l rest f Hwf Hf. destruct (canonical f) as [H _]. apply (H l rest []); auto.
  Qed.

  (* soundness: what is consumed has exactly the bracket skeleton of the returned tree *)
  Notation isb := (is_bracket o c).

  Lemma ws_not_bracket : forall x, is_ws x = true -> isb x = false.
  Proof.
    intros x H. unfold is_bracket. apply orb_false_iff. split; apply N.eqb_neq; intros ->; congruence.
  Qed.

  Lemma skip_ws_split : forall s, exists sp, s = sp ++ skip_ws s /\ filter isb sp = [].
  Proof.
    induction s as [|x s IH].
    - exists []. auto.
    - cbn [skip_ws]. destruct (is_ws x) eqn:E.
      + destruct IH as (sp & E1 & E2). exists (x :: sp). cbn [app filter]. rewrite (ws_not_bracket x E).
        split; [f_equal; exact E1 | exact E2].
      + exists []. auto.
  Qed.

  Lemma span_word_split : forall s w r, span_word o c s = (w, r) ->
    s = w ++ r /\ filter isb w = [] /\ forallb wc w = true.
  Proof.
    induction s as [|x s IH]; intros w r H.
    - cbn [span_word] in H. injection H as <- <-. auto.
    - cbn [span_word] in H. destruct (wc x) eqn:E.
      + destruct (span_word o c s) as [w' r'] eqn:S. injection H as <- <-.
        destruct (IH w' r' eq_refl) as (E1 & E2 & E3). destruct (wc_props x E) as (_ & X2 & X3).
        cbn [app filter forallb]. unfold is_bracket at 1. rewrite X2, X3. cbn [orb]. rewrite E, E3, E2.
        split; [f_equal; exact E1 | split; reflexivity].
      + injection H as <- <-. auto.
  Qed.

  Lemma sound : forall f,
    (forall s t rest, parse_nested f o c s = Some (t, rest) ->
       exists consumed l, s = consumed ++ rest /\ t = NList l /\ filter isb consumed = brackets o c t /\ wf_tree o c t = true) /\
    (forall s l rest, parse_items f o c s = (l, rest) ->
       exists consumed, s = consumed ++ rest /\ filter isb consumed = flat_map (brackets o c) l /\ forallb (wf_tree o c) l = true).
  Proof.
    induction f as [|f [IHn IHi]].
    - split; intros; simpl in *; [discriminate|]. injection H as <- <-. exists []. auto.
    - split.
      + intros s t rest H. cbn [parse_nested] in H. destruct (skip_ws_split s) as (sp & Es & Fs).
        destruct (skip_ws s) as [|x r]; [discriminate|]. destruct (N.eqb x o) eqn:Ex; [|discriminate].
        apply N.eqb_eq in Ex. subst x.
        destruct (parse_items f o c r) as [items rest1] eqn:PI. apply IHi in PI. destruct PI as (cons1 & E1 & F1 & W1).
        destruct (skip_ws_split rest1) as (sp2 & Es2 & Fs2).
        destruct (skip_ws rest1) as [|y r']; [discriminate|]. destruct (N.eqb y c) eqn:Ey; [|discriminate].
        apply N.eqb_eq in Ey. subst y. injection H as <- <-.
        exists (sp ++ o :: cons1 ++ sp2 ++ [c]), items. split.
        * rewrite Es, E1, Es2. rewrite <- !app_assoc. simpl. rewrite <- !app_assoc. reflexivity.
        * split; auto. split; auto. rewrite filter_app. simpl. rewrite Fs. unfold is_bracket at 1. rewrite N.eqb_refl. simpl.
          rewrite !filter_app, F1, Fs2. simpl. unfold is_bracket. rewrite N.eqb_refl, orb_true_r. reflexivity.
      + intros s l rest H. cbn [parse_items] in H.
        destruct (parse_nested f o c s) as [[t rest1]|] eqn:PN.
        * apply IHn in PN. destruct PN as (cons1 & lt & E1 & -> & F1 & W1).
          destruct (parse_items f o c rest1) as [ts rest2] eqn:PI. injection H as <- <-.
          apply IHi in PI. destruct PI as (cons2 & E2 & F2 & W2).
          exists (cons1 ++ cons2). split; [rewrite E1, E2, app_assoc; reflexivity|].
          split; [rewrite filter_app, F1, F2; reflexivity|]. cbn [forallb]. rewrite W1, W2. reflexivity.
        * destruct (skip_ws_split s) as (sp & Es & Fs).
          destruct (span_word o c (skip_ws s)) as [w r] eqn:SW. apply span_word_split in SW. destruct SW as (E1 & F1 & W1).
          destruct w as [|x w'].
          -- injection H as <- <-. exists []. auto.
          -- destruct (parse_items f o c r) as [ts rest2] eqn:PI. injection H as <- <-.
             apply IHi in PI. destruct PI as (cons2 & E2 & F2 & W2).
             exists (sp ++ (x :: w') ++ cons2). split.
             ++ rewrite Es, E1, E2. rewrite <- !app_assoc. reflexivity.
             ++ split; [rewrite !filter_app, Fs, F1, F2; reflexivity|].
                change (forallb (wf_tree o c) (NWord (x :: w') :: ts))
                  with (wf_tree o c (NWord (x :: w')) && forallb (wf_tree o c) ts).
                rewrite W2. cbn [wf_tree]. rewrite W1. reflexivity.
  Qed.

  (* the bracket skeleton of any tree is a balanced word *)
  Lemma bal_app : forall a b, balanced o c a -> balanced o c b -> balanced o c (a ++ b).
  Proof.
    induction 1; intros Hb; simpl; auto. rewrite <- app_assoc. simpl. constructor; auto.
  Qed.

  Fixpoint brackets_balanced (t : ntree) : balanced o c (brackets o c t).
  Proof.
    destruct t as [w|l].
    - constructor.
    - simpl. replace (flat_map (brackets o c) l ++ [c]) with (flat_map (brackets o c) l ++ c :: []) by reflexivity.
      constructor; [|constructor].
      refine ((fix go (l : list ntree) : balanced o c (flat_map (brackets o c) l) :=
                 match l with [] => _ | t :: l' => _ end) l).
      + constructor.
      + simpl. apply bal_app; [apply brackets_balanced | apply go].
  Qed.

  Theorem nested_sound : forall f s t rest, parse_nested f o c s = Some (t, rest) ->
    exists consumed l, s = consumed ++ rest /\ t = NList l /\ wf_tree o c t = true /\
                       filter isb consumed = brackets o c t /\ balanced o c (filter isb consumed).
  Proof.
    intros f s t rest H. destruct (sound f) as [Hs _]. apply Hs in H.
    destruct H as (consumed & l & E & -> & F & W). exists consumed, l. repeat split; auto.
    rewrite F. apply brackets_balanced.
  Qed.
End Nested.
