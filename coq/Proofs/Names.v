(* C05 (model part): how results names are bound and merged.  Statements are about the views of Model/ResultsSpec.v
   (`view`, `mm_values`, `mm_lookup`), which Proofs/ResultsProofs.v ties to the operations of Model/Results.v. *)
From Coq Require Import List ZArith NArith Bool Arith Lia.
From PP Require Import Model.Str Model.Results Model.ResultsAPI Model.ResultsSpec Model.Prog Model.Core.
From PP Require Import Proofs.ResultsProofs Proofs.PegEquiv.
Import ListNotations.

Lemma str_eqb_refl : forall a : str, str_eqb a a = true.
Proof. induction a as [|x a IH]; simpl; [reflexivity|]. rewrite N.eqb_refl, IH. reflexivity. Qed.

Lemma str_eqb_sym : forall a b : str, str_eqb a b = str_eqb b a.
Proof.
  induction a as [|x a IH]; intros [|y b]; simpl; try reflexivity. rewrite N.eqb_sym, IH. reflexivity.
Qed.

Lemma dict_get_set_same {V} (d : list (str * V)) k v : dict_get (dict_set d k v) k = Some v.
Proof.
  induction d as [|[k' v'] d IH]; simpl; [rewrite str_eqb_refl; reflexivity|].
  destruct (str_eqb k' k) eqn:E; simpl; rewrite E; [reflexivity|exact IH].
Qed.

Lemma dict_get_set_other {V} (d : list (str * V)) k k' v :
  str_eqb k k' = false -> dict_get (dict_set d k v) k' = dict_get d k'.
Proof.
  intros H. induction d as [|[k0 v0] d IH]; simpl.
  - rewrite H. reflexivity.
  - destruct (str_eqb k0 k) eqn:E; simpl.
    + apply str_eqb_eq in E. subst k0. rewrite H. reflexivity.
    + destruct (str_eqb k0 k'); [reflexivity|exact IH].
Qed.

Lemma mm_values_add a k v k' :
  mm_values (mm_add a k v) k' = if str_eqb k k' then mm_values a k ++ [v] else mm_values a k'.
Proof.
  unfold mm_values, mm_add. simpl. destruct (str_eqb k k') eqn:E.
  - apply str_eqb_eq in E. subst k'. rewrite dict_get_set_same. reflexivity.
  - rewrite dict_get_set_other by exact E. reflexivity.
Qed.

(* all values stored under k anywhere in an ordered multimap (with distinct keys this is just the entry of k) *)
Definition all_values (m : list (str * list vtok)) (k : str) : list vtok :=
  flat_map (fun kv => if str_eqb (fst kv) k then snd kv else []) m.

Lemma fold_add_values items : forall a k,
  mm_values (fold_left (fun acc kv => mm_add acc (fst kv) (snd kv)) items a) k =
  mm_values a k ++ flat_map (fun kv : str * vtok => if str_eqb (fst kv) k then [snd kv] else []) items.
Proof.
  induction items as [|[k0 v0] items IH]; intros a k; simpl; [rewrite app_nil_r; reflexivity|].
  rewrite IH. rewrite mm_values_add. destruct (str_eqb k0 k) eqn:E; simpl.
  - apply str_eqb_eq in E. subst k0. rewrite <- app_assoc. reflexivity.
  - reflexivity.
Qed.

Lemma items_values (m : list (str * list vtok)) k :
  flat_map (fun kv : str * vtok => if str_eqb (fst kv) k then [snd kv] else [])
           (flat_map (fun kv => map (fun v => (fst kv, v)) (snd kv)) m) = all_values m k.
Proof.
  unfold all_values. induction m as [|[k0 vs] m IH]; simpl; [reflexivity|].
  rewrite flat_map_app, IH. f_equal.
  induction vs as [|v vs IHv]; simpl; [destruct (str_eqb k0 k); reflexivity|].
  rewrite IHv. destruct (str_eqb k0 k); reflexivity.
Qed.

(* concatenation of results (what And, repetitions, Each do with their elements' results): under every name, the values
   of the right operand follow those of the left operand *)
Theorem iadd_values a b k :
  mm_values (view (pr_iadd a b)) k = mm_values (view a) k ++ all_values (av_map (view b)) k.
Proof.
  rewrite iadd_view. unfold spec_iadd. destruct (negb (spec_bool (view b))) eqn:E.
  - unfold spec_bool in E. destruct (av_map (view b)); [simpl; rewrite app_nil_r; reflexivity|].
    rewrite orb_true_r in E. discriminate.
  - set (a1 := fold_left (fun acc kv => mm_add acc (fst kv) (snd kv))
        (flat_map (fun kv => map (fun v => (fst kv, v)) (snd kv)) (av_map (view b))) (view a)).
    assert (mm_values (AV (av_list a1 ++ av_list (view b)) (av_map a1) (names_union (av_all a1) (av_all (view b)))) k = mm_values a1 k) as -> by reflexivity.
    unfold a1. rewrite fold_add_values, items_values. reflexivity.
Qed.

(* list-all flags are never lost by concatenation when the right operand is non-empty, and never invented *)
Theorem iadd_allnames a b k :
  name_in k (allnames (pr_iadd a b)) = true -> name_in k (allnames a) = true \/ name_in k (allnames b) = true.
Proof.
  unfold pr_iadd. destruct (negb (pr_bool b)); [auto|]. simpl.
  assert (forall items r, allnames (fold_left (fun acc kvp => match kvp with (k, v, p) => pr_setname acc k v p end) items r) = allnames r) as Hf.
  { induction items as [|[[k0 v0] p0] items IH]; intros r; simpl; [reflexivity|]. rewrite IH. reflexivity. }
  rewrite Hf. unfold names_union, name_in. rewrite existsb_app. intros H. apply orb_prop in H as [H|H]; [auto|].
  right. apply existsb_exists in H as (x & Hin & Hx). apply filter_In in Hin as [Hin _].
  apply existsb_exists. exists x. auto.
Qed.

(* ---- binding a name: `ParseResults(tokens, name, asList, modal)` ---- *)
(* a token element (not saveAsList) named n: the name maps to the token itself *)
Lemma init_token_name s n c modal_ :
  let nm := c :: n in
  mm_values (view (pr_init (RStr s) (Some nm) false modal_)) nm = [VStr s].
Proof.
  cbv zeta. unfold pr_init, pr_init_gen. cbn [pr_new raw_is_null pr_of_list toks dict allnames rname].
  unfold mm_values. rewrite view_eq. cbn [av_map]. rewrite dict_get_view.
  unfold pr_setname. cbn [dict]. rewrite dict_get_set_same. reflexivity.
Qed.

(* a sequence / repetition / group-like element (saveAsList) with an ordinary (last-wins) name n that is not already a
   list-all name of its content: under n, after whatever the content already stored under n, comes the element's token
   list as a fresh results object WITHOUT the inner names; every other name of the content stays visible beside it *)
Lemma init_list_name p n c k :
  let nm := c :: n in
  name_in nm (allnames p) = false ->
  mm_values (view (pr_init (RPR p) (Some nm) true true)) k =
  if str_eqb nm k then mm_values (view p) k ++ [VPR (map tview (toks p)) [] []] else mm_values (view p) k.
Proof.
  cbv zeta. intros NI. unfold pr_init, pr_init_gen. cbn [pr_new raw_is_null].
  set (nm := c :: n). cbn [toks dict allnames rname].
  unfold set_last_value_name. cbn [allnames pr_setname]. fold nm in NI. rewrite !NI.
  unfold pr_setname. cbn [dict toks allnames rname modal]. rewrite dict_get_set_same. rewrite rev_app_distr. cbn [rev app].
  rewrite rev_involutive. cbn [toks dict allnames rname modal].
  unfold mm_values. rewrite !view_eq. cbn [av_map dict]. rewrite !dict_get_view.
  destruct (str_eqb nm k) eqn:E.
  - apply str_eqb_eq in E. subst k. rewrite dict_get_set_same. cbn [option_map].
    unfold occ_view. rewrite map_app. cbn [map fst tview set_rname toks dict allnames pr_of_list].
    destruct (dict_get (dict p) nm); reflexivity.
  - rewrite !dict_get_set_other by exact E. reflexivity.
Qed.

(* ---- scoping ---- *)
(* Group: the content's results object becomes ONE nested token; nothing of its names is visible at the group's level *)
Lemma group_scope a i c p asl m :
  let r := pr_init (post_parse (Enh a i (EGroup false) c) (RPR p)) None asl m in
  toks r = [TPR p] /\ dict r = [] /\ allnames r = [].
Proof. cbv zeta. repeat split. Qed.

(* an optional that did not match and has no default contributes no token and no name, whatever name it carries *)
Lemma opt_unmatched_silent nm asl m :
  let r := pr_init (RList []) nm asl m in toks r = [] /\ dict r = [].
Proof. cbv zeta. unfold pr_init, pr_init_gen. destruct nm as [[|c n]|]; repeat split. Qed.

(* MatchFirst: alternatives that failed leave no trace in the result; it is exactly the first successful alternative's *)
Lemma mf_failed_silent rec k e s loc d c rest best x :
  rec (mkargs c s loc d true) = Some (Err x) -> is_pe (xk x) = true ->
  run rec (mf_go k e s loc d (c :: rest) best) = run rec (mf_go k e s loc d rest (better best x)).
Proof.
  intros Hr Hx. cbn [mf_go]. unfold call. cbn [run]. rewrite Hr.
  assert (is_fatal (xk x) = false) as -> by (destruct (xk x); simpl in *; congruence). rewrite Hx. reflexivity.
Qed.

Lemma mf_success rec k e s loc d c rest best l r :
  rec (mkargs c s loc d true) = Some (Ok l r) ->
  run rec (mf_go k e s loc d (c :: rest) best) = run rec (k (inr (l, RPR r))).
Proof. intros Hr. cbn [mf_go]. unfold call. cbn [run]. rewrite Hr. reflexivity. Qed.
