(* C15 — proofs about the interleaving model Model/Threads.v, generic in `step` (any element semantics),
   for any number of threads, any thread programs and any schedule. *)
From Coq Require Import List Arith Bool Lia.
From PP Require Import Model.Prog Model.Threads Proofs.Packrat.
Import ListNotations.

(* ---------- list helpers ---------- *)
Lemma nth_error_upd_eq {T} (l : list T) i x y : nth_error l i = Some y -> nth_error (upd l i x) i = Some x.
Proof. revert i; induction l as [|z l IH]; intros [|i]; simpl; try discriminate; auto. Qed.

Lemma nth_error_upd_neq {T} (l : list T) i j x : i <> j -> nth_error (upd l i x) j = nth_error l j.
Proof.
  revert i j; induction l as [|z l IH]; intros [|i] [|j] H; simpl; auto; try lia.
Qed.

Lemma length_upd {T} (l : list T) i x : length (upd l i x) = length l.
Proof. revert i; induction l as [|z l IH]; intros [|i]; simpl; auto. Qed.

Lemma Forall2_nth {T U} (R : T -> U -> Prop) l1 l2 : Forall2 R l1 l2 ->
  forall i y, nth_error l2 i = Some y -> exists x, nth_error l1 i = Some x /\ R x y.
Proof.
  induction 1 as [|x y l1 l2 Hxy _ IH]; intros [|i] z; simpl; try discriminate.
  - intros [= <-]. eauto.
  - apply IH.
Qed.

Lemma Forall2_upd {T U} (R : T -> U -> Prop) l1 l2 : Forall2 R l1 l2 ->
  forall i x y, nth_error l1 i = Some x -> R x y -> Forall2 R l1 (upd l2 i y).
Proof.
  induction 1 as [|x0 y0 l1 l2 Hxy H IH]; intros [|i] x y; simpl; try discriminate.
  - intros [= <-] Hr. constructor; assumption.
  - intros Hn Hr. constructor; [assumption|]. eapply IH; eassumption.
Qed.

Lemma forallb_false_nth {T} (f : T -> bool) l : forallb f l = false ->
  exists i x, nth_error l i = Some x /\ f x = false.
Proof.
  induction l as [|y l IH]; simpl; [discriminate|].
  destruct (f y) eqn:E; simpl.
  - intros H. destruct (IH H) as (i & x & Hn & Hf). exists (S i), x. auto.
  - intros _. exists 0, y. auto.
Qed.

Section PackratThreads.
  Variables A O : Type.
  Variable step : A -> prog A O.
  Variable A_eqb : A -> A -> bool.
  Hypothesis A_eqb_spec : forall a b, A_eqb a b = true -> a = b.
  Variable size : option nat.
  Variable entry : A -> bool.
  Variable cacheable : O -> bool.
  Variable memo_on : bool.

  Notation parse := (parse step).
  Notation okm := (okm A O step).
  Notation tstep := (tstep A O step A_eqb size entry cacheable memo_on).
  Notation cstep := (cstep A O step A_eqb size entry cacheable memo_on).
  Notation exec := (exec A O step A_eqb size entry cacheable memo_on).
  Notation trace := (trace A O step A_eqb size entry cacheable memo_on).
  Notation thread := (thread A O).
  Notation config := (config A O).

  (* ---------- plain (serial, cache-free) meaning of a program ---------- *)
  Definition sem (p : prog A O) (o : O) : Prop := exists f, run (parse f) p = Some o.
  Definition refines (p q : prog A O) : Prop := forall o, sem p o -> sem q o.

  Lemma run_parse_mono f f' p o : f <= f' -> run (parse f) p = Some o -> run (parse f') p = Some o.
  Proof.
    intros Hle. apply (run_mono A O). intros a oa Ha. eapply (parse_mono A O step); eassumption.
  Qed.

  Lemma sem_det p o1 o2 : sem p o1 -> sem p o2 -> o1 = o2.
  Proof.
    intros [f1 H1] [f2 H2].
    apply (run_parse_mono f1 (Nat.max f1 f2)) in H1; [|lia].
    apply (run_parse_mono f2 (Nat.max f1 f2)) in H2; [|lia]. congruence.
  Qed.

  Lemma sem_ret o : sem (Ret o) o.
  Proof. exists 0. reflexivity. Qed.

  Lemma sem_step_parse a o : sem (step a) o -> exists f, parse f a = Some o.
  Proof. intros [f H]. exists (S f). exact H. Qed.

  Lemma refines_refl p : refines p p.
  Proof. intros o H; exact H. Qed.

  (* once the callee's plain answer is o, continuing with (k o) is what the caller does *)
  Lemma refines_cont a k o : (exists f, parse f a = Some o) -> refines (k o) (Call a k).
  Proof.
    intros [f1 H1] o' [f2 H2]. exists (Nat.max f1 f2). simpl.
    rewrite (parse_mono A O step f1 a o H1 (Nat.max f1 f2)) by lia.
    eapply run_parse_mono; [|exact H2]. lia.
  Qed.

  (* ---------- per-thread invariant: the frame stack is a correct partial evaluation of the thread's program p0:
       what is being evaluated on top refines `step a` of the innermost pending call a, and the suspended caller
       `Call a k` stands in the same relation to the rest of the stack ---------- *)
  Fixpoint inv (p0 p : prog A O) (st : list (frame A O)) : Prop :=
    match st with
    | [] => refines p p0
    | FCache a k :: st' => refines p (step a) /\ inv p0 (Call a k) st'
    | FPlain a k :: st' => refines p (step a) /\ inv p0 (Call a k) st'
    end.

  Definition ctl_prog (c : ctl A O) : prog A O :=
    match c with
    | Run p => p | Rel p => p
    | RstClear a k => Call a k | RstClearM a k => Call a k | RstRel a k => Call a k | Get a k => Call a k
    end.

  Definition thread_ok (p0 : prog A O) (th : thread) : Prop := inv p0 (ctl_prog (t_ctl th)) (t_stack th).

  Lemma inv_mono p0 p q st : refines p q -> inv p0 q st -> inv p0 p st.
  Proof.
    destruct st as [|[a k|a k] st]; simpl.
    - intros H1 H2 o Ho. apply H2, H1, Ho.
    - intros H1 [H2 H3]. split; [|exact H3]. intros o Ho. apply H2, H1, Ho.
    - intros H1 [H2 H3]. split; [|exact H3]. intros o Ho. apply H2, H1, Ho.
  Qed.

  (* one step of one thread keeps the cache invariant and that thread's invariant; it does not depend on
     who owns the lock: foreign entries and foreign clears are harmless because `okm` is all a hit relies on *)
  Lemma tstep_inv t p0 th c ow n th' c' ow' n' e :
    okm c -> thread_ok p0 th ->
    tstep t th c ow n = (th', c', ow', n', e) ->
    okm c' /\ thread_ok p0 th'.
  Proof.
    intros Hc Hth. unfold Threads.tstep, thread_ok in *.
    destruct th as [cl st]; simpl in *.
    destruct cl as [[o|a k]|a k|a k|a k|a k|p]; simpl in *.
    - (* Run (Ret o) *)
      destruct st as [|[a k|a k] st'].
      + intros [= <- <- <- <- <-]. split; assumption.
      + destruct Hth as [H1 H2].
        assert (Hp : exists f, parse f a = Some o) by (apply sem_step_parse, H1, sem_ret).
        destruct (cacheable o); intros [= <- <- <- <- <-]; simpl.
        * split; [apply (okm_set A O step A_eqb A_eqb_spec size); assumption|].
          eapply inv_mono; [apply refines_cont; exact Hp|exact H2].
        * split; [assumption|]. eapply inv_mono; [apply refines_cont; exact Hp|exact H2].
      + destruct Hth as [H1 H2].
        assert (Hp : exists f, parse f a = Some o) by (apply sem_step_parse, H1, sem_ret).
        intros [= <- <- <- <- <-]; simpl. split; [assumption|].
        eapply inv_mono; [apply refines_cont; exact Hp|exact H2].
    - (* Run (Call a k) *)
      destruct (entry a || memo_on).
      + destruct (can_acq ow t); intros [= <- <- <- <- <-]; simpl; [|split; assumption].
        split; [assumption|]. destruct (entry a); simpl; exact Hth.
      + intros [= <- <- <- <- <-]; simpl. split; [assumption|]. split; [apply refines_refl|exact Hth].
    - (* RstClear: the clear *)
      intros [= <- <- <- <- <-]; simpl. split; [apply okm_nil|exact Hth].
    - (* RstClearM *)
      intros [= <- <- <- <- <-]; simpl. split; [assumption|exact Hth].
    - (* RstRel *)
      destruct (release ow n) as [ow1 n1]. intros [= <- <- <- <- <-]; simpl.
      split; [assumption|]. split; [apply refines_refl|exact Hth].
    - (* Get *)
      destruct (lookup A_eqb c a) as [o|] eqn:El; intros [= <- <- <- <- <-]; simpl.
      + split; [assumption|]. eapply inv_mono; [|exact Hth]. apply refines_cont.
        apply Hc. eapply lookup_in; eassumption.
      + split; [assumption|]. split; [apply refines_refl|exact Hth].
    - (* Rel *)
      destruct (release ow n) as [ow1 n1]. intros [= <- <- <- <- <-]; simpl. split; assumption.
  Qed.

  Definition global_ok (progs : list (prog A O)) (cf : config) : Prop :=
    okm (c_cache cf) /\ Forall2 thread_ok progs (c_threads cf).

  Lemma cstep_ok progs t cf : global_ok progs cf -> global_ok progs (fst (cstep t cf)).
  Proof.
    intros [Hc Hf]. unfold Threads.cstep.
    destruct (nth_error (c_threads cf) t) as [th|] eqn:En; [|split; assumption].
    destruct (Forall2_nth _ _ _ Hf t th En) as (p0 & Hp0 & Hth).
    destruct (tstep t th (c_cache cf) (c_owner cf) (c_count cf)) as [[[[th' c'] ow'] n'] e] eqn:Et.
    destruct (tstep_inv _ _ _ _ _ _ _ _ _ _ _ Hc Hth Et) as [Hc' Hth']. simpl.
    split; [exact Hc'|]. eapply Forall2_upd; eassumption.
  Qed.

  Lemma exec_ok progs sched : forall cf, global_ok progs cf -> global_ok progs (exec sched cf).
  Proof. induction sched as [|t s IH]; intros cf H; simpl; [exact H|]. apply IH, cstep_ok, H. Qed.

  Lemma init_ok c0 progs : okm c0 -> global_ok progs (init c0 progs).
  Proof.
    intros Hc. split; [exact Hc|]. unfold init; simpl.
    induction progs as [|p ps IH]; simpl; constructor; [|exact IH].
    unfold thread_ok; simpl. apply refines_refl.
  Qed.

  (* C15_packrat_schedules *)
  Theorem schedules_serial : forall (progs : list (prog A O)) (c0 : cache A O) (sched : list tid) (t : tid) (p : prog A O) (o : O),
    okm c0 ->
    nth_error progs t = Some p ->
    finished (exec sched (init c0 progs)) t = Some o ->
    exists f, run (parse f) p = Some o.
  Proof.
    intros progs c0 sched t p o Hc Hp Hfin.
    destruct (exec_ok progs sched _ (init_ok c0 progs Hc)) as [_ Hf].
    unfold finished in Hfin.
    destruct (nth_error (c_threads (exec sched (init c0 progs))) t) as [th|] eqn:En; [|discriminate].
    destruct (Forall2_nth _ _ _ Hf t th En) as (p0 & Hp0 & Hth).
    assert (p0 = p) by congruence. subst p0.
    unfold result_of in Hfin. unfold thread_ok in Hth.
    destruct th as [[[o1|a k]|a k|a k|a k|a k|p1] [|fr st]]; simpl in *; try discriminate.
    injection Hfin as ->. apply Hth, sem_ret.
  Qed.

  (* the same call run concurrently (any company, any schedule) and run alone (any schedule of the one thread)
     finish with the same outcome *)
  Theorem concurrent_eq_alone : forall progs c0 c1 sched sched1 t p o o1,
    okm c0 -> okm c1 ->
    nth_error progs t = Some p ->
    finished (exec sched (init c0 progs)) t = Some o ->
    finished (exec sched1 (init c1 [p])) 0 = Some o1 ->
    o = o1.
  Proof.
    intros progs c0 c1 sched sched1 t p o o1 H0 H1 Hp Hf Hf1.
    eapply sem_det.
    - eapply (schedules_serial progs c0 sched t p o); assumption.
    - eapply (schedules_serial [p] c1 sched1 0 p o1); [assumption|reflexivity|assumption].
  Qed.

  (* ---------- lock discipline ---------- *)
  Definition lock_inv (cf : config) : Prop :=
    match c_owner cf with
    | None => c_count cf = 0 /\ forall t th, nth_error (c_threads cf) t = Some th -> holds th = 0
    | Some u => c_count cf > 0 /\
                (exists th, nth_error (c_threads cf) u = Some th /\ holds th = c_count cf) /\
                forall t th, t <> u -> nth_error (c_threads cf) t = Some th -> holds th = 0
    end.

  (* effect of one thread step on the lock and on how often the thread is inside a with-block *)
  Lemma tstep_lock t th c ow n th' c' ow' n' e :
    tstep t th c ow n = (th', c', ow', n', e) ->
    match e with
    | EAcq => can_acq ow t = true /\ ow' = Some t /\ n' = S n /\ holds th' = S (holds th)
    | ERel => (ow', n') = release ow n /\ holds th = S (holds th')
    | EGet _ | ESet | EClear | EMClear => ow' = ow /\ n' = n /\ holds th' = holds th /\ holds th >= 1
    | EBlock => can_acq ow t = false /\ ow' = ow /\ n' = n /\ th' = th /\ c' = c
    | EDone => result_of th <> None /\ ow' = ow /\ n' = n /\ th' = th /\ c' = c
    | ETau => ow' = ow /\ n' = n /\ holds th' = holds th /\ result_of th = None
    | _ => False
    end.
  Proof.
    unfold Threads.tstep, holds. destruct th as [cl st]; simpl.
    destruct cl as [[o|a k]|a k|a k|a k|a k|p]; simpl.
    - destruct st as [|[a k|a k] st'].
      + intros [= <- <- <- <- <-]. simpl. repeat split; discriminate.
      + destruct (cacheable o); intros [= <- <- <- <- <-]; simpl; repeat split; lia.
      + intros [= <- <- <- <- <-]; simpl; repeat split; lia.
    - destruct (entry a || memo_on).
      + destruct (can_acq ow t) eqn:Ec; intros [= <- <- <- <- <-]; simpl; [|repeat split; assumption].
        repeat split; destruct (entry a); simpl; lia.
      + intros [= <- <- <- <- <-]; simpl; repeat split; lia.
    - intros [= <- <- <- <- <-]; simpl; repeat split; lia.
    - intros [= <- <- <- <- <-]; simpl; repeat split; lia.
    - destruct (release ow n) as [ow1 n1] eqn:Er. intros [= <- <- <- <- <-]; simpl. split; [reflexivity|lia].
    - destruct (lookup A_eqb c a); intros [= <- <- <- <- <-]; simpl; repeat split; lia.
    - destruct (release ow n) as [ow1 n1] eqn:Er. intros [= <- <- <- <- <-]; simpl. split; [reflexivity|lia].
  Qed.

  Lemma can_acq_other u t : can_acq (Some u) t = true -> u = t.
  Proof. simpl. apply Nat.eqb_eq. Qed.

  Lemma cstep_lock_inv t cf : lock_inv cf -> lock_inv (fst (cstep t cf)).
  Proof.
    intros HL. unfold Threads.cstep.
    destruct (nth_error (c_threads cf) t) as [th|] eqn:En; [|exact HL].
    destruct (tstep t th (c_cache cf) (c_owner cf) (c_count cf)) as [[[[th' c'] ow'] n'] e] eqn:Et.
    pose proof (tstep_lock _ _ _ _ _ _ _ _ _ _ Et) as HT. simpl.
    unfold lock_inv in *. simpl.
    assert (Hsame : ow' = c_owner cf -> n' = c_count cf -> holds th' = holds th ->
      match ow' with
      | None => n' = 0 /\ forall t0 th0, nth_error (upd (c_threads cf) t th') t0 = Some th0 -> holds th0 = 0
      | Some u => n' > 0 /\ (exists th0, nth_error (upd (c_threads cf) t th') u = Some th0 /\ holds th0 = n') /\
                  forall t0 th0, t0 <> u -> nth_error (upd (c_threads cf) t th') t0 = Some th0 -> holds th0 = 0
      end).
    { intros -> -> Hh. destruct (c_owner cf) as [u|].
      - destruct HL as (Hn & (thu & Hu & Hhu) & Hoth). split; [exact Hn|]. split.
        + destruct (Nat.eq_dec t u) as [->|Hne].
          * exists th'. split; [eapply nth_error_upd_eq; eassumption|]. rewrite Hh. congruence.
          * exists thu. split; [rewrite nth_error_upd_neq by assumption; exact Hu|exact Hhu].
        + intros t0 th0 Hne H0. destruct (Nat.eq_dec t t0) as [<-|Hne'].
          * rewrite (nth_error_upd_eq _ _ _ _ En) in H0. injection H0 as <-. rewrite Hh. eapply Hoth; eassumption.
          * rewrite nth_error_upd_neq in H0 by assumption. eapply Hoth; eassumption.
      - destruct HL as (Hn & Hall). split; [exact Hn|]. intros t0 th0 H0.
        destruct (Nat.eq_dec t t0) as [<-|Hne'].
        + rewrite (nth_error_upd_eq _ _ _ _ En) in H0. injection H0 as <-. rewrite Hh. eapply Hall; eassumption.
        + rewrite nth_error_upd_neq in H0 by assumption. eapply Hall; eassumption. }
    destruct e; try (destruct HT as (H1 & H2 & H3 & _); apply Hsame; assumption); try contradiction.
    - (* EAcq *)
      destruct HT as (Hca & -> & -> & Hh). split; [lia|]. split.
      + exists th'. split; [eapply nth_error_upd_eq; eassumption|].
        destruct (c_owner cf) as [u|].
        * apply can_acq_other in Hca. subst u. destruct HL as (_ & (thu & Hu & Hhu) & _).
          assert (thu = th) by congruence. subst thu. lia.
        * destruct HL as (Hn & Hall). rewrite (Hall _ _ En) in Hh. lia.
      + intros t0 th0 Hne H0. rewrite nth_error_upd_neq in H0 by auto.
        destruct (c_owner cf) as [u|].
        * apply can_acq_other in Hca. subst u. destruct HL as (_ & _ & Hoth). eapply Hoth; eassumption.
        * destruct HL as (_ & Hall). eapply Hall; eassumption.
    - (* ERel *)
      destruct HT as (Hrel & Hh).
      destruct (c_owner cf) as [u|].
      + destruct HL as (Hn & (thu & Hu & Hhu) & Hoth).
        destruct (Nat.eq_dec t u) as [->|Hne]; [|rewrite (Hoth _ _ Hne En) in Hh; lia].
        assert (thu = th) by congruence. subst thu.
        unfold release in Hrel. destruct (c_count cf) as [|[|m]] eqn:Ecnt; [lia| |].
        * injection Hrel as -> ->. split; [reflexivity|]. intros t0 th0 H0.
          destruct (Nat.eq_dec u t0) as [<-|Hne'].
          -- rewrite (nth_error_upd_eq _ _ _ _ En) in H0. injection H0 as <-. lia.
          -- rewrite nth_error_upd_neq in H0 by assumption. eapply Hoth; [|eassumption]. auto.
        * injection Hrel as -> ->. split; [lia|]. split.
          -- exists th'. split; [eapply nth_error_upd_eq; eassumption|lia].
          -- intros t0 th0 Hne' H0. rewrite nth_error_upd_neq in H0 by auto. eapply Hoth; eassumption.
      + destruct HL as (Hn & Hall). rewrite (Hall _ _ En) in Hh. lia.
    - (* EBlock *)
      destruct HT as (_ & -> & -> & -> & _). apply Hsame; reflexivity.
    - (* EDone *)
      destruct HT as (_ & -> & -> & -> & _). apply Hsame; reflexivity.
  Qed.

  Lemma exec_lock_inv sched : forall cf, lock_inv cf -> lock_inv (exec sched cf).
  Proof. induction sched as [|t s IH]; intros cf H; simpl; [exact H|]. apply IH, cstep_lock_inv, H. Qed.

  Lemma init_lock_inv c0 progs : lock_inv (init c0 progs).
  Proof.
    unfold lock_inv, init; simpl. split; [reflexivity|]. intros t th H.
    apply nth_error_In, in_map_iff in H. destruct H as (p & <- & _). reflexivity.
  Qed.

  Definition reachable (c0 : cache A O) (progs : list (prog A O)) (cf : config) : Prop :=
    exists sched, cf = exec sched (init c0 progs).

  Lemma reachable_lock_inv c0 progs cf : reachable c0 progs cf -> lock_inv cf.
  Proof. intros [s ->]. apply exec_lock_inv, init_lock_inv. Qed.

  Definition touches_cache (e : ev) : bool :=
    match e with EGet _ | ESet | EClear | EMClear | ERel => true | _ => false end.

  (* (1) whoever reads, writes or clears the cache, or releases the lock, is the lock owner *)
  Theorem discipline_owner c0 progs cf t :
    reachable c0 progs cf -> touches_cache (snd (cstep t cf)) = true -> c_owner cf = Some t.
  Proof.
    intros Hr. apply reachable_lock_inv in Hr. unfold Threads.cstep.
    destruct (nth_error (c_threads cf) t) as [th|] eqn:En; [|discriminate].
    destruct (tstep t th (c_cache cf) (c_owner cf) (c_count cf)) as [[[[th' c'] ow'] n'] e] eqn:Et.
    pose proof (tstep_lock _ _ _ _ _ _ _ _ _ _ Et) as HT. simpl. intros He.
    assert (Hh : holds th >= 1) by (destruct e; try discriminate; intuition lia).
    unfold lock_inv in Hr. destruct (c_owner cf) as [u|].
    - destruct Hr as (_ & _ & Hoth). destruct (Nat.eq_dec t u) as [->|Hne]; [reflexivity|].
      rewrite (Hoth _ _ Hne En) in Hh. lia.
    - destruct Hr as (_ & Hall). rewrite (Hall _ _ En) in Hh. lia.
  Qed.

  (* (2) mutual exclusion: at most one thread is inside a `with packrat_cache_lock:` block *)
  Theorem discipline_exclusive c0 progs cf t1 t2 th1 th2 :
    reachable c0 progs cf ->
    nth_error (c_threads cf) t1 = Some th1 -> nth_error (c_threads cf) t2 = Some th2 ->
    holds th1 >= 1 -> holds th2 >= 1 -> t1 = t2.
  Proof.
    intros Hr H1 H2 G1 G2. apply reachable_lock_inv in Hr. unfold lock_inv in Hr.
    destruct (c_owner cf) as [u|].
    - destruct Hr as (_ & _ & Hoth).
      destruct (Nat.eq_dec t1 u) as [->|N1]; [|rewrite (Hoth _ _ N1 H1) in G1; lia].
      destruct (Nat.eq_dec t2 u) as [->|N2]; [reflexivity|rewrite (Hoth _ _ N2 H2) in G2; lia].
    - destruct Hr as (_ & Hall). rewrite (Hall _ _ H1) in G1. lia.
  Qed.

  Lemma holds_finished (th : thread) : result_of th <> None -> holds th = 0.
  Proof.
    unfold result_of, holds. destruct th as [[[o|a k]|a k|a k|a k|a k|p] [|fr st]]; simpl; congruence.
  Qed.

  (* (3) no deadlock: in every reachable configuration either every thread has finished or some unfinished
         thread can take a real step (not blocked) *)
  Theorem no_deadlock c0 progs cf :
    reachable c0 progs cf ->
    all_finished cf = true \/
    exists t th, nth_error (c_threads cf) t = Some th /\ result_of th = None /\
                 snd (cstep t cf) <> EBlock /\ snd (cstep t cf) <> EDone.
  Proof.
    intros Hr. apply reachable_lock_inv in Hr. unfold lock_inv in Hr.
    assert (Hstep : forall t th, nth_error (c_threads cf) t = Some th -> result_of th = None ->
                     can_acq (c_owner cf) t = true ->
                     snd (cstep t cf) <> EBlock /\ snd (cstep t cf) <> EDone).
    { intros t th En Hres Hca. unfold Threads.cstep. rewrite En.
      destruct (tstep t th (c_cache cf) (c_owner cf) (c_count cf)) as [[[[th' c'] ow'] n'] e] eqn:Et.
      pose proof (tstep_lock _ _ _ _ _ _ _ _ _ _ Et) as HT. simpl.
      destruct e; split; try discriminate; intros _.
      - destruct HT as (Hb & _). congruence.
      - destruct HT as (Hd & _). congruence. }
    destruct (c_owner cf) as [u|] eqn:Eo.
    - right. destruct Hr as (Hn & (thu & Hu & Hhu) & _). exists u, thu.
      assert (Hres : result_of thu = None).
      { destruct (result_of thu) eqn:Er; [|reflexivity].
        assert (holds thu = 0) by (apply holds_finished; congruence). lia. }
      split; [exact Hu|]. split; [exact Hres|]. apply (Hstep u thu Hu Hres). simpl. apply Nat.eqb_refl.
    - destruct (all_finished cf) eqn:Ef; [left; reflexivity|right].
      unfold all_finished in Ef. apply forallb_false_nth in Ef. destruct Ef as (t & th & En & Hf).
      exists t, th. assert (Hres : result_of th = None) by (destruct (result_of th); [discriminate|reflexivity]).
      split; [exact En|]. split; [exact Hres|]. apply (Hstep t th En Hres). reflexivity.
  Qed.

  (* ---------- a nested reset (parse_string called from a parse action inside an outer `_parseCache`):
       it happens while this thread owns the lock, empties the cache the outer parse was filling, and the
       configuration stays good (so outcomes are unaffected, by schedules_serial) ---------- *)
  Theorem nested_reset_harmless c0 progs cf t th a k :
    okm c0 -> reachable c0 progs cf ->
    nth_error (c_threads cf) t = Some th -> t_ctl th = RstClear a k ->
    c_owner cf = Some t /\ c_count cf = S (stack_holds (t_stack th)) /\
    c_cache (fst (cstep t cf)) = [] /\ global_ok progs (fst (cstep t cf)).
  Proof.
    intros Hc Hr En Hctl.
    assert (Hg : global_ok progs (fst (cstep t cf))).
    { destruct Hr as [s ->]. apply cstep_ok, exec_ok, init_ok, Hc. }
    pose proof (reachable_lock_inv _ _ _ Hr) as HL. unfold lock_inv in HL.
    assert (Hh : holds th = S (stack_holds (t_stack th))) by (unfold holds; rewrite Hctl; reflexivity).
    assert (Ho : c_owner cf = Some t /\ c_count cf = S (stack_holds (t_stack th))).
    { destruct (c_owner cf) as [u|].
      - destruct HL as (_ & (thu & Hu & Hhu) & Hoth).
        destruct (Nat.eq_dec t u) as [->|Hne]; [|rewrite (Hoth _ _ Hne En) in Hh; lia].
        assert (thu = th) by congruence. subst thu. split; [reflexivity|lia].
      - destruct HL as (_ & Hall). rewrite (Hall _ _ En) in Hh. lia. }
    destruct Ho as [Ho1 Ho2]. repeat split; try assumption; try apply Hg.
    unfold Threads.cstep. rewrite En. unfold Threads.tstep. rewrite Hctl. reflexivity.
  Qed.

  (* ---------- without memoization nothing but the (briefly held) lock is shared ---------- *)
  Lemma tstep_nomemo t th c ow n th' c' ow' n' e :
    memo_on = false -> c = [] ->
    (forall fr, In fr (t_stack th) -> match fr with FCache _ _ => False | FPlain _ _ => True end) ->
    (match t_ctl th with Get _ _ | Rel _ => False | _ => True end) ->
    tstep t th c ow n = (th', c', ow', n', e) ->
    c' = [] /\
    (forall fr, In fr (t_stack th') -> match fr with FCache _ _ => False | FPlain _ _ => True end) /\
    (match t_ctl th' with Get _ _ | Rel _ => False | _ => True end) /\
    (match e with EGet _ | ESet => False | _ => True end).
  Proof.
    intros Hm -> Hst Hctl. unfold Threads.tstep. destruct th as [cl st]; simpl in *.
    destruct cl as [[o|a k]|a k|a k|a k|a k|p]; simpl; try contradiction.
    - destruct st as [|[a k|a k] st'].
      + intros [= <- <- <- <- <-]; simpl; auto.
      + exfalso. apply (Hst (FCache a k)). now left.
      + intros [= <- <- <- <- <-]; simpl. repeat split; auto. intros fr Hin. apply Hst. now right.
    - rewrite Hm, orb_false_r. destruct (entry a) eqn:Ee.
      + destruct (can_acq ow t); intros [= <- <- <- <- <-]; simpl; auto.
      + intros [= <- <- <- <- <-]; simpl. repeat split; auto.
        intros fr [<-|Hin]; [exact I|apply Hst, Hin].
    - intros [= <- <- <- <- <-]; simpl; auto.
    - intros [= <- <- <- <- <-]; simpl; auto.
    - destruct (release ow n). intros [= <- <- <- <- <-]; simpl. repeat split; auto.
      intros fr [<-|Hin]; [exact I|apply Hst, Hin].
  Qed.

  Definition nomemo_ok (cf : config) : Prop :=
    c_cache cf = [] /\
    forall t th, nth_error (c_threads cf) t = Some th ->
      (forall fr, In fr (t_stack th) -> match fr with FCache _ _ => False | FPlain _ _ => True end) /\
      (match t_ctl th with Get _ _ | Rel _ => False | _ => True end).

  Lemma cstep_nomemo t cf : memo_on = false -> nomemo_ok cf ->
    nomemo_ok (fst (cstep t cf)) /\ (match snd (cstep t cf) with EGet _ | ESet => False | _ => True end).
  Proof.
    intros Hm [Hc Hall]. unfold Threads.cstep.
    destruct (nth_error (c_threads cf) t) as [th|] eqn:En; [|split; [split; assumption|exact I]].
    destruct (tstep t th (c_cache cf) (c_owner cf) (c_count cf)) as [[[[th' c'] ow'] n'] e] eqn:Et.
    destruct (Hall _ _ En) as [H1 H2].
    destruct (tstep_nomemo _ _ _ _ _ _ _ _ _ _ Hm Hc H1 H2 Et) as (Hc' & H1' & H2' & He). simpl.
    split; [|exact He]. split; [exact Hc'|]. simpl. intros t0 th0 H0.
    destruct (Nat.eq_dec t t0) as [<-|Hne].
    - rewrite (nth_error_upd_eq _ _ _ _ En) in H0. injection H0 as <-. split; assumption.
    - rewrite nth_error_upd_neq in H0 by assumption. apply Hall with t0. exact H0.
  Qed.

  Theorem nomemo_shares_nothing : memo_on = false -> forall progs sched,
    c_cache (exec sched (init [] progs)) = [] /\
    forall t e, In (t, e) (trace sched (init [] progs)) -> match e with EGet _ | ESet => False | _ => True end.
  Proof.
    intros Hm progs sched.
    assert (H0 : nomemo_ok (init [] progs)).
    { split; [reflexivity|]. intros t th H. apply nth_error_In in H. unfold init in H; simpl in H.
      apply in_map_iff in H. destruct H as (p & <- & _). simpl. split; [intros fr []|exact I]. }
    revert H0. generalize (init [] progs). induction sched as [|t s IH]; intros cf Hcf; simpl.
    - split; [apply Hcf|intros t e []].
    - destruct (cstep_nomemo t cf Hm Hcf) as [Hn He]. destruct (IH _ Hn) as [IH1 IH2].
      split; [exact IH1|]. intros t0 e [[= <- <-]|Hin]; [exact He|eapply IH2; exact Hin].
  Qed.
  (* ---------- schedules at the granularity of visible operations (what the replay harness drives) are schedules:
       so everything proved for `exec` holds for the configurations `vtrace` goes through ---------- *)
  Lemma exec_app s1 : forall s2 cf, exec (s1 ++ s2) cf = exec s2 (exec s1 cf).
  Proof. induction s1 as [|t s IH]; intros s2 cf; simpl; [reflexivity|apply IH]. Qed.

  Lemma vstep_exec fuel : forall t cf,
    exists n, fst (vstep A O step A_eqb size entry cacheable memo_on fuel t cf) = exec (repeat t n) cf.
  Proof.
    induction fuel as [|f IH]; intros t cf; simpl; [exists 0; reflexivity|].
    destruct (cstep t cf) as [cf' e] eqn:Ec.
    assert (E1 : cf' = fst (cstep t cf)) by (rewrite Ec; reflexivity).
    destruct e; try (exists 1; simpl; rewrite <- E1; reflexivity).
    destruct (IH t cf') as [n Hn]. exists (S n). simpl. rewrite <- E1. exact Hn.
  Qed.

  Lemma vtrace_exec fuel sched : forall cf,
    exists s, snd (vtrace A O step A_eqb size entry cacheable memo_on fuel sched cf) = exec s cf.
  Proof.
    induction sched as [|t s' IH]; intros cf; simpl; [exists []; reflexivity|].
    destruct (vstep A O step A_eqb size entry cacheable memo_on fuel t cf) as [cf' e] eqn:Ev.
    destruct (vstep_exec fuel t cf) as [n Hn]. rewrite Ev in Hn. simpl in Hn.
    destruct (IH cf') as [s2 H2].
    destruct (vtrace A O step A_eqb size entry cacheable memo_on fuel s' cf') as [tr cf''] eqn:Et. simpl in *.
    exists (repeat t n ++ s2). rewrite exec_app, <- Hn. exact H2.
  Qed.
End PackratThreads.

(* ================================================================================================
   Left-recursion mode machine: two locks.  Lock invariants, the lock order, no deadlock.
   (Outcome correctness does NOT hold in this mode: see the refutation witness in Props/C15.v.)
   ================================================================================================ *)
Section LockInv.
  Context {T : Type} (h : T -> nat).

  Definition linv (ths : list T) (ow : option tid) (n : nat) : Prop :=
    match ow with
    | None => n = 0 /\ forall t th, nth_error ths t = Some th -> h th = 0
    | Some u => n > 0 /\ (exists th, nth_error ths u = Some th /\ h th = n) /\
                forall t th, t <> u -> nth_error ths t = Some th -> h th = 0
    end.

  Lemma linv_same ths ow n t th th' :
    linv ths ow n -> nth_error ths t = Some th -> h th' = h th -> linv (upd ths t th') ow n.
  Proof.
    intros HL En Hh. unfold linv in *. destruct ow as [u|].
    - destruct HL as (Hn & (thu & Hu & Hhu) & Hoth). split; [exact Hn|]. split.
      + destruct (Nat.eq_dec t u) as [->|Hne].
        * exists th'. split; [eapply nth_error_upd_eq; eassumption|]. rewrite Hh. congruence.
        * exists thu. split; [rewrite nth_error_upd_neq by assumption; exact Hu|exact Hhu].
      + intros t0 th0 Hne H0. destruct (Nat.eq_dec t t0) as [<-|Hne'].
        * rewrite (nth_error_upd_eq _ _ _ _ En) in H0. injection H0 as <-. rewrite Hh. eapply Hoth; eassumption.
        * rewrite nth_error_upd_neq in H0 by assumption. eapply Hoth; eassumption.
    - destruct HL as (Hn & Hall). split; [exact Hn|]. intros t0 th0 H0.
      destruct (Nat.eq_dec t t0) as [<-|Hne'].
      + rewrite (nth_error_upd_eq _ _ _ _ En) in H0. injection H0 as <-. rewrite Hh. eapply Hall; eassumption.
      + rewrite nth_error_upd_neq in H0 by assumption. eapply Hall; eassumption.
  Qed.

  Lemma linv_acq ths ow n t th th' :
    linv ths ow n -> nth_error ths t = Some th -> can_acq ow t = true -> h th' = S (h th) ->
    linv (upd ths t th') (Some t) (S n).
  Proof.
    intros HL En Hca Hh. unfold linv in *. split; [lia|]. split.
    - exists th'. split; [eapply nth_error_upd_eq; eassumption|].
      destruct ow as [u|].
      + simpl in Hca. apply Nat.eqb_eq in Hca. subst u. destruct HL as (_ & (thu & Hu & Hhu) & _).
        assert (thu = th) by congruence. subst thu. lia.
      + destruct HL as (Hn & Hall). rewrite (Hall _ _ En) in Hh. lia.
    - intros t0 th0 Hne H0. rewrite nth_error_upd_neq in H0 by auto.
      destruct ow as [u|].
      + simpl in Hca. apply Nat.eqb_eq in Hca. subst u. destruct HL as (_ & _ & Hoth). eapply Hoth; eassumption.
      + destruct HL as (_ & Hall). eapply Hall; eassumption.
  Qed.

  Lemma linv_owner ths ow n t th : linv ths ow n -> nth_error ths t = Some th -> h th >= 1 -> ow = Some t.
  Proof.
    intros HL En Hh. unfold linv in HL. destruct ow as [u|].
    - destruct HL as (_ & _ & Hoth). destruct (Nat.eq_dec t u) as [->|Hne]; [reflexivity|].
      rewrite (Hoth _ _ Hne En) in Hh. lia.
    - destruct HL as (_ & Hall). rewrite (Hall _ _ En) in Hh. lia.
  Qed.

  Lemma linv_rel ths ow n t th th' :
    linv ths ow n -> nth_error ths t = Some th -> h th = S (h th') ->
    linv (upd ths t th') (fst (release ow n)) (snd (release ow n)).
  Proof.
    intros HL En Hh.
    assert (Ho : ow = Some t) by (eapply linv_owner; try eassumption; lia). subst ow.
    unfold linv in *. destruct HL as (Hn & (thu & Hu & Hhu) & Hoth).
    assert (thu = th) by congruence. subst thu.
    unfold release. destruct n as [|[|m]]; [lia| |]; simpl.
    - split; [reflexivity|]. intros t0 th0 H0. destruct (Nat.eq_dec t t0) as [<-|Hne'].
      + rewrite (nth_error_upd_eq _ _ _ _ En) in H0. injection H0 as <-. lia.
      + rewrite nth_error_upd_neq in H0 by assumption. eapply Hoth; [|eassumption]. auto.
    - split; [lia|]. split.
      + exists th'. split; [eapply nth_error_upd_eq; eassumption|lia].
      + intros t0 th0 Hne' H0. rewrite nth_error_upd_neq in H0 by auto. eapply Hoth; eassumption.
  Qed.

  Lemma linv_holder_unique ths ow n t1 t2 th1 th2 : linv ths ow n ->
    nth_error ths t1 = Some th1 -> nth_error ths t2 = Some th2 -> h th1 >= 1 -> h th2 >= 1 -> t1 = t2.
  Proof.
    intros HL H1 H2 G1 G2.
    pose proof (linv_owner _ _ _ _ _ HL H1 G1). pose proof (linv_owner _ _ _ _ _ HL H2 G2). congruence.
  Qed.
End LockInv.

Section LRThreads.
  Variables A O K V : Type.
  Variable mstep : A -> mprog A O K V.
  Variable K_eqb : K -> K -> bool.
  Variable entry : A -> bool.
  Variable locked : A -> bool.
  Variable del_is_noop : bool.

  Notation lstep := (lstep A O K V mstep K_eqb entry locked del_is_noop).
  Notation lcstep := (lcstep A O K V mstep K_eqb entry locked del_is_noop).
  Notation lexec := (lexec A O K V mstep K_eqb entry locked del_is_noop).
  Notation lthread := (lthread A O K V).
  Notation lconfig := (lconfig A O K V).

  Definition llock_inv (cf : lconfig) : Prop :=
    linv lholdsP (l_threads cf) (l_pown cf) (l_pcnt cf) /\
    linv lholdsR (l_threads cf) (l_rown cf) (l_rcnt cf).

  Lemma lstep_spec t th cf th' m' P' R' e :
    lstep t th cf = (th', m', P', R', e) ->
    match e with
    | EAcq => can_acq (l_pown cf) t = true /\ P' = (Some t, S (l_pcnt cf)) /\ R' = (l_rown cf, l_rcnt cf) /\
              lholdsP th' = S (lholdsP th) /\ lholdsR th' = lholdsR th
    | ERel => P' = release (l_pown cf) (l_pcnt cf) /\ R' = (l_rown cf, l_rcnt cf) /\
              lholdsP th = S (lholdsP th') /\ lholdsR th' = lholdsR th
    | EAcqR => can_acq (l_rown cf) t = true /\ R' = (Some t, S (l_rcnt cf)) /\ P' = (l_pown cf, l_pcnt cf) /\
               lholdsR th' = S (lholdsR th) /\ lholdsP th' = lholdsP th /\ lholdsP th = 0
    | ERelR => R' = release (l_rown cf) (l_rcnt cf) /\ P' = (l_pown cf, l_pcnt cf) /\
               lholdsR th = S (lholdsR th') /\ lholdsP th' = lholdsP th /\ lholdsP th = 0
    | EClear | EMClear => P' = (l_pown cf, l_pcnt cf) /\ R' = (l_rown cf, l_rcnt cf) /\
               lholdsP th' = lholdsP th /\ lholdsR th' = lholdsR th /\ lholdsP th = 1
    | EMGet _ | EMSet | EMDel | ETau => P' = (l_pown cf, l_pcnt cf) /\ R' = (l_rown cf, l_rcnt cf) /\
               lholdsP th' = lholdsP th /\ lholdsR th' = lholdsR th /\ lholdsP th = 0 /\ lresult_of th = None
    | EBlock => th' = th /\ P' = (l_pown cf, l_pcnt cf) /\ R' = (l_rown cf, l_rcnt cf) /\ lholdsP th = 0 /\
                (can_acq (l_pown cf) t = false \/ can_acq (l_rown cf) t = false)
    | EDone => th' = th /\ P' = (l_pown cf, l_pcnt cf) /\ R' = (l_rown cf, l_rcnt cf) /\ lresult_of th <> None
    | _ => False
    end.
  Proof.
    unfold Threads.lstep, lholdsP, lholdsR, lresult_of. destruct th as [cl st]; simpl.
    destruct cl as [[o|a k|key k|key v k|key k]|a k|a k|a k]; simpl.
    - destruct st as [|[a k|a k] st'].
      + intros [= <- <- <- <- <-]. repeat split; discriminate.
      + intros [= <- <- <- <- <-]; simpl; repeat split.
      + intros [= <- <- <- <- <-]; simpl; repeat split.
    - destruct (entry a).
      + destruct (can_acq (l_pown cf) t) eqn:Ec; intros [= <- <- <- <- <-]; simpl; repeat split; auto.
      + destruct (locked a).
        * destruct (can_acq (l_rown cf) t) eqn:Ec; intros [= <- <- <- <- <-]; simpl; repeat split; auto.
        * intros [= <- <- <- <- <-]; simpl; repeat split.
    - intros [= <- <- <- <- <-]; simpl; repeat split.
    - intros [= <- <- <- <- <-]; simpl; repeat split.
    - intros [= <- <- <- <- <-]; simpl; repeat split.
    - intros [= <- <- <- <- <-]; simpl; repeat split.
    - intros [= <- <- <- <- <-]; simpl; repeat split.
    - intros [= <- <- <- <- <-]; simpl; repeat split.
  Qed.

  Lemma lcstep_lock_inv t cf : llock_inv cf -> llock_inv (fst (lcstep t cf)).
  Proof.
    intros [HP HR]. unfold Threads.lcstep.
    destruct (nth_error (l_threads cf) t) as [th|] eqn:En; [|split; assumption].
    destruct (lstep t th cf) as [[[[th' m'] P'] R'] e] eqn:Et.
    pose proof (lstep_spec _ _ _ _ _ _ _ _ Et) as HT. unfold llock_inv; simpl.
    destruct e; try contradiction.
    - (* EAcq *) destruct HT as (Hca & -> & -> & H1 & H2). simpl. split.
      + eapply linv_acq; eassumption.
      + eapply linv_same; eassumption.
    - (* ERel *) destruct HT as (-> & -> & H1 & H2). simpl. split.
      + eapply linv_rel; eassumption.
      + eapply linv_same; eassumption.
    - (* EClear *) destruct HT as (-> & -> & H1 & H2 & _). simpl. split; eapply linv_same; eassumption.
    - (* EAcqR *) destruct HT as (Hca & -> & -> & H1 & H2 & _). simpl. split.
      + eapply linv_same; eassumption.
      + eapply linv_acq; eassumption.
    - (* ERelR *) destruct HT as (-> & -> & H1 & H2 & _). simpl. split.
      + eapply linv_same; eassumption.
      + eapply linv_rel; eassumption.
    - destruct HT as (-> & -> & H1 & H2 & _). simpl. split; eapply linv_same; eassumption.
    - destruct HT as (-> & -> & H1 & H2 & _). simpl. split; eapply linv_same; eassumption.
    - destruct HT as (-> & -> & H1 & H2 & _). simpl. split; eapply linv_same; eassumption.
    - (* EMClear *) destruct HT as (-> & -> & H1 & H2 & _). simpl. split; eapply linv_same; eassumption.
    - destruct HT as (-> & -> & H1 & H2 & _). simpl. split; eapply linv_same; eassumption.
    - (* EBlock *) destruct HT as (-> & -> & -> & _). simpl. split; eapply linv_same; try eassumption; reflexivity.
    - (* EDone *) destruct HT as (-> & -> & -> & _). simpl. split; eapply linv_same; try eassumption; reflexivity.
  Qed.

  Lemma lexec_lock_inv sched : forall cf, llock_inv cf -> llock_inv (lexec sched cf).
  Proof. induction sched as [|t s IH]; intros cf H; simpl; [exact H|]. apply IH, lcstep_lock_inv, H. Qed.

  Lemma linit_lock_inv progs : llock_inv (linit progs).
  Proof.
    unfold llock_inv, linit, linv; simpl. split; (split; [reflexivity|]); intros t th H;
      apply nth_error_In, in_map_iff in H; destruct H as (p & <- & _); reflexivity.
  Qed.

  Definition lreachable (progs : list (mprog A O K V)) (cf : lconfig) : Prop :=
    exists sched, cf = lexec sched (linit progs).

  Lemma lreachable_inv progs cf : lreachable progs cf -> llock_inv cf.
  Proof. intros [s ->]. apply lexec_lock_inv, linit_lock_inv. Qed.

  (* each lock has at most one holder *)
  Theorem lr_exclusive progs cf t1 t2 th1 th2 : lreachable progs cf ->
    nth_error (l_threads cf) t1 = Some th1 -> nth_error (l_threads cf) t2 = Some th2 ->
    (lholdsP th1 >= 1 -> lholdsP th2 >= 1 -> t1 = t2) /\ (lholdsR th1 >= 1 -> lholdsR th2 >= 1 -> t1 = t2).
  Proof.
    intros Hr H1 H2. destruct (lreachable_inv _ _ Hr) as [HP HR]. split; intros G1 G2.
    - eapply (linv_holder_unique lholdsP); eassumption.
    - eapply (linv_holder_unique lholdsR); eassumption.
  Qed.

  (* the lock order: while inside `with packrat_cache_lock:` (reset_cache) a thread requests nothing: its next
     operation is the cache clear, the memo clear or the release.  recursion_lock is therefore only ever requested
     with packrat_cache_lock not held by the requester; the only nesting is recursion_lock -> packrat_cache_lock
     (an entry point called from a parse action below a Forward). *)
  Theorem lr_lock_order cf t th : nth_error (l_threads cf) t = Some th -> lholdsP th >= 1 ->
    snd (lcstep t cf) = EClear \/ snd (lcstep t cf) = EMClear \/ snd (lcstep t cf) = ERel.
  Proof.
    intros En Hh. unfold Threads.lcstep. rewrite En.
    destruct (lstep t th cf) as [[[[th' m'] P'] R'] e] eqn:Et. simpl.
    unfold Threads.lstep in Et. unfold lholdsP in Hh.
    destruct th as [[p|a k|a k|a k] st]; simpl in *; [lia| | |]; injection Et as <- <- <- <- <-; auto.
  Qed.

  Lemma lholdsR_finished (th : lthread) : lresult_of th <> None -> lholdsR th = 0 /\ lholdsP th = 0.
  Proof.
    unfold lresult_of, lholdsR, lholdsP.
    destruct th as [[[o|a k|key k|key v k|key k]|a k|a k|a k] [|fr st]]; simpl; try congruence. auto.
  Qed.

  (* no deadlock with the two locks *)
  Theorem lr_no_deadlock progs cf : lreachable progs cf ->
    lall_finished cf = true \/
    exists t th, nth_error (l_threads cf) t = Some th /\ lresult_of th = None /\
                 snd (lcstep t cf) <> EBlock /\ snd (lcstep t cf) <> EDone.
  Proof.
    intros Hr. destruct (lreachable_inv _ _ Hr) as [HP HR].
    assert (Hstep : forall t th, nth_error (l_threads cf) t = Some th -> lresult_of th = None ->
                     can_acq (l_pown cf) t = true -> can_acq (l_rown cf) t = true ->
                     snd (lcstep t cf) <> EBlock /\ snd (lcstep t cf) <> EDone).
    { intros t th En Hres Hp Hr'. unfold Threads.lcstep. rewrite En.
      destruct (lstep t th cf) as [[[[th' m'] P'] R'] e] eqn:Et.
      pose proof (lstep_spec _ _ _ _ _ _ _ _ Et) as HT. simpl.
      destruct e; split; try discriminate; intros _.
      - destruct HT as (_ & _ & _ & _ & [Hb|Hb]); congruence.
      - destruct HT as (_ & _ & _ & Hd). congruence. }
    unfold linv in HP. destruct (l_pown cf) as [u|] eqn:EP.
    - (* somebody is inside reset_cache: it can go on *)
      right. destruct HP as (Hn & (thu & Hu & Hhu) & _). exists u, thu.
      assert (Hh : lholdsP thu >= 1) by lia.
      assert (Hres : lresult_of thu = None).
      { destruct (lresult_of thu) eqn:Er; [|reflexivity].
        assert (lholdsP thu = 0) by (apply lholdsR_finished; congruence). lia. }
      split; [exact Hu|]. split; [exact Hres|].
      destruct (lr_lock_order cf u thu Hu Hh) as [E|[E|E]]; rewrite E; split; discriminate.
    - unfold linv in HR. destruct (l_rown cf) as [u|] eqn:ER.
      + (* packrat_cache_lock is free; the owner of recursion_lock can go on *)
        right. destruct HR as (Hn & (thu & Hu & Hhu) & _). exists u, thu.
        assert (Hres : lresult_of thu = None).
        { destruct (lresult_of thu) eqn:Er; [|reflexivity].
          assert (lholdsR thu = 0) by (apply lholdsR_finished; congruence). lia. }
        split; [exact Hu|]. split; [exact Hres|]. apply (Hstep u thu Hu Hres); simpl; [reflexivity|].
        apply Nat.eqb_refl.
      + destruct (lall_finished cf) eqn:Ef; [left; reflexivity|right].
        unfold lall_finished in Ef. apply forallb_false_nth in Ef. destruct Ef as (t & th & En & Hf).
        exists t, th. assert (Hres : lresult_of th = None) by (destruct (lresult_of th); [discriminate|reflexivity]).
        split; [exact En|]. split; [exact Hres|]. apply (Hstep t th En Hres); reflexivity.
  Qed.

  (* what IS disciplined in this mode: the owner of packrat_cache_lock does the clears and the release ... *)
  Theorem lr_reset_by_owner progs cf t : lreachable progs cf ->
    (snd (lcstep t cf) = EClear \/ snd (lcstep t cf) = EMClear \/ snd (lcstep t cf) = ERel) ->
    l_pown cf = Some t.
  Proof.
    intros Hr He. destruct (lreachable_inv _ _ Hr) as [HP _]. revert He. unfold Threads.lcstep.
    destruct (nth_error (l_threads cf) t) as [th|] eqn:En; [|simpl; intros [E|[E|E]]; discriminate].
    destruct (lstep t th cf) as [[[[th' m'] P'] R'] e] eqn:Et.
    pose proof (lstep_spec _ _ _ _ _ _ _ _ Et) as HT. simpl. intros He.
    eapply (linv_owner lholdsP); try eassumption.
    destruct He as [He|[He|He]]; rewrite He in HT; intuition lia.
  Qed.
End LRThreads.

(* the packrat / no-memo machine never touches recursion_lock or recursion_memos except for the clear inside reset_cache *)
Lemma packrat_machine_events A O step A_eqb size entry cacheable memo_on t cf :
  match snd (cstep A O step A_eqb size entry cacheable memo_on t cf) with
  | EAcqR | ERelR | EMGet _ | EMSet | EMDel => False
  | _ => True
  end.
Proof.
  unfold cstep. destruct (nth_error (c_threads cf) t) as [th|]; [|exact I].
  destruct (tstep A O step A_eqb size entry cacheable memo_on t th (c_cache cf) (c_owner cf) (c_count cf))
    as [[[[th' c'] ow'] n'] e] eqn:Et.
  pose proof (tstep_lock A O step A_eqb size entry cacheable memo_on _ _ _ _ _ _ _ _ _ _ Et) as HT. simpl.
  destruct e; auto.
Qed.

(* ---------- the small concrete instance (Model/ThreadsMini.v): its key equality is sound ---------- *)
From PP Require Import Model.ThreadsMini.

Lemma list_eqb_spec l1 : forall l2, list_eqb l1 l2 = true -> l1 = l2.
Proof.
  induction l1 as [|x l1 IH]; intros [|y l2]; simpl; try discriminate; [reflexivity|].
  intros H. apply andb_true_iff in H as [H1 H2]. apply Nat.eqb_eq in H1. f_equal; [exact H1|apply IH, H2].
Qed.

Lemma args_eqb_spec a b : args_eqb a b = true -> a = b.
Proof.
  unfold args_eqb. destruct a as [k1 e1 s1 l1 d1 p1], b as [k2 e2 s2 l2 d2 p2]; simpl.
  intros H. repeat (apply andb_true_iff in H as [H ?]).
  apply Nat.eqb_eq in H4. apply list_eqb_spec in H3. apply Nat.eqb_eq in H2.
  apply eqb_prop in H1. apply eqb_prop in H0. subst.
  destruct k1, k2; simpl in H; try discriminate; reflexivity.
Qed.
