(* make_compressed_re for every max_level (Model/CompRe.v compressed_re): the denotation of the produced AST is
   exactly the given words, the AST is in the class of rm_correct, hence the matcher's fullmatch = membership.
   Also: re.escape followed by the literal reader gives the word back. *)
From Coq Require Import List NArith Arith Bool Lia Permutation.
From PP Require Import Model.Str Model.Regex Model.CompRe Proofs.RegexProofs Proofs.CompReProofs.
Import ListNotations.

(* the language of a finite word list, in the positional form of `den` *)
Definition lang (ws : list str) (s : str) (i j : nat) : Prop :=
  exists w, In w ws /\ starts_at s i w = true /\ j = i + length w.

Lemma lang_ext : forall a b s i j, (forall w, In w a <-> In w b) -> (lang a s i j <-> lang b s i j).
Proof. intros a b s i j H. unfold lang. split; intros (w & Hw & R); exists w; (split; [apply H; exact Hw|exact R]). Qed.

Lemma starts_at_nil : forall s i, starts_at s i [] = true.
Proof. reflexivity. Qed.

Lemma starts_at_app : forall w1 w2 s i,
  starts_at s i (w1 ++ w2) = starts_at s i w1 && starts_at s (i + length w1) w2.
Proof.
  induction w1 as [|a w1 IH]; intros w2 s i.
  - simpl app. rewrite starts_at_nil. simpl. rewrite Nat.add_0_r. reflexivity.
  - simpl app. rewrite !starts_at_cons. destruct (char_at s i) as [c|]; [|reflexivity].
    rewrite IH. replace (S i + length w1) with (i + length (a :: w1)) by (simpl; lia).
    rewrite andb_assoc. reflexivity.
Qed.

Lemma lang_single : forall w s i j, lang [w] s i j <-> starts_at s i w = true /\ j = i + length w.
Proof.
  intros. unfold lang. split.
  - intros (x & [<-|[]] & R). exact R.
  - intros R. exists w. split; [left; reflexivity|exact R].
Qed.

Lemma lang_map_app : forall k l s i j,
  lang (map (app k) l) s i j <-> starts_at s i k = true /\ lang l s (i + length k) j.
Proof.
  intros k l s i j. unfold lang. split.
  - intros (w & Hw & Hs & ->). apply in_map_iff in Hw. destruct Hw as (x & <- & Hx).
    rewrite starts_at_app in Hs. apply andb_true_iff in Hs. destruct Hs as [H1 H2].
    split; [exact H1|]. exists x. repeat split; auto. rewrite app_length. lia.
  - intros (H1 & x & Hx & H2 & ->). exists (k ++ x). split; [apply in_map; exact Hx|].
    rewrite starts_at_app, H1, H2. split; [reflexivity|]. rewrite app_length. lia.
Qed.

(* ------------------------------------------------------------------ denotation of the building blocks *)
Lemma den_rseq_cons : forall x l s i j, den (rseq (x :: l)) s i j <-> exists m, den x s i m /\ den (rseq l) s m j.
Proof.
  intros x l s i j. destruct l as [|y l].
  - simpl. split; [intros H; exists j; auto|intros (m & H & <-); exact H].
  - reflexivity.
Qed.

Lemma den_rlit : forall w s i j, den (rlit w) s i j <-> starts_at s i w = true /\ j = i + length w.
Proof.
  induction w as [|a w IH]; intros s i j.
  - simpl. rewrite starts_at_nil. split; [intros ->; split; [reflexivity|lia]|intros (_ & ->); lia].
  - unfold rlit. simpl map. rewrite den_rseq_cons. fold (rlit w). rewrite starts_at_cons. split.
    + intros (m & (c & Hc & Hm & ->) & H). apply IH in H. destruct H as (H & ->).
      rewrite cset_mem_single in Hm. apply N.eqb_eq in Hm. subst c. rewrite Hc, N.eqb_refl, H.
      split; [reflexivity|simpl; lia].
    + intros (H & ->). destruct (char_at s i) as [c|] eqn:Hc; [|discriminate].
      apply andb_true_iff in H. destruct H as [H1 H2]. apply N.eqb_eq in H1. subst c.
      exists (S i). split.
      * exists a. split; [exact Hc|]. split; [rewrite cset_mem_single; apply N.eqb_refl|reflexivity].
      * apply IH. split; [exact H2|simpl; lia].
Qed.

Lemma den_ralt : forall l s i j, den (ralt l) s i j <-> exists r, In r l /\ den r s i j.
Proof.
  induction l as [|a l IH]; intros s i j.
  - simpl. split; [intros (c & _ & H & _); discriminate|intros (r & [] & _)].
  - destruct l as [|b l'].
    + simpl. split; [intros H; exists a; auto|intros (r & [<-|[]] & H); exact H].
    + change (ralt (a :: b :: l')) with (RAlt a (ralt (b :: l'))). cbn [den]. rewrite IH. split.
      * intros [H|(r & Hr & H)]; [exists a; split; [left; reflexivity|exact H]|exists r; split; [right; exact Hr|exact H]].
      * intros (r & [<-|Hr] & H); [left; exact H|right; exists r; auto].
Qed.

Lemma den_alt_lits : forall l s i j, den (ralt (map rlit l)) s i j <-> lang l s i j.
Proof.
  intros. rewrite den_ralt. unfold lang. split.
  - intros (r & Hr & H). apply in_map_iff in Hr. destruct Hr as (w & <- & Hw). apply den_rlit in H. exists w. auto.
  - intros (w & Hw & H). exists (rlit w). split; [apply in_map; exact Hw|apply den_rlit; exact H].
Qed.

Lemma den_opt_if : forall b r s i j, den (opt_if b r) s i j <-> (b = true /\ i = j) \/ den r s i j.
Proof.
  intros b r s i j. destruct b; cbn [opt_if].
  - unfold ROpt. cbn [den]. split.
    + intros (n & _ & Hn & H). destruct n as [|[|n]]; [left; split; [reflexivity|exact H]| |lia].
      right. simpl in H. destruct H as (m & Hm & <-). exact Hm.
    + intros [(_ & ->)|H].
      * exists 0. repeat split; try lia.
      * exists 1. repeat split; try lia. simpl. exists j. auto.
  - split; [intros H; right; exact H|intros [(H & _)|H]; [discriminate|exact H]].
Qed.

Lemma den_seq_lit : forall k r s i j,
  den (RSeq (rlit k) r) s i j <-> starts_at s i k = true /\ den r s (i + length k) j.
Proof.
  intros. cbn [den]. split.
  - intros (m & H1 & H2). apply den_rlit in H1. destruct H1 as (H1 & ->). auto.
  - intros (H1 & H2). exists (i + length k). split; [apply den_rlit; auto|exact H2].
Qed.

Lemma class_mem : forall ws c,
  all_len1 ws = true -> (cset_mem false false (map CI_char (concat ws)) c = true <-> In [c] ws).
Proof.
  intros ws c A.
  assert (Q : cset_mem false false (map CI_char (concat ws)) c = mem_char c (concat ws)).
  { unfold cset_mem. cbn [andb xorb]. rewrite orb_false_r.
    assert (Q0 : items_mem (map CI_char (concat ws)) c = mem_char c (concat ws)).
    { unfold items_mem, mem_char. induction (concat ws); simpl; [reflexivity|]. rewrite IHl. reflexivity. }
    rewrite Q0. destruct (mem_char c (concat ws)); reflexivity. }
  rewrite Q. unfold mem_char. rewrite existsb_exists. unfold all_len1 in A. rewrite forallb_forall in A. split.
  - intros (d & Hd & E). apply N.eqb_eq in E. subst d. apply in_concat in Hd. destruct Hd as (w & Hw & Hc).
    pose proof (A w Hw) as L. apply Nat.eqb_eq in L. destruct w as [|e [|? ?]]; simpl in L; try lia.
    destruct Hc as [<-|[]]. exact Hw.
  - intros H. exists c. split; [|apply N.eqb_refl]. apply in_concat. exists [c]. split; [exact H|left; reflexivity].
Qed.

Lemma den_class : forall ws s i j,
  all_len1 ws = true -> (den (RSet false false (map CI_char (concat ws))) s i j <-> lang ws s i j).
Proof.
  intros ws s i j A. cbn [den]. unfold lang. split.
  - intros (c & Hc & M & ->). apply (class_mem ws c A) in M. exists [c]. split; [exact M|].
    rewrite starts_at_cons, Hc, N.eqb_refl, starts_at_nil. split; [reflexivity|simpl; lia].
  - intros (w & Hw & Hs & ->). pose proof Hw as L. unfold all_len1 in A. rewrite forallb_forall in A.
    apply A in L. apply Nat.eqb_eq in L. destruct w as [|c [|? ?]]; simpl in L; try lia.
    rewrite starts_at_cons in Hs. destruct (char_at s i) as [d|] eqn:Hd; [|discriminate].
    apply andb_true_iff in Hs. destruct Hs as [E _]. apply N.eqb_eq in E. subst d.
    exists c. split; [reflexivity|]. split; [apply class_mem; [unfold all_len1; apply forallb_forall; exact A|exact Hw]|simpl; lia].
Qed.

(* ------------------------------------------------------------------ "" in suffixes / suffixes.remove("") *)
Lemma is_empty_str_true : forall w, is_empty_str w = true <-> w = [].
Proof. destruct w; simpl; split; intros; try discriminate; auto. Qed.

Lemma has_empty_in : forall l, has_empty l = true <-> In [] l.
Proof.
  intros l. unfold has_empty. rewrite existsb_exists. split.
  - intros (x & Hx & E). apply is_empty_str_true in E. subst. exact Hx.
  - intros H. exists []. auto.
Qed.

Lemma remove_empty_in : forall l x, In [] l -> (In x l <-> x = [] \/ In x (remove_empty l)).
Proof.
  induction l as [|a t IH]; intros x H; [destruct H|]. simpl. destruct (is_empty_str a) eqn:E.
  - apply is_empty_str_true in E. subst a. split; intros [H1|H1]; subst; auto.
  - assert (Ht : In [] t). { destruct H as [->|H]; [discriminate|exact H]. }
    specialize (IH x Ht). simpl. tauto.
Qed.

Lemma strip_empty_in : forall l x, In x l <-> (has_empty l = true /\ x = []) \/ In x (strip_empty l).
Proof.
  intros l x. unfold strip_empty. destruct (has_empty l) eqn:E.
  - apply has_empty_in in E. rewrite (remove_empty_in l x E). tauto.
  - split; [auto|intros [(H & _)|H]; [discriminate|exact H]].
Qed.

Lemma lang_split_empty : forall l s m j,
  lang l s m j <-> (has_empty l = true /\ m = j) \/ lang (strip_empty l) s m j.
Proof.
  intros l s m j. unfold lang. split.
  - intros (w & Hw & Hs & ->). apply strip_empty_in in Hw. destruct Hw as [(H & ->)|Hw].
    + left. split; [exact H|simpl; lia].
    + right. exists w. auto.
  - intros [(H & <-)|(w & Hw & R)].
    + exists []. split; [apply has_empty_in; exact H|]. split; [apply starts_at_nil|simpl; lia].
    + exists w. split; [apply strip_empty_in; right; exact Hw|exact R].
Qed.

(* ------------------------------------------------------------------ the sorts are permutations *)
Lemma insert_asc_perm : forall x l, Permutation (insert_asc x l) (x :: l).
Proof.
  induction l as [|y t IH]; simpl; [apply Permutation_refl|].
  destruct (str_ltb y x); [|apply Permutation_refl].
  eapply perm_trans; [apply perm_skip; exact IH|apply perm_swap].
Qed.

Lemma sort_asc_perm : forall l, Permutation (sort_asc l) l.
Proof.
  induction l as [|a t IH]; simpl; [apply perm_nil|].
  eapply perm_trans; [apply insert_asc_perm|apply perm_skip; exact IH].
Qed.

Lemma insert_desc_perm : forall key x l, Permutation (insert_desc key x l) (x :: l).
Proof.
  induction l as [|y t IH]; simpl; [apply Permutation_refl|].
  destruct (key x <? key y); [|apply Permutation_refl].
  eapply perm_trans; [apply perm_skip; exact IH|apply perm_swap].
Qed.

Lemma sort_desc_perm : forall key l, Permutation (sort_desc key l) l.
Proof.
  induction l as [|a t IH]; simpl; [apply perm_nil|].
  eapply perm_trans; [apply insert_desc_perm|apply perm_skip; exact IH].
Qed.

Lemma sort_asc_in : forall l y, In y (sort_asc l) <-> In y l.
Proof.
  intros. split; apply Permutation_in; [apply sort_asc_perm|apply Permutation_sym; apply sort_asc_perm].
Qed.

Lemma perm_nonnil : forall (a b : list str), Permutation a b -> b <> [] -> a <> [].
Proof. intros a b P N E. subst a. apply Permutation_nil in P. congruence. Qed.

(* ------------------------------------------------------------------ one group *)
Lemma den_group_re : forall rec k sufs0 s,
  sufs0 <> [] ->
  (forall f, rec = Some f -> forall ws i j, ws <> [] -> (den (f ws) s i j <-> lang ws s i j)) ->
  forall i j, den (group_re rec k sufs0) s i j <-> lang (map (app k) sufs0) s i j.
Proof.
  intros rec k sufs0 s NE REC i j. rewrite lang_map_app, (lang_split_empty sufs0).
  unfold group_re. set (tr := has_empty sufs0). set (sf := strip_empty sufs0).
  destruct (1 <? length sf) eqn:L1.
  - destruct (all_len1 sf) eqn:A1.
    + rewrite den_seq_lit, den_opt_if, (den_class sf _ _ _ A1). reflexivity.
    + destruct rec as [f|].
      * rewrite den_seq_lit, den_opt_if. cbn [den]. rewrite (REC f eq_refl).
        -- rewrite (lang_ext (sort_asc sf) sf) by (apply sort_asc_in). reflexivity.
        -- apply (perm_nonnil _ sf (sort_asc_perm sf)). intros E. rewrite E in L1. discriminate.
      * rewrite den_seq_lit, den_opt_if. cbn [den]. rewrite den_alt_lits.
        rewrite (lang_ext (sort_desc (@length char) sf) sf) by (apply sort_desc_in). reflexivity.
  - destruct sf as [|suffix rest] eqn:SF.
    + assert (T : tr = true).
      { unfold tr. destruct (has_empty sufs0) eqn:H; [reflexivity|]. unfold sf, strip_empty in SF. rewrite H in SF. congruence. }
      rewrite den_rlit. split.
      * intros (H & ->). split; [exact H|]. left. split; [exact T|reflexivity].
      * intros (H & [(_ & <-)|(w & [] & _)]). split; [exact H|reflexivity].
    + assert (R : rest = []).
      { apply Nat.ltb_ge in L1. destruct rest; [reflexivity|simpl in L1; lia]. }
      subst rest. destruct ((1 <? escaped_len suffix) && tr) eqn:Q.
      * apply andb_true_iff in Q. destruct Q as [_ Q]. rewrite Q.
        change (ROpt Greedy (RGroup None (rlit suffix))) with (opt_if true (RGroup None (rlit suffix))).
        rewrite den_seq_lit, den_opt_if. cbn [den]. rewrite den_rlit, lang_single. reflexivity.
      * rewrite den_seq_lit, den_opt_if, den_rlit, lang_single. reflexivity.
Qed.

(* ------------------------------------------------------------------ groupby *)
Lemma group_first_in : forall l w, In w l <-> exists k g, In (k, g) (group_first l) /\ In w g.
Proof.
  induction l as [|a t IH]; intros w.
  - simpl. split; [intros []|intros (k & g & [] & _)].
  - cbn [group_first]. destruct (group_first t) as [|[k0 g0] rest] eqn:G.
    + split.
      * intros [<-|H]; [exists (firstn 1 a), [a]; split; left; reflexivity|].
        apply IH in H. destruct H as (k & g & [] & _).
      * intros (k & g & [E|[]] & H). inversion E; subst. destruct H as [<-|[]]. left. reflexivity.
    + destruct (str_eqb (firstn 1 a) k0).
      * split.
        -- intros [<-|H]; [exists k0, (a :: g0); split; left; reflexivity|].
           apply IH in H. destruct H as (k & g & [E|Hr] & Hw).
           ++ inversion E; subst. exists k, (a :: g). split; [left; reflexivity|right; exact Hw].
           ++ exists k, g. split; [right; exact Hr|exact Hw].
        -- intros (k & g & [E|Hr] & Hw).
           ++ inversion E; subst. destruct Hw as [<-|Hw]; [left; reflexivity|right].
              apply IH. exists k, g0. split; [left; reflexivity|exact Hw].
           ++ right. apply IH. exists k, g. split; [right; exact Hr|exact Hw].
      * split.
        -- intros [<-|H]; [exists (firstn 1 a), [a]; split; left; reflexivity|].
           apply IH in H. destruct H as (k & g & Hr & Hw). exists k, g. split; [right; exact Hr|exact Hw].
        -- intros (k & g & [E|Hr] & Hw).
           ++ inversion E; subst. destruct Hw as [<-|[]]. left. reflexivity.
           ++ right. apply IH. exists k, g. auto.
Qed.

Lemma group_first_key : forall l k g,
  In (k, g) (group_first l) -> g <> [] /\ forall w, In w g -> firstn 1 w = k.
Proof.
  induction l as [|a t IH]; intros k g H; [destruct H|].
  cbn [group_first] in H. destruct (group_first t) as [|[k0 g0] rest] eqn:G.
  - destruct H as [E|[]]. inversion E; subst. split; [discriminate|]. intros w [<-|[]]. reflexivity.
  - destruct (str_eqb (firstn 1 a) k0) eqn:Q.
    + destruct H as [E|H].
      * inversion E; subst. split; [discriminate|]. intros w [<-|Hw]; [apply str_eqb_true; exact Q|].
        apply (IH k g0); [left; reflexivity|exact Hw].
      * apply IH. right. exact H.
    + destruct H as [E|H].
      * inversion E; subst. split; [discriminate|]. intros w [<-|[]]. reflexivity.
      * apply IH. exact H.
Qed.

Lemma group_first_concat : forall l, concat (map snd (group_first l)) = l.
Proof.
  induction l as [|a t IH]; [reflexivity|].
  cbn [group_first]. destruct (group_first t) as [|[k0 g0] rest] eqn:G.
  - simpl in *. rewrite <- IH. reflexivity.
  - destruct (str_eqb (firstn 1 a) k0); simpl in *; rewrite <- IH; reflexivity.
Qed.

Lemma firstn1_skipn1 : forall (w : str), firstn 1 w ++ skipn 1 w = w.
Proof. intros. apply firstn_skipn. Qed.

Lemma sort_desc_nonnil : forall key (g : list str) (f : str -> str), g <> [] -> sort_desc key (map f g) <> [].
Proof.
  intros key g f H. apply (perm_nonnil _ _ (sort_desc_perm _ _)). destruct g; [congruence|discriminate].
Qed.

(* ------------------------------------------------------------------ the loop over the groups, and the recursion *)
Lemma den_comp_body : forall rec ws s,
  (forall f, rec = Some f -> forall ws i j, ws <> [] -> (den (f ws) s i j <-> lang ws s i j)) ->
  forall i j, den (comp_body rec ws) s i j <-> lang ws s i j.
Proof.
  intros rec ws s REC i j. unfold comp_body. rewrite den_ralt. split.
  - intros (r & Hr & D). apply in_map_iff in Hr. destruct Hr as ([k g] & <- & Hg). cbn [fst snd] in D.
    destruct (group_first_key _ _ _ Hg) as (GN & GK).
    apply den_group_re in D; [|apply sort_desc_nonnil; exact GN|exact REC].
    destruct D as (w & Hw & Hs & ->). apply in_map_iff in Hw. destruct Hw as (x & <- & Hx).
    apply sort_desc_in in Hx. apply in_map_iff in Hx. destruct Hx as (w0 & <- & Hw0).
    rewrite <- (GK w0 Hw0), firstn1_skipn1 in *. exists w0. split; [|auto].
    apply sort_asc_in. apply group_first_in. exists (firstn 1 w0), g. auto.
  - intros (w & Hw & Hs & ->). apply sort_asc_in, group_first_in in Hw. destruct Hw as (k & g & Hg & Hw).
    destruct (group_first_key _ _ _ Hg) as (GN & GK).
    exists (group_re rec k (sort_desc (@length char) (map (skipn 1) g))). split.
    + apply in_map_iff. exists (k, g). split; [reflexivity|exact Hg].
    + apply den_group_re; [apply sort_desc_nonnil; exact GN|exact REC|].
      exists w. split; [|auto]. apply in_map_iff. exists (skipn 1 w). split.
      * rewrite <- (GK w Hw). apply firstn1_skipn1.
      * apply sort_desc_in. apply in_map. exact Hw.
Qed.

Lemma dedup_nonnil : forall l, l <> [] -> dedup l <> [].
Proof. intros [|a t] H; [congruence|discriminate]. Qed.

Lemma den_comp_go : forall f ws s i j, ws <> [] -> (den (comp_go f ws) s i j <-> lang ws s i j).
Proof.
  induction f as [|f IH]; intros ws s i j NE; cbn [comp_go];
    pose proof (dedup_nonnil ws NE) as DN; destruct (dedup ws) as [|a t] eqn:D; try congruence.
  - rewrite den_comp_body by (intros ? ?; discriminate). rewrite <- D. apply lang_ext. apply dedup_in.
  - rewrite den_comp_body.
    + rewrite <- D. apply lang_ext. apply dedup_in.
    + intros g E. inversion E; subst. intros. apply IH. assumption.
Qed.

(* ------------------------------------------------------------------ the produced AST is in the class of rm_correct *)
Lemma rep_ok_rseq : forall l, (forall r, In r l -> rep_ok r = true) -> rep_ok (rseq l) = true.
Proof.
  induction l as [|a l IH]; intros H; [reflexivity|].
  destruct l as [|b l']; [apply H; left; reflexivity|].
  change (rseq (a :: b :: l')) with (RSeq a (rseq (b :: l'))). cbn [rep_ok].
  rewrite (H a) by (left; reflexivity). rewrite IH; [reflexivity|]. intros r Hr. apply H. right. exact Hr.
Qed.

Lemma rep_ok_rlit : forall w, rep_ok (rlit w) = true.
Proof.
  intros. unfold rlit. apply rep_ok_rseq. intros r Hr. apply in_map_iff in Hr. destruct Hr as (c & <- & _). reflexivity.
Qed.

Lemma consuming_rlit : forall w, w <> [] -> consuming (rlit w) = true.
Proof. intros [|a [|b w]] H; [congruence|reflexivity|reflexivity]. Qed.

Lemma rep_ok_ralt : forall l, (forall r, In r l -> rep_ok r = true) -> rep_ok (ralt l) = true.
Proof.
  induction l as [|a l IH]; intros H; [reflexivity|].
  destruct l as [|b l']; [apply H; left; reflexivity|].
  change (ralt (a :: b :: l')) with (RAlt a (ralt (b :: l'))). cbn [rep_ok].
  rewrite (H a) by (left; reflexivity). rewrite IH; [reflexivity|]. intros r Hr. apply H. right. exact Hr.
Qed.

Lemma consuming_ralt : forall l, (forall r, In r l -> consuming r = true) -> consuming (ralt l) = true.
Proof.
  induction l as [|a l IH]; intros H; [reflexivity|].
  destruct l as [|b l']; [apply H; left; reflexivity|].
  change (ralt (a :: b :: l')) with (RAlt a (ralt (b :: l'))). cbn [consuming].
  rewrite (H a) by (left; reflexivity). rewrite IH; [reflexivity|]. intros r Hr. apply H. right. exact Hr.
Qed.

Lemma rep_ok_opt_if : forall b r, rep_ok r = true -> consuming r = true -> rep_ok (opt_if b r) = true.
Proof. intros [] r H1 H2; cbn [opt_if]; [|exact H1]. unfold ROpt. cbn [rep_ok]. rewrite H1, H2. reflexivity. Qed.

Lemma has_empty_false : forall l, has_empty l = false -> forall x, In x l -> x <> [].
Proof. intros l H x Hx E. subst. apply has_empty_in in Hx. congruence. Qed.

Lemma remove_empty_nonempty : forall l, NoDup l -> forall x, In x (remove_empty l) -> x <> [].
Proof.
  induction l as [|a t IH]; intros ND x Hx; [destruct Hx|]. inversion ND; subst. simpl in Hx.
  destruct (is_empty_str a) eqn:E.
  - apply is_empty_str_true in E. subst a. intros ->. contradiction.
  - destruct Hx as [<-|Hx]; [intros ->; discriminate|apply IH; assumption].
Qed.

Lemma strip_empty_nonempty : forall l, NoDup l -> forall x, In x (strip_empty l) -> x <> [].
Proof.
  intros l ND x. unfold strip_empty. destruct (has_empty l) eqn:E;
    [apply remove_empty_nonempty; exact ND|apply has_empty_false; exact E].
Qed.

Lemma NoDup_dedup : forall l, NoDup (dedup l).
Proof.
  induction l as [|a t IH]; simpl; constructor.
  - intros H. apply filter_In in H. destruct H as [_ H]. rewrite (proj2 (str_eqb_true a a) eq_refl) in H. discriminate.
  - apply NoDup_filter. exact IH.
Qed.

Lemma NoDup_app_parts : forall (a b : list str), NoDup (a ++ b) -> NoDup a /\ NoDup b.
Proof.
  induction a as [|x a IH]; intros b H; simpl in *; [split; [constructor|exact H]|].
  inversion H; subst. destruct (IH b H3) as (Ha & Hb). split; [|exact Hb].
  constructor; [|exact Ha]. intros Hx. apply H2. apply in_or_app. left. exact Hx.
Qed.

Lemma NoDup_concat_elem : forall (gs : list (list str)) g, NoDup (concat gs) -> In g gs -> NoDup g.
Proof.
  induction gs as [|a gs IH]; intros g ND H; [destruct H|]. simpl in ND.
  apply NoDup_app_parts in ND. destruct ND as (N1 & N2). destruct H as [<-|H]; [exact N1|apply IH; assumption].
Qed.

Lemma NoDup_map_inj_in : forall (f : str -> str) l,
  (forall a b, In a l -> In b l -> f a = f b -> a = b) -> NoDup l -> NoDup (map f l).
Proof.
  induction l as [|x l IH]; intros INJ ND; simpl; [constructor|]. inversion ND; subst. constructor.
  - intros H. apply in_map_iff in H. destruct H as (y & E & Hy).
    assert (y = x) by (apply INJ; [right; exact Hy|left; reflexivity|exact E]). subst. contradiction.
  - apply IH; [|assumption]. intros a b Ha Hb. apply INJ; right; assumption.
Qed.

Definition good (r : re) : Prop := rep_ok r = true /\ consuming r = true.

Lemma group_re_good : forall rec k sufs0,
  k <> [] -> NoDup sufs0 ->
  (forall f, rec = Some f -> forall ws, ws <> [] -> (forall w, In w ws -> w <> []) -> good (f ws)) ->
  good (group_re rec k sufs0).
Proof.
  intros rec k sufs0 K ND REC. unfold group_re.
  pose proof (strip_empty_nonempty sufs0 ND) as SN.
  remember (has_empty sufs0) as tr eqn:Htr. remember (strip_empty sufs0) as sf eqn:Hsf. clear Htr Hsf.
  assert (SEQ : forall r, rep_ok r = true -> good (RSeq (rlit k) r)).
  { intros r H. split; cbn [rep_ok consuming]; [rewrite rep_ok_rlit, H|rewrite consuming_rlit by exact K]; reflexivity. }
  destruct (1 <? length sf) eqn:L1.
  - destruct (all_len1 sf) eqn:A1.
    + apply SEQ. apply rep_ok_opt_if; reflexivity.
    + destruct rec as [f|].
      * apply SEQ. destruct (REC f eq_refl (sort_asc sf)) as (R1 & R2).
        -- apply (perm_nonnil _ sf (sort_asc_perm sf)). intros E. rewrite E in L1. discriminate.
        -- intros w Hw. apply SN. apply sort_asc_in. exact Hw.
        -- apply rep_ok_opt_if; cbn [rep_ok consuming]; assumption.
      * apply SEQ. apply rep_ok_opt_if; cbn [rep_ok consuming].
        -- apply rep_ok_ralt. intros r Hr. apply in_map_iff in Hr. destruct Hr as (w & <- & _). apply rep_ok_rlit.
        -- apply consuming_ralt. intros r Hr. apply in_map_iff in Hr. destruct Hr as (w & <- & Hw).
           apply consuming_rlit. apply SN. apply sort_desc_in in Hw. exact Hw.
  - destruct sf as [|suffix rest].
    + split; [apply rep_ok_rlit|apply consuming_rlit; exact K].
    + assert (SX : suffix <> []) by (apply SN; left; reflexivity).
      destruct ((1 <? escaped_len suffix) && tr).
      * apply SEQ. change (ROpt Greedy (RGroup None (rlit suffix))) with (opt_if true (RGroup None (rlit suffix))).
        apply rep_ok_opt_if; cbn [rep_ok consuming]; [apply rep_ok_rlit|apply consuming_rlit; exact SX].
      * apply SEQ. apply rep_ok_opt_if; [apply rep_ok_rlit|apply consuming_rlit; exact SX].
Qed.

Lemma comp_body_good : forall rec ws,
  NoDup ws -> (forall w, In w ws -> w <> []) ->
  (forall f, rec = Some f -> forall ws, ws <> [] -> (forall w, In w ws -> w <> []) -> good (f ws)) ->
  good (comp_body rec ws).
Proof.
  intros rec ws ND NN REC. unfold comp_body.
  assert (G : forall r, In r (map (fun g => group_re rec (fst g) (sort_desc (@length char) (map (skipn 1) (snd g))))
                                  (group_first (sort_asc ws))) -> good r).
  { intros r Hr. apply in_map_iff in Hr. destruct Hr as ([k g] & <- & Hg). cbn [fst snd].
    destruct (group_first_key _ _ _ Hg) as (GN & GK).
    assert (Hsub : forall w, In w g -> In w ws).
    { intros w Hw. apply sort_asc_in. apply group_first_in. exists k, g. auto. }
    apply group_re_good; [| |exact REC].
    - destruct g as [|w0 g']; [exfalso; apply GN; reflexivity|]. rewrite <- (GK w0 (or_introl eq_refl)).
      pose proof (NN w0 (Hsub w0 (or_introl eq_refl))) as N0. destruct w0; [congruence|discriminate].
    - eapply Permutation_NoDup; [apply Permutation_sym; apply sort_desc_perm|].
      apply NoDup_map_inj_in.
      + intros a b Ha Hb E. rewrite <- (firstn1_skipn1 a), <- (firstn1_skipn1 b), (GK a Ha), (GK b Hb), E. reflexivity.
      + apply (NoDup_concat_elem (map snd (group_first (sort_asc ws)))).
        * rewrite group_first_concat. eapply Permutation_NoDup; [apply Permutation_sym; apply sort_asc_perm|exact ND].
        * apply in_map_iff. exists (k, g). auto. }
  split; [apply rep_ok_ralt|apply consuming_ralt]; intros r Hr; apply G in Hr; apply Hr.
Qed.

Lemma comp_go_good : forall f ws, ws <> [] -> (forall w, In w ws -> w <> []) -> good (comp_go f ws).
Proof.
  induction f as [|f IH]; intros ws NE NN; cbn [comp_go];
    pose proof (dedup_nonnil ws NE) as DN; destruct (dedup ws) as [|a t] eqn:D; try congruence; rewrite <- D.
  - apply comp_body_good; [apply NoDup_dedup|intros w Hw; apply NN; apply dedup_in; exact Hw|intros ? ?; discriminate].
  - apply comp_body_good; [apply NoDup_dedup|intros w Hw; apply NN; apply dedup_in; exact Hw|].
    intros g E. inversion E; subst. intros. apply IH; assumption.
Qed.

(* ------------------------------------------------------------------ level 0 in the same form *)
Lemma compressed0_all_len1 : forall words,
  (forall w, In w words -> w <> []) ->
  existsb (fun w => 1 <? length w) (dedup words) = false -> all_len1 (dedup words) = true.
Proof.
  intros words NN E. unfold all_len1. apply forallb_forall. intros w Hw.
  destruct (1 <? length w) eqn:L.
  - assert (existsb (fun w => 1 <? length w) (dedup words) = true) by (apply existsb_exists; exists w; auto). congruence.
  - apply Nat.ltb_ge in L. assert (w <> []) by (apply NN; apply dedup_in; exact Hw).
    apply Nat.eqb_eq. destruct w; [congruence|simpl in *; lia].
Qed.

Lemma compressed0_den : forall words s i j,
  (forall w, In w words -> w <> []) -> (den (compressed0 words) s i j <-> lang words s i j).
Proof.
  intros words s i j NN. unfold compressed0.
  destruct (existsb (fun w => 1 <? length w) (dedup words)) eqn:E.
  - rewrite den_alt_lits. apply lang_ext. intros w. rewrite sort_desc_in, dedup_in. reflexivity.
  - rewrite den_class by (apply compressed0_all_len1; assumption). apply lang_ext. apply dedup_in.
Qed.

Lemma compressed0_rep_ok : forall words, rep_ok (compressed0 words) = true.
Proof.
  intros. unfold compressed0. destruct (existsb (fun w => 1 <? length w) (dedup words)); [|reflexivity].
  apply rep_ok_ralt. intros r Hr. apply in_map_iff in Hr. destruct Hr as (w & <- & _). apply rep_ok_rlit.
Qed.

Lemma lang_full : forall ws s, lang ws s 0 (length s) <-> In s ws.
Proof.
  intros. unfold lang. split.
  - intros (w & Hw & Hs & L). unfold starts_at in Hs. simpl in Hs, L.
    rewrite <- (prefix_of_full w s Hs); [exact Hw|lia].
  - intros H. exists s. split; [exact H|]. split; [unfold starts_at; simpl; apply prefix_of_refl|reflexivity].
Qed.

(* ------------------------------------------------------------------ make_compressed_re, every max_level *)
Theorem compressed_re_correct : forall (words : list str) (max_level : nat),
  words <> [] -> (forall w, In w words -> w <> []) ->
  exists r, compressed_re words max_level = Some r /\ rep_ok r = true /\
    (forall s i j, den r s i j <-> exists w, In w words /\ starts_at s i w = true /\ j = i + length w) /\
    (forall s, re_fullmatch r s = true <-> In s words).
Proof.
  intros words ml NE NN. unfold compressed_re.
  assert (HE : has_empty words = false).
  { destruct (has_empty words) eqn:H; [|reflexivity]. apply has_empty_in in H. apply NN in H. congruence. }
  rewrite HE. destruct words as [|w0 t]; [congruence|].
  remember (w0 :: t) as ws eqn:Hws. clear Hws.
  set (r := match ml with 0 => compressed0 ws | S f => comp_go f ws end).
  exists r.
  assert (OK : rep_ok r = true).
  { unfold r. destruct ml; [apply compressed0_rep_ok|apply comp_go_good; assumption]. }
  assert (DEN : forall s i j, den r s i j <-> lang ws s i j).
  { intros. unfold r. destruct ml; [apply compressed0_den; assumption|apply den_comp_go; assumption]. }
  split; [reflexivity|]. split; [exact OK|]. split; [exact DEN|].
  intros s. rewrite (re_fullmatch_iff r s OK), DEN. apply lang_full.
Qed.

(* ValueError exactly for an empty list or a list containing the empty word *)
Theorem compressed_re_none : forall (words : list str) (max_level : nat),
  compressed_re words max_level = None <-> words = [] \/ In [] words.
Proof.
  intros [|w t] ml; unfold compressed_re.
  - split; auto.
  - destruct (has_empty (w :: t)) eqn:H.
    + split; [intros _; right; apply has_empty_in; exact H|reflexivity].
    + split; [discriminate|]. intros [E|E]; [discriminate|]. apply has_empty_in in E. congruence.
Qed.

(* ------------------------------------------------------------------ re.escape at the text level *)
Lemma special_not_alnum : forall c, mem_char c re_special = true -> is_alnum_ascii c = false.
Proof.
  intros c H. unfold mem_char, re_special in H. cbn [existsb] in H.
  repeat (apply orb_true_iff in H; destruct H as [H|H]); try (apply N.eqb_eq in H; subst c; reflexivity).
  discriminate.
Qed.

Lemma meta_special : forall c, mem_char c re_meta = true -> mem_char c re_special = true.
Proof.
  intros c H. unfold mem_char, re_meta in H. cbn [existsb] in H.
  repeat (apply orb_true_iff in H; destruct H as [H|H]); try (apply N.eqb_eq in H; subst c; reflexivity).
  discriminate.
Qed.

Lemma nonspecial_plain : forall c, mem_char c re_special = false -> N.eqb c 92%N = false /\ mem_char c re_meta = false.
Proof.
  intros c H. split.
  - destruct (N.eqb c 92%N) eqn:E; [|reflexivity]. apply N.eqb_eq in E. subst c. vm_compute in H. discriminate.
  - destruct (mem_char c re_meta) eqn:M; [|reflexivity]. apply meta_special in M. congruence.
Qed.

(* the escaped text of a word reads back as the word: every character is one LITERAL *)
Theorem read_lit_escape : forall w, read_lit (re_escape w) = Some w.
Proof.
  induction w as [|c w IH]; [reflexivity|].
  unfold re_escape. cbn [flat_map]. fold (re_escape w). unfold escape_char.
  destruct (mem_char c re_special) eqn:S.
  - cbn [app read_lit]. change (N.eqb 92 92)%N with true. cbv iota.
    rewrite (special_not_alnum c S), IH. reflexivity.
  - cbn [app read_lit]. destruct (nonspecial_plain c S) as [E M]. rewrite E, M, IH. reflexivity.
Qed.

(* len(re.escape(w)), the sort key of the level-0 alternation *)
Lemma escaped_len_spec : forall w, escaped_len w = length (re_escape w).
Proof.
  intros w. unfold escaped_len, re_escape. induction w as [|c w IH]; [reflexivity|].
  cbn [flat_map filter length]. rewrite app_length, <- IH. unfold escape_char.
  destruct (mem_char c re_special); simpl; lia.
Qed.
