(* C06 (model part): the location bound.  For every grammar of the class `lb` (below), every `_parse` call made at a
   location <= len(s) + 1 answers with an end location <= len(s) + 1 or with an exception whose `loc` lies in
   0 .. len(s) + 1 (whatever its kind), for every fuel; lifted to `parse_string` (with and without parse_all).
   The "+ 1" is genuine: StringEnd / LineEnd return len + 1 at loc = len, and what follows them is tried (and fails) there.

   The class `lb` excludes exactly:
     * GoToColumn (anywhere: children, ignore expressions, stop_on / fail_on operands, SkipTo's ignorer), whose parseImpl
       returns `loc + col - thiscol` without looking at the end of the string (finding F-06, `gotocol_refuted` below);
     * non-exact PrecededBy, which the model does not implement;
     * a caseless Keyword whose dumped `caselessmatch` is shorter than its `match` (impossible for `match.upper()` with the
       model's length-preserving `upper_s`; without it `loc + matchLen` is not tied to the text that was compared).
   Parse actions are NOT excluded: every action of the model's closed action language raises at the location the action
   was called with (`run_action`), which is the bounded pre-parse location.  (A user action that builds
   `ParseException(s, loc_of_its_choice)` is outside that language, hence outside the theorem.)

   Structure: the generic tree-walk invariant of Proofs/Walk.v (`sinv` / `parse_inv`), instantiated with
   calls  C a  := lb (a_e a) /\ a_s a = s /\ a_loc a <= len s + 1   and answers  okL  (the bound), for a fixed string s
   (every call that `step` makes passes the same string on). *)
From Coq Require Import List ZArith NArith Bool Arith Lia.
From PP Require Import Model.Str Model.Results Model.Prog Model.Core Model.Entry Proofs.Walk Proofs.PegEquiv Proofs.ScanProofs.
Import ListNotations.

(* ------------------------------------------------------------------------------------------- *)
(* strings                                                                                      *)
(* ------------------------------------------------------------------------------------------- *)
Lemma run_while_le fuel s p : forall loc m, run_while fuel s loc m p <= Nat.max loc m.
Proof.
  induction fuel as [|f IH]; intros loc m; simpl; [lia|].
  destruct (Nat.ltb loc m) eqn:E; [|lia]. apply Nat.ltb_lt in E.
  destruct (at_ s loc); [|lia]. destruct (p c); [|lia].
  specialize (IH (S loc) m). lia.
Qed.

Lemma skip_white_le s loc w : skip_white s loc w <= Nat.max loc (length s).
Proof. apply run_while_le. Qed.

Lemma len_cap_le start maxl len : len_cap start maxl len <= len.
Proof. unfold len_cap. destruct maxl; lia. Qed.

Lemma startswith_len s m : forall loc, startswith_at s loc m = true -> loc <= length s -> loc + length m <= length s.
Proof.
  induction m as [|c m IH]; intros loc H Hl; simpl in *; [lia|].
  destruct (at_ s loc) as [d|] eqn:E; [|discriminate]. apply at_some in E.
  apply andb_prop in H as [_ H]. specialize (IH (S loc) H). lia.
Qed.

Lemma str_eqb_len : forall a b, str_eqb a b = true -> length a = length b.
Proof.
  induction a as [|x a IH]; intros [|y b] H; simpl in *; try discriminate; [reflexivity|].
  apply andb_prop in H as [_ H]. f_equal. apply IH. exact H.
Qed.

Lemma slice_len s a b : length (slice_ s a b) = Nat.min (b - a) (length s - a).
Proof. unfold slice_. rewrite firstn_length, skipn_length. reflexivity. Qed.

(* `instring[loc : loc + n].upper() == um` with n <= len(um): the n characters are all there *)
Lemma slice_match s loc n um : str_eqb (upper_s (slice_ s loc (loc + n))) um = true -> n <= length um ->
  n = 0 \/ loc + n <= length s.
Proof.
  intros H Hn. apply str_eqb_len in H. unfold upper_s in H. rewrite map_length, slice_len in H. lia.
Qed.

(* ------------------------------------------------------------------------------------------- *)
(* the class                                                                                    *)
(* ------------------------------------------------------------------------------------------- *)
Definition tok_lb (t : tkind) : bool :=
  match t with
  | KGoToCol _ => false
  | KKeyword m _ caseless um => negb caseless || Nat.leb (length m) (length um)
  | _ => true
  end.

Fixpoint lb (e : expr) : bool :=
  let lbl := fix lbl (l : list expr) : bool := match l with [] => true | x :: r => lb x && lbl r end in
  let lbo := fun o : option expr => match o with Some x => lb x | None => true end in
  match e with
  | Tok _ ign t => tok_lb t && lbl ign
  | Nary _ ign _ es => lbl ign && lbl es
  | Enh _ ign k c => lbl ign && lb c && match k with EPrecededBy false _ => false | _ => true end
  | Rep _ ign _ b ne => lbl ign && lb b && lbo ne
  | Skip _ ign t _ ig fo => lbl ign && lb t && lbl ig && lbo fo
  | Fwd _ ign _ => lbl ign
  end.

Lemma lbl_fix l : (fix lbl (l : list expr) : bool := match l with [] => true | x :: r => lb x && lbl r end) l = forallb lb l.
Proof. induction l; simpl; congruence. Qed.

Lemma lb_ign e : lb e = true -> forallb lb (ign_of e) = true.
Proof.
  destruct e; simpl; rewrite ?lbl_fix; intros H; repeat (apply andb_prop in H as [H ?]); auto.
Qed.

(* ------------------------------------------------------------------------------------------- *)
(* the walk, for a fixed parsed string                                                          *)
(* ------------------------------------------------------------------------------------------- *)
Section Loc.
Variable G : env.
Variable s : str.

Definition bl (l : nat) : Prop := l <= length s + 1.
Definition bx (x : exn) : Prop := (0 <= xloc x <= Z.of_nat (length s) + 1)%Z.

Lemma bx_nat k l m el : bl l -> bx (mkx k (Z.of_nat l) m el).
Proof. unfold bl, bx. simpl. lia. Qed.

Lemma bx_len k m el : bx (mkx k (Z.of_nat (length s)) m el).
Proof. apply bx_nat. unfold bl. lia. Qed.

Lemma bx_same k x m el : bx x -> bx (mkx k (xloc x) m el).
Proof. intros H. exact H. Qed.

Definition tok_res_ok (r : impl_res) : Prop :=
  match r with IOk l _ => bl l | IExc x => bx x | IIndexError => True end.

(* ---- every token kind: the end location it returns and the location of the exception it raises ---- *)
Ltac facts :=
  repeat match goal with
         | E : at_ _ _ = None |- _ => apply at_none in E
         | E : at_ _ _ = Some _ |- _ => apply at_some in E
         | E : (_ <? _)%nat = true |- _ => apply Nat.ltb_lt in E
         | E : (_ <? _)%nat = false |- _ => apply Nat.ltb_ge in E
         | E : (_ =? _)%nat = true |- _ => apply Nat.eqb_eq in E
         | E : (_ =? _)%nat = false |- _ => apply Nat.eqb_neq in E
         | E : (_ <=? _)%Z = true |- _ => apply Z.leb_le in E
         | E : (_ <=? _)%Z = false |- _ => apply Z.leb_gt in E
         end.

Ltac fin := unfold tok_res_ok, pexc, pexc_sfx, mkx, bx, bl in *; cbn [xloc length] in *; facts; try lia.

Lemma span_bound loc maxl p : loc < length s ->
  S loc <= run_while (length s) s (S loc) (len_cap loc maxl (length s)) p <= length s.
Proof.
  intros H. pose proof (run_while_ge (length s) s p (S loc) (len_cap loc maxl (length s))).
  pose proof (run_while_le (length s) s p (S loc) (len_cap loc maxl (length s))).
  pose proof (len_cap_le loc maxl (length s)). lia.
Qed.

Lemma tok_bound a t loc : tok_lb t = true -> bl loc -> tok_res_ok (tok_impl a t s loc).
Proof.
  intros Ht Hl. destruct t; try discriminate Ht; unfold tok_impl; cbv zeta.
  - (* KLit *)
    destruct m as [|c [|c2 m']].
    + destruct (at_ s loc) eqn:E; [|exact I]. simpl. fin.
    + destruct (at_ s loc) as [d|] eqn:E; [|exact I]. destruct (N.eqb d c); fin.
    + destruct (at_ s loc) eqn:E; [|exact I].
      destruct (startswith_at s loc (c :: c2 :: m')) eqn:Es; [|fin].
      apply at_some in E. apply startswith_len in Es; [|lia]. fin.
  - (* KCaselessLit *)
    destruct (str_eqb _ upper_m) eqn:E; [|fin].
    apply slice_match in E; [|lia]. fin.
  - (* KKeyword *)
    simpl in Ht.
    set (ml := length m) in *.
    assert (Hhead : forall b, (if caseless then Some (str_eqb (upper_s (slice_ s loc (loc + ml))) upper_m)
                    else match ml with
                         | 1 => match at_ s loc with
                                | None => None
                                | Some d => Some (match m with c :: _ => N.eqb d c | [] => false end || startswith_at s loc m)
                                end
                         | _ => match at_ s loc with
                                | None => None
                                | Some d => Some (startswith_at s loc m)
                                end
                         end) = Some b -> b = true -> loc + ml <= length s + 1 /\ (at_ s (loc + ml) <> None -> loc + ml < length s)).
    { intros b Hb ->. destruct caseless.
      - injection Hb as Hb. simpl in Ht. apply Nat.leb_le in Ht. apply slice_match in Hb; [|exact Ht].
        split; [fin|]. intros Hn. destruct (at_ s (loc + ml)) eqn:E; [|congruence]. fin.
      - assert (loc < length s) as Hlt.
        { destruct ml as [|[|?]]; destruct (at_ s loc) eqn:E; try discriminate Hb; fin. }
        split; [|intros Hn; destruct (at_ s (loc + ml)) eqn:E; [fin|congruence]].
        destruct ml as [|[|ml']] eqn:Eml; [lia|lia|].
        destruct (at_ s loc); [|discriminate]. injection Hb as Hb. apply startswith_len in Hb; [|lia]. fold ml in Hb. lia. }
    match goal with |- tok_res_ok (match ?h with _ => _ end) => destruct h as [[|]|] eqn:Eh end; [|fin|exact I].
    destruct (Hhead true eq_refl eq_refl) as [H1 H2].
    destruct (match loc with 0 => true | S p => _ end) eqn:Eb.
    + destruct (_ <=? _)%Z; [fin|].
      destruct (at_ s (loc + ml)) eqn:E; [|exact I].
      assert (loc + ml < length s) by (apply H2; congruence).
      match goal with |- context [if ?b then IOk _ _ else _] => destruct b end; fin.
    + destruct loc; [discriminate|]. fin.
  - (* KWord *)
    destruct (at_ s loc) as [c0|] eqn:E0; [|destruct use_re; [fin|exact I]].
    apply at_some in E0. pose proof (span_bound loc maxl (fun c => mem_char c body) E0) as Hsp.
    set (e := run_while _ _ _ _ _) in *.
    destruct use_re.
    + destruct (negb (mem_char c0 init)); [fin|]. destruct (_ && _); [fin|].
      clearbody e. destruct (Nat.ltb (e - loc) minl); [fin|]. destruct (negb askw || _); [fin|].
      destruct e as [|e1]; [fin|]. destruct (Nat.ltb loc e1); [|fin].
      match goal with |- tok_res_ok (match ?g ?k e1 with _ => _ end) =>
        assert (Hback : forall fuel e0 r, g fuel e0 = Some r -> r <= e0); [|destruct (g k e1) as [e'|] eqn:Eb] end.
      { induction fuel as [|f IH]; intros e0 r H; simpl in H; [discriminate|].
        destruct (Nat.ltb (e0 - loc) minl); [discriminate|].
        destruct (negb askw || _); [injection H as <-; lia|].
        destruct e0 as [|e2]; [discriminate|]. destruct (Nat.ltb loc e2); [|discriminate].
        apply IH in H. lia. }
      * apply Hback in Eb. fin.
      * fin.
    + destruct (negb (mem_char c0 init)); [fin|]. destruct (Nat.ltb (e - loc) minl); [fin|]. destruct (_ && _); fin.
  - (* KNotIn *)
    destruct (at_ s loc) as [c0|] eqn:E0; [|exact I]. apply at_some in E0.
    pose proof (span_bound loc maxl (fun c => negb (mem_char c notchars)) E0) as Hsp.
    set (e := run_while _ _ _ _ _) in *.
    destruct (mem_char c0 notchars); [fin|]. destruct (Nat.ltb (e - loc) minl); fin.
  - (* KWhite *)
    destruct (at_ s loc) as [c0|] eqn:E0; [|exact I]. apply at_some in E0.
    pose proof (span_bound loc maxl (fun c => mem_char c ws) E0) as Hsp.
    set (e := run_while _ _ _ _ _) in *.
    destruct (negb (mem_char c0 ws)); [fin|]. destruct (Nat.ltb (e - loc) minl); fin.
  - fin.
  - fin.
  - destruct (Nat.eqb _ 1); fin.
  - (* KLineEnd *)
    destruct (Nat.ltb loc (length s)) eqn:E1.
    + destruct (at_ s loc); [destruct (N.eqb c NL)|]; fin.
    + destruct (Nat.eqb loc (length s)) eqn:E2; fin.
  - (* KStringStart *)
    destruct (Nat.eqb loc 0); [fin|]. destruct (Nat.eqb loc _); fin.
  - (* KStringEnd *)
    destruct (Nat.ltb loc (length s)) eqn:E1; [fin|]. destruct (Nat.eqb loc (length s)) eqn:E2; fin.
  - (* KWordStart *)
    destruct loc as [|p]; [fin|].
    destruct (at_ s p); [|exact I]. destruct (at_ s (S p)); [destruct (_ || _)|destruct (mem_char _ _)]; fin.
  - (* KWordEnd *)
    destruct (_ && _); [|fin]. destruct (at_ s loc); [|exact I]. destruct (mem_char c wc); [fin|].
    destruct (match loc with 0 => _ | S p => _ end); [|exact I]. destruct (negb _); fin.
  - fin.
Qed.

(* ---- the invariant ---- *)
Definition okL (o : outcome) : Prop := match o with Ok l _ => bl l | Err x => bx x | Div => True end.
Definition Cl (a : args) : Prop := lb (a_e a) = true /\ a_s a = s /\ bl (a_loc a).
Hypothesis HG : forallb lb G = true.

Notation S := (sinv args outcome unit (fun _ _ => tt) Cl okL (fun _ => okL) tt).

Ltac ret := apply SI_ret; simpl; auto.
Ltac callc Hc Hl := apply SI_call; [split; [exact Hc|split; [reflexivity|exact Hl]]|intros [?l ?r|?x|] ?Ho; cbn [okL] in *].

Lemma S_escape x : bx x -> S (escape x).
Proof. intros H. ret. Qed.

(* _skipIgnorables *)
Lemma S_skip_inner fail fuel : forall ig loc found k,
  lb ig = true -> bl loc -> (forall x, bx x -> S (fail x)) -> (forall l b, bl l -> S (k l b)) ->
  S (skip_ign_inner fail fuel ig s loc found k).
Proof.
  induction fuel as [|f IH]; intros ig loc found k Hw Hl Hf Hk; simpl; [ret|].
  unfold call. callc Hw Hl.
  - apply IH; assumption.
  - destruct (is_pe (xk x)); [apply Hk; exact Hl|apply Hf; assumption].
  - ret.
Qed.

Lemma S_skip_pass fail fuel : forall igs loc found k,
  forallb lb igs = true -> bl loc -> (forall x, bx x -> S (fail x)) -> (forall l b, bl l -> S (k l b)) ->
  S (skip_ign_pass fail fuel igs s loc found k).
Proof.
  induction igs as [|ig igs IH]; intros loc found k Hw Hl Hf Hk; simpl; [apply Hk; exact Hl|].
  simpl in Hw. apply andb_prop in Hw as [H1 H2].
  apply S_skip_inner; try assumption. intros l b Hb. apply IH; assumption.
Qed.

Lemma S_skip_ignorables fail : forall rounds igs loc k,
  forallb lb igs = true -> bl loc -> (forall x, bx x -> S (fail x)) -> (forall l, bl l -> S (k l)) ->
  S (skip_ignorables fail rounds igs s loc k).
Proof.
  induction rounds as [|r IH]; intros igs loc k Hw Hl Hf Hk; destruct igs as [|ig igs]; cbn [skip_ignorables];
    try (apply Hk; exact Hl); [ret|].
  apply S_skip_pass; try assumption.
  intros l b Hb. destruct (negb b); [apply Hk; exact Hb|]. destruct (Nat.eqb l loc); [apply Hk; exact Hb|]. apply IH; assumption.
Qed.

Lemma skip_white_bl loc w : bl loc -> bl (skip_white s loc w).
Proof. unfold bl. intros H. pose proof (skip_white_le s loc w). lia. Qed.

(* preParse: never beyond len + 1 (GoToColumn is outside the class) *)
Lemma S_pre_parse fail e loc k :
  lb e = true -> bl loc -> (forall x, bx x -> S (fail x)) -> (forall l, bl l -> S (k l)) -> S (pre_parse fail e s loc k).
Proof.
  intros Hw Hl Hf Hk. pose proof (lb_ign e Hw) as Hi.
  assert (Hgen : S (skip_ignorables fail (length s + 2) (ign_of e) s loc (fun loc1 =>
            k (if skipws (attrs_of e) then skip_white s loc1 (white (attrs_of e)) else loc1)))).
  { apply S_skip_ignorables; try assumption. intros l Hb. apply Hk. destruct (skipws _); [apply skip_white_bl|]; exact Hb. }
  unfold pre_parse.
  destruct e as [a i t| | | | |]; try exact Hgen.
  destruct t; try exact Hgen.
  - (* LineStart *)
    destruct loc as [|p]; [apply Hk; exact Hl|]. set (loc := Datatypes.S p) in *.
    destruct orig_has_nl; [|apply Hk; apply skip_white_bl; exact Hl].
    apply Hk.
    match goal with |- bl (?g (length s) ?r0) =>
      assert (Hgo : forall fuel r, bl r -> bl (g fuel r)); [|apply Hgo; apply skip_white_bl; exact Hl] end.
    induction fuel as [|f IH]; intros r Hr; simpl; [exact Hr|].
    destruct (at_ s r) as [ch|] eqn:E; [|exact Hr]. destruct (N.eqb ch NL); [|exact Hr].
    apply IH. apply skip_white_bl. apply at_some in E. unfold bl. lia.
  - (* GoToColumn *) discriminate Hw.
Qed.

(* the tail of _parseNoCache: an action raises at the location it was called with *)
Lemma run_actions_loc a acs : forall loc r x, run_actions a acs loc r = inr x -> xloc x = Z.of_nat loc.
Proof.
  induction acs as [|ac acs IH]; intros loc r x H; simpl in *; [discriminate|].
  destruct (run_action ac loc r) as [r'|y|y] eqn:E.
  - eapply IH; eassumption.
  - eapply IH; eassumption.
  - assert (xloc y = Z.of_nat loc) as Hy.
    { destruct ac; simpl in E; try discriminate E.
      - injection E as <-. reflexivity.
      - unfold first_len in E.
        destruct (toks r) as [|[ | | | | | ] ?]; try (destruct (Nat.leb minlen _); [discriminate|]); injection E as <-; reflexivity. }
    injection H as <-. destruct (match xk y with XIndex => true | _ => false end); simpl; exact Hy.
Qed.

Lemma S_finish e d pl l r : bl pl -> bl l -> S (finish e d pl l r).
Proof.
  intros Hp Hl. unfold finish.
  destruct (acts (attrs_of e)) as [|ac acs] eqn:E; [ret|].
  destruct (d || calltry (attrs_of e)); [|ret].
  destruct (run_actions _ _ _ _) as [r'|x] eqn:R; [ret|].
  ret. apply run_actions_loc in R. unfold bx, bl in *. lia.
Qed.

Definition res_ok (res : kont) : Prop :=
  match res with
  | inl r => tok_res_ok r
  | inr (l, _) => bl l
  end.

Lemma S_step_k e d pl res : bl pl -> res_ok res -> S (step_k e s d pl res).
Proof.
  intros Hp Hr. unfold step_k. destruct res as [[l r|x|]|[l r]]; simpl in Hr.
  - apply S_finish; assumption.
  - ret.
  - destruct (_ || _); ret; [apply bx_len|apply bx_nat; exact Hp].
  - apply S_finish; assumption.
Qed.

(* inside parseImpl: k is any continuation that is fine on every bounded answer *)
Section Impl.
Variable k : kont -> prg.
Hypothesis Hk : forall res, res_ok res -> S (k res).

Definition obx (best : option exn) : Prop := match best with Some b => bx b | None => True end.

Lemma S_fail x : bx x -> S (fail_of k x).
Proof. intros H. unfold fail_of. destruct (is_index (xk x)); apply Hk; simpl; auto. Qed.

Lemma S_failo o : okL o -> S (failo_of k o).
Proof. intros H. destruct o; simpl; try ret. apply S_fail. exact H. Qed.

Lemma S_ok l r : bl l -> S (k (inr (l, r))).
Proof. intros H. apply Hk. exact H. Qed.

Lemma better_bx best x : obx best -> bx x -> obx (better best x).
Proof. intros Hb Hx. unfold better. destruct best as [b|]; [destruct (xloc b <? xloc x)%Z|]; assumption. Qed.

Lemma S_alt_fail e0 loc best : lb e0 = true -> bl loc -> obx best -> S (alt_fail (fail_of k) e0 s loc best).
Proof.
  intros Hw Hl Hb. unfold alt_fail. destruct best as [b|].
  - apply S_pre_parse; [exact Hw|exact Hl|apply S_fail|].
    intros l _. apply S_fail. destruct (xloc b =? Z.of_nat l)%Z; exact Hb.
  - apply S_fail. apply bx_nat. exact Hl.
Qed.

Lemma S_and_go a d : forall es loc acc estop, forallb lb es = true -> bl loc -> S (and_go k a s d es loc acc estop).
Proof.
  induction es as [|c rest IH]; intros loc acc estop Hw Hl; simpl; [apply S_ok; exact Hl|].
  apply andb_prop in Hw as [Hc Hr].
  assert (Hgen : S (call c s loc d true (fun o =>
            match o with
            | Ok loc' r => and_go k a s d rest loc' (pr_iadd acc r) estop
            | Div => Ret Div
            | Err x =>
              if estop then
                match xk x with
                | XSyntax => fail_of k x
                | XParse | XFatal => fail_of k (mkx XSyntax (xloc x) (xmsg x) (xel x))
                | XIndex => fail_of k (mkx XSyntax (Z.of_nat (length s)) (MNode (nid a) 0) (Some (nid a)))
                | _ => fail_of k x
                end
              else fail_of k x
            end))).
  { unfold call. callc Hc Hl.
    - apply IH; assumption.
    - destruct estop; [|apply S_fail; assumption].
      destruct (xk x); apply S_fail; try assumption; try apply bx_len.
    - ret. }
  destruct c as [ac ic tc| | | | |]; try exact Hgen.
  destruct tc; try exact Hgen. apply IH; assumption.
Qed.

Lemma S_mf_go e0 loc d : lb e0 = true -> bl loc -> forall es best, forallb lb es = true -> obx best ->
  S (mf_go k e0 s loc d es best).
Proof.
  intros Hw0 Hl. induction es as [|c rest IH]; intros best Hw Hb; simpl; [apply S_alt_fail; assumption|].
  apply andb_prop in Hw as [Hc Hr]. unfold call. callc Hc Hl.
  - apply S_ok. assumption.
  - destruct (is_fatal (xk x)); [apply S_fail; assumption|].
    destruct (is_pe (xk x)).
    + apply IH; [exact Hr|]. apply better_bx; assumption.
    + destruct (is_index (xk x)); [|apply S_fail; assumption].
      apply IH; [exact Hr|]. destruct (best_loc best <? _)%Z; [apply bx_len|exact Hb].
  - ret.
Qed.

Lemma S_try_parse c loc d rf kk : lb c = true -> bl loc -> (forall o, okL o -> S (kk o)) -> S (try_parse c s loc d rf kk).
Proof.
  intros Hc Hl Hkk. unfold try_parse, call. callc Hc Hl.
  - apply Hkk. assumption.
  - destruct (is_fatal (xk x) && negb rf); apply Hkk; simpl; [apply bx_nat; exact Hl|assumption].
  - apply Hkk. exact I.
Qed.

Lemma S_can_parse_next c loc d kk : lb c = true -> bl loc -> (forall b, S (kk b)) -> S (can_parse_next (fail_of k) c s loc d kk).
Proof.
  intros Hc Hl Hkk. unfold can_parse_next. apply S_try_parse; [exact Hc|exact Hl|].
  intros [l r|x|] Ho; simpl; [apply Hkk| |ret].
  destruct (is_pe (xk x) || is_index (xk x)); [apply Hkk|apply S_fail; assumption].
Qed.

Definition lbo (o : option expr) : Prop := match o with Some n => lb n = true | None => True end.

Lemma S_check_ender ne loc kk : lbo ne -> bl loc ->
  (forall r, (match r with Some o => okL o | None => True end) -> S (kk r)) -> S (check_ender ne s loc kk).
Proof.
  intros Hn Hl Hkk. unfold check_ender. destruct ne as [n|]; [|apply Hkk; exact I].
  apply S_try_parse; [exact Hn|exact Hl|]. intros [l r|x|] Ho; apply Hkk; simpl; auto.
Qed.

Definition fatals_ok (fs : list (exn * nat)) : Prop := Forall (fun p => bx (fst p)) fs.
Definition matches_ok (ms : list (nat * expr)) : Prop := Forall (fun p => lb (snd p) = true) ms.

Lemma S_or_pass1 e0 loc : bl loc -> forall es matches fatals best kk,
  forallb lb es = true -> obx best -> fatals_ok fatals -> matches_ok matches ->
  (forall ms fs b, obx b -> fatals_ok fs -> matches_ok ms -> S (kk ms fs b)) ->
  S (or_pass1 (fail_of k) e0 es s loc matches fatals best kk).
Proof.
  intros Hl. induction es as [|c rest IH]; intros matches fatals best kk Hw Hb Hf Hm Hkk; simpl; [apply Hkk; assumption|].
  apply andb_prop in Hw as [Hc Hr]. apply S_try_parse; [exact Hc|exact Hl|].
  intros [l r|x|] Ho; simpl.
  - apply IH; try assumption. apply Forall_app. split; [exact Hm|]. constructor; [exact Hc|constructor].
  - destruct (is_fatal (xk x)).
    + apply IH; try assumption; [exact I|]. apply Forall_app. split; [exact Hf|]. constructor; [exact Ho|constructor].
    + destruct (is_pe (xk x)).
      * apply IH; try assumption. destruct fatals; [|exact Hb]. apply better_bx; assumption.
      * destruct (is_index (xk x)); [|apply S_fail; assumption].
        apply IH; try assumption. destruct (best_loc best <? _)%Z; [apply bx_len|exact Hb].
  - ret.
Qed.

Lemma Forall_insert_desc {X} (P : X -> Prop) key x : forall l, P x -> Forall P l -> Forall P (insert_desc key x l).
Proof.
  induction l as [|y l IH]; intros Hx Hl; simpl; [constructor; [exact Hx|constructor]|].
  destruct (key y <? key x)%Z; [constructor; assumption|].
  inversion Hl; subst. constructor; [assumption|apply IH; assumption].
Qed.
Lemma Forall_sort_desc {X} (P : X -> Prop) key l : Forall P l -> Forall P (sort_desc key l).
Proof.
  unfold sort_desc. intros H. assert (Forall P (@nil X)) as H0 by constructor. revert H0. generalize (@nil X).
  induction H as [|x l Hx Hl IH]; intros acc Ha; simpl; [exact Ha|].
  apply IH. apply Forall_insert_desc; assumption.
Qed.

Lemma pick_fatal_ok fatals fx : fatals_ok fatals -> pick_fatal fatals = Some fx -> bx fx.
Proof.
  intros Hf. unfold pick_fatal.
  pose proof (Forall_sort_desc _ (fun p : exn * nat => xloc (fst p)) fatals Hf) as H1.
  destruct (sort_desc _ fatals) as [|p1 [|p2 rest]] eqn:E; [discriminate| |].
  - intros [= <-]. inversion H1; assumption.
  - destruct (xloc (fst p1) =? xloc (fst p2))%Z.
    + pose proof (Forall_sort_desc _ (fun p : exn * nat => (xloc (fst p) * 1000000 + Z.of_nat (snd p))%Z) _ H1) as H2.
      destruct (sort_desc _ (p1 :: p2 :: rest)) as [|q qs]; [discriminate|]. intros [= <-]. inversion H2; assumption.
    + intros [= <-]. inversion H1; assumption.
Qed.

Definition longest_ok (lg : option (nat * pres)) : Prop := match lg with Some (l, _) => bl l | None => True end.

Lemma S_or_go2 tail loc : bl loc -> (forall b, obx b -> S (tail b)) ->
  forall ms longest best, matches_ok ms -> longest_ok longest -> obx best -> S (or_go2 k tail s loc ms longest best).
Proof.
  intros Hl Ht. induction ms as [|[loc1 c] rest IH]; intros longest best Hm Hlg Hb; simpl.
  - destruct longest as [[l r]|]; [apply S_ok; exact Hlg|apply Ht; exact Hb].
  - inversion Hm as [|? ? Hc Hr]; subst. simpl in Hc.
    destruct (match longest with Some (l, _) => Nat.leb loc1 l | None => false end).
    + destruct longest as [[l r]|]; [apply S_ok; exact Hlg|ret].
    + unfold call. callc Hc Hl.
      * destruct (Nat.leb loc1 l); [apply S_ok; assumption|]. apply IH; try assumption.
        destruct longest as [[l0 r0]|]; [destruct (Nat.ltb l0 l)|]; simpl; assumption.
      * destruct (is_pe (xk x)); [|apply S_fail; assumption].
        apply IH; try assumption. apply better_bx; assumption.
      * ret.
Qed.

Lemma S_rep_go foe e0 body ne d : forallb lb (ign_of e0) = true -> lb body = true -> lbo ne ->
  (forall o, okL o -> S (foe o)) ->
  forall fuel loc acc, bl loc -> S (rep_go k foe e0 body ne s d fuel loc acc).
Proof.
  intros Hi Hb Hn Hfoe. induction fuel as [|f IH]; intros loc acc Hl; simpl; [ret|].
  assert (Hstop : forall o, okL o -> S (match o with
            | Err x => if is_pe (xk x) || is_index (xk x) then k (inr (loc, RPR acc)) else foe o
            | _ => Ret Div end)).
  { intros [l r|x|] Ho; try ret. destruct (is_pe (xk x) || is_index (xk x)); [apply S_ok; exact Hl|apply Hfoe; assumption]. }
  apply S_skip_ignorables; [exact Hi|exact Hl| |].
  - intros x Hx. apply (Hstop (Err x)). exact Hx.
  - intros l Hbl. apply S_check_ender; [exact Hn|exact Hbl|]. intros [o|] Ho; [apply Hstop; assumption|].
    unfold call. callc Hb Hbl.
    + match goal with |- context [Nat.eqb ?a loc] => destruct (Nat.eqb a loc) end; [ret|apply IH; assumption].
    + apply (Hstop (Err x)). assumption.
    + ret.
Qed.

Lemma S_skipto_ign fuel ignorer : lb ignorer = true -> forall loc kk, bl loc -> (forall l, bl l -> S (kk l)) ->
  S (skipto_ign (fail_of k) fuel ignorer s loc kk).
Proof.
  intros Hw. induction fuel as [|f IH]; intros loc kk Hl Hkk; simpl; [apply Hkk; exact Hl|].
  apply S_try_parse; [exact Hw|exact Hl|]. intros [l r|x|] Ho; simpl.
  - destruct (Nat.eqb l loc); [apply Hkk; exact Hl|apply IH; assumption].
  - destruct (is_pbe (xk x)); [apply Hkk; exact Hl|apply S_fail; assumption].
  - ret.
Qed.

(* SkipTo's scan: `while tmploc <= instrlen` is tested before every use of tmploc *)
Lemma S_skipto_scan e0 target ignorer failon : lb target = true -> lbo ignorer -> lbo failon ->
  forall fuel loc0 loc kk, bl loc0 -> (forall l, bl l -> S (kk l)) ->
  S (skipto_scan (fail_of k) fuel e0 target ignorer failon s loc0 loc kk).
Proof.
  intros Ht Hi Hf. induction fuel as [|f IH]; intros loc0 loc kk Hl0 Hkk; simpl; [apply S_fail; apply bx_nat; exact Hl0|].
  destruct (Nat.ltb (length s) loc) eqn:El; [apply S_fail; apply bx_nat; exact Hl0|].
  apply Nat.ltb_ge in El. assert (Hl : bl loc) by (unfold bl; lia).
  assert (Hafter : S ((match ignorer with
         | Some ig => skipto_ign (fail_of k) (length s + 2) ig s loc
         | None => fun k' => k' loc
         end) (fun tl =>
           call target s tl false false (fun o =>
             match o with
             | Ok _ _ => kk tl
             | Div => Ret Div
             | Err x => if is_pe (xk x) || is_index (xk x)
                        then skipto_scan (fail_of k) f e0 target ignorer failon s loc0 (Datatypes.S tl) kk
                        else fail_of k x
             end)))).
  { assert (Hin : forall tl, bl tl -> S (call target s tl false false (fun o =>
             match o with
             | Ok _ _ => kk tl
             | Div => Ret Div
             | Err x => if is_pe (xk x) || is_index (xk x)
                        then skipto_scan (fail_of k) f e0 target ignorer failon s loc0 (Datatypes.S tl) kk
                        else fail_of k x
             end))).
    { intros tl Htl. unfold call. callc Ht Htl.
      - apply Hkk. exact Htl.
      - destruct (is_pe (xk x) || is_index (xk x)); [apply IH; assumption|apply S_fail; assumption].
      - ret. }
    destruct ignorer as [ig|]; [apply S_skipto_ign; [exact Hi|exact Hl|exact Hin]|apply Hin; exact Hl]. }
  destruct failon as [fo|]; [|exact Hafter].
  apply S_can_parse_next; [exact Hf|exact Hl|]. intros [|]; [apply S_fail; apply bx_nat; exact Hl0|exact Hafter].
Qed.

(* ---- Each ---- *)
Lemma lb_named_copy b n : lb b = true -> lb (named_copy b n) = true.
Proof. destruct b; simpl; intros H; exact H. Qed.

Definition ents_lb (l : list each_ent) : Prop := Forall (fun en => lb (ee_e en) = true) l.

Lemma ents_lb_remove c : forall l, ents_lb l -> ents_lb (remove_cls c l).
Proof.
  induction l as [|en l IH]; intros H; simpl; [exact H|].
  inversion H; subst. destruct (Nat.eqb (ee_cls en) c); [assumption|]. constructor; [assumption|apply IH; assumption].
Qed.

Lemma ents_lb_flat_map {X} (f : X -> list each_ent) (l : list X) :
  (forall x, In x l -> ents_lb (f x)) -> ents_lb (flat_map f l).
Proof.
  induction l as [|x l IH]; intros H; simpl; [constructor|].
  apply Forall_app. split; [apply H; left; reflexivity|apply IH; intros y Hy; apply H; right; exact Hy].
Qed.

Lemma zip_lb es info z : forallb lb es = true -> In z (each_zip es info) -> lb (fst z) = true.
Proof.
  intros Hw Hz. destruct z as [c i0]. unfold each_zip in Hz. apply in_combine_l in Hz.
  rewrite forallb_forall in Hw. apply Hw. exact Hz.
Qed.

Lemma lb_rep_body a0 i0 z0 b ne0 : lb (Rep a0 i0 z0 b ne0) = true -> lb b = true.
Proof. simpl. rewrite ?lbl_fix. intros H. repeat (apply andb_prop in H as [H ?]). assumption. Qed.
Lemma lb_enh_body a0 i0 k0 b : lb (Enh a0 i0 k0 b) = true -> lb b = true.
Proof. simpl. rewrite ?lbl_fix. intros H. repeat (apply andb_prop in H as [H ?]). assumption. Qed.

Lemma each_groups_lb es info : forallb lb es = true ->
  ents_lb (each_req1 (each_zip es info)) /\ ents_lb (each_multi true (each_zip es info)) /\
  ents_lb (each_multi false (each_zip es info)) /\ ents_lb (each_opt1 (each_zip es info)) /\
  ents_lb (each_opt2 (each_zip es info)).
Proof.
  intros Hw.
  assert (Hm : forall b0, ents_lb (each_multi b0 (each_zip es info))).
  { intros b0. apply ents_lb_flat_map. intros [c [me [cs co]]] Hz. pose proof (zip_lb es info _ Hw Hz) as Hc.
    cbn [fst snd] in *. destruct c as [| | |a0 i0 z0 b ne0| |]; try constructor.
    destruct (b0 && z0); constructor; [|constructor].
    unfold ee_e, rep_operand. cbn [snd]. pose proof (lb_rep_body _ _ _ _ _ Hc) as Hb.
    destruct (rsname (attrs_of (Rep a0 i0 z0 b ne0))); cbn [snd]; [apply lb_named_copy|]; exact Hb. }
  repeat split; try apply Hm.
  - apply ents_lb_flat_map. intros [c [me [cs co]]] Hz. pose proof (zip_lb es info _ Hw Hz) as Hc. cbn [fst snd] in *.
    destruct (is_opt c || is_rep c); constructor; [exact Hc|constructor].
  - apply ents_lb_flat_map. intros [c [me [cs co]]] Hz. pose proof (zip_lb es info _ Hw Hz) as Hc. cbn [fst snd] in *.
    destruct c as [| |a0 i0 k0 b| | |]; try constructor. destruct k0; constructor; try constructor.
    unfold ee_e. cbn [snd]. eapply lb_enh_body. exact Hc.
  - apply ents_lb_flat_map. intros [c [me [cs co]]] Hz. pose proof (zip_lb es info _ Hw Hz) as Hc. cbn [fst snd] in *.
    destruct (me && negb (is_opt c) && negb (is_zom c)); constructor; [exact Hc|constructor].
Qed.

Lemma each_order_lb es en : forallb lb es = true -> lb (ee_e en) = true -> lb (each_order es en) = true.
Proof.
  intros Hw He. unfold each_order. destruct (ee_copy en); [exact He|].
  destruct (find _ (rev es)) as [c|] eqn:F; [|exact He].
  apply find_some in F as [Hin _]. apply in_rev in Hin. rewrite forallb_forall in Hw. apply Hw. exact Hin.
Qed.

Lemma S_each_round es : forallb lb es = true -> forall cands tl reqd opt mo nf fatals kk,
  bl tl -> ents_lb cands -> ents_lb reqd -> ents_lb opt -> forallb lb mo = true -> fatals_ok fatals ->
  (forall tl' reqd' opt' mo' nf' fs', bl tl' -> ents_lb reqd' -> ents_lb opt' -> forallb lb mo' = true -> fatals_ok fs' ->
     S (kk tl' reqd' opt' mo' nf' fs')) ->
  S (each_round (fail_of k) es s cands tl reqd opt mo nf fatals kk).
Proof.
  intros Hw. induction cands as [|en rest IH]; intros tl reqd opt mo nf fatals kk Hl Hc Hr Ho Hm Hf Hkk; cbn [each_round].
  - apply Hkk; assumption.
  - inversion Hc as [|? ? Hen Hrest]; subst.
    apply S_try_parse; [exact Hen|exact Hl|]. intros [l r|x|] Hox; simpl.
    + assert (Hm' : forallb lb (mo ++ [each_order es en]) = true).
      { rewrite forallb_app, Hm. simpl. rewrite each_order_lb; auto. }
      destruct (mem_cls (ee_cls en) reqd); [apply IH; try assumption; apply ents_lb_remove; assumption|].
      destruct (mem_cls (ee_cls en) opt); [apply IH; try assumption; apply ents_lb_remove; assumption|].
      apply IH; assumption.
    + destruct (is_fatal (xk x)).
      * apply IH; try assumption. apply Forall_app. split; [exact Hf|]. constructor; [exact Hox|constructor].
      * destruct (is_pe (xk x)); [apply IH; assumption|]. apply S_fail. exact Hox.
    + ret.
Qed.

Lemma S_each_loop es multis : forallb lb es = true -> ents_lb multis ->
  forall fuel tl reqd opt mo kk, bl tl -> ents_lb reqd -> ents_lb opt -> forallb lb mo = true ->
  (forall reqd' opt' mo' fs', ents_lb reqd' -> ents_lb opt' -> forallb lb mo' = true -> fatals_ok fs' -> S (kk reqd' opt' mo' fs')) ->
  S (each_loop (fail_of k) es s fuel tl reqd opt multis mo kk).
Proof.
  intros Hw Hmu. induction fuel as [|f IH]; intros tl reqd opt mo kk Hl Hr Ho Hm Hkk; cbn [each_loop]; [ret|].
  apply S_each_round; try assumption; try constructor.
  - apply Forall_app. split; [exact Hr|]. apply Forall_app. split; assumption.
  - intros tl' reqd' opt' mo' nf' fs' Hl' Hr' Ho' Hm' Hf'.
    destruct (Nat.eqb nf' _); [apply Hkk; assumption|].
    destruct (_ && _); [ret|]. apply IH; assumption.
Qed.

Lemma S_each_go2 d : forall mo loc acc, bl loc -> forallb lb mo = true -> S (each_go2 k s d mo loc acc).
Proof.
  induction mo as [|c rest IH]; intros loc acc Hl Hm; cbn [each_go2]; [apply S_ok; exact Hl|].
  simpl in Hm. apply andb_prop in Hm as [Hc Hr]. unfold call. callc Hc Hl.
  - apply IH; assumption.
  - apply S_fail. assumption.
  - ret.
Qed.

Lemma S_each_impl es info loc d : bl loc -> forallb lb es = true -> S (each_impl k es info s loc d).
Proof.
  intros Hl Hw. destruct (each_groups_lb es info Hw) as (H1 & H2 & H3 & H4 & H5).
  unfold each_impl. apply S_each_loop; try assumption; try reflexivity.
  - apply Forall_app. split; assumption.
  - apply Forall_app. split; assumption.
  - intros reqd' opt' mo' fs' Hr' Ho' Hm' Hf'.
    destruct (pick_fatal fs') as [fx|] eqn:PF; [apply S_fail; eapply pick_fatal_ok; eassumption|].
    destruct reqd'; [|apply S_fail; apply bx_nat; exact Hl].
    apply S_each_go2; [exact Hl|]. rewrite forallb_app, Hm'. simpl.
    rewrite forallb_forall. intros c Hc. apply in_flat_map in Hc as (z & Hz & Hc).
    destruct (is_opt (fst z) && _); simpl in Hc; [|destruct Hc]. destruct Hc as [Hc|Hc]; [|destruct Hc].
    subst c. exact (zip_lb es info z Hw Hz).
Qed.
End Impl.

Lemma env_lb id c : nth_error G id = Some c -> lb c = true.
Proof. intros H. rewrite forallb_forall in HG. apply HG. eapply nth_error_In. exact H. Qed.

Lemma enh_rewrite_bx a fw loc x : bl loc -> bx x -> bx (enh_rewrite a fw loc x).
Proof.
  intros Hl Hx. unfold enh_rewrite. destruct (xk x); try exact Hx;
    unfold bx, bl in *; cbn [xloc mkx]; destruct (xloc x =? 0)%Z; lia.
Qed.

Lemma S_impl e pl d k : lb e = true -> bl pl -> (forall res, res_ok res -> S (k res)) -> S (impl G e s pl d k).
Proof.
  intros Hw Hl Hk.
  pose proof (S_fail k Hk) as Hfail.
  pose proof (S_failo k Hk) as Hfailo.
  pose proof (S_ok k Hk) as Hok.
  pose proof (fun kk m el => bx_nat kk pl m el Hl) as Hbx.
  destruct e as [a i t|a i kd es|a i kd c|a i z body ne|a i target incl ig2 fo|a i id]; simpl in Hw; rewrite ?lbl_fix in Hw.
  - (* tokens *)
    cbn [impl]. apply Hk. simpl. apply andb_prop in Hw as [Ht _]. apply tok_bound; assumption.
  - apply andb_prop in Hw as [Hi Hes].
    destruct kd; cbn [impl].
    + (* And *)
      destruct es as [|c rest].
      * apply Hk. exact I.
      * simpl in Hes. apply andb_prop in Hes as [Hc Hr]. unfold call. callc Hc Hl.
        -- apply S_and_go; assumption.
        -- apply (Hfailo (Err x)). assumption.
        -- ret.
    + apply S_mf_go; try assumption; [|exact I].
      simpl. rewrite ?lbl_fix. rewrite Hi, Hes. reflexivity.
    + (* Or *)
      assert (Hwe : lb (Nary a i NOr es) = true) by (simpl; rewrite ?lbl_fix; rewrite Hi, Hes; reflexivity).
      assert (Hstart : forall loc, bl loc -> S (or_pass1 (fail_of k) (Nary a i NOr es) es s loc [] [] None
        (fun matches fatals best =>
           let tail := fun best0 : option exn =>
             match pick_fatal fatals with
             | Some fx => fail_of k fx
             | None => alt_fail (fail_of k) (Nary a i NOr es) s loc best0
             end in
           match matches with
           | [] => tail best
           | _ :: _ =>
             let sorted := sort_desc (fun p => Z.of_nat (fst p)) matches in
             if negb d
             then match sorted with
                  | (_, c) :: _ => call c s loc false true (fun o => match o with Ok l r => k (inr (l, RPR r)) | _ => failo_of k o end)
                  | [] => tail best
                  end
             else or_go2 k tail s loc sorted None best
           end))).
      { intros loc Hloc. apply S_or_pass1; try assumption; try exact I; try constructor.
        intros ms fs b Hb Hfs Hms. cbv zeta.
        assert (Htail : forall b0, obx b0 ->
                  S (match pick_fatal fs with
                     | Some fx => fail_of k fx
                     | None => alt_fail (fail_of k) (Nary a i NOr es) s loc b0
                     end)).
        { intros b0 Hb0. destruct (pick_fatal fs) as [fx|] eqn:PF.
          - apply Hfail. eapply pick_fatal_ok; eassumption.
          - apply S_alt_fail; assumption. }
        destruct ms as [|m ms]; [apply Htail; exact Hb|].
        pose proof (Forall_sort_desc _ (fun p : nat * expr => Z.of_nat (fst p)) _ Hms) as Hsorted.
        destruct (negb d).
        - destruct (sort_desc _ (m :: ms)) as [|[l0 c0] rest]; [apply Htail; exact Hb|].
          inversion Hsorted as [|? ? Hc0 ?]; subst. simpl in Hc0. unfold call. callc Hc0 Hloc.
          + apply Hok. assumption.
          + apply (Hfailo (Err x)). assumption.
          + ret.
        - apply S_or_go2; try assumption. exact I. }
      destruct (forallb (fun c => callpre (attrs_of c)) es); [|apply Hstart; exact Hl].
      apply S_pre_parse; [exact Hwe|exact Hl|exact Hfail|exact Hstart].
    + (* Each *)
      apply S_each_impl; assumption.
  - (* enhancements *)
    apply andb_prop in Hw as [Hw Hkd]. apply andb_prop in Hw as [Hi Hc].
    assert (Hpass : S (call c s pl d false (fun o =>
              match o with
              | Ok l r => k (inr (l, RPR r))
              | Div => Ret Div
              | Err x => fail_of k (enh_rewrite a false pl x)
              end))).
    { unfold call. callc Hc Hl; [apply Hok; assumption| |ret].
      apply Hfail. apply enh_rewrite_bx; assumption. }
    destruct kd; cbn [impl]; try apply Hpass.
    + (* EOpt *)
      unfold call. callc Hc Hl; [apply Hok; assumption| |ret].
      destruct (is_pe (xk x) || is_index (xk x)); [|apply Hfail; assumption].
      destruct default; [destruct (rsname (attrs_of c)) as [[|? ?]|]|]; apply Hok; exact Hl.
    + (* ENot *)
      apply S_can_parse_next; [exact Hk|exact Hc|exact Hl|].
      intros [|]; [apply Hfail; apply Hbx|apply Hok; exact Hl].
    + (* EFollowedBy *)
      unfold call. callc Hc Hl; [apply Hok; exact Hl|apply (Hfailo (Err x)); assumption|ret].
    + (* ELookahead *)
      apply S_try_parse; [exact Hc|exact Hl|]. intros [l r|x|] Ho; [apply Hok; exact Hl|apply (Hfailo (Err x)); assumption|ret].
    + (* ELocated *)
      unfold call. callc Hc Hl; [|apply (Hfailo (Err x)); assumption|ret].
      destruct (rsname _) as [[|? ?]|]; apply Hok; assumption.
    + (* EAtStringStart *)
      destruct (negb (Nat.eqb pl 0)); [apply Hfail; apply Hbx|apply Hpass].
    + (* EAtLineStart *)
      destruct (negb (Nat.eqb (col_at s pl) 1)); [apply Hfail; apply Hbx|apply Hpass].
    + (* EPrecededBy *)
      destruct exact; [|discriminate].
      destruct (Nat.ltb pl retreat); [apply Hfail; apply Hbx|].
      assert (Hr : bl (pl - retreat)) by (unfold bl in *; lia).
      unfold call. callc Hc Hr; [apply Hok; exact Hl|apply (Hfailo (Err x)); assumption|ret].
  - (* repetition *)
    apply andb_prop in Hw as [Hw Hne0]. apply andb_prop in Hw as [Hi Hb]. cbn [impl].
    assert (Hne : lbo ne) by (destruct ne; [assumption|exact I]).
    assert (Hfoe : forall o, okL o -> S (match o with
              | Err x => if z && (is_pe (xk x) || is_index (xk x))
                         then k (inr (pl, RPR (pr_init (RList []) (rsname a) true true)))
                         else fail_of k x
              | _ => Ret Div end)).
    { intros [l r|x|] Ho; try ret. destruct (z && _); [apply Hok; exact Hl|apply Hfail; assumption]. }
    apply S_check_ender; [exact Hne|exact Hl|]. intros [o|] Ho; [apply Hfoe; assumption|].
    unfold call. callc Hb Hl.
    + apply S_rep_go; assumption.
    + apply (Hfoe (Err x)). assumption.
    + ret.
  - (* SkipTo *)
    apply andb_prop in Hw as [Hw Hfo]. apply andb_prop in Hw as [Hw Hig]. apply andb_prop in Hw as [Hi Ht]. cbn [impl].
    apply S_skipto_scan; try assumption.
    + destruct ig2; [exact I|]. simpl. rewrite ?lbl_fix. exact Hig.
    + destruct fo; [assumption|exact I].
    + intros tl Htl. destruct incl; [|apply Hok; exact Htl].
      unfold call. callc Ht Htl; [apply Hok; assumption|apply (Hfailo (Err x)); assumption|ret].
  - (* Forward *)
    cbn [impl]. destruct id as [id|]; [|apply Hfail; apply Hbx].
    destruct (nth_error G id) as [c|] eqn:E; [|apply Hfail; apply Hbx].
    unfold call. callc (env_lb id c E) Hl; [apply Hok; assumption| |ret].
    apply Hfail. apply enh_rewrite_bx; assumption.
Qed.

Theorem S_step a : Cl a -> S (step G a).
Proof.
  intros (Hw & Hs & Hl). destruct a as [e s0 loc d p]. cbn [a_e a_s a_loc] in *. subst s0. unfold step. cbn [a_e a_s a_loc a_do a_pre].
  assert (Hin : forall pl, bl pl -> S (impl G e s pl d (step_k e s d pl))).
  { intros pl Hp. apply S_impl; [exact Hw|exact Hp|]. intros res Hr. apply S_step_k; assumption. }
  destruct (p && callpre (attrs_of e)); [|apply Hin; exact Hl].
  apply S_pre_parse; [exact Hw|exact Hl|apply S_escape|exact Hin].
Qed.

Theorem parse_okL : forall fuel a o, Cl a -> parse (step G) fuel a = Some o -> okL o.
Proof. exact (parse_inv args outcome Cl okL (step G) S_step). Qed.

(* a tree made by preParse, run against `parse` *)
Lemma run_pre_parse_okL fuel e loc r o : lb e = true -> bl loc ->
  run (parse (step G) fuel) (pre_parse escape e s loc (fun l => Ret (Ok l r))) = Some o -> okL o.
Proof.
  intros Hw Hl H.
  destruct (run_sinv args outcome unit (fun _ _ => tt) Cl okL (fun _ => okL) (parse (step G) fuel)
              (pre_parse escape e s loc (fun l => Ret (Ok l r))) tt) with (o := o) as [_ Hp]; [| |exact H|exact Hp].
  - intros b ob Cb Hb. eapply parse_okL; eassumption.
  - apply S_pre_parse; [exact Hw|exact Hl|apply S_escape|]. intros l Hb. ret.
Qed.
End Loc.

(* ------------------------------------------------------------------------------------------- *)
(* the theorems, for every string                                                               *)
(* ------------------------------------------------------------------------------------------- *)
(* (1) every `_parse` call made at a location <= len + 1 *)
Theorem parse_loc_bound : forall (G : env), forallb lb G = true ->
  forall fuel a o, lb (a_e a) = true -> a_loc a <= length (a_s a) + 1 ->
  parse (step G) fuel a = Some o ->
  match o with
  | Ok l _ => l <= length (a_s a) + 1
  | Err x => (0 <= xloc x <= Z.of_nat (length (a_s a)) + 1)%Z
  | Div => True
  end.
Proof.
  intros G HG fuel a o Hw Hl H.
  exact (parse_okL G (a_s a) HG fuel a o (conj Hw (conj eq_refl Hl)) H).
Qed.

Lemma unwrap_loc x : xloc (unwrap x) = xloc x.
Proof. unfold unwrap. destruct (xk x); reflexivity. Qed.

Lemma lb_se_expr dw : lb (se_expr dw) = true.
Proof. reflexivity. Qed.

(* (2) parse_string, with and without parse_all: the string that is parsed is the tab-expanded one *)
Theorem parse_string_loc_bound : forall (G : env) dw root keeptabs input parse_all fuel x,
  forallb lb G = true -> lb root = true ->
  drun (parse (step G) fuel) (parse_string dw root keeptabs input parse_all) = Some (PErr x) ->
  (0 <= xloc x <= Z.of_nat (length (if keeptabs then input else expandtabs input)) + 1)%Z.
Proof.
  intros G dw root kt input pa fuel x HG Hw H. unfold parse_string in H.
  set (s := if kt then input else expandtabs input) in *. cbn [drun] in H.
  destruct (parse (step G) fuel (mkargs root s 0 true true)) as [o|] eqn:E; [|discriminate].
  assert (Ho : okL s o).
  { eapply (parse_okL G s HG fuel); [|exact E]. split; [exact Hw|split; [reflexivity|]]. unfold bl. simpl. lia. }
  destruct o as [l r|y|]; simpl in Ho.
  - destruct pa; [|discriminate]. rewrite drun_lift in H.
    destruct (run _ _) as [o1|] eqn:E1; [|discriminate].
    apply (run_pre_parse_okL G s HG) in E1; [|exact Hw|exact Ho].
    destruct o1 as [l1 r1|y|]; simpl in E1.
    + cbn [drun] in H.
      destruct (parse (step G) fuel (mkargs (se_expr dw) s l1 true true)) as [o2|] eqn:E2; [|discriminate].
      assert (Ho2 : okL s o2).
      { eapply (parse_okL G s HG fuel); [|exact E2]. split; [apply lb_se_expr|split; [reflexivity|exact E1]]. }
      destruct o2 as [l2 r2|y|]; simpl in H; try discriminate. injection H as <-. rewrite unwrap_loc. exact Ho2.
    + simpl in H. injection H as <-. rewrite unwrap_loc. exact E1.
    + discriminate.
  - simpl in H. injection H as <-. rewrite unwrap_loc. exact Ho.
  - discriminate.
Qed.

(* ------------------------------------------------------------------------------------------- *)
(* concrete grammars (dumps of the real objects after streamline(), tools/harness/dump.py)      *)
(* ------------------------------------------------------------------------------------------- *)
Definition mka (id : nat) (savel cpre midx cust hmsg : bool) (sl : nat) : attrs :=
  {| nid := id; rsname := None; modalr := true; aslist := savel; skipws := true; white := [9;10;13;32]%N;
     callpre := cpre; mayidx := midx; custom := cust; hasmsg := hmsg; acts := []; calltry := false; slen := sl |}.

(* F-06:  GoToColumn(3) + Word("ab")  *)
Definition gotocol_root : expr :=
  Nary (mka 1 true true true false true 19) [] NAnd
    [Tok (mka 2 false true false false false 10) [] (KGoToCol 3);
     Tok (mka 3 false true false false true 6) [] (KWord [97;98]%N [97;98]%N 1 None false false true)].

(* expr = Forward(); atom = Word("ab") | "(" + expr + ")"; expr <<= atom + ZeroOrMore(Opt(",") + atom);
   root = expr ^ Keyword("end", ident_chars="den") *)
Definition ex_atom : expr :=
  Nary (mka 5 true false true false true 28) [] NMatchFirst
    [Tok (mka 6 false true false false true 6) [] (KWord [97;98]%N [97;98]%N 1 None false false true);
     Nary (mka 7 true true true false true 91) [] NAnd
       [Tok (mka 8 false true false false true 3) [] (KLit [40]%N);
        Fwd (mka 2 true true true false false 81) [] (Some 0);
        Tok (mka 9 false true false false true 3) [] (KLit [41]%N)]].
Definition ex_G : env :=
  [Nary (mka 4 true true true false true 72) [] NAnd
     [ex_atom;
      Rep (mka 10 true true true false false 41) [] true
        (Nary (mka 11 true true true false true 36) [] NAnd
           [Enh (mka 12 false true false false false 5) [] (EOpt None) (Tok (mka 13 false true false false true 3) [] (KLit [44]%N));
            ex_atom]) None]].
Definition ex_root : expr :=
  Nary (mka 1 true false true false true 91) [] NOr
    [Fwd (mka 2 true true true false false 81) [] (Some 0);
     Tok (mka 3 false true false false true 5) [] (KKeyword [101;110;100]%N [100;101;110]%N false [])].
