(* Packrat transparency, generic in `step` (so the element semantics can grow without touching this file):
   from any cache satisfying the invariant, with any cache size (FIFO of any size incl. 0, or unbounded),
   the caching handler returns what the plain handler returns, and keeps the invariant. *)
From Coq Require Import List Arith Bool Lia.
From PP Require Import Model.Prog.
Import ListNotations.

Section Packrat.
  Variables A O : Type.
  Variable step : A -> prog A O.
  Variable A_eqb : A -> A -> bool.
  Hypothesis A_eqb_spec : forall a b, A_eqb a b = true -> a = b.
  Variable size : option nat.

  Notation parse := (parse step).
  Notation parsec := (parsec step A_eqb size).

  (* fuel monotonicity of the plain handler *)
  Lemma run_mono (rec1 rec2 : A -> option O) p :
    (forall a o, rec1 a = Some o -> rec2 a = Some o) ->
    forall o, run rec1 p = Some o -> run rec2 p = Some o.
  Proof.
    intros H. induction p as [o'|a k IH]; simpl; intros o Hr; [exact Hr|].
    destruct (rec1 a) as [o1|] eqn:E1; [|discriminate].
    rewrite (H a o1 E1). apply IH. exact Hr.
  Qed.

  Lemma parse_mono f : forall a o, parse f a = Some o -> forall f', f <= f' -> parse f' a = Some o.
  Proof.
    induction f as [|f IH]; intros a o Hp f' Hle; simpl in *; [discriminate|].
    destruct f' as [|f']; [lia|]. simpl.
    eapply run_mono; [|exact Hp]. intros b ob Hb. apply IH; [exact Hb|lia].
  Qed.

  Lemma parse_det f1 f2 a o1 o2 : parse f1 a = Some o1 -> parse f2 a = Some o2 -> o1 = o2.
  Proof.
    intros H1 H2.
    pose proof (parse_mono f1 a o1 H1 (Nat.max f1 f2) (Nat.le_max_l _ _)) as E1.
    pose proof (parse_mono f2 a o2 H2 (Nat.max f1 f2) (Nat.le_max_r _ _)) as E2.
    congruence.
  Qed.

  (* the cache invariant: every stored entry is what the plain parser answers *)
  Definition okm (c : cache A O) := forall a o, In (a, o) c -> exists f, parse f a = Some o.

  Lemma okm_nil : okm [].
  Proof. intros a o []. Qed.

  Lemma lookup_in (c : cache A O) a o : lookup A_eqb c a = Some o -> In (a, o) c.
  Proof.
    induction c as [|[b o'] c IH]; simpl; [discriminate|].
    destruct (A_eqb b a) eqn:E.
    - intros [= <-]. left. f_equal. apply A_eqb_spec. exact E.
    - intros H. right. apply IH. exact H.
  Qed.

  Lemma okm_trim n (c : cache A O) sz : okm c -> okm (trim n c sz).
  Proof.
    revert c; induction n as [|n IH]; intros c H; simpl; [exact H|].
    destruct (Nat.ltb sz (length c)); [|exact H]. apply IH.
    intros a o Hin. apply H. destruct c; simpl in *; [contradiction|now right].
  Qed.

  Lemma okm_set (c : cache A O) a o : okm c -> (exists f, parse f a = Some o) -> okm (cset A_eqb size c a o).
  Proof.
    intros H Hp. unfold cset.
    assert (okm (match lookup A_eqb c a with
              | Some _ => map (fun p => if A_eqb (fst p) a then (fst p, o) else p) c
              | None => c ++ [(a, o)] end)) as H1.
    { destruct (lookup A_eqb c a).
      - intros b o' Hin. apply in_map_iff in Hin as [[b' o''] [Heq Hin]]. simpl in Heq.
        destruct (A_eqb b' a) eqn:E.
        + injection Heq as <- <-. apply A_eqb_spec in E. subst. exact Hp.
        + injection Heq as <- <-. now apply H.
      - intros b o' Hin. apply in_app_iff in Hin as [Hin|[Heq|[]]]; [now apply H|].
        injection Heq as <- <-. exact Hp. }
    destruct size; [apply okm_trim|]; exact H1.
  Qed.

  (* generic simulation over resumption trees: independent of [step] *)
  Lemma runc_sim (recc : cache A O -> A -> cache A O * option O) p :
    (forall c a, okm c -> okm (fst (recc c a)) /\
                 (forall o, snd (recc c a) = Some o -> exists f, parse f a = Some o)) ->
    forall c, okm c ->
      okm (fst (runc recc c p)) /\
      (forall o, snd (runc recc c p) = Some o -> exists f, run (parse f) p = Some o).
  Proof.
    intros Hrec. induction p as [o'|a k IH]; intros c Hc; simpl.
    - split; [exact Hc|]. intros o [= <-]. exists 0. reflexivity.
    - destruct (Hrec c a Hc) as [Hok Hres]. destruct (recc c a) as [c' [o1|]]; simpl in *.
      + destruct (IH o1 c' Hok) as [IH1 IH2]. split; [exact IH1|].
        intros o Ho. destruct (IH2 o Ho) as [f2 Hf2]. destruct (Hres o1 eq_refl) as [f1 Hf1].
        exists (Nat.max f1 f2).
        rewrite (parse_mono f1 a o1 Hf1) by lia.
        eapply run_mono; [|exact Hf2]. intros b ob Hb. eapply parse_mono; [exact Hb|lia].
      + split; [exact Hok|]. intros o Ho. discriminate.
  Qed.

  Theorem parsec_sound fuel : forall c a, okm c ->
     okm (fst (parsec fuel c a)) /\
     (forall o, snd (parsec fuel c a) = Some o -> exists f, parse f a = Some o).
  Proof.
    induction fuel as [|fuel IH]; intros c a Hc; simpl.
    - split; [exact Hc|]. intros o Ho; discriminate.
    - destruct (lookup A_eqb c a) as [o0|] eqn:El; simpl.
      + split; [exact Hc|]. intros o [= <-]. apply Hc. apply lookup_in. exact El.
      + pose proof (runc_sim (Prog.parsec step A_eqb size fuel) (step a) IH c Hc) as [H1 H2].
        destruct (runc (Prog.parsec step A_eqb size fuel) c (step a)) as [c' [o1|]] eqn:E; simpl in *.
        * destruct (H2 o1 eq_refl) as [f Hf]. split.
          -- apply okm_set; [exact H1|]. exists (S f). exact Hf.
          -- intros o [= <-]. exists (S f). exact Hf.
        * split; [exact H1|]. intros o Ho; discriminate.
  Qed.

  (* completeness: whenever the plain parser answers, so does the cached one, given enough fuel *)
  Lemma runc_complete (recc : cache A O -> A -> cache A O * option O) (rec : A -> option O) p :
    (forall c a o, okm c -> rec a = Some o -> snd (recc c a) = Some o /\ okm (fst (recc c a))) ->
    forall c o, okm c -> run rec p = Some o -> snd (runc recc c p) = Some o /\ okm (fst (runc recc c p)).
  Proof.
    intros H. induction p as [o'|a k IH]; intros c o Hc Hr; simpl in *.
    - split; [exact Hr|exact Hc].
    - destruct (rec a) as [o1|] eqn:E; [|discriminate].
      destruct (H c a o1 Hc E) as [H1 H2]. destruct (recc c a) as [c' r]. simpl in *. subst r.
      apply IH; assumption.
  Qed.

  Theorem parsec_complete f : forall c a o, okm c -> parse f a = Some o ->
    snd (parsec f c a) = Some o /\ okm (fst (parsec f c a)).
  Proof.
    induction f as [|f IH]; intros c a o Hc Hp; simpl in *; [discriminate|].
    destruct (lookup A_eqb c a) as [o0|] eqn:El; simpl.
    - split; [|exact Hc]. f_equal. apply lookup_in in El. destruct (Hc a o0 El) as [f0 Hf0].
      eapply parse_det; [exact Hf0|]. instantiate (1 := S f). exact Hp.
    - pose proof (runc_complete (Prog.parsec step A_eqb size f) (parse f) (step a) IH c o Hc Hp) as [H1 H2].
      destruct (runc (Prog.parsec step A_eqb size f) c (step a)) as [c' r]. simpl in *. subst r. simpl.
      split; [reflexivity|]. apply okm_set; [exact H2|]. exists (S f). exact Hp.
  Qed.

  (* headline: from any good cache (in particular the empty one that parse_string starts from after
     reset_cache), for every cache size, the answers coincide whenever either side answers *)
  Corollary packrat_transparent fuel c a o : okm c ->
    snd (parsec fuel c a) = Some o -> exists f, parse f a = Some o.
  Proof. intros Hc H. destruct (parsec_sound fuel c a Hc) as [_ H2]. apply H2. exact H. Qed.

  Corollary packrat_complete fuel c a o : okm c ->
    parse fuel a = Some o -> snd (parsec fuel c a) = Some o.
  Proof. intros Hc H. apply (parsec_complete fuel c a o Hc H). Qed.
End Packrat.
