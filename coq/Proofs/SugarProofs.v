(* C12 (second half): the operator sugar (Model/Sugar.v) means what is documented.
   1. equalities of elaborated TERMS (the strongest form: same nodes, same flags, same sharing), obtained by running the
      transcriptions of __mul__ / __getitem__ / __or__ / _PendingSkip.__add__;
   2. equalities of READINGS (`peg`, at every fuel) where the two sides differ in node identities only;
   3. transfer to the parser model `parse (step G)` through C01's peg_equiv, for operands of the proved class;
   4. closed counter-examples where a documented equivalence is false on the faithful model. *)
From Coq Require Import List ZArith NArith Bool Arith Lia.
From PP Require Import Model.Str Model.Results Model.Prog Model.Core Model.Peg Model.Infix Model.Sugar
                       Proofs.PegEquiv Proofs.InfixProofs Proofs.Flatten.
Import ListNotations.

(* ------------------------------------------------------------------------------------------- *)
(* 0. small facts                                                                                *)
(* ------------------------------------------------------------------------------------------- *)
Lemma str_eqb_refl (a : str) : str_eqb a a = true.
Proof. induction a as [|x a IH]; [reflexivity|]. simpl. rewrite N.eqb_refl. exact IH. Qed.

Lemma repeat_snoc {A} (x : A) n : repeat x n ++ [x] = repeat x (S n).
Proof. induction n as [|n IH]; [reflexivity|]. simpl. rewrite IH. reflexivity. Qed.

Lemma fm_items_repeat e n : and_items e = [e] -> flat_map and_items (repeat e n) = repeat e n.
Proof. intros H. induction n as [|n IH]; [reflexivity|]. simpl. rewrite H, IH. reflexivity. Qed.

(* the reading of a sequence node depends on its attributes only through the whitespace it skips *)
Lemma peg_and_wspec G s f a a' i i' es loc : wspec a = wspec a' ->
  peg G s f (Nary a i NAnd es) loc = peg G s f (Nary a' i' NAnd es) loc.
Proof.
  intros H. destruct f as [|f]; [reflexivity|]. rewrite !peg_and.
  rewrite (eff_of_spec s (Nary a i NAnd es) (wspec a')) by exact H.
  rewrite (eff_of_spec s (Nary a' i' NAnd es) (wspec a')) by reflexivity. reflexivity.
Qed.

Section Sugar.
Variable dw : list char.

(* ------------------------------------------------------------------------------------------- *)
(* 1. term equalities                                                                            *)
(* ------------------------------------------------------------------------------------------- *)
(* expr[...] / expr[0, ...] == ZeroOrMore(expr) ; expr[1, ...] == OneOrMore(expr) *)
Lemma star_eq ids e : sg_star dw ids e = c_zom ids cREP e.
Proof. reflexivity. Qed.
Lemma star0_eq ids e : sg_star0 dw ids e = c_zom ids cREP e.
Proof. reflexivity. Qed.
Lemma plus_eq ids e : sg_plus dw ids e = c_oom ids cREP e.
Proof. reflexivity. Qed.
Lemma times_1_none_eq ids e : sg_times dw ids 1 None e = c_oom ids cREP e.
Proof. reflexivity. Qed.

(* expr[n, ...] == expr*n + ZeroOrMore(expr)  (n >= 2; for n = 0, 1 the two lemmas above) *)
Lemma atleast_eq ids n e : 2 <= n -> sg_atleast dw ids n e = x_atleast dw ids n e.
Proof. intros H. destruct n as [|[|n]]; try lia. reflexivity. Qed.

(* expr[...:stop] == ZeroOrMore(expr, stop_on=stop) ; expr[1, ...:stop] == OneOrMore(expr, stop_on=stop) *)
Lemma until_eq ids e stop : sg_until dw ids e stop = c_zom_stop ids cREP cNOT e stop.
Proof. reflexivity. Qed.
Lemma until1_eq ids e stop : sg_item dw ids (KFrom 1) (Some stop) e = c_oom_stop ids cREP cNOT e stop.
Proof. reflexivity. Qed.

(* expr | '' == Opt(expr) *)
Lemma or_empty_eq ids e : sg_or_empty dw ids e = c_opt ids (cOPT 0) e.
Proof. reflexivity. Qed.

(* expr[n] == expr*n ; expr*n == And([expr]*n) for n >= 2, expr for n = 1, And([]) for n = 0 *)
Lemma item_n_eq ids n e : sg_item dw ids (KN n) None e = sg_mul dw ids n e.
Proof. unfold sg_item, key_tuple, sg_times. cbn [fst snd]. rewrite Nat.sub_diag. reflexivity. Qed.
Lemma mul_eq ids n e : 2 <= n -> sg_mul dw ids n e = c_and dw ids cMUL (repeat e n).
Proof. intros H. destruct n as [|[|n]]; try lia. reflexivity. Qed.
Lemma mul_1_eq ids e : sg_mul dw ids 1 e = e.
Proof. reflexivity. Qed.

(* expr[m, n] (m <= n) == expr*(m, n): And([expr]*m) + Opt(expr + Opt(expr + ...))  with n - m nested Opt *)
Lemma range_eq ids m k e : 2 <= m ->
  sg_range dw ids m (m + S k) e = c_add dw ids cSUM (c_and dw ids cMUL (repeat e m)) (sg_optlist dw ids k e).
Proof.
  intros H. unfold sg_range, sg_item, key_tuple, sg_times. cbn [fst snd].
  replace (m + S k - m) with (S k) by lia. destruct m as [|[|m]]; try lia. reflexivity.
Qed.
Lemma range_1_eq ids k e : sg_range dw ids 1 (1 + S k) e = c_add dw ids cSUM e (sg_optlist dw ids k e).
Proof. reflexivity. Qed.
Lemma range_0_eq ids k e : sg_range dw ids 0 (S k) e = sg_optlist dw ids k e.
Proof. reflexivity. Qed.
Lemma range_mm_eq ids m e : sg_range dw ids m m e = sg_mul dw ids m e.
Proof. unfold sg_range, sg_item, key_tuple, sg_times. cbn [fst snd]. rewrite Nat.sub_diag. reflexivity. Qed.
Lemma optlist_S ids k e :
  sg_optlist dw ids (S k) e = c_opt ids (cOPT (S k)) (c_add dw ids (cOAND (S k)) e (sg_optlist dw ids k e)).
Proof. reflexivity. Qed.

(* a + ... + b  and  a + SkipTo(b)("_skipped*") + b : the same graph except for the `custom` flag of the SkipTo node
   (set_name("...") on the sugar side: it only changes the text of the error message) *)
Definition clear_custom_skip (e : expr) : expr :=
  match e with
  | Skip a i t inc ig fo =>
    Skip {| nid := nid a; rsname := rsname a; modalr := modalr a; aslist := aslist a; skipws := skipws a; white := white a;
            callpre := callpre a; mayidx := mayidx a; custom := false; hasmsg := hasmsg a; acts := acts a;
            calltry := calltry a; slen := slen a |} i t inc ig fo
  | other => other
  end.
Definition map_children (f : expr -> expr) (e : expr) : expr :=
  match e with Nary a i k es => Nary a i k (map f es) | other => other end.

Lemma and_items_skip ids cu cdw b : and_items (c_skipto dw ids cSKIP cu cdw b) = [c_skipto dw ids cSKIP cu cdw b].
Proof. reflexivity. Qed.

Lemma skip_eq ids cdw a b : Forall (fun x => clear_custom_skip x = x) (and_items a ++ and_items b) ->
  map_children clear_custom_skip (sg_skip dw ids cdw a b) = x_skip dw ids cdw a b.
Proof.
  intros H. unfold sg_skip, x_skip, c_add, c_and, mk_and, map_children.
  cbn [flat_map and_items plainb mka acts rsname app]. rewrite !app_nil_r.
  f_equal. rewrite !map_app. apply Forall_app in H as [Ha Hb].
  assert (M : forall l, Forall (fun x => clear_custom_skip x = x) l -> map clear_custom_skip l = l).
  { induction 1 as [|x l Hx _ IH]; [reflexivity|]. simpl. rewrite Hx, IH. reflexivity. }
  rewrite (M _ Ha), (M _ Hb). reflexivity.
Qed.

(* (a + b) + c  and  a + (b + c) : the same term, whatever the operands are *)
Lemma and_left_right_eq ids a b c : sg_and_left dw ids a b c = sg_and_right dw ids a b c.
Proof.
  unfold sg_and_left, sg_and_right, c_add, c_and, mk_and.
  cbn [flat_map and_items plainb mka acts rsname app attrs_of is_white_tok sk_of skipws white].
  rewrite !app_nil_r, app_assoc. reflexivity.
Qed.

(* ... and the term And([a, b, c]) when no operand is itself an unnamed action-free And *)
Lemma and_left_flat_eq ids a b c : and_items a = [a] -> and_items b = [b] -> and_items c = [c] ->
  sg_and_left dw ids a b c = sg_and_flat dw ids [a; b; c].
Proof.
  intros Ha Hb Hc. unfold sg_and_left, sg_and_flat, c_add, c_and, mk_and.
  cbn [flat_map and_items plainb mka acts rsname app attrs_of is_white_tok sk_of skipws white].
  rewrite Ha, Hb, Hc. reflexivity.
Qed.

(* (a | b) | c , a | (b | c) *)
Lemma mf_left_right_eq ids a b c : sg_mf_left dw ids a b c = sg_mf_right dw ids a b c.
Proof.
  unfold sg_mf_left, sg_mf_right, c_mf, mk_mf.
  cbn [flat_map mf_items plainb mka acts rsname app attrs_of].
  rewrite !app_nil_r, app_assoc. reflexivity.
Qed.
Lemma mf_left_flat_eq ids a b c : mf_items a = [a] -> mf_items b = [b] -> mf_items c = [c] ->
  sg_mf_left dw ids a b c = sg_mf_flat dw ids [a; b; c].
Proof.
  intros Ha Hb Hc. unfold sg_mf_left, sg_mf_flat, c_mf, mk_mf.
  cbn [flat_map mf_items plainb mka acts rsname app attrs_of].
  rewrite Ha, Hb, Hc. reflexivity.
Qed.
End Sugar.

(* ------------------------------------------------------------------------------------------- *)
(* 2. expr*n == expr + expr + ... + expr                                                         *)
(* ------------------------------------------------------------------------------------------- *)
Section Mul.
Variable dw : list char.

(* the n-fold `+` chain, streamlined, is the node And([e]*n) of expr*n up to the identity of the node *)
Lemma chain_eq ids n e : and_items e = [e] -> 2 <= n ->
  x_chain dw ids n e = sg_mul dw (fun _ => ids (20 + n)) n e.
Proof.
  intros He Hn. destruct n as [|[|n]]; try lia. clear Hn.
  induction n as [|n IH]; [reflexivity|].
  change (x_chain dw ids (S (S (S n))) e) with (c_add dw ids (20 + S (S (S n))) (x_chain dw ids (S (S n)) e) e).
  rewrite IH. clear IH.
  destruct n as [|n].
  - unfold c_add, sg_mul. cbn [repeat c_and]. unfold mk_and.
    cbn [flat_map and_items plainb mka acts rsname app attrs_of is_white_tok sk_of skipws white fst snd].
    rewrite He. reflexivity.
  - unfold c_add, sg_mul. cbn [repeat c_and]. unfold mk_and.
    cbn [flat_map and_items plainb mka acts rsname app attrs_of is_white_tok sk_of skipws white fst snd].
    rewrite He. cbn [app]. do 4 f_equal. apply (repeat_snoc e n).
Qed.

Lemma mul_wspec ids ids' n e : 2 <= n -> exists a a' es,
  sg_mul dw ids n e = Nary a [] NAnd es /\ sg_mul dw ids' n e = Nary a' [] NAnd es /\ wspec a = wspec a'.
Proof.
  intros Hn. destruct n as [|[|[|n]]]; try lia.
  - eexists; eexists; eexists. split; [reflexivity|]. split; reflexivity.
  - eexists; eexists; eexists. split; [reflexivity|]. split; reflexivity.
Qed.

(* hence, for ANY two numberings of the created nodes: the same reading, at every fuel *)
Lemma mul_chain_peg ids ids' n e : and_items e = [e] -> 2 <= n ->
  forall G s f loc, peg G s f (sg_mul dw ids n e) loc = peg G s f (x_chain dw ids' n e) loc.
Proof.
  intros He Hn G s f loc. rewrite (chain_eq ids' n e He Hn).
  destruct (mul_wspec ids (fun _ => ids' (20 + n)) n e Hn) as (a & a' & es & -> & -> & W).
  apply peg_and_wspec. exact W.
Qed.

(* expr*n reads as the n-fold sequence *)
Lemma mul_reading ids n e : 3 <= n \/ (n = 2 /\ and_items e = [e]) ->
  forall G s f loc, peg G s (S f) (sg_mul dw ids n e) loc = peg_seq (peg G s f) (repeat e n) (eff s (sg_mul dw ids n e) loc) [].
Proof.
  intros H G s f loc. destruct H as [H|[-> He]].
  - destruct n as [|[|[|n]]]; try lia. reflexivity.
  - cbn [sg_mul repeat c_and]. unfold mk_and. rewrite peg_and. cbn [flat_map]. rewrite He. reflexivity.
Qed.

(* expr[n, ...] reads as n copies followed by ZeroOrMore(expr) *)
Lemma atleast_reading ids n e : 2 <= n -> and_items e = [e] ->
  forall G s f loc, peg G s (S f) (sg_atleast dw ids n e) loc =
                    peg_seq (peg G s f) (repeat e n ++ [c_zom ids cREP e]) (eff s (sg_atleast dw ids n e) loc) [].
Proof.
  intros Hn He G s f loc. rewrite atleast_eq by exact Hn. unfold x_atleast, c_add, c_and, mk_and. rewrite peg_and.
  f_equal. cbn [flat_map]. rewrite app_nil_r. f_equal.
  destruct n as [|[|[|n]]]; try lia.
  - cbn [sg_mul c_and mk_and and_items plainb mka acts rsname flat_map repeat]. rewrite He. reflexivity.
  - reflexivity.
Qed.

(* ---- membership in the proved class ---- *)
Lemma all_repeat G e n : in_class G e = true ->
  (fix all (l : list expr) : bool := match l with [] => true | x :: r => in_class G x && all r end) (repeat e n) = true.
Proof. intros H. induction n as [|n IH]; [reflexivity|]. simpl. rewrite H. exact IH. Qed.

Lemma mul_in_class G ids n e : in_class G e = true -> is_white_tok e = false -> and_items e = [e] -> 1 <= n ->
  in_class G (sg_mul dw ids n e) = true.
Proof.
  intros He Hw Hi Hn. destruct n as [|[|n]]; try lia; [exact He|].
  assert (C : child_ok (attrs_of (mk_and dw ids cMUL (sk_of e) e [] [])) e = true).
  { unfold child_ok, mk_and, mka. cbn [attrs_of callpre skipws white]. rewrite Hw. unfold sk_of.
    destruct (callpre (attrs_of e) && skipws (attrs_of e)) eqn:E; [|reflexivity].
    apply andb_prop in E as [_ E]. rewrite E, str_eqb_refl. reflexivity. }
  destruct n as [|n].
  - unfold sg_mul, c_and, mk_and. cbn [repeat flat_map]. rewrite Hi. cbn [app].
    unfold mk_and in C. cbn [in_class]. cbn [mka plain_attrs acts rsname]. cbn [andb].
    cbn [attrs_of] in C. rewrite C, He. reflexivity.
  - unfold sg_mul, c_and. cbn [repeat]. cbn [in_class]. unfold mk_and at 1 2. cbn [attrs_of mka plain_attrs acts rsname andb].
    unfold mk_and in C. cbn [attrs_of] in C. rewrite C. rewrite He. cbn [andb].
    apply (all_repeat G e n). exact He.
Qed.
End Mul.

(* ------------------------------------------------------------------------------------------- *)
(* 3. transfer to the parser model                                                               *)
(* ------------------------------------------------------------------------------------------- *)
(* two expressions of the proved class with the same reading are parsed alike by `_parse` *)
Lemma parse_of_peg_eq G s e1 e2 : env_in_class G = true -> in_class G e1 = true -> in_class G e2 = true ->
  (forall f loc, peg G s f e1 loc = peg G s f e2 loc) ->
  forall fuel loc d, proj (parse (step G) fuel (mkargs e1 s loc d true)) = proj (parse (step G) fuel (mkargs e2 s loc d true)).
Proof.
  intros HG H1 H2 E fuel loc d.
  pose proof (proj1 (peg_equiv G s HG fuel e1 H1 loc d)) as P1.
  pose proof (proj1 (peg_equiv G s HG fuel e2 H2 loc d)) as P2.
  unfold good in P1, P2. rewrite P1, P2, E. reflexivity.
Qed.

(* the fuel-free form: equivalent readings (pegR) give equivalent terminating parses *)
Lemma parse_of_pegR_equiv G s e1 e2 : env_in_class G = true -> in_class G e1 = true -> in_class G e2 = true ->
  (forall loc r, pegR G s e1 loc r <-> pegR G s e2 loc r) ->
  forall fuel loc d r, proj (parse (step G) fuel (mkargs e1 s loc d true)) = Some r -> r <> POut ->
  exists fuel', forall d', proj (parse (step G) fuel' (mkargs e2 s loc d' true)) = Some r.
Proof.
  intros HG H1 H2 E fuel loc d r P N.
  pose proof (proj1 (peg_equiv G s HG fuel e1 H1 loc d)) as P1. unfold good in P1. rewrite P in P1. injection P1 as P1.
  destruct (proj1 (E loc r)) as [f' [E' _]]; [exists fuel; split; [symmetry; exact P1|exact N]|].
  exists f'. intros d'. pose proof (proj1 (peg_equiv G s HG f' e2 H2 loc d')) as P2. unfold good in P2. rewrite P2, E'. reflexivity.
Qed.

(* ------------------------------------------------------------------------------------------- *)
(* 4. splicing a nested sequence at ANY position preserves the reading                           *)
(* ------------------------------------------------------------------------------------------- *)
(* (Flatten.v has the first position.)  Needed: what the nested And skips before its first element does not change what that
   element does (`absorbs`, InfixProofs: true for every element that pre-parses itself with the same whitespace set). *)
Section Splice.
Variable G : env. Variable s : str.
Notation pg := (peg G s).

Definition lift_acc (acc : list tok) (r : res) : res := match r with POk l ts => POk l (acc ++ ts) | o => o end.

Lemma peg_seq_acc rec es : forall l acc, peg_seq rec es l acc = lift_acc acc (peg_seq rec es l []).
Proof.
  induction es as [|e es IH]; intros l acc; cbn [peg_seq].
  - cbn. rewrite app_nil_r. reflexivity.
  - destruct (rec e l) as [l1 t1| | |]; try reflexivity.
    rewrite (IH l1 (acc ++ t1)), (IH l1 ([] ++ t1)). cbn [app].
    destruct (peg_seq rec es l1 []); try reflexivity. cbn. rewrite app_assoc. reflexivity.
Qed.

Lemma peg_seq_cons rec e es l acc :
  peg_seq rec (e :: es) l acc = match rec e l with POk l' ts => peg_seq rec es l' (acc ++ ts) | r => r end.
Proof. reflexivity. Qed.

Variables (a a' ax : attrs) (i i' ix : list expr) (c0 : expr) (rest pre post : list expr).
Hypothesis Wa : wspec a = wspec a'.
Hypothesis Habs : absorbs s (wspec ax) c0.

Let x := Nary ax ix NAnd (c0 :: rest).
Let nested := Nary a i NAnd (pre ++ x :: post).
Let spliced := Nary a' i' NAnd (pre ++ (c0 :: rest) ++ post).

Lemma x_unfold f l : pg (S f) x l = peg_seq (pg f) (c0 :: rest) l [].
Proof.
  unfold x. rewrite peg_and. rewrite (eff_of_spec s _ (wspec ax)) by reflexivity.
  cbn [peg_seq]. rewrite Habs. reflexivity.
Qed.

Lemma splice_le f loc : le_res (pg (S f) nested loc) (pg (S f) spliced loc).
Proof.
  unfold nested, spliced. rewrite !peg_and.
  rewrite (eff_of_spec s (Nary a i NAnd _) (wspec a')) by exact Wa.
  rewrite (eff_of_spec s (Nary a' i' NAnd _) (wspec a')) by reflexivity.
  rewrite !peg_seq_app. destruct (peg_seq (pg f) pre (effw s (wspec a') loc) []) as [l1 acc1| | |]; try apply le_res_refl.
  rewrite peg_seq_app. rewrite (peg_seq_cons (pg f) x post).
  destruct f as [|f0]; [left; reflexivity|].
  rewrite x_unfold.
  rewrite (peg_seq_acc (pg (S f0)) (c0 :: rest) l1 acc1).
  destruct (peg_seq_le (pg f0) (pg (S f0)) (peg_mono_S G s f0) (c0 :: rest) l1 []) as [E|E]; rewrite E; [left; reflexivity|].
  destruct (peg_seq (pg (S f0)) (c0 :: rest) l1 []); cbn [lift_acc]; apply le_res_refl.
Qed.

Lemma splice_ge f loc : le_res (pg (S f) spliced loc) (pg (S (S f)) nested loc).
Proof.
  unfold nested, spliced. rewrite !peg_and.
  rewrite (eff_of_spec s (Nary a i NAnd _) (wspec a')) by exact Wa.
  rewrite (eff_of_spec s (Nary a' i' NAnd _) (wspec a')) by reflexivity.
  rewrite !peg_seq_app.
  destruct (peg_seq_le (pg f) (pg (S f)) (peg_mono_S G s f) pre (effw s (wspec a') loc) []) as [E|E]; rewrite E; [left; reflexivity|].
  destruct (peg_seq (pg (S f)) pre (effw s (wspec a') loc) []) as [l1 acc1| | |]; try apply le_res_refl.
  rewrite peg_seq_app. rewrite (peg_seq_cons (pg (S f)) x post). rewrite x_unfold.
  rewrite (peg_seq_acc (pg f) (c0 :: rest) l1 acc1).
  destruct (peg_seq (pg f) (c0 :: rest) l1 []) as [l2 t2| | |]; cbn [lift_acc]; try apply le_res_refl.
  apply peg_seq_le. apply peg_mono_S.
Qed.

Lemma splice_pegR loc r : pegR G s nested loc r <-> pegR G s spliced loc r.
Proof.
  split; intros [f [E N]].
  - destruct f as [|f]; [rewrite peg_0 in E; congruence|]. exists (S f). split; [|exact N].
    destruct (splice_le f loc) as [X|X]; congruence.
  - destruct f as [|f]; [rewrite peg_0 in E; congruence|]. exists (S (S f)). split; [|exact N].
    destruct (splice_ge f loc) as [X|X]; congruence.
Qed.
End Splice.

(* an operand that the binary `+` splices: either it is not an unnamed action-free And, or it is one, non-empty, whose
   whitespace skipping is absorbed by its first element *)
Definition splice_ok (s : str) (x : expr) : Prop :=
  and_items x = [x] \/
  exists ax ix c0 rest, x = Nary ax ix NAnd (c0 :: rest) /\ plainb ax = true /\ absorbs s (wspec ax) c0.

Lemma splice_step G s a i pre x post : splice_ok s x ->
  forall loc r, pegR G s (Nary a i NAnd (pre ++ x :: post)) loc r <-> pegR G s (Nary a i NAnd (pre ++ and_items x ++ post)) loc r.
Proof.
  intros [H|(ax & ix & c0 & rest & -> & Hp & Habs)] loc r.
  - rewrite H. reflexivity.
  - cbn [and_items]. rewrite Hp. apply splice_pegR; [reflexivity|exact Habs].
Qed.

(* a sequence built with `+` whose first operand pre-parses itself (Literal, Word, Keyword, Group, Opt, ... of such; or a
   MatchFirst of such with one whitespace set: absorb_okb) may be spliced *)
Lemma splice_ok_add s dw ids c a b : and_items a = [a] -> absorb_okb dw a = true -> splice_ok s (c_add dw ids c a b).
Proof.
  intros Ha Hk. right. unfold c_add, c_and, mk_and. cbn [flat_map]. rewrite Ha, app_nil_r. cbn [app].
  eexists; eexists; eexists; eexists. split; [reflexivity|]. split; [reflexivity|].
  apply (absorb_ok s dw a Hk).
Qed.

(* And([a, b, c]) reads as (a + b) + c  [= a + (b + c)]  for all operands that may be spliced *)
Lemma and_flat_left_pegR dw ids a b c G s : splice_ok s a -> splice_ok s b -> splice_ok s c ->
  forall loc r, pegR G s (sg_and_flat dw ids [a; b; c]) loc r <-> pegR G s (sg_and_left dw ids a b c) loc r.
Proof.
  intros Ha Hb Hc loc r.
  unfold sg_and_flat, sg_and_left, c_add, c_and, mk_and.
  cbn [flat_map and_items plainb mka acts rsname app attrs_of is_white_tok sk_of skipws white].
  rewrite !app_nil_r.
  set (A := mka ids cOUT true (if is_white_tok a then false else sk_of a) (if is_white_tok a then dw else white (attrs_of a))
                true true false true []).
  rewrite (splice_step G s A [] [] a [b; c] Ha loc r). cbn [app].
  rewrite (splice_step G s A [] (and_items a) b [c] Hb loc r).
  replace (and_items a ++ and_items b ++ [c]) with ((and_items a ++ and_items b) ++ c :: []) by (rewrite <- app_assoc; reflexivity).
  rewrite (splice_step G s A [] (and_items a ++ and_items b) c [] Hc loc r).
  rewrite app_nil_r. reflexivity.
Qed.

Lemma mul_chain_parse dw ids ids' n e G s : env_in_class G = true -> in_class G e = true ->
  is_white_tok e = false -> and_items e = [e] -> 2 <= n ->
  forall fuel loc d,
  proj (parse (step G) fuel (mkargs (sg_mul dw ids n e) s loc d true)) =
  proj (parse (step G) fuel (mkargs (x_chain dw ids' n e) s loc d true)).
Proof.
  intros HG He Hw Hi Hn. apply parse_of_peg_eq; [exact HG| | |].
  - apply mul_in_class; try assumption. lia.
  - rewrite chain_eq by assumption. apply mul_in_class; try assumption. lia.
  - intros f loc. apply mul_chain_peg; assumption.
Qed.
