(* Proofs for C19 over the regenerated settings model (Gen/GenSettings.v) and the history semantics
   (Model/SettingsRun.v).  Nothing here names a diagnostic flag: the proofs go through for whatever flag list
   the translator finds, and break when save/restore/a setter changes its behaviour. *)
From Coq Require Import List ZArith NArith Bool Lia.
From PP Require Import Model.Str Model.Settings Gen.GenSettings Model.SettingsRun.
Import ListNotations.

(* ---------------------------------------------------------------------------------------------------- *)
(* strings                                                                                               *)
Lemma str_eqb_refl : forall a, str_eqb a a = true.
Proof. induction a; simpl; auto. rewrite N.eqb_refl; auto. Qed.

Lemma str_eqb_eq : forall a b, str_eqb a b = true -> a = b.
Proof.
  induction a; destruct b; simpl; intros H; try discriminate; auto.
  apply andb_true_iff in H. destruct H as [H1 H2]. apply N.eqb_eq in H1. f_equal; auto.
Qed.

(* ---------------------------------------------------------------------------------------------------- *)
(* the toggles `(__diag__.enable if value else __diag__.disable)(name)`                                  *)
Lemma diag_toggle : forall (b : bool) n s,
  (if b then gen_diag_enable n s else gen_diag_disable n s) = gen_diag_set n b s.
Proof.
  intros. unfold gen_diag_enable, gen_diag_disable. destruct b; destruct (gen_diag_set n _ s); reflexivity.
Qed.

(* symbolic execution of a translated body whose only unknown branch conditions are saved diag values *)
Ltac exec := repeat (rewrite diag_toggle; simpl).

(* bsync *)
Lemma bsync_bsync : forall a b l, bsync a (bsync b l) = bsync a l.
Proof.
  intros. unfold bsync. rewrite map_map. apply map_ext. intros e.
  destruct e as [w c]; destruct c; reflexivity.
Qed.

(* ---------------------------------------------------------------------------------------------------- *)
(* restore after save: the central fact                                                                  *)
Definition builtins_after_restore (s0 s' s'' : state) : Prop :=
  (s_ws s' = s_ws s0 /\ s_builtins s'' = s_builtins s') \/ s_builtins s'' = bsync (s_ws s0) (s_builtins s').

Lemma restore_exact : forall s c s', gen_save s = COk c ->
  exists s'', gen_restore c s' = Ok s'' /\ settings_of s'' = settings_of s /\ s_users s'' = s_users s' /\
              builtins_after_restore s s' s''.
Proof.
  intros s c s' H. destruct s, s'. unfold gen_save in H. simpl in H.
  destruct s_packrat; [destruct s_pcache; simpl in H; try discriminate|]; inversion H; subst c; clear H;
    unfold gen_restore; simpl;
    match goal with |- context [str_eqb ?a ?b] => destruct (str_eqb a b) eqn:E end; simpl; exec;
    eexists; (split; [reflexivity|]); unfold settings_of, builtins_after_restore; simpl;
    try (apply str_eqb_eq in E; subst); auto.
Qed.

(* restore is total on the repaired code, whatever the context holds: what it does to the flags, caches, users,
   default whitespace and built-ins *)
Lemma restore_effect : forall c s,
  exists s', gen_restore c s = Ok s' /\
    s_packrat s' = k_packrat_enabled c /\ s_lr s' = k_recursion_enabled c /\ s_pcache s' = k_packrat_cache c /\
    s_parse s' = k_packrat_parse c /\
    s_users s' = s_users s /\
    ((s_ws s' = s_ws s /\ s_builtins s' = s_builtins s) \/
     (s_ws s' = k_default_whitespace c /\ s_builtins s' = bsync (k_default_whitespace c) (s_builtins s))).
Proof.
  intros c s. destruct c, s. unfold gen_restore; simpl.
  match goal with |- context [str_eqb ?a ?b] => destruct (str_eqb a b) eqn:E end; simpl; exec;
    eexists; (split; [reflexivity|]); simpl; auto 10.
Qed.

Lemma save_fields : forall s c, gen_save s = COk c ->
  k_packrat_enabled c = s_packrat s /\ k_recursion_enabled c = s_lr s /\ k_packrat_cache c = s_pcache s /\
  k_packrat_parse c = s_parse s.
Proof.
  intros s c H. destruct s. unfold gen_save in H. simpl in H.
  destruct s_packrat; [destruct s_pcache; simpl in H; try discriminate|]; inversion H; subst c; simpl; auto.
Qed.

(* ---------------------------------------------------------------------------------------------------- *)
(* lists                                                                                                 *)
Lemma nth_error_app_l : forall {A} (l e : list A) k x, nth_error l k = Some x -> nth_error (l ++ e) k = Some x.
Proof. intros A l e k x H. rewrite nth_error_app1; auto. apply nth_error_Some. congruence. Qed.

Lemma nth_error_snoc : forall {A} (l : list A) x, nth_error (l ++ [x]) (length l) = Some x.
Proof. intros. rewrite nth_error_app2 by lia. rewrite Nat.sub_diag. reflexivity. Qed.

Lemma run_app : forall a b w, run (a ++ b) w = run b (run a w).
Proof. induction a; simpl; auto. Qed.

Lemma last_exn_snoc : forall a o w, last_exn (a ++ [o]) w = snd (step o (run a w)).
Proof.
  induction a; intros; simpl; auto.
  destruct (a0 ++ [o]) eqn:E. { destruct a0; discriminate. }
  rewrite <- E. apply IHa.
Qed.

(* ---------------------------------------------------------------------------------------------------- *)
(* context objects are never destroyed or overwritten                                                    *)
Lemma step_ctxs : forall o w, exists e, w_ctxs (fst (step o w)) = w_ctxs w ++ e.
Proof.
  intros o w. destruct o; simpl; unfold lift; simpl;
    try (exists []; rewrite app_nil_r; reflexivity);
    repeat match goal with |- context [match ?x with _ => _ end] => destruct x end; simpl;
    try (exists []; rewrite app_nil_r; reflexivity); eexists; reflexivity.
Qed.

Lemma run_ctxs : forall ops w, exists e, w_ctxs (run ops w) = w_ctxs w ++ e.
Proof.
  induction ops; intros; simpl. { exists []. rewrite app_nil_r. reflexivity. }
  destruct (step_ctxs a w) as [e1 H1]. destruct (IHops (fst (step a w))) as [e2 H2].
  exists (e1 ++ e2). rewrite H2, H1, app_assoc. reflexivity.
Qed.

(* ---------------------------------------------------------------------------------------------------- *)
(* C19_restore                                                                                           *)
Lemma step_restore_saved : forall w1 k c s0,
  nth_error (w_ctxs w1) k = Some c -> gen_save s0 = COk c ->
  exists s'', step (ORestore k) w1 = (mkWorld s'' (w_ctxs w1), None) /\ settings_of s'' = settings_of s0 /\
              s_users s'' = s_users (w_st w1) /\ builtins_after_restore s0 (w_st w1) s''.
Proof.
  intros w1 k c s0 Hc H. destruct (restore_exact s0 c (w_st w1) H) as [s'' [R [A [B C]]]].
  exists s''. simpl. rewrite Hc. unfold lift. rewrite R. simpl. auto.
Qed.

Lemma saved_ctx_stays : forall w body c, gen_save (w_st w) = COk c ->
  nth_error (w_ctxs (run (OSave :: body) w)) (length (w_ctxs w)) = Some c.
Proof.
  intros w body c H. simpl. rewrite H. simpl.
  destruct (run_ctxs body {| w_st := w_st w; w_ctxs := w_ctxs w ++ [c] |}) as [e He]. rewrite He. simpl.
  apply nth_error_app_l. apply nth_error_snoc.
Qed.

Lemma with_block_restores : forall w body c,
  gen_save (w_st w) = COk c ->
  let w1 := run (OSave :: body) w in
  let w2 := run (with_block body w) w in
  last_exn (with_block body w) w = None /\
  settings_of (w_st w2) = settings_of (w_st w) /\
  s_users (w_st w2) = s_users (w_st w1) /\
  builtins_after_restore (w_st w) (w_st w1) (w_st w2).
Proof.
  intros w body c H w1 w2. subst w2. unfold with_block.
  change (OSave :: body ++ [ORestore (length (w_ctxs w))]) with ((OSave :: body) ++ [ORestore (length (w_ctxs w))]).
  rewrite last_exn_snoc, run_app. fold w1.
  destruct (step_restore_saved w1 _ c (w_st w) (saved_ctx_stays w body c H) H) as [s'' [R [A [B C]]]].
  change (run [ORestore (length (w_ctxs w))] w1) with (fst (step (ORestore (length (w_ctxs w))) w1)).
  rewrite R. simpl. auto.
Qed.

(* ---------------------------------------------------------------------------------------------------- *)
(* C19_exclusive: packrat and left recursion are never both enabled; packrat enabled => a real cache       *)
Definition good_ctx (c : ctx) : Prop :=
  k_packrat_enabled c && k_recursion_enabled c = false /\ (k_packrat_enabled c = true -> k_packrat_cache c <> PNull) /\
  k_packrat_parse c = (if k_packrat_enabled c then ParseCache else ParseNoCache).
Definition wgood (w : world) : Prop := good (w_st w) /\ Forall good_ctx (w_ctxs w).

Ltac break_ifs :=
  repeat match goal with
         | |- context [if ?b then _ else _] => destruct b eqn:?; simpl
         | |- context [match ?x with _ => _ end] => destruct x eqn:?; simpl
         end.

Ltac good_fin :=
  simpl in *; repeat match goal with H : _ /\ _ |- _ => destruct H end;
  try (split; [ first [reflexivity | assumption | congruence | idtac]
              | split; [ first [assumption | (intros; first [discriminate | congruence | auto]) | idtac]
                       | first [reflexivity | assumption | congruence | idtac] ] ]).

Lemma enable_packrat_good : forall sz f s, good s -> good (result_state (gen_enable_packrat sz f s)).
Proof.
  intros sz f s G. destruct s. unfold good in *. unfold gen_enable_packrat. simpl in *.
  destruct f, s_lr, s_packrat, sz; good_fin.
Qed.

Lemma enable_lr_good : forall sz f s, good s -> good (result_state (gen_enable_left_recursion sz f s)).
Proof.
  intros sz f s G. destruct s. unfold good in *. unfold gen_enable_left_recursion. simpl in *.
  destruct f, s_lr, s_packrat, sz; simpl; break_ifs; good_fin.
Qed.

Lemma disable_good : forall s, good s -> good (result_state (gen_disable_memoization s)).
Proof. intros s G. destruct s. unfold good in *. simpl in *. good_fin. Qed.

Definition flags (s : state) := (s_packrat s, s_lr s, s_pcache s, s_parse s).
Lemma good_flags : forall s s', flags s' = flags s -> good s -> good s'.
Proof. unfold flags, good. intros s s' H G. inversion H. rewrite H1, H2, H3, H4. exact G. Qed.

(* every operation that is not a memoization switch or a context operation leaves the three fields alone *)
Lemma step_flags : forall o w,
  match o with OPackrat _ _ | OLR _ _ | ODisable | OSave | ORestore _ | OCtxCopy _ => True
  | _ => flags (w_st (fst (step o w))) = flags (w_st w) /\ w_ctxs (fst (step o w)) = w_ctxs w end.
Proof.
  intros o [s cs]. destruct o; auto; destruct s; simpl; try (split; reflexivity);
    try (destruct n; simpl; split; reflexivity).
  - destruct (nth_error s_users i); simpl; split; reflexivity.
  - destruct (nth_error s_builtins i); simpl; split; reflexivity.
Qed.

Lemma step_good : forall o w, wgood w -> wgood (fst (step o w)).
Proof.
  intros o w [G C]. pose proof (step_flags o w) as F.
  destruct o; try (split; [eapply good_flags; [apply F|exact G] | rewrite (proj2 F); exact C]); clear F.
  - split; [apply enable_packrat_good; exact G | exact C].
  - split; [apply enable_lr_good; exact G | exact C].
  - split; [apply disable_good; exact G | exact C].
  - (* OSave *) simpl. destruct (gen_save (w_st w)) eqn:S; simpl; [|split; assumption].
    split; [exact G|]. apply Forall_app. split; [exact C|]. constructor; [|constructor].
    destruct (save_fields _ _ S) as [A [B [D E]]]. unfold good_ctx. rewrite A, B, D, E. exact G.
  - (* ORestore *) simpl. destruct (nth_error (w_ctxs w) i) eqn:N; simpl; [|split; assumption].
    split; [|exact C].
    destruct (restore_effect c (w_st w)) as [s' [R [A [B [D [E _]]]]]]. rewrite R. simpl.
    assert (GC : good_ctx c). { eapply Forall_forall; [exact C|]. eapply nth_error_In; eauto. }
    unfold good. rewrite A, B, D, E. exact GC.
  - (* OCtxCopy *) simpl. destruct (nth_error (w_ctxs w) i) eqn:N; simpl; [|split; assumption].
    split; [exact G|]. apply Forall_app. split; [exact C|]. constructor; [|constructor].
    eapply Forall_forall; [exact C|]. eapply nth_error_In; eauto.
Qed.

Lemma run_good : forall ops w, wgood w -> wgood (run ops w).
Proof. induction ops; simpl; intros; auto. apply IHops. apply step_good. assumption. Qed.

Lemma initial_good : forall b, wgood (import_world b).
Proof. intros. split; [|constructor]. unfold good. simpl. split; [reflexivity|split; [discriminate|reflexivity]]. Qed.

Lemma exclusive_reachable : forall ops w, wgood w ->
  s_packrat (w_st (run ops w)) && s_lr (w_st (run ops w)) = false.
Proof. intros. apply (run_good ops w H). Qed.

Lemma save_total : forall s, good s -> exists c, gen_save s = COk c.
Proof.
  intros s [_ [G _]]. destruct s. unfold gen_save. simpl in *.
  destruct s_packrat; [destruct s_pcache; [exfalso; apply G; auto| |]|]; simpl; eexists; reflexivity.
Qed.

(* refusal without force: RuntimeError and nothing changes *)
Lemma packrat_refused : forall sz s, s_lr s = true -> gen_enable_packrat sz false s = Raised RuntimeError s.
Proof. intros sz s H. destruct s. simpl in H. subst. reflexivity. Qed.

Lemma lr_refused : forall sz s, s_packrat s = true -> gen_enable_left_recursion sz false s = Raised RuntimeError s.
Proof. intros sz s H. destruct s. simpl in H. subst. reflexivity. Qed.

(* with force the other mode is switched off first *)
Lemma packrat_forced : forall sz s, exists s', gen_enable_packrat sz true s = Ok s' /\
  s_packrat s' = true /\ s_lr s' = false /\ s_parse s' = ParseCache /\
  s_pcache s' = match sz with None => PUnbounded | Some n => PFifo n end.
Proof. intros sz s. destruct s, sz; simpl; eexists; split; try reflexivity; simpl; auto. Qed.

Lemma lr_forced : forall sz s,
  let r := gen_enable_left_recursion sz true s in
  s_packrat (result_state r) = false /\ s_parse (result_state r) = ParseNoCache /\
  match sz with
  | None => r = Ok (result_state r) /\ s_lr (result_state r) = true /\ s_memo (result_state r) = MUnbounded
  | Some n => if (n >? 0)%Z then r = Ok (result_state r) /\ s_lr (result_state r) = true /\ s_memo (result_state r) = MLRU n
              else r = Raised NotImplementedError (result_state r) /\ s_lr (result_state r) = false
  end.
Proof.
  intros sz s. cbv zeta. destruct s, sz; unfold gen_enable_left_recursion; simpl; [destruct (z >? 0)%Z|]; simpl;
    repeat split; reflexivity.
Qed.

(* enabling without force when the other mode is off *)
Lemma packrat_plain : forall sz s, s_lr s = false -> s_packrat s = false -> exists s', gen_enable_packrat sz false s = Ok s' /\
  s_packrat s' = true /\ s_lr s' = false /\ s_parse s' = ParseCache /\
  s_pcache s' = match sz with None => PUnbounded | Some n => PFifo n end.
Proof. intros sz s H1 H2. destruct s, sz; simpl in *; subst; simpl; eexists; split; try reflexivity; simpl; auto. Qed.

(* ---------------------------------------------------------------------------------------------------- *)
(* C19_whitespace_scope                                                                                  *)
Lemma set_ws_effect : forall ch s,
  gen_set_default_whitespace_chars ch s = Ok (set_s_builtins (bsync ch (s_builtins s)) (set_s_ws ch s)).
Proof. intros. destruct s. reflexivity. Qed.

Lemma new_expr_ws : forall s, gen_new_expr s = mkExpr (s_ws s) true.
Proof. reflexivity. Qed.

Lemma copy_expr_ws : forall e s,
  gen_copy_expr e s = if e_copydef e then mkExpr (s_ws s) true else e.
Proof. intros [w c] s. destruct c; reflexivity. Qed.

Lemma set_whitespace_chars_effect : forall ch cd e, gen_set_whitespace_chars ch cd e = mkExpr ch cd.
Proof. intros ch cd [w c]. reflexivity. Qed.

Lemma nth_bsync : forall ch l i,
  nth_error (bsync ch l) i = option_map (fun e => if e_copydef e then mkExpr ch true else e) (nth_error l i).
Proof.
  intros. unfold bsync. rewrite nth_error_map. destruct (nth_error l i) as [[w c]|]; simpl; auto. destruct c; reflexivity.
Qed.

(* the three whitespace-related components of a state *)
Definition wsview (s : state) := (s_ws s, s_builtins s, s_users s).

Lemma step_wsview : forall o w,
  match o with OSetWs _ | ONew | OCopy _ | OCopyBuiltin _ | OSetWsOf _ _ _ | ORestore _ => True
  | _ => wsview (w_st (fst (step o w))) = wsview (w_st w) end.
Proof.
  intros o [s cs]. destruct o; auto; destruct s; simpl; try reflexivity;
    try (destruct n; reflexivity); unfold wsview;
    try (unfold gen_enable_packrat, gen_enable_left_recursion; simpl; break_ifs; reflexivity).
Qed.

Lemma wsview_eq : forall a b, wsview a = wsview b ->
  s_ws a = s_ws b /\ s_builtins a = s_builtins b /\ s_users a = s_users b.
Proof. unfold wsview. intros a b H. inversion H. auto. Qed.

Lemma replace_nth_other : forall {A} (l : list A) i j f, i <> j -> nth_error (replace_nth l i f) j = nth_error l j.
Proof.
  induction l; intros; simpl; auto. destruct i, j; simpl; auto; try congruence; try (apply IHl; congruence).
Qed.

(* an existing user expression is written by nothing but its own set_whitespace_chars *)
Lemma step_user_kept : forall o w j e,
  nth_error (s_users (w_st w)) j = Some e -> (forall ch cd, o <> OSetWsOf j ch cd) ->
  nth_error (s_users (w_st (fst (step o w)))) j = Some e.
Proof.
  intros o w j e H NE. pose proof (step_wsview o w) as V.
  destruct o; try (apply wsview_eq in V; destruct V as [V1 [V2 V3]]; rewrite V3; exact H); clear V.
  - (* OSetWs *) destruct w as [s cs], s; simpl in *; exact H.
  - (* ONew *) destruct w as [s cs], s; simpl in *. apply nth_error_app_l; exact H.
  - (* OCopy *) destruct w as [s cs], s; simpl in *. destruct (nth_error s_users i); simpl; [apply nth_error_app_l|]; exact H.
  - (* OCopyBuiltin *) destruct w as [s cs], s; simpl in *. destruct (nth_error s_builtins i); simpl; [apply nth_error_app_l|]; exact H.
  - (* OSetWsOf *) destruct w as [s cs], s; simpl in *. rewrite replace_nth_other; [exact H|].
    intro; subst. apply (NE chars cd). reflexivity.
  - (* ORestore *) simpl. destruct (nth_error (w_ctxs w) i); [|exact H]. simpl.
    destruct (restore_effect c (w_st w)) as [s' [R [_ [_ [_ [_ [U _]]]]]]]. rewrite R. simpl. rewrite U. exact H.
Qed.

Lemma run_user_kept : forall ops w j e,
  nth_error (s_users (w_st w)) j = Some e -> Forall (fun o => forall ch cd, o <> OSetWsOf j ch cd) ops ->
  nth_error (s_users (w_st (run ops w))) j = Some e.
Proof.
  induction ops; simpl; intros; auto. inversion H0; subst. apply IHops; auto. apply step_user_kept; auto.
Qed.

(* built-ins: either untouched, or resynchronised to the current default *)
Definition builtins_inv (B0 : list expr_obj) (s : state) : Prop :=
  s_builtins s = B0 \/ s_builtins s = bsync (s_ws s) B0.

Lemma step_builtins_inv : forall B0 o w, builtins_inv B0 (w_st w) -> builtins_inv B0 (w_st (fst (step o w))).
Proof.
  intros B0 o w I. pose proof (step_wsview o w) as V. unfold builtins_inv in *.
  destruct o; try (apply wsview_eq in V; destruct V as [V1 [V2 V3]]; rewrite V1, V2; exact I); clear V.
  - (* OSetWs *) destruct w as [s cs], s; simpl in *. right. fold (bsync chars s_builtins).
    destruct I as [I|I]; rewrite I; [reflexivity|apply bsync_bsync].
  - destruct w as [s cs], s; exact I.
  - destruct w as [s cs], s; simpl in *. destruct (nth_error s_users i); exact I.
  - destruct w as [s cs], s; simpl in *. destruct (nth_error s_builtins i); exact I.
  - destruct w as [s cs], s; exact I.
  - (* ORestore *) simpl. destruct (nth_error (w_ctxs w) i); [|exact I]. simpl.
    destruct (restore_effect c (w_st w)) as [s' [R [_ [_ [_ [_ [_ [[W B]|[W B]]]]]]]]]; rewrite R; simpl.
    + rewrite W, B. exact I.
    + right. rewrite W, B. destruct I as [I|I]; rewrite I; [reflexivity|apply bsync_bsync].
Qed.

Lemma run_builtins_inv : forall B0 ops w, builtins_inv B0 (w_st w) -> builtins_inv B0 (w_st (run ops w)).
Proof. induction ops; simpl; intros; auto. apply IHops. apply step_builtins_inv. assumption. Qed.

Lemma with_block_restores_builtins : forall w body c,
  gen_save (w_st w) = COk c -> builtins_synced (w_st w) ->
  s_builtins (w_st (run (with_block body w) w)) = s_builtins (w_st w).
Proof.
  intros w body c H Sy.
  destruct (with_block_restores w body c H) as [_ [_ [_ B]]].
  assert (I : builtins_inv (s_builtins (w_st w)) (w_st (run (OSave :: body) w))).
  { apply run_builtins_inv. left. reflexivity. }
  unfold builtins_synced in Sy. unfold builtins_after_restore in B. unfold builtins_inv in I.
  destruct B as [[B1 B2]|B]; destruct I as [I|I].
  - rewrite B2. exact I.
  - rewrite B2, I, B1. exact Sy.
  - rewrite B, I. exact Sy.
  - rewrite B, I, bsync_bsync. exact Sy.
Qed.

(* ---------------------------------------------------------------------------------------------------- *)
(* the pinned, unrepaired save/restore (old_save / old_restore): what it does restore, for all states       *)
Lemma old_restore_partial : forall s c s', old_save s = COk c ->
  let s'' := result_state (old_restore c s') in
  s_ws s'' = s_ws s /\ s_kw s'' = s_kw s /\ s_lit s'' = s_lit s /\ s_verbose s'' = s_verbose s /\
  (forall n, getattr_diag n s'' = getattr_diag n s) /\ s_users s'' = s_users s'.
Proof.
  intros s c s' H. cbv zeta. destruct s, s'. unfold old_save in H. simpl in H.
  destruct s_packrat; [destruct s_pcache; simpl in H; try discriminate|]; inversion H; subst c; clear H;
    unfold old_restore; simpl;
    match goal with |- context [str_eqb ?a ?b] => destruct (str_eqb a b) eqn:E end; simpl; exec;
    unfold gen_enable_packrat; simpl; break_ifs;
    try (apply str_eqb_eq in E; subst);
    repeat split; try reflexivity; intros n; destruct n; reflexivity.
Qed.

(* ---------------------------------------------------------------------------------------------------- *)
(* statements as used by Props/C19.v                                                                     *)
Lemma restore_full : forall (w : world) (body : list op) (c : ctx),
  gen_save (w_st w) = COk c ->
  last_exn (with_block body w) w = None /\
  settings_of (w_st (run (with_block body w) w)) = settings_of (w_st w).
Proof. intros w body c H. destruct (with_block_restores w body c H) as [A [B _]]. auto. Qed.

Lemma save_total_reachable : forall pre b, exists c, gen_save (w_st (run pre (import_world b))) = COk c.
Proof. intros. apply save_total. apply (run_good pre _ (initial_good b)). Qed.

Lemma restore_reachable : forall (pre body : list op) (b : list expr_obj),
  let w := run pre (import_world b) in
  last_exn (with_block body w) w = None /\
  settings_of (w_st (run (with_block body w) w)) = settings_of (w_st w).
Proof. intros. destruct (save_total_reachable pre b) as [c H]. apply (restore_full w body c H). Qed.

Lemma with_block_users : forall w body j e,
  nth_error (s_users (w_st w)) j = Some e ->
  Forall (fun o => forall ch cd, o <> OSetWsOf j ch cd) body ->
  nth_error (s_users (w_st (run (with_block body w) w))) j = Some e.
Proof.
  intros w body j e H F. apply run_user_kept; auto. unfold with_block.
  constructor; [discriminate|]. apply Forall_app. split; [exact F|]. constructor; [discriminate|constructor].
Qed.

Lemma exclusive_from_import : forall ops b,
  let s := w_st (run ops (import_world b)) in s_packrat s && s_lr s = false.
Proof. intros. apply exclusive_reachable. apply initial_good. Qed.

Lemma exclusive_good : forall ops w, wgood w -> good (w_st (run ops w)).
Proof. intros. apply (run_good ops w H). Qed.

Lemma set_ws_scope : forall ch s, exists s',
  gen_set_default_whitespace_chars ch s = Ok s' /\
  s_ws s' = ch /\ s_users s' = s_users s /\ settings_of s' = settings_of (set_s_ws ch s) /\
  (forall i, nth_error (s_builtins s') i =
             option_map (fun e => if e_copydef e then mkExpr ch true else e) (nth_error (s_builtins s) i)).
Proof.
  intros ch s. eexists. split; [apply set_ws_effect|]. destruct s; simpl. repeat split; auto.
  intros i. fold (bsync ch s_builtins). apply nth_bsync.
Qed.

Lemma builtins_scope : forall ops w,
  let s' := w_st (run ops w) in
  s_builtins s' = s_builtins (w_st w) \/ s_builtins s' = bsync (s_ws s') (s_builtins (w_st w)).
Proof. intros. apply run_builtins_inv. left. reflexivity. Qed.

Lemma restore_nested : forall (w : world) (b1 b2 b3 : list op) (c c1 : ctx),
  gen_save (w_st w) = COk c ->
  let w1 := run (OSave :: b1) w in
  gen_save (w_st w1) = COk c1 ->
  let body := b1 ++ with_block b2 w1 ++ b3 in
  (last_exn (with_block b2 w1) w1 = None /\ settings_of (w_st (run (with_block b2 w1) w1)) = settings_of (w_st w1)) /\
  (last_exn (with_block body w) w = None /\ settings_of (w_st (run (with_block body w) w)) = settings_of (w_st w)).
Proof. intros. split; eapply restore_full; eauto. Qed.

(* everything but the expressions created inside the block *)
Lemma settings_builtins_eq : forall a b,
  settings_of a = settings_of b -> s_builtins a = s_builtins b -> set_s_users [] a = set_s_users [] b.
Proof. intros a b H B. destruct a, b. unfold settings_of in H. simpl in *. inversion H. subst. reflexivity. Qed.

Lemma restore_whole_state : forall (w : world) (body : list op) (c : ctx),
  gen_save (w_st w) = COk c -> builtins_synced (w_st w) ->
  last_exn (with_block body w) w = None /\
  set_s_users [] (w_st (run (with_block body w) w)) = set_s_users [] (w_st w).
Proof.
  intros w body c H Sy. destruct (restore_full w body c H) as [A B]. split; [exact A|].
  apply settings_builtins_eq; [exact B|]. apply (with_block_restores_builtins w body c H Sy).
Qed.
