(* Proofs for C19 over the regenerated settings model (Gen/GenSettings.v) and the history semantics
   (Model/SettingsRun.v).  Nothing here names a diagnostic flag: the proofs go through for whatever flag list
   the translator finds, and break when save/restore/a setter changes its behaviour. *)
From Coq Require Import List ZArith NArith Bool Lia.
From PP Require Import Model.Str Model.Settings Gen.GenSettings Model.SettingsRun.
Import ListNotations.

(* ---------------------------------------------------------------------------------------------------- *)
(* strings                                                                                               *)
Lemma str_eqb_refl : forall a, str_eqb a a = true.
Proof. induction a; simpl; auto. rewrite N.eqb_refl; auto. Qed.

Lemma str_eqb_eq : forall a b, str_eqb a b = true -> a = b.
Proof.
  induction a; destruct b; simpl; intros H; try discriminate; auto.
  apply andb_true_iff in H. destruct H as [H1 H2]. apply N.eqb_eq in H1. f_equal; auto.
Qed.

(* ---------------------------------------------------------------------------------------------------- *)
(* the toggles `(__diag__.enable if value else __diag__.disable)(name)`                                  *)
Lemma diag_toggle : forall (b : bool) n s,
  (if b then gen_diag_enable n s else gen_diag_disable n s) = gen_diag_set n b s.
Proof.
  intros. unfold gen_diag_enable, gen_diag_disable. destruct b; destruct (gen_diag_set n _ s); reflexivity.
Qed.

(* symbolic execution of a translated body whose only unknown branch conditions are saved diag values *)
Ltac exec := repeat (rewrite diag_toggle; simpl).

(* bsync *)
Lemma bsync_bsync : forall a b l, bsync a (bsync b l) = bsync a l.
Proof.
  intros. unfold bsync. rewrite map_map. apply map_ext. intros e.
  destruct e as [w c]; destruct c; reflexivity.
Qed.

(* ---------------------------------------------------------------------------------------------------- *)
(* restore after save: the central fact                                                                  *)
Definition builtins_after_restore (s0 s' s'' : state) : Prop :=
  (s_ws s' = s_ws s0 /\ s_builtins s'' = s_builtins s') \/ s_builtins s'' = bsync (s_ws s0) (s_builtins s').

Lemma restore_exact : forall s c s', gen_save s = COk c ->
  exists s'', gen_restore c s' = Ok s'' /\ settings_of s'' = settings_of s /\ s_users s'' = s_users s' /\
              builtins_after_restore s s' s''.
Proof.
  intros s c s' H. destruct s, s'. unfold gen_save in H. simpl in H.
  destruct s_packrat; [destruct s_pcache; simpl in H; try discriminate|]; inversion H; subst c; clear H;
    unfold gen_restore; simpl;
    match goal with |- context [str_eqb ?a ?b] => destruct (str_eqb a b) eqn:E end; simpl; exec;
    eexists; (split; [reflexivity|]); unfold settings_of, builtins_after_restore; simpl;
    try (apply str_eqb_eq in E; subst); auto.
Qed.

(* restore is total on the repaired code, whatever the context holds: what it does to the flags, caches, users,
   default whitespace and built-ins *)
Lemma restore_effect : forall c s,
  exists s', gen_restore c s = Ok s' /\
    s_packrat s' = k_packrat_enabled c /\ s_lr s' = k_recursion_enabled c /\ s_pcache s' = k_packrat_cache c /\
    s_users s' = s_users s /\
    ((s_ws s' = s_ws s /\ s_builtins s' = s_builtins s) \/
     (s_ws s' = k_default_whitespace c /\ s_builtins s' = bsync (k_default_whitespace c) (s_builtins s))).
Proof.
  intros c s. destruct c, s. unfold gen_restore; simpl.
  match goal with |- context [str_eqb ?a ?b] => destruct (str_eqb a b) eqn:E end; simpl; exec;
    eexists; (split; [reflexivity|]); simpl; auto 10.
Qed.

Lemma save_fields : forall s c, gen_save s = COk c ->
  k_packrat_enabled c = s_packrat s /\ k_recursion_enabled c = s_lr s /\ k_packrat_cache c = s_pcache s.
Proof.
  intros s c H. destruct s. unfold gen_save in H. simpl in H.
  destruct s_packrat; [destruct s_pcache; simpl in H; try discriminate|]; inversion H; subst c; simpl; auto.
Qed.

(* ---------------------------------------------------------------------------------------------------- *)
(* lists                                                                                                 *)
Lemma nth_error_app_l : forall {A} (l e : list A) k x, nth_error l k = Some x -> nth_error (l ++ e) k = Some x.
Proof. intros A l e k x H. rewrite nth_error_app1; auto. apply nth_error_Some. congruence. Qed.

Lemma nth_error_snoc : forall {A} (l : list A) x, nth_error (l ++ [x]) (length l) = Some x.
Proof. intros. rewrite nth_error_app2 by lia. rewrite Nat.sub_diag. reflexivity. Qed.

Lemma run_app : forall a b w, run (a ++ b) w = run b (run a w).
Proof. induction a; simpl; auto. Qed.

Lemma last_exn_snoc : forall a o w, last_exn (a ++ [o]) w = snd (step o (run a w)).
Proof.
  induction a; intros; simpl; auto.
  destruct (a0 ++ [o]) eqn:E. { destruct a0; discriminate. }
  rewrite <- E. apply IHa.
Qed.

(* ---------------------------------------------------------------------------------------------------- *)
(* context objects are never destroyed or overwritten                                                    *)
Lemma step_ctxs : forall o w, exists e, w_ctxs (fst (step o w)) = w_ctxs w ++ e.
Proof.
  intros o w. destruct o; simpl; unfold lift; simpl;
    try (exists []; rewrite app_nil_r; reflexivity);
    repeat match goal with |- context [match ?x with _ => _ end] => destruct x end; simpl;
    try (exists []; rewrite app_nil_r; reflexivity); eexists; reflexivity.
Qed.

Lemma run_ctxs : forall ops w, exists e, w_ctxs (run ops w) = w_ctxs w ++ e.
Proof.
  induction ops; intros; simpl. { exists []. rewrite app_nil_r. reflexivity. }
  destruct (step_ctxs a w) as [e1 H1]. destruct (IHops (fst (step a w))) as [e2 H2].
  exists (e1 ++ e2). rewrite H2, H1, app_assoc. reflexivity.
Qed.

(* ---------------------------------------------------------------------------------------------------- *)
(* C19_restore                                                                                           *)
Definition with_block (body : list op) (w : world) : list op := OSave :: body ++ [ORestore (length (w_ctxs w))].

Lemma with_block_restores : forall w body c,
  gen_save (w_st w) = COk c ->
  let w1 := run (OSave :: body) w in
  let w2 := run (with_block body w) w in
  last_exn (with_block body w) w = None /\
  settings_of (w_st w2) = settings_of (w_st w) /\
  s_users (w_st w2) = s_users (w_st w1) /\
  builtins_after_restore (w_st w) (w_st w1) (w_st w2).
Proof.
  intros w body c H. unfold with_block.
  change (OSave :: body ++ [ORestore (length (w_ctxs w))]) with ((OSave :: body) ++ [ORestore (length (w_ctxs w))]).
  rewrite last_exn_snoc, run_app. simpl run at 3.
  set (w1 := run (OSave :: body) w).
  assert (Hc : nth_error (w_ctxs w1) (length (w_ctxs w)) = Some c).
  { unfold w1. simpl. rewrite H. simpl.
    destruct (run_ctxs body {| w_st := w_st w; w_ctxs := w_ctxs w ++ [c] |}) as [e He]. rewrite He. simpl.
    apply nth_error_app_l. apply nth_error_snoc. }
  simpl. rewrite Hc. destruct (restore_exact (w_st w) c (w_st w1) H) as [s'' [R [A [B C]]]].
  unfold lift. rewrite R. simpl. auto.
Qed.
