(* Proofs for C11 at heap level: frame principle up to stored positions, independence of copies. *)
From Coq Require Import List ZArith NArith Bool Lia.
From PP Require Import Model.Str Model.Results Model.ResultsAPI Model.ResultsHeap.
Import ListNotations.

(* ---- heap basics ---- *)
Lemma nth_error_upd_other h : forall a o b, a <> b -> nth_error (upd h a o) b = nth_error h b.
Proof.
  induction h as [|x h IH]; intros a o b Hne; simpl; [destruct a; reflexivity|].
  destruct a, b; simpl; try reflexivity; try congruence. apply IH. congruence.
Qed.
Lemma nth_error_upd_same h : forall a o, a < length h -> nth_error (upd h a o) a = Some o.
Proof. induction h as [|x h IH]; intros a o H; simpl in *; [lia|]. destruct a; simpl; [reflexivity|]. apply IH. lia. Qed.
Lemma length_upd h : forall a o, length (upd h a o) = length h.
Proof. induction h as [|x h IH]; intros a o; simpl; [destruct a; reflexivity|]. destruct a; simpl; auto. Qed.
Lemma nth_error_Some_lt {A} (l : list A) a x : nth_error l a = Some x -> a < length l.
Proof. intros H. apply nth_error_Some. congruence. Qed.

(* ---- well-scoped prefixes, agreement up to stored positions ---- *)
Definition val_ok (n : nat) (v : value) := match v with VS _ => True | VRef b => b < n end.
Definition obj_ok (n : nat) (o : obj) :=
  match o with
  | OList l => Forall (val_ok n) l
  | OOcc l => Forall (fun vp => val_ok n (fst vp)) l
  | OPR t d _ _ => t < n /\ Forall (fun kv => snd kv < n) d
  end.
Definition closed (n : nat) (h : heap) := n <= length h /\ forall a o, a < n -> nth_error h a = Some o -> obj_ok n o.

Definition obj_sim (o o' : obj) : Prop :=
  match o, o' with
  | OOcc l, OOcc l' => map fst l = map fst l'
  | _, _ => o = o'
  end.
Definition agree (n : nat) (h h' : heap) :=
  forall a o, a < n -> nth_error h a = Some o -> exists o', nth_error h' a = Some o' /\ obj_sim o o'.

Lemma obj_sim_refl o : obj_sim o o.
Proof. destruct o; simpl; reflexivity. Qed.
Lemma agree_refl n h : agree n h h.
Proof. intros a o _ H. exists o. split; [exact H|apply obj_sim_refl]. Qed.

Lemma view_frame n h h' : closed n h -> agree n h h' -> forall fuel a, a < n -> viewH fuel h' a = viewH fuel h a.
Proof.
  intros [Hlen Hc] Ha. induction fuel as [|f IH]; intros a Hlt; [reflexivity|].
  cbn [viewH].
  destruct (nth_error h a) as [o|] eqn:E.
  2:{ apply nth_error_None in E. lia. }
  destruct (Ha a o Hlt E) as (o' & E' & S). rewrite E'.
  destruct o as [l|l|t d an nm].
  - simpl in S. subst o'. reflexivity.
  - destruct o'; simpl in S; try discriminate S; reflexivity.
  - simpl in S. subst o'. pose proof (Hc a _ Hlt E) as [Ht Hd].
    destruct (nth_error h t) as [ot|] eqn:Et.
    2:{ apply nth_error_None in Et. lia. }
    destruct (Ha t ot Ht Et) as (ot' & Et' & St). rewrite Et'.
    destruct ot as [l|l|t2 d2 an2 nm2].
    + simpl in St. subst ot'. pose proof (Hc t _ Ht Et) as Hl. simpl in Hl.
      assert (Hvv : forall v, val_ok n v ->
                (match v with VS t0 => HVal t0 | VRef b => viewH f h' b end) = (match v with VS t0 => HVal t0 | VRef b => viewH f h b end)).
      { intros [t0|b] Hv; [reflexivity|]. apply IH. exact Hv. }
      f_equal.
      * apply map_ext_in. intros v Hin. apply Hvv. rewrite Forall_forall in Hl. auto.
      * apply map_ext_in. intros [k oa] Hin. simpl. f_equal.
        rewrite Forall_forall in Hd. specialize (Hd _ Hin). simpl in Hd.
        destruct (nth_error h oa) as [oo|] eqn:Eo.
        2:{ apply nth_error_None in Eo. lia. }
        destruct (Ha oa oo Hd Eo) as (oo' & Eo' & So). rewrite Eo'.
        destruct oo as [l0|l0|? ? ? ?]; simpl in So; try (subst oo'; reflexivity).
        destruct oo' as [l1|l1|? ? ? ?]; try discriminate So.
        rewrite <- So. apply map_ext_in. intros v Hin'. apply Hvv.
        pose proof (Hc oa _ Hd Eo) as Hoo. simpl in Hoo. rewrite Forall_forall in Hoo.
        apply in_map_iff in Hin'. destruct Hin' as (vp & <- & Hvp). auto.
    + destruct ot'; simpl in St; try discriminate St; reflexivity.
    + simpl in St. subst ot'. reflexivity.
Qed.

(* writes that keep agreement with the original heap h0 below n *)
Lemma agree_upd_ge n h0 h a o : agree n h0 h -> n <= a -> agree n h0 (upd h a o).
Proof. intros Ha Hge b ob Hb E. destruct (Ha b ob Hb E) as (o' & E' & S). exists o'. split; [|exact S]. rewrite nth_error_upd_other; [exact E'|lia]. Qed.

Lemma agree_app n h0 h ext : agree n h0 h -> agree n h0 (h ++ ext).
Proof.
  intros Ha b ob Hb E. destruct (Ha b ob Hb E) as (o' & E' & S). exists o'. split; [|exact S].
  rewrite nth_error_app1; [exact E'|]. eapply nth_error_Some_lt; eauto.
Qed.

Lemma agree_upd_occ n h0 h a occ occ' :
  agree n h0 h -> nth_error h a = Some (OOcc occ) -> map fst occ' = map fst occ -> agree n h0 (upd h a (OOcc occ')).
Proof.
  intros Ha Eh Hm b ob Hb E. destruct (Ha b ob Hb E) as (o' & E' & S).
  destruct (Nat.eq_dec a b) as [->|Hne].
  - rewrite Eh in E'. injection E' as <-. exists (OOcc occ'). split.
    + apply nth_error_upd_same. eapply nth_error_Some_lt; eauto.
    + destruct ob; simpl in *; try discriminate S. congruence.
  - exists o'. split; [|exact S]. rewrite nth_error_upd_other; auto.
Qed.

Lemma rewrite_positions_agree n h0 f d : forall h, agree n h0 h -> agree n h0 (rewrite_positions f h d).
Proof.
  unfold rewrite_positions. induction d as [|[k oa] d IH]; intros h Ha; simpl; [exact Ha|].
  apply IH. unfold occ_of. destruct (nth_error h oa) as [[l|l|? ? ? ?]|] eqn:E; try exact Ha.
  eapply agree_upd_occ; eauto. rewrite map_map. reflexivity.
Qed.

(* rewrite_positions touches occurrence lists only *)
Lemma rewrite_positions_keeps f d : forall h a,
  (forall occ, nth_error h a <> Some (OOcc occ)) -> nth_error (rewrite_positions f h d) a = nth_error h a.
Proof.
  unfold rewrite_positions. induction d as [|[k oa] d IH]; intros h a Hno; simpl; [reflexivity|].
  unfold occ_of. destruct (nth_error h oa) as [[l|l|? ? ? ?]|] eqn:E; try (apply IH; exact Hno).
  rewrite IH.
  - apply nth_error_upd_other. intros ->. eapply Hno; eauto.
  - intros occ. rewrite nth_error_upd_other; [apply Hno|]. intros ->. eapply Hno; eauto.
Qed.
Lemma rewrite_positions_length f d : forall h, length (rewrite_positions f h d) = length h.
Proof.
  unfold rewrite_positions. induction d as [|[k oa] d IH]; intros h; simpl; [reflexivity|].
  rewrite IH. destruct (occ_of h oa); [apply length_upd|reflexivity].
Qed.

(* ---- the invariant of a mutated copy: agreement below n, the copy and its token list live above n ---- *)
Definition own (n : nat) (h0 h : heap) (c t : addr) :=
  agree n h0 h /\ n <= c /\ n <= t /\ exists d an nm, nth_error h c = Some (OPR t d an nm).

Lemma h_setname_own n h0 h c t k v p : own n h0 h c t -> own n h0 (h_setname h c k v p) c t.
Proof.
  intros (Ha & Hc & Ht & d & an & nm & E). unfold h_setname. rewrite E. unfold alloc.
  repeat split; try assumption.
  - apply agree_upd_ge; [|exact Hc]. apply agree_app. exact Ha.
  - eexists _, _, _. apply nth_error_upd_same. rewrite app_length. pose proof (nth_error_Some_lt _ _ _ E). lia.
Qed.

Lemma fold_setname_own n h0 c t (entries : list (str * value * Z)) : forall h, own n h0 h c t ->
  own n h0 (fold_left (fun hh e => match e with (k, v, p) => h_setname hh c k v p end) entries h) c t.
Proof. induction entries as [|[[k v] p] es IH]; intros h Ho; simpl; [exact Ho|]. apply IH. now apply h_setname_own. Qed.

Lemma own_upd_list n h0 h c t l : own n h0 h c t -> c <> t -> own n h0 (upd h t (OList l)) c t.
Proof.
  intros (Ha & Hc & Ht & d & an & nm & E) Hne. repeat split; try assumption.
  - now apply agree_upd_ge.
  - exists d, an, nm. rewrite nth_error_upd_other; auto.
Qed.

Lemma own_rewrite n h0 h c t f d : own n h0 h c t -> own n h0 (rewrite_positions f h d) c t.
Proof.
  intros (Ha & Hc & Ht & d' & an & nm & E). repeat split; try assumption.
  - now apply rewrite_positions_agree.
  - exists d', an, nm. rewrite rewrite_positions_keeps; [exact E|]. intros occ. rewrite E. discriminate.
Qed.

Lemma mstep_own n h0 h c t m : own n h0 h c t -> own n h0 (mstep h c m) c t.
Proof.
  intros Ho. pose proof Ho as (Ha & Hc & Ht & d & an & nm & E). unfold mstep. rewrite E.
  unfold items_of. destruct (nth_error h t) as [[l|l|? ? ? ?]|] eqn:Et; try exact Ho.
  assert (Hne : c <> t) by (intros ->; rewrite E in Et; discriminate).
  destruct m.
  - now apply own_upd_list.
  - now apply own_upd_list.
  - apply own_rewrite. now apply own_upd_list.
  - destruct (py_delitem l i); [|exact Ho]. apply own_rewrite. now apply own_upd_list.
  - destruct (py_setitem l i v); [|exact Ho]. now apply own_upd_list.
  - now apply h_setname_own.
  - destruct (dict_get d k); [|exact Ho]. repeat split; try assumption.
    + now apply agree_upd_ge.
    + eexists _, _, _. apply nth_error_upd_same. eapply nth_error_Some_lt; eauto.
  - repeat split; try assumption.
    + apply agree_upd_ge; [|exact Hc]. now apply agree_upd_ge.
    + eexists _, _, _. apply nth_error_upd_same. rewrite length_upd. eapply nth_error_Some_lt; eauto.
  - destruct (nth_error h other) as [[?|?|t2 d2 an2 nm2]|]; try exact Ho.
    destruct (match nth_error h t2 with Some (OList l0) => Some l0 | _ => None end) as [l2|]; [|exact Ho].
    assert (Hgen : forall entries,
      own n h0 (let h1 := fold_left (fun hh (e : str * value * Z) => match e with (k, v, p) => h_setname hh c k v p end) entries h in
                match nth_error h1 c with
                | Some (OPR t' d' an' nm') => upd (upd h1 t (OList (l ++ l2))) c (OPR t' d' (names_union an' an2) nm')
                | _ => h1
                end) c t).
    { intros entries. cbv zeta. pose proof (fold_setname_own n h0 c t entries h Ho) as Ho1.
      destruct Ho1 as (Ha1 & _ & _ & d1 & an1 & nm1 & E1). rewrite E1.
      repeat split; try assumption.
      - apply agree_upd_ge; [|exact Hc]. now apply agree_upd_ge.
      - eexists _, _, _. apply nth_error_upd_same. rewrite length_upd. eapply nth_error_Some_lt; eauto. }
    destruct l2 as [|x l2']; [destruct d2 as [|kv d2']; [exact Ho|]|]; apply Hgen.
Qed.

Lemma msteps_own n h0 c t ms : forall h, own n h0 h c t -> own n h0 (fold_left (fun hh m => mstep hh c m) ms h) c t.
Proof. induction ms as [|m ms IH]; intros h Ho; simpl; [exact Ho|]. apply IH. now apply mstep_own. Qed.

(* ---- C11: r.copy() — any sequence of own-token / own-name mutations of the copy leaves the views of r unchanged ---- *)
Theorem copy_independent h r h1 c ms fuel :
  closed (length h) h -> r < length h -> h_copy h r = Some (h1, c) ->
  viewH fuel (fold_left (fun hh m => mstep hh c m) ms h1) r = viewH fuel h r.
Proof.
  intros Hcl Hr Hcopy. unfold h_copy in Hcopy.
  destruct (nth_error h r) as [[|?|t d an nm]|] eqn:Er; try discriminate.
  destruct (items_of h t) as [l|] eqn:El; try discriminate. unfold alloc in Hcopy. injection Hcopy as <- <-.
  apply (view_frame (length h)); [exact Hcl| |exact Hr].
  refine (proj1 (msteps_own (length h) h _ (length h) ms _ _)).
  repeat split.
  - apply agree_app. apply agree_app. apply agree_refl.
  - rewrite app_length. simpl. lia.
  - lia.
  - eexists _, _, _. rewrite nth_error_app2 by lia. rewrite Nat.sub_diag. reflexivity.
Qed.

(* the same for copy.copy on the repaired tree (`__getstate__` copies the token list) *)
Theorem copycopy_fixed_independent h r h1 c ms fuel :
  closed (length h) h -> r < length h -> h_copycopy false h r = Some (h1, c) ->
  viewH fuel (fold_left (fun hh m => mstep hh c m) ms h1) r = viewH fuel h r.
Proof.
  intros Hcl Hr Hcopy. unfold h_copycopy in Hcopy.
  destruct (nth_error h r) as [[|?|t d an nm]|] eqn:Er; try discriminate.
  destruct (items_of h t) as [l|] eqn:El; try discriminate. unfold alloc in Hcopy. injection Hcopy as <- <-.
  apply (view_frame (length h)); [exact Hcl| |exact Hr].
  refine (proj1 (msteps_own (length h) h _ (length (h ++ [OList l])) ms _ _)).
  repeat split.
  - apply agree_app. apply agree_app. apply agree_app. apply agree_refl.
  - rewrite !app_length. simpl. lia.
  - rewrite app_length. lia.
  - eexists _, _, _. rewrite nth_error_app2 by (rewrite !app_length; simpl; lia).
    replace (length ((h ++ [OList l]) ++ [OList l]) - length ((h ++ [OList l]) ++ [OList l])) with 0 by lia. reflexivity.
Qed.

(* ... and FALSE on the unchanged tree: copy.copy shares the token list (F-03 / F-11) *)
Definition cc_heap : heap := [OList [VS (TStr [97%N])]; OPR 0 [] [] None].
Theorem copycopy_live_refuted : exists h r h1 c m fuel,
  closed (length h) h /\ r < length h /\ h_copycopy true h r = Some (h1, c) /\
  viewH fuel (mstep h1 c m) r <> viewH fuel h r.
Proof.
  exists cc_heap, 1, (cc_heap ++ [OList [VS (TStr [97%N])]; OPR 0 [] [] None]), 3, (MAppend (VS (TStr [90%N]))), 2.
  repeat split.
  - simpl. lia.
  - intros a o Ha E. destruct a as [|[|a]]; simpl in *; try lia; injection E as <-; simpl; repeat constructor.
  - simpl; lia.
  - vm_compute. discriminate.
Qed.

(* ---- r.deepcopy(): named values keep pointing at the original nested results (F-11b) ---- *)
(* r = ParseResults([g], 'g') with g = ParseResults(['x']):  r['g'] is r[0] *)
Definition dm_heap : heap :=
  [OList [VS (TStr [120%N])]; OPR 0 [] [] (Some [103%N]); OList [VRef 1]; OOcc [(VRef 1, 0%Z)]; OPR 2 [([103%N], 3)] [] (Some [103%N])].
Lemma dm_heap_closed : closed (length dm_heap) dm_heap.
Proof.
  split; [simpl; lia|]. intros a o Ha E.
  destruct a as [|[|[|[|[|a]]]]]; simpl in *; try lia; injection E as <-; simpl; repeat constructor; lia.
Qed.

Theorem deepcopy_method_refuted : exists h r fuelc h1 d path t m fuel,
  closed (length h) h /\ r < length h /\ h_deepcopy_method fuelc h r = Some (h1, d) /\
  resolve h1 d path = Some t /\                                     (* d['g'] ... *)
  t < length h /\                                                   (* ... is an object of the ORIGINAL *)
  resolve h1 d [PIdx 0] <> Some t /\                                (* and is not d[0] *)
  viewH fuel (mstep h1 t m) r <> viewH fuel h r.                    (* d['g'].append('Z') shows up in r *)
Proof.
  exists dm_heap, 4, 3.
  eexists. eexists. exists [PName [103%N] 0], 1, (MAppend (VS (TStr [90%N]))), 3.
  split; [|split; [|split; [vm_compute; reflexivity|]]].
  - split; [simpl; lia|]. intros a o Ha E.
    destruct a as [|[|[|[|[|a]]]]]; simpl in *; try lia; injection E as <-; simpl; repeat constructor; lia.
  - simpl; lia.
  - repeat split.
    + simpl; lia.
    + vm_compute. discriminate.
    + vm_compute. discriminate.
Qed.

(* ---- copy.deepcopy / pickle: everything reachable from the copy is fresh, so mutations of the copy AND of its nested
        results (reached along any path) leave the original's views unchanged ---- *)
Definition val_ge (n : nat) (v : value) := match v with VS _ => True | VRef b => n <= b end.
Definition obj_ge (n : nat) (o : obj) :=
  match o with
  | OList l => Forall (val_ge n) l
  | OOcc l => Forall (fun vp => val_ge n (fst vp)) l
  | OPR t d _ _ => n <= t /\ Forall (fun kv => n <= snd kv) d
  end.
(* every object above n refers to objects above n only *)
Definition sep (n : nat) (h : heap) := n <= length h /\ forall a o, n <= a -> nth_error h a = Some o -> obj_ge n o.
(* values a mutation may bring in: scalars, or results owned by the copy *)
Definition mop_ge (n : nat) (m : mop) :=
  match m with
  | MAppend v | MInsert _ v | MSetItem _ v | MSetName _ v => val_ge n v
  | MExtend vs => Forall (val_ge n) vs
  | MIAdd other => n <= other
  | _ => True
  end.

Lemma Forall_firstn {A} (P : A -> Prop) l : forall k, Forall P l -> Forall P (firstn k l).
Proof. induction l; intros [|k] H; simpl; auto. inversion H; subst. constructor; auto. Qed.
Lemma Forall_skipn {A} (P : A -> Prop) l : forall k, Forall P l -> Forall P (skipn k l).
Proof. induction l; intros [|k] H; simpl; auto. inversion H; subst. auto. Qed.

Lemma sep_upd n h a o : sep n h -> obj_ge n o -> sep n (upd h a o).
Proof.
  intros [Hl Hs] Ho. split; [now rewrite length_upd|]. intros b ob Hb E.
  destruct (Nat.eq_dec a b) as [->|Hne].
  - destruct (lt_dec b (length h)) as [Hlt|Hge].
    + rewrite nth_error_upd_same in E by exact Hlt. now injection E as <-.
    + assert (nth_error (upd h b o) b = None) by (apply nth_error_None; rewrite length_upd; lia). congruence.
  - rewrite nth_error_upd_other in E by exact Hne. eauto.
Qed.
Lemma sep_alloc n h o : sep n h -> obj_ge n o -> sep n (h ++ [o]).
Proof.
  intros [Hl Hs] Ho. split; [rewrite app_length; lia|]. intros b ob Hb E.
  destruct (lt_dec b (length h)) as [Hlt|Hge].
  - rewrite nth_error_app1 in E by exact Hlt. eauto.
  - rewrite nth_error_app2 in E by lia. destruct (b - length h) as [|k]; simpl in E; [now injection E as <-|destruct k; discriminate].
Qed.

Lemma sep_rewrite n f d : forall h, sep n h -> Forall (fun kv : str * addr => n <= snd kv) d -> sep n (rewrite_positions f h d).
Proof.
  unfold rewrite_positions. induction d as [|[k oa] d IH]; intros h Hs Hd; simpl; [exact Hs|].
  inversion Hd as [|? ? Hoa Hd']; subst. simpl in Hoa. apply IH; [|exact Hd'].
  unfold occ_of. destruct (nth_error h oa) as [[l|l|? ? ? ?]|] eqn:E; try exact Hs.
  apply sep_upd; [exact Hs|]. pose proof (proj2 Hs oa _ Hoa E) as Ho. simpl in *.
  rewrite Forall_forall in *. intros vp Hin. apply in_map_iff in Hin. destruct Hin as (vp0 & <- & Hin). simpl. auto.
Qed.

Lemma dict_set_ge n d k (na : addr) : Forall (fun kv : str * addr => n <= snd kv) d -> n <= na ->
  Forall (fun kv : str * addr => n <= snd kv) (dict_set d k na).
Proof. induction d as [|[k' v'] d IH]; intros Hd Hna; simpl; [repeat constructor; exact Hna|]. inversion Hd; subst. destruct (str_eqb k' k); constructor; auto. Qed.
Lemma dict_del_ge n d k : Forall (fun kv : str * addr => n <= snd kv) d -> Forall (fun kv : str * addr => n <= snd kv) (dict_del d k).
Proof. induction d as [|[k' v'] d IH]; intros Hd; simpl; [constructor|]. inversion Hd; subst. destruct (str_eqb k' k); [assumption|constructor; auto]. Qed.
Lemma dict_get_ge n d k (oa : addr) : Forall (fun kv : str * addr => n <= snd kv) d -> dict_get d k = Some oa -> n <= oa.
Proof. induction d as [|[k' v'] d IH]; intros Hd E; simpl in E; [discriminate|]. inversion Hd; subst. destruct (str_eqb k' k); [injection E as <-; assumption|auto]. Qed.

Lemma h_setname_sep n h c k v p : sep n h -> n <= c -> val_ge n v -> sep n (h_setname h c k v p).
Proof.
  intros Hs Hc Hv. unfold h_setname. destruct (nth_error h c) as [[?|?|t d an nm]|] eqn:E; try exact Hs.
  pose proof (proj2 Hs c _ Hc E) as [Ht Hd]. unfold alloc.
  apply sep_upd.
  - apply sep_alloc; [exact Hs|]. simpl. apply Forall_app. split; [|repeat constructor; exact Hv].
    destruct (dict_get d k) as [oa|] eqn:Eg; [|constructor].
    unfold occ_of. destruct (nth_error h oa) as [[?|occ|? ? ? ?]|] eqn:Eo; try constructor.
    exact (proj2 Hs oa _ (dict_get_ge _ _ _ _ Hd Eg) Eo).
  - simpl. split; [exact Ht|]. apply dict_set_ge; [exact Hd|exact (proj1 Hs)].
Qed.

Lemma h_setname_keeps_pr h c k v p t d an nm : nth_error h c = Some (OPR t d an nm) ->
  exists d', nth_error (h_setname h c k v p) c = Some (OPR t d' an nm).
Proof.
  intros E. unfold h_setname. rewrite E. unfold alloc. eexists. apply nth_error_upd_same.
  rewrite app_length. pose proof (nth_error_Some_lt _ _ _ E). lia.
Qed.

Lemma mstep_sep n h c m : sep n h -> n <= c -> mop_ge n m ->
  (match m with MIAdd _ => False | _ => True end) -> sep n (mstep h c m).
Proof.
  intros Hs Hc Hm Hno. unfold mstep. destruct (nth_error h c) as [[?|?|t d an nm]|] eqn:E; try exact Hs.
  pose proof (proj2 Hs c _ Hc E) as [Ht Hd].
  unfold items_of. destruct (nth_error h t) as [[l|?|? ? ? ?]|] eqn:Et; try exact Hs.
  pose proof (proj2 Hs t _ Ht Et) as Hl. simpl in Hl.
  destruct m; simpl in Hm; try contradiction.
  - apply sep_upd; [exact Hs|]. simpl. apply Forall_app. split; [exact Hl|repeat constructor; exact Hm].
  - apply sep_upd; [exact Hs|]. simpl. apply Forall_app. split; assumption.
  - apply sep_rewrite; [|exact Hd]. apply sep_upd; [exact Hs|]. simpl. unfold py_insert.
    apply Forall_app. split; [now apply Forall_firstn|]. constructor; [exact Hm|now apply Forall_skipn].
  - destruct (py_delitem l i) as [l'|] eqn:Ed; [|exact Hs]. apply sep_rewrite; [|exact Hd]. apply sep_upd; [exact Hs|].
    simpl. unfold py_delitem in Ed. destruct (norm_index i (llen l)); [|discriminate]. injection Ed as <-.
    unfold remove_nth. apply Forall_app. split; [now apply Forall_firstn|now apply Forall_skipn].
  - destruct (py_setitem l i v) as [l'|] eqn:Ed; [|exact Hs]. apply sep_upd; [exact Hs|].
    simpl. unfold py_setitem in Ed. destruct (norm_index i (llen l)); [|discriminate]. injection Ed as <-.
    unfold set_nth. apply Forall_app. split; [now apply Forall_firstn|]. constructor; [exact Hm|now apply Forall_skipn].
  - now apply h_setname_sep.
  - destruct (dict_get d k); [|exact Hs]. apply sep_upd; [exact Hs|]. simpl. split; [exact Ht|now apply dict_del_ge].
  - apply sep_upd; [apply sep_upd; [exact Hs|constructor]|]. simpl. split; [exact Ht|constructor].
Qed.

(* exact agreement below n: objects above n are written only *)
Definition below_same (n : nat) (h0 h : heap) := forall a, a < n -> nth_error h a = nth_error h0 a.

Lemma below_upd n h0 h a o : below_same n h0 h -> n <= a -> below_same n h0 (upd h a o).
Proof. intros Hb Ha b Hlt. rewrite nth_error_upd_other by lia. auto. Qed.
Lemma below_app n h0 h ext : below_same n h0 h -> n <= length h -> below_same n h0 (h ++ ext).
Proof. intros Hb Hl b Hlt. rewrite nth_error_app1 by lia. auto. Qed.
Lemma below_rewrite n h0 f d : forall h, below_same n h0 h -> Forall (fun kv : str * addr => n <= snd kv) d ->
  below_same n h0 (rewrite_positions f h d).
Proof.
  unfold rewrite_positions. induction d as [|[k oa] d IH]; intros h Hb Hd; simpl; [exact Hb|].
  inversion Hd; subst. apply IH; [|assumption]. destruct (occ_of h oa); [apply below_upd; assumption|exact Hb].
Qed.

Lemma mstep_below n h0 h c m : sep n h -> below_same n h0 h -> n <= c ->
  (match m with MIAdd _ => False | _ => True end) -> below_same n h0 (mstep h c m).
Proof.
  intros Hs Hb Hc Hno. unfold mstep. destruct (nth_error h c) as [[?|?|t d an nm]|] eqn:E; try exact Hb.
  pose proof (proj2 Hs c _ Hc E) as [Ht Hd].
  unfold items_of. destruct (nth_error h t) as [[l|?|? ? ? ?]|] eqn:Et; try exact Hb.
  destruct m; try contradiction.
  - now apply below_upd.
  - now apply below_upd.
  - apply below_rewrite; [|exact Hd]. now apply below_upd.
  - destruct (py_delitem l i); [|exact Hb]. apply below_rewrite; [|exact Hd]. now apply below_upd.
  - destruct (py_setitem l i v); [|exact Hb]. now apply below_upd.
  - unfold h_setname. rewrite E. unfold alloc. apply below_upd; [|exact Hc]. apply below_app; [exact Hb|exact (proj1 Hs)].
  - destruct (dict_get d k); [|exact Hb]. now apply below_upd.
  - apply below_upd; [|exact Hc]. now apply below_upd.
Qed.

Lemma resolve_ge n h : sep n h -> forall p a, n <= a -> forall t, resolve h a p = Some t -> n <= t.
Proof.
  intros Hs. induction p as [|s p IH]; intros a Ha t E; simpl in E; [now injection E as <-|].
  destruct (resolve_step h a s) as [b|] eqn:Es; [|discriminate]. apply (IH b); [|exact E].
  unfold resolve_step in Es. destruct (nth_error h a) as [[?|?|tl d an nm]|] eqn:Ea; try discriminate.
  pose proof (proj2 Hs a _ Ha Ea) as [Ht Hd].
  destruct s as [i|k j].
  - unfold items_of in Es. destruct (nth_error h tl) as [[l|?|? ? ? ?]|] eqn:Et; try discriminate.
    destruct (nth_error l i) as [[?|b']|] eqn:El; try discriminate. injection Es as <-.
    pose proof (proj2 Hs tl _ Ht Et) as Hl. simpl in Hl. rewrite Forall_forall in Hl.
    exact (Hl _ (nth_error_In _ _ El)).
  - destruct (dict_get d k) as [oa|] eqn:Eg; [|discriminate].
    unfold occ_of in Es. destruct (nth_error h oa) as [[?|occ|? ? ? ?]|] eqn:Eo; try discriminate.
    destruct (nth_error occ j) as [[[?|b'] ?]|] eqn:El; try discriminate. injection Es as <-.
    pose proof (proj2 Hs oa _ (dict_get_ge _ _ _ _ Hd Eg) Eo) as Hl. simpl in Hl. rewrite Forall_forall in Hl.
    exact (Hl _ (nth_error_In _ _ El)).
Qed.

Definition pm_ok (n : nat) (pm : list pstep * mop) :=
  mop_ge n (snd pm) /\ match snd pm with MIAdd _ => False | _ => True end.

Lemma msteps_at_below n h0 c pms : n <= c -> Forall (pm_ok n) pms -> forall h, sep n h -> below_same n h0 h ->
  below_same n h0 (fold_left (fun hh pm => mstep_at hh c pm) pms h).
Proof.
  intros Hc. induction pms as [|[p m] pms IH]; intros Hok h Hs Hb; simpl; [exact Hb|].
  inversion Hok as [|? ? [Hm Hno] Hok']; subst. simpl in Hm, Hno.
  unfold mstep_at at 2. simpl. destruct (resolve h c p) as [t|] eqn:Er; [|now apply IH].
  pose proof (resolve_ge n h Hs p c Hc t Er) as Ht.
  apply IH; [exact Hok'|now apply mstep_sep|now apply mstep_below].
Qed.

Lemma shift_sep h : (forall a o, nth_error h a = Some o -> obj_ok (length h) o) -> sep (length h) (h ++ map (shift_obj (length h)) h).
Proof.
  intros Hc. split; [rewrite app_length; lia|]. intros a o Ha E.
  rewrite nth_error_app2 in E by lia. rewrite nth_error_map in E.
  destruct (nth_error h (a - length h)) as [o0|] eqn:E0; [|discriminate]. injection E as <-.
  pose proof (Hc _ _ E0) as Ho. destruct o0 as [l|l|t d an nm]; simpl in *.
  - rewrite Forall_forall in *. intros v Hin. apply in_map_iff in Hin. destruct Hin as (v0 & <- & Hin). destruct v0; simpl; [exact I|lia].
  - rewrite Forall_forall in *. intros v Hin. apply in_map_iff in Hin. destruct Hin as (v0 & <- & Hin). simpl. destruct (fst v0); simpl; [exact I|lia].
  - split; [lia|]. rewrite Forall_forall. intros kv Hin. apply in_map_iff in Hin. destruct Hin as (kv0 & <- & Hin). simpl. lia.
Qed.

Theorem deepcopy_independent h r pms fuel :
  closed (length h) h -> r < length h ->
  let '(h1, c) := h_deepcopy h r in
  Forall (pm_ok (length h)) pms ->
  viewH fuel (fold_left (fun hh pm => mstep_at hh c pm) pms h1) r = viewH fuel h r.
Proof.
  intros Hcl Hr. unfold h_deepcopy. intros Hok.
  apply (view_frame (length h)); [exact Hcl| |exact Hr].
  assert (Hb : below_same (length h) h (fold_left (fun hh pm => mstep_at hh (r + length h) pm) pms (h ++ map (shift_obj (length h)) h))).
  { apply msteps_at_below; [lia|exact Hok| |].
    - apply shift_sep. intros a o E. apply (proj2 Hcl a o); [eapply nth_error_Some_lt; eauto|exact E].
    - intros a Ha. now rewrite nth_error_app1. }
  intros a o Ha E. exists o. split; [rewrite Hb; assumption|apply obj_sim_refl].
Qed.
