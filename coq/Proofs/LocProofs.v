(* Proofs about the *generated* translations of util.col / util.lineno / util.line (Gen/GenLoc.v). *)
From Coq Require Import List ZArith NArith Bool Lia Arith.
From PP Require Import Model.Str Gen.GenLoc.
Import ListNotations.

(* ---------- nat-level views of what the three functions compute ---------- *)
Definition cnt (n : nat) (s : str) : nat := count_char NL (firstn n s).
Definition lastnl (n : nat) (s : str) : option nat := rfind_acc NL (firstn n s) 0 None.
Definition nextnl (n : nat) (s : str) : option nat := find_from NL (skipn n s) 0.
Definition start_of n s := match lastnl n s with Some p => S p | None => 0 end.
Definition stop_of n s := match nextnl n s with Some k => n + k | None => length s end.
Definition line_of n s := firstn (stop_of n s - start_of n s) (skipn (start_of n s) s).
Fixpoint sumlen (ls : list str) : nat :=
  match ls with [] => 0 | l :: r => length l + 1 + sumlen r end.

Lemma rfind_acc_shift c s : forall k acc,
  rfind_acc c s k acc = match rfind_acc c s 0 None with Some p => Some (k + p) | None => acc end.
Proof.
  induction s as [|a s IH]; intros k acc; simpl; [reflexivity|].
  rewrite (IH (S k)). rewrite (IH 1).
  destruct (rfind_acc c s 0 None) as [p|].
  - f_equal. lia.
  - destruct (N.eqb a c); [f_equal; lia | reflexivity].
Qed.

Lemma find_from_shift c s : forall k,
  find_from c s k = match find_from c s 0 with Some p => Some (k + p) | None => None end.
Proof.
  induction s as [|a s IH]; intros k; simpl; [reflexivity|].
  destruct (N.eqb a c); [f_equal; lia|].
  rewrite (IH (S k)). rewrite (IH 1).
  destruct (find_from c s 0); [f_equal; lia | reflexivity].
Qed.

Lemma find_from_lt c s k : find_from c s 0 = Some k -> k < length s.
Proof.
  revert k. induction s as [|a s IH]; intros k; simpl; [discriminate|].
  destruct (N.eqb a c); [intros [= <-]; lia|].
  rewrite find_from_shift. destruct (find_from c s 0) as [p|]; [|discriminate].
  intros [= <-]. specialize (IH p eq_refl). lia.
Qed.

Lemma rfind_none_count c s : rfind_acc c s 0 None = None <-> count_char c s = 0.
Proof.
  induction s as [|a s IH]; simpl; [tauto|].
  rewrite rfind_acc_shift. destruct (rfind_acc c s 0 None) as [p|].
  - split; [discriminate|]. intros H. assert (count_char c s = 0) as H0 by lia.
    apply IH in H0. discriminate.
  - destruct (N.eqb a c); split; try discriminate; try lia; intros _; [apply IH; reflexivity | reflexivity].
Qed.

Lemma rfind_acc_app c a : forall b k acc,
  rfind_acc c (a ++ b) k acc = rfind_acc c b (k + length a) (rfind_acc c a k acc).
Proof.
  induction a as [|x a IH]; intros b k acc; simpl.
  - f_equal. lia.
  - rewrite IH. f_equal. lia.
Qed.

Lemma firstn_S_nth_error (s : str) : forall k d,
  nth_error s k = Some d -> firstn (S k) s = firstn k s ++ [d].
Proof.
  induction s as [|a s IH]; intros [|k] d H; simpl in *; try discriminate.
  - injection H as <-. reflexivity.
  - f_equal. apply IH. exact H.
Qed.

Lemma lines_nonempty s : lines s <> [].
Proof.
  destruct s as [|c t]; simpl; [discriminate|].
  destruct (N.eqb c NL); [discriminate|]. destruct (lines t); discriminate.
Qed.

Lemma first_line s :
  nth 0 (lines s) [] = firstn (match find_from NL s 0 with Some k => k | None => length s end) s.
Proof.
  induction s as [|c t IH]; simpl; [reflexivity|].
  destruct (N.eqb c NL) eqn:E; [reflexivity|].
  rewrite find_from_shift.
  destruct (lines t) as [|l ls] eqn:L; [exfalso; eapply lines_nonempty; eauto|].
  simpl in IH. destruct (find_from NL t 0) as [k|]; simpl; rewrite IH; reflexivity.
Qed.

(* ---------- step lemmas ---------- *)
Lemma cnt_cons m c t : cnt (S m) (c :: t) = (if N.eqb c NL then 1 else 0) + cnt m t.
Proof. reflexivity. Qed.

Lemma lastnl_cons m c t :
  lastnl (S m) (c :: t) =
  match lastnl m t with Some p => Some (S p) | None => if N.eqb c NL then Some 0 else None end.
Proof. unfold lastnl. simpl. rewrite rfind_acc_shift. reflexivity. Qed.

Lemma nextnl_cons m c t : nextnl (S m) (c :: t) = nextnl m t.
Proof. reflexivity. Qed.

Lemma stop_of_cons m c t : stop_of (S m) (c :: t) = S (stop_of m t).
Proof. unfold stop_of. rewrite nextnl_cons. destruct (nextnl m t); simpl; lia. Qed.

Lemma lastnl_none_cnt n s : lastnl n s = None <-> cnt n s = 0.
Proof. apply rfind_none_count. Qed.

Lemma stop_of_le n s : n <= length s -> stop_of n s <= length s.
Proof.
  intros H. unfold stop_of, nextnl. destruct (find_from NL (skipn n s) 0) as [k|] eqn:E; [|lia].
  apply find_from_lt in E. rewrite skipn_length in E. lia.
Qed.

(* ---------- the structural theorem ---------- *)
Theorem locate_spec : forall s n, n <= length s ->
  cnt n s < length (lines s) /\
  nth (cnt n s) (lines s) [] = line_of n s /\
  sumlen (firstn (cnt n s) (lines s)) = start_of n s /\
  start_of n s <= n /\ n <= stop_of n s.
Proof.
  induction s as [|c t IH]; intros n Hn.
  - simpl in Hn. assert (n = 0) as -> by lia. cbv. repeat split; lia.
  - destruct n as [|m].
    + (* loc = 0 *)
      assert (lastnl 0 (c :: t) = None) as HL by reflexivity.
      unfold start_of, line_of, start_of. rewrite HL. cbn [cnt firstn count_char].
      pose proof (lines_nonempty (c :: t)) as NE.
      repeat split; try lia.
      * destruct (lines (c :: t)); [congruence | simpl; lia].
      * rewrite first_line. unfold stop_of, nextnl. cbn [skipn].
        destruct (find_from NL (c :: t) 0); rewrite Nat.sub_0_r; reflexivity.
    + simpl in Hn. assert (m <= length t) as Hm by lia.
      destruct (IH m Hm) as (I1 & I2 & I3 & I4 & I5).
      rewrite cnt_cons. unfold line_of, start_of. rewrite stop_of_cons, lastnl_cons.
      unfold start_of in I3, I4. unfold line_of, start_of in I2.
      cbn [lines]. destruct (N.eqb c NL) eqn:E.
      * (* c is a newline *)
        cbn [length nth firstn sumlen Nat.add].
        assert ((match match lastnl m t with Some p => Some (S p) | None => Some 0 end with
                 | Some p => S p | None => 0 end) =
                S (match lastnl m t with Some p => S p | None => 0 end)) as ->
          by (destruct (lastnl m t); reflexivity).
        cbn [skipn Nat.sub]. rewrite I2, I3.
        repeat split; lia.
      * (* ordinary character *)
        destruct (lines t) as [|l0 ls] eqn:L; [exfalso; eapply lines_nonempty; eauto|].
        cbn [Nat.add]. destruct (lastnl m t) as [p|] eqn:LN.
        -- assert (cnt m t <> 0) as Hc by (intros H0; apply lastnl_none_cnt in H0; congruence).
           destruct (cnt m t) as [|k] eqn:C; [congruence|].
           cbn [nth firstn sumlen length skipn Nat.sub] in *.
           rewrite I2. repeat split; try lia.
        -- assert (cnt m t = 0) as C by (apply lastnl_none_cnt; exact LN).
           rewrite C in *. cbn [nth firstn sumlen length skipn] in *.
           rewrite Nat.sub_0_r in *.
           assert (stop_of m t >= 0) by lia.
           cbn [firstn]. rewrite I2. repeat split; lia.
Qed.

Lemma line_of_length n s : n <= length s -> length (line_of n s) = stop_of n s - start_of n s.
Proof.
  intros H. unfold line_of. rewrite firstn_length, skipn_length.
  pose proof (stop_of_le n s H). lia.
Qed.

(* ---------- bridging Z-level generated code to the nat-level views ---------- *)
Open Scope Z_scope.

Section Bridge.
Variable s : str. Variable loc : Z.
Hypothesis Hlo : 0 <= loc. Hypothesis Hhi : loc <= zlen s.
Let n := Z.to_nat loc.

Lemma n_le : (n <= length s)%nat.
Proof. unfold n, zlen in *. lia. Qed.

Lemma norm0 : norm_idx 0 (zlen s) = 0.
Proof. unfold norm_idx, zlen. simpl. lia. Qed.
Lemma normloc : norm_idx loc (zlen s) = loc.
Proof. unfold norm_idx. destruct (loc <? 0) eqn:E; lia. Qed.

Lemma slice0 : py_slice s 0 loc = firstn n s.
Proof. unfold py_slice. rewrite norm0, normloc. simpl. f_equal. unfold n. lia. Qed.

Lemma count_bridge : py_count s 10%N 0 loc = Z.of_nat (cnt n s).
Proof. unfold py_count. rewrite slice0. reflexivity. Qed.

Lemma rfind_bridge :
  py_rfind s 10%N 0 loc = match lastnl n s with Some p => Z.of_nat p | None => -1 end.
Proof.
  unfold py_rfind. rewrite norm0, normloc. simpl skipn.
  replace (Z.to_nat (loc - 0)) with n by (unfold n; lia).
  unfold lastnl, NL. destruct (rfind_acc 10%N (firstn n s) 0 None); lia.
Qed.

Lemma find_bridge :
  py_find s 10%N loc = match nextnl n s with Some k => loc + Z.of_nat k | None => -1 end.
Proof. unfold py_find. rewrite normloc. reflexivity. Qed.

Lemma lineno_bridge : gen_lineno loc s = Z.of_nat (cnt n s) + 1.
Proof. unfold gen_lineno. rewrite count_bridge. reflexivity. Qed.

Lemma col_bridge : gen_col loc s = loc - Z.of_nat (start_of n s) + 1.
Proof.
  unfold gen_col. cbv zeta. rewrite rfind_bridge.
  destruct ((0 <? loc) && (loc <? zlen s) && opt_char_eqb (py_idx s (loc - 1)) 10%N) eqn:E.
  - (* the special case: s[loc-1] is a newline, so the last newline before loc is at loc-1 *)
    apply andb_prop in E as [E1 E3]. apply andb_prop in E1 as [E1 E2].
    unfold py_idx in E3.
    assert (loc - 1 <? 0 = false) as F1 by lia. rewrite F1 in E3.
    assert (((loc - 1 <? 0) || (zlen s <=? loc - 1)) = false) as F2 by lia. rewrite F2 in E3.
    destruct (nth_error s (Z.to_nat (loc - 1))) as [d|] eqn:NE; [|discriminate].
    simpl in E3. apply N.eqb_eq in E3. subst d.
    assert (n = S (Z.to_nat (loc - 1))) as Hn by (unfold n; lia).
    assert (start_of n s = n) as ->.
    { unfold start_of, lastnl. rewrite Hn.
      assert (Z.to_nat (loc - 1) < length s)%nat as LT by (apply nth_error_Some; congruence).
      rewrite (firstn_S_nth_error s (Z.to_nat (loc - 1)) 10%N) by exact NE.
      rewrite rfind_acc_app. simpl.
      rewrite firstn_length. f_equal. lia. }
    unfold n. lia.
  - unfold start_of. destruct (lastnl n s); lia.
Qed.

Lemma line_bridge : gen_line loc s = line_of n s.
Proof.
  unfold gen_line. cbv zeta. rewrite rfind_bridge, find_bridge.
  pose proof n_le as Hn.
  unfold line_of, stop_of, start_of.
  destruct (nextnl n s) as [k|] eqn:NX.
  - assert ((loc + Z.of_nat k >=? 0) = true) as -> by (apply Z.geb_le; lia).
    assert (n + k < length s)%nat as LT.
    { unfold nextnl in NX. apply find_from_lt in NX. rewrite skipn_length in NX. lia. }
    unfold py_slice.
    assert (forall a, 0 <= a <= zlen s -> norm_idx a (zlen s) = a) as NI
      by (intros a Ha; unfold norm_idx; destruct (a <? 0) eqn:E; lia).
    destruct (lastnl n s) as [p|] eqn:LN.
    + assert (S p <= n)%nat as Hp.
      { pose proof (locate_spec s n Hn) as (_ & _ & _ & H4 & _). unfold start_of in H4. rewrite LN in H4. exact H4. }
      rewrite !NI by (unfold zlen, n in *; lia).
      f_equal; try f_equal; unfold n in *; lia.
    + rewrite !NI by (unfold zlen, n in *; lia).
      f_equal; try f_equal; unfold n in *; lia.
  - assert ((-1 >=? 0) = false) as -> by reflexivity.
    unfold py_slice_from.
    assert (forall a, 0 <= a <= zlen s -> norm_idx a (zlen s) = a) as NI
      by (intros a Ha; unfold norm_idx; destruct (a <? 0) eqn:E; lia).
    destruct (lastnl n s) as [p|] eqn:LN.
    + assert (S p <= n)%nat as Hp.
      { pose proof (locate_spec s n Hn) as (_ & _ & _ & H4 & _). unfold start_of in H4. rewrite LN in H4. exact H4. }
      rewrite NI by (unfold zlen, n in *; lia).
      replace (Z.to_nat (Z.of_nat p + 1)) with (S p) by lia.
      rewrite firstn_all2; [reflexivity | rewrite skipn_length; lia].
    + rewrite NI by (unfold zlen; lia). simpl.
      rewrite firstn_all2; [reflexivity | lia].
Qed.
End Bridge.

(* ---------- C14: mutual consistency, stated on the generated functions ---------- *)
Theorem loc_consistent (s : str) (loc : Z) :
  0 <= loc <= zlen s ->
  let ln := gen_lineno loc s in
  let cl := gen_col loc s in
  let tx := gen_line loc s in
  1 <= ln <= Z.of_nat (length (lines s)) /\
  nth (Z.to_nat (ln - 1)) (lines s) [] = tx /\
  1 <= cl <= zlen tx + 1 /\
  loc = Z.of_nat (sumlen (firstn (Z.to_nat (ln - 1)) (lines s))) + (cl - 1).
Proof.
  intros [Hlo Hhi]. cbv zeta.
  rewrite (lineno_bridge s loc Hlo Hhi), (col_bridge s loc Hlo Hhi), (line_bridge s loc Hlo Hhi).
  assert (Z.to_nat loc <= length s)%nat as Hn by (unfold zlen in *; lia).
  destruct (locate_spec s (Z.to_nat loc) Hn) as (I1 & I2 & I3 & I4 & I5).
  pose proof (line_of_length (Z.to_nat loc) s Hn) as LL.
  replace (Z.to_nat (Z.of_nat (cnt (Z.to_nat loc) s) + 1 - 1)) with (cnt (Z.to_nat loc) s) by lia.
  rewrite I2, I3. unfold zlen. rewrite LL.
  repeat split; lia.
Qed.
