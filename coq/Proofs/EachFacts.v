(* Each.parseImpl (Model/Core.v each_impl): which elements it ever hands to `_parse`.
   For every predicate P on grammar nodes that holds of the children of the Each node and is inherited by the body of an
   Opt and by the operand derived from a ZeroOrMore / OneOrMore (its body, or the named copy of its body), P holds of every element of self.required / self.optionals /
   self.multioptionals, of every member of matchOrder, and these facts are preserved by the bookkeeping of the loop. *)
From Coq Require Import List ZArith NArith Bool Arith Lia.
From PP Require Import Model.Str Model.Results Model.Prog Model.Core.
Import ListNotations.

Section EachFacts.
Variable P : expr -> Prop.
(* the operand of a repetition: its body, or the named copy of its body *)
Hypothesis P_rep : forall a i z b ne, P (Rep a i z b ne) -> P (snd (rep_operand (Rep a i z b ne) b)).
Hypothesis P_opt : forall a i dflt b, P (Enh a i (EOpt dflt) b) -> P b.

Definition entsP (l : list each_ent) : Prop := Forall (fun en => P (ee_e en)) l.

Lemma entsP_remove c : forall l, entsP l -> entsP (remove_cls c l).
Proof.
  induction l as [|en l IH]; intros H; simpl; [exact H|].
  inversion H; subst. destruct (Nat.eqb (ee_cls en) c); [assumption|]. constructor; [assumption|apply IH; assumption].
Qed.

Lemma entsP_app l1 l2 : entsP l1 -> entsP l2 -> entsP (l1 ++ l2).
Proof. intros H1 H2. apply Forall_app. split; assumption. Qed.

Lemma entsP_flat_map {X} (f : X -> list each_ent) (l : list X) :
  (forall x, In x l -> entsP (f x)) -> entsP (flat_map f l).
Proof.
  induction l as [|x l IH]; intros H; simpl; [constructor|].
  apply Forall_app. split; [apply H; left; reflexivity|apply IH; intros y Hy; apply H; right; exact Hy].
Qed.

Lemma zip_P es info z : Forall P es -> In z (each_zip es info) -> P (fst z).
Proof.
  intros Hw Hz. destruct z as [c i0]. unfold each_zip in Hz. apply in_combine_l in Hz.
  rewrite Forall_forall in Hw. apply Hw. exact Hz.
Qed.

Lemma each_groups_P es info : Forall P es ->
  entsP (each_req1 (each_zip es info)) /\ entsP (each_multi true (each_zip es info)) /\
  entsP (each_multi false (each_zip es info)) /\ entsP (each_opt1 (each_zip es info)) /\
  entsP (each_opt2 (each_zip es info)).
Proof.
  intros Hw.
  assert (Hm : forall b0, entsP (each_multi b0 (each_zip es info))).
  { intros b0. apply entsP_flat_map. intros [c [me [cs co]]] Hz. pose proof (zip_P es info _ Hw Hz) as Hc.
    cbn [fst snd] in *. destruct c as [| | |a0 i0 z0 b ne0| |]; try constructor.
    destruct (b0 && z0); constructor; [|constructor].
    unfold ee_e. cbn [snd]. exact (P_rep _ _ _ _ _ Hc). }
  repeat split; try apply Hm.
  - apply entsP_flat_map. intros [c [me [cs co]]] Hz. pose proof (zip_P es info _ Hw Hz) as Hc. cbn [fst snd] in *.
    destruct (is_opt c || is_rep c); constructor; [exact Hc|constructor].
  - apply entsP_flat_map. intros [c [me [cs co]]] Hz. pose proof (zip_P es info _ Hw Hz) as Hc. cbn [fst snd] in *.
    destruct c as [| |a0 i0 k0 b| | |]; try constructor. destruct k0; constructor; try constructor.
    unfold ee_e. cbn [snd]. eapply P_opt. exact Hc.
  - apply entsP_flat_map. intros [c [me [cs co]]] Hz. pose proof (zip_P es info _ Hw Hz) as Hc. cbn [fst snd] in *.
    destruct (me && negb (is_opt c) && negb (is_zom c)); constructor; [exact Hc|constructor].
Qed.

Lemma each_order_P es en : Forall P es -> P (ee_e en) -> P (each_order es en).
Proof.
  intros Hw He. unfold each_order. destruct (ee_copy en); [exact He|].
  destruct (find _ (rev es)) as [c|] eqn:F; [|exact He].
  apply find_some in F as [Hin _]. apply in_rev in Hin. rewrite Forall_forall in Hw. apply Hw. exact Hin.
Qed.

Lemma each_unmatched_P es info (opt : list each_ent) : Forall P es ->
  Forall P (flat_map (fun z : expr * each_info => if is_opt (fst z) && mem_cls (snd (snd (snd z))) opt then [fst z] else [])
                     (each_zip es info)).
Proof.
  intros Hw. apply Forall_forall. intros c Hc. apply in_flat_map in Hc as (z & Hz & Hc).
  destruct (is_opt (fst z) && _); simpl in Hc; [|destruct Hc]. destruct Hc as [Hc|Hc]; [|destruct Hc].
  subst c. exact (zip_P es info z Hw Hz).
Qed.
End EachFacts.
