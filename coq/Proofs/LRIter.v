(* C04: the link from the growth iteration of a direct left-recursive rule (`iter` of Proofs/LRGrowth.v, what `parse_lr`
   answers for E <<= (E + tail...) | base) to the PLAIN parser (`parse (step G')`, no memo) running the iterative grammar
   base + ZeroOrMore(body), body = And(tail) (or the single tail element itself); the grouped form
   E <<= Group(E + tail...) | base and the left-nesting of the flat token list. *)
From Coq Require Import List ZArith NArith Bool Arith Lia.
From PP Require Import Model.Str Model.Results Model.Prog Model.Core Model.Entry Model.LR.
From PP Require Import Proofs.PegEquiv Proofs.LRGrowth.
Import ListNotations.

(* ------------------------------------------------------------------------------------------- *)
(* 1. the tail sequence at the level of (end location, token list, exception kind)              *)
(* ------------------------------------------------------------------------------------------- *)
Inductive tres := TOk (l : nat) (ts : list tok) | TErr (k : xkind) | TDiv.

(* exceptions that `except (ParseException, IndexError)` swallows *)
Definition soft (k : xkind) : bool := is_pe k || is_index k.

(* the class of an exception after And's `_ErrorStop` handling *)
Definition estop_kind (estop : bool) (k : xkind) : xkind :=
  if estop then match k with XSyntax | XParse | XFatal | XIndex => XSyntax | o => o end else k.

Definition is_estop (c : expr) : bool := match c with Tok _ _ KErrorStop => true | _ => false end.

Section Tail.
Variable s : str.
Variable ans : expr -> nat -> outcome.

(* the elements of an And after its first one, each called with callPreParse = True *)
Fixpoint tail_res (es : list expr) (l : nat) (estop : bool) : tres :=
  match es with
  | [] => TOk l []
  | c :: rest =>
    match c with
    | Tok _ _ KErrorStop => tail_res rest l true
    | _ => match ans c l with
           | Ok l' r => match tail_res rest l' estop with TOk l2 ts => TOk l2 (toks r ++ ts) | o => o end
           | Div => TDiv
           | Err x => TErr (estop_kind estop (xk x))
           end
    end
  end.

Lemma tail_res_cons c rest l estop : is_estop c = false ->
  tail_res (c :: rest) l estop =
  match ans c l with
  | Ok l' r => match tail_res rest l' estop with TOk l2 ts => TOk l2 (toks r ++ ts) | o => o end
  | Div => TDiv
  | Err x => TErr (estop_kind estop (xk x))
  end.
Proof.
  intros H. destruct c as [a0 i0 t0| | | | |]; try reflexivity. destruct t0; try reflexivity. discriminate.
Qed.

Lemma and_pure_cons a c rest l acc estop : is_estop c = false ->
  and_pure s ans a (c :: rest) l acc estop =
  match ans c l with
  | Ok l' r => and_pure s ans a rest l' (pr_iadd acc r) estop
  | Div => ADiv
  | Err x => AErr (estop_exn s a estop x)
  end.
Proof.
  intros H. destruct c as [a0 i0 t0| | | | |]; try reflexivity. destruct t0; try reflexivity. discriminate.
Qed.

Lemma xk_estop_exn a estop x : xk (estop_exn s a estop x) = estop_kind estop (xk x).
Proof. unfold estop_exn, estop_kind. destruct estop; [|reflexivity]. destruct (xk x) eqn:E; try exact E; reflexivity. Qed.

(* `and_pure` (Proofs/LRGrowth.v) read at that level: the end, the tokens appended to the accumulator, the kind *)
Lemma and_pure_res a es : forall l acc estop,
  match and_pure s ans a es l acc estop with
  | AOk l' acc' => exists ts, tail_res es l estop = TOk l' ts /\ toks acc' = toks acc ++ ts
  | AErr x => tail_res es l estop = TErr (xk x)
  | ADiv => tail_res es l estop = TDiv
  end.
Proof.
  induction es as [|c es IH]; intros l acc estop.
  - simpl. exists []. rewrite app_nil_r. split; reflexivity.
  - destruct (is_estop c) eqn:Ec.
    + destruct c as [a0 i0 t0| | | | |]; try discriminate. destruct t0; try discriminate.
      cbn [and_pure tail_res]. apply IH.
    + rewrite and_pure_cons, tail_res_cons by exact Ec.
      destruct (ans c l) as [l1 r1|x|].
      * specialize (IH l1 (pr_iadd acc r1) estop).
        destruct (and_pure s ans a es l1 (pr_iadd acc r1) estop) as [l' acc'|x|].
        -- destruct IH as [ts [E1 E2]]. rewrite E1. exists (toks r1 ++ ts). split; [reflexivity|].
           rewrite E2, LRGrowth.toks_iadd, app_assoc. reflexivity.
        -- rewrite IH. reflexivity.
        -- rewrite IH. reflexivity.
      * rewrite xk_estop_exn. reflexivity.
      * reflexivity.
Qed.

(* ---- base, then one more tail per round: the iteration on token lists ---- *)
Variable tail : list expr.

Fixpoint titer (fuel : nat) (l : nat) (ts : list tok) : tres :=
  match fuel with
  | 0 => TDiv
  | S f =>
    match tail_res tail l false with
    | TOk l' ts' => if Nat.leb l' l then TOk l ts else titer f l' (ts ++ ts')
    | TErr k => if soft k then TOk l ts else TErr k
    | TDiv => TDiv
    end
  end.

Lemma titer_prefix p n : forall l ts,
  titer n l (p ++ ts) = match titer n l ts with TOk l' ts' => TOk l' (p ++ ts') | o => o end.
Proof.
  induction n as [|n IH]; intros l ts; [reflexivity|]. cbn [titer].
  destruct (tail_res tail l false) as [l' ts'|k|]; [| |reflexivity].
  - destruct (Nat.leb l' l); [reflexivity|]. rewrite <- app_assoc. apply IH.
  - destruct (soft k); reflexivity.
Qed.

Lemma titer_err_hard n : forall l ts k, titer n l ts = TErr k -> soft k = false.
Proof.
  induction n as [|n IH]; intros l ts k; [discriminate|]. cbn [titer].
  destruct (tail_res tail l false) as [l' ts'|k'|]; [| |discriminate].
  - destruct (Nat.leb l' l); [discriminate|]. apply IH.
  - destruct (soft k') eqn:E; [discriminate|]. intros [= <-]. exact E.
Qed.

(* the tail advances when it matches, and stays within len + 1 (the C06 location bound), from every location <= len + 1 *)
Definition walks : Prop :=
  forall l, l <= length s + 1 ->
    match tail_res tail l false with TOk l' _ => l < l' /\ l' <= length s + 1 | _ => True end.

(* then the iteration needs no more than len + 2 - l rounds: more fuel changes nothing *)
Lemma titer_fuel (HW : walks) n : forall l ts, l <= length s + 1 -> length s + 2 <= n + l ->
  titer (S n) l ts = titer n l ts.
Proof.
  induction n as [|n IH]; intros l ts Hl Hn; [lia|].
  change (titer (S (S n)) l ts) with
    (match tail_res tail l false with
     | TOk l' ts' => if Nat.leb l' l then TOk l ts else titer (S n) l' (ts ++ ts')
     | TErr k => if soft k then TOk l ts else TErr k
     | TDiv => TDiv
     end).
  cbn [titer]. pose proof (HW l Hl) as Hw.
  destruct (tail_res tail l false) as [l' ts'|k|]; try reflexivity.
  destruct (Nat.leb l' l) eqn:Q; [reflexivity|]. apply Nat.leb_gt in Q.
  apply IH; lia.
Qed.

Lemma titer_fuel_ge (HW : walks) k : forall n l ts, l <= length s + 1 -> length s + 2 <= n + l ->
  titer (n + k) l ts = titer n l ts.
Proof.
  induction k as [|k IH]; intros n l ts Hl Hn.
  - rewrite Nat.add_0_r. reflexivity.
  - rewrite Nat.add_succ_r. rewrite titer_fuel by (try assumption; lia). apply IH; assumption.
Qed.

(* ---- the growth iteration `iter` of the left-recursive side, read at that level ---- *)
Lemma iter_titer aE ab aa loc n : forall l r,
  match iter s ans aE ab aa tail loc n l r with
  | Ok l' r' => titer n l (toks r) = TOk l' (toks r')
  | Err x => titer n l (toks r) = TErr (xk x)
  | Div => titer n l (toks r) = TDiv
  end.
Proof.
  induction n as [|n IH]; intros l r; [reflexivity|].
  cbn [iter titer].
  pose proof (and_pure_res aa tail l (wrap aE r) false) as Hr.
  destruct (and_pure s ans aa tail l (wrap aE r) false) as [l1 acc|x|].
  - destruct Hr as [ts [E1 E2]]. rewrite E1. destruct (Nat.leb l1 l); [reflexivity|].
    specialize (IH l1 (wrap ab (wrap aa acc))). rewrite !toks_wrap in IH. rewrite E2, toks_wrap in IH. exact IH.
  - rewrite Hr. unfold tail_fail_out, raise_out, soft.
    destruct (xk x) eqn:Ek; cbn [is_index is_pe orb];
      try (rewrite Ek; cbn [is_fatal is_pe is_index orb]; rewrite ?xk_enh_rewrite; cbn [mkx xk]; rewrite ?Ek; reflexivity).
    unfold idx_guard. destruct (mayidx aa || Nat.leb (length s) loc); reflexivity.
  - rewrite Hr. reflexivity.
Qed.

End Tail.

(* ------------------------------------------------------------------------------------------- *)
(* 2. the plain parser on  base + ZeroOrMore(body)                                              *)
(* ------------------------------------------------------------------------------------------- *)
(* where an element without ignorables starts after its own preParse *)
Definition ws_of (a : attrs) (s : str) (l : nat) : nat :=
  if callpre a then (if skipws a then skip_white s l (white a) else l) else l.

(* how the two answers are compared: same class of outcome; same token list; an exception of the same class;
   the end of the iterative form is the end of the left-recursive form, except that ZeroOrMore with zero matches
   returns its own pre-parsed location `wsl` (the whitespace after base is consumed) *)
Definition agree (wsl lb : nat) (o_lr o_it : outcome) : Prop :=
  match o_lr, o_it with
  | Ok l r, Ok l' r' => toks r' = toks r /\ l' = (if Nat.eqb l lb then wsl else l)
  | Err x, Err x' => xk x' = xk x
  | Div, Div => True
  | _, _ => False
  end.

Lemma pre_parse_rep_nil fail a z b ne s loc k :
  pre_parse fail (Rep a [] z b ne) s loc k = k (if skipws a then skip_white s loc (white a) else loc).
Proof. unfold pre_parse. cbn [ign_of attrs_of]. rewrite skip_ignorables_nil. reflexivity. Qed.

Lemma titer_ge ans tail n : forall l ts l' ts', titer ans tail n l ts = TOk l' ts' -> l <= l'.
Proof.
  induction n as [|n IH]; intros l ts l' ts'; [discriminate|]. cbn [titer].
  destruct (tail_res ans tail l false) as [l1 ts1|k|]; [| |discriminate].
  - destruct (Nat.leb l1 l) eqn:Q; [intros [= <- _]; lia|]. apply Nat.leb_gt in Q.
    intros H. apply IH in H. lia.
  - destruct (soft k); [intros [= <- _]; lia|discriminate].
Qed.

Section Plain.
Variable G' : env.
Variable s : str.
Variable ans : expr -> nat -> outcome.

(* the plain parser's answer of an element (callPreParse = True): the same with and without actions *)
Definition pindep (f0 : nat) (c : expr) : Prop :=
  forall fu, f0 <= fu -> forall l d, parse (step G') fu (mkargs c s l d true) = Some (ans c l).

(* And.parseImpl after the first element under the plain handler (as `and_go_pure` for `parse_lr`) *)
Lemma and_go_run (rec : args -> option outcome) k a d es :
  (forall c, In c es -> forall l, rec (mkargs c s l d true) = Some (ans c l)) ->
  forall loc acc estop,
  run rec (and_go k a s d es loc acc estop) =
  run rec (match and_pure s ans a es loc acc estop with
           | AOk l acc' => k (inr (l, RPR acc'))
           | AErr x => fail_of k x
           | ADiv => Ret Div
           end).
Proof.
  induction es as [|c es IH]; intros Hind loc acc estop; [reflexivity|].
  assert (Hc : rec (mkargs c s loc d true) = Some (ans c loc)) by (apply Hind; left; reflexivity).
  assert (IH' := IH (fun c' Hc' => Hind c' (or_intror Hc'))).
  destruct (is_estop c) eqn:Ec.
  - destruct c as [a0 i0 t0| | | | |]; try discriminate. destruct t0; try discriminate.
    cbn [and_go and_pure]. apply IH'.
  - rewrite and_pure_cons by exact Ec.
    assert (Hgo : and_go k a s d (c :: es) loc acc estop =
      call c s loc d true (fun o =>
        match o with
        | Ok loc' r => and_go k a s d es loc' (pr_iadd acc r) estop
        | Div => Ret Div
        | Err x =>
          if estop then
            match xk x with
            | XSyntax => fail_of k x
            | XParse | XFatal => fail_of k (mkx XSyntax (xloc x) (xmsg x) (xel x))
            | XIndex => fail_of k (mkx XSyntax (Z.of_nat (length s)) (MNode (nid a) 0) (Some (nid a)))
            | _ => fail_of k x
            end
          else fail_of k x
        end)).
    { destruct c as [a0 i0 t0| | | | |]; try reflexivity. destruct t0; try reflexivity. discriminate. }
    rewrite Hgo. unfold call. cbn [run]. rewrite Hc. destruct (ans c loc) as [l' r'|x|].
    + apply IH'.
    + unfold estop_exn. destruct estop; [|reflexivity]. destruct (xk x); reflexivity.
    + reflexivity.
Qed.

Variable tail : list expr.
(* the repetition body: any element whose plain answer `bans` reads as one tail *)
Variables (B : expr) (bans : nat -> outcome) (fB : nat).
Hypothesis HB : forall fu, fB <= fu -> forall l d, parse (step G') fu (mkargs B s l d true) = Some (bans l).
Hypothesis HBspec : forall l,
  match tail_res ans tail l false with
  | TOk l' ts => exists r, bans l = Ok l' r /\ toks r = ts
  | TErr k => exists x, bans l = Err x /\ (if soft k then soft (xk x) = true else xk x = k)
  | TDiv => bans l = Div
  end.
Hypothesis HW : walks s ans tail.

Variable ar : attrs.
Let R : expr := Rep ar [] true B None.

(* the `while 1:` loop of _MultipleMatch.parseImpl = the token-level iteration, same fuel *)
Lemma rep_go_link fu d k foe : fB <= fu -> forall n l acc, l <= length s + 1 ->
  match titer ans tail n l (toks acc) with
  | TOk l' ts => exists acc', toks acc' = ts /\
      run (parse (step G') fu) (rep_go k foe R B None s d n l acc) = run (parse (step G') fu) (k (inr (l', RPR acc')))
  | TErr kd => exists x, xk x = kd /\
      run (parse (step G') fu) (rep_go k foe R B None s d n l acc) = run (parse (step G') fu) (foe (Err x))
  | TDiv => run (parse (step G') fu) (rep_go k foe R B None s d n l acc) = Some Div
  end.
Proof.
  intros Hfu. induction n as [|n IH]; intros l acc Hl; [reflexivity|].
  assert (Hstep : run (parse (step G') fu) (rep_go k foe R B None s d (S n) l acc) =
                  run (parse (step G') fu)
                    (match bans l with
                     | Ok loc' r' => if Nat.eqb loc' l then Ret Div else rep_go k foe R B None s d n loc' (pr_iadd acc r')
                     | Div => Ret Div
                     | Err x => if is_pe (xk x) || is_index (xk x) then k (inr (l, RPR acc)) else foe (Err x)
                     end)).
  { cbn [rep_go check_ender]. unfold R. cbn [ign_of]. rewrite skip_ignorables_nil.
    unfold call. cbn [run]. rewrite (HB fu Hfu). destruct (bans l); reflexivity. }
  rewrite Hstep. clear Hstep. cbn [titer].
  pose proof (HBspec l) as Hs. pose proof (HW l Hl) as Hw.
  destruct (tail_res ans tail l false) as [l' ts'|kd|].
  - destruct Hs as [r [E1 E2]]. destruct Hw as [Hlt Hle]. rewrite E1.
    destruct (Nat.leb l' l) eqn:Q; [apply Nat.leb_le in Q; lia|].
    destruct (Nat.eqb l' l) eqn:Q2; [apply Nat.eqb_eq in Q2; lia|].
    specialize (IH l' (pr_iadd acc r) Hle). rewrite LRGrowth.toks_iadd, E2 in IH. exact IH.
  - destruct Hs as [x [E1 E2]]. rewrite E1. unfold soft in *.
    destruct (is_pe kd || is_index kd) eqn:Qs.
    + rewrite E2. exists acc. split; reflexivity.
    + rewrite E2, Qs. exists x. split; [exact E2|reflexivity].
  - rewrite Hs. reflexivity.
Qed.

Hypothesis Hpr : plain ar.

(* ZeroOrMore(body)._parse at lb (callPreParse = True): the iteration started from the empty token list; with zero
   matches the answer is the empty result AT THE PRE-PARSED LOCATION *)
Lemma rep_parse fu d lb : fB <= fu -> lb <= length s + 1 ->
  bans (ws_of ar s lb) = bans lb ->
  exists o, parse (step G') (S fu) (mkargs R s lb d true) = Some o /\
    match titer ans tail (length s + 2) lb [] with
    | TOk l' ts => exists r, o = Ok (if Nat.eqb l' lb then ws_of ar s lb else l') r /\ toks r = ts
    | TErr kd => exists x, o = Err x /\ xk x = kd
    | TDiv => o = Div
    end.
Proof.
  intros Hfu Hlb Hws. destruct Hpr as [Hacts Hname].
  set (pl := ws_of ar s lb) in *.
  set (foe := fun o : outcome =>
      match o with
      | Err x => if true && (is_pe (xk x) || is_index (xk x))
                 then step_k R s d pl (inr (pl, RPR (pr_init (RList []) (rsname ar) true true)))
                 else fail_of (step_k R s d pl) x
      | _ => Ret Div
      end).
  assert (Hstep : parse (step G') (S fu) (mkargs R s lb d true) =
                  run (parse (step G') fu)
                    (match bans lb with
                     | Ok loc1 r1 => rep_go (step_k R s d pl) foe R B None s d (length s + 3) loc1 r1
                     | Div => Ret Div
                     | Err x => foe (Err x)
                     end)).
  { cbn [parse]. unfold step. cbn [a_e a_s a_do a_pre a_loc mkargs andb]. unfold R at 1 2. cbn [attrs_of].
    assert (Hpre : forall kk, (if callpre ar then pre_parse escape (Rep ar [] true B None) s lb kk else kk lb) = kk pl).
    { intros kk. unfold pl, ws_of. destruct (callpre ar); [|reflexivity]. apply pre_parse_rep_nil. }
    rewrite Hpre. fold R. unfold R at 1. cbn [impl check_ender]. fold R. unfold call. cbn [run].
    rewrite (HB fu Hfu), Hws. destruct (bans lb); reflexivity. }
  assert (Hfin : forall l' acc', step_k R s d pl (inr (l', RPR acc')) = Ret (Ok l' (wrap ar acc'))).
  { intros l' acc'. cbn [step_k]. rewrite finish_plain_attrs by (split; assumption). reflexivity. }
  rewrite Hstep. clear Hstep.
  replace (length s + 2) with (S (length s + 1)) by lia. cbn [titer].
  pose proof (HBspec lb) as Hs. pose proof (HW lb Hlb) as Hw.
  destruct (tail_res ans tail lb false) as [l1 ts1|kd|].
  - destruct Hs as [r1 [E1 E2]]. destruct Hw as [Hlt Hle]. rewrite E1.
    destruct (Nat.leb l1 lb) eqn:Q; [apply Nat.leb_le in Q; lia|]. cbn [app].
    pose proof (rep_go_link fu d (step_k R s d pl) foe Hfu (length s + 3) l1 r1 Hle) as Hl.
    assert (Hfuel : titer ans tail (length s + 3) l1 (toks r1) = titer ans tail (length s + 1) l1 ts1).
    { rewrite E2. replace (length s + 3) with (length s + 1 + 2) by lia.
      apply (titer_fuel_ge s ans tail HW 2); lia. }
    rewrite Hfuel in Hl.
    destruct (titer ans tail (length s + 1) l1 ts1) as [l' ts|kd|] eqn:Et.
    + destruct Hl as [acc' [E3 E4]]. apply titer_ge in Et.
      destruct (Nat.eqb l' lb) eqn:Q3; [apply Nat.eqb_eq in Q3; lia|].
      exists (Ok l' (wrap ar acc')). split; [rewrite E4, Hfin; reflexivity|].
      exists (wrap ar acc'). split; [reflexivity|]. rewrite toks_wrap. exact E3.
    + destruct Hl as [x [E3 E4]]. apply titer_err_hard in Et. subst kd.
      exists (Err x). split; [|exists x; split; reflexivity].
      rewrite E4. unfold foe. unfold soft in Et. rewrite Et. cbn [andb].
      rewrite fail_of_raise. unfold raise_out.
      destruct (is_index (xk x)) eqn:Qi; [rewrite orb_true_r in Et; discriminate|reflexivity].
    + exists Div. split; [exact Hl|reflexivity].
  - destruct Hs as [x [E1 E2]]. rewrite E1. unfold foe. unfold soft in *.
    destruct (is_pe kd || is_index kd) eqn:Qs.
    + rewrite E2. cbn [andb]. rewrite Hfin. rewrite Nat.eqb_refl.
      eexists. split; [reflexivity|]. eexists. split; [reflexivity|].
      rewrite Hname. reflexivity.
    + subst kd. rewrite Qs. cbn [andb]. rewrite fail_of_raise. unfold raise_out.
      destruct (is_index (xk x)) eqn:Qi; [rewrite orb_true_r in Qs; discriminate|].
      exists (Err x). split; [reflexivity|]. exists x. split; reflexivity.
  - rewrite Hs. exists Div. split; reflexivity.
Qed.

(* base + ZeroOrMore(body) *)
Variables (ai : attrs) (base : expr) (f0 : nat).
Let I : expr := Nary ai [] NAnd [base; R].
Hypothesis Hpi : plain ai.

Lemma iter_parse fu d pre loc0 loc lb rb : f0 <= S fu -> fB <= fu ->
  fwd_start ai s loc0 pre = loc ->
  (forall fu', f0 <= fu' -> forall d', parse (step G') fu' (mkargs base s loc d' false) = Some (ans base loc)) ->
  ans base loc = Ok lb rb -> lb <= length s + 1 ->
  bans (ws_of ar s lb) = bans lb ->
  exists o, parse (step G') (S (S fu)) (mkargs I s loc0 d pre) = Some o /\
    match titer ans tail (length s + 2) lb (toks rb) with
    | TOk l' ts => exists r, o = Ok (if Nat.eqb l' lb then ws_of ar s lb else l') r /\ toks r = ts
    | TErr kd => exists x, o = Err x /\ xk x = kd
    | TDiv => o = Div
    end.
Proof.
  intros Hf0 Hfu Hstart Hbnp Hbase Hlb Hws.
  destruct (rep_parse fu d lb Hfu Hlb Hws) as [oR [ER HR]].
  replace (toks rb) with (toks rb ++ []) by apply app_nil_r. rewrite titer_prefix.
  assert (Hstep : parse (step G') (S (S fu)) (mkargs I s loc0 d pre) =
                  run (parse (step G') (S fu))
                    (match oR with
                     | Ok l' r => step_k I s d loc (inr (l', RPR (pr_iadd rb r)))
                     | Div => Ret Div
                     | Err x => fail_of (step_k I s d loc) x
                     end)).
  { set (rec := parse (step G') (S fu)).
    change (parse (step G') (S (S fu)) (mkargs I s loc0 d pre)) with (run rec (step G' (mkargs I s loc0 d pre))).
    unfold step. cbn [a_e a_s a_do a_pre a_loc mkargs]. unfold I at 1 2. cbn [attrs_of].
    assert (Hpre : forall kk, (if pre && callpre ai then pre_parse escape (Nary ai [] NAnd [base; R]) s loc0 kk else kk loc0) = kk loc).
    { intros kk. rewrite <- Hstart. unfold fwd_start. destruct (pre && callpre ai); [|reflexivity].
      apply pre_parse_nary_nil. }
    rewrite Hpre. fold I. unfold I at 1. cbn [impl]. fold I. unfold call at 1. cbn [run].
    unfold rec at 1. rewrite (Hbnp (S fu) Hf0), Hbase.
    unfold R at 1. cbn [and_go]. fold R. unfold call. cbn [run]. unfold rec at 1. rewrite ER.
    destruct oR; reflexivity. }
  rewrite Hstep. clear Hstep.
  assert (Hfin : forall l' acc', step_k I s d loc (inr (l', RPR acc')) = Ret (Ok l' (wrap ai acc'))).
  { intros l' acc'. cbn [step_k]. rewrite finish_plain_attrs by exact Hpi. reflexivity. }
  destruct (titer ans tail (length s + 2) lb []) as [l' ts|kd|] eqn:Et.
  - destruct HR as [r [-> E2]]. rewrite Hfin. eexists. split; [reflexivity|].
    eexists. split; [reflexivity|]. rewrite toks_wrap, LRGrowth.toks_iadd, E2. reflexivity.
  - destruct HR as [x [-> E2]]. apply titer_err_hard in Et. subst kd.
    rewrite fail_of_raise. unfold raise_out. unfold soft in Et.
    destruct (is_index (xk x)) eqn:Qi; [rewrite orb_true_r in Et; discriminate|].
    exists (Err x). split; [reflexivity|]. exists x. split; reflexivity.
  - subst oR. exists Div. split; reflexivity.
Qed.

End Plain.

(* ------------------------------------------------------------------------------------------- *)
(* 3. the two shapes of the repetition body                                                     *)
(* ------------------------------------------------------------------------------------------- *)
(* (a) a one-element tail  E <<= E + t | base  :  base + ZeroOrMore(t), the body is the element itself *)
Lemma single_body_spec (ans : expr -> nat -> outcome) t1 : is_estop t1 = false -> forall l,
  match tail_res ans [t1] l false with
  | TOk l' ts => exists r, ans t1 l = Ok l' r /\ toks r = ts
  | TErr k => exists x, ans t1 l = Err x /\ (if soft k then soft (xk x) = true else xk x = k)
  | TDiv => ans t1 l = Div
  end.
Proof.
  intros H l. rewrite tail_res_cons by exact H. destruct (ans t1 l) as [l' r|x|].
  - cbn [tail_res]. exists r. rewrite app_nil_r. split; reflexivity.
  - exists x. split; [reflexivity|]. cbn [estop_kind]. destruct (soft (xk x)); reflexivity.
  - reflexivity.
Qed.

(* (b) E <<= E + t1 + rest... | base  :  base + ZeroOrMore(And(t1 :: rest)) *)
Section AndBody.
Variable G' : env.
Variable s : str.
Variable ans : expr -> nat -> outcome.
Variables (at_ : attrs) (t1 : expr) (rest : list expr) (f0 : nat).
Let TA : expr := Nary at_ [] NAnd (t1 :: rest).

(* And(t1 :: rest)._parse at l (callPreParse = True) *)
Definition and_bans (l : nat) : outcome :=
  match ans t1 l with
  | Ok l1 r1 =>
    match and_pure s ans at_ rest l1 r1 false with
    | AOk l' acc => Ok l' (wrap at_ acc)
    | AErr x => raise_out s at_ (ws_of at_ s l) x
    | ADiv => Div
    end
  | Err x => raise_out s at_ (ws_of at_ s l) x
  | Div => Div
  end.

Hypothesis Hpt : plain at_.
Hypothesis Ht1 : is_estop t1 = false.
Hypothesis Hrest : forall c, In c rest -> pindep G' s ans f0 c.
(* And calls its first element with callPreParse = False, after its own preParse: that is the element's own
   `_parse` with pre-parse from l (And copies the whitespace settings of its first element) *)
Hypothesis Hfirst : forall fu, f0 <= fu -> forall l d,
  parse (step G') fu (mkargs t1 s (ws_of at_ s l) d false) = Some (ans t1 l).

Lemma and_body_parse : forall fu, S f0 <= fu -> forall l d,
  parse (step G') fu (mkargs TA s l d true) = Some (and_bans l).
Proof.
  intros fu Hfu l d. destruct fu as [|fu]; [lia|].
  set (rec := parse (step G') fu).
  change (parse (step G') (S fu) (mkargs TA s l d true)) with (run rec (step G' (mkargs TA s l d true))).
  unfold step. cbn [a_e a_s a_do a_pre a_loc mkargs andb]. unfold TA at 1 2. cbn [attrs_of].
  assert (Hpre : forall kk, (if callpre at_ then pre_parse escape (Nary at_ [] NAnd (t1 :: rest)) s l kk else kk l) = kk (ws_of at_ s l)).
  { intros kk. unfold ws_of. destruct (callpre at_); [|reflexivity]. apply pre_parse_nary_nil. }
  rewrite Hpre. fold TA. unfold TA at 1. cbn [impl]. fold TA. unfold call at 1. cbn [run].
  unfold rec at 1. rewrite Hfirst by lia. unfold and_bans.
  destruct (ans t1 l) as [l1 r1|x|].
  - rewrite (and_go_run s ans rec).
    2:{ intros c Hc l0. apply (Hrest c Hc). lia. }
    change (attrs_of TA) with at_.
    destruct (and_pure s ans at_ rest l1 r1 false) as [l' acc|x|].
    + cbn [step_k]. rewrite finish_plain_attrs by exact Hpt. reflexivity.
    + rewrite fail_of_raise. reflexivity.
    + reflexivity.
  - cbn [failo_of]. rewrite fail_of_raise. reflexivity.
  - reflexivity.
Qed.

Lemma raise_out_kind a pl x :
  match raise_out s a pl x with
  | Err x' => if soft (xk x) then soft (xk x') = true else x' = x
  | _ => False
  end.
Proof.
  unfold raise_out. destruct (is_index (xk x)) eqn:Qi.
  - assert (Hs : soft (xk x) = true) by (unfold soft; rewrite Qi; apply orb_true_r).
    rewrite Hs. unfold idx_guard. destruct (mayidx a || Nat.leb (length s) pl); reflexivity.
  - destruct (soft (xk x)); reflexivity.
Qed.

Lemma and_body_spec : forall l,
  match tail_res ans (t1 :: rest) l false with
  | TOk l' ts => exists r, and_bans l = Ok l' r /\ toks r = ts
  | TErr k => exists x, and_bans l = Err x /\ (if soft k then soft (xk x) = true else xk x = k)
  | TDiv => and_bans l = Div
  end.
Proof.
  intros l. rewrite tail_res_cons by exact Ht1. unfold and_bans.
  destruct (ans t1 l) as [l1 r1|x|].
  - pose proof (and_pure_res s ans at_ rest l1 r1 false) as Hr.
    destruct (and_pure s ans at_ rest l1 r1 false) as [l' acc|x|].
    + destruct Hr as [ts [E1 E2]]. rewrite E1. exists (wrap at_ acc). split; [reflexivity|]. rewrite toks_wrap. exact E2.
    + rewrite Hr. pose proof (raise_out_kind at_ (ws_of at_ s l) x) as Hk.
      destruct (raise_out s at_ (ws_of at_ s l) x) as [|x'|]; try contradiction.
      exists x'. split; [reflexivity|]. destruct (soft (xk x)); [exact Hk|subst x'; reflexivity].
    + rewrite Hr. reflexivity.
  - cbn [estop_kind]. pose proof (raise_out_kind at_ (ws_of at_ s l) x) as Hk.
    destruct (raise_out s at_ (ws_of at_ s l) x) as [|x'|]; try contradiction.
    exists x'. split; [reflexivity|]. destruct (soft (xk x)); [exact Hk|subst x'; reflexivity].
  - reflexivity.
Qed.

(* ZeroOrMore's own preParse before the body's changes nothing (it copies the body's whitespace settings) *)
Lemma and_body_ws ar : (forall l, ws_of at_ s (ws_of ar s l) = ws_of at_ s l) ->
  forall l, and_bans (ws_of ar s l) = and_bans l.
Proof.
  intros H2 l. unfold and_bans. rewrite H2.
  assert (E : ans t1 (ws_of ar s l) = ans t1 l).
  { pose proof (Hfirst f0 (le_n _) (ws_of ar s l) false) as A. rewrite H2 in A.
    pose proof (Hfirst f0 (le_n _) l false) as A'. congruence. }
  rewrite E. reflexivity.
Qed.
End AndBody.

(* ------------------------------------------------------------------------------------------- *)
(* 4. left-recursive rule under `parse_lr`  vs  iterative grammar under the plain `parse`        *)
(* ------------------------------------------------------------------------------------------- *)
Theorem direct_iterative_gen G G' s (ans : expr -> nat -> outcome) id aE ab aa ai ar tail base B bans fB loc f0 :
  nth_error G id = Some (Nary ab [] NMatchFirst [Nary aa [] NAnd (Fwd aE [] (Some id) :: tail); base]) ->
  plain aE -> plain aa -> plain ab ->
  ws_of aa s loc = loc ->
  indep G s ans f0 base ->
  (forall c, In c tail -> indep G s ans f0 c) ->
  plain ai -> plain ar ->
  (forall fu, fB <= fu -> forall l d, parse (step G') fu (mkargs B s l d true) = Some (bans l)) ->
  (forall l, match tail_res ans tail l false with
             | TOk l' ts => exists r, bans l = Ok l' r /\ toks r = ts
             | TErr k => exists x, bans l = Err x /\ (if soft k then soft (xk x) = true else xk x = k)
             | TDiv => bans l = Div
             end) ->
  walks s ans tail ->
  (forall fu, f0 <= fu -> forall d, parse (step G') fu (mkargs base s loc d false) = Some (ans base loc)) ->
  forall lb rb, ans base loc = Ok lb rb -> loc <= lb -> lb <= length s + 1 ->
  bans (ws_of ar s lb) = bans lb ->
  forall f fi d pre loc0 m, f0 <= f -> f0 <= S fi -> fB <= fi ->
  fwd_start aE s loc0 pre = loc -> fwd_start ai s loc0 pre = loc ->
  memo_get m (loc, nid aE, d) = None ->
  exists m' o_lr o_it,
    parse_lr G (S (S (S (S f)))) m (mkargs (Fwd aE [] (Some id)) s loc0 d pre) = Some (o_lr, m') /\
    m_cap m' = m_cap m /\
    parse (step G') (S (S fi)) (mkargs (Nary ai [] NAnd [base; Rep ar [] true B None]) s loc0 d pre) = Some o_it /\
    agree (ws_of ar s lb) lb o_lr o_it.
Proof.
  intros HG HpE Hpa Hpb Hst Hbi Hti Hpi Hpr HB HBs HW Hbnp lb rb Hbase Hl Hlb Hws f fi d pre loc0 m Hf Hfi HfB HsE HsI Hm.
  destruct (direct_parse_lr G s ans id aE ab aa tail base loc f0 HG HpE Hpa Hpb Hst Hbi Hti lb rb Hbase
              f d pre loc0 m Hf Hl HsE Hm) as [m' [E1 E2]].
  destruct (iter_parse G' s ans tail B bans fB HB HBs HW ar Hpr ai base f0 Hpi fi d pre loc0 loc lb rb
              Hfi HfB HsI Hbnp Hbase Hlb Hws) as [oI [E3 E4]].
  pose proof (iter_titer s ans tail aE ab aa loc (length s + 2) lb (wrap ab rb)) as Hit.
  rewrite toks_wrap in Hit.
  eexists m', _, oI. split; [exact E1|]. split; [exact E2|]. split; [exact E3|].
  destruct (iter s ans aE ab aa tail loc (length s + 2) lb (wrap ab rb)) as [l r|x|].
  - rewrite Hit in E4. destruct E4 as [r' [-> E5]]. cbn [agree]. rewrite toks_wrap. split; [exact E5|reflexivity].
  - rewrite Hit in E4. destruct E4 as [x' [-> E5]]. apply titer_err_hard in Hit. unfold soft in Hit.
    unfold raise_out. destruct (is_index (xk x)); [rewrite orb_true_r in Hit; discriminate|].
    cbn [agree]. exact E5.
  - rewrite Hit in E4. subst oI. exact I.
Qed.

(* the repetition body is And(t1 :: rest) *)
Theorem direct_iterative G G' s (ans : expr -> nat -> outcome) id aE ab aa ai ar at_ t1 rest base loc f0 :
  nth_error G id = Some (Nary ab [] NMatchFirst [Nary aa [] NAnd (Fwd aE [] (Some id) :: t1 :: rest); base]) ->
  plain aE -> plain aa -> plain ab ->
  ws_of aa s loc = loc ->
  indep G s ans f0 base ->
  (forall c, In c (t1 :: rest) -> indep G s ans f0 c) ->
  plain ai -> plain ar -> plain at_ ->
  is_estop t1 = false ->
  (forall c, In c rest -> pindep G' s ans f0 c) ->
  (forall fu, f0 <= fu -> forall l d, parse (step G') fu (mkargs t1 s (ws_of at_ s l) d false) = Some (ans t1 l)) ->
  (forall l, ws_of at_ s (ws_of ar s l) = ws_of at_ s l) ->
  walks s ans (t1 :: rest) ->
  (forall fu, f0 <= fu -> forall d, parse (step G') fu (mkargs base s loc d false) = Some (ans base loc)) ->
  forall lb rb, ans base loc = Ok lb rb -> loc <= lb -> lb <= length s + 1 ->
  forall f d pre loc0 m, f0 <= f ->
  fwd_start aE s loc0 pre = loc -> fwd_start ai s loc0 pre = loc ->
  memo_get m (loc, nid aE, d) = None ->
  exists m' o_lr o_it,
    parse_lr G (4 + f) m (mkargs (Fwd aE [] (Some id)) s loc0 d pre) = Some (o_lr, m') /\
    m_cap m' = m_cap m /\
    parse (step G') (3 + f)
      (mkargs (Nary ai [] NAnd [base; Rep ar [] true (Nary at_ [] NAnd (t1 :: rest)) None]) s loc0 d pre) = Some o_it /\
    agree (ws_of ar s lb) lb o_lr o_it.
Proof.
  intros HG HpE Hpa Hpb Hst Hbi Hti Hpi Hpr Hpt Ht1 Hrest Hfirst H2 HW Hbnp lb rb Hbase Hl Hlb f d pre loc0 m Hf HsE HsI Hm.
  exact (direct_iterative_gen G G' s ans id aE ab aa ai ar (t1 :: rest) base (Nary at_ [] NAnd (t1 :: rest))
           (and_bans s ans at_ t1 rest) (S f0) loc f0 HG HpE Hpa Hpb Hst Hbi Hti Hpi Hpr
           (and_body_parse G' s ans at_ t1 rest f0 Hpt Hrest Hfirst)
           (and_body_spec s ans at_ t1 rest Ht1) HW Hbnp lb rb Hbase Hl Hlb
           (and_body_ws G' s ans at_ t1 rest f0 Hfirst ar H2 lb)
           f (S f) d pre loc0 m Hf (le_S _ _ (le_S _ _ Hf)) (le_n_S _ _ Hf) HsE HsI Hm).
Qed.

(* the tail is one element, the repetition body is that element *)
Theorem direct_iterative_single G G' s (ans : expr -> nat -> outcome) id aE ab aa ai ar t1 base loc f0 :
  nth_error G id = Some (Nary ab [] NMatchFirst [Nary aa [] NAnd [Fwd aE [] (Some id); t1]; base]) ->
  plain aE -> plain aa -> plain ab ->
  ws_of aa s loc = loc ->
  indep G s ans f0 base -> indep G s ans f0 t1 ->
  plain ai -> plain ar ->
  is_estop t1 = false ->
  pindep G' s ans f0 t1 ->
  (forall l, ans t1 (ws_of ar s l) = ans t1 l) ->
  walks s ans [t1] ->
  (forall fu, f0 <= fu -> forall d, parse (step G') fu (mkargs base s loc d false) = Some (ans base loc)) ->
  forall lb rb, ans base loc = Ok lb rb -> loc <= lb -> lb <= length s + 1 ->
  forall f d pre loc0 m, f0 <= f ->
  fwd_start aE s loc0 pre = loc -> fwd_start ai s loc0 pre = loc ->
  memo_get m (loc, nid aE, d) = None ->
  exists m' o_lr o_it,
    parse_lr G (4 + f) m (mkargs (Fwd aE [] (Some id)) s loc0 d pre) = Some (o_lr, m') /\
    m_cap m' = m_cap m /\
    parse (step G') (2 + f) (mkargs (Nary ai [] NAnd [base; Rep ar [] true t1 None]) s loc0 d pre) = Some o_it /\
    agree (ws_of ar s lb) lb o_lr o_it.
Proof.
  intros HG HpE Hpa Hpb Hst Hbi Hti Hpi Hpr Ht1 Hp1 H2 HW Hbnp lb rb Hbase Hl Hlb f d pre loc0 m Hf HsE HsI Hm.
  assert (Hti' : forall c, In c [t1] -> indep G s ans f0 c) by (intros c [<-|[]]; exact Hti).
  exact (direct_iterative_gen G G' s ans id aE ab aa ai ar [t1] base t1 (ans t1) f0 loc f0 HG HpE Hpa Hpb Hst Hbi Hti' Hpi Hpr
           Hp1 (single_body_spec ans t1 Ht1) HW Hbnp lb rb Hbase Hl Hlb (H2 lb)
           f f d pre loc0 m Hf (le_S _ _ Hf) Hf HsE HsI Hm).
Qed.

(* ------------------------------------------------------------------------------------------- *)
(* 5. discharging the hypotheses: tokens, whitespace, the walk                                  *)
(* ------------------------------------------------------------------------------------------- *)
(* a token without actions / ignorables answers the same under the plain handler as under `parse_lr` (tok_indep) *)
Lemma tok_pindep G s a t : acts a = [] -> pindep G s (leaf_ans G s) 1 (Tok a [] t).
Proof.
  intros Ha fu Hfu l d. destruct fu as [|fu]; [lia|].
  change (parse (step G) (S fu) (mkargs (Tok a [] t) s l d true))
    with (run (parse (step G) fu) (step G (mkargs (Tok a [] t) s l d true))).
  rewrite tok_step_ret by exact Ha. reflexivity.
Qed.

(* tokens whose preParse is the generic one *)
Definition simple_pre (t : tkind) : bool := match t with KGoToCol _ | KLineStart _ _ => false | _ => true end.

Lemma tok_impl_d G s a t pl d : acts a = [] ->
  impl G (Tok a [] t) s pl d (step_k (Tok a [] t) s d pl) = impl G (Tok a [] t) s pl false (step_k (Tok a [] t) s false pl).
Proof.
  intros Ha. cbn [impl]. unfold step_k. cbn [attrs_of]. destruct (tok_impl a t s pl); try reflexivity.
  unfold finish. cbn [attrs_of]. rewrite Ha. reflexivity.
Qed.

(* called with callPreParse = False at the place where its own preParse would have led: the same answer *)
Lemma tok_nopre G s a t : acts a = [] -> skipws a = true -> callpre a = true -> simple_pre t = true ->
  forall fu, 1 <= fu -> forall l d,
  parse (step G) fu (mkargs (Tok a [] t) s (skip_white s l (white a)) d false) = Some (leaf_ans G s (Tok a [] t) l).
Proof.
  intros Ha Hsk Hcp Hsp fu Hfu l d. destruct fu as [|fu]; [lia|].
  change (parse (step G) (S fu) (mkargs (Tok a [] t) s (skip_white s l (white a)) d false))
    with (run (parse (step G) fu) (step G (mkargs (Tok a [] t) s (skip_white s l (white a)) d false))).
  unfold leaf_ans.
  assert (E : step G (mkargs (Tok a [] t) s (skip_white s l (white a)) d false) = step G (mkargs (Tok a [] t) s l false true)).
  { unfold step. cbn [a_e a_s a_do a_pre a_loc mkargs andb attrs_of]. rewrite Hcp.
    unfold pre_parse. cbn [ign_of attrs_of].
    destruct t; try discriminate; rewrite skip_ignorables_nil, Hsk; apply tok_impl_d; exact Ha. }
  rewrite E. destruct (tok_step_ret G s a t l false Ha) as [].
  rewrite (tok_step_ret G s a t l false Ha). reflexivity.
Qed.

(* the same for callPreParse = False at an arbitrary location *)
Definition leaf_ans_np (G : env) (s : str) (c : expr) (l : nat) : outcome :=
  match step G (mkargs c s l false false) with Ret o => o | Call _ _ => Div end.

Lemma tok_nopre_at G s a t : acts a = [] ->
  forall fu, 1 <= fu -> forall l d,
  parse (step G) fu (mkargs (Tok a [] t) s l d false) = Some (leaf_ans_np G s (Tok a [] t) l).
Proof.
  intros Ha fu Hfu l d. destruct fu as [|fu]; [lia|].
  change (parse (step G) (S fu) (mkargs (Tok a [] t) s l d false))
    with (run (parse (step G) fu) (step G (mkargs (Tok a [] t) s l d false))).
  unfold leaf_ans_np.
  assert (E : step G (mkargs (Tok a [] t) s l d false) = step G (mkargs (Tok a [] t) s l false false)).
  { unfold step. cbn [a_e a_s a_do a_pre a_loc mkargs andb attrs_of]. apply tok_impl_d. exact Ha. }
  rewrite E.
  assert (Hk : exists o, step G (mkargs (Tok a [] t) s l false false) = Ret o).
  { unfold step. cbn [a_e a_s a_do a_pre a_loc mkargs andb attrs_of impl]. unfold step_k. cbn [attrs_of].
    destruct (tok_impl a t s l) as [l' r'|x|].
    - unfold finish. cbn [attrs_of]. rewrite Ha. eexists. reflexivity.
    - eexists. reflexivity.
    - destruct (mayidx a || Nat.leb (length s) l); eexists; reflexivity. }
  destruct Hk as [o Ho]. rewrite Ho. reflexivity.
Qed.

(* And / ZeroOrMore copy the whitespace settings of their first element / body: skipping twice is skipping once *)
Lemma ws_of_skip a s l : callpre a = true -> skipws a = true -> ws_of a s l = skip_white s l (white a).
Proof. intros H1 H2. unfold ws_of. rewrite H1, H2. reflexivity. Qed.

Lemma ws_of_idem a1 a2 s l : callpre a1 = true -> skipws a1 = true -> callpre a2 = true -> skipws a2 = true ->
  white a2 = white a1 -> ws_of a1 s (ws_of a2 s l) = ws_of a1 s l.
Proof. intros. rewrite !ws_of_skip by assumption. rewrite H3. apply skip_white_idem. Qed.

(* the walk hypothesis for a given input is a finite check *)
Definition walksb (s : str) (ans : expr -> nat -> outcome) (tail : list expr) : bool :=
  forallb (fun l => match tail_res ans tail l false with
                    | TOk l' _ => Nat.ltb l l' && Nat.leb l' (length s + 1)
                    | _ => true
                    end) (seq 0 (length s + 2)).

Lemma walksb_ok s ans tail : walksb s ans tail = true -> walks s ans tail.
Proof.
  unfold walksb, walks. intros H l Hl. rewrite forallb_forall in H.
  specialize (H l). rewrite in_seq in H. specialize (H ltac:(lia)).
  destruct (tail_res ans tail l false); [|exact I|exact I].
  apply andb_prop in H as [H1 H2]. apply Nat.ltb_lt in H1. apply Nat.leb_le in H2. split; assumption.
Qed.

(* ------------------------------------------------------------------------------------------- *)
(* 6. instances:  E <<= E + '+' + N | N   vs   N + ZeroOrMore('+' + N)                           *)
(* ------------------------------------------------------------------------------------------- *)
(* the iterative grammar built from THE SAME '+' and N objects as GE (attributes of the And / ZeroOrMore / inner And as
   dumped from the real `N + ZeroOrMore(P + N)`, ids 11, 13, 14) *)
Definition IE_ai : attrs := mk 11 true true true true 28.
Definition IE_ar : attrs := mk 13 true true true false 18.
Definition IE_at : attrs := mk 14 true true true true 13.
Definition IE' : expr :=
  Nary IE_ai [] NAnd [num 5; Rep IE_ar [] true (Nary IE_at [] NAnd [lit 4 43; num 5]) None].

(* everything except the input-dependent facts, for every input *)
Lemma GE_link s loc lb rb :
  fwd_start gE_attrs s 0 true = loc ->
  leaf_ans GE s (num 5) loc = Ok lb rb -> loc <= lb -> lb <= length s + 1 ->
  leaf_ans_np GE s (num 5) loc = leaf_ans GE s (num 5) loc ->
  walksb s (leaf_ans GE s) [lit 4 43; num 5] = true ->
  forall f d m, memo_get m (loc, 1, d) = None ->
  exists m' o_lr o_it,
    parse_lr GE (5 + f) m (mkargs gE s 0 d true) = Some (o_lr, m') /\ m_cap m' = m_cap m /\
    parse (step GE) (4 + f) (mkargs IE' s 0 d true) = Some o_it /\
    agree (ws_of IE_ar s lb) lb o_lr o_it.
Proof.
  intros Hstart Hb Hl Hlb Hnp HW f d m Hm.
  assert (Hnum : indep GE s (leaf_ans GE s) 1 (num 5)) by (apply tok_indep; reflexivity).
  assert (Hplus : indep GE s (leaf_ans GE s) 1 (lit 4 43)) by (apply tok_indep; reflexivity).
  assert (Htl : forall c, In c [lit 4 43; num 5] -> indep GE s (leaf_ans GE s) 1 c).
  { intros c [<-|[<-|[]]]; assumption. }
  assert (Hrest : forall c, In c [num 5] -> pindep GE s (leaf_ans GE s) 1 c).
  { intros c [<-|[]]. apply tok_pindep. reflexivity. }
  assert (Hfirst : forall fu, 1 <= fu -> forall l d0,
            parse (step GE) fu (mkargs (lit 4 43) s (ws_of IE_at s l) d0 false) = Some (leaf_ans GE s (lit 4 43) l)).
  { intros fu Hfu l d0. rewrite ws_of_skip by reflexivity.
    apply (tok_nopre GE s (mk 4 false true false true 3) (KLit [43%N])); try reflexivity. exact Hfu. }
  assert (Hbnp : forall fu, 1 <= fu -> forall d0,
            parse (step GE) fu (mkargs (num 5) s loc d0 false) = Some (leaf_ans GE s (num 5) loc)).
  { intros fu Hfu d0. rewrite <- Hnp. apply tok_nopre_at; [reflexivity|exact Hfu]. }
  assert (Hst : ws_of (mk 3 true true true true 56) s loc = loc).
  { rewrite <- Hstart. apply (stable_after_skip s 0 gE_attrs (mk 3 true true true true 56)); reflexivity. }
  exact (direct_iterative GE GE s (leaf_ans GE s) 0 gE_attrs (mk 2 true false true true 33) (mk 3 true true true true 56)
           IE_ai IE_ar IE_at (lit 4 43) [num 5] (num 5) loc 1
           eq_refl (conj eq_refl eq_refl) (conj eq_refl eq_refl) (conj eq_refl eq_refl) Hst Hnum Htl
           (conj eq_refl eq_refl) (conj eq_refl eq_refl) (conj eq_refl eq_refl) eq_refl Hrest Hfirst
           (fun l => ws_of_idem IE_at IE_ar s l eq_refl eq_refl eq_refl eq_refl eq_refl)
           (walksb_ok _ _ _ HW) Hbnp lb rb Hb Hl Hlb (S f) d true 0 m (le_n_S _ _ (Nat.le_0_l f)) Hstart Hstart Hm).
Qed.

(* "1+2+1": both answer ['1','+','2','+','1'] ending at 5 — every fuel, do_actions, capacity *)
Lemma direct_iterative_121 f d m : memo_get m (0, 1, d) = None ->
  exists m' r,
    parse_lr GE (5 + f) m (mkargs gE s_121 0 d true) =
      Some (Ok 5 (pr_of_list [tstr 49; tstr 43; tstr 50; tstr 43; tstr 49]), m') /\ m_cap m' = m_cap m /\
    parse (step GE) (4 + f) (mkargs IE' s_121 0 d true) = Some (Ok 5 r) /\
    toks r = [tstr 49; tstr 43; tstr 50; tstr 43; tstr 49].
Proof.
  intros Hm.
  assert (H1 : fwd_start gE_attrs s_121 0 true = 0) by reflexivity.
  assert (H2 : leaf_ans GE s_121 (num 5) 0 = Ok 1 (pr_of_list [tstr 49])) by (vm_compute; reflexivity).
  assert (H3 : leaf_ans_np GE s_121 (num 5) 0 = leaf_ans GE s_121 (num 5) 0) by (vm_compute; reflexivity).
  assert (H4 : walksb s_121 (leaf_ans GE s_121) [lit 4 43; num 5] = true) by (vm_compute; reflexivity).
  destruct (GE_link s_121 0 1 (pr_of_list [tstr 49]) H1 H2 ltac:(lia) ltac:(simpl; lia) H3 H4 f d m Hm)
    as [m' [o_lr [o_it [E1 [E2 [E3 E4]]]]]].
  destruct (direct_instance f d m Hm) as [m2 [E5 _]].
  rewrite E5 in E1. injection E1 as <- <-.
  destruct o_it as [l' r'|x|]; cbn [agree] in E4; try contradiction.
  destruct E4 as [E6 E7]. vm_compute in E7. subst l'.
  exists m2, r'. repeat split; try assumption.
Qed.

(* " 1 + 2 +": a dangling operator — both answer ['1','+','2'] ending at 6 *)
Definition s_partial : str := [32; 49; 32; 43; 32; 50; 32; 43]%N.

Lemma direct_partial_lr f d m : memo_get m (1, 1, d) = None ->
  exists m', parse_lr GE (5 + f) m (mkargs gE s_partial 0 d true) =
             Some (Ok 6 (pr_of_list [tstr 49; tstr 43; tstr 50]), m') /\ m_cap m' = m_cap m.
Proof.
  intros Hm.
  assert (Hb : leaf_ans GE s_partial (num 5) 1 = Ok 2 (pr_of_list [tstr 49])) by (vm_compute; reflexivity).
  assert (Hnum : indep GE s_partial (leaf_ans GE s_partial) 1 (num 5)) by (apply tok_indep; reflexivity).
  assert (Hplus : indep GE s_partial (leaf_ans GE s_partial) 1 (lit 4 43)) by (apply tok_indep; reflexivity).
  assert (Htl : forall c, In c [lit 4 43; num 5] -> indep GE s_partial (leaf_ans GE s_partial) 1 c).
  { intros c [<-|[<-|[]]]; assumption. }
  destruct (direct_parse_lr GE s_partial (leaf_ans GE s_partial) 0 gE_attrs (mk 2 true false true true 33) (mk 3 true true true true 56)
              [lit 4 43; num 5] (num 5) 1 1
              eq_refl (conj eq_refl eq_refl) (conj eq_refl eq_refl) (conj eq_refl eq_refl) eq_refl
              Hnum Htl 2 _ Hb (S f) d true 0 m) as [m' [E1 E2]]; [lia|lia|reflexivity|exact Hm|].
  exists m'. split; [|exact E2]. exact E1.
Qed.

Lemma direct_iterative_partial_inst f d m : memo_get m (1, 1, d) = None ->
  exists m' r,
    parse_lr GE (5 + f) m (mkargs gE s_partial 0 d true) =
      Some (Ok 6 (pr_of_list [tstr 49; tstr 43; tstr 50]), m') /\ m_cap m' = m_cap m /\
    parse (step GE) (4 + f) (mkargs IE' s_partial 0 d true) = Some (Ok 6 r) /\
    toks r = [tstr 49; tstr 43; tstr 50].
Proof.
  intros Hm.
  assert (H1 : fwd_start gE_attrs s_partial 0 true = 1) by reflexivity.
  assert (H2 : leaf_ans GE s_partial (num 5) 1 = Ok 2 (pr_of_list [tstr 49])) by (vm_compute; reflexivity).
  assert (H3 : leaf_ans_np GE s_partial (num 5) 1 = leaf_ans GE s_partial (num 5) 1) by (vm_compute; reflexivity).
  assert (H4 : walksb s_partial (leaf_ans GE s_partial) [lit 4 43; num 5] = true) by (vm_compute; reflexivity).
  destruct (GE_link s_partial 1 2 (pr_of_list [tstr 49]) H1 H2 ltac:(lia) ltac:(simpl; lia) H3 H4 f d m Hm)
    as [m' [o_lr [o_it [E1 [E2 [E3 E4]]]]]].
  destruct (direct_partial_lr f d m Hm) as [m2 [E5 _]].
  rewrite E5 in E1. injection E1 as <- <-.
  destruct o_it as [l' r'|x|]; cbn [agree] in E4; try contradiction.
  destruct E4 as [E6 E7]. vm_compute in E7. subst l'.
  exists m2, r'. repeat split; try assumption.
Qed.

(* "1 +": zero repetitions — same tokens ['1'], but the left-recursive form ends at 1 (base's end) and the iterative form
   at 2 (ZeroOrMore's pre-parsed location): the end locations DO differ, exactly as `agree` says *)
Definition s_zero : str := [49; 32; 43]%N.

Lemma direct_zero_lr f d m : memo_get m (0, 1, d) = None ->
  exists m', parse_lr GE (5 + f) m (mkargs gE s_zero 0 d true) =
             Some (Ok 1 (pr_of_list [tstr 49]), m') /\ m_cap m' = m_cap m.
Proof.
  intros Hm.
  assert (Hb : leaf_ans GE s_zero (num 5) 0 = Ok 1 (pr_of_list [tstr 49])) by (vm_compute; reflexivity).
  assert (Hnum : indep GE s_zero (leaf_ans GE s_zero) 1 (num 5)) by (apply tok_indep; reflexivity).
  assert (Hplus : indep GE s_zero (leaf_ans GE s_zero) 1 (lit 4 43)) by (apply tok_indep; reflexivity).
  assert (Htl : forall c, In c [lit 4 43; num 5] -> indep GE s_zero (leaf_ans GE s_zero) 1 c).
  { intros c [<-|[<-|[]]]; assumption. }
  destruct (direct_parse_lr GE s_zero (leaf_ans GE s_zero) 0 gE_attrs (mk 2 true false true true 33) (mk 3 true true true true 56)
              [lit 4 43; num 5] (num 5) 0 1
              eq_refl (conj eq_refl eq_refl) (conj eq_refl eq_refl) (conj eq_refl eq_refl) eq_refl
              Hnum Htl 1 _ Hb (S f) d true 0 m) as [m' [E1 E2]]; [lia|lia|reflexivity|exact Hm|].
  exists m'. split; [|exact E2]. exact E1.
Qed.

Lemma direct_iterative_zero_inst f d m : memo_get m (0, 1, d) = None ->
  exists m' r,
    parse_lr GE (5 + f) m (mkargs gE s_zero 0 d true) = Some (Ok 1 (pr_of_list [tstr 49]), m') /\ m_cap m' = m_cap m /\
    parse (step GE) (4 + f) (mkargs IE' s_zero 0 d true) = Some (Ok 2 r) /\
    toks r = [tstr 49].
Proof.
  intros Hm.
  assert (H1 : fwd_start gE_attrs s_zero 0 true = 0) by reflexivity.
  assert (H2 : leaf_ans GE s_zero (num 5) 0 = Ok 1 (pr_of_list [tstr 49])) by (vm_compute; reflexivity).
  assert (H3 : leaf_ans_np GE s_zero (num 5) 0 = leaf_ans GE s_zero (num 5) 0) by (vm_compute; reflexivity).
  assert (H4 : walksb s_zero (leaf_ans GE s_zero) [lit 4 43; num 5] = true) by (vm_compute; reflexivity).
  destruct (GE_link s_zero 0 1 (pr_of_list [tstr 49]) H1 H2 ltac:(lia) ltac:(simpl; lia) H3 H4 f d m Hm)
    as [m' [o_lr [o_it [E1 [E2 [E3 E4]]]]]].
  destruct (direct_zero_lr f d m Hm) as [m2 [E5 _]].
  rewrite E5 in E1. injection E1 as <- <-.
  destruct o_it as [l' r'|x|]; cbn [agree] in E4; try contradiction.
  destruct E4 as [E6 E7]. vm_compute in E7. subst l'.
  exists m2, r'. repeat split; try assumption.
Qed.

(* ------------------------------------------------------------------------------------------- *)
(* 7. without "the tail advances when it matches" the two sides differ                          *)
(* ------------------------------------------------------------------------------------------- *)
(* E <<= E + Empty() | N   vs   N + ZeroOrMore(Empty())   (attributes as dumped from the real objects) *)
Definition emp (id : nat) : expr := Tok (mk id false true false true 5) [] KEmpty.
Definition gZ : expr := Fwd (mk 1 true true true false 34) [] (Some 0).
Definition GZ : env :=
  [ Nary (mk 2 true false true true 25) [] NMatchFirst [ Nary (mk 3 true true true true 42) [] NAnd [gZ; emp 4]; num 5 ] ].
Definition IZ : expr :=
  Nary (mk 1 true true true true 20) [] NAnd [ num 2; Rep (mk 3 true true false false 10) [] true (emp 4) None ].
Definition s_1 : str := [49]%N.

(* "1": bounded recursion stops at the first round that does not advance and answers ['1'] (every capacity); the plain
   parser on the iterative form spins in ZeroOrMore(Empty()) (the real code loops for ever, the model says Div).
   The hypothesis `walks` is what excludes it: it is false here. *)
Lemma nullable_tail_witness :
  (forall cap, In cap [None; Some 0; Some 1; Some 2] ->
     res_of (parse_lr GZ 40 (memo_empty cap) (mkargs gZ s_1 0 true true)) = Some (1, [tstr 49])) /\
  parse (step []) 40 (mkargs IZ s_1 0 true true) = Some Div /\
  walksb s_1 (leaf_ans GZ s_1) [emp 4] = false.
Proof.
  split; [|split].
  - intros cap [<-|[<-|[<-|[<-|[]]]]]; vm_compute; reflexivity.
  - vm_compute. reflexivity.
  - vm_compute. reflexivity.
Qed.

(* ------------------------------------------------------------------------------------------- *)
(* 8. the grouped form  E <<= Group(E + tail...) | base : left-nested token trees               *)
(* ------------------------------------------------------------------------------------------- *)
(* [a; op; b; op; c] -> [[[a; op; b]; op; c]]  (tools/props/c04.py `left_nest`) *)
Fixpoint left_nest_go (cur : tok) (rest : list tok) : tok :=
  match rest with
  | op :: b :: rest' => left_nest_go (TList [cur; op; b]) rest'
  | _ => cur
  end.
Definition left_nest (ts : list tok) : list tok :=
  match ts with
  | [] => []
  | [a] => [a]
  | a :: rest => [left_nest_go a rest]
  end.

(* the general fold: every round wraps "what there is so far, then this round's tokens" into one list value *)
Definition nest_rounds (v : list tok) (rounds : list (list tok)) : list tok :=
  fold_left (fun cur t => [TList (cur ++ t)]) rounds v.

Lemma left_nest_go_rounds rounds : forall cur,
  Forall (fun t => length t = 2) rounds ->
  nest_rounds [cur] rounds = [left_nest_go cur (concat rounds)].
Proof.
  induction rounds as [|t rounds IH]; intros cur H; [reflexivity|].
  inversion H as [|t' r' Ht Hr]; subst.
  destruct t as [|op [|b [|c t]]]; try discriminate.
  cbn [nest_rounds fold_left concat app left_nest_go]. apply (IH (TList [cur; op; b]) Hr).
Qed.

(* one token from base, two tokens (operator, operand) per round: the fold is `left_nest` of the flat list *)
Lemma nest_rounds_left_nest a rounds :
  Forall (fun t => length t = 2) rounds ->
  nest_rounds [a] rounds = left_nest ([a] ++ concat rounds).
Proof.
  intros H. rewrite left_nest_go_rounds by exact H. cbn [app left_nest].
  destruct (concat rounds) as [|x [|y r]]; reflexivity.
Qed.

Lemma as_list_wrap a r : pr_as_list (wrap a r) = pr_as_list r.
Proof. reflexivity. Qed.

Section Grouped.
Variable G : env.
Variable s : str.
Variable ans : expr -> nat -> outcome.
Variables (id : nat) (aE ab aG aa : attrs) (aspy : bool) (tail : list expr) (base : expr).
Let E : expr := Fwd aE [] (Some id).
Let inner : expr := Nary aa [] NAnd (E :: tail).
Let alt : expr := Enh aG [] (EGroup aspy) inner.
Let body : expr := Nary ab [] NMatchFirst [alt; base].
Variables (loc f0 : nat).

Hypothesis HG : nth_error G id = Some body.
Hypothesis HpE : plain aE.
Hypothesis Hpa : plain aa.
Hypothesis Hpb : plain ab.
Hypothesis HpG : plain aG.
(* the Group's own whitespace skipping does not move away from loc (the And inside is called without preParse) *)
Hypothesis HstG : ws_of aG s loc = loc.
Hypothesis Hbase_ind : indep G s ans f0 base.
Hypothesis Htail_ind : forall c, In c tail -> indep G s ans f0 c.
Variables (lb : nat) (rb : pres).
Hypothesis Hbase : ans base loc = Ok lb rb.

(* Group.postParse + the ParseResults wrap of _parseNoCache *)
Definition gwrap (p : pres) : pres := pr_init (post_parse alt (RPR p)) None (aslist aG) (modalr aG).

Lemma as_list_gwrap p : pr_as_list (gwrap p) = [TList (pr_as_list p)].
Proof. unfold gwrap, alt. cbn [post_parse]. destruct aspy; reflexivity. Qed.

Lemma parse_lr_enh f m a ign k c s0 l d pre :
  parse_lr G (S f) m (mkargs (Enh a ign k c) s0 l d pre) =
  runm (parse_lr G f) m (step G (mkargs (Enh a ign k c) s0 l d pre)).
Proof. reflexivity. Qed.

Lemma pre_parse_enh_nil fail a k c s0 l kk :
  pre_parse fail (Enh a [] k c) s0 l kk = kk (if skipws a then skip_white s0 l (white a) else l).
Proof. unfold pre_parse. cbn [ign_of attrs_of]. rewrite skip_ignorables_nil. reflexivity. Qed.

(* the And inside the Group, called with callPreParse = False, given E's memo entry *)
Lemma inner_answer f dd m pl pr :
  f0 <= f -> pe_res pr -> active m (loc, nid aE, dd) = Some (pl, pr) ->
  parse_lr G (S (S f)) m (mkargs inner s loc dd false) = Some (alt_out s ans aE aa tail loc pl pr, m).
Proof.
  intros Hf Hpr Hact. unfold inner. rewrite parse_lr_nary.
  unfold step. cbn [a_e a_s a_do a_pre a_loc mkargs andb attrs_of].
  cbn [impl]. unfold call at 1. cbn [runm].
  unfold E at 1. rewrite (parse_lr_fwd G f m aE [] id body s loc dd false HG). cbv zeta. cbn [andb runm].
  unfold alt_out. destruct pr as [r|x].
  - rewrite (lr_forward_hit_ok _ _ _ _ _ _ _ _ _ _ (memo_get_active _ _ _ Hact)).
    cbn [step_k]. rewrite finish_plain_attrs by exact HpE. cbn [runm post_parse attrs_of].
    fold (wrap aE r).
    rewrite (and_go_pure s ans (parse_lr G (S f))).
    2:{ intros c Hc m0 l0. apply (Htail_ind c Hc). lia. }
    destruct (and_pure s ans aa tail (Z.to_nat pl) (wrap aE r) false) as [l acc|x|].
    + cbn [step_k]. rewrite finish_plain_attrs by exact Hpa. reflexivity.
    + rewrite fail_of_raise. reflexivity.
    + reflexivity.
  - rewrite (lr_forward_hit_exc _ _ _ _ _ _ _ _ _ _ (memo_get_active _ _ _ Hact)).
    simpl in Hpr. assert (Hi : is_index (xk x) = false) by (destruct (xk x); simpl in *; congruence).
    rewrite Hi. cbn [step_k runm failo_of]. unfold fail_of. rewrite Hi. reflexivity.
Qed.

Definition galt_out (pl : Z) (pr : mres) : outcome :=
  match alt_out s ans aE aa tail loc pl pr with
  | Ok l r => Ok l (gwrap r)
  | Err x => raise_out s aG loc (enh_rewrite aG false loc x)
  | Div => Div
  end.

Lemma galt_answer f dd m pl pr :
  f0 <= f -> pe_res pr -> active m (loc, nid aE, dd) = Some (pl, pr) ->
  parse_lr G (S (S (S f))) m (mkargs alt s loc dd true) = Some (galt_out pl pr, m).
Proof.
  intros Hf Hpr Hact. unfold alt. rewrite parse_lr_enh.
  unfold step. cbn [a_e a_s a_do a_pre a_loc mkargs andb attrs_of].
  assert (Hpre : forall kk, (if callpre aG then pre_parse escape (Enh aG [] (EGroup aspy) inner) s loc kk else kk loc) = kk loc).
  { intros kk. transitivity (kk (ws_of aG s loc)); [|rewrite HstG; reflexivity].
    unfold ws_of. destruct (callpre aG); [apply pre_parse_enh_nil|reflexivity]. }
  rewrite Hpre. cbn [impl]. unfold call. cbn [runm].
  rewrite (inner_answer f dd m pl pr Hf Hpr Hact). unfold galt_out.
  destruct (alt_out s ans aE aa tail loc pl pr) as [l r|x|].
  - fold alt. cbn [step_k]. rewrite finish_plain_attrs by exact HpG. reflexivity.
  - fold alt. rewrite fail_of_raise. reflexivity.
  - reflexivity.
Qed.

Definition gdirect_out (pl : Z) (pr : mres) : outcome :=
  match galt_out pl pr with
  | Ok l r => Ok l (wrap ab r)
  | Div => Div
  | Err x =>
    if is_fatal (xk x) then Err (enh_rewrite aE true loc (mkx (xk x) (xloc x) (xmsg x) (Some (nid aG))))
    else if is_pe (xk x) || is_index (xk x) then Ok lb (wrap ab rb)
    else Err (enh_rewrite aE true loc x)
  end.

Lemma gbody_reads f : f0 <= f ->
  body_reads_own_entry (parse_lr G (S (S (S (S f))))) aE body s loc gdirect_out.
Proof.
  intros Hf dd m pl pr Hpr Hact. unfold super_impl, body. rewrite parse_lr_nary.
  unfold step. cbn [a_e a_s a_do a_pre a_loc mkargs andb attrs_of impl].
  rewrite mf_go_cons.
  unfold call at 1. cbn [runm].
  rewrite (galt_answer f dd m pl pr Hf Hpr Hact). unfold gdirect_out.
  destruct (galt_out pl pr) as [l r|x|].
  - cbn [step_k]. rewrite finish_plain_attrs by exact Hpb. reflexivity.
  - assert (Hb : forall best, runm (parse_lr G (S (S (S f)))) m
             (mf_go (step_k (Nary ab [] NMatchFirst [alt; base]) s dd loc) (Nary ab [] NMatchFirst [alt; base]) s loc dd [base] best)
             = Some (Ok lb (wrap ab rb), m)).
    { intros best. cbn [mf_go]. unfold call. cbn [runm]. rewrite (Hbase_ind (S (S (S f)))) by lia. rewrite Hbase.
      cbn [step_k]. rewrite finish_plain_attrs by exact Hpb. reflexivity. }
    destruct (xk x) eqn:Ek; cbn [is_fatal is_pe is_index orb]; rewrite ?Hb; try reflexivity;
      rewrite fail_of_raise; unfold raise_out; cbn [mkx xk is_index attrs_of alt]; rewrite ?Ek; reflexivity.
  - reflexivity.
Qed.

(* ---- the rounds at the level of as_list() values ---- *)
Fixpoint gtiter (fuel : nat) (l : nat) (v : list tok) : tres :=
  match fuel with
  | 0 => TDiv
  | S f =>
    match tail_res ans tail l false with
    | TOk l' ts' => if Nat.leb l' l then TOk l v else gtiter f l' [TList (v ++ map tok_as_list ts')]
    | TErr k => if soft k then TOk l v else TErr k
    | TDiv => TDiv
    end
  end.

Lemma grow_gtiter n : forall l r, lb <= l ->
  match grow gdirect_out n (Z.of_nat l) (MOk r) with
  | Ok l' r' => gtiter n l (pr_as_list r) = TOk l' (pr_as_list r')
  | Err x => gtiter n l (pr_as_list r) = TErr (xk x)
  | Div => gtiter n l (pr_as_list r) = TDiv
  end.
Proof.
  induction n as [|n IH]; intros l r Hl; [reflexivity|].
  cbn [grow gtiter]. unfold gdirect_out at 1. unfold galt_out, alt_out. rewrite Nat2Z.id.
  pose proof (and_pure_res s ans aa tail l (wrap aE r) false) as Hr.
  destruct (and_pure s ans aa tail l (wrap aE r) false) as [l1 acc|x|].
  - destruct Hr as [ts [E1 E2]]. rewrite E1.
    destruct (Nat.leb l1 l) eqn:Q.
    + apply Nat.leb_le in Q. destruct (Z.of_nat l1 <=? Z.of_nat l)%Z eqn:Q2; [|apply Z.leb_gt in Q2; lia].
      cbn [stop_out]. rewrite Nat2Z.id. reflexivity.
    + apply Nat.leb_gt in Q. destruct (Z.of_nat l1 <=? Z.of_nat l)%Z eqn:Q2; [apply Z.leb_le in Q2; lia|].
      specialize (IH l1 (wrap ab (gwrap (wrap aa acc))) ltac:(lia)).
      rewrite as_list_wrap, as_list_gwrap, as_list_wrap in IH.
      assert (Hal : pr_as_list acc = pr_as_list r ++ map tok_as_list ts).
      { unfold pr_as_list. rewrite E2, toks_wrap, map_app. reflexivity. }
      rewrite Hal in IH. exact IH.
  - rewrite Hr.
    pose proof (raise_out_kind s aa loc x) as K1.
    destruct (raise_out s aa loc x) as [|x1|]; try contradiction.
    pose proof (raise_out_kind s aG loc (enh_rewrite aG false loc x1)) as K2.
    destruct (raise_out s aG loc (enh_rewrite aG false loc x1)) as [|x2|]; try contradiction.
    rewrite xk_enh_rewrite in K2.
    assert (Hstop : (if (Z.of_nat lb <=? Z.of_nat l)%Z then stop_out (Z.of_nat l) (MOk r)
                     else grow gdirect_out n (Z.of_nat lb) (MOk (wrap ab rb))) = Ok l r).
    { destruct (Z.of_nat lb <=? Z.of_nat l)%Z eqn:Q2; [|apply Z.leb_gt in Q2; lia].
      cbn [stop_out]. rewrite Nat2Z.id. reflexivity. }
    destruct (soft (xk x)) eqn:S0.
    + rewrite K1 in K2. unfold soft in K2.
      assert (Hnf : is_fatal (xk x2) = false) by (destruct (xk x2); simpl in *; congruence).
      rewrite Hnf, K2. rewrite Hstop. reflexivity.
    + subst x1. rewrite S0 in K2. subst x2. rewrite xk_enh_rewrite. unfold soft in S0. rewrite S0.
      apply orb_false_elim in S0 as [Sp Si].
      destruct (is_fatal (xk x)) eqn:Qf; cbv iota; rewrite !xk_enh_rewrite; cbn [mkx xk]; rewrite ?xk_enh_rewrite, Sp;
        rewrite ?xk_enh_rewrite; cbn [mkx xk]; rewrite ?xk_enh_rewrite; reflexivity.
  - rewrite Hr. reflexivity.
Qed.

Lemma xk_seed_pe a0 l0 fid : is_pe (xk (enh_rewrite a0 false l0 (seed_exn l0 fid))) = true.
Proof. rewrite xk_enh_rewrite. reflexivity. Qed.

Lemma ggrow_seed n : loc <= lb ->
  grow gdirect_out (S n) (Z.of_nat loc - 1) (MExc (seed_exn loc (nid aE))) =
  grow gdirect_out n (Z.of_nat lb) (MOk (wrap ab rb)).
Proof.
  intros Hl. cbn [grow]. unfold gdirect_out at 1. unfold galt_out. cbn [alt_out].
  pose proof (raise_out_kind s aG loc (enh_rewrite aG false loc (seed_exn loc (nid aE)))) as K.
  destruct (raise_out s aG loc (enh_rewrite aG false loc (seed_exn loc (nid aE)))) as [|x2|]; try contradiction.
  rewrite xk_enh_rewrite in K. cbn [seed_exn mkx xk soft is_pe is_index orb] in K. unfold soft in K.
  assert (Hnf : is_fatal (xk x2) = false) by (destruct (xk x2); simpl in *; congruence).
  rewrite Hnf, K.
  destruct (Z.of_nat lb <=? Z.of_nat loc - 1)%Z eqn:Q; [apply Z.leb_le in Q; lia|reflexivity].
Qed.

(* Forward.parseImpl for the grouped rule *)
Lemma grouped_forward f d m : f0 <= f -> loc <= lb ->
  memo_get m (loc, nid aE, d) = None ->
  exists m', lr_forward (parse_lr G (S (S (S (S f))))) aE body s loc d m =
             Some (grow gdirect_out (length s + 2) (Z.of_nat lb) (MOk (wrap ab rb)), m') /\
             m_cap m' = m_cap m.
Proof.
  intros Hf Hl Hm.
  destruct (lr_forward_grow _ _ _ _ _ _ (gbody_reads f Hf) d m Hm) as [m' [E1 [E2 _]]].
  exists m'. split; [|exact E2]. rewrite E1.
  replace (length s + 3) with (S (length s + 2)) by lia. rewrite ggrow_seed by exact Hl. reflexivity.
Qed.

Lemma grouped_parse_lr f d pre loc0 m : f0 <= f -> loc <= lb ->
  fwd_start aE s loc0 pre = loc ->
  memo_get m (loc, nid aE, d) = None ->
  exists m', parse_lr G (S (S (S (S (S f))))) m (mkargs E s loc0 d pre) =
             Some (match grow gdirect_out (length s + 2) (Z.of_nat lb) (MOk (wrap ab rb)) with
                   | Ok l r => Ok l (wrap aE r)
                   | Err x => raise_out s aE loc x
                   | Div => Div
                   end, m') /\ m_cap m' = m_cap m.
Proof.
  intros Hf Hl Hstart Hm. unfold E.
  rewrite (parse_lr_fwd G _ m aE [] id body s loc0 d pre HG). cbv zeta.
  assert (Hpre : (if pre && callpre aE
                  then pre_parse escape (Fwd aE [] (Some id)) s loc0 (fun l => Ret (Ok l pr_empty))
                  else Ret (Ok loc0 pr_empty)) = Ret (Ok loc pr_empty)).
  { rewrite <- Hstart. unfold fwd_start. destruct (pre && callpre aE); [|reflexivity]. rewrite pre_parse_fwd_nil. reflexivity. }
  rewrite Hpre. cbn [runm].
  destruct (grouped_forward f d m Hf Hl Hm) as [m' [E1 E2]]. rewrite E1.
  exists m'. split; [|exact E2].
  destruct (grow gdirect_out (length s + 2) (Z.of_nat lb) (MOk (wrap ab rb))) as [l r|x|].
  - cbn [step_k]. rewrite finish_plain_attrs by exact HpE. reflexivity.
  - rewrite step_k_raise. reflexivity.
  - reflexivity.
Qed.

(* ---- the nested iteration against the flat one: same ends, same classes, tokens = the fold over the rounds ---- *)
Definition a_round (t : list tok) : Prop := exists l l', tail_res ans tail l false = TOk l' t.

Lemma gtiter_titer n : forall l ts v,
  match titer ans tail n l ts with
  | TOk l' ts' => exists rounds, Forall a_round rounds /\ ts' = ts ++ concat rounds /\
                    gtiter n l v = TOk l' (nest_rounds v (map (map tok_as_list) rounds))
  | TErr k => gtiter n l v = TErr k
  | TDiv => gtiter n l v = TDiv
  end.
Proof.
  induction n as [|n IH]; intros l ts v; [reflexivity|]. cbn [titer gtiter].
  destruct (tail_res ans tail l false) as [l1 ts1|k|] eqn:Et.
  - destruct (Nat.leb l1 l).
    + exists []. split; [constructor|]. rewrite app_nil_r. split; reflexivity.
    + specialize (IH l1 (ts ++ ts1) [TList (v ++ map tok_as_list ts1)]).
      destruct (titer ans tail n l1 (ts ++ ts1)) as [l' ts'|k|]; try exact IH.
      destruct IH as [rounds [F [E1 E2]]]. exists (ts1 :: rounds). split; [|split].
      * constructor; [exists l, l1; exact Et|exact F].
      * rewrite E1. cbn [concat]. rewrite app_assoc. reflexivity.
      * rewrite E2. reflexivity.
  - destruct (soft k); [|reflexivity]. exists []. split; [constructor|]. rewrite app_nil_r. split; reflexivity.
  - reflexivity.
Qed.

End Grouped.

(* how the answers of the GROUPED left-recursive rule and of the (flat) iterative grammar are compared: the iterative
   token list is base's tokens followed by the tokens of the rounds (each one a match of the tail sequence); the
   left-recursive result, seen through as_list(), is the left fold of these rounds into nested lists *)
Definition agree_nested (ans : expr -> nat -> outcome) (tail : list expr) (wsl lb : nat) (rb : pres)
           (o_lr o_it : outcome) : Prop :=
  match o_lr, o_it with
  | Ok l r, Ok l' r' =>
    (exists rounds, Forall (a_round ans tail) rounds /\
       toks r' = toks rb ++ concat rounds /\
       pr_as_list r = nest_rounds (pr_as_list rb) (map (map tok_as_list) rounds)) /\
    l' = (if Nat.eqb l lb then wsl else l)
  | Err x, Err x' => xk x' = xk x
  | Div, Div => True
  | _, _ => False
  end.

(* one token from base and (operator, operand) per round: the nested result is `left_nest` of the flat one *)
Lemma nested_is_left_nest (ans : expr -> nat -> outcome) tail (rb r r' : pres) rounds :
  length (toks rb) = 1 ->
  (forall t, a_round ans tail t -> length t = 2) ->
  Forall (a_round ans tail) rounds ->
  toks r' = toks rb ++ concat rounds ->
  pr_as_list r = nest_rounds (pr_as_list rb) (map (map tok_as_list) rounds) ->
  pr_as_list r = left_nest (pr_as_list r').
Proof.
  intros H1 H2 HF E1 E2. rewrite E2. unfold pr_as_list at 2. rewrite E1, map_app, concat_map.
  unfold pr_as_list. destruct (toks rb) as [|a [|b t]]; try discriminate. cbn [map].
  apply nest_rounds_left_nest.
  rewrite Forall_forall in *. intros t Ht. apply in_map_iff in Ht as [t0 [<- Ht0]].
  rewrite map_length. apply H2. apply HF. exact Ht0.
Qed.

Theorem grouped_iterative_gen G G' s (ans : expr -> nat -> outcome) id aE ab aG aa aspy ai ar tail base B bans fB loc f0 :
  nth_error G id = Some (Nary ab [] NMatchFirst [Enh aG [] (EGroup aspy) (Nary aa [] NAnd (Fwd aE [] (Some id) :: tail)); base]) ->
  plain aE -> plain aa -> plain ab -> plain aG ->
  ws_of aG s loc = loc ->
  indep G s ans f0 base ->
  (forall c, In c tail -> indep G s ans f0 c) ->
  plain ai -> plain ar ->
  (forall fu, fB <= fu -> forall l d, parse (step G') fu (mkargs B s l d true) = Some (bans l)) ->
  (forall l, match tail_res ans tail l false with
             | TOk l' ts => exists r, bans l = Ok l' r /\ toks r = ts
             | TErr k => exists x, bans l = Err x /\ (if soft k then soft (xk x) = true else xk x = k)
             | TDiv => bans l = Div
             end) ->
  walks s ans tail ->
  (forall fu, f0 <= fu -> forall d, parse (step G') fu (mkargs base s loc d false) = Some (ans base loc)) ->
  forall lb rb, ans base loc = Ok lb rb -> loc <= lb -> lb <= length s + 1 ->
  bans (ws_of ar s lb) = bans lb ->
  forall f fi d pre loc0 m, f0 <= f -> f0 <= S fi -> fB <= fi ->
  fwd_start aE s loc0 pre = loc -> fwd_start ai s loc0 pre = loc ->
  memo_get m (loc, nid aE, d) = None ->
  exists m' o_lr o_it,
    parse_lr G (S (S (S (S (S f))))) m (mkargs (Fwd aE [] (Some id)) s loc0 d pre) = Some (o_lr, m') /\
    m_cap m' = m_cap m /\
    parse (step G') (S (S fi)) (mkargs (Nary ai [] NAnd [base; Rep ar [] true B None]) s loc0 d pre) = Some o_it /\
    agree_nested ans tail (ws_of ar s lb) lb rb o_lr o_it.
Proof.
  intros HG HpE Hpa Hpb HpG Hst Hbi Hti Hpi Hpr HB HBs HW Hbnp lb rb Hbase Hl Hlb Hws f fi d pre loc0 m Hf Hfi HfB HsE HsI Hm.
  destruct (grouped_parse_lr G s ans id aE ab aG aa aspy tail base loc f0 HG HpE Hpa Hpb HpG Hst Hbi Hti lb rb Hbase
              f d pre loc0 m Hf Hl HsE Hm) as [m' [E1 E2]].
  destruct (iter_parse G' s ans tail B bans fB HB HBs HW ar Hpr ai base f0 Hpi fi d pre loc0 loc lb rb
              Hfi HfB HsI Hbnp Hbase Hlb Hws) as [oI [E3 E4]].
  pose proof (grow_gtiter G s ans id aE ab aG aa aspy tail base loc HG Hst lb rb (length s + 2) lb (wrap ab rb) (le_n _)) as Hg.
  rewrite as_list_wrap in Hg.
  pose proof (gtiter_titer ans tail (length s + 2) lb (toks rb) (pr_as_list rb)) as Ht.
  eexists m', _, oI. split; [exact E1|]. split; [exact E2|]. split; [exact E3|].
  destruct (titer ans tail (length s + 2) lb (toks rb)) as [l' ts'|k|] eqn:Et.
  - destruct Ht as [rounds [HF [E5 E6]]]. destruct E4 as [r' [-> E7]].
    destruct (grow (gdirect_out s ans id aE ab aG aa aspy tail loc lb rb) (length s + 2) (Z.of_nat lb) (MOk (wrap ab rb)))
      as [l r|x|]; rewrite E6 in Hg; try discriminate.
    injection Hg as <- Hg. cbn [agree_nested]. split; [|reflexivity].
    exists rounds. split; [exact HF|]. split; [rewrite E7; exact E5|]. rewrite as_list_wrap. symmetry. exact Hg.
  - destruct E4 as [x' [-> E7]].
    destruct (grow (gdirect_out s ans id aE ab aG aa aspy tail loc lb rb) (length s + 2) (Z.of_nat lb) (MOk (wrap ab rb)))
      as [l r|x|]; rewrite Ht in Hg; try discriminate.
    injection Hg as Hg. apply titer_err_hard in Et. unfold soft in Et. rewrite Hg in Et.
    unfold raise_out. destruct (is_index (xk x)); [rewrite orb_true_r in Et; discriminate|].
    cbn [agree_nested]. rewrite E7. exact Hg.
  - subst oI.
    destruct (grow (gdirect_out s ans id aE ab aG aa aspy tail loc lb rb) (length s + 2) (Z.of_nat lb) (MOk (wrap ab rb)))
      as [l r|x|]; rewrite Ht in Hg; try discriminate. exact I.
Qed.

(* the repetition body is And(t1 :: rest) *)
Theorem grouped_iterative G G' s (ans : expr -> nat -> outcome) id aE ab aG aa aspy ai ar at_ t1 rest base loc f0 :
  nth_error G id = Some (Nary ab [] NMatchFirst
                           [Enh aG [] (EGroup aspy) (Nary aa [] NAnd (Fwd aE [] (Some id) :: t1 :: rest)); base]) ->
  plain aE -> plain aa -> plain ab -> plain aG ->
  ws_of aG s loc = loc ->
  indep G s ans f0 base ->
  (forall c, In c (t1 :: rest) -> indep G s ans f0 c) ->
  plain ai -> plain ar -> plain at_ ->
  is_estop t1 = false ->
  (forall c, In c rest -> pindep G' s ans f0 c) ->
  (forall fu, f0 <= fu -> forall l d, parse (step G') fu (mkargs t1 s (ws_of at_ s l) d false) = Some (ans t1 l)) ->
  (forall l, ws_of at_ s (ws_of ar s l) = ws_of at_ s l) ->
  walks s ans (t1 :: rest) ->
  (forall fu, f0 <= fu -> forall d, parse (step G') fu (mkargs base s loc d false) = Some (ans base loc)) ->
  forall lb rb, ans base loc = Ok lb rb -> loc <= lb -> lb <= length s + 1 ->
  forall f d pre loc0 m, f0 <= f ->
  fwd_start aE s loc0 pre = loc -> fwd_start ai s loc0 pre = loc ->
  memo_get m (loc, nid aE, d) = None ->
  exists m' o_lr o_it,
    parse_lr G (5 + f) m (mkargs (Fwd aE [] (Some id)) s loc0 d pre) = Some (o_lr, m') /\
    m_cap m' = m_cap m /\
    parse (step G') (3 + f)
      (mkargs (Nary ai [] NAnd [base; Rep ar [] true (Nary at_ [] NAnd (t1 :: rest)) None]) s loc0 d pre) = Some o_it /\
    agree_nested ans (t1 :: rest) (ws_of ar s lb) lb rb o_lr o_it.
Proof.
  intros HG HpE Hpa Hpb HpG Hst Hbi Hti Hpi Hpr Hpt Ht1 Hrest Hfirst H2 HW Hbnp lb rb Hbase Hl Hlb f d pre loc0 m Hf HsE HsI Hm.
  exact (grouped_iterative_gen G G' s ans id aE ab aG aa aspy ai ar (t1 :: rest) base (Nary at_ [] NAnd (t1 :: rest))
           (and_bans s ans at_ t1 rest) (S f0) loc f0 HG HpE Hpa Hpb HpG Hst Hbi Hti Hpi Hpr
           (and_body_parse G' s ans at_ t1 rest f0 Hpt Hrest Hfirst)
           (and_body_spec s ans at_ t1 rest Ht1) HW Hbnp lb rb Hbase Hl Hlb
           (and_body_ws G' s ans at_ t1 rest f0 Hfirst ar H2 lb)
           f (S f) d pre loc0 m Hf (le_S _ _ (le_S _ _ Hf)) (le_n_S _ _ Hf) HsE HsI Hm).
Qed.

(* ---- instance: E <<= Group(E + '+' + N) | N  vs  N + ZeroOrMore('+' + N) on "1+2+1" ---- *)
Definition gG_attrs : attrs := mk 1 true true true false 50.
Definition gGr : expr := Fwd gG_attrs [] (Some 0).
Definition GG : env :=
  [ Nary (mk 2 true false true true 41) [] NMatchFirst
      [ Enh (mk 3 true true true false 29) [] (EGroup false)
          (Nary (mk 6 true true true true 64) [] NAnd [gGr; lit 4 43; num 5]);
        num 5 ] ].

(* every hypothesis of the grouped theorem is met by GG on "1+2+1" (any fuel, do_actions, memo of any capacity) *)
Lemma grouped_instance f d m : memo_get m (0, 1, d) = None ->
  exists m' o_lr o_it,
    parse_lr GG (6 + f) m (mkargs gGr s_121 0 d true) = Some (o_lr, m') /\ m_cap m' = m_cap m /\
    parse (step GG) (4 + f) (mkargs IE' s_121 0 d true) = Some o_it /\
    agree_nested (leaf_ans GG s_121) [lit 4 43; num 5] (ws_of IE_ar s_121 1) 1 (pr_of_list [tstr 49]) o_lr o_it.
Proof.
  intros Hm. set (s := s_121).
  assert (Hstart : fwd_start gG_attrs s 0 true = 0) by reflexivity.
  assert (Hb : leaf_ans GG s (num 5) 0 = Ok 1 (pr_of_list [tstr 49])) by (vm_compute; reflexivity).
  assert (Hnp : leaf_ans_np GG s (num 5) 0 = leaf_ans GG s (num 5) 0) by (vm_compute; reflexivity).
  assert (HW : walksb s (leaf_ans GG s) [lit 4 43; num 5] = true) by (vm_compute; reflexivity).
  assert (Hnum : indep GG s (leaf_ans GG s) 1 (num 5)) by (apply tok_indep; reflexivity).
  assert (Hplus : indep GG s (leaf_ans GG s) 1 (lit 4 43)) by (apply tok_indep; reflexivity).
  assert (Htl : forall c, In c [lit 4 43; num 5] -> indep GG s (leaf_ans GG s) 1 c).
  { intros c [<-|[<-|[]]]; assumption. }
  assert (Hrest : forall c, In c [num 5] -> pindep GG s (leaf_ans GG s) 1 c).
  { intros c [<-|[]]. apply tok_pindep. reflexivity. }
  assert (Hfirst : forall fu, 1 <= fu -> forall l d0,
            parse (step GG) fu (mkargs (lit 4 43) s (ws_of IE_at s l) d0 false) = Some (leaf_ans GG s (lit 4 43) l)).
  { intros fu Hfu l d0. rewrite ws_of_skip by reflexivity.
    apply (tok_nopre GG s (mk 4 false true false true 3) (KLit [43%N])); try reflexivity. exact Hfu. }
  assert (Hbnp : forall fu, 1 <= fu -> forall d0,
            parse (step GG) fu (mkargs (num 5) s 0 d0 false) = Some (leaf_ans GG s (num 5) 0)).
  { intros fu Hfu d0. rewrite <- Hnp. apply tok_nopre_at; [reflexivity|exact Hfu]. }
  assert (Hlb : 1 <= length s + 1) by (simpl; lia).
  exact (grouped_iterative GG GG s (leaf_ans GG s) 0 gG_attrs (mk 2 true false true true 41) (mk 3 true true true false 29)
           (mk 6 true true true true 64) false IE_ai IE_ar IE_at (lit 4 43) [num 5] (num 5) 0 1
           eq_refl (conj eq_refl eq_refl) (conj eq_refl eq_refl) (conj eq_refl eq_refl) (conj eq_refl eq_refl) eq_refl Hnum Htl
           (conj eq_refl eq_refl) (conj eq_refl eq_refl) (conj eq_refl eq_refl) eq_refl Hrest Hfirst
           (fun l => ws_of_idem IE_at IE_ar s l eq_refl eq_refl eq_refl eq_refl eq_refl)
           (walksb_ok _ _ _ HW) Hbnp 1 (pr_of_list [tstr 49]) Hb (le_S _ _ (le_n 0)) Hlb
           (S f) d true 0 m (le_n_S _ _ (Nat.le_0_l f)) Hstart Hstart Hm).
Qed.

(* the two models run on "1+2+1": the grouped rule answers [[['1','+','2'],'+','1']] for every capacity tried, which is
   `left_nest` of the flat list the iterative grammar answers under the plain parser *)
Definition aslist_of (o : option (outcome * memo)) : option (nat * list tok) :=
  match o with Some (Ok l r, _) => Some (l, pr_as_list r) | _ => None end.

Lemma grouped_computed :
  let flat := [tstr 49; tstr 43; tstr 50; tstr 43; tstr 49] in
  (forall cap, In cap [None; Some 0; Some 1; Some 2] ->
     aslist_of (parse_lr GG 40 (memo_empty cap) (mkargs gGr s_121 0 true true)) = Some (5, left_nest flat)) /\
  res_of_plain (parse (step GG) 40 (mkargs IE' s_121 0 true true)) = Some (5, flat) /\
  left_nest flat = [TList [TList [tstr 49; tstr 43; tstr 50]; tstr 43; tstr 49]].
Proof.
  split; [|split].
  - intros cap [<-|[<-|[<-|[<-|[]]]]]; vm_compute; reflexivity.
  - vm_compute. reflexivity.
  - reflexivity.
Qed.

(* tokens(LR) = left_nest(tokens(iterative)) whenever base yields one token and every round two (operator, operand) *)
Lemma agree_nested_left_nest (ans : expr -> nat -> outcome) tail wsl lb rb o_lr o_it :
  length (toks rb) = 1 ->
  (forall t, a_round ans tail t -> length t = 2) ->
  agree_nested ans tail wsl lb rb o_lr o_it ->
  match o_lr, o_it with
  | Ok l r, Ok l' r' => pr_as_list r = left_nest (pr_as_list r') /\ l' = (if Nat.eqb l lb then wsl else l)
  | Err x, Err x' => xk x' = xk x
  | Div, Div => True
  | _, _ => False
  end.
Proof.
  intros H1 H2 H. destruct o_lr as [l r|x|], o_it as [l' r'|x'|]; cbn [agree_nested] in H; try exact H.
  destruct H as [[rounds [HF [E1 E2]]] El]. split; [|exact El].
  exact (nested_is_left_nest ans tail rb r r' rounds H1 H2 HF E1 E2).
Qed.
