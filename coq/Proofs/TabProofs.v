(* str.expandtabs as modelled in Model/Str.v *)
From Coq Require Import List ZArith NArith Bool Lia Arith.
From PP Require Import Model.Str.
Import ListNotations.

Lemma repeat_no_tab n : existsb (N.eqb TAB) (repeat SP n) = false.
Proof. induction n; simpl; auto. Qed.

Lemma expandtabs_go_no_tab s : forall col, existsb (N.eqb TAB) (expandtabs_go s col) = false.
Proof.
  induction s as [|c t IH]; intros col; cbn [expandtabs_go]; [reflexivity|].
  destruct (N.eqb c TAB) eqn:E.
  - rewrite existsb_app, repeat_no_tab, IH. reflexivity.
  - destruct (N.eqb c NL || N.eqb c CR); cbn [existsb]; rewrite IH, (N.eqb_sym TAB c), E; reflexivity.
Qed.

Lemma expandtabs_go_id s : forall col, existsb (N.eqb TAB) s = false -> expandtabs_go s col = s.
Proof.
  induction s as [|c t IH]; intros col H; cbn [expandtabs_go existsb] in *; [reflexivity|].
  apply orb_false_elim in H as [H1 H2]. rewrite (N.eqb_sym c TAB), H1.
  destruct (N.eqb c NL || N.eqb c CR); f_equal; apply IH; exact H2.
Qed.

(* length never shrinks *)
Lemma expandtabs_go_length s : forall col, length s <= length (expandtabs_go s col).
Proof.
  induction s as [|c t IH]; intros col; cbn [expandtabs_go length]; [lia|].
  destruct (N.eqb c TAB).
  - rewrite app_length, repeat_length. specialize (IH (col + (8 - col mod 8))).
    assert (col mod 8 < 8) by (apply Nat.mod_upper_bound; lia). lia.
  - destruct (N.eqb c NL || N.eqb c CR); cbn [length]; apply le_n_S; apply IH.
Qed.
