(* C06 (model part): which exception kinds can escape a `_parse` call.  For every grammar whose parse actions raise only
   kinds allowed by `K`, every answer of `parse` is a value, a divergence, or an exception whose kind satisfies `K`.
   In particular (K := "not IndexError") an internal IndexError never escapes: every out-of-range index inside a
   parseImpl sits under the `mayIndexError or pre_loc >= len` guard of _parseNoCache or under an `except IndexError`. *)
From Coq Require Import List ZArith NArith Bool Arith Lia.
From PP Require Import Model.Str Model.Results Model.Prog Model.Core Model.Entry Proofs.Walk Proofs.PegEquiv.
Import ListNotations.

(* ---- token facts, for every token kind ---- *)
Lemma tok_exc_kind a t s l x : tok_impl a t s l = IExc x -> xk x = XParse.
Proof.
  destruct t; unfold tok_impl, pexc, pexc_sfx; cbv zeta; brk; intros H; try discriminate H; injection H as <-; reflexivity.
Qed.

Lemma tok_index a t s l : tok_impl a t s l = IIndexError -> length s <= l.
Proof.
  destruct t; unfold tok_impl, pexc, pexc_sfx; cbv zeta;
    brk; intros H; try discriminate H;
    repeat match goal with
           | E : context [match ?x with _ => _ end] |- _ => destruct x eqn:?; try discriminate E
           | E : context [if ?x then _ else _] |- _ => destruct x eqn:?; try discriminate E
           end;
    repeat match goal with
           | E : at_ _ _ = None |- _ => apply at_none in E
           | E : at_ _ _ = Some _ |- _ => apply at_some in E
           | E : (_ <? _)%nat = true |- _ => apply Nat.ltb_lt in E
           | E : (_ <? _)%nat = false |- _ => apply Nat.ltb_ge in E
           | E : (_ && _) = true |- _ => apply andb_prop in E; destruct E
           | E : (_ <=? _)%Z = false |- _ => apply Z.leb_gt in E
           end; try lia.
Qed.

Section Total.
Variable K : xkind -> bool.
Hypothesis K_parse : K XParse = true.
Hypothesis K_syntax : K XSyntax = true.
Hypothesis K_index : K XIndex = false.
Variable G : env.

(* what an action may raise (an IndexError raised by an action arrives wrapped, as _ParseActionIndexError) *)
Definition act_ok (ac : action) : bool :=
  match ac with
  | ARaise k _ => K (if is_index k then XActIndex else k)
  | ACond _ fatal _ => K (if fatal then XFatal else XParse) && K XActIndex && K XType
  | _ => true
  end.

Fixpoint wf (e : expr) : bool :=
  let wfl := fix wfl (l : list expr) : bool := match l with [] => true | x :: r => wf x && wfl r end in
  let wfo := fun o : option expr => match o with Some x => wf x | None => true end in
  match e with
  | Tok a ign _ => forallb act_ok (acts a) && wfl ign
  | Nary a ign k es =>
    forallb act_ok (acts a) && wfl ign && wfl es &&
    match k with
    | NAnd => match es with [] => mayidx a | _ => true end
    | _ => true
    end
  | Enh a ign k c =>
    forallb act_ok (acts a) && wfl ign && wf c &&
    match k with EPrecededBy false _ => false | _ => true end
  | Rep a ign _ b ne => forallb act_ok (acts a) && wfl ign && wf b && wfo ne
  | Skip a ign t _ ig fo => forallb act_ok (acts a) && wfl ign && wf t && wfl ig && wfo fo
  | Fwd a ign _ => forallb act_ok (acts a) && wfl ign
  end.

Definition wfl (l : list expr) : bool := forallb wf l.
Hypothesis HG : forallb wf G = true.

Definition okK (o : outcome) : Prop := match o with Err x => K (xk x) = true | _ => True end.
Definition Cw (a : args) : Prop := wf (a_e a) = true.

Notation S := (sinv args outcome unit (fun _ _ => tt) Cw okK (fun _ => okK) tt).

Lemma wfl_fix l : (fix wfl (l : list expr) : bool := match l with [] => true | x :: r => wf x && wfl r end) l = forallb wf l.
Proof. induction l; simpl; congruence. Qed.

Lemma wf_parts e : wf e = true ->
  forallb act_ok (acts (attrs_of e)) = true /\ forallb wf (ign_of e) = true.
Proof.
  destruct e; simpl; rewrite ?wfl_fix; intros H; repeat (apply andb_prop in H as [H ?]); auto.
Qed.

Ltac ret := apply SI_ret; simpl; auto.
Ltac callc Hc := apply SI_call; [exact Hc|intros [?l ?r|?x|] ?Ho; simpl in *].

Lemma S_escape x : K (xk x) = true -> S (escape x).
Proof. intros H. ret. Qed.

(* _skipIgnorables *)
Lemma S_skip_inner fail fuel : forall ig s loc found k,
  wf ig = true -> (forall x, K (xk x) = true -> S (fail x)) -> (forall l b, S (k l b)) ->
  S (skip_ign_inner fail fuel ig s loc found k).
Proof.
  induction fuel as [|f IH]; intros ig s loc found k Hw Hf Hk; simpl; [ret|].
  unfold call. callc Hw.
  - apply IH; assumption.
  - destruct (is_pe (xk x)); [apply Hk|apply Hf; assumption].
  - ret.
Qed.

Lemma S_skip_pass fail fuel : forall igs s loc found k,
  forallb wf igs = true -> (forall x, K (xk x) = true -> S (fail x)) -> (forall l b, S (k l b)) ->
  S (skip_ign_pass fail fuel igs s loc found k).
Proof.
  induction igs as [|ig igs IH]; intros s loc found k Hw Hf Hk; simpl; [apply Hk|].
  simpl in Hw. apply andb_prop in Hw as [H1 H2].
  apply S_skip_inner; try assumption. intros l b. apply IH; assumption.
Qed.

Lemma S_skip_ignorables fail : forall rounds igs s loc k,
  forallb wf igs = true -> (forall x, K (xk x) = true -> S (fail x)) -> (forall l, S (k l)) ->
  S (skip_ignorables fail rounds igs s loc k).
Proof.
  induction rounds as [|r IH]; intros igs s loc k Hw Hf Hk; destruct igs as [|ig igs]; cbn [skip_ignorables]; try apply Hk; [ret|].
  apply S_skip_pass; try assumption.
  intros l b. destruct (negb b); [apply Hk|]. destruct (Nat.eqb l loc); [apply Hk|]. apply IH; assumption.
Qed.

Lemma S_pre_parse fail e s loc k :
  wf e = true -> (forall x, K (xk x) = true -> S (fail x)) -> (forall l, S (k l)) -> S (pre_parse fail e s loc k).
Proof.
  intros Hw Hf Hk. destruct (wf_parts e Hw) as [_ Hi].
  unfold pre_parse.
  destruct e as [a i t| | | | |]; try (apply S_skip_ignorables; [exact Hi|exact Hf|intros; apply Hk]).
  destruct t; try (apply S_skip_ignorables; [exact Hi|exact Hf|intros; apply Hk]).
  - destruct loc; [apply Hk|]. destruct orig_has_nl; apply Hk.
  - destruct (Nat.eqb (col_at s loc) c); [apply Hk|]. apply S_skip_ignorables; [exact Hi|exact Hf|intros; apply Hk].
Qed.

(* the tail of _parseNoCache *)
Lemma run_actions_ok a acs : forallb act_ok acs = true -> forall loc r x,
  run_actions a acs loc r = inr x -> K (xk x) = true.
Proof.
  induction acs as [|ac acs IH]; intros Hw loc r x H; simpl in *; [discriminate|].
  apply andb_prop in Hw as [Ha Hw].
  destruct (run_action ac loc r) as [r'|y|y] eqn:E.
  - eapply IH; eassumption.
  - eapply IH; eassumption.
  - injection H as <-. destruct ac; simpl in E; try discriminate E.
    + injection E as <-. simpl in *. destruct k; simpl in *; assumption.
    + apply andb_prop in Ha as [H1 H3]. apply andb_prop in H1 as [H1 H2].
      unfold first_len in E.
      destruct (toks r) as [|[ | | | | | ] ?]; try (destruct (Nat.leb minlen _); [discriminate|]); injection E as <-;
        destruct fatal; simpl in *; assumption.
Qed.

Lemma S_finish e d pl l r : wf e = true -> S (finish e d pl l r).
Proof.
  intros Hw. destruct (wf_parts e Hw) as [Ha _]. unfold finish.
  destruct (acts (attrs_of e)) as [|ac acs] eqn:E; [ret|].
  destruct (d || calltry (attrs_of e)); [|ret].
  destruct (run_actions _ _ _ _) as [r'|x] eqn:R; [ret|].
  ret. eapply run_actions_ok; eassumption.
Qed.

Definition res_ok (e : expr) (s : str) (pl : nat) (res : kont) : Prop :=
  match res with
  | inl (IExc x) => K (xk x) = true
  | inl IIndexError => mayidx (attrs_of e) = true \/ length s <= pl
  | _ => True
  end.

Lemma S_step_k e s d pl res : wf e = true -> res_ok e s pl res -> S (step_k e s d pl res).
Proof.
  intros Hw Hr. unfold step_k. destruct res as [[l r|x|]|[l r]]; simpl in Hr.
  - apply S_finish; exact Hw.
  - ret.
  - assert (mayidx (attrs_of e) || Nat.leb (length s) pl = true) as ->.
    { destruct Hr as [->|H]; [reflexivity|]. apply orb_true_iff. right. apply Nat.leb_le. exact H. }
    ret.
  - apply S_finish; exact Hw.
Qed.

(* inside parseImpl: k is any continuation that is fine on every well-formed answer *)
Section Impl.
Variable e : expr. Variable s : str. Variable pl : nat. Variable k : kont -> prg.
Hypothesis Hk : forall res, res_ok e s pl res -> S (k res).

Lemma S_fail x : K (xk x) = true -> S (fail_of k x).
Proof.
  intros H. unfold fail_of. destruct (is_index (xk x)) eqn:I.
  - destruct (xk x); try discriminate I. congruence.
  - apply Hk. exact H.
Qed.

Lemma S_failo o : okK o -> S (failo_of k o).
Proof. intros H. destruct o; simpl; try ret. apply S_fail. exact H. Qed.

Lemma S_ok l r : S (k (inr (l, r))).
Proof. apply Hk. exact I. Qed.

Lemma S_alt_fail e0 loc best : wf e0 = true ->
  (match best with Some b => K (xk b) = true | None => True end) -> S (alt_fail (fail_of k) e0 s loc best).
Proof.
  intros Hw Hb. unfold alt_fail. destruct best as [b|].
  - apply S_pre_parse; [exact Hw|apply S_fail|].
    intros l. apply S_fail. destruct (xloc b =? Z.of_nat l)%Z; simpl; exact Hb.
  - apply S_fail. exact K_parse.
Qed.

Lemma S_and_go a d : forall es loc acc estop, forallb wf es = true -> S (and_go k a s d es loc acc estop).
Proof.
  induction es as [|c rest IH]; intros loc acc estop Hw; simpl; [apply S_ok|].
  apply andb_prop in Hw as [Hc Hr].
  assert (Hgen : S (call c s loc d true (fun o =>
            match o with
            | Ok loc' r => and_go k a s d rest loc' (pr_iadd acc r) estop
            | Div => Ret Div
            | Err x =>
              if estop then
                match xk x with
                | XSyntax => fail_of k x
                | XParse | XFatal => fail_of k (mkx XSyntax (xloc x) (xmsg x) (xel x))
                | XIndex => fail_of k (mkx XSyntax (Z.of_nat (length s)) (MNode (nid a) 0) (Some (nid a)))
                | _ => fail_of k x
                end
              else fail_of k x
            end))).
  { unfold call. callc Hc.
    - apply IH; exact Hr.
    - destruct estop; [|apply S_fail; assumption].
      destruct (xk x) eqn:E; apply S_fail; simpl; rewrite ?E; try exact K_syntax; try assumption; congruence.
    - ret. }
  destruct c as [ac ic tc| | | | |]; try exact Hgen.
  destruct tc; try exact Hgen. apply IH; exact Hr.
Qed.

Lemma S_mf_go e0 loc d : wf e0 = true -> forall es best, forallb wf es = true ->
  (match best with Some b => K (xk b) = true | None => True end) -> S (mf_go k e0 s loc d es best).
Proof.
  intros Hw0. induction es as [|c rest IH]; intros best Hw Hb; simpl; [apply S_alt_fail; assumption|].
  apply andb_prop in Hw as [Hc Hr]. unfold call. callc Hc.
  - apply S_ok.
  - destruct (is_fatal (xk x)); [apply S_fail; simpl; assumption|].
    destruct (is_pe (xk x)) eqn:P.
    + apply IH; [exact Hr|]. unfold better. destruct best as [b|]; [destruct (xloc b <? xloc x)%Z|]; assumption.
    + destruct (is_index (xk x)); [|apply S_fail; assumption].
      apply IH; [exact Hr|]. destruct (best_loc best <? _)%Z; [simpl; exact K_parse|exact Hb].
  - ret.
Qed.

Lemma S_try_parse c loc d rf kk : wf c = true -> (forall o, okK o -> S (kk o)) -> S (try_parse c s loc d rf kk).
Proof.
  intros Hc Hkk. unfold try_parse, call. callc Hc.
  - apply Hkk. exact I.
  - destruct (is_fatal (xk x) && negb rf); apply Hkk; simpl; [exact K_parse|assumption].
  - apply Hkk. exact I.
Qed.

Lemma S_can_parse_next c loc d kk : wf c = true -> (forall b, S (kk b)) -> S (can_parse_next (fail_of k) c s loc d kk).
Proof.
  intros Hc Hkk. unfold can_parse_next. apply S_try_parse; [exact Hc|].
  intros [l r|x|] Ho; simpl; [apply Hkk| |ret].
  destruct (is_pe (xk x) || is_index (xk x)); [apply Hkk|apply S_fail; assumption].
Qed.

Lemma S_check_ender ne loc kk : (match ne with Some n => wf n = true | None => True end) ->
  (forall r, (match r with Some o => okK o | None => True end) -> S (kk r)) -> S (check_ender ne s loc kk).
Proof.
  intros Hn Hkk. unfold check_ender. destruct ne as [n|]; [|apply Hkk; exact I].
  apply S_try_parse; [exact Hn|]. intros [l r|x|] Ho; apply Hkk; simpl; auto.
Qed.

Lemma S_or_pass1 e0 loc : forall es matches fatals best kk,
  forallb wf es = true ->
  (match best with Some b => K (xk b) = true | None => True end) ->
  Forall (fun p => K (xk (fst p)) = true) fatals ->
  Forall (fun p => wf (snd p) = true) matches ->
  (forall ms fs b, (match b with Some b' => K (xk b') = true | None => True end) ->
                   Forall (fun p => K (xk (fst p)) = true) fs -> Forall (fun p => wf (snd p) = true) ms -> S (kk ms fs b)) ->
  S (or_pass1 (fail_of k) e0 es s loc matches fatals best kk).
Proof.
  induction es as [|c rest IH]; intros matches fatals best kk Hw Hb Hf Hm Hkk; simpl; [apply Hkk; assumption|].
  apply andb_prop in Hw as [Hc Hr]. apply S_try_parse; [exact Hc|].
  intros [l r|x|] Ho; simpl.
  - apply IH; try assumption. apply Forall_app. split; [exact Hm|]. constructor; [exact Hc|constructor].
  - destruct (is_fatal (xk x)).
    + apply IH; try assumption; [exact I|]. apply Forall_app. split; [exact Hf|]. constructor; [assumption|constructor].
    + destruct (is_pe (xk x)).
      * apply IH; try assumption. destruct fatals; [|exact Hb].
        unfold better. destruct best as [b|]; [destruct (xloc b <? xloc x)%Z|]; assumption.
      * destruct (is_index (xk x)); [|apply S_fail; assumption].
        apply IH; try assumption. destruct (best_loc best <? _)%Z; [simpl; exact K_parse|exact Hb].
  - ret.
Qed.

Lemma Forall_insert_desc {X} (P : X -> Prop) key x : forall l, P x -> Forall P l -> Forall P (insert_desc key x l).
Proof.
  induction l as [|y l IH]; intros Hx Hl; simpl; [constructor; [exact Hx|constructor]|].
  destruct (key y <? key x)%Z; [constructor; assumption|].
  inversion Hl; subst. constructor; [assumption|apply IH; assumption].
Qed.
Lemma Forall_sort_desc {X} (P : X -> Prop) key l : Forall P l -> Forall P (sort_desc key l).
Proof.
  unfold sort_desc. intros H. assert (Forall P (@nil X)) as H0 by constructor. revert H0. generalize (@nil X).
  induction H as [|x l Hx Hl IH]; intros acc Ha; simpl; [exact Ha|].
  apply IH. apply Forall_insert_desc; assumption.
Qed.

Lemma pick_fatal_ok fatals fx : Forall (fun p => K (xk (fst p)) = true) fatals -> pick_fatal fatals = Some fx -> K (xk fx) = true.
Proof.
  intros Hf. unfold pick_fatal.
  pose proof (Forall_sort_desc _ (fun p : exn * nat => xloc (fst p)) fatals Hf) as H1.
  destruct (sort_desc _ fatals) as [|p1 [|p2 rest]] eqn:E; [discriminate| |].
  - intros [= <-]. inversion H1; assumption.
  - destruct (xloc (fst p1) =? xloc (fst p2))%Z.
    + pose proof (Forall_sort_desc _ (fun p : exn * nat => (xloc (fst p) * 1000000 + Z.of_nat (snd p))%Z) _ H1) as H2.
      destruct (sort_desc _ (p1 :: p2 :: rest)) as [|q qs]; [discriminate|]. intros [= <-]. inversion H2; assumption.
    + intros [= <-]. inversion H1; assumption.
Qed.

Lemma S_or_go2 tail loc : (forall b, (match b with Some b' => K (xk b') = true | None => True end) -> S (tail b)) ->
  forall ms longest best, Forall (fun p => wf (snd p) = true) ms ->
  (match best with Some b => K (xk b) = true | None => True end) -> S (or_go2 k tail s loc ms longest best).
Proof.
  intros Ht. induction ms as [|[loc1 c] rest IH]; intros longest best Hm Hb; simpl.
  - destruct longest as [[l r]|]; [apply S_ok|apply Ht; exact Hb].
  - inversion Hm as [|? ? Hc Hr]; subst. simpl in Hc.
    destruct (match longest with Some (l, _) => Nat.leb loc1 l | None => false end).
    + destruct longest as [[l r]|]; [apply S_ok|ret].
    + unfold call. callc Hc.
      * destruct (Nat.leb loc1 l); [apply S_ok|]. apply IH; assumption.
      * destruct (is_pe (xk x)); [|apply S_fail; assumption].
        apply IH; [exact Hr|]. unfold better. destruct best as [b|]; [destruct (xloc b <? xloc x)%Z|]; assumption.
      * ret.
Qed.

Lemma S_rep_go foe e0 body ne d : forallb wf (ign_of e0) = true -> wf body = true ->
  (match ne with Some n => wf n = true | None => True end) ->
  (forall o, okK o -> S (foe o)) ->
  forall fuel loc acc, S (rep_go k foe e0 body ne s d fuel loc acc).
Proof.
  intros Hi Hb Hn Hfoe. induction fuel as [|f IH]; intros loc acc; simpl; [ret|].
  assert (Hstop : forall o, okK o -> S (match o with
            | Err x => if is_pe (xk x) || is_index (xk x) then k (inr (loc, RPR acc)) else foe o
            | _ => Ret Div end)).
  { intros [l r|x|] Ho; try ret. destruct (is_pe (xk x) || is_index (xk x)); [apply S_ok|apply Hfoe; assumption]. }
  apply S_skip_ignorables; [exact Hi| |].
  - intros x Hx. apply (Hstop (Err x)). exact Hx.
  - intros l. apply S_check_ender; [exact Hn|]. intros [o|] Ho; [apply Hstop; assumption|].
    unfold call. callc Hb.
    + match goal with |- context [Nat.eqb ?a loc] => destruct (Nat.eqb a loc) end; [ret|apply IH].
    + apply (Hstop (Err x)). assumption.
    + ret.
Qed.

Lemma S_skipto_ign fuel ignorer : wf ignorer = true -> forall loc kk, (forall l, S (kk l)) ->
  S (skipto_ign (fail_of k) fuel ignorer s loc kk).
Proof.
  intros Hw. induction fuel as [|f IH]; intros loc kk Hkk; simpl; [apply Hkk|].
  apply S_try_parse; [exact Hw|]. intros [l r|x|] Ho; simpl.
  - destruct (Nat.eqb l loc); [apply Hkk|apply IH; exact Hkk].
  - destruct (is_pbe (xk x)); [apply Hkk|apply S_fail; assumption].
  - ret.
Qed.

Lemma S_skipto_scan e0 target ignorer failon : wf target = true ->
  (match ignorer with Some i => wf i = true | None => True end) ->
  (match failon with Some f => wf f = true | None => True end) ->
  forall fuel loc0 loc kk, (forall l, S (kk l)) ->
  S (skipto_scan (fail_of k) fuel e0 target ignorer failon s loc0 loc kk).
Proof.
  intros Ht Hi Hf. induction fuel as [|f IH]; intros loc0 loc kk Hkk; simpl; [apply S_fail; exact K_parse|].
  destruct (Nat.ltb (length s) loc); [apply S_fail; exact K_parse|].
  assert (Hafter : S ((match ignorer with
         | Some ig => skipto_ign (fail_of k) (length s + 2) ig s loc
         | None => fun k' => k' loc
         end) (fun tl =>
           call target s tl false false (fun o =>
             match o with
             | Ok _ _ => kk tl
             | Div => Ret Div
             | Err x => if is_pe (xk x) || is_index (xk x)
                        then skipto_scan (fail_of k) f e0 target ignorer failon s loc0 (Datatypes.S tl) kk
                        else fail_of k x
             end)))).
  { assert (Hin : forall tl, S (call target s tl false false (fun o =>
             match o with
             | Ok _ _ => kk tl
             | Div => Ret Div
             | Err x => if is_pe (xk x) || is_index (xk x)
                        then skipto_scan (fail_of k) f e0 target ignorer failon s loc0 (Datatypes.S tl) kk
                        else fail_of k x
             end))).
    { intros tl. unfold call. callc Ht.
      - apply Hkk.
      - destruct (is_pe (xk x) || is_index (xk x)); [apply IH; exact Hkk|apply S_fail; assumption].
      - ret. }
    destruct ignorer as [ig|]; [apply S_skipto_ign; [exact Hi|exact Hin]|apply Hin]. }
  destruct failon as [fo|]; [|exact Hafter].
  apply S_can_parse_next; [exact Hf|]. intros [|]; [apply S_fail; assumption|exact Hafter].
Qed.
(* ---- Each ---- *)
Lemma wf_named_copy b n : wf b = true -> wf (named_copy b n) = true.
Proof. destruct b; simpl; intros H; exact H. Qed.

Definition ents_wf (l : list each_ent) : Prop := Forall (fun en => wf (ee_e en) = true) l.

Lemma ents_wf_remove c : forall l, ents_wf l -> ents_wf (remove_cls c l).
Proof.
  induction l as [|en l IH]; intros H; simpl; [exact H|].
  inversion H; subst. destruct (Nat.eqb (ee_cls en) c); [assumption|]. constructor; [assumption|apply IH; assumption].
Qed.

Lemma ents_wf_flat_map {X} (f : X -> list each_ent) (l : list X) :
  (forall x, In x l -> ents_wf (f x)) -> ents_wf (flat_map f l).
Proof.
  induction l as [|x l IH]; intros H; simpl; [constructor|].
  apply Forall_app. split; [apply H; left; reflexivity|apply IH; intros y Hy; apply H; right; exact Hy].
Qed.

Lemma zip_wf es info z : forallb wf es = true -> In z (each_zip es info) -> wf (fst z) = true.
Proof.
  intros Hw Hz. destruct z as [c i0]. unfold each_zip in Hz. apply in_combine_l in Hz.
  rewrite forallb_forall in Hw. apply Hw. exact Hz.
Qed.

Lemma wf_rep_body a0 i0 z0 b ne0 : wf (Rep a0 i0 z0 b ne0) = true -> wf b = true.
Proof. simpl. rewrite ?wfl_fix. intros H. repeat (apply andb_prop in H as [H ?]). assumption. Qed.
Lemma wf_enh_body a0 i0 k0 b : wf (Enh a0 i0 k0 b) = true -> wf b = true.
Proof. simpl. rewrite ?wfl_fix. intros H. repeat (apply andb_prop in H as [H ?]). assumption. Qed.

Lemma each_groups_wf es info : forallb wf es = true ->
  ents_wf (each_req1 (each_zip es info)) /\ ents_wf (each_multi true (each_zip es info)) /\
  ents_wf (each_multi false (each_zip es info)) /\ ents_wf (each_opt1 (each_zip es info)) /\
  ents_wf (each_opt2 (each_zip es info)).
Proof.
  intros Hw.
  assert (Hm : forall b0, ents_wf (each_multi b0 (each_zip es info))).
  { intros b0. apply ents_wf_flat_map. intros [c [me [cs co]]] Hz. pose proof (zip_wf es info _ Hw Hz) as Hc.
    cbn [fst snd] in *. destruct c as [| | |a0 i0 z0 b ne0| |]; try constructor.
    destruct (b0 && z0); constructor; [|constructor].
    unfold ee_e, rep_operand. cbn [snd]. pose proof (wf_rep_body _ _ _ _ _ Hc) as Hb.
    destruct (rsname (attrs_of (Rep a0 i0 z0 b ne0))); cbn [snd]; [apply wf_named_copy|]; exact Hb. }
  repeat split; try apply Hm.
  - apply ents_wf_flat_map. intros [c [me [cs co]]] Hz. pose proof (zip_wf es info _ Hw Hz) as Hc. cbn [fst snd] in *.
    destruct (is_opt c || is_rep c); constructor; [exact Hc|constructor].
  - apply ents_wf_flat_map. intros [c [me [cs co]]] Hz. pose proof (zip_wf es info _ Hw Hz) as Hc. cbn [fst snd] in *.
    destruct c as [| |a0 i0 k0 b| | |]; try constructor. destruct k0; constructor; try constructor.
    unfold ee_e. cbn [snd]. eapply wf_enh_body. exact Hc.
  - apply ents_wf_flat_map. intros [c [me [cs co]]] Hz. pose proof (zip_wf es info _ Hw Hz) as Hc. cbn [fst snd] in *.
    destruct (me && negb (is_opt c) && negb (is_zom c)); constructor; [exact Hc|constructor].
Qed.

Lemma each_order_wf es en : forallb wf es = true -> wf (ee_e en) = true -> wf (each_order es en) = true.
Proof.
  intros Hw He. unfold each_order. destruct (ee_copy en); [exact He|].
  destruct (find _ (rev es)) as [c|] eqn:F; [|exact He].
  apply find_some in F as [Hin _]. apply in_rev in Hin. rewrite forallb_forall in Hw. apply Hw. exact Hin.
Qed.

Definition fatals_ok (fs : list (exn * nat)) : Prop := Forall (fun p => K (xk (fst p)) = true) fs.

Lemma S_each_round es : forallb wf es = true -> forall cands tl reqd opt mo nf fatals kk,
  ents_wf cands -> ents_wf reqd -> ents_wf opt -> forallb wf mo = true -> fatals_ok fatals ->
  (forall tl' reqd' opt' mo' nf' fs', ents_wf reqd' -> ents_wf opt' -> forallb wf mo' = true -> fatals_ok fs' ->
     S (kk tl' reqd' opt' mo' nf' fs')) ->
  S (each_round (fail_of k) es s cands tl reqd opt mo nf fatals kk).
Proof.
  intros Hw. induction cands as [|en rest IH]; intros tl reqd opt mo nf fatals kk Hc Hr Ho Hm Hf Hkk; cbn [each_round].
  - apply Hkk; assumption.
  - inversion Hc as [|? ? Hen Hrest]; subst.
    apply S_try_parse; [exact Hen|]. intros [l r|x|] Hox; simpl.
    + assert (Hm' : forallb wf (mo ++ [each_order es en]) = true).
      { rewrite forallb_app, Hm. simpl. rewrite each_order_wf; auto. }
      destruct (mem_cls (ee_cls en) reqd); [apply IH; try assumption; apply ents_wf_remove; assumption|].
      destruct (mem_cls (ee_cls en) opt); [apply IH; try assumption; apply ents_wf_remove; assumption|].
      apply IH; assumption.
    + destruct (is_fatal (xk x)).
      * apply IH; try assumption. apply Forall_app. split; [exact Hf|]. constructor; [exact Hox|constructor].
      * destruct (is_pe (xk x)); [apply IH; assumption|]. apply S_fail. exact Hox.
    + ret.
Qed.

Lemma S_each_loop es multis : forallb wf es = true -> ents_wf multis ->
  forall fuel tl reqd opt mo kk, ents_wf reqd -> ents_wf opt -> forallb wf mo = true ->
  (forall reqd' opt' mo' fs', ents_wf reqd' -> ents_wf opt' -> forallb wf mo' = true -> fatals_ok fs' -> S (kk reqd' opt' mo' fs')) ->
  S (each_loop (fail_of k) es s fuel tl reqd opt multis mo kk).
Proof.
  intros Hw Hmu. induction fuel as [|f IH]; intros tl reqd opt mo kk Hr Ho Hm Hkk; cbn [each_loop]; [ret|].
  apply S_each_round; try assumption; try constructor.
  - apply Forall_app. split; [exact Hr|]. apply Forall_app. split; assumption.
  - intros tl' reqd' opt' mo' nf' fs' Hr' Ho' Hm' Hf'.
    destruct (Nat.eqb nf' _); [apply Hkk; assumption|].
    destruct (_ && _); [ret|]. apply IH; assumption.
Qed.

Lemma S_each_go2 d : forall mo loc acc, forallb wf mo = true -> S (each_go2 k s d mo loc acc).
Proof.
  induction mo as [|c rest IH]; intros loc acc Hm; cbn [each_go2]; [apply S_ok|].
  simpl in Hm. apply andb_prop in Hm as [Hc Hr]. unfold call. callc Hc.
  - apply IH. exact Hr.
  - apply S_fail. assumption.
  - ret.
Qed.

Lemma S_each_impl es info loc d : forallb wf es = true -> S (each_impl k es info s loc d).
Proof.
  intros Hw. destruct (each_groups_wf es info Hw) as (H1 & H2 & H3 & H4 & H5).
  unfold each_impl. apply S_each_loop; try assumption; try reflexivity.
  - apply Forall_app. split; assumption.
  - apply Forall_app. split; assumption.
  - intros reqd' opt' mo' fs' Hr' Ho' Hm' Hf'.
    destruct (pick_fatal fs') as [fx|] eqn:PF; [apply S_fail; eapply pick_fatal_ok; eassumption|].
    destruct reqd'; [|apply S_fail; exact K_parse].
    apply S_each_go2. rewrite forallb_app, Hm'. simpl.
    rewrite forallb_forall. intros c Hc. apply in_flat_map in Hc as (z & Hz & Hc).
    destruct (is_opt (fst z) && _); simpl in Hc; [|destruct Hc]. destruct Hc as [Hc|Hc]; [|destruct Hc].
    subst c. exact (zip_wf es info z Hw Hz).
Qed.
End Impl.

Lemma env_wf id c : nth_error G id = Some c -> wf c = true.
Proof. intros H. rewrite forallb_forall in HG. apply HG. eapply nth_error_In. exact H. Qed.

Lemma S_impl e s pl d k : wf e = true -> (forall res, res_ok e s pl res -> S (k res)) -> S (impl G e s pl d k).
Proof.
  intros Hw Hk.
  pose proof (S_fail e s pl k Hk) as Hfail.
  pose proof (S_failo e s pl k Hk) as Hfailo.
  pose proof (S_ok e s pl k Hk) as Hok.
  destruct e as [a i t|a i kd es|a i kd c|a i z body ne|a i target incl ig2 fo|a i id]; simpl in Hw; rewrite ?wfl_fix in Hw.
  - (* tokens *)
    cbn [impl]. apply Hk. unfold res_ok. cbn [attrs_of]. destruct (tok_impl a t s pl) as [l0 r0|x0|] eqn:E; simpl.
    + exact I.
    + rewrite (tok_exc_kind _ _ _ _ _ E). exact K_parse.
    + right. eapply tok_index. exact E.
  - repeat (apply andb_prop in Hw as [Hw ?]).
    destruct kd; cbn [impl].
    + (* And *)
      destruct es as [|c rest].
      * apply Hk. simpl. left. assumption.
      * simpl in H0. apply andb_prop in H0 as [Hc Hr]. unfold call. callc Hc.
        -- apply S_and_go with (e := Nary a i NAnd (c :: rest)) (pl := pl); assumption.
        -- apply (Hfailo (Err x)). assumption.
        -- ret.
    + apply S_mf_go with (e := Nary a i NMatchFirst es) (pl := pl); try assumption; [|exact I].
      simpl. rewrite ?wfl_fix. rewrite Hw, H1, H0. reflexivity.
    + (* Or *)
      assert (Hwe : wf (Nary a i NOr es) = true) by (simpl; rewrite ?wfl_fix; rewrite Hw, H1, H0; reflexivity).
      assert (Hstart : forall loc, S (or_pass1 (fail_of k) (Nary a i NOr es) es s loc [] [] None
        (fun matches fatals best =>
           let tail := fun best0 : option exn =>
             match pick_fatal fatals with
             | Some fx => fail_of k fx
             | None => alt_fail (fail_of k) (Nary a i NOr es) s loc best0
             end in
           match matches with
           | [] => tail best
           | _ :: _ =>
             let sorted := sort_desc (fun p => Z.of_nat (fst p)) matches in
             if negb d
             then match sorted with
                  | (_, c) :: _ => call c s loc false true (fun o => match o with Ok l r => k (inr (l, RPR r)) | _ => failo_of k o end)
                  | [] => tail best
                  end
             else or_go2 k tail s loc sorted None best
           end))).
      { intros loc. apply S_or_pass1 with (e := Nary a i NOr es) (pl := pl); try assumption; try exact I; try constructor.
        intros ms fs b Hb Hfs Hms. cbv zeta.
        assert (Htail : forall b0, (match b0 with Some b' => K (xk b') = true | None => True end) ->
                  S (match pick_fatal fs with
                     | Some fx => fail_of k fx
                     | None => alt_fail (fail_of k) (Nary a i NOr es) s loc b0
                     end)).
        { intros b0 Hb0. destruct (pick_fatal fs) as [fx|] eqn:PF.
          - apply Hfail. eapply pick_fatal_ok; eassumption.
          - apply S_alt_fail with (e := Nary a i NOr es) (pl := pl); assumption. }
        destruct ms as [|m ms]; [apply Htail; exact Hb|].
        pose proof (Forall_sort_desc _ (fun p : nat * expr => Z.of_nat (fst p)) _ Hms) as Hsorted.
        destruct (negb d).
        - destruct (sort_desc _ (m :: ms)) as [|[l0 c0] rest]; [apply Htail; exact Hb|].
          inversion Hsorted as [|? ? Hc0 ?]; subst. simpl in Hc0. unfold call. callc Hc0.
          + apply Hok.
          + apply (Hfailo (Err x)). assumption.
          + ret.
        - apply S_or_go2 with (e := Nary a i NOr es) (pl := pl); assumption. }
      destruct (forallb (fun c => callpre (attrs_of c)) es); [|apply Hstart].
      apply S_pre_parse; [exact Hwe|exact Hfail|exact Hstart].
    + (* Each *)
      apply S_each_impl with (e := Nary a i (NEach info) es) (pl := pl); assumption.
  - (* enhancements *)
    repeat (apply andb_prop in Hw as [Hw ?]). rename H0 into Hc.
    assert (Hpass : forall loc, S (call c s loc d false (fun o =>
              match o with
              | Ok l r => k (inr (l, RPR r))
              | Div => Ret Div
              | Err x => fail_of k (enh_rewrite a false loc x)
              end))).
    { intros loc. unfold call. callc Hc; [apply Hok| |ret].
      apply Hfail. unfold enh_rewrite. destruct (xk x) eqn:E; simpl; rewrite ?E; try assumption; congruence. }
    destruct kd; cbn [impl]; try apply Hpass.
    + (* EOpt *)
      unfold call. callc Hc; [apply Hok| |ret].
      destruct (is_pe (xk x) || is_index (xk x)); [|apply Hfail; assumption].
      destruct default; [destruct (rsname (attrs_of c)) as [[|? ?]|]|]; apply Hok.
    + (* ENot *)
      apply S_can_parse_next with (e := Enh a i ENot c) (pl := pl); [exact Hk|exact Hc|].
      intros [|]; [apply Hfail; exact K_parse|apply Hok].
    + (* EFollowedBy *)
      unfold call. callc Hc; [apply Hok|apply (Hfailo (Err x)); assumption|ret].
    + (* ELookahead *)
      apply S_try_parse; [exact Hc|]. intros [l r|x|] Ho; [apply Hok|apply (Hfailo (Err x)); assumption|ret].
    + (* ELocated *)
      unfold call. callc Hc; [|apply (Hfailo (Err x)); assumption|ret].
      destruct (rsname a) as [[|? ?]|]; apply Hok.
    + (* EAtStringStart *)
      destruct (negb (Nat.eqb pl 0)); [apply Hfail; exact K_parse|apply Hpass].
    + (* EAtLineStart *)
      destruct (negb (Nat.eqb (col_at s pl) 1)); [apply Hfail; exact K_parse|apply Hpass].
    + (* EPrecededBy *)
      destruct exact; [|discriminate].
      destruct (Nat.ltb pl retreat); [apply Hfail; exact K_parse|].
      unfold call. callc Hc; [apply Hok|apply (Hfailo (Err x)); assumption|ret].
  - (* repetition *)
    repeat (apply andb_prop in Hw as [Hw ?]). cbn [impl].
    assert (Hne : match ne with Some n => wf n = true | None => True end) by (destruct ne; [assumption|exact I]).
    assert (Hfoe : forall o, okK o -> S (match o with
              | Err x => if z && (is_pe (xk x) || is_index (xk x))
                         then k (inr (pl, RPR (pr_init (RList []) (rsname a) true true)))
                         else fail_of k x
              | _ => Ret Div end)).
    { intros [l r|x|] Ho; try ret. destruct (z && _); [apply Hok|apply Hfail; assumption]. }
    apply S_check_ender; [exact Hne|]. intros [o|] Ho; [apply Hfoe; assumption|].
    unfold call. callc H0.
    + apply S_rep_go with (e := Rep a i z body ne) (pl := pl); assumption.
    + apply (Hfoe (Err x)). assumption.
    + ret.
  - (* SkipTo *)
    repeat (apply andb_prop in Hw as [Hw ?]). cbn [impl].
    apply S_skipto_scan with (e := Skip a i target incl ig2 fo) (pl := pl); try assumption.
    + destruct ig2; [exact I|]. simpl. rewrite ?wfl_fix. exact H0.
    + destruct fo; [assumption|exact I].
    + intros tl. destruct incl; [|apply Hok].
      unfold call. callc H1; [apply Hok|apply (Hfailo (Err x)); assumption|ret].
  - (* Forward *)
    cbn [impl]. destruct id as [id|]; [|apply Hfail; exact K_parse].
    destruct (nth_error G id) as [c|] eqn:E; [|apply Hfail; exact K_parse].
    unfold call. callc (env_wf id c E); [apply Hok| |ret].
    apply Hfail. unfold enh_rewrite. destruct (xk x) eqn:Ex; simpl; rewrite ?Ex; try assumption; congruence.
Qed.

Theorem S_step a : Cw a -> S (step G a).
Proof.
  intros Hw. unfold Cw in Hw. unfold step.
  assert (Hin : forall pl, S (impl G (a_e a) (a_s a) pl (a_do a) (step_k (a_e a) (a_s a) (a_do a) pl))).
  { intros pl. apply S_impl; [exact Hw|]. intros res Hr. apply S_step_k; assumption. }
  destruct (a_pre a && callpre (attrs_of (a_e a))); [|apply Hin].
  apply S_pre_parse; [exact Hw|apply S_escape|exact Hin].
Qed.

Theorem parse_kinds : forall fuel a o, wf (a_e a) = true -> parse (step G) fuel a = Some o -> okK o.
Proof. exact (parse_inv args outcome Cw okK (step G) S_step). Qed.
End Total.
