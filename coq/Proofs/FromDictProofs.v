(* C11, last clause: "ParseResults.from_dict(d).as_dict() == d for nested dicts (non-empty) of scalars and lists".
   The round trip on the value-level model (Model/ResultsAPI.v `from_dict`, `as_dict`), for ALL dictionaries of an
   explicit decidable class (`dict_ok`).

   Contents:  1. the class (`value_ok`, `keys_ok`, `pyval_ok`, `dict_ok`) and the expected value (`dval_of`, `ddict_of`);
              2. what `from_dict_item k v` is, concretely, for each kind of value;
              3. one step of the `ret += item` loop and the invariant of the whole `fold_left pr_iadd`;
              4. `from_dict d` in closed form (tokens, name table with positions 0..n-1, no list-all names);
              5. `as_dict` of it, by induction on the nesting.

   Why distinct keys are a HYPOTHESIS: the model writes a Python dict as an association list `list (str * pyval)`
   (what `other.items()` yields, in order).  `dict.items()` never yields the same key twice, an association list can;
   `keys_ok` states the property that every real dict has.  With a repeated key the model's `from_dict` accumulates two
   occurrences under one name and `as_dict` shows the last one at the first one's place — no dict `d` corresponds to that. *)
From Coq Require Import List ZArith NArith Bool Lia.
From PP Require Import Model.Str Model.Results Model.ResultsAPI.
Import ListNotations.

(* ------------------------------------------------------------------------------------------------------ *)
(* 1. the class and the expected value                                                                       *)
(* ------------------------------------------------------------------------------------------------------ *)
(* an element of a list value: anything but a ParseResults (`to_item` turns a ParseResults element into a list / dict,
   every other element — nested plain lists included — comes back as the same object) *)
Definition elem_ok (t : tok) : bool := match t with TPR _ => false | _ => true end.

(* a non-Mapping value: str / int / bool / None, or a list of such elements (empty list included) *)
Definition value_ok (t : tok) : bool :=
  match t with
  | TStr _ | TInt _ | TBool _ | TNone => true
  | TList l => forallb elem_ok l
  | TPR _ => false                   (* a ParseResults is a registered MutableMapping: the real code takes the Mapping branch *)
  end.

Definition is_nil {A} (l : list A) : bool := match l with [] => true | _ => false end.

(* the keys of one dict: non-empty strings (`''` is dropped by `__init__`), pairwise distinct (see the header) *)
Fixpoint keys_ok (ks : list str) : bool :=
  match ks with
  | [] => true
  | k :: rest => negb (is_nil k) && negb (name_in k rest) && keys_ok rest
  end.

Fixpoint pyval_ok (v : pyval) : bool :=
  match v with
  | PV t => value_ok t
  | PD d => negb (is_nil d) && keys_ok (map fst d) && forallb (fun kv => pyval_ok (snd kv)) d    (* a nested dict: NON-EMPTY *)
  end.

(* the top-level dict: may be empty *)
Definition dict_ok (d : list (str * pyval)) : bool :=
  keys_ok (map fst d) && forallb (fun kv => pyval_ok (snd kv)) d.

(* the Python value `v` written as a value of as_dict(): a list is the list of its elements (each as is),
   a dict is the dict of its values, a scalar is itself *)
Fixpoint dval_of (v : pyval) : dval :=
  match v with
  | PV (TList l) => DList (map DTok l)
  | PV t => DTok t
  | PD d => DDict (map (fun kv => (fst kv, dval_of (snd kv))) d)
  end.
Definition ddict_of (d : list (str * pyval)) : list (str * dval) := map (fun kv => (fst kv, dval_of (snd kv))) d.

(* ------------------------------------------------------------------------------------------------------ *)
(* induction on the nesting of a pyval                                                                       *)
(* ------------------------------------------------------------------------------------------------------ *)
Section PyvalInd.
  Variable P : pyval -> Prop.
  Hypothesis HV : forall t, P (PV t).
  Hypothesis HD : forall d, Forall (fun kv => P (snd kv)) d -> P (PD d).
  Fixpoint pyval_nested_ind (v : pyval) : P v :=
    match v with
    | PV t => HV t
    | PD d => HD d ((fix go (l : list (str * pyval)) : Forall (fun kv => P (snd kv)) l :=
                       match l with
                       | [] => Forall_nil _
                       | kv :: rest => Forall_cons kv (pyval_nested_ind (snd kv)) (go rest)
                       end) d)
    end.
End PyvalInd.

(* ------------------------------------------------------------------------------------------------------ *)
(* small facts                                                                                               *)
(* ------------------------------------------------------------------------------------------------------ *)
Lemma fd_str_eqb_eq a : forall b, str_eqb a b = true <-> a = b.
Proof.
  induction a as [|x a IH]; destruct b as [|y b]; simpl; split; intros H; try discriminate; try reflexivity.
  - apply andb_prop in H. destruct H as [H1 H2]. apply N.eqb_eq in H1. apply IH in H2. now subst.
  - injection H as -> ->. rewrite N.eqb_refl. simpl. now apply IH.
Qed.

Lemma name_in_false_iff k ks : name_in k ks = false <-> ~ In k ks.
Proof.
  unfold name_in. induction ks as [|k' ks IH]; simpl.
  - split; [intros _ []|reflexivity].
  - rewrite orb_false_iff, IH. split.
    + intros [H1 H2] [->|H]; [|now apply H2]. assert (str_eqb k k = true) by now apply fd_str_eqb_eq. congruence.
    + intros H. split.
      * destruct (str_eqb k k') eqn:E; [|reflexivity]. apply fd_str_eqb_eq in E. subst. exfalso. apply H. now left.
      * intros H'. apply H. now right.
Qed.

Lemma dict_get_none_iff {V} (d : list (str * V)) k : dict_get d k = None <-> ~ In k (map fst d).
Proof.
  induction d as [|[k' v] d IH]; simpl.
  - split; [intros _ []|reflexivity].
  - destruct (str_eqb k' k) eqn:E.
    + apply fd_str_eqb_eq in E. subst. split; [discriminate|]. intros H. exfalso. apply H. now left.
    + rewrite IH. split.
      * intros H [->|H']; [|now apply H]. assert (str_eqb k k = true) by now apply fd_str_eqb_eq. congruence.
      * intros H H'. apply H. now right.
Qed.

Lemma fd_dict_set_fresh {V} (d : list (str * V)) k v : dict_get d k = None -> dict_set d k v = d ++ [(k, v)].
Proof.
  induction d as [|[k' v'] d IH]; simpl; [reflexivity|]. destruct (str_eqb k' k); [discriminate|]. intros H. now rewrite IH.
Qed.

Lemma keys_ok_cons k ks : keys_ok (k :: ks) = true <-> k <> [] /\ ~ In k ks /\ keys_ok ks = true.
Proof.
  simpl. rewrite !andb_true_iff, !negb_true_iff, name_in_false_iff. split.
  - intros [[H1 H2] H3]. split; [|tauto]. now destruct k.
  - intros [H1 [H2 H3]]. split; [split|]; try assumption. destruct k; [congruence|reflexivity].
Qed.

(* ------------------------------------------------------------------------------------------------------ *)
(* 2. `from_dict_item k v` concretely                                                                        *)
(* ------------------------------------------------------------------------------------------------------ *)
(* the token the item contributes to `_toklist`, and the value stored under the name k *)
Definition item_tok (k : str) (v : pyval) : tok :=
  match v with
  | PV t => t
  | PD d => TPR (set_rname (from_dict d) (Some k))        (* the nested result, renamed by `self[name]._name = name` *)
  end.
Definition item_val (k : str) (v : pyval) : tok :=
  match v with
  | PV (TList l) => TPR (PR l [] [] (Some k) true)         (* ParseResults(toklist[0]) = ParseResults(list(v)) *)
  | PV t => t                                              (* self[name] = toklist[0] *)
  | PD d => TPR (set_rname (from_dict d) (Some k))         (* ParseResults(toklist[0]) is toklist[0] itself *)
  end.
Definition not_pr (v : pyval) : bool := match v with PV (TPR _) => false | _ => true end.

Lemma from_dict_item_PD k d :
  from_dict_item k (PD d) = pr_init (RList [TPR (from_dict d)]) (Some k) true true.
Proof. reflexivity. Qed.

Lemma fd_str_eqb_refl a : str_eqb a a = true.
Proof. now apply fd_str_eqb_eq. Qed.

(* `ParseResults([x], name=k, asList=True)` for x a list or a ParseResults *)
Lemma init_aslist_concrete k x inner :
  k <> [] -> pr_of_value x = inner ->
  pr_init (RList [x]) (Some k) true true
  = PR [rename_tok k x] [(k, [(TPR (set_rname inner (Some k)), 0%Z)])] [] (Some k) true.
Proof.
  intros Hk Hin. destruct k as [|c k]; [congruence|].
  unfold pr_init, pr_init_gen. cbn [pr_new raw_is_null pr_of_list toks dict allnames rname modal].
  rewrite Hin. unfold pr_setname. cbn [toks dict allnames rname modal dict_get dict_set app].
  unfold set_last_value_name. cbn [toks dict allnames rname modal dict_get dict_set app name_in existsb].
  rewrite !fd_str_eqb_refl. reflexivity.
Qed.

Lemma from_dict_item_concrete k v : k <> [] -> not_pr v = true ->
  from_dict_item k v = PR [item_tok k v] [(k, [(item_val k v, 0%Z)])] [] (Some k) true.
Proof.
  intros Hk Hv.
  destruct v as [t|d].
  - destruct t; try discriminate; try (destruct k as [|c k]; [congruence|reflexivity]).
    change (from_dict_item k (PV (TList l))) with (pr_init (RList [TList l]) (Some k) true true).
    exact (init_aslist_concrete k (TList l) (pr_of_list l) Hk eq_refl).
  - rewrite from_dict_item_PD. exact (init_aslist_concrete k (TPR (from_dict d)) (from_dict d) Hk eq_refl).
Qed.

(* ------------------------------------------------------------------------------------------------------ *)
(* 3. one `ret += item` and the loop                                                                          *)
(* ------------------------------------------------------------------------------------------------------ *)
Lemma iadd_item acc x k v nm md :
  allnames acc = [] -> dict_get (dict acc) k = None ->
  pr_iadd acc (PR [x] [(k, [(v, 0%Z)])] [] nm md)
  = PR (toks acc ++ [x]) (dict acc ++ [(k, [(v, Z.of_nat (length (toks acc)))])]) [] (rname acc) (modal acc).
Proof.
  intros Han Hget. unfold pr_iadd. simpl. unfold pr_setname. simpl. rewrite Hget. simpl.
  rewrite fd_dict_set_fresh by assumption. unfold names_union. simpl. rewrite Han. reflexivity.
Qed.

(* the name table the loop builds: the i-th item under its key, a single occurrence, at position off + i *)
Fixpoint named_items (off : nat) (d : list (str * pyval)) : list (str * list (tok * Z)) :=
  match d with
  | [] => []
  | kv :: rest => (fst kv, [(item_val (fst kv) (snd kv), Z.of_nat off)]) :: named_items (S off) rest
  end.

Lemma named_items_keys off d : map fst (named_items off d) = map fst d.
Proof. revert off. induction d as [|kv d IH]; intros off; simpl; [reflexivity|]. now rewrite IH. Qed.

Definition fd_step (acc : pres) (kv : str * pyval) : pres := pr_iadd acc (from_dict_item (fst kv) (snd kv)).

(* the invariant: after the items of d have been added to acc (no list-all names, none of the new keys present) *)
Lemma from_dict_fold d : forall acc,
  allnames acc = [] ->
  keys_ok (map fst d) = true ->
  forallb (fun kv => not_pr (snd kv)) d = true ->
  (forall k, In k (map fst d) -> ~ In k (map fst (dict acc))) ->
  fold_left fd_step d acc
  = PR (toks acc ++ map (fun kv => item_tok (fst kv) (snd kv)) d)
       (dict acc ++ named_items (length (toks acc)) d)
       [] (rname acc) (modal acc).
Proof.
  induction d as [|[k v] d IH]; intros acc Han Hk Hv Hfresh.
  - simpl. rewrite !app_nil_r. destruct acc; simpl in *. now subst.
  - apply keys_ok_cons in Hk. destruct Hk as [Hk0 [Hk1 Hk2]].
    simpl in Hv. apply andb_true_iff in Hv. destruct Hv as [Hv0 Hv1].
    cbn [fold_left]. unfold fd_step at 2. cbn [fst snd].
    rewrite (from_dict_item_concrete k v Hk0 Hv0).
    rewrite iadd_item; [|assumption|apply dict_get_none_iff, Hfresh; now left].
    rewrite IH; try assumption; try reflexivity.
    + cbn [toks dict rname modal map fst snd named_items]. rewrite app_length. cbn [length].
      rewrite Nat.add_1_r, <- !app_assoc. reflexivity.
    + cbn [dict]. intros k' Hin. rewrite map_app, in_app_iff. cbn [map fst In]. intros [H|[H|[]]].
      * apply (Hfresh k'); [now right|assumption].
      * subst. contradiction.
Qed.

(* ------------------------------------------------------------------------------------------------------ *)
(* 4. from_dict in closed form                                                                               *)
(* ------------------------------------------------------------------------------------------------------ *)
Lemma from_dict_is_fold d : from_dict d = fold_left fd_step d (pr_init (RList []) None true true).
Proof. reflexivity. Qed.

Theorem from_dict_concrete d :
  keys_ok (map fst d) = true -> forallb (fun kv => not_pr (snd kv)) d = true ->
  from_dict d = PR (map (fun kv => item_tok (fst kv) (snd kv)) d) (named_items 0 d) [] None true.
Proof.
  intros Hk Hv. rewrite from_dict_is_fold. rewrite from_dict_fold; try assumption; try reflexivity.
  intros k _ [].
Qed.

Lemma pyval_ok_not_pr v : pyval_ok v = true -> not_pr v = true.
Proof. destruct v as [t|d]; [|reflexivity]. destruct t; simpl; congruence. Qed.

Lemma all_ok_not_pr (d : list (str * pyval)) : forallb (fun kv => pyval_ok (snd kv)) d = true -> forallb (fun kv => not_pr (snd kv)) d = true.
Proof.
  rewrite !forallb_forall. intros H kv Hin. apply pyval_ok_not_pr. now apply H.
Qed.

(* ------------------------------------------------------------------------------------------------------ *)
(* 5. as_dict                                                                                                *)
(* ------------------------------------------------------------------------------------------------------ *)
(* one entry of as_dict()/to_item over a name table *)
Definition entry (an : list str) (kv : str * list (tok * Z)) : str * dval :=
  let vs := map (fun vp => to_item (fst vp)) (snd kv) in
  (fst kv, if name_in (fst kv) an then DList vs else last vs (DTok TNone)).

Lemma as_dict_entries r : as_dict r = map (entry (allnames r)) (dict r).
Proof. reflexivity. Qed.

Lemma to_item_TPR r :
  to_item (TPR r) = match dict r with [] => DList (map to_item (toks r)) | _ => DDict (map (entry (allnames r)) (dict r)) end.
Proof. destruct r as [tl d an nm md]. simpl. destruct d; reflexivity. Qed.

Lemma entries_named_items off (d : list (str * pyval)) :
  map (entry []) (named_items off d) = map (fun kv => (fst kv, to_item (item_val (fst kv) (snd kv)))) d.
Proof. revert off. induction d as [|kv d IH]; intros off; [reflexivity|]. cbn [named_items map]. now rewrite IH. Qed.

Lemma map_to_item_elems l : forallb elem_ok l = true -> map to_item l = map DTok l.
Proof.
  induction l as [|t l IH]; [reflexivity|]. cbn [forallb map]. intros H. apply andb_true_iff in H. destruct H as [H1 H2].
  rewrite IH by assumption. destruct t; try discriminate; reflexivity.
Qed.

(* the value stored under a name reads back as the value that was given *)
Lemma to_item_item_val : forall v k, pyval_ok v = true -> to_item (item_val k v) = dval_of v.
Proof.
  intros v. induction v as [t|d IH] using pyval_nested_ind; intros k Hok.
  - destruct t; try discriminate; try reflexivity.
    cbn [item_val dval_of]. rewrite to_item_TPR. cbn [dict toks]. simpl in Hok. now rewrite map_to_item_elems.
  - cbn [pyval_ok] in Hok. apply andb_true_iff in Hok. destruct Hok as [Hok Hall].
    apply andb_true_iff in Hok. destruct Hok as [Hne Hkeys].
    cbn [item_val dval_of]. rewrite to_item_TPR.
    rewrite (from_dict_concrete d Hkeys (all_ok_not_pr d Hall)). cbn [set_rname dict allnames toks].
    destruct d as [|kv0 d0] eqn:Ed; [discriminate|]. rewrite <- Ed in *.
    assert (Hnn : named_items 0 d <> []) by (rewrite Ed; discriminate).
    destruct (named_items 0 d) as [|e es] eqn:En; [congruence|]. rewrite <- En.
    rewrite entries_named_items. f_equal.
    apply map_ext_in. intros kv Hin. f_equal.
    rewrite Forall_forall in IH. apply IH; [assumption|].
    rewrite forallb_forall in Hall. now apply Hall.
Qed.

(* ParseResults.from_dict(d).as_dict() == d *)
Theorem from_dict_roundtrip d : dict_ok d = true -> as_dict (from_dict d) = ddict_of d.
Proof.
  intros Hok. unfold dict_ok in Hok. apply andb_true_iff in Hok. destruct Hok as [Hkeys Hall].
  rewrite (from_dict_concrete d Hkeys (all_ok_not_pr d Hall)).
  rewrite as_dict_entries. cbn [allnames dict]. rewrite entries_named_items. unfold ddict_of.
  apply map_ext_in. intros kv Hin. f_equal. apply to_item_item_val.
  rewrite forallb_forall in Hall. now apply Hall.
Qed.

(* ... hence the keys come back in order, and a result built by from_dict has no list-all names *)
Corollary from_dict_keys d : dict_ok d = true -> keys (from_dict d) = map fst d.
Proof.
  intros Hok. unfold dict_ok in Hok. apply andb_true_iff in Hok. destruct Hok as [Hkeys Hall].
  rewrite (from_dict_concrete d Hkeys (all_ok_not_pr d Hall)). unfold keys. cbn [dict]. apply named_items_keys.
Qed.
