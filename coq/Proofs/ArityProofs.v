(* Proofs about Model/Arity.v (M13).  Props/C13.v states the theorems and closes them with `exact`. *)
From Coq Require Import List Arith Bool Lia.
From PP Require Import Model.Arity.
Import ListNotations.

Section WrapperProofs.
  Variable V : Type.

  (* a callable written in Python: a TypeError that comes out of its *body* has at least the body's frame on the
     traceback.  (Depth-0 TypeErrors of such a callable are argument-binding failures, which `invoke` produces.) *)
  Definition py_body (b : list V -> body_result V) : Prop :=
    forall a e, b a = BRaise e -> e_kind e = KTypeError -> e_depth e <> 0.

  (* how the wrapper leaves when the body, entered at limit lim, produced r *)
  Definition translate (wraps : bool) (e : exn) : raised :=
    match e_kind e with KIndexError => wrap_index wraps e | _ => Raw e end.

  Definition stop_result (sh : wshape) (fnd : bool) (lim : nat) (r : body_result V) (wraps : bool)
                         (tr : list (list V)) (n : nat) : wresult V :=
    match r with
    | BNone => mkR V (WReturn RNone) (mkW (fnd || sh_sets_found sh) lim) tr n
    | BValue v => mkR V (WReturn (RVal v)) (mkW (fnd || sh_sets_found sh) lim) tr n
    | BRaise e => mkR V (WRaise (translate wraps e)) (mkW fnd lim) tr n
    end.

  (* least lim' in [lim, lim+fuel) whose argument count len - lim' is accepted *)
  Fixpoint find_limit (acc : nat -> bool) (len lim fuel : nat) : option nat :=
    match fuel with
    | O => None
    | S f => if acc (len - lim) then Some lim else find_limit acc len (S lim) f
    end.

  Lemma find_limit_some : forall acc len fuel lim l,
    find_limit acc len lim fuel = Some l ->
    lim <= l < lim + fuel /\ acc (len - l) = true /\ forall j, lim <= j < l -> acc (len - j) = false.
  Proof.
    induction fuel as [|f IH]; simpl; intros lim l H; [discriminate|].
    destruct (acc (len - lim)) eqn:E.
    - inversion H; subst. repeat split; try lia; auto; intros; lia.
    - apply IH in H. destruct H as (H1 & H2 & H3). repeat split; try lia; auto.
      intros j Hj. destruct (Nat.eq_dec j lim); [subst; auto|]. apply H3; lia.
  Qed.

  Lemma find_limit_none : forall acc len fuel lim,
    find_limit acc len lim fuel = None -> forall j, lim <= j < lim + fuel -> acc (len - j) = false.
  Proof.
    induction fuel as [|f IH]; simpl; intros lim H j Hj; [lia|].
    destruct (acc (len - lim)) eqn:E; [discriminate|].
    destruct (Nat.eq_dec j lim); [subst; auto|]. apply (IH _ H); lia.
  Qed.

  Lemma find_limit_skip : forall acc len k a f,
    (forall j, a <= j < a + k -> acc (len - j) = false) ->
    find_limit acc len a (k + f) = find_limit acc len (a + k) f.
  Proof.
    induction k as [|k IH]; intros a f H; simpl.
    - now rewrite Nat.add_0_r.
    - rewrite H by lia. rewrite IH. + f_equal; lia. + intros; apply H; lia.
  Qed.

  Lemma invoke_accept : forall (c : callable V) a, accepts V c (length a) = true -> invoke V c a = (body V c a, [a]).
  Proof. intros c a H. unfold invoke. now rewrite H. Qed.

  Lemma invoke_reject : forall (c : callable V) a, accepts V c (length a) = false -> invoke V c a = (BRaise bind_error, []).
  Proof. intros c a H. unfold invoke. now rewrite H. Qed.

  (* one iteration with found_arity = False, arity accepted, Python body: the loop stops *)
  Lemma wloop_accept : forall sh f (c : callable V) maxl lim args tr n,
    py_body (body V c) ->
    accepts V c (length (skipn lim args)) = true ->
    wloop V sh (S f) c maxl false lim args tr n =
    stop_result sh false lim (body V c (skipn lim args)) (sh_loop_wraps_index sh) (tr ++ [skipn lim args]) (S n).
  Proof.
    intros sh f c maxl lim args tr n Hpy Hacc. simpl. rewrite (invoke_accept _ _ Hacc).
    destruct (body V c (skipn lim args)) as [| v | e] eqn:Eb; simpl; try reflexivity.
    unfold translate. destruct (e_kind e) eqn:Ek; try reflexivity.
    assert (Hd := Hpy _ _ Eb Ek). apply Nat.eqb_neq in Hd. rewrite Hd. reflexivity.
  Qed.

  Lemma wloop_reject_more : forall sh f (c : callable V) maxl lim args tr n,
    accepts V c (length (skipn lim args)) = false -> lim < maxl ->
    wloop V sh (S f) c maxl false lim args tr n = wloop V sh f c maxl false (S lim) args tr (S n).
  Proof.
    intros. simpl. rewrite (invoke_reject _ _ H). simpl.
    apply Nat.ltb_lt in H0. rewrite H0. now rewrite app_nil_r.
  Qed.

  Lemma wloop_reject_last : forall sh f (c : callable V) maxl lim args tr n,
    accepts V c (length (skipn lim args)) = false -> maxl <= lim ->
    wloop V sh (S f) c maxl false lim args tr n = mkR V (WRaise (Raw bind_error)) (mkW false lim) tr (S n).
  Proof.
    intros. simpl. rewrite (invoke_reject _ _ H). simpl.
    apply Nat.ltb_ge in H0. rewrite H0. now rewrite app_nil_r.
  Qed.

  Lemma wloop_find : forall sh (c : callable V) maxl args k lim fuel tr n,
    py_body (body V c) -> k = maxl - lim -> lim <= maxl -> k + 1 <= fuel ->
    wloop V sh fuel c maxl false lim args tr n =
    match find_limit (accepts V c) (length args) lim (k + 1) with
    | Some l => stop_result sh false l (body V c (skipn l args)) (sh_loop_wraps_index sh)
                            (tr ++ [skipn l args]) (n + (l - lim) + 1)
    | None => mkR V (WRaise (Raw bind_error)) (mkW false maxl) tr (n + k + 1)
    end.
  Proof.
    intros sh c maxl args. induction k as [|k IH]; intros lim fuel tr n Hpy Hk Hle Hf.
    - destruct fuel as [|f]; [lia|]. simpl find_limit. rewrite <- (skipn_length lim args).
      destruct (accepts V c (length (skipn lim args))) eqn:E.
      + rewrite (wloop_accept _ _ _ _ _ _ _ _ Hpy E). f_equal. lia.
      + rewrite (wloop_reject_last _ _ _ _ _ _ _ _ E) by lia. assert (lim = maxl) by lia. subst. f_equal. lia.
    - destruct fuel as [|f]; [lia|]. simpl find_limit. rewrite <- (skipn_length lim args).
      destruct (accepts V c (length (skipn lim args))) eqn:E.
      + rewrite (wloop_accept _ _ _ _ _ _ _ _ Hpy E). f_equal. lia.
      + rewrite (wloop_reject_more _ _ _ _ _ _ _ _ E) by lia.
        rewrite (IH (S lim) f tr (S n) Hpy) by lia.
        destruct (find_limit (accepts V c) (length args) (S lim) (k + 1)) eqn:F.
        * apply find_limit_some in F. f_equal. lia.
        * f_equal. lia.
  Qed.

  (* one iteration with found_arity = True (shape without fast path): whatever happens, the loop stops *)
  Lemma wloop_found : forall sh f (c : callable V) maxl lim args tr n,
    wloop V sh (S f) c maxl true lim args tr n =
    if accepts V c (length (skipn lim args))
    then stop_result sh true lim (body V c (skipn lim args)) (sh_loop_wraps_index sh) (tr ++ [skipn lim args]) (S n)
    else mkR V (WRaise (Raw bind_error)) (mkW true lim) tr (S n).
  Proof.
    intros. simpl. unfold invoke. destruct (accepts V c (length (skipn lim args))); simpl.
    - destruct (body V c (skipn lim args)) as [| v | e]; simpl; try reflexivity.
      unfold translate. destruct (e_kind e); reflexivity.
    - now rewrite app_nil_r.
  Qed.

  (* the loop always terminates within its fuel, for every callable (C-level ones included) *)
  Lemma wloop_no_fuel : forall sh (c : callable V) maxl args fuel fnd lim tr n,
    (maxl - lim) + 1 <= fuel -> w_out V (wloop V sh fuel c maxl fnd lim args tr n) <> WFuel.
  Proof.
    intros sh c maxl args. induction fuel as [|f IH]; intros fnd lim tr n Hf; [lia|].
    simpl. destruct (invoke V c (skipn lim args)) as [r t]. destruct r as [| v | e]; simpl; try discriminate.
    destruct (e_kind e); simpl; try discriminate.
    destruct fnd; simpl; try discriminate.
    destruct ((e_depth e =? 0) && (lim <? maxl)) eqn:E; simpl; try discriminate.
    apply andb_prop in E. destruct E as [_ E]. apply Nat.ltb_lt in E. apply IH. lia.
  Qed.

  Lemma wcall_no_fuel : forall sh (c : callable V) maxl st args, w_out V (wcall V sh c maxl st args) <> WFuel.
  Proof.
    intros. unfold wcall. destruct (found st && sh_fast_path sh).
    - destruct (invoke V c (skipn (limit st) args)) as [r t]. destruct r as [| v | e]; simpl; try discriminate.
      destruct (e_kind e); discriminate.
    - apply wloop_no_fuel. lia.
  Qed.

  (* ---------------------------------------------------------------------------------------------------- *)
  (* invariant of the wrapper state over arbitrary histories, and the closed form of one call               *)
  (* ---------------------------------------------------------------------------------------------------- *)

  Definition Inv (acc : nat -> bool) (maxl len : nat) (st : wstate) : Prop :=
    limit st <= maxl /\ (forall j, j < limit st -> acc (len - j) = false) /\
    (found st = true -> acc (len - limit st) = true).

  Lemma Inv_init : forall acc maxl len, Inv acc maxl len w_init.
  Proof. intros. unfold Inv, w_init; simpl. repeat split; try lia; try discriminate; intros; lia. Qed.

  Definition wcall_spec (sh : wshape) (acc : nat -> bool) (maxl : nat) (st : wstate) (args : list V)
                        (b : list V -> body_result V) : wresult V :=
    match find_limit acc (length args) 0 (maxl + 1) with
    | Some l =>
        stop_result sh (found st) l (b (skipn l args))
          (if found st && sh_fast_path sh then sh_fast_wraps_index sh else sh_loop_wraps_index sh)
          [skipn l args] (if found st then 1 else l - limit st + 1)
    | None => mkR V (WRaise (Raw bind_error)) (mkW false maxl) [] (maxl - limit st + 1)
    end.

  Lemma find_limit_from_inv : forall acc maxl len st,
    Inv acc maxl len st ->
    find_limit acc len 0 (maxl + 1) = find_limit acc len (limit st) (maxl - limit st + 1).
  Proof.
    intros acc maxl len st (H1 & H2 & _).
    replace (maxl + 1) with (limit st + (maxl - limit st + 1)) by lia.
    rewrite find_limit_skip; [reflexivity|]. intros; apply H2; lia.
  Qed.

  Lemma found_limit_is_best : forall acc maxl len st,
    Inv acc maxl len st -> found st = true -> find_limit acc len 0 (maxl + 1) = Some (limit st).
  Proof.
    intros acc maxl len st HI Hf. rewrite (find_limit_from_inv _ _ _ _ HI).
    destruct HI as (H1 & H2 & H3). replace (maxl - limit st + 1) with (S (maxl - limit st)) by lia.
    simpl. now rewrite (H3 Hf).
  Qed.

  Theorem wcall_eq_spec : forall sh acc maxl st args b,
    Inv acc maxl (length args) st -> py_body b ->
    wcall V sh (mkCallable V acc b) maxl st args = wcall_spec sh acc maxl st args b.
  Proof.
    intros sh acc maxl st args b HI Hpy. unfold wcall, wcall_spec.
    destruct (found st) eqn:Hf; simpl andb.
    - (* found *)
      rewrite (found_limit_is_best _ _ _ _ HI Hf).
      destruct HI as (H1 & H2 & H3). specialize (H3 Hf).
      destruct (sh_fast_path sh) eqn:Hfp.
      + unfold invoke; simpl. rewrite skipn_length. rewrite H3.
        destruct st as [fd lm]; simpl in *; subst fd.
        destruct (b (skipn lm args)) as [| v | e]; simpl; try reflexivity.
        unfold translate. destruct (e_kind e); reflexivity.
      + replace (maxl + 2) with (S (maxl + 1)) by lia. rewrite wloop_found. simpl.
        rewrite skipn_length. rewrite H3. reflexivity.
    - (* not found *)
      rewrite (find_limit_from_inv _ _ _ _ HI). destruct HI as (H1 & H2 & H3).
      rewrite (wloop_find sh (mkCallable V acc b) maxl args (maxl - limit st) (limit st) (maxl + 2) [] 0 Hpy eq_refl H1)
        by lia.
      simpl. destruct (find_limit acc (length args) (limit st) (maxl - limit st + 1)); [|f_equal; lia].
      reflexivity.
  Qed.

  Lemma stop_result_state : forall sh fnd lim r wraps tr n,
    limit (w_state V (stop_result sh fnd lim r wraps tr n)) = lim /\
    (found (w_state V (stop_result sh fnd lim r wraps tr n)) = true ->
       fnd = true \/ (sh_sets_found sh = true /\ exists rr, w_out V (stop_result sh fnd lim r wraps tr n) = WReturn rr)).
  Proof.
    intros. destruct r; simpl; split; auto; intros H.
    - apply orb_prop in H. destruct H; [left|right]; eauto.
    - apply orb_prop in H. destruct H; [left|right]; eauto.
  Qed.

  Theorem wcall_spec_inv : forall sh acc maxl st args b,
    Inv acc maxl (length args) st -> Inv acc maxl (length args) (w_state V (wcall_spec sh acc maxl st args b)).
  Proof.
    intros sh acc maxl st args b HI. unfold wcall_spec.
    destruct (find_limit acc (length args) 0 (maxl + 1)) as [l|] eqn:F.
    - apply find_limit_some in F. destruct F as (F1 & F2 & F3).
      destruct (stop_result_state sh (found st) l (b (skipn l args))
                  (if found st && sh_fast_path sh then sh_fast_wraps_index sh else sh_loop_wraps_index sh)
                  [skipn l args] (if found st then 1 else l - limit st + 1)) as [E1 _].
      unfold Inv. rewrite E1. repeat split; try lia; auto. intros; apply F3; lia.
    - simpl. unfold Inv; simpl. repeat split; try lia; try discriminate.
      intros j Hj. apply (find_limit_none _ _ _ _ F). lia.
  Qed.

  Corollary wcall_inv : forall sh acc maxl st args b,
    Inv acc maxl (length args) st -> py_body b ->
    Inv acc maxl (length args) (w_state V (wcall V sh (mkCallable V acc b) maxl st args)).
  Proof. intros. rewrite wcall_eq_spec by assumption. now apply wcall_spec_inv. Qed.

  (* states reachable from the initial one by any history of calls with `len` arguments and Python bodies *)
  Inductive reachable (sh : wshape) (acc : nat -> bool) (maxl len : nat) : wstate -> Prop :=
  | reach_init : reachable sh acc maxl len w_init
  | reach_step : forall st args b,
      reachable sh acc maxl len st -> length args = len -> py_body b ->
      reachable sh acc maxl len (w_state V (wcall V sh (mkCallable V acc b) maxl st args)).

  Lemma reachable_inv : forall sh acc maxl len st, reachable sh acc maxl len st -> Inv acc maxl len st.
  Proof.
    induction 1.
    - apply Inv_init.
    - subst len. now apply wcall_inv.
  Qed.

  (* the accepted argument count the wrapper settles on: the largest of len, len-1, ..., len-maxl that is accepted *)
  Definition best_limit (acc : nat -> bool) (maxl len : nat) : option nat := find_limit acc len 0 (maxl + 1).

  (* ---- C13_arity, general form ---- *)
  Theorem arity_general : forall sh acc maxl st args b,
    reachable sh acc maxl (length args) st -> py_body b ->
    let r := wcall V sh (mkCallable V acc b) maxl st args in
    match best_limit acc maxl (length args) with
    | Some l =>
        (* the body ran exactly once, with the trailing (len - l) arguments, l the least limit that is accepted *)
        w_trace V r = [skipn l args] /\ limit (w_state V r) = l /\
        acc (length args - l) = true /\ (forall j, j < l -> acc (length args - j) = false) /\
        match b (skipn l args) with
        | BNone => w_out V r = WReturn RNone /\ found (w_state V r) = found st || sh_sets_found sh
        | BValue v => w_out V r = WReturn (RVal v) /\ found (w_state V r) = found st || sh_sets_found sh
        | BRaise e =>
            found (w_state V r) = found st /\
            (e_kind e <> KIndexError -> w_out V r = WRaise (Raw e)) /\
            (e_kind e = KIndexError ->
               w_out V r = WRaise (wrap_index (if found st && sh_fast_path sh then sh_fast_wraps_index sh
                                               else sh_loop_wraps_index sh) e))
        end
    | None =>
        (* no argument count is accepted: the body never runs, CPython's own TypeError propagates *)
        w_trace V r = [] /\ w_out V r = WRaise (Raw bind_error) /\ found (w_state V r) = false /\
        (forall j, j <= maxl -> acc (length args - j) = false)
    end.
  Proof.
    intros sh acc maxl st args b HR Hpy r. subst r.
    rewrite (wcall_eq_spec sh acc maxl st args b (reachable_inv _ _ _ _ _ HR) Hpy).
    unfold best_limit, wcall_spec.
    destruct (find_limit acc (length args) 0 (maxl + 1)) as [l|] eqn:F.
    - apply find_limit_some in F. destruct F as (F1 & F2 & F3).
      destruct (b (skipn l args)) as [| v | e] eqn:Eb; simpl; repeat split; auto; try (intros; apply F3; lia).
      + intros Hk. unfold translate. destruct (e_kind e); congruence.
      + intros Hk. unfold translate. now rewrite Hk.
    - simpl. repeat split; auto. intros j Hj. apply (find_limit_none _ _ _ _ F). lia.
  Qed.

  (* ---- found_arity sticks; no probing after the first success ---- *)
  Theorem found_sticks : forall sh acc maxl st args b,
    reachable sh acc maxl (length args) st -> py_body b -> found st = true ->
    let r := wcall V sh (mkCallable V acc b) maxl st args in
    w_state V r = st /\ w_calls V r = 1 /\ w_trace V r = [skipn (limit st) args].
  Proof.
    intros sh acc maxl st args b HR Hpy Hf r. subst r.
    pose proof (reachable_inv _ _ _ _ _ HR) as HI.
    rewrite (wcall_eq_spec sh acc maxl st args b HI Hpy). unfold wcall_spec.
    rewrite (found_limit_is_best _ _ _ _ HI Hf). rewrite Hf. destruct st as [fd lm]; simpl in *; subst fd.
    destruct (b (skipn lm args)); simpl; auto.
  Qed.

  (* a successful call of a wrapper whose loop sets found_arity leaves found_arity = True *)
  Theorem success_sets_found : forall sh acc maxl st args b rr,
    reachable sh acc maxl (length args) st -> py_body b -> sh_sets_found sh = true ->
    w_out V (wcall V sh (mkCallable V acc b) maxl st args) = WReturn rr ->
    found (w_state V (wcall V sh (mkCallable V acc b) maxl st args)) = true.
  Proof.
    intros sh acc maxl st args b rr HR Hpy Hs.
    rewrite (wcall_eq_spec sh acc maxl st args b (reachable_inv _ _ _ _ _ HR) Hpy). unfold wcall_spec.
    destruct (find_limit acc (length args) 0 (maxl + 1)); [|discriminate].
    destruct (b (skipn n args)); simpl; try discriminate; intros _; rewrite Hs; apply orb_true_r.
  Qed.

  (* over a whole history: once found, always found, limit frozen, one evaluation of func per call *)
  Theorem history_after_success : forall sh acc maxl len calls st,
    reachable sh acc maxl len st -> found st = true ->
    Forall (fun c => length (fst c) = len /\ py_body (snd c)) calls ->
    snd (whistory V sh acc maxl st calls) = st /\
    Forall (fun r => w_calls V r = 1 /\ w_state V r = st /\ length (w_trace V r) = 1) (fst (whistory V sh acc maxl st calls)).
  Proof.
    intros sh acc maxl len calls. induction calls as [|[args b] rest IH]; intros st HR Hf HF; simpl.
    - split; auto.
    - inversion HF as [|x l Hhd HF']; subst. destruct Hhd as [Hlen Hpy]. simpl in Hlen, Hpy.
      assert (HR' : reachable sh acc maxl (length args) st) by (now rewrite Hlen).
      destruct (found_sticks sh acc maxl st args b HR' Hpy Hf) as (E1 & E2 & E3).
      destruct (whistory V sh acc maxl (w_state V (wcall V sh (mkCallable V acc b) maxl st args)) rest) as [rs st'] eqn:EH.
      rewrite E1 in EH. specialize (IH st HR Hf HF'). rewrite EH in IH. simpl in *. destruct IH as [IH1 IH2].
      split; auto. constructor; auto. repeat split; auto. now rewrite E3.
  Qed.

  (* every state along a history is reachable (so the per-call theorems apply to every call of every history) *)
  Lemma history_reachable : forall sh acc maxl len calls st,
    reachable sh acc maxl len st ->
    Forall (fun c => length (fst c) = len /\ py_body (snd c)) calls ->
    reachable sh acc maxl len (snd (whistory V sh acc maxl st calls)).
  Proof.
    intros sh acc maxl len calls. induction calls as [|[args b] rest IH]; intros st HR HF; simpl; auto.
    inversion HF as [|x l Hhd HF']; subst. destruct Hhd as [Hlen Hpy]. simpl in Hlen, Hpy.
    destruct (whistory V sh acc maxl (w_state V (wcall V sh (mkCallable V acc b) maxl st args)) rest) as [rs st'] eqn:EH.
    simpl. specialize (IH (w_state V (wcall V sh (mkCallable V acc b) maxl st args))).
    rewrite EH in IH. simpl in IH. apply IH; auto. now apply reach_step.
  Qed.

  (* an exception raised inside the body (depth >= 1 for TypeError by py_body, any depth otherwise) other than
     IndexError reaches the caller as the same object; found_arity is not changed by it *)
  Theorem exception_unchanged : forall sh acc maxl st args b l e,
    reachable sh acc maxl (length args) st -> py_body b ->
    best_limit acc maxl (length args) = Some l -> b (skipn l args) = BRaise e -> e_kind e <> KIndexError ->
    let r := wcall V sh (mkCallable V acc b) maxl st args in
    w_out V r = WRaise (Raw e) /\ found (w_state V r) = found st /\ limit (w_state V r) = l /\ length (w_trace V r) = 1.
  Proof.
    intros sh acc maxl st args b l e HR Hpy HB Hb Hk r.
    pose proof (arity_general sh acc maxl st args b HR Hpy) as A. cbv zeta in A. rewrite HB, Hb in A.
    destruct A as (A1 & A2 & _ & _ & A5 & A6 & _). subst r. rewrite A1. auto.
  Qed.

  (* ---- the documented case: three arguments (s, loc, toks), max_limit = 3 ---- *)
  Definition max_arity (acc : nat -> bool) : option nat :=
    if acc 3 then Some 3 else if acc 2 then Some 2 else if acc 1 then Some 1 else if acc 0 then Some 0 else None.

  Lemma best_limit_33 : forall acc,
    best_limit acc 3 3 = match max_arity acc with Some k => Some (3 - k) | None => None end.
  Proof. intros. unfold best_limit, max_arity. simpl. destruct (acc 3), (acc 2), (acc 1), (acc 0); reflexivity. Qed.

  Lemma max_arity_some : forall acc k, max_arity acc = Some k ->
    k <= 3 /\ acc k = true /\ forall j, k < j <= 3 -> acc j = false.
  Proof.
    intros acc k. unfold max_arity.
    destruct (acc 3) eqn:E3; [intros H; inversion H; subst; repeat split; auto; intros; lia|].
    destruct (acc 2) eqn:E2; [intros H; inversion H; subst; repeat split; auto; intros j Hj; assert (j = 3) by lia; subst; auto|].
    destruct (acc 1) eqn:E1; [intros H; inversion H; subst; repeat split; auto; intros j Hj;
                              assert (j = 3 \/ j = 2) as [|] by lia; subst; auto|].
    destruct (acc 0) eqn:E0; [|discriminate]. intros H; inversion H; subst; repeat split; auto.
    intros j Hj. assert (j = 3 \/ j = 2 \/ j = 1) as [|[|]] by lia; subst; auto.
  Qed.

  Lemma max_arity_none : forall acc, max_arity acc = None -> forall j, j <= 3 -> acc j = false.
  Proof.
    intros acc. unfold max_arity.
    destruct (acc 3) eqn:E3; [discriminate|]. destruct (acc 2) eqn:E2; [discriminate|].
    destruct (acc 1) eqn:E1; [discriminate|]. destruct (acc 0) eqn:E0; [discriminate|].
    intros _ j Hj. assert (j = 3 \/ j = 2 \/ j = 1 \/ j = 0) as [|[|[|]]] by lia; subst; auto.
  Qed.

  Theorem arity_33 : forall sh acc st (s l t : V) b,
    reachable sh acc 3 3 st -> py_body b ->
    let args := [s; l; t] in
    let r := wcall V sh (mkCallable V acc b) 3 st args in
    match max_arity acc with
    | Some k =>
        k <= 3 /\ acc k = true /\ (forall j, k < j <= 3 -> acc j = false) /\
        w_trace V r = [skipn (3 - k) args] /\ limit (w_state V r) = 3 - k /\
        match b (skipn (3 - k) args) with
        | BNone => w_out V r = WReturn RNone /\ found (w_state V r) = found st || sh_sets_found sh
        | BValue v => w_out V r = WReturn (RVal v) /\ found (w_state V r) = found st || sh_sets_found sh
        | BRaise e =>
            found (w_state V r) = found st /\
            (e_kind e <> KIndexError -> w_out V r = WRaise (Raw e)) /\
            (e_kind e = KIndexError ->
               w_out V r = WRaise (wrap_index (if found st && sh_fast_path sh then sh_fast_wraps_index sh
                                               else sh_loop_wraps_index sh) e))
        end
    | None =>
        w_trace V r = [] /\ w_out V r = WRaise (Raw bind_error) /\ found (w_state V r) = false /\
        (forall j, j <= 3 -> acc j = false)
    end.
  Proof.
    intros sh acc st s l t b HR Hpy args r.
    pose proof (arity_general sh acc 3 st args b HR Hpy) as A. cbv zeta in A.
    change (length args) with 3 in A. rewrite best_limit_33 in A. fold r in A.
    destruct (max_arity acc) as [k|] eqn:E.
    - destruct (max_arity_some _ _ E) as (K1 & K2 & K3).
      destruct A as (A1 & A2 & _ & _ & A5). repeat split; auto.
    - destruct A as (A1 & A2 & A3 & _). repeat split; auto. apply (max_arity_none _ E).
  Qed.

End WrapperProofs.

(* ------------------------------------------------------------------------------------------------------ *)
(* the action loop                                                                                          *)
(* ------------------------------------------------------------------------------------------------------ *)
Section LoopProofs.
  Variable V : Type.
  Variable same : V -> V -> bool.
  Variable mkres : V -> V.

  Notation action_loop := (action_loop V same mkres).
  Notation run_actions := (run_actions V same mkres).

  (* `None` keeps the tokens; the very same object keeps them; anything else replaces them by ParseResults(value) *)
  Definition apply_ret (toks : V) (r : ret V) : V :=
    match r with RNone => toks | RVal v => if same v toks then toks else mkres v end.
  Definition apply_rets (toks : V) (rs : list (ret V)) : V := fold_left apply_ret rs toks.

  Theorem gate_closed : forall sh conv maxl acts s loc toks,
    run_actions sh conv maxl false false acts s loc toks = mkL V (LOk toks) acts [].
  Proof. reflexivity. Qed.

  Theorem gate_open : forall sh conv maxl d c acts s loc toks,
    d || c = true -> run_actions sh conv maxl d c acts s loc toks = action_loop sh conv maxl acts s loc toks.
  Proof. intros. unfold Arity.run_actions. now rewrite H. Qed.

  Theorem action_loop_ok : forall sh conv maxl acts s loc toks t,
    l_out V (action_loop sh conv maxl acts s loc toks) = LOk t ->
    exists rs, length rs = length acts /\ t = apply_rets toks rs /\
      forall i a, nth_error acts i = Some a ->
        exists r, nth_error rs i = Some r /\
          w_out V (call_action V sh maxl a [s; loc; apply_rets toks (firstn i rs)]) = WReturn r.
  Proof.
    intros sh conv maxl. induction acts as [|a rest IH]; intros s loc toks t H.
    - simpl in H. inversion H; subst. exists []. repeat split; auto. intros [|i] a0 Hn; discriminate.
    - simpl in H.
      destruct (w_out V (call_action V sh maxl a [s; loc; toks])) as [[|v]|x|] eqn:E; simpl in H.
      + apply IH in H. destruct H as (rs & H1 & H2 & H3). exists (RNone :: rs). simpl. repeat split; auto.
        intros [|i] a0 Hn; simpl in *.
        * inversion Hn; subst. exists RNone. split; auto.
        * apply H3 in Hn. exact Hn.
      + apply IH in H. destruct H as (rs & H1 & H2 & H3). exists (RVal v :: rs). simpl. repeat split; auto.
        intros [|i] a0 Hn; simpl in *.
        * inversion Hn; subst. exists (RVal v). split; auto.
        * apply H3 in Hn. exact Hn.
      + destruct x; simpl in H; discriminate.
      + discriminate.
  Qed.

  Theorem action_loop_all_none : forall sh conv maxl acts s loc toks,
    Forall (fun a => w_out V (call_action V sh maxl a [s; loc; toks]) = WReturn RNone) acts ->
    l_out V (action_loop sh conv maxl acts s loc toks) = LOk toks /\
    length (l_trace V (action_loop sh conv maxl acts s loc toks)) = length acts.
  Proof.
    intros sh conv maxl. induction acts as [|a rest IH]; intros s loc toks HF; simpl; auto.
    inversion HF; subst. rewrite H1. simpl. destruct (IH s loc toks H2). split; auto.
  Qed.

  (* the loop over pre ++ rest, when the actions of pre all return *)
  Lemma action_loop_app : forall sh conv maxl pre rest s loc toks t,
    l_out V (action_loop sh conv maxl pre s loc toks) = LOk t ->
    l_out V (action_loop sh conv maxl (pre ++ rest) s loc toks) = l_out V (action_loop sh conv maxl rest s loc t) /\
    l_trace V (action_loop sh conv maxl (pre ++ rest) s loc toks) =
      l_trace V (action_loop sh conv maxl pre s loc toks) ++ l_trace V (action_loop sh conv maxl rest s loc t) /\
    l_actions V (action_loop sh conv maxl (pre ++ rest) s loc toks) =
      l_actions V (action_loop sh conv maxl pre s loc toks) ++ l_actions V (action_loop sh conv maxl rest s loc t) /\
    length (l_trace V (action_loop sh conv maxl pre s loc toks)) = length pre /\
    length (l_actions V (action_loop sh conv maxl pre s loc toks)) = length pre.
  Proof.
    intros sh conv maxl. induction pre as [|a pre IH]; intros rest s loc toks t H.
    - simpl in H. inversion H; subst. simpl. auto.
    - simpl in H. simpl app. simpl.
      destruct (w_out V (call_action V sh maxl a [s; loc; toks])) as [[|v]|x|] eqn:E; simpl in H |- *.
      + destruct (IH rest s loc toks t H) as (A & B & C & D & F). rewrite A, B, C. simpl. rewrite D, F. auto.
      + destruct (IH rest s loc _ t H) as (A & B & C & D & F). rewrite A, B, C. simpl. rewrite D, F. auto.
      + destruct x; simpl in H; discriminate.
      + discriminate.
  Qed.

  (* what the action loop makes of an exception that left an action *)
  Definition loop_conv (conv : bool) (x : raised) : raised :=
    match x with
    | Raw e => match e_kind e with KIndexError => if conv then ParseExcFrom e else Raw e | _ => Raw e end
    | _ => x
    end.

  Lemma action_loop_head_raise : forall sh conv maxl a rest s loc toks x,
    w_out V (call_action V sh maxl a [s; loc; toks]) = WRaise x ->
    l_out V (action_loop sh conv maxl (a :: rest) s loc toks) = LRaise (loop_conv conv x) /\
    length (l_trace V (action_loop sh conv maxl (a :: rest) s loc toks)) = 1 /\
    tl (l_actions V (action_loop sh conv maxl (a :: rest) s loc toks)) = rest.
  Proof.
    intros. simpl. rewrite H. destruct x; simpl; auto; try (destruct (e_kind e); simpl; auto; destruct conv; auto).
  Qed.

  (* an exception in the i-th action ends the loop: the actions after it are neither called nor touched *)
  Theorem action_loop_raise : forall sh conv maxl pre a post s loc toks t x,
    l_out V (action_loop sh conv maxl pre s loc toks) = LOk t ->
    w_out V (call_action V sh maxl a [s; loc; t]) = WRaise x ->
    let lr := action_loop sh conv maxl (pre ++ a :: post) s loc toks in
    l_out V lr = LRaise (loop_conv conv x) /\
    length (l_trace V lr) = length pre + 1 /\
    skipn (length pre + 1) (l_actions V lr) = post.
  Proof.
    intros sh conv maxl pre a post s loc toks t x Hp Ha lr. subst lr.
    destruct (action_loop_app sh conv maxl pre (a :: post) s loc toks t Hp) as (A & B & C & D & F).
    destruct (action_loop_head_raise sh conv maxl a post s loc t x Ha) as (G1 & G2 & G3).
    rewrite A, B, C. repeat split.
    - exact G1.
    - rewrite app_length, D, G2. reflexivity.
    - rewrite skipn_app. rewrite F. replace (length pre + 1 - length pre) with 1 by lia.
      rewrite skipn_all2 by lia.
      remember (l_actions V (action_loop sh conv maxl (a :: post) s loc t)) as X. rewrite <- G3.
      destruct X; reflexivity.
  Qed.

  (* ---- one wrapped action on an element: the element's outcome in closed form ---- *)
  Definition element_out (conv : bool) (wraps : bool) (toks : V) (r : body_result V) : loop_out V :=
    match r with
    | BNone => LOk toks
    | BValue v => LOk (if same v toks then toks else mkres v)
    | BRaise e => LRaise (loop_conv conv (translate wraps e))
    end.

  Theorem single_action : forall sh conv maxl acc b st s loc toks l d c,
    reachable V sh acc maxl 3 st -> py_body V b -> best_limit acc maxl 3 = Some l -> d || c = true ->
    l_out V (run_actions sh conv maxl d c [mkAction V false (mkCallable V acc b) st] s loc toks) =
    element_out conv (if found st && sh_fast_path sh then sh_fast_wraps_index sh else sh_loop_wraps_index sh)
                toks (b (skipn l [s; loc; toks])).
  Proof.
    intros sh conv maxl acc b st s loc toks l d c HR Hpy HB Hg.
    rewrite gate_open by assumption. simpl. unfold call_action; simpl.
    assert (HR' : reachable V sh acc maxl (length [s; loc; toks]) st) by exact HR.
    rewrite (wcall_eq_spec V sh acc maxl st [s; loc; toks] b (reachable_inv V _ _ _ _ _ HR') Hpy).
    unfold wcall_spec. unfold best_limit in HB. simpl length. rewrite HB.
    destruct (b (skipn l [s; loc; toks])) as [| v | e]; simpl; auto.
    unfold translate. destruct (e_kind e) eqn:Ek; simpl; rewrite ?Ek; auto.
    destruct (if found st && sh_fast_path sh then sh_fast_wraps_index sh else sh_loop_wraps_index sh); simpl; rewrite ?Ek; auto.
  Qed.

  (* ---- IndexError: wrapped, and unwrapped again by parse_string -- depending on the shape of wrapper ---- *)
  Definition index_always_wrapped (sh : wshape) : bool :=
    sh_loop_wraps_index sh && (negb (sh_fast_path sh) || sh_fast_wraps_index sh || negb (sh_sets_found sh)).

  Lemma found_needs_sets : forall sh acc maxl len st,
    reachable V sh acc maxl len st -> found st = true -> sh_sets_found sh = true.
  Proof.
    induction 1; intros Hf.
    - discriminate.
    - subst len. rewrite (wcall_eq_spec V sh acc maxl st args b (reachable_inv V _ _ _ _ _ H) H1) in Hf.
      unfold wcall_spec in Hf. destruct (find_limit acc (length args) 0 (maxl + 1)); [|discriminate].
      destruct (sh_sets_found sh) eqn:Es; auto.
      destruct (b (skipn n args)); simpl in Hf; rewrite ?Es, ?orb_false_r in Hf; auto.
  Qed.

  Theorem index_error_ok : forall sh, index_always_wrapped sh = true ->
    forall conv maxl acc b st s loc toks l d c e,
      reachable V sh acc maxl 3 st -> py_body V b -> best_limit acc maxl 3 = Some l -> d || c = true ->
      b (skipn l [s; loc; toks]) = BRaise e -> e_kind e = KIndexError ->
      parse_string_out V true
        (l_out V (run_actions sh conv maxl d c [mkAction V false (mkCallable V acc b) st] s loc toks)) = LRaise (Raw e).
  Proof.
    intros sh Hsh conv maxl acc b st s loc toks l d c e HR Hpy HB Hg Hb Hk.
    rewrite (single_action sh conv maxl acc b st s loc toks l d c HR Hpy HB Hg). rewrite Hb. simpl.
    unfold translate. rewrite Hk. unfold index_always_wrapped in Hsh.
    apply andb_prop in Hsh. destruct Hsh as [H1 H2].
    assert (W : (if found st && sh_fast_path sh then sh_fast_wraps_index sh else sh_loop_wraps_index sh) = true).
    { destruct (found st) eqn:Hf; simpl; auto. destruct (sh_fast_path sh) eqn:Hp; simpl in *; auto.
      rewrite (found_needs_sets _ _ _ _ _ HR Hf) in H2. simpl in H2. now rewrite orb_false_r in H2. }
    rewrite W. reflexivity.
  Qed.

  (* otherwise some history makes an IndexError from an action body come out as a ParseException: the element
     just "fails", the caller of parse_string never sees the IndexError.  The witness callable takes any number
     of arguments; it returns None on the first call and raises IndexError (inside its body) on the second. *)
  Theorem index_error_bad : forall sh, index_always_wrapped sh = false ->
    forall s loc toks, exists acc b st e,
      reachable V sh acc 3 3 st /\ py_body V b /\ best_limit acc 3 3 = Some 0 /\
      b [s; loc; toks] = BRaise e /\ e_kind e = KIndexError /\ e_depth e = 1 /\
      parse_string_out V true
        (l_out V (run_actions sh true 3 true false [mkAction V false (mkCallable V acc b) st] s loc toks))
        = LRaise (ParseExcFrom e) /\
      is_parse_failure (ParseExcFrom e) = true.
  Proof.
    intros sh Hsh s loc toks.
    set (acc := fun _ : nat => true). set (e := mkExn KIndexError 1 7).
    set (b := fun _ : list V => @BRaise V e). set (b0 := fun _ : list V => @BNone V).
    assert (Hpy : py_body V b) by (intros a e0 H1 H2; inversion H1; subst; discriminate).
    assert (Hpy0 : py_body V b0) by (intros a e0 H1; discriminate).
    unfold index_always_wrapped in Hsh.
    destruct sh as [fp fw sf lw]; simpl in Hsh.
    destruct lw.
    - (* the loop wraps: the fast path must be raw and reachable *)
      simpl in Hsh. destruct fp; simpl in Hsh; [|discriminate]. destruct fw; simpl in Hsh; [discriminate|].
      destruct sf; simpl in Hsh; [|discriminate].
      exists acc, b, (w_state V (wcall V (Build_wshape true false true true) (mkCallable V acc b0) 3 w_init [s; loc; toks])), e.
      repeat split; auto.
      apply (reach_step V (Build_wshape true false true true) acc 3 3 w_init [s; loc; toks] b0); auto. constructor.
    - exists acc, b, w_init, e. repeat split; auto. constructor.
  Qed.

  Theorem index_error_by_shape : forall sh,
    if index_always_wrapped sh then
      forall conv maxl acc b st s loc toks l d c e,
        reachable V sh acc maxl 3 st -> py_body V b -> best_limit acc maxl 3 = Some l -> d || c = true ->
        b (skipn l [s; loc; toks]) = BRaise e -> e_kind e = KIndexError ->
        parse_string_out V true
          (l_out V (run_actions sh conv maxl d c [mkAction V false (mkCallable V acc b) st] s loc toks)) = LRaise (Raw e)
    else
      forall s loc toks, exists acc b st e,
        reachable V sh acc 3 3 st /\ py_body V b /\ best_limit acc 3 3 = Some 0 /\
        b [s; loc; toks] = BRaise e /\ e_kind e = KIndexError /\ e_depth e = 1 /\
        parse_string_out V true
          (l_out V (run_actions sh true 3 true false [mkAction V false (mkCallable V acc b) st] s loc toks))
          = LRaise (ParseExcFrom e) /\
        is_parse_failure (ParseExcFrom e) = true.
  Proof.
    intros sh. destruct (index_always_wrapped sh) eqn:E.
    - exact (index_error_ok sh E).
    - exact (index_error_bad sh E).
  Qed.

  (* ---- a ParseException raised by an action makes just that element fail; everything else goes through ---- *)
  Theorem parse_exception_fails_element : forall sh conv maxl acc b st s loc toks l d c e o2,
    reachable V sh acc maxl 3 st -> py_body V b -> best_limit acc maxl 3 = Some l -> d || c = true ->
    b (skipn l [s; loc; toks]) = BRaise e ->
    let o := l_out V (run_actions sh conv maxl d c [mkAction V false (mkCallable V acc b) st] s loc toks) in
    (e_kind e = KParseException -> o = LRaise (Raw e) /\ first_of V o o2 = o2) /\
    (e_kind e <> KParseException -> e_kind e <> KIndexError -> o = LRaise (Raw e) /\ first_of V o o2 = o).
  Proof.
    intros sh conv maxl acc b st s loc toks l d c e o2 HR Hpy HB Hg Hb o. subst o.
    rewrite (single_action sh conv maxl acc b st s loc toks l d c HR Hpy HB Hg). rewrite Hb. simpl.
    unfold translate. split.
    - intros Hk. repeat (rewrite Hk; simpl). auto.
    - intros Hk1 Hk2. destruct (e_kind e) eqn:Ek; try congruence; simpl; repeat (rewrite Ek; simpl); auto.
  Qed.

End LoopProofs.

(* ------------------------------------------------------------------------------------------------------ *)
(* call sites and the do_actions flag                                                                       *)
(* ------------------------------------------------------------------------------------------------------ *)
Section SiteProofs.
  Variable defaults : callee -> bool.
  Variables tp cp : argkind.

  Lemma role_eqb_eq : forall a b, role_eqb a b = true <-> a = b.
  Proof. intros a b; split; [destruct a, b; simpl; congruence | intros ->; destruct b; reflexivity]. Qed.

  Theorem trial_sites_silent : forall ss, trial_check defaults tp cp ss = true ->
    forall s, In s ss -> role_of s = RTrial -> forall d, eff_parse defaults tp cp s d = false.
  Proof.
    intros ss H s Hin Hr d. unfold trial_check in H. rewrite forallb_forall in H. specialize (H s Hin).
    unfold is_role in H. rewrite Hr in H. simpl in H. apply andb_prop in H. destruct H as [H1 H2].
    apply negb_true_iff in H1. apply negb_true_iff in H2. destruct d; assumption.
  Qed.

  Theorem forward_sites_forward : forall ss, forward_check defaults tp cp ss = true ->
    forall s, In s ss -> role_of s = RMain \/ role_of s = RLookahead -> forall d, eff_parse defaults tp cp s d = d.
  Proof.
    intros ss H s Hin Hr d. unfold forward_check in H. rewrite forallb_forall in H. specialize (H s Hin).
    unfold is_role in H.
    assert (E : role_eqb (role_of s) RMain || role_eqb (role_of s) RLookahead = true).
    { destruct Hr as [Hr|Hr]; rewrite Hr; reflexivity. }
    rewrite E in H. apply andb_prop in H. destruct H as [H1 H2]. apply negb_true_iff in H2. destruct d; assumption.
  Qed.

  Lemma flag_after_app : forall a b d,
    flag_after defaults tp cp (a ++ b) d = flag_after defaults tp cp b (flag_after defaults tp cp a d).
  Proof. intros. unfold flag_after. now rewrite fold_left_app. Qed.

  (* once the flag is false it stays false through trial, main and lookahead sites, for chains of any length *)
  Lemma flag_stays_false : forall ss, trial_check defaults tp cp ss = true -> forward_check defaults tp cp ss = true ->
    forall chain, (forall s, In s chain -> In s ss /\ (role_of s = RTrial \/ role_of s = RMain \/ role_of s = RLookahead)) ->
    flag_after defaults tp cp chain false = false.
  Proof.
    intros ss HT HF. induction chain as [|s rest IH]; intros H; [reflexivity|].
    unfold flag_after. simpl. fold (flag_after defaults tp cp rest).
    destruct (H s (or_introl eq_refl)) as [Hin Hr].
    assert (E : eff_parse defaults tp cp s false = false).
    { destruct Hr as [Hr|Hr]. - now apply (trial_sites_silent ss HT s Hin Hr). - now apply (forward_sites_forward ss HF s Hin Hr). }
    rewrite E. apply IH. intros s0 H0. apply H. now right.
  Qed.

  (* everything below a trial call runs with do_actions = False, however the chain was entered *)
  Theorem below_trial_silent : forall ss, trial_check defaults tp cp ss = true -> forward_check defaults tp cp ss = true ->
    forall pre t post d,
      In t ss -> role_of t = RTrial ->
      (forall s, In s post -> In s ss /\ (role_of s = RTrial \/ role_of s = RMain \/ role_of s = RLookahead)) ->
      flag_after defaults tp cp (pre ++ t :: post) d = false.
  Proof.
    intros ss HT HF pre t post d Hin Hr Hpost.
    rewrite flag_after_app. unfold flag_after at 1. simpl. fold (flag_after defaults tp cp post).
    rewrite (trial_sites_silent ss HT t Hin Hr). now apply (flag_stays_false ss HT HF).
  Qed.

  Lemma forallb_false_exists : forall (A : Type) (f : A -> bool) l, forallb f l = false -> exists x, In x l /\ f x = false.
  Proof.
    induction l as [|a l IH]; simpl; intros H; [discriminate|].
    destruct (f a) eqn:E.
    - destruct (IH H) as (x & H1 & H2). exists x. auto.
    - exists a. auto.
  Qed.

  Theorem lookbehind_by_table : forall ss,
    if lookbehind_silent defaults tp cp ss
    then forall s, In s ss -> role_of s = RLookbehind -> eff_parse defaults tp cp s false = false
    else exists s, In s ss /\ role_of s = RLookbehind /\ eff_parse defaults tp cp s false = true.
  Proof.
    intros ss. destruct (lookbehind_silent defaults tp cp ss) eqn:E; unfold lookbehind_silent in E.
    - rewrite forallb_forall in E. intros s Hin Hr. specialize (E s Hin). unfold is_role in E. rewrite Hr in E.
      simpl in E. now apply negb_true_iff in E.
    - apply forallb_false_exists in E. destruct E as (s & Hin & H). exists s. split; auto.
      unfold is_role in H. destruct (role_eqb (role_of s) RLookbehind) eqn:R; [|discriminate].
      apply role_eqb_eq in R. split; auto. now apply negb_false_iff in H.
  Qed.

End SiteProofs.
