(* C01, facts used by Proofs/PegEquiv.v for Or ('^') and Combine:
   - the stable descending sort of Or.parseImpl's `matches` keeps, at its head, the leftmost alternative of greatest end;
   - a content of `flat_class` (Model/Peg.v) yields, in the reference reading, scalar tokens only;
   - on a results object whose tokens are all scalars `_asStringList(sep)` (Model/Results.v `pr_as_string_list`) is the
     `join_strings sep` of the reading applied to the as_list view. *)
From Coq Require Import List ZArith NArith Bool Arith Lia.
From PP Require Import Model.Str Model.Results Model.Prog Model.Core Model.Peg.
Import ListNotations.

(* ------------------------------------------------------------------------------------------- *)
(* Or: `matches.sort(key=itemgetter(0), reverse=True)`                                          *)
(* ------------------------------------------------------------------------------------------- *)
Lemma sort_desc_snoc {X} (key : X -> Z) (l : list X) (x : X) :
  sort_desc key (l ++ [x]) = insert_desc key x (sort_desc key l).
Proof. unfold sort_desc. rewrite fold_left_app. reflexivity. Qed.

Lemma ltb_nat_Z a b : (Z.of_nat a <? Z.of_nat b)%Z = Nat.ltb a b.
Proof.
  destruct (Nat.ltb a b) eqn:E.
  - apply Nat.ltb_lt in E. apply Z.ltb_lt. lia.
  - apply Nat.ltb_ge in E. apply Z.ltb_ge. lia.
Qed.

(* the head of the sorted list after one more match: the newcomer only when it ends strictly further *)
Lemma sort_desc_head_step (matches : list (nat * expr)) l0 c0 rest l c :
  sort_desc (fun p => Z.of_nat (fst p)) matches = (l0, c0) :: rest ->
  exists rest', sort_desc (fun p => Z.of_nat (fst p)) (matches ++ [(l, c)]) =
                (if Nat.ltb l0 l then (l, c) else (l0, c0)) :: rest'.
Proof.
  intros H. rewrite sort_desc_snoc, H. cbn [insert_desc fst]. rewrite ltb_nat_Z.
  destruct (Nat.ltb l0 l); eexists; reflexivity.
Qed.

(* ------------------------------------------------------------------------------------------- *)
(* Combine: scalar tokens                                                                       *)
(* ------------------------------------------------------------------------------------------- *)
Definition scalars (ts : list tok) : Prop := forallb scalar_tok ts = true.

Lemma scalars_app a b : scalars a -> scalars b -> scalars (a ++ b).
Proof. unfold scalars. intros Ha Hb. rewrite forallb_app, Ha, Hb. reflexivity. Qed.

Ltac brk_ :=
  repeat match goal with
         | |- context [match ?x with _ => _ end] => destruct x eqn:?
         | |- context [if ?x then _ else _] => destruct x eqn:?
         end.

Lemma tok_impl_scalars a t s l l' r : tok_impl a t s l = IOk l' r -> scalars (raw_tokens r).
Proof.
  destruct t; unfold tok_impl, pexc, pexc_sfx; cbv zeta; brk_; intros H; try discriminate H;
    injection H as _ <-; reflexivity.
Qed.

Section Flat.
Variable G : env.
Variable s : str.

Section Level.
Variable rec : expr -> nat -> res.
Definition flat_rec (es : list expr) : Prop :=
  forall e, In e es -> flat_class e = true -> forall loc l ts, rec e loc = POk l ts -> scalars ts.

Lemma flat_all_in es e :
  (fix all (l : list expr) : bool := match l with [] => true | x :: r => flat_class x && all r end) es = true ->
  In e es -> flat_class e = true.
Proof.
  induction es as [|x es IH]; intros H []; apply andb_prop in H as [H1 H2]; [subst; exact H1|apply IH; assumption].
Qed.

Lemma seq_scalars es : flat_rec es ->
  (fix all (l : list expr) : bool := match l with [] => true | x :: r => flat_class x && all r end) es = true ->
  forall loc acc l ts, scalars acc -> peg_seq rec es loc acc = POk l ts -> scalars ts.
Proof.
  induction es as [|e es IH]; intros Hr Hall loc acc l ts Ha H; cbn [peg_seq] in H.
  - injection H as _ <-. exact Ha.
  - apply andb_prop in Hall as [He Hall].
    destruct (rec e loc) as [l1 ts1| | |] eqn:E; try discriminate H.
    apply (IH (fun e' Hin => Hr e' (or_intror Hin)) Hall l1 (acc ++ ts1) l ts); [|exact H].
    apply scalars_app; [exact Ha|]. exact (Hr e (or_introl eq_refl) He loc l1 ts1 E).
Qed.

Lemma first_scalars es : flat_rec es ->
  (fix all (l : list expr) : bool := match l with [] => true | x :: r => flat_class x && all r end) es = true ->
  forall loc l ts, peg_first rec es loc = POk l ts -> scalars ts.
Proof.
  induction es as [|e es IH]; intros Hr Hall loc l ts H; cbn [peg_first] in H; [discriminate H|].
  apply andb_prop in Hall as [He Hall].
  destruct (rec e loc) as [l1 ts1| | |] eqn:E; try discriminate H.
  - injection H as <- <-. exact (Hr e (or_introl eq_refl) He loc l1 ts1 E).
  - exact (IH (fun e' Hin => Hr e' (or_intror Hin)) Hall loc l ts H).
Qed.

Lemma longest_scalars es : flat_rec es ->
  (fix all (l : list expr) : bool := match l with [] => true | x :: r => flat_class x && all r end) es = true ->
  forall loc best l ts, (match best with Some (_, bts) => scalars bts | None => True end) ->
  peg_longest rec es loc best = POk l ts -> scalars ts.
Proof.
  induction es as [|e es IH]; intros Hr Hall loc best l ts Hb H; cbn [peg_longest] in H.
  - destruct best as [[bl bts]|]; [|discriminate H]. injection H as _ <-. exact Hb.
  - apply andb_prop in Hall as [He Hall].
    destruct (rec e loc) as [l1 ts1| | |] eqn:E; try discriminate H.
    + refine (IH (fun e' Hin => Hr e' (or_intror Hin)) Hall loc _ l ts _ H).
      pose proof (Hr e (or_introl eq_refl) He loc l1 ts1 E) as H1.
      destruct best as [[bl bts]|]; [destruct (Nat.ltb bl l1)|]; assumption.
    + exact (IH (fun e' Hin => Hr e' (or_intror Hin)) Hall loc best l ts Hb H).
Qed.

Lemma star_scalars e : flat_rec [e] -> flat_class e = true ->
  forall n loc acc l ts, scalars acc -> peg_star rec n e loc acc = POk l ts -> scalars ts.
Proof.
  intros Hr He. induction n as [|n IH]; intros loc acc l ts Ha H; cbn [peg_star] in H; [discriminate H|].
  destruct (rec e loc) as [l1 ts1| | |] eqn:E; try discriminate H.
  - destruct (Nat.eqb l1 loc); [discriminate H|].
    apply (IH l1 (acc ++ ts1) l ts); [|exact H].
    apply scalars_app; [exact Ha|]. exact (Hr e (or_introl eq_refl) He loc l1 ts1 E).
  - injection H as _ <-. exact Ha.
Qed.

Lemma star_stop_scalars e ne : flat_rec [e] -> flat_class e = true ->
  forall n loc acc l ts, scalars acc -> peg_star_stop rec n e ne loc acc = POk l ts -> scalars ts.
Proof.
  intros Hr He. induction n as [|n IH]; intros loc acc l ts Ha H; cbn [peg_star_stop] in H; [discriminate H|].
  destruct (rec ne loc) as [nl nts| | |]; try discriminate H.
  - destruct (rec e loc) as [l1 ts1| | |] eqn:E; try discriminate H.
    + destruct (Nat.eqb l1 loc); [discriminate H|].
      apply (IH l1 (acc ++ ts1) l ts); [|exact H].
      apply scalars_app; [exact Ha|]. exact (Hr e (or_introl eq_refl) He loc l1 ts1 E).
    + injection H as _ <-. exact Ha.
  - injection H as _ <-. exact Ha.
Qed.
End Level.

(* the reading of a flat content yields scalar tokens only *)
Theorem flat_scalars : forall f e, flat_class e = true -> forall loc l ts, peg G s f e loc = POk l ts -> scalars ts.
Proof.
  induction f as [|f IH]; intros e He loc0 l ts H; [discriminate H|].
  assert (Hrec : forall es, flat_rec (peg G s f) es) by (intros es e' _ He' loc' l' ts' H'; exact (IH e' He' loc' l' ts' H')).
  cbn [peg] in H. set (loc := eff s e loc0) in *.
  destruct e as [a i t|a i k es|a i k c|a i z b ne|a i c inc ig fo|a i id]; cbn [flat_class] in He; try discriminate He.
  - (* tokens *)
    cbn [attrs_of] in H. destruct (tok_impl a t s loc) as [l1 r1|x|] eqn:E; try discriminate H.
    injection H as _ <-. exact (tok_impl_scalars _ _ _ _ _ _ E).
  - destruct k; try discriminate He.
    + exact (seq_scalars _ es (Hrec es) He loc [] l ts eq_refl H).
    + exact (first_scalars _ es (Hrec es) He loc l ts H).
    + exact (longest_scalars _ es (Hrec es) He _ None l ts I H).
  - destruct k; try discriminate He.
    + (* EPass *) exact (IH c He loc l ts H).
    + (* ESuppress *) destruct (peg G s f c loc); try discriminate H. injection H as _ <-. reflexivity.
    + (* ECombine *) destruct (peg G s f c loc); try discriminate H. injection H as _ <-. reflexivity.
    + (* EOpt *)
      destruct default as [v|].
      * apply andb_prop in He as [Hv He].
        destruct (peg G s f c loc) as [l1 ts1| | |] eqn:E; try discriminate H.
        -- injection H as <- <-. exact (IH c He loc l1 ts1 E).
        -- injection H as _ <-. unfold scalars. cbn [forallb]. destruct v; try discriminate Hv; reflexivity.
      * destruct (peg G s f c loc) as [l1 ts1| | |] eqn:E; try discriminate H.
        -- injection H as <- <-. exact (IH c He loc l1 ts1 E).
        -- injection H as _ <-. reflexivity.
    + (* ENot *) destruct (peg G s f c loc); try discriminate H. injection H as _ <-. reflexivity.
    + (* EFollowedBy *) destruct (peg G s f c loc); try discriminate H. injection H as _ <-. reflexivity.
    + (* ELookahead *) destruct (peg G s f c loc); try discriminate H. injection H as _ <-. reflexivity.
  - (* repetition *)
    destruct ne as [ne|].
    + (* with stop_on *)
      destruct (peg G s f ne loc) as [nl nts| | |]; try discriminate H.
      * destruct (peg G s f b loc) as [l1 ts1| | |] eqn:E; try discriminate H.
        -- refine (star_stop_scalars _ b ne (Hrec [b]) He _ l1 ts1 l ts _ H). exact (IH b He loc l1 ts1 E).
        -- destruct z; [|discriminate H]. injection H as _ <-. reflexivity.
      * destruct z; [|discriminate H]. injection H as _ <-. reflexivity.
    + destruct (peg G s f b loc) as [l1 ts1| | |] eqn:E; try discriminate H.
      * refine (star_scalars _ b (Hrec [b]) He _ l1 ts1 l ts _ H). exact (IH b He loc l1 ts1 E).
      * destruct z; [|discriminate H]. injection H as _ <-. reflexivity.
Qed.
End Flat.

(* ------------------------------------------------------------------------------------------- *)
(* Combine: `_asStringList` on scalar tokens is the join of the reading                          *)
(* ------------------------------------------------------------------------------------------- *)
Lemma scalar_as_list t : scalar_tok (tok_as_list t) = true -> tok_as_list t = t /\ leaf_strings t = tok_strings t.
Proof. destruct t; simpl; intros H; try discriminate H; split; reflexivity. Qed.

Lemma as_string_list_scalars sep : forall (l : list tok) (ne : bool),
  scalars (map tok_as_list l) ->
  (fix go (l : list tok) (out_nonempty : bool) : list str :=
     match l with
     | [] => []
     | t :: rest =>
       let pre := if out_nonempty then match sep with [] => [] | _ => [sep] end else [] in
       let body := tok_strings t in
       pre ++ body ++ go rest (out_nonempty || negb (match pre ++ body with [] => true | _ => false end))
     end) l ne = join_strings_go sep (map tok_as_list l) ne.
Proof.
  induction l as [|t l IH]; intros ne H; [reflexivity|].
  unfold scalars in H. cbn [map forallb] in H. apply andb_prop in H as [Ht Hl].
  destruct (scalar_as_list t Ht) as [E1 E2].
  cbn [map join_strings_go]. cbv zeta. rewrite E1, E2. rewrite IH by exact Hl. reflexivity.
Qed.

Lemma combine_join sep (p : pres) : scalars (pr_as_list p) ->
  pr_as_string_list sep p = join_strings sep (pr_as_list p).
Proof. intros H. unfold pr_as_string_list, join_strings, pr_as_list. apply as_string_list_scalars. exact H. Qed.
