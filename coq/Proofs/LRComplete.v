(* C03, the converse (completeness) direction of Proofs/LRProofs.v.

   LRProofs.v shows: a flag-free run of the instrumented left-recursion handler `parse_lr_t` answers what the plain
   parser answers.  Here: whenever the PLAIN parser answers within fuel f, the left-recursion handler, run with the SAME
   fuel (or more) from any memo satisfying the invariant, ANSWERS too -- up to the first flag it raises.

   Why "up to the first flag": once one of the six mechanisms of Model/LRT.v has fired, the left-recursion run has left
   the path of the plain run (it holds a different outcome), and nothing the plain parser did says anything about the
   calls it makes from there on.  So the statement is about `parse_lr_x`, the handler of Model/LRT.v made to STOP at the
   first sub-run that comes back with a flag (definition below, Part X; it re-uses `super_impl_t`, `peek_error_flag` and
   the memo operations of Model/LR.v unchanged).  `parse_lr_x` and `parse_lr_t` are tied in both directions:
     x_clean_t   a clean answer of `parse_lr_x` IS the answer of `parse_lr_t` (same fuel, same memo, flags fl0);
     t_clean_x   if `parse_lr_t` answers cleanly (any fuel) then a terminating `parse_lr_x` run answers the same, cleanly:
                 a flag reported by `parse_lr_x` is never spurious.

   Part X  the stopping handler.
   Part R  x versus t.
   Part K  frame: a location/Forward pair whose two keys are in the active table keeps them through any run; hence the
           `memo[act_key]` lookup of the do_actions=True exit never raises KeyError (`key_error` is never raised).
   Part C  completeness: induction on the plain parser's fuel. *)
From Coq Require Import List ZArith NArith Bool Arith Lia.
From PP Require Import Model.Str Model.Results Model.Prog Model.Core Model.Entry Model.LR Model.LRT.
From PP Require Import Proofs.Packrat Proofs.EqDec Proofs.LRProofs.
Import ListNotations.

(* ------------------------------------------------------------------------------------------- *)
(* Part X: the handler that stops at the first flag                                             *)
(* ------------------------------------------------------------------------------------------- *)
(* continue only while no flag has been raised; otherwise hand the flags up (the outcome is then irrelevant: Div) *)
Definition bindx (r : res_t) (k : outcome -> memo -> res_t) : res_t :=
  match r with
  | None => None
  | Some (o, m, f) => if fl_clean f then k o m else Some (Div, m, f)
  end.

(* the exit of the growth loop (`if new_loc <= prev_loc:` ...), verbatim from LRT.lr_loop_t *)
Definition lr_exit (a : attrs) (loc : nat) (d : bool) (prev_loc : Z) (prev_peek : mres) (m1 : memo) : res_t :=
  let fid := nid a in
  let act_key := (loc, fid, true) in
  let peek_key := (loc, fid, false) in
  if d then
    match memo_get m1 act_key with
    | None => Some (Err (mkx XKey 0%Z MEmpty None), m1, Build_flags false false false false false true)
    | Some ((pl, pr), m2) =>
      let m3 := memo_set m2 peek_key (pl, pr) in
      let m4 := memo_del (memo_del m3 peek_key) act_key in
      let sd := is_seed act_key (pl, pr) in
      let fl := Build_flags sd false false (negb sd && negb (mval_same (pl, pr) (prev_loc, prev_peek))) false false in
      match pr with
      | MOk r => Some (Ok (Z.to_nat pl) r, m4, fl)
      | MExc x => Some (Err x, m4, fl)
      end
    end
  else
    let m2 := memo_del m1 peek_key in
    let fl := Build_flags false (is_seed peek_key (prev_loc, prev_peek)) false false false false in
    match prev_peek with
    | MOk r => Some (Ok (Z.to_nat prev_loc) r, m2, fl)
    | MExc x => Some (Err x, m2, fl)
    end.

Definition fl_tainted : flags := Build_flags false false true false false false.

(* the F-03e observation of LRT.peek_error_flag; the only difference: when the side evaluation runs out of fuel this
   handler is out of fuel too (LRT raises the flag), which makes `parse_lr_x` monotone in its fuel *)
Definition pef_x (rec : memo -> args -> res_t) (a : attrs) (body : expr) (s : str) (loc : nat) (m : memo) (o1 : outcome)
  : option flags :=
  match super_impl_t rec a body s loc true m with
  | Some (og, _, fg) => Some (Build_flags false false false false (negb (fl_clean fg && same_fail o1 og)) false)
  | None => None
  end.

Section LRX.
Variable G : env.

Fixpoint runm_x (rec : memo -> args -> res_t) (m : memo) (p : prg) : res_t :=
  match p with
  | Ret o => Some (o, m, fl0)
  | Call a k => bindx (rec m a) (fun o m' => runm_x rec m' (k o))
  end.

Fixpoint lr_loop_x (rec : memo -> args -> res_t) (fuel : nat) (a : attrs) (body : expr) (s : str) (loc : nat) (d : bool)
         (prev_loc : Z) (prev_peek : mres) (m : memo) : res_t :=
  let fid := nid a in
  let act_key := (loc, fid, true) in
  let peek_key := (loc, fid, false) in
  match fuel with
  | 0 => Some (Div, m, fl0)
  | S f =>
    bindx (super_impl_t rec a body s loc false m) (fun o m1 =>
      let cont (new_loc : Z) (new_peek : mres) (m1 : memo) : res_t :=
        if (new_loc <=? prev_loc)%Z then lr_exit a loc d prev_loc prev_peek m1
        else
          if d then
            bindx (super_impl_t rec a body s loc true m1) (fun o2 m2 =>
              match o2 with
              | Ok l r =>
                let m3 := memo_set m2 act_key (Z.of_nat l, MOk r) in
                lr_loop_x rec f a body s loc d new_loc new_peek (memo_set m3 peek_key (new_loc, new_peek))
              | Err x =>
                if is_pe (xk x) then
                  let m3 := memo_set m2 act_key (new_loc, MExc x) in
                  Some (Err x, memo_set m3 peek_key (new_loc, MExc x), fl_tainted)
                else Some (Err x, m2, fl0)
              | Div => Some (Div, m2, fl0)
              end)
          else lr_loop_x rec f a body s loc d new_loc new_peek (memo_set m1 peek_key (new_loc, new_peek)) in
      let fin (x1 : outcome) (m1 : memo) : res_t :=
        if d then match pef_x rec a body s loc m1 o with None => None | Some fl => Some (x1, m1, fl) end
        else Some (x1, m1, fl0) in
      match o with
      | Ok l r => cont (Z.of_nat l) (MOk r) m1
      | Err x =>
        if is_pe (xk x) then
          match prev_peek with
          | MExc _ => fin (Err x) m1
          | MOk _ => cont prev_loc prev_peek m1
          end
        else fin (Err x) m1
      | Div => fin Div m1
      end)
  end.

Definition lr_forward_x (rec : memo -> args -> res_t) (a : attrs) (body : expr) (s : str) (loc : nat) (d : bool)
           (m : memo) : res_t :=
  let fid := nid a in
  match memo_get m (loc, fid, d) with
  | Some ((pl, MOk r), m1) => Some (Ok (Z.to_nat pl) r, m1, fl0)
  | Some ((pl, MExc x), m1) =>
    Some (Err x, m1, Build_flags (is_seed (loc, fid, d) (pl, MExc x)) false false false false false)
  | None =>
    let seed := MExc (mkx XParse (Z.of_nat loc) MFwdNoBase (Some fid)) in
    let pl := (Z.of_nat loc - 1)%Z in
    let m1 := memo_set m (loc, fid, false) (pl, seed) in
    let m2 := if d then memo_set m1 (loc, fid, true) (pl, seed) else m1 in
    lr_loop_x rec (length s + 3) a body s loc d pl seed m2
  end.

Fixpoint parse_lr_x (fuel : nat) (m : memo) (ar : args) : res_t :=
  match fuel with
  | 0 => None
  | S f =>
    match a_e ar with
    | Fwd a ign (Some id) =>
      match nth_error G id with
      | None => runm_x (parse_lr_x f) m (step G ar)
      | Some body =>
        let e := a_e ar in let s := a_s ar in let d := a_do ar in
        let pre := if a_pre ar && callpre a
                   then pre_parse escape e s (a_loc ar) (fun l => Ret (Ok l pr_empty))
                   else Ret (Ok (a_loc ar) pr_empty) in
        bindx (runm_x (parse_lr_x f) m pre) (fun opre m1 =>
          match opre with
          | Ok pre_loc _ =>
            bindx (lr_forward_x (parse_lr_x f) a body s pre_loc d m1) (fun o m2 =>
              match o with
              | Ok l r => runm_x (parse_lr_x f) m2 (step_k e s d pre_loc (inr (l, RPR r)))
              | Err x => runm_x (parse_lr_x f) m2 (step_k e s d pre_loc (inl (if is_index (xk x) then IIndexError else IExc x)))
              | Div => Some (Div, m2, fl0)
              end)
          | o => Some (o, m1, fl0)
          end)
      end
    | _ => runm_x (parse_lr_x f) m (step G ar)
    end
  end.
End LRX.

(* ------------------------------------------------------------------------------------------- *)
(* small facts                                                                                  *)
(* ------------------------------------------------------------------------------------------- *)
Lemma fl_or_0_l g : fl_or fl0 g = g.
Proof. destruct g; reflexivity. Qed.

Lemma with_fl_0_l r : with_fl fl0 r = r.
Proof. destruct r as [[[o m] g]|]; cbn [with_fl]; [rewrite fl_or_0_l|]; reflexivity. Qed.

Lemma fl_clean_fl0 : fl_clean fl0 = true.
Proof. reflexivity. Qed.

Lemma fl_clean_or f g : fl_clean (fl_or f g) = fl_clean f && fl_clean g.
Proof. destruct f as [[] [] [] [] [] []], g as [[] [] [] [] [] []]; reflexivity. Qed.

(* a result that is clean carries fl0 *)
Lemma clean_eq o m f : fl_clean f = true -> Some (o, m, f) = Some (o, m, fl0) :> res_t.
Proof. intros H. apply fl_clean_0 in H. subst. reflexivity. Qed.

Lemma bindx_clean r k o m : bindx r k = Some (o, m, fl0) ->
  exists o1 m1, r = Some (o1, m1, fl0) /\ k o1 m1 = Some (o, m, fl0).
Proof.
  destruct r as [[[o1 m1] f1]|]; cbn [bindx]; [|discriminate].
  destruct (fl_clean f1) eqn:E.
  - apply fl_clean_0 in E. subst f1. intros H. exists o1, m1. split; [reflexivity|exact H].
  - intros H. injection H as _ _ ->. discriminate.
Qed.

(* ------------------------------------------------------------------------------------------- *)
(* Part R: x versus t.  R1: a clean answer of the stopping handler is the answer of Model/LRT.v  *)
(* ------------------------------------------------------------------------------------------- *)
Section XT.
Variable G : env.
Variable recx rect : memo -> args -> res_t.
Hypothesis Hxt : forall m a o m', recx m a = Some (o, m', fl0) -> rect m a = Some (o, m', fl0).

Lemma runm_xt p : forall m o m', runm_x recx m p = Some (o, m', fl0) -> runm_t rect m p = Some (o, m', fl0).
Proof.
  induction p as [o0|a k IH]; intros m o m' H; cbn [runm_x runm_t] in *; [exact H|].
  apply bindx_clean in H as (o1 & m1 & H1 & H2). rewrite (Hxt _ _ _ _ H1). rewrite with_fl_0_l. apply IH. exact H2.
Qed.

Lemma super_xt a body s loc d m o m' :
  super_impl_t recx a body s loc d m = Some (o, m', fl0) -> super_impl_t rect a body s loc d m = Some (o, m', fl0).
Proof.
  unfold super_impl_t. destruct (recx m (mkargs body s loc d false)) as [[[[l r|x|] m1] f1]|] eqn:E; intros H;
    try discriminate; injection H as <- <- ->; rewrite (Hxt _ _ _ _ E); reflexivity.
Qed.

Lemma pef_xt a body s loc m o1 :
  pef_x recx a body s loc m o1 = Some fl0 -> peek_error_flag rect a body s loc m o1 = fl0.
Proof.
  unfold pef_x, peek_error_flag.
  destruct (super_impl_t recx a body s loc true m) as [[[og mg] fg]|] eqn:E; [|discriminate].
  destruct (fl_clean fg && same_fail o1 og) eqn:Ec; [|discriminate].
  intros _. apply andb_prop in Ec as [E1 E2]. apply fl_clean_0 in E1. subst fg.
  rewrite (super_xt _ _ _ _ _ _ _ _ E). rewrite E2. reflexivity.
Qed.

Lemma lr_loop_xt a body s loc d : forall fuel prev_loc prev_peek m o m',
  lr_loop_x recx fuel a body s loc d prev_loc prev_peek m = Some (o, m', fl0) ->
  lr_loop_t rect fuel a body s loc d prev_loc prev_peek m = Some (o, m', fl0).
Proof.
  induction fuel as [|f IH]; intros prev_loc prev_peek m o m' H; [exact H|].
  cbn [lr_loop_x lr_loop_t] in *.
  apply bindx_clean in H as (o1 & m1 & H1 & H2). rewrite (super_xt _ _ _ _ _ _ _ _ H1). rewrite with_fl_0_l.
  assert (Hpe : forall (x1 : outcome),
    (if d then match pef_x recx a body s loc m1 o1 with None => None | Some fl => Some (x1, m1, fl) end
     else Some (x1, m1, fl0)) = Some (o, m', fl0) ->
    Some (x1, m1, if d then peek_error_flag rect a body s loc m1 o1 else fl0) = Some (o, m', fl0)).
  { intros x1 Hx. destruct d; [|exact Hx].
    destruct (pef_x recx a body s loc m1 o1) as [fl|] eqn:Ef; [|discriminate].
    injection Hx as <- <- ->. rewrite (pef_xt _ _ _ _ _ _ Ef). reflexivity. }
  assert (Hcont : forall new_loc new_peek,
    (if (new_loc <=? prev_loc)%Z then lr_exit a loc d prev_loc prev_peek m1
     else if d then
       bindx (super_impl_t recx a body s loc true m1) (fun o2 m2 =>
         match o2 with
         | Ok l r => lr_loop_x recx f a body s loc d new_loc new_peek
                       (memo_set (memo_set m2 (loc, nid a, true) (Z.of_nat l, MOk r)) (loc, nid a, false) (new_loc, new_peek))
         | Err x => if is_pe (xk x)
                    then Some (Err x, memo_set (memo_set m2 (loc, nid a, true) (new_loc, MExc x)) (loc, nid a, false) (new_loc, MExc x), fl_tainted)
                    else Some (Err x, m2, fl0)
         | Div => Some (Div, m2, fl0)
         end)
     else lr_loop_x recx f a body s loc d new_loc new_peek (memo_set m1 (loc, nid a, false) (new_loc, new_peek)))
      = Some (o, m', fl0) ->
    (if (new_loc <=? prev_loc)%Z then lr_exit a loc d prev_loc prev_peek m1
     else if d then
       match super_impl_t rect a body s loc true m1 with
       | None => None
       | Some (Ok l r, m2, f2) =>
         with_fl f2 (lr_loop_t rect f a body s loc d new_loc new_peek
                       (memo_set (memo_set m2 (loc, nid a, true) (Z.of_nat l, MOk r)) (loc, nid a, false) (new_loc, new_peek)))
       | Some (Err x, m2, f2) =>
         if is_pe (xk x)
         then Some (Err x, memo_set (memo_set m2 (loc, nid a, true) (new_loc, MExc x)) (loc, nid a, false) (new_loc, MExc x),
                    fl_or f2 (Build_flags false false true false false false))
         else Some (Err x, m2, f2)
       | Some (Div, m2, f2) => Some (Div, m2, f2)
       end
     else lr_loop_t rect f a body s loc d new_loc new_peek (memo_set m1 (loc, nid a, false) (new_loc, new_peek)))
      = Some (o, m', fl0)).
  { intros new_loc new_peek Hc. destruct (new_loc <=? prev_loc)%Z; [exact Hc|]. destruct d; [|apply IH; exact Hc].
    apply bindx_clean in Hc as (o2 & m2 & H3 & H4). rewrite (super_xt _ _ _ _ _ _ _ _ H3).
    destruct o2 as [l r|x|]; [rewrite with_fl_0_l; apply IH; exact H4| |exact H4].
    destruct (is_pe (xk x)); [discriminate H4|exact H4]. }
  destruct o1 as [l r|x|].
  - apply Hcont. exact H2.
  - destruct (is_pe (xk x)); [|apply Hpe; exact H2].
    destruct prev_peek as [r0|x0]; [apply Hcont; exact H2|apply Hpe; exact H2].
  - apply Hpe. exact H2.
Qed.

Lemma lr_forward_xt a body s loc d m o m' :
  lr_forward_x recx a body s loc d m = Some (o, m', fl0) -> lr_forward_t rect a body s loc d m = Some (o, m', fl0).
Proof.
  unfold lr_forward_x, lr_forward_t. destruct (memo_get m (loc, nid a, d)) as [[[pl [r|x]] m1]|]; intros H; try exact H.
  apply lr_loop_xt. exact H.
Qed.
End XT.

Theorem x_clean_t (G : env) : forall fuel m ar o m',
  parse_lr_x G fuel m ar = Some (o, m', fl0) -> parse_lr_t G fuel m ar = Some (o, m', fl0).
Proof.
  induction fuel as [|f IH]; intros m ar o m' H; [discriminate|].
  cbn [parse_lr_x parse_lr_t] in *.
  pose proof (runm_xt (parse_lr_x G f) (parse_lr_t G f) IH) as Hrun.
  destruct (a_e ar) as [a i t|a i kd es|a i kd c|a i z body ne|a i target incl ig2 fo|a i [id|]]; try (apply Hrun; exact H).
  destruct (nth_error G id) as [body|]; [|apply Hrun; exact H].
  apply bindx_clean in H as (o1 & m1 & H1 & H2). rewrite (Hrun _ _ _ _ H1).
  destruct o1 as [pl r0|x0|]; try exact H2.
  rewrite with_fl_0_l. apply bindx_clean in H2 as (o2 & m2 & H3 & H4).
  rewrite (lr_forward_xt (parse_lr_x G f) (parse_lr_t G f) IH _ _ _ _ _ _ _ _ H3).
  destruct o2 as [l r|x|]; [rewrite with_fl_0_l; apply Hrun; exact H4|rewrite with_fl_0_l; apply Hrun; exact H4|exact H4].
Qed.

(* ------------------------------------------------------------------------------------------- *)
(* Part K: frame.  A (location, Forward) pair whose two keys are in the ACTIVE table keeps them     *)
(* through any run of the handler: a lookup of either key hits (no loop, no deletion), and every   *)
(* other Forward only sets / deletes its own keys.  Unconditional (any grammar, memo, fuel).       *)
(* ------------------------------------------------------------------------------------------- *)
Definition has (m : memo) (k : mkey) : Prop := assoc (m_active m) k <> None.
Definition keep (loc fid : nat) (m : memo) : Prop := has m (loc, fid, true) /\ has m (loc, fid, false).

Lemma mkey_eqb_refl k : mkey_eqb k k = true.
Proof. destruct k as [[l f] d]. cbn. rewrite !Nat.eqb_refl, eqb_reflx. reflexivity. Qed.

Lemma assoc_aset_keep {V} (d : list (mkey * V)) k v k0 : assoc d k0 <> None -> assoc (aset d k v) k0 <> None.
Proof.
  induction d as [|[k' v'] d IH]; cbn; [congruence|].
  destruct (mkey_eqb k' k) eqn:E; cbn; destruct (mkey_eqb k' k0) eqn:E0; try congruence. exact IH.
Qed.

Lemma assoc_aset_same {V} (d : list (mkey * V)) k v : assoc (aset d k v) k <> None.
Proof.
  induction d as [|[k' v'] d IH]; cbn; [rewrite mkey_eqb_refl; congruence|].
  destruct (mkey_eqb k' k) eqn:E; cbn; rewrite E; [congruence|exact IH].
Qed.

Lemma assoc_aremove_other {V} (d : list (mkey * V)) k k0 : k <> k0 -> assoc d k0 <> None -> assoc (aremove d k) k0 <> None.
Proof.
  intros Hne. induction d as [|[k' v'] d IH]; cbn; [congruence|].
  destruct (mkey_eqb k' k) eqn:E; cbn; destruct (mkey_eqb k' k0) eqn:E0; try congruence.
  - exfalso. apply Hne. rewrite <- (mkey_eqb_eq _ _ E). exact (mkey_eqb_eq _ _ E0).
  - exact IH.
Qed.

Lemma has_set m k v k0 : has m k0 -> has (memo_set m k v) k0.
Proof. unfold has, memo_set. destruct (m_cap m); cbn; apply assoc_aset_keep. Qed.

Lemma has_set_same m k v : has (memo_set m k v) k.
Proof. unfold has, memo_set. destruct (m_cap m); cbn; apply assoc_aset_same. Qed.

Lemma has_del m k k0 : k <> k0 -> has m k0 -> has (memo_del m k) k0.
Proof.
  unfold has, memo_del. intros Hne H. destruct (m_cap m); [|exact H].
  destruct (assoc (m_active m) k); [|exact H]. cbn. apply assoc_aremove_other; assumption.
Qed.

Lemma get_active m k v m' : memo_get m k = Some (v, m') -> m_active m' = m_active m.
Proof.
  unfold memo_get. destruct (m_cap m).
  - destruct (assoc (m_active m) k); [intros [= _ <-]; reflexivity|].
    destruct (assoc (m_memory m) k); [intros [= _ <-]; reflexivity|discriminate].
  - destruct (assoc (m_active m) k); [intros [= _ <-]; reflexivity|discriminate].
Qed.

Lemma has_get m k v m' k0 : memo_get m k = Some (v, m') -> has m k0 -> has m' k0.
Proof. unfold has. intros H. rewrite (get_active _ _ _ _ H). exact (fun x => x). Qed.

Lemma has_get_some m k : has m k -> exists v, memo_get m k = Some (v, m).
Proof.
  unfold has, memo_get. intros H. destruct (assoc (m_active m) k) as [v|]; [|congruence].
  exists v. destruct (m_cap m); reflexivity.
Qed.

Lemma keep_set loc0 fid0 m k v : keep loc0 fid0 m -> keep loc0 fid0 (memo_set m k v).
Proof. intros [H1 H2]. split; apply has_set; assumption. Qed.

Lemma keep_set2 loc fid m v w : keep loc fid (memo_set (memo_set m (loc, fid, true) v) (loc, fid, false) w).
Proof. split; [apply has_set; apply has_set_same|apply has_set_same]. Qed.

Lemma keep_set2' loc fid m v w : keep loc fid (memo_set (memo_set m (loc, fid, false) v) (loc, fid, true) w).
Proof. split; [apply has_set_same|apply has_set; apply has_set_same]. Qed.

Lemma keep_del loc0 fid0 m loc fid d : (loc, fid) <> (loc0, fid0) -> keep loc0 fid0 m -> keep loc0 fid0 (memo_del m (loc, fid, d)).
Proof. intros Hne [H1 H2]. split; (apply has_del; [intros E; apply Hne; congruence|assumption]). Qed.

Lemma keep_get loc0 fid0 m k v m' : memo_get m k = Some (v, m') -> keep loc0 fid0 m -> keep loc0 fid0 m'.
Proof. intros H [H1 H2]. split; eapply has_get; eassumption. Qed.

Lemma key_error_or f g : key_error (fl_or f g) = key_error f || key_error g.
Proof. reflexivity. Qed.

Lemma with_fl_inv f r o m fl : with_fl f r = Some (o, m, fl) -> exists g, r = Some (o, m, g) /\ fl = fl_or f g.
Proof. destruct r as [[[o1 m1] g]|]; cbn [with_fl]; [|discriminate]. intros [= <- <- <-]. exists g. split; reflexivity. Qed.

Section Frame.
Variable G : env.
Variable rect : memo -> args -> res_t.
Hypothesis Hk : forall loc0 fid0 m a o m' fl, rect m a = Some (o, m', fl) -> keep loc0 fid0 m -> keep loc0 fid0 m'.
Hypothesis He : forall m a o m' fl, rect m a = Some (o, m', fl) -> key_error fl = false.

Lemma runm_t_keep loc0 fid0 p : forall m o m' fl, runm_t rect m p = Some (o, m', fl) -> keep loc0 fid0 m -> keep loc0 fid0 m'.
Proof.
  induction p as [o0|a k IH]; intros m o m' fl H Hm; cbn [runm_t] in H; [injection H as _ <- _; exact Hm|].
  destruct (rect m a) as [[[o1 m1] f1]|] eqn:E; [|discriminate].
  apply with_fl_inv in H as (g & H & _). eapply IH; [exact H|]. eapply Hk; eassumption.
Qed.

Lemma runm_t_ke p : forall m o m' fl, runm_t rect m p = Some (o, m', fl) -> key_error fl = false.
Proof.
  induction p as [o0|a k IH]; intros m o m' fl H; cbn [runm_t] in H; [injection H as _ _ <-; reflexivity|].
  destruct (rect m a) as [[[o1 m1] f1]|] eqn:E; [|discriminate].
  apply with_fl_inv in H as (g & H & ->). rewrite key_error_or, (He _ _ _ _ _ E), (IH _ _ _ _ _ H). reflexivity.
Qed.

Lemma super_keep loc0 fid0 a body s loc d m o m' fl :
  super_impl_t rect a body s loc d m = Some (o, m', fl) -> keep loc0 fid0 m -> keep loc0 fid0 m'.
Proof.
  unfold super_impl_t. destruct (rect m (mkargs body s loc d false)) as [[[[l r|x|] m1] f1]|] eqn:E; intros H; try discriminate;
    injection H as _ <- _; eapply Hk; exact E.
Qed.

Lemma super_ke a body s loc d m o m' fl : super_impl_t rect a body s loc d m = Some (o, m', fl) -> key_error fl = false.
Proof.
  unfold super_impl_t. destruct (rect m (mkargs body s loc d false)) as [[[[l r|x|] m1] f1]|] eqn:E; intros H; try discriminate;
    injection H as _ _ <-; eapply He; exact E.
Qed.

Lemma lr_exit_keep loc0 fid0 a loc d prev_loc prev_peek m1 o m' fl : (loc, nid a) <> (loc0, fid0) ->
  lr_exit a loc d prev_loc prev_peek m1 = Some (o, m', fl) -> keep loc0 fid0 m1 -> keep loc0 fid0 m'.
Proof.
  intros Hne H Hm. unfold lr_exit in H. destruct d.
  - destruct (memo_get m1 (loc, nid a, true)) as [[[pl pr] m2]|] eqn:Eg.
    + assert (keep loc0 fid0 (memo_del (memo_del (memo_set m2 (loc, nid a, false) (pl, pr)) (loc, nid a, false)) (loc, nid a, true))) as Hr.
      { apply keep_del; [exact Hne|]. apply keep_del; [exact Hne|]. apply keep_set. eapply keep_get; eassumption. }
      destruct pr; injection H as _ <- _; exact Hr.
    + injection H as _ <- _. exact Hm.
  - assert (keep loc0 fid0 (memo_del m1 (loc, nid a, false))) as Hr by (apply keep_del; assumption).
    destruct prev_peek; injection H as _ <- _; exact Hr.
Qed.

(* the exit never raises KeyError when the pair of the loop is kept *)
Lemma lr_exit_ke a loc d prev_loc prev_peek m1 o m' fl : (d = true -> keep loc (nid a) m1) ->
  lr_exit a loc d prev_loc prev_peek m1 = Some (o, m', fl) -> key_error fl = false.
Proof.
  intros Hm H. unfold lr_exit in H. destruct d.
  - destruct (has_get_some _ _ (proj1 (Hm eq_refl))) as [[pl pr] Eg]. rewrite Eg in H.
    destruct pr; injection H as _ _ <-; reflexivity.
  - destruct prev_peek; injection H as _ _ <-; reflexivity.
Qed.

(* the shape of lr_loop_t's continuation, with the exit folded into lr_exit *)
Definition cont_t (f : nat) (a : attrs) (body : expr) (s : str) (loc : nat) (d : bool) (prev_loc : Z) (prev_peek : mres)
           (new_loc : Z) (new_peek : mres) (m1 : memo) : res_t :=
  if (new_loc <=? prev_loc)%Z then lr_exit a loc d prev_loc prev_peek m1
  else if d then
    match super_impl_t rect a body s loc true m1 with
    | None => None
    | Some (Ok l r, m2, f2) =>
      with_fl f2 (lr_loop_t rect f a body s loc d new_loc new_peek
                    (memo_set (memo_set m2 (loc, nid a, true) (Z.of_nat l, MOk r)) (loc, nid a, false) (new_loc, new_peek)))
    | Some (Err x, m2, f2) =>
      if is_pe (xk x)
      then Some (Err x, memo_set (memo_set m2 (loc, nid a, true) (new_loc, MExc x)) (loc, nid a, false) (new_loc, MExc x),
                 fl_or f2 (Build_flags false false true false false false))
      else Some (Err x, m2, f2)
    | Some (Div, m2, f2) => Some (Div, m2, f2)
    end
  else lr_loop_t rect f a body s loc d new_loc new_peek (memo_set m1 (loc, nid a, false) (new_loc, new_peek)).

Lemma lr_loop_t_unfold f a body s loc d prev_loc prev_peek m :
  lr_loop_t rect (S f) a body s loc d prev_loc prev_peek m =
  match super_impl_t rect a body s loc false m with
  | None => None
  | Some (o, m1, f1) =>
    with_fl f1
      match o with
      | Ok l r => cont_t f a body s loc d prev_loc prev_peek (Z.of_nat l) (MOk r) m1
      | Err x =>
        if is_pe (xk x) then
          match prev_peek with
          | MExc _ => Some (Err x, m1, if d then peek_error_flag rect a body s loc m1 o else fl0)
          | MOk _ => cont_t f a body s loc d prev_loc prev_peek prev_loc prev_peek m1
          end
        else Some (Err x, m1, if d then peek_error_flag rect a body s loc m1 o else fl0)
      | Div => Some (Div, m1, if d then peek_error_flag rect a body s loc m1 o else fl0)
      end
  end.
Proof. reflexivity. Qed.

Lemma lr_loop_t_keep loc0 fid0 a body s loc d : (loc, nid a) <> (loc0, fid0) ->
  forall fuel prev_loc prev_peek m o m' fl,
  lr_loop_t rect fuel a body s loc d prev_loc prev_peek m = Some (o, m', fl) -> keep loc0 fid0 m -> keep loc0 fid0 m'.
Proof.
  intros Hne. induction fuel as [|f IH]; intros prev_loc prev_peek m o m' fl H Hm; [injection H as _ <- _; exact Hm|].
  rewrite lr_loop_t_unfold in H.
  destruct (super_impl_t rect a body s loc false m) as [[[o1 m1] f1]|] eqn:E1; [|discriminate].
  apply with_fl_inv in H as (g & H & _).
  pose proof (super_keep loc0 fid0 _ _ _ _ _ _ _ _ _ E1 Hm) as Hm1.
  assert (Hcont : forall new_loc new_peek, cont_t f a body s loc d prev_loc prev_peek new_loc new_peek m1 = Some (o, m', g) ->
                  keep loc0 fid0 m').
  { intros new_loc new_peek Hc. unfold cont_t in Hc. destruct (new_loc <=? prev_loc)%Z.
    - eapply lr_exit_keep; eassumption.
    - destruct d; [|eapply IH; [exact Hc|apply keep_set; exact Hm1]].
      destruct (super_impl_t rect a body s loc true m1) as [[[[l r|x|] m2] f2]|] eqn:E2; try discriminate.
      + apply with_fl_inv in Hc as (g2 & Hc & _). eapply IH; [exact Hc|]. apply keep_set. apply keep_set.
        eapply super_keep; eassumption.
      + pose proof (super_keep loc0 fid0 _ _ _ _ _ _ _ _ _ E2 Hm1) as Hm2.
        destruct (is_pe (xk x)); injection Hc as _ <- _; [apply keep_set; apply keep_set|]; exact Hm2.
      + injection Hc as _ <- _. eapply super_keep; eassumption. }
  assert (Hpe : forall (x1 : outcome) (ff : flags), Some (x1, m1, ff) = Some (o, m', g) -> keep loc0 fid0 m').
  { intros x1 ff Hx. injection Hx as _ <- _. exact Hm1. }
  destruct o1 as [l r|x|].
  - eapply Hcont. exact H.
  - destruct (is_pe (xk x)); [|eapply Hpe; exact H].
    destruct prev_peek as [r0|x0]; [eapply Hcont; exact H|eapply Hpe; exact H].
  - eapply Hpe. exact H.
Qed.

Lemma lr_loop_t_ke a body s loc d : forall fuel prev_loc prev_peek m o m' fl,
  (d = true -> keep loc (nid a) m) ->
  lr_loop_t rect fuel a body s loc d prev_loc prev_peek m = Some (o, m', fl) -> key_error fl = false.
Proof.
  induction fuel as [|f IH]; intros prev_loc prev_peek m o m' fl Hm H; [injection H as _ _ <-; reflexivity|].
  rewrite lr_loop_t_unfold in H.
  destruct (super_impl_t rect a body s loc false m) as [[[o1 m1] f1]|] eqn:E1; [|discriminate].
  apply with_fl_inv in H as (g & H & ->). rewrite key_error_or, (super_ke _ _ _ _ _ _ _ _ _ E1). cbn [orb].
  assert (Hm1 : d = true -> keep loc (nid a) m1) by (intros Hd; eapply super_keep; [exact E1|exact (Hm Hd)]).
  assert (Hcont : forall new_loc new_peek, cont_t f a body s loc d prev_loc prev_peek new_loc new_peek m1 = Some (o, m', g) ->
                  key_error g = false).
  { intros new_loc new_peek Hc. unfold cont_t in Hc. destruct (new_loc <=? prev_loc)%Z.
    - eapply lr_exit_ke; eassumption.
    - destruct d.
      + destruct (super_impl_t rect a body s loc true m1) as [[[[l r|x|] m2] f2]|] eqn:E2; try discriminate.
        * apply with_fl_inv in Hc as (g2 & Hc & ->). rewrite key_error_or, (super_ke _ _ _ _ _ _ _ _ _ E2). cbn [orb].
          eapply IH; [|exact Hc]. intros _. apply keep_set2.
        * pose proof (super_ke _ _ _ _ _ _ _ _ _ E2) as Hf2.
          destruct (is_pe (xk x)); injection Hc as _ _ <-; [rewrite key_error_or, Hf2; reflexivity|exact Hf2].
        * injection Hc as _ _ <-. eapply super_ke; eassumption.
      + eapply IH; [|exact Hc]. intros Hd; discriminate. }
  assert (Hpe : forall (x1 : outcome), Some (x1, m1, if d then peek_error_flag rect a body s loc m1 o1 else fl0) = Some (o, m', g) ->
                key_error g = false).
  { intros x1 Hx. injection Hx as _ _ <-. destruct d; reflexivity. }
  destruct o1 as [l r|x|].
  - eapply Hcont. exact H.
  - destruct (is_pe (xk x)); [|eapply Hpe; exact H].
    destruct prev_peek as [r0|x0]; [eapply Hcont; exact H|eapply Hpe; exact H].
  - eapply Hpe. exact H.
Qed.

Lemma pair_dec (loc fid loc0 fid0 : nat) : {(loc, fid) = (loc0, fid0)} + {(loc, fid) <> (loc0, fid0)}.
Proof. decide equality; apply Nat.eq_dec. Qed.

Lemma lr_forward_t_keep loc0 fid0 a body s loc d m o m' fl :
  lr_forward_t rect a body s loc d m = Some (o, m', fl) -> keep loc0 fid0 m -> keep loc0 fid0 m'.
Proof.
  intros H Hm. unfold lr_forward_t in H.
  destruct (memo_get m (loc, nid a, d)) as [[[pl [r|x]] m1]|] eqn:Eg.
  - injection H as _ <- _. eapply keep_get; eassumption.
  - injection H as _ <- _. eapply keep_get; eassumption.
  - destruct (pair_dec loc (nid a) loc0 fid0) as [E|Hne].
    + exfalso. injection E as <- <-. destruct Hm as [H1 H2].
      destruct d; [destruct (has_get_some _ _ H1) as [v Hv]|destruct (has_get_some _ _ H2) as [v Hv]]; congruence.
    + eapply lr_loop_t_keep; [exact Hne|exact H|]. destruct d; [apply keep_set|]; apply keep_set; exact Hm.
Qed.

Lemma lr_forward_t_ke a body s loc d m o m' fl : lr_forward_t rect a body s loc d m = Some (o, m', fl) -> key_error fl = false.
Proof.
  intros H. unfold lr_forward_t in H.
  destruct (memo_get m (loc, nid a, d)) as [[[pl [r|x]] m1]|] eqn:Eg; try (injection H as _ _ <-; reflexivity).
  eapply lr_loop_t_ke; [|exact H]. intros ->. apply keep_set2'.
Qed.
End Frame.

Theorem lr_keep (G : env) : forall fuel loc0 fid0 m ar o m' fl,
  parse_lr_t G fuel m ar = Some (o, m', fl) -> keep loc0 fid0 m -> keep loc0 fid0 m'.
Proof.
  induction fuel as [|f IH]; intros loc0 fid0 m ar o m' fl H Hm; [discriminate|].
  cbn [parse_lr_t] in H.
  pose proof (runm_t_keep (parse_lr_t G f) IH loc0 fid0) as Hrun.
  destruct (a_e ar) as [a i t|a i kd es|a i kd c|a i z body ne|a i target incl ig2 fo|a i [id|]]; try (eapply Hrun; eassumption).
  destruct (nth_error G id) as [body|]; [|eapply Hrun; eassumption].
  destruct (runm_t (parse_lr_t G f) m _) as [[[[pl r0|x0|] m1] f1]|] eqn:Epre; try discriminate.
  - pose proof (Hrun _ _ _ _ _ Epre Hm) as Hm1.
    apply with_fl_inv in H as (g & H & _).
    destruct (lr_forward_t (parse_lr_t G f) a body (a_s ar) pl (a_do ar) m1) as [[[[l r|x|] m2] f2]|] eqn:Ef; try discriminate;
      pose proof (lr_forward_t_keep (parse_lr_t G f) IH loc0 fid0 _ _ _ _ _ _ _ _ _ Ef Hm1) as Hm2.
    + apply with_fl_inv in H as (g2 & H & _). eapply Hrun; eassumption.
    + apply with_fl_inv in H as (g2 & H & _). eapply Hrun; eassumption.
    + injection H as _ <- _. exact Hm2.
  - injection H as _ <- _. eapply Hrun; eassumption.
  - injection H as _ <- _. eapply Hrun; eassumption.
Qed.

(* `key_error` is never raised: whatever the grammar, the memo, the capacity, the fuel *)
Theorem lr_key_error_never (G : env) : forall fuel m ar o m' fl,
  parse_lr_t G fuel m ar = Some (o, m', fl) -> key_error fl = false.
Proof.
  induction fuel as [|f IH]; intros m ar o m' fl H; [discriminate|].
  cbn [parse_lr_t] in H.
  pose proof (runm_t_ke (parse_lr_t G f) IH) as Hrun.
  destruct (a_e ar) as [a i t|a i kd es|a i kd c|a i z body ne|a i target incl ig2 fo|a i [id|]]; try (eapply Hrun; eassumption).
  destruct (nth_error G id) as [body|]; [|eapply Hrun; eassumption].
  destruct (runm_t (parse_lr_t G f) m _) as [[[[pl r0|x0|] m1] f1]|] eqn:Epre; try discriminate.
  - pose proof (Hrun _ _ _ _ _ Epre) as Hf1.
    apply with_fl_inv in H as (g & H & ->). rewrite key_error_or, Hf1. cbn [orb].
    destruct (lr_forward_t (parse_lr_t G f) a body (a_s ar) pl (a_do ar) m1) as [[[[l r|x|] m2] f2]|] eqn:Ef; try discriminate;
      pose proof (lr_forward_t_ke (parse_lr_t G f) (lr_keep G f) IH _ _ _ _ _ _ _ _ _ Ef) as Hf2.
    + apply with_fl_inv in H as (g2 & H & ->). rewrite key_error_or, Hf2. cbn [orb]. eapply Hrun; eassumption.
    + apply with_fl_inv in H as (g2 & H & ->). rewrite key_error_or, Hf2. cbn [orb]. eapply Hrun; eassumption.
    + injection H as _ _ <-. exact Hf2.
  - injection H as _ _ <-. eapply Hrun; eassumption.
  - injection H as _ _ <-. eapply Hrun; eassumption.
Qed.

Theorem lr_key_error_never_entry (G : env) {R} (p : dprog R) fuel : forall m r m' fl,
  drunm_t (parse_lr_t G fuel) m p = Some (r, m', fl) -> key_error fl = false.
Proof.
  induction p as [r0|a k IH]; intros m r m' fl H; cbn [drunm_t] in H; [injection H as _ _ <-; reflexivity|].
  destruct (parse_lr_t G fuel m a) as [[[o1 m1] f1]|] eqn:E; [|discriminate].
  destruct (drunm_t (parse_lr_t G fuel) m1 (k o1)) as [[[r1 m2] g]|] eqn:E2; [|discriminate].
  injection H as _ _ <-. rewrite key_error_or, (lr_key_error_never _ _ _ _ _ _ _ E), (IH _ _ _ _ _ E2). reflexivity.
Qed.

(* ------------------------------------------------------------------------------------------- *)
(* Part R, continued.  R2: the stopping handler is monotone in its fuel (every answer, flagged or  *)
(* not).  R3: a clean answer of Model/LRT.v's handler is a clean answer of the stopping handler.   *)
(* ------------------------------------------------------------------------------------------- *)
Definition fin_x (rec : memo -> args -> res_t) (a : attrs) (body : expr) (s : str) (loc : nat) (d : bool) (o x1 : outcome)
           (m1 : memo) : res_t :=
  if d then match pef_x rec a body s loc m1 o with None => None | Some fl => Some (x1, m1, fl) end
  else Some (x1, m1, fl0).

Definition cont_x (rec : memo -> args -> res_t) (f : nat) (a : attrs) (body : expr) (s : str) (loc : nat) (d : bool)
           (prev_loc : Z) (prev_peek : mres) (new_loc : Z) (new_peek : mres) (m1 : memo) : res_t :=
  if (new_loc <=? prev_loc)%Z then lr_exit a loc d prev_loc prev_peek m1
  else if d then
    bindx (super_impl_t rec a body s loc true m1) (fun o2 m2 =>
      match o2 with
      | Ok l r => lr_loop_x rec f a body s loc d new_loc new_peek
                    (memo_set (memo_set m2 (loc, nid a, true) (Z.of_nat l, MOk r)) (loc, nid a, false) (new_loc, new_peek))
      | Err x => if is_pe (xk x)
                 then Some (Err x, memo_set (memo_set m2 (loc, nid a, true) (new_loc, MExc x)) (loc, nid a, false) (new_loc, MExc x),
                            fl_tainted)
                 else Some (Err x, m2, fl0)
      | Div => Some (Div, m2, fl0)
      end)
  else lr_loop_x rec f a body s loc d new_loc new_peek (memo_set m1 (loc, nid a, false) (new_loc, new_peek)).

Lemma lr_loop_x_unfold rec f a body s loc d prev_loc prev_peek m :
  lr_loop_x rec (S f) a body s loc d prev_loc prev_peek m =
  bindx (super_impl_t rec a body s loc false m) (fun o m1 =>
    match o with
    | Ok l r => cont_x rec f a body s loc d prev_loc prev_peek (Z.of_nat l) (MOk r) m1
    | Err x =>
      if is_pe (xk x) then
        match prev_peek with
        | MExc _ => fin_x rec a body s loc d o (Err x) m1
        | MOk _ => cont_x rec f a body s loc d prev_loc prev_peek prev_loc prev_peek m1
        end
      else fin_x rec a body s loc d o (Err x) m1
    | Div => fin_x rec a body s loc d o Div m1
    end).
Proof. reflexivity. Qed.

Lemma bindx_fl0 o m k : bindx (Some (o, m, fl0)) k = k o m.
Proof. reflexivity. Qed.

Section XM.
Variable G : env.
Variable rec1 rec2 : memo -> args -> res_t.
Hypothesis Hm12 : forall m a r, rec1 m a = Some r -> rec2 m a = Some r.

Lemma runm_xm p : forall m r, runm_x rec1 m p = Some r -> runm_x rec2 m p = Some r.
Proof.
  induction p as [o0|a k IH]; intros m r H; cbn [runm_x] in *; [exact H|].
  destruct (rec1 m a) as [[[o1 m1] f1]|] eqn:E; [|discriminate]. rewrite (Hm12 _ _ _ E). cbn [bindx] in *.
  destruct (fl_clean f1); [apply IH|]; exact H.
Qed.

Lemma super_xm a body s loc d m r : super_impl_t rec1 a body s loc d m = Some r -> super_impl_t rec2 a body s loc d m = Some r.
Proof.
  unfold super_impl_t. destruct (rec1 m (mkargs body s loc d false)) as [r1|] eqn:E; [|discriminate].
  rewrite (Hm12 _ _ _ E). exact (fun x => x).
Qed.

Lemma pef_xm a body s loc m o1 fl : pef_x rec1 a body s loc m o1 = Some fl -> pef_x rec2 a body s loc m o1 = Some fl.
Proof.
  unfold pef_x. destruct (super_impl_t rec1 a body s loc true m) as [[[og mg] fg]|] eqn:E; [|discriminate].
  rewrite (super_xm _ _ _ _ _ _ _ E). exact (fun x => x).
Qed.

Lemma fin_xm a body s loc d o x1 m1 r : fin_x rec1 a body s loc d o x1 m1 = Some r -> fin_x rec2 a body s loc d o x1 m1 = Some r.
Proof.
  unfold fin_x. destruct d; [|exact (fun x => x)].
  destruct (pef_x rec1 a body s loc m1 o) as [fl|] eqn:E; [|discriminate]. rewrite (pef_xm _ _ _ _ _ _ _ E). exact (fun x => x).
Qed.

Lemma lr_loop_xm a body s loc d : forall fuel prev_loc prev_peek m r,
  lr_loop_x rec1 fuel a body s loc d prev_loc prev_peek m = Some r ->
  lr_loop_x rec2 fuel a body s loc d prev_loc prev_peek m = Some r.
Proof.
  induction fuel as [|f IH]; intros prev_loc prev_peek m r H; [exact H|].
  rewrite lr_loop_x_unfold in *.
  destruct (super_impl_t rec1 a body s loc false m) as [[[o1 m1] f1]|] eqn:E1; [|discriminate].
  rewrite (super_xm _ _ _ _ _ _ _ E1). cbn [bindx] in *. destruct (fl_clean f1); [|exact H].
  assert (Hcont : forall new_loc new_peek,
    cont_x rec1 f a body s loc d prev_loc prev_peek new_loc new_peek m1 = Some r ->
    cont_x rec2 f a body s loc d prev_loc prev_peek new_loc new_peek m1 = Some r).
  { intros new_loc new_peek Hc. unfold cont_x in *. destruct (new_loc <=? prev_loc)%Z; [exact Hc|].
    destruct d; [|apply IH; exact Hc].
    destruct (super_impl_t rec1 a body s loc true m1) as [[[o2 m2] f2]|] eqn:E2; [|discriminate].
    rewrite (super_xm _ _ _ _ _ _ _ E2). cbn [bindx] in *. destruct (fl_clean f2); [|exact Hc].
    destruct o2 as [l r2|x|]; [apply IH; exact Hc|exact Hc|exact Hc]. }
  destruct o1 as [l r1|x|].
  - apply Hcont. exact H.
  - destruct (is_pe (xk x)); [|apply fin_xm; exact H].
    destruct prev_peek as [r0|x0]; [apply Hcont; exact H|apply fin_xm; exact H].
  - apply fin_xm. exact H.
Qed.

Lemma lr_forward_xm a body s loc d m r : lr_forward_x rec1 a body s loc d m = Some r -> lr_forward_x rec2 a body s loc d m = Some r.
Proof.
  unfold lr_forward_x. destruct (memo_get m (loc, nid a, d)) as [[[pl [r1|x]] m1]|]; try exact (fun x => x).
  apply lr_loop_xm.
Qed.
End XM.

Theorem x_mono_S (G : env) : forall fuel m ar r, parse_lr_x G fuel m ar = Some r -> parse_lr_x G (S fuel) m ar = Some r.
Proof.
  induction fuel as [|f IH]; intros m ar r H; [discriminate|].
  remember (S f) as f1 eqn:Ef1. cbn [parse_lr_x]. subst f1. cbn [parse_lr_x] in H.
  pose proof (runm_xm (parse_lr_x G f) (parse_lr_x G (S f)) IH) as Hrun.
  destruct (a_e ar) as [a i t|a i kd es|a i kd c|a i z body ne|a i target incl ig2 fo|a i [id|]]; try (apply Hrun; exact H).
  destruct (nth_error G id) as [body|]; [|apply Hrun; exact H].
  destruct (runm_x (parse_lr_x G f) m _) as [[[o1 m1] f1]|] eqn:E1; [|discriminate].
  rewrite (Hrun _ _ _ E1). cbn [bindx] in *. destruct (fl_clean f1); [|exact H].
  destruct o1 as [pl r0|x0|]; try exact H.
  destruct (lr_forward_x (parse_lr_x G f) a body (a_s ar) pl (a_do ar) m1) as [[[o2 m2] f2]|] eqn:E2; [|discriminate].
  rewrite (lr_forward_xm (parse_lr_x G f) (parse_lr_x G (S f)) IH _ _ _ _ _ _ _ E2). cbn [bindx] in *.
  destruct (fl_clean f2); [|exact H].
  destruct o2 as [l r2|x|]; [apply Hrun; exact H|apply Hrun; exact H|exact H].
Qed.

Theorem x_mono (G : env) fuel fuel' m ar r : parse_lr_x G fuel m ar = Some r -> fuel <= fuel' -> parse_lr_x G fuel' m ar = Some r.
Proof. intros H Hle. induction Hle as [|n Hle IH]; [exact H|]. apply x_mono_S. exact IH. Qed.

Section TX.
Variable G : env.
Variable rect recx : memo -> args -> res_t.
Hypothesis Htx : forall m a o m', rect m a = Some (o, m', fl0) -> recx m a = Some (o, m', fl0).

Lemma runm_tx p : forall m o m', runm_t rect m p = Some (o, m', fl0) -> runm_x recx m p = Some (o, m', fl0).
Proof.
  induction p as [o0|a k IH]; intros m o m' H; cbn [runm_x runm_t] in *; [exact H|].
  destruct (rect m a) as [[[o1 m1] f1]|] eqn:E; [|discriminate].
  apply with_fl_0 in H as [-> H]. rewrite (Htx _ _ _ _ E), bindx_fl0. apply IH. exact H.
Qed.

Lemma super_tx a body s loc d m o m' :
  super_impl_t rect a body s loc d m = Some (o, m', fl0) -> super_impl_t recx a body s loc d m = Some (o, m', fl0).
Proof.
  unfold super_impl_t. destruct (rect m (mkargs body s loc d false)) as [[[[l r|x|] m1] f1]|] eqn:E; intros H;
    try discriminate; injection H as <- <- ->; rewrite (Htx _ _ _ _ E); reflexivity.
Qed.

Lemma pef_tx a body s loc m o1 :
  peek_error_flag rect a body s loc m o1 = fl0 -> pef_x recx a body s loc m o1 = Some fl0.
Proof.
  unfold pef_x, peek_error_flag.
  destruct (super_impl_t rect a body s loc true m) as [[[og mg] fg]|] eqn:E; [|discriminate].
  destruct (fl_clean fg && same_fail o1 og) eqn:Ec; [|discriminate].
  intros _. apply andb_prop in Ec as [E1 E2]. apply fl_clean_0 in E1. subst fg.
  rewrite (super_tx _ _ _ _ _ _ _ _ E). rewrite E2. reflexivity.
Qed.

Lemma fin_tx a body s loc (d : bool) o1 (x1 : outcome) (m1 : memo) o m' :
  Some (x1, m1, if d then peek_error_flag rect a body s loc m1 o1 else fl0) = Some (o, m', fl0) ->
  fin_x recx a body s loc d o1 x1 m1 = Some (o, m', fl0).
Proof.
  intros H. injection H as <- <- Hf. unfold fin_x. destruct d; [|reflexivity]. rewrite (pef_tx _ _ _ _ _ _ Hf). reflexivity.
Qed.

Lemma lr_loop_tx a body s loc d : forall fuel prev_loc prev_peek m o m',
  lr_loop_t rect fuel a body s loc d prev_loc prev_peek m = Some (o, m', fl0) ->
  lr_loop_x recx fuel a body s loc d prev_loc prev_peek m = Some (o, m', fl0).
Proof.
  induction fuel as [|f IH]; intros prev_loc prev_peek m o m' H; [exact H|].
  rewrite lr_loop_t_unfold in H. rewrite lr_loop_x_unfold.
  destruct (super_impl_t rect a body s loc false m) as [[[o1 m1] f1]|] eqn:E1; [|discriminate].
  apply with_fl_0 in H as [-> H]. rewrite (super_tx _ _ _ _ _ _ _ _ E1), bindx_fl0.
  assert (Hcont : forall new_loc new_peek,
    cont_t rect f a body s loc d prev_loc prev_peek new_loc new_peek m1 = Some (o, m', fl0) ->
    cont_x recx f a body s loc d prev_loc prev_peek new_loc new_peek m1 = Some (o, m', fl0)).
  { intros new_loc new_peek Hc. unfold cont_t in Hc. unfold cont_x. destruct (new_loc <=? prev_loc)%Z; [exact Hc|].
    destruct d; [|apply IH; exact Hc].
    destruct (super_impl_t rect a body s loc true m1) as [[[[l r|x|] m2] f2]|] eqn:E2; try discriminate.
    - apply with_fl_0 in Hc as [-> Hc]. rewrite (super_tx _ _ _ _ _ _ _ _ E2), bindx_fl0. apply IH. exact Hc.
    - destruct (is_pe (xk x)) eqn:Ex.
      + exfalso. assert (fl_or f2 (Build_flags false false true false false false) = fl0) as Hf by congruence.
        apply fl_or_0 in Hf as [_ Hf]. discriminate.
      + injection Hc as <- <- ->. rewrite (super_tx _ _ _ _ _ _ _ _ E2), bindx_fl0, Ex. reflexivity.
    - injection Hc as <- <- ->. rewrite (super_tx _ _ _ _ _ _ _ _ E2), bindx_fl0. reflexivity. }
  destruct o1 as [l r|x|].
  - apply Hcont. exact H.
  - destruct (is_pe (xk x)); [|apply fin_tx; exact H].
    destruct prev_peek as [r0|x0]; [apply Hcont; exact H|apply fin_tx; exact H].
  - apply fin_tx. exact H.
Qed.

Lemma lr_forward_tx a body s loc d m o m' :
  lr_forward_t rect a body s loc d m = Some (o, m', fl0) -> lr_forward_x recx a body s loc d m = Some (o, m', fl0).
Proof.
  unfold lr_forward_x, lr_forward_t. destruct (memo_get m (loc, nid a, d)) as [[[pl [r|x]] m1]|]; intros H; try exact H.
  apply lr_loop_tx. exact H.
Qed.
End TX.

Theorem t_clean_x (G : env) : forall fuel m ar o m',
  parse_lr_t G fuel m ar = Some (o, m', fl0) -> parse_lr_x G fuel m ar = Some (o, m', fl0).
Proof.
  induction fuel as [|f IH]; intros m ar o m' H; [discriminate|].
  cbn [parse_lr_x parse_lr_t] in *.
  pose proof (runm_tx (parse_lr_t G f) (parse_lr_x G f) IH) as Hrun.
  destruct (a_e ar) as [a i t|a i kd es|a i kd c|a i z body ne|a i target incl ig2 fo|a i [id|]]; try (apply Hrun; exact H).
  destruct (nth_error G id) as [body|]; [|apply Hrun; exact H].
  destruct (runm_t (parse_lr_t G f) m _) as [[[[pl r0|x0|] m1] f1]|] eqn:E1; try discriminate.
  - apply with_fl_0 in H as [-> H]. rewrite (Hrun _ _ _ _ E1), bindx_fl0.
    destruct (lr_forward_t (parse_lr_t G f) a body (a_s ar) pl (a_do ar) m1) as [[[[l r|x|] m2] f2]|] eqn:E2; try discriminate.
    + apply with_fl_0 in H as [-> H].
      rewrite (lr_forward_tx (parse_lr_t G f) (parse_lr_x G f) IH _ _ _ _ _ _ _ _ E2), bindx_fl0. apply Hrun. exact H.
    + apply with_fl_0 in H as [-> H].
      rewrite (lr_forward_tx (parse_lr_t G f) (parse_lr_x G f) IH _ _ _ _ _ _ _ _ E2), bindx_fl0. apply Hrun. exact H.
    + injection H as <- <- ->.
      rewrite (lr_forward_tx (parse_lr_t G f) (parse_lr_x G f) IH _ _ _ _ _ _ _ _ E2), bindx_fl0. reflexivity.
  - injection H as <- <- ->. rewrite (Hrun _ _ _ _ E1), bindx_fl0. reflexivity.
  - injection H as <- <- ->. rewrite (Hrun _ _ _ _ E1), bindx_fl0. reflexivity.
Qed.

(* a flag reported by the stopping handler is never spurious: no fuel makes Model/LRT.v's handler answer cleanly *)
Theorem x_flag_genuine (G : env) fuel m ar o m' fl : parse_lr_x G fuel m ar = Some (o, m', fl) -> fl_clean fl = false ->
  forall fuel' o' m'', parse_lr_t G fuel' m ar <> Some (o', m'', fl0).
Proof.
  intros Hx Hfl fuel' o' m'' Ht. apply t_clean_x in Ht.
  pose proof (x_mono G _ (Nat.max fuel fuel') _ _ _ Hx (Nat.le_max_l _ _)) as H1.
  pose proof (x_mono G _ (Nat.max fuel fuel') _ _ _ Ht (Nat.le_max_r _ _)) as H2.
  rewrite H1 in H2. injection H2 as _ _ ->. discriminate Hfl.
Qed.

(* ------------------------------------------------------------------------------------------- *)
(* Part C: completeness                                                                         *)
(* ------------------------------------------------------------------------------------------- *)
(* "the run answers, and if it answers without a flag then P holds of the outcome and the memo" *)
(* ... and whatever flags it carries satisfy Fl *)
Definition postP (Fl : flags -> Prop) (P : outcome -> memo -> Prop) (r : res_t) : Prop :=
  exists o m fl, r = Some (o, m, fl) /\ Fl fl /\ (fl_clean fl = true -> P o m).

Lemma postP_ret (Fl : flags -> Prop) (P : outcome -> memo -> Prop) o m fl :
  Fl fl -> (fl_clean fl = true -> P o m) -> postP Fl P (Some (o, m, fl)).
Proof. intros HF H. exists o, m, fl. split; [reflexivity|]. split; [exact HF|exact H]. Qed.

Lemma postP_bind (Fl : flags -> Prop) (P Q : outcome -> memo -> Prop) r k :
  postP Fl P r -> (forall o m, P o m -> postP Fl Q (k o m)) -> postP Fl Q (bindx r k).
Proof.
  intros (o & m & fl & -> & HF & H) Hk. cbn [bindx]. destruct (fl_clean fl) eqn:E; [apply Hk; apply H; reflexivity|].
  exists Div, m, fl. split; [reflexivity|]. split; [exact HF|]. rewrite E. discriminate.
Qed.

(* location monotonicity of the Forward bodies (do_actions=False pass): a match never ends before its start.  Needed only
   to exclude `seed_returned`; the framework has upper bounds on locations (Proofs/LocBound.v), not this lower bound. *)
Definition loc_mono (G : env) (s : str) : Prop :=
  forall f id body loc l r, nth_error G id = Some body ->
    parse (step G) f (mkargs body s loc false false) = Some (Ok l r) -> loc <= l.

(* what is known of the flags of a stopping run on a call that the plain parser answers *)
Definition fl_ok (G : env) (s : str) (fl : flags) : Prop :=
  key_error fl = false /\ (loc_mono G s -> seed_returned fl = false).

Ltac fl_triv := split; [reflexivity|intros _; reflexivity].

(* The left-recursion algorithm evaluates a Forward's body with do_actions=False BEFORE (and whether or not) it evaluates
   it with do_actions=True; the plain Forward.parseImpl called with do_actions=True never does.  So termination of the plain
   parser says nothing about that extra pass unless the grammar guarantees it: `peek_total G s` = whenever the body of a
   Forward of G answers (plain parser, fuel f) with do_actions=True at some location of s, it also answers (same fuel) with
   do_actions=False there.  (True of every grammar whose Forward bodies contain no parse action / condition, where the
   two passes make the same calls; proved below for bodies that are tokens: `peek_total_tokens`.) *)
Definition peek_total (G : env) (s : str) : Prop :=
  forall f id body loc ob, nth_error G id = Some body ->
    parse (step G) f (mkargs body s loc true false) = Some ob ->
    exists ob', parse (step G) f (mkargs body s loc false false) = Some ob'.

Section Cmp.
Variable G : env.
Variable tbl : nat -> option nat.
Variable s : str.
Hypothesis HG : forallb (fw tbl) G = true.

Notation fwb := (fw tbl).
Notation pparse := (parse (step G)).
Notation Cs := (Cs tbl s).
Notation memo_ok := (memo_ok G tbl s).
Notation Pent := (Pent G tbl s).
Notation Fl := (fl_ok G s).
Notation post o := (postP Fl (fun o' m' => o' = o /\ memo_ok m')).

Section Rec.
Variable recx : memo -> args -> res_t.
Variable f : nat.
Hypothesis Hrec : forall m a o, Cs a -> memo_ok m -> pparse f a = Some o -> post o (recx m a).
Hypothesis Hkx : forall loc0 fid0 m a o m', recx m a = Some (o, m', fl0) -> keep loc0 fid0 m -> keep loc0 fid0 m'.

Lemma runm_cmp p : calls Cs p -> forall m o, memo_ok m -> run (pparse f) p = Some o -> post o (runm_x recx m p).
Proof.
  induction p as [o0|a k IH]; intros HC m o Hm H; cbn [run runm_x] in *.
  - injection H as <-. apply postP_ret; [fl_triv|]. intros _. split; [reflexivity|exact Hm].
  - inversion HC as [|a0 k0 Ha Hk]; subst.
    destruct (pparse f a) as [o1|] eqn:E; [|discriminate].
    eapply postP_bind; [exact (Hrec _ _ _ Ha Hm E)|].
    intros o' m' [-> Hm']. apply IH; [apply Hk|exact Hm'|exact H].
Qed.

Lemma super_cmp a body loc d m ob : fwb body = true -> memo_ok m ->
  pparse f (mkargs body s loc d false) = Some ob ->
  postP Fl (fun o' m' => o' = fwd_ans (nid a) loc ob /\ memo_ok m' /\ forall l0 f0, keep l0 f0 m -> keep l0 f0 m')
        (super_impl_t recx a body s loc d m).
Proof.
  intros Hb Hm Hp.
  destruct (Hrec m (mkargs body s loc d false) ob (conj eq_refl Hb) Hm Hp) as (o' & m' & fl & E & HF & H).
  unfold super_impl_t. rewrite E.
  assert (Hc : fl_clean fl = true -> o' = ob /\ memo_ok m' /\ forall l0 f0, keep l0 f0 m -> keep l0 f0 m').
  { intros Hc. destruct (H Hc) as [-> Hm']. split; [reflexivity|]. split; [exact Hm'|].
    intros l0 f0 Hk0. apply fl_clean_0 in Hc. subst fl. eapply Hkx; eassumption. }
  destruct o' as [l r|x|]; (apply postP_ret; [exact HF|]); intros Hcl; destruct (Hc Hcl) as (<- & Hm' & Hk');
    (split; [|split; [exact Hm'|exact Hk']]); reflexivity.
Qed.

Section Fwd.
Variable a : attrs.
Variable id : nat.
Variable body : expr.
Hypothesis Htbl : tbl (nid a) = Some id.
Hypothesis Hnth : nth_error G id = Some body.

Let Hbody : fwb body = true := body_fw G tbl HG id body Hnth.

Notation postf loc obd := (postP Fl (fun o' m' => o' = fwd_ans (nid a) loc obd /\ memo_ok m')).

(* a later iteration: the previous peek result is the plain parser's; the body answers the same; the loop exits *)
Lemma loop2_cmp loc d n l0 r0 obd m :
  pparse f (mkargs body s loc false false) = Some (Ok l0 r0) ->
  pparse f (mkargs body s loc d false) = Some obd ->
  memo_ok m -> (d = true -> keep loc (nid a) m) ->
  postf loc obd (lr_loop_x recx (S n) a body s loc d (Z.of_nat l0) (MOk r0) m).
Proof.
  intros Hp0 Hpd Hm Hkp. cbn [lr_loop_x].
  eapply postP_bind; [exact (super_cmp a body loc false m _ Hbody Hm Hp0)|].
  intros o1 m1 (-> & Hm1 & Hk1). cbn [fwd_ans]. rewrite Z.leb_refl.
  unfold lr_exit. destruct d.
  - destruct (has_get_some _ _ (proj1 (Hk1 _ _ (Hkp eq_refl)))) as [[pl pr] Eg]. rewrite Eg.
    assert (Hcl : is_seed (loc, nid a, true) (pl, pr) = false -> mval_same (pl, pr) (Z.of_nat l0, MOk r0) = true ->
                  exists r, pr = MOk r /\ Ok (Z.to_nat pl) r = fwd_ans (nid a) loc obd /\
                  memo_ok (memo_del (memo_del (memo_set m1 (loc, nid a, false) (pl, pr)) (loc, nid a, false)) (loc, nid a, true))).
    { intros Es Em. apply mval_same_eq in Em. injection Em as -> ->. exists r0. split; [reflexivity|].
      destruct (mall_get Pent _ _ _ _ Eg Hm1) as [Hp Hm2].
      destruct (entry_ok_here G tbl s a id body Htbl Hnth _ _ _ (Hp Es)) as (fa & oba & Hpa & n0 & Hn & Ha).
      apply Nat2Z.inj in Hn. subst n0. rewrite Nat2Z.id.
      rewrite (pdet G _ _ _ _ _ Hpd Hpa). split; [symmetry; exact Ha|].
      apply mall_del. apply mall_del. apply mall_set; [exact Hm2|].
      eapply (Pent_ok G tbl s a id body Htbl Hnth). exact Hp0. }
    destruct (is_seed (loc, nid a, true) (pl, pr)) eqn:Es;
      [destruct pr; (apply postP_ret; [fl_triv|]); intros Hc; discriminate Hc|].
    destruct (mval_same (pl, pr) (Z.of_nat l0, MOk r0)) eqn:Em;
      [|destruct pr; (apply postP_ret; [fl_triv|]); intros Hc; discriminate Hc].
    destruct (Hcl eq_refl eq_refl) as (r & -> & Ho & Hm4).
    apply postP_ret; [fl_triv|]. intros _. split; [exact Ho|exact Hm4].
  - apply postP_ret; [fl_triv|]. intros _. rewrite Nat2Z.id. rewrite (pdet G _ _ _ _ _ Hpd Hp0). split; [reflexivity|].
    apply mall_del. exact Hm1.
Qed.

(* the first iteration, from the seed *)
Lemma loop1_cmp loc d n obF obd m :
  pparse f (mkargs body s loc false false) = Some obF ->
  pparse f (mkargs body s loc d false) = Some obd ->
  memo_ok m -> (d = true -> keep loc (nid a) m) ->
  postf loc obd (lr_loop_x recx (S (S n)) a body s loc d (Z.of_nat loc - 1)
                   (MExc (mkx XParse (Z.of_nat loc) MFwdNoBase (Some (nid a)))) m).
Proof.
  intros HpF Hpd Hm Hkp. remember (S n) as fu eqn:Efu. cbn [lr_loop_x].
  eapply postP_bind; [exact (super_cmp a body loc false m _ Hbody Hm HpF)|].
  intros o1 m1 (-> & Hm1 & Hk1).
  assert (Hfail : forall x1, x1 = fwd_ans (nid a) loc obF ->
    postf loc obd (if d then match pef_x recx a body s loc m1 x1 with None => None | Some fl => Some (x1, m1, fl) end
                   else Some (x1, m1, fl0))).
  { intros x1 ->. destruct d.
    - unfold pef_x.
      destruct (super_cmp a body loc true m1 obd Hbody Hm1 Hpd) as (og & mg & fg & Eg & _ & Hg). rewrite Eg.
      apply postP_ret; [fl_triv|]. intros Hc. split; [|exact Hm1].
      destruct (fl_clean fg && same_fail (fwd_ans (nid a) loc obF) og) eqn:Ec; [|discriminate Hc].
      apply andb_prop in Ec as [Ec1 Ec2]. apply same_fail_eq in Ec2. rewrite Ec2. exact (proj1 (Hg Ec1)).
    - apply postP_ret; [fl_triv|]. intros _. split; [|exact Hm1]. rewrite (pdet G _ _ _ _ _ Hpd HpF). reflexivity. }
  destruct obF as [l r|x|]; cbn [fwd_ans].
  - destruct (Z.of_nat l <=? Z.of_nat loc - 1)%Z eqn:El.
    + unfold lr_exit. destruct d.
      * destruct (has_get_some _ _ (proj1 (Hk1 _ _ (Hkp eq_refl)))) as [[pl pr] Eg]. rewrite Eg.
        destruct (is_seed (loc, nid a, true) (pl, pr)) eqn:Es;
          destruct pr as [r1|x1]; (apply postP_ret; [fl_triv|]); intros Hc; exfalso; cbn in Hc; discriminate Hc.
      * apply postP_ret.
        -- split; [reflexivity|]. intros Hlm. exfalso. apply Z.leb_le in El.
           pose proof (Hlm f id body loc l r Hnth HpF). lia.
        -- intros Hc. exfalso. rewrite is_seed_seed in Hc. discriminate Hc.
    + subst fu. destruct d.
      * eapply postP_bind; [exact (super_cmp a body loc true m1 _ Hbody Hm1 Hpd)|].
        intros o2 m2 (-> & Hm2 & Hk2). destruct obd as [l2 r2|x2|]; cbn [fwd_ans].
        -- apply (loop2_cmp loc true n l r (Ok l2 r2)); [exact HpF|exact Hpd| |intros _; apply keep_set2].
           apply mall_set; [apply mall_set; [exact Hm2|]|]; eapply (Pent_ok G tbl s a id body Htbl Hnth); eassumption.
        -- destruct (is_pe (xk (enh_rewrite (fid_attrs (nid a)) true loc x2))); (apply postP_ret; [fl_triv|]); intros Hc;
             [discriminate Hc|split; [reflexivity|exact Hm2]].
        -- apply postP_ret; [fl_triv|]. intros _. split; [reflexivity|exact Hm2].
      * apply loop2_cmp; [exact HpF|exact Hpd| |intros Hd; discriminate Hd].
        apply mall_set; [exact Hm1|]. eapply (Pent_ok G tbl s a id body Htbl Hnth). exact HpF.
  - destruct (is_pe (xk (enh_rewrite (fid_attrs (nid a)) true loc x))); apply Hfail; reflexivity.
  - apply Hfail. reflexivity.
Qed.

Lemma forward_cmp loc d m obd : memo_ok m ->
  pparse f (mkargs body s loc d false) = Some obd ->
  (d = true -> exists obF, pparse f (mkargs body s loc false false) = Some obF) ->
  postf loc obd (lr_forward_x recx a body s loc d m).
Proof.
  intros Hm Hpd Hpk. unfold lr_forward_x.
  destruct (memo_get m (loc, nid a, d)) as [[[pl [r|x]] m1]|] eqn:Eg.
  - apply postP_ret; [fl_triv|]. intros _. destruct (mall_get Pent _ _ _ _ Eg Hm) as [Hp Hm1].
    destruct (entry_ok_here G tbl s a id body Htbl Hnth _ _ _ (Hp eq_refl)) as (fa & oba & Hpa & n & -> & Ha).
    rewrite Nat2Z.id. rewrite (pdet G _ _ _ _ _ Hpd Hpa). split; [symmetry; exact Ha|exact Hm1].
  - destruct (is_seed (loc, nid a, d) (pl, MExc x)) eqn:Es; (apply postP_ret; [fl_triv|]); intros Hc; [discriminate Hc|].
    destruct (mall_get Pent _ _ _ _ Eg Hm) as [Hp Hm1].
    destruct (entry_ok_here G tbl s a id body Htbl Hnth _ _ _ (Hp Es)) as (fa & oba & Hpa & Ha).
    rewrite (pdet G _ _ _ _ _ Hpd Hpa). split; [symmetry; exact Ha|exact Hm1].
  - replace (length s + 3) with (S (S (length s + 1))) by lia.
    destruct d.
    + destruct (Hpk eq_refl) as [obF HpF].
      apply (loop1_cmp loc true _ obF obd); [exact HpF|exact Hpd| |intros _; apply keep_set2'].
      apply mall_set; [apply mall_set; [exact Hm|]|]; apply (Pent_seed G tbl s a).
    + apply (loop1_cmp loc false _ obd obd); [exact Hpd|exact Hpd| |intros Hd; discriminate Hd].
      apply mall_set; [exact Hm|]. apply (Pent_seed G tbl s a).
Qed.
End Fwd.
End Rec.

(* what the plain `_parseNoCache` of a Forward does: pre-parse, the body, the code after parseImpl *)
Lemma fwd_plain (rec : args -> option outcome) a i id body loc d p : nth_error G id = Some body ->
  let e := Fwd a i (Some id) in
  let pre := if p && callpre a then pre_parse escape e s loc (fun l => Ret (Ok l pr_empty)) else Ret (Ok loc pr_empty) in
  match run rec pre with
  | None => run rec (step G (mkargs e s loc d p)) = None
  | Some (Ok l _) => run rec (step G (mkargs e s loc d p)) =
                     match rec (mkargs body s l d false) with
                     | None => None
                     | Some ob => run rec
                         match ob with
                         | Ok l' r => step_k e s d l (inr (l', RPR r))
                         | Div => Ret Div
                         | Err x => fail_of (step_k e s d l) (enh_rewrite a true l x)
                         end
                     end
  | Some o => run rec (step G (mkargs e s loc d p)) = Some o
  end.
Proof.
  intros En e pre.
  assert (HK : forall l, run rec (impl G e s l d (step_k e s d l)) =
              match rec (mkargs body s l d false) with
              | None => None
              | Some ob => run rec
                  match ob with
                  | Ok l' r => step_k e s d l (inr (l', RPR r))
                  | Div => Ret Div
                  | Err x => fail_of (step_k e s d l) (enh_rewrite a true l x)
                  end
              end).
  { intros l. subst e. cbn [impl]. rewrite En. unfold call. cbn [run attrs_of].
    destruct (rec (mkargs body s l d false)) as [[l' r|x|]|]; reflexivity. }
  rewrite (step_unfold G (mkargs e s loc d p)). cbn [a_e a_s a_loc a_do a_pre mkargs]. subst pre.
  replace (attrs_of e) with a by (subst e; reflexivity).
  destruct (p && callpre a).
  - pose proof (pre_split rec e s loc (fun l => impl G e s l d (step_k e s d l))) as Hs.
    destruct (run rec (pre_parse escape e s loc (fun l => Ret (Ok l pr_empty)))) as [[l r|x|]|]; try exact Hs.
    rewrite Hs. apply HK.
  - cbn [run]. apply HK.
Qed.

Hypothesis Hpt : peek_total G s.

Theorem parse_lr_cmp : forall f F m ar o, f <= F -> Cs ar -> memo_ok m -> pparse f ar = Some o -> post o (parse_lr_x G F m ar).
Proof.
  induction f as [|f IH]; intros F m ar o Hle HC Hm Hp; [discriminate|].
  destruct F as [|F]; [lia|]. assert (Hle' : f <= F) by lia. clear Hle.
  cbn [parse] in Hp. cbn [parse_lr_x].
  assert (Hrec : forall m a o, Cs a -> memo_ok m -> pparse f a = Some o -> post o (parse_lr_x G F m a)).
  { intros m0 a0 o0. apply IH. exact Hle'. }
  assert (Hkx : forall loc0 fid0 m a o m', parse_lr_x G F m a = Some (o, m', fl0) -> keep loc0 fid0 m -> keep loc0 fid0 m').
  { intros loc0 fid0 m0 a0 o0 m0' Hx. apply x_clean_t in Hx. eapply lr_keep. exact Hx. }
  pose proof (runm_cmp (parse_lr_x G F) f Hrec) as Hrun.
  assert (Hgen : post o (runm_x (parse_lr_x G F) m (step G ar))).
  { apply Hrun; [apply (K_step G tbl s HG); exact HC|exact Hm|exact Hp]. }
  destruct ar as [e s0 loc d p]. destruct HC as [Hs Hw]. cbn [a_e a_s a_loc a_do a_pre] in *. subst s0.
  destruct e as [a i t|a i kd es|a i kd c|a i z body0 ne|a i target incl ig2 fo|a i [id|]]; try exact Hgen.
  destruct (nth_error G id) as [body|] eqn:En; [|exact Hgen].
  clear Hgen.
  assert (Htbl : tbl (nid a) = Some id).
  { pose proof Hw as Hw'. cbn [fw] in Hw'. apply andb_prop in Hw' as [_ Hw'].
    destruct (tbl (nid a)) as [id'|]; [|discriminate]. apply Nat.eqb_eq in Hw'. subst. reflexivity. }
  pose proof (fwd_plain (pparse f) a i id body loc d p En) as Hpl. cbv zeta in Hpl.
  remember (Fwd a i (Some id)) as e eqn:Ee.
  remember (if p && callpre a then pre_parse escape e s loc (fun l => Ret (Ok l pr_empty)) else Ret (Ok loc pr_empty)) as pre eqn:Epre0.
  assert (HCpre : calls Cs pre).
  { subst pre. destruct (p && callpre a); [|apply C_ret].
    apply (K_pre_parse tbl s); [exact Hw|intros; apply C_ret|intros; apply C_ret]. }
  change (run (pparse f) (step G (mkargs e s loc d p)) = Some o) in Hp.
  destruct (run (pparse f) pre) as [[l rp|x|]|] eqn:Epre.
  - rewrite Hpl in Hp. destruct (pparse f (mkargs body s l d false)) as [ob|] eqn:Eb; [|discriminate].
    eapply postP_bind; [exact (Hrun pre HCpre m _ Hm Epre)|].
    intros opre m1 [-> Hm1].
    eapply postP_bind.
    { apply (forward_cmp (parse_lr_x G F) f Hrec Hkx a id body Htbl En l d m1 ob Hm1 Eb).
      intros ->. exact (Hpt f id body l ob En Eb). }
    intros o2 m2 [-> Hm2].
    destruct ob as [l' r|x|]; cbn [fwd_ans].
    + apply Hrun; [apply (K_step_k tbl s)|exact Hm2|exact Hp].
    + rewrite <- enh_fid. apply Hrun; [apply (K_step_k tbl s)|exact Hm2|exact Hp].
    + cbn [run] in Hp. injection Hp as <-. apply postP_ret; [fl_triv|]. intros _. split; [reflexivity|exact Hm2].
  - rewrite Hpl in Hp. injection Hp as <-.
    eapply postP_bind; [exact (Hrun pre HCpre m _ Hm Epre)|].
    intros opre m1 [-> Hm1]. apply postP_ret; [fl_triv|]. intros _. split; [reflexivity|exact Hm1].
  - rewrite Hpl in Hp. injection Hp as <-.
    eapply postP_bind; [exact (Hrun pre HCpre m _ Hm Epre)|].
    intros opre m1 [-> Hm1]. apply postP_ret; [fl_triv|]. intros _. split; [reflexivity|exact Hm1].
  - rewrite Hpl in Hp. discriminate.
Qed.
End Cmp.

(* ------------------------------------------------------------------------------------------- *)
(* the packaged statements (Props/C03.v)                                                         *)
(* ------------------------------------------------------------------------------------------- *)
(* termination + same outcome, with the SAME fuel as the plain parser (or more), up to the first flag *)
Theorem lr_complete_x : forall (G : env) (tbl : nat -> option nat) (s : str) f fuel (m : memo) (a : args) o,
  forallb (fw tbl) G = true -> fw tbl (a_e a) = true -> a_s a = s ->
  memo_ok G tbl s m -> peek_total G s ->
  parse (step G) f a = Some o -> f <= fuel ->
  exists o' m' fl, parse_lr_x G fuel m a = Some (o', m', fl) /\
    key_error fl = false /\ (loc_mono G s -> seed_returned fl = false) /\
    (fl_clean fl = true ->
       o' = o /\ memo_ok G tbl s m' /\ parse_lr_t G fuel m a = Some (o, m', fl0) /\ parse_lr G fuel m a = Some (o, m')).
Proof.
  intros G tbl s f fuel m a o HG Hw Hs Hm Hpt Hp Hle.
  destruct (parse_lr_cmp G tbl s HG Hpt f fuel m a o Hle (conj Hs Hw) Hm Hp) as (o' & m' & fl & Hx & [HF1 HF2] & H).
  exists o', m', fl. split; [exact Hx|]. split; [exact HF1|]. split; [exact HF2|].
  intros Hc. destruct (H Hc) as [-> Hm']. apply fl_clean_0 in Hc. subst fl.
  pose proof (x_clean_t G _ _ _ _ _ Hx) as Ht.
  split; [reflexivity|]. split; [exact Hm'|]. split; [exact Ht|]. eapply parse_lr_t_erase. exact Ht.
Qed.

(* the dichotomy: the left-recursion handler answers what the plain parser answers, with the same fuel and without a flag,
   OR a flag is raised while the run is still on the plain parser's path -- and then no fuel gives a flag-free answer.
   Silent non-termination (out of fuel for every fuel, no flag) is excluded. *)
Theorem lr_complete : forall (G : env) (tbl : nat -> option nat) (s : str) f fuel (m : memo) (a : args) o,
  forallb (fw tbl) G = true -> fw tbl (a_e a) = true -> a_s a = s ->
  memo_ok G tbl s m -> peek_total G s ->
  parse (step G) f a = Some o -> f <= fuel ->
  (exists m', parse_lr_t G fuel m a = Some (o, m', fl0) /\ parse_lr G fuel m a = Some (o, m') /\ memo_ok G tbl s m')
  \/
  (exists o' m' fl, parse_lr_x G fuel m a = Some (o', m', fl) /\ fl_clean fl = false /\
     key_error fl = false /\ (loc_mono G s -> seed_returned fl = false) /\
     forall fuel' o'' m'', parse_lr_t G fuel' m a <> Some (o'', m'', fl0)).
Proof.
  intros G tbl s f fuel m a o HG Hw Hs Hm Hpt Hp Hle.
  destruct (lr_complete_x G tbl s f fuel m a o HG Hw Hs Hm Hpt Hp Hle) as (o' & m' & fl & Hx & HF1 & HF2 & H).
  destruct (fl_clean fl) eqn:Ec.
  - left. destruct (H eq_refl) as (-> & Hm' & Ht & Hl). exists m'. repeat split; assumption.
  - right. exists o', m', fl. split; [exact Hx|]. split; [exact Ec|]. split; [exact HF1|]. split; [exact HF2|].
    eapply x_flag_genuine; eassumption.
Qed.

(* whenever SOME fuel gives a flag-free left-recursion run, the plain parser's own fuel is enough for it *)
Corollary lr_complete_clean : forall (G : env) (tbl : nat -> option nat) (s : str) f fuel fuel0 (m : memo) (a : args) o o0 m0,
  forallb (fw tbl) G = true -> fw tbl (a_e a) = true -> a_s a = s ->
  memo_ok G tbl s m -> peek_total G s ->
  parse (step G) f a = Some o -> f <= fuel ->
  parse_lr_t G fuel0 m a = Some (o0, m0, fl0) ->
  exists m', parse_lr_t G fuel m a = Some (o, m', fl0) /\ parse_lr G fuel m a = Some (o, m') /\ memo_ok G tbl s m'.
Proof.
  intros G tbl s f fuel fuel0 m a o o0 m0 HG Hw Hs Hm Hpt Hp Hle H0.
  destruct (lr_complete G tbl s f fuel m a o HG Hw Hs Hm Hpt Hp Hle) as [H|(o' & m' & fl & _ & _ & _ & _ & H)]; [exact H|].
  exfalso. exact (H _ _ _ H0).
Qed.

(* `peek_total` for grammars whose Forward bodies are tokens (a token makes no `_parse` call: it answers with any fuel >= 1) *)
Definition is_tok (e : expr) : bool := match e with Tok _ _ _ => true | _ => false end.

Lemma tok_answers (G : env) a i t s loc d f : exists ob, parse (step G) (S f) (mkargs (Tok a i t) s loc d false) = Some ob.
Proof.
  cbn [parse]. rewrite step_unfold. cbn [a_e a_s a_loc a_do a_pre mkargs andb impl]. unfold step_k.
  destruct (tok_impl (attrs_of (Tok a i t)) t s loc) as [l r|x|].
  - unfold finish. destruct (acts (attrs_of (Tok a i t))); [eexists; reflexivity|].
    destruct (d || calltry (attrs_of (Tok a i t))); [|eexists; reflexivity].
    destruct (run_actions _ _ _ _); eexists; reflexivity.
  - eexists; reflexivity.
  - destruct (mayidx (attrs_of (Tok a i t)) || Nat.leb (length s) loc); eexists; reflexivity.
Qed.

Theorem peek_total_tokens : forall (G : env) (s : str), forallb is_tok G = true -> peek_total G s.
Proof.
  intros G s HG f id body loc ob Hn Hp.
  rewrite forallb_forall in HG. pose proof (HG body (nth_error_In _ _ Hn)) as Hb.
  destruct body as [a i t| | | | |]; try discriminate Hb.
  destruct f as [|f]; [discriminate Hp|]. apply tok_answers.
Qed.

(* ------------------------------------------------------------------------------------------- *)
(* entry points: the drivers of Model/Entry.v over the stopping handler                          *)
(* ------------------------------------------------------------------------------------------- *)
(* Some (Some r, m, fl0): answered r without a flag; Some (None, m, fl): stopped at the first flagged top-level call *)
Fixpoint drunm_x {R} (rec : memo -> args -> res_t) (m : memo) (p : dprog R) : option (option R * memo * flags) :=
  match p with
  | DRet r => Some (Some r, m, fl0)
  | DCall a k =>
    match rec m a with
    | None => None
    | Some (o, m', f) => if fl_clean f then drunm_x rec m' (k o) else Some (None, m', f)
    end
  end.

Theorem drunm_cmp {R} : forall (G : env) (tbl : nat -> option nat) (s : str) (p : dprog R) f fuel (m : memo) r,
  forallb (fw tbl) G = true -> dcalls (Cs tbl s) p -> memo_ok G tbl s m -> peek_total G s ->
  drun (parse (step G) f) p = Some r -> f <= fuel ->
  exists r' m' fl, drunm_x (parse_lr_x G fuel) m p = Some (r', m', fl) /\
    (fl_clean fl = true ->
       r' = Some r /\ memo_ok G tbl s m' /\ drunm_t (parse_lr_t G fuel) m p = Some (r, m', fl0)).
Proof.
  intros G tbl s p f fuel m r HG HC Hm Hpt Hp Hle. revert m Hm Hp.
  induction p as [r0|a k IH]; intros m Hm Hp; cbn [drun drunm_x drunm_t] in *.
  - injection Hp as <-. exists (Some r0), m, fl0. split; [reflexivity|]. intros _. repeat split. exact Hm.
  - inversion HC as [|a0 k0 Ha Hk]; subst.
    destruct (parse (step G) f a) as [o1|] eqn:E; [|discriminate].
    destruct (parse_lr_cmp G tbl s HG Hpt f fuel m a o1 Hle Ha Hm E) as (o' & m1 & fl1 & Hx & _ & H1).
    rewrite Hx. destruct (fl_clean fl1) eqn:Ec.
    + destruct (H1 eq_refl) as [-> Hm1]. apply fl_clean_0 in Ec. subst fl1.
      destruct (IH o1 (Hk o1) m1 Hm1 Hp) as (r' & m' & fl & Hd & H2).
      exists r', m', fl. split; [exact Hd|]. intros Hc. destruct (H2 Hc) as (-> & Hm' & Ht).
      split; [reflexivity|]. split; [exact Hm'|]. rewrite (x_clean_t G _ _ _ _ _ Hx), Ht. reflexivity.
    + exists None, m1, fl1. split; [reflexivity|]. intros Hc. congruence.
Qed.

Theorem lr_complete_parse_string : forall (G : env) tl dw root (keeptabs : bool) input parse_all (cap : option nat) f fuel r,
  ids_consistent tl G root = true ->
  peek_total G (if keeptabs then input else expandtabs input) ->
  drun (parse (step G) f) (parse_string dw root keeptabs input parse_all) = Some r -> f <= fuel ->
  exists r' m' fl, drunm_x (parse_lr_x G fuel) (memo_empty cap) (parse_string dw root keeptabs input parse_all) = Some (r', m', fl) /\
    (fl_clean fl = true ->
       r' = Some r /\
       drunm_t (parse_lr_t G fuel) (memo_empty cap) (parse_string dw root keeptabs input parse_all) = Some (r, m', fl0) /\
       drunm (parse_lr G fuel) (memo_empty cap) (parse_string dw root keeptabs input parse_all) = Some (r, m')).
Proof.
  intros G tl dw root kt input pa cap f fuel r Hid Hpt Hp Hle.
  destruct (ids_consistent_split _ _ _ Hid) as [Hw HG].
  destruct (drunm_cmp G (tbl_get tl) _ _ f fuel (memo_empty cap) r HG (parse_string_calls _ dw root kt input pa Hw)
              (memo_ok_empty G _ _ cap) Hpt Hp Hle) as (r' & m' & fl & Hd & H).
  exists r', m', fl. split; [exact Hd|]. intros Hc. destruct (H Hc) as (-> & _ & Ht).
  split; [reflexivity|]. split; [exact Ht|]. rewrite <- drunm_er, Ht. reflexivity.
Qed.
