(* C01: the proved class is contained in the reference class on which the reading `peg` is compared with the
   implementation (Model/Peg.v): in_class G e = true -> in_ref_class G e = true. *)
From Coq Require Import List ZArith NArith Bool.
From PP Require Import Model.Str Model.Results Model.Prog Model.Core Model.Peg.
Import ListNotations.

Section Incl.
Variable G : env.

Fixpoint in_class_ref (e : expr) {struct e} : in_class G e = true -> in_ref_class G e = true.
Proof.
  destruct e as [a i t|a i k es|a i k c|a i z b ne|a i c inc ig fo|a i id]; cbn [in_class in_ref_class]; intros H.
  - exact H.
  - assert (Hl : (fix all (l : list expr) : bool := match l with [] => true | x :: r => in_class G x && all r end) es = true ->
                 (fix all (l : list expr) : bool := match l with [] => true | x :: r => in_ref_class G x && all r end) es = true).
    { clear H. induction es as [|x r IHr]; intros H; [reflexivity|].
      apply andb_prop in H as [H1 H2]. rewrite (in_class_ref x H1), (IHr H2). reflexivity. }
    destruct k; try discriminate H; apply andb_prop in H as [H1 H2]; rewrite H1, (Hl H2); reflexivity.
  - apply andb_prop in H as [H Hk]. apply andb_prop in H as [H Hc]. rewrite H, (in_class_ref c Hc). cbn [andb].
    destruct k; try discriminate Hk; try exact Hk.
    apply andb_prop in Hk as [Hk _]. exact Hk.
  - apply andb_prop in H as [H Hne]. apply andb_prop in H as [H Hb]. rewrite H, (in_class_ref b Hb). cbn [andb].
    destruct ne as [ne|]; [exact (in_class_ref ne Hne)|reflexivity].
  - destruct ig; [|discriminate H]. destruct fo; [discriminate H|].
    apply andb_prop in H as [H Hn]. apply andb_prop in H as [H Hc]. rewrite H, (in_class_ref c Hc), Hn. reflexivity.
  - exact H.
Qed.

Lemma env_in_class_ref : env_in_class G = true -> env_in_ref_class G = true.
Proof.
  unfold env_in_class, env_in_ref_class. rewrite !forallb_forall. intros H x Hx. apply in_class_ref. apply H. exact Hx.
Qed.
End Incl.
