(* Proofs for Model/Builtins.v:
   - rx_match decides Lang (derivatives with language-preserving smart constructors);
   - a checked bisimulation certificate implies language equality (equiv_check_sound / incl_check_sound);
   - plain: for the lookaround/anchor-free fragment, re_fullmatch r = rx_match (plain r)  (through RegexProofs.re_fullmatch_iff);
   - the per-expression facts of C18 (every check is a closed vm_compute on terms regenerated from the source). *)
From Coq Require Import List NArith ZArith Arith Bool Lia.
From PP Require Import Model.Str Model.Regex Proofs.RegexProofs Model.Builtins Gen.GenRegex.
Import ListNotations.

Lemma bool_eq_iff : forall a b : bool, (a = true <-> b = true) -> a = b.
Proof. intros [] [] [H1 H2]; auto; try (symmetry; auto); try discriminate (H1 eq_refl). Qed.

(* ------------------------------------------------------------------ syntactic equality is sound *)
Lemma ccat_eqb_eq : forall a b, ccat_eqb a b = true -> a = b.
Proof. destruct a, b; simpl; congruence. Qed.

Lemma citem_eqb_eq : forall a b, citem_eqb a b = true -> a = b.
Proof.
  destruct a, b; simpl; try discriminate; intros H.
  - apply N.eqb_eq in H. congruence.
  - apply andb_true_iff in H. destruct H as [H1 H2]. apply N.eqb_eq in H1. apply N.eqb_eq in H2. congruence.
  - apply andb_true_iff in H. destruct H as [H1 H2]. apply eqb_prop in H1. apply ccat_eqb_eq in H2. congruence.
Qed.

Lemma items_eqb_eq : forall a b, items_eqb a b = true -> a = b.
Proof.
  induction a; destruct b; simpl; try discriminate; auto.
  intros H. apply andb_true_iff in H. destruct H as [H1 H2]. apply citem_eqb_eq in H1. apply IHa in H2. congruence.
Qed.

Lemma cls_eqb_eq : forall p q, cls_eqb p q = true -> p = q.
Proof.
  destruct p, q; simpl. intros H. apply andb_true_iff in H. destruct H as [H H3].
  apply andb_true_iff in H. destruct H as [H1 H2].
  apply eqb_prop in H1. apply eqb_prop in H2. apply items_eqb_eq in H3. congruence.
Qed.

Lemma rx_eqb_eq : forall a b, rx_eqb a b = true -> a = b.
Proof.
  induction a; destruct b; simpl; try discriminate; auto; intros H.
  - apply cls_eqb_eq in H. congruence.
  - apply andb_true_iff in H. destruct H as [H1 H2]. apply IHa1 in H1. apply IHa2 in H2. congruence.
  - apply andb_true_iff in H. destruct H as [H1 H2]. apply IHa1 in H1. apply IHa2 in H2. congruence.
  - apply andb_true_iff in H. destruct H as [H1 H2]. apply IHa1 in H1. apply IHa2 in H2. congruence.
  - apply IHa in H. congruence.
  - apply IHa in H. congruence.
Qed.

(* ------------------------------------------------------------------ nullable *)
Lemma nullable_iff : forall r, nullable r = true <-> Lang r [].
Proof.
  induction r; simpl.
  - split; [discriminate | tauto].
  - split; auto.
  - split; [discriminate | intros (c & H & _); discriminate].
  - rewrite andb_true_iff, IHr1, IHr2. split.
    + intros [H1 H2]. exists [], []. auto.
    + intros (u & v & E & H1 & H2). symmetry in E. apply app_eq_nil in E. destruct E; subst. auto.
  - rewrite orb_true_iff, IHr1, IHr2. tauto.
  - rewrite andb_true_iff, IHr1, IHr2. tauto.
  - rewrite negb_true_iff. split.
    + intros H HL. apply IHr in HL. congruence.
    + intros H. destruct (nullable r) eqn:E; auto. exfalso. apply H. apply IHr. reflexivity.
  - split; auto. intros _. exists []. simpl. auto.
Qed.

(* ------------------------------------------------------------------ smart constructors preserve the language *)
Lemma is_zero_true : forall r, is_zero r = true -> r = XZero.
Proof. destruct r; simpl; congruence. Qed.
Lemma is_eps_true : forall r, is_eps r = true -> r = XEps.
Proof. destruct r; simpl; congruence. Qed.
Lemma is_top_true : forall r, is_top r = true -> r = XNot XZero.
Proof. destruct r; simpl; try congruence. destruct r; simpl; congruence. Qed.

Lemma mkCat_iff : forall a b w, Lang (mkCat a b) w <-> Lang (XCat a b) w.
Proof.
  intros a b w. unfold mkCat.
  destruct (is_zero a) eqn:Za.
  { apply is_zero_true in Za. subst. simpl. split; [tauto | intros (u & v & _ & [] & _)]. }
  destruct (is_zero b) eqn:Zb.
  { apply is_zero_true in Zb. subst. simpl. split; [tauto | intros (u & v & _ & _ & [])]. }
  simpl orb. cbv iota.
  destruct (is_eps a) eqn:Ea.
  { apply is_eps_true in Ea. subst. simpl. split.
    - intros H. exists [], w. auto.
    - intros (u & v & -> & -> & H). exact H. }
  destruct (is_eps b) eqn:Eb.
  { apply is_eps_true in Eb. subst. simpl. split.
    - intros H. exists w, []. rewrite app_nil_r. auto.
    - intros (u & v & -> & H & ->). rewrite app_nil_r. exact H. }
  tauto.
Qed.

Lemma big_alt_iff : forall l w, Lang (big_alt l) w <-> exists r, In r l /\ Lang r w.
Proof.
  induction l as [|x t IH]; intros w.
  - simpl. split; [tauto | intros (r & [] & _)].
  - destruct t as [|y t'].
    + simpl. split.
      * intros H. exists x. auto.
      * intros (r & [<- | []] & H). exact H.
    + change (big_alt (x :: y :: t')) with (XAlt x (big_alt (y :: t'))). simpl Lang. rewrite IH. split.
      * intros [H | (r & Hin & H)]; [exists x; simpl; auto | exists r; simpl In; auto].
      * intros (r & [<- | Hin] & H); [left; exact H | right; exists r; auto].
Qed.

Lemma alts_iff : forall r w, Lang r w <-> exists x, In x (alts r) /\ Lang x w.
Proof.
  assert (single : forall r w, Lang r w <-> exists x, In x [r] /\ Lang x w).
  { intros. split; [intros H; exists r; simpl; auto | intros (x & [<- | []] & H); exact H]. }
  induction r; intros w; try apply single.
  - simpl. split; [tauto | intros (x & [] & _)].
  - simpl alts. simpl Lang. rewrite IHr1, IHr2. split.
    + intros [(x & Hin & H) | (x & Hin & H)]; exists x; rewrite in_app_iff; auto.
    + intros (x & Hin & H). rewrite in_app_iff in Hin. destruct Hin; [left | right]; exists x; auto.
Qed.

Lemma add_new_in : forall acc x z, In z (add_new acc x) <-> In z acc \/ z = x.
Proof.
  intros acc x z. unfold add_new. destruct (existsb (rx_eqb x) acc) eqn:E.
  - split; auto. intros [H | ->]; auto.
    apply existsb_exists in E. destruct E as (y & Hy & Hxy). apply rx_eqb_eq in Hxy. subst. exact Hy.
  - rewrite in_app_iff. simpl. split; intros [H | H]; auto. destruct H; auto. contradiction.
Qed.

Lemma dedupe_in : forall l z, In z (dedupe l) <-> In z l.
Proof.
  assert (G : forall l acc z, In z (fold_left add_new l acc) <-> In z acc \/ In z l).
  { induction l; intros; simpl.
    - tauto.
    - rewrite IHl, add_new_in. split; intros H; intuition. }
  intros. unfold dedupe. rewrite G. simpl. tauto.
Qed.

Lemma mkAlt_iff : forall a b w, Lang (mkAlt a b) w <-> Lang a w \/ Lang b w.
Proof.
  intros. unfold mkAlt. rewrite big_alt_iff. rewrite (alts_iff a), (alts_iff b). split.
  - intros (r & Hin & H). rewrite dedupe_in, in_app_iff in Hin. destruct Hin; [left | right]; exists r; auto.
  - intros [(x & Hin & H) | (x & Hin & H)]; exists x; rewrite dedupe_in, in_app_iff; auto.
Qed.

Lemma mkAnd_iff : forall a b w, Lang (mkAnd a b) w <-> Lang a w /\ Lang b w.
Proof.
  intros a b w. unfold mkAnd.
  destruct (is_zero a) eqn:Za.
  { apply is_zero_true in Za. subst. simpl. tauto. }
  destruct (is_zero b) eqn:Zb.
  { apply is_zero_true in Zb. subst. simpl. tauto. }
  simpl orb. cbv iota.
  destruct (is_top a) eqn:Ta.
  { apply is_top_true in Ta. subst. simpl. tauto. }
  destruct (is_top b) eqn:Tb.
  { apply is_top_true in Tb. subst. simpl. tauto. }
  destruct (rx_eqb a b) eqn:E.
  { apply rx_eqb_eq in E. subst. tauto. }
  simpl. tauto.
Qed.

(* ------------------------------------------------------------------ derivatives *)
Lemma star_cons : forall a c w,
  Lang (XStar a) (c :: w) -> exists u v, w = u ++ v /\ Lang a (c :: u) /\ Lang (XStar a) v.
Proof.
  intros a c w (ws & E & F). revert E F. induction ws as [|x ws IH]; simpl; intros E F.
  - discriminate.
  - inversion F; subst. destruct x as [|c' u].
    + simpl in E. apply IH; auto.
    + simpl in E. injection E as -> ->. exists u, (concat ws). split; auto. split; auto.
      exists ws. auto.
Qed.

Lemma deriv_iff : forall r c w, Lang (deriv c r) w <-> Lang r (c :: w).
Proof.
  induction r; intros c w.
  - simpl. tauto.
  - simpl. split; [tauto | discriminate].
  - simpl. destruct (cls_mem p c) eqn:E; simpl.
    + split.
      * intros ->. exists c. auto.
      * intros (c0 & H & _). injection H as _ H. exact H.
    + split; [tauto|]. intros (c0 & H & M). injection H as <- _. congruence.
  - (* XCat *)
    assert (L : (exists u v, w = u ++ v /\ Lang (deriv c r1) u /\ Lang r2 v) ->
                exists u v, c :: w = u ++ v /\ Lang r1 u /\ Lang r2 v).
    { intros (u & v & -> & H1 & H2). exists (c :: u), v. rewrite IHr1 in H1. auto. }
    simpl deriv. destruct (nullable r1) eqn:N.
    + rewrite mkAlt_iff, mkCat_iff. simpl Lang. split.
      * intros [H | H]; [apply L; exact H|].
        exists [], (c :: w). rewrite IHr2 in H. apply nullable_iff in N. auto.
      * intros (u & v & E & H1 & H2). destruct u as [|c' u].
        -- simpl in E. subst v. right. apply IHr2. exact H2.
        -- simpl in E. injection E as <- ->. left. exists u, v. rewrite IHr1. auto.
    + rewrite mkCat_iff. simpl Lang. split; [apply L|].
      intros (u & v & E & H1 & H2). destruct u as [|c' u].
      * apply nullable_iff in H1. congruence.
      * simpl in E. injection E as <- ->. exists u, v. rewrite IHr1. auto.
  - simpl deriv. rewrite mkAlt_iff. simpl. rewrite IHr1, IHr2. tauto.
  - simpl deriv. rewrite mkAnd_iff. simpl. rewrite IHr1, IHr2. tauto.
  - simpl. rewrite IHr. tauto.
  - simpl deriv. rewrite mkCat_iff. split.
    + intros (u & v & -> & H1 & (ws & -> & F)). rewrite IHr in H1.
      exists ((c :: u) :: ws). simpl. auto.
    + intros H. apply star_cons in H. destruct H as (u & v & -> & H1 & H2).
      exists u, v. rewrite IHr. auto.
Qed.

Theorem rx_match_iff : forall s r, rx_match r s = true <-> Lang r s.
Proof.
  induction s; intros r; simpl.
  - apply nullable_iff.
  - rewrite IHs. apply deriv_iff.
Qed.

(* the recogniser is compositional *)
Lemma rx_match_alt : forall a b s, rx_match (XAlt a b) s = rx_match a s || rx_match b s.
Proof.
  intros. apply bool_eq_iff. rewrite orb_true_iff, !rx_match_iff. simpl. tauto.
Qed.
Lemma rx_match_and : forall a b s, rx_match (XAnd a b) s = rx_match a s && rx_match b s.
Proof.
  intros. apply bool_eq_iff. rewrite andb_true_iff, !rx_match_iff. simpl. tauto.
Qed.
Lemma rx_match_not : forall a s, rx_match (XNot a) s = negb (rx_match a s).
Proof.
  intros. apply bool_eq_iff. rewrite negb_true_iff, rx_match_iff. simpl. rewrite <- rx_match_iff.
  destruct (rx_match a s); split; congruence.
Qed.
Lemma rx_match_zero : forall s, rx_match XZero s = false.
Proof.
  intros. destruct (rx_match XZero s) eqn:E; auto. apply rx_match_iff in E. destruct E.
Qed.
Lemma rx_match_over : forall p s, rx_match (over p) s = forallb (cls_mem p) s.
Proof.
  intros p s. apply bool_eq_iff. rewrite rx_match_iff, forallb_forall. unfold over. simpl. split.
  - intros (ws & -> & F) c Hc. apply in_concat in Hc. destruct Hc as (w & Hw & Hc).
    rewrite Forall_forall in F. destruct (F w Hw) as (c0 & -> & M). destruct Hc as [<- | []]. exact M.
  - intros H. exists (map (fun c => [c]) s). split.
    + clear H. induction s; simpl; congruence.
    + apply Forall_forall. intros w Hw. apply in_map_iff in Hw. destruct Hw as (c & <- & Hc). exists c. auto.
Qed.

(* ------------------------------------------------------------------ bisimulation certificates *)
Lemma deriv_agree : forall r c c',
  (forall p, In p (classes r) -> cls_mem p c = cls_mem p c') -> deriv c r = deriv c' r.
Proof.
  induction r; simpl; intros c c' H; auto.
  - rewrite (H p); auto.
  - rewrite (IHr1 c c'), (IHr2 c c'); auto; intros; apply H; rewrite in_app_iff; auto.
  - rewrite (IHr1 c c'), (IHr2 c c'); auto; intros; apply H; rewrite in_app_iff; auto.
  - rewrite (IHr1 c c'), (IHr2 c c'); auto; intros; apply H; rewrite in_app_iff; auto.
  - rewrite (IHr c c'); auto.
  - rewrite (IHr c c'); auto.
Qed.

Lemma classes_within_In : forall r P, classes_within r P = true -> forall p, In p (classes r) -> In p P.
Proof.
  unfold classes_within, cls_in. intros r P H p Hp. rewrite forallb_forall in H. apply H in Hp.
  apply existsb_exists in Hp. destruct Hp as (q & Hq & E). apply cls_eqb_eq in E. subst. exact Hq.
Qed.

Lemma memp_In : forall x l, memp x l = true -> In x l.
Proof.
  unfold memp, pair_eqb. intros [a b] l H. apply existsb_exists in H. destruct H as ([a' b'] & Hin & E).
  simpl in E. apply andb_true_iff in E. destruct E as [E1 E2]. apply rx_eqb_eq in E1. apply rx_eqb_eq in E2.
  subst. exact Hin.
Qed.

Theorem bisim_sound : forall P reps St,
  is_bisim P reps St = true ->
  (forall c, exists c', In c' reps /\ forall p, In p P -> cls_mem p c = cls_mem p c') ->
  forall s a b, In (a, b) St -> rx_match a s = rx_match b s.
Proof.
  intros P reps St HB Hrep. unfold is_bisim in HB. rewrite forallb_forall in HB.
  assert (parts : forall a b, In (a, b) St ->
            nullable a = nullable b /\ classes_within a P = true /\ classes_within b P = true /\
            forall c, In c reps -> In (deriv c a, deriv c b) St).
  { intros a b Hin. pose proof (HB _ Hin) as OK. unfold pair_ok in OK. simpl fst in OK. simpl snd in OK.
    apply andb_true_iff in OK. destruct OK as [OK O4]. apply andb_true_iff in OK. destruct OK as [OK O3].
    apply andb_true_iff in OK. destruct OK as [O1 O2]. repeat split; auto.
    - apply eqb_prop. exact O1.
    - intros c Hc. apply memp_In. rewrite forallb_forall in O4. apply O4. exact Hc. }
  induction s as [|c s IH]; intros a b Hin; destruct (parts a b Hin) as (O1 & O2 & O3 & O4).
  - simpl. exact O1.
  - simpl. destruct (Hrep c) as (c' & Hc' & Hag).
    rewrite (deriv_agree a c c').
    2:{ intros p Hp. apply Hag. exact (classes_within_In a P O2 p Hp). }
    rewrite (deriv_agree b c c').
    2:{ intros p Hp. apply Hag. exact (classes_within_In b P O3 p Hp). }
    apply IH. apply O4. exact Hc'.
Qed.

(* all characters >= B are indistinguishable for classes whose constants are < B (B >= 128) *)
Lemma in_range_big : forall lo hi c B, (hi < B)%N -> (B <= c)%N -> in_range lo hi c = false.
Proof. intros. unfold in_range. apply andb_false_iff. right. apply N.leb_gt. lia. Qed.

Lemma cat_mem_big : forall k c, (128 <= c)%N -> cat_mem k c = false.
Proof.
  intros k c H. destruct k; simpl; unfold is_digit_char, is_word_char, is_space_char;
    repeat rewrite (in_range_big _ _ c 128%N) by lia; simpl; auto.
  apply N.eqb_neq. lia.
Qed.

Lemma citem_mem_big : forall B it c, (128 <= B)%N -> item_bounded B it = true -> (B <= c)%N ->
  citem_mem it c = citem_mem it B.
Proof.
  intros B it c HB Hb Hc. destruct it; simpl in *.
  - apply N.ltb_lt in Hb. transitivity false; [|symmetry]; apply N.eqb_neq; lia.
  - apply N.ltb_lt in Hb. rewrite (in_range_big lo hi c B), (in_range_big lo hi B B); auto; lia.
  - rewrite !cat_mem_big; auto. lia.
Qed.

Lemma items_mem_big : forall B items c, (128 <= B)%N -> forallb (item_bounded B) items = true -> (B <= c)%N ->
  items_mem items c = items_mem items B.
Proof.
  intros B items c HB. unfold items_mem. induction items; simpl; intros Hb Hc; auto.
  apply andb_true_iff in Hb. destruct Hb as [H1 H2]. rewrite (citem_mem_big B a c), IHitems; auto.
Qed.

Lemma ascii_fold_big : forall c, (128 <= c)%N -> ascii_lower c = c /\ ascii_upper c = c.
Proof.
  intros. unfold ascii_lower, ascii_upper, is_upper_ascii, is_lower_ascii.
  rewrite !(in_range_big _ _ c 128%N) by lia. auto.
Qed.

Lemma cls_mem_big : forall B p c, cls_bounded B p = true -> (B <= c)%N -> cls_mem p c = cls_mem p B.
Proof.
  intros B [ic neg items] c Hb Hc. simpl in *. apply andb_true_iff in Hb. destruct Hb as [H1 H2].
  apply N.leb_le in H1. unfold cset_mem.
  destruct (ascii_fold_big c) as [-> ->]; [lia|]. destruct (ascii_fold_big B) as [-> ->]; [lia|].
  rewrite (items_mem_big B items c); auto.
Qed.

Lemma in_nrange : forall n k, k <= n -> In (N.of_nat k) (nrange n).
Proof.
  induction n; intros k H; simpl.
  - left. replace k with 0 by lia. reflexivity.
  - rewrite in_app_iff. destruct (Nat.eq_dec k (S n)).
    + right. subst. simpl. auto.
    + left. apply IHn. lia.
Qed.

Lemma reps_cover : forall B P, forallb (cls_bounded (N.of_nat B)) P = true ->
  forall c, exists c', In c' (nrange B) /\ forall p, In p P -> cls_mem p c = cls_mem p c'.
Proof.
  intros B P H c. rewrite forallb_forall in H. destruct (N.leb c (N.of_nat B)) eqn:E.
  - apply N.leb_le in E. exists c. split; auto.
    rewrite <- (N2Nat.id c). apply in_nrange. lia.
  - apply N.leb_gt in E. exists (N.of_nat B). split.
    + apply in_nrange. lia.
    + intros p Hp. apply cls_mem_big; auto. lia.
Qed.

Theorem equiv_check_sound : forall B a b, equiv_check B a b = true -> forall s, rx_match a s = rx_match b s.
Proof.
  intros B a b H s. unfold equiv_check in H. apply andb_true_iff in H. destruct H as [HP H].
  destruct (explore (400 * 500) (nrange B) [(a, b)] []) as [St|]; [|discriminate].
  apply andb_true_iff in H. destruct H as [Hin HB].
  eapply bisim_sound; eauto.
  - apply reps_cover. exact HP.
  - apply memp_In. exact Hin.
Qed.

Theorem incl_check_sound : forall B a b, incl_check B a b = true ->
  forall s, rx_match a s = true -> rx_match b s = true.
Proof.
  intros B a b H s Ha. apply equiv_check_sound with (s := s) in H.
  rewrite rx_match_and, rx_match_not, rx_match_zero, Ha in H. simpl in H.
  destruct (rx_match b s); auto.
Qed.

(* ------------------------------------------------------------------ substrings *)
Lemma firstn_plus : forall (a b : nat) (l : str), firstn (a + b) l = firstn a l ++ firstn b (skipn a l).
Proof.
  induction a; intros b l; simpl; auto. destruct l; simpl.
  - rewrite firstn_nil. reflexivity.
  - f_equal. apply IHa.
Qed.

Lemma skipn_plus : forall (b a : nat) (l : str), skipn a (skipn b l) = skipn (b + a) l.
Proof.
  induction b; intros a l; simpl; auto. destruct l; simpl; auto. apply skipn_nil.
Qed.

Lemma substr_nil : forall (s : str) i, substr s i i = [].
Proof. intros. unfold substr. rewrite Nat.sub_diag. reflexivity. Qed.

Lemma substr_length : forall (s : str) i j, i <= j -> j <= length s -> length (substr s i j) = j - i.
Proof. intros. unfold substr. rewrite firstn_length, skipn_length. lia. Qed.

Lemma substr_all : forall s : str, substr s 0 (length s) = s.
Proof. intros. unfold substr. simpl. rewrite Nat.sub_0_r. apply firstn_all. Qed.

Lemma substr_app : forall (s : str) i m j, i <= m -> m <= j -> j <= length s ->
  substr s i j = substr s i m ++ substr s m j.
Proof.
  intros. unfold substr. replace (j - i) with ((m - i) + (j - m)) by lia.
  rewrite firstn_plus, skipn_plus. replace (i + (m - i)) with m by lia. reflexivity.
Qed.

Lemma app_eq_len : forall (u u' v v' : str), u ++ v = u' ++ v' -> length u = length u' -> u = u' /\ v = v'.
Proof.
  induction u; destruct u'; simpl; intros v v' H L; try discriminate; auto.
  injection H as -> H. destruct (IHu u' v v' H) as [-> ->]; auto.
Qed.

Lemma substr_split : forall (s : str) i j u v, i <= j -> j <= length s -> substr s i j = u ++ v ->
  u = substr s i (i + length u) /\ v = substr s (i + length u) j /\ i + length u <= j.
Proof.
  intros s i j u v H1 H2 E.
  assert (L : length u + length v = j - i) by (rewrite <- app_length, <- E; apply substr_length; auto).
  rewrite (substr_app s i (i + length u) j) in E by lia.
  apply app_eq_len in E.
  - destruct E as [E1 E2]. split; auto. split; auto. lia.
  - rewrite substr_length; lia.
Qed.

Lemma substr_single : forall (s : str) i c, char_at s i = Some c -> substr s i (S i) = [c].
Proof.
  intros s i c. unfold substr, char_at. replace (S i - i) with 1 by lia. revert s.
  induction i; destruct s; simpl; intros H; try discriminate.
  - injection H as ->. reflexivity.
  - apply IHi. exact H.
Qed.

Lemma substr_single_inv : forall (s : str) i j c, i <= j -> j <= length s -> substr s i j = [c] ->
  j = S i /\ char_at s i = Some c.
Proof.
  intros s i j c H1 H2 E.
  assert (L : length (substr s i j) = 1) by (rewrite E; reflexivity). rewrite substr_length in L by auto.
  assert (j = S i) by lia. subst j. split; auto.
  unfold substr, char_at in *. replace (S i - i) with 1 in E by lia. clear H1 H2 L. revert s E.
  induction i; destruct s; simpl; intros E; try discriminate.
  - injection E as ->. reflexivity.
  - apply IHi. exact E.
Qed.

(* ------------------------------------------------------------------ den (positions in s) against Lang (words) *)
Section Bridge.
  Variable s : str.

  Definition Rep (R : nat -> nat -> Prop) (x : rx) : Prop :=
    forall i j, i <= length s -> (R i j <-> i <= j /\ j <= length s /\ Lang x (substr s i j)).

  Lemma rep_ext : forall (R R' : nat -> nat -> Prop) x, (forall i j, R i j <-> R' i j) -> Rep R x -> Rep R' x.
  Proof. intros R R' x E H i j Hi. rewrite <- E. apply H. exact Hi. Qed.

  Lemma rep_eps : Rep (fun i j => i = j) XEps.
  Proof.
    intros i j Hi. simpl. split.
    - intros ->. rewrite substr_nil. auto.
    - intros (H1 & H2 & H3). assert (L : length (substr s i j) = 0) by (rewrite H3; reflexivity).
      rewrite substr_length in L by auto. lia.
  Qed.

  Lemma rep_cat : forall RA RB xa xb, Rep RA xa -> Rep RB xb ->
    Rep (fun i j => exists m, RA i m /\ RB m j) (XCat xa xb).
  Proof.
    intros RA RB xa xb HA HB i j Hi. simpl. split.
    - intros (m & H1 & H2). apply HA in H1; auto. destruct H1 as (a1 & a2 & a3).
      apply HB in H2; [|lia]. destruct H2 as (b1 & b2 & b3).
      split; [lia|]. split; auto. exists (substr s i m), (substr s m j). split; auto. apply substr_app; auto.
    - intros (H1 & H2 & u & v & E & Hu & Hv). apply substr_split in E; auto. destruct E as (Eu & Ev & Hm).
      exists (i + length u). split.
      + apply HA; auto. split; [lia|]. split; [lia|]. rewrite <- Eu. exact Hu.
      + apply HB; [lia|]. split; [lia|]. split; auto. rewrite <- Ev. exact Hv.
  Qed.

  Lemma rep_alt : forall RA RB xa xb, Rep RA xa -> Rep RB xb -> Rep (fun i j => RA i j \/ RB i j) (XAlt xa xb).
  Proof.
    intros RA RB xa xb HA HB i j Hi. simpl. rewrite (HA i j Hi), (HB i j Hi). tauto.
  Qed.

  Lemma rep_pow : forall R x, Rep R x -> forall n, Rep (iter_rel R n) (xpow n x).
  Proof.
    intros R x HR. induction n; simpl.
    - apply rep_eps.
    - apply (rep_cat R (iter_rel R n)); auto.
  Qed.

  Lemma rep_optpow : forall R x, Rep R x ->
    forall k, Rep (fun i j => exists n, n <= k /\ iter_rel R n i j) (xoptpow k x).
  Proof.
    intros R x HR. induction k; simpl xoptpow.
    - apply (rep_ext (fun i j => i = j)); [|apply rep_eps]. intros i j. split.
      + intros ->. exists 0. simpl. auto.
      + intros (n & Hn & H). assert (n = 0) by lia. subst. exact H.
    - apply (rep_ext (fun i j => i = j \/ exists m, R i m /\ exists n, n <= k /\ iter_rel R n m j)).
      + intros i j. split.
        * intros [-> | (m & H1 & n & Hn & H2)].
          -- exists 0. simpl. split; auto. lia.
          -- exists (S n). split; [lia|]. simpl. eauto.
        * intros (n & Hn & H). destruct n; simpl in H.
          -- left. exact H.
          -- right. destruct H as (m & H1 & H2). exists m. split; auto. exists n. split; auto. lia.
      + apply (rep_alt (fun i j => i = j) (fun i j => exists m, R i m /\ exists n, n <= k /\ iter_rel R n m j)).
        * apply rep_eps.
        * apply (rep_cat R (fun i j => exists n, n <= k /\ iter_rel R n i j)); auto.
  Qed.

  Lemma rep_star : forall R x, Rep R x -> Rep (fun i j => exists n, iter_rel R n i j) (XStar x).
  Proof.
    intros R x HR i j Hi. split.
    - intros (n & H). revert i Hi H. induction n; simpl; intros i Hi H.
      + subst. rewrite substr_nil. split; auto. split; auto. exists []. auto.
      + destruct H as (m & H1 & H2). apply HR in H1; auto. destruct H1 as (a1 & a2 & a3).
        apply IHn in H2; [|lia]. destruct H2 as (b1 & b2 & ws & E & F).
        split; [lia|]. split; auto. exists (substr s i m :: ws). simpl. rewrite <- E. split.
        * apply substr_app; auto.
        * constructor; auto.
    - intros (H1 & H2 & ws & E & F). revert i Hi H1 E. induction ws as [|a ws IH]; simpl; intros i Hi H1 E.
      + exists 0. simpl. assert (L : length (substr s i j) = 0) by (rewrite E; reflexivity).
        rewrite substr_length in L by auto. lia.
      + inversion F as [|? ? Fa Fws]; subst. apply substr_split in E; auto. destruct E as (Eu & Ev & Hm).
        destruct (IH Fws (i + length a)) as (n & Hn); [lia | lia | symmetry; exact Ev |].
        exists (S n). simpl. exists (i + length a). split; auto.
        apply HR; auto. split; [lia|]. split; [lia|]. rewrite <- Eu. exact Fa.
  Qed.

  Lemma any_cls : forall (d : bool) (c : char), cset_mem false true (if d then [] else [CI_char NL]) c = d || negb (N.eqb c NL).
  Proof.
    intros [] c; unfold cset_mem, items_mem; simpl; auto. destruct (N.eqb c NL); reflexivity.
  Qed.

  Lemma plain_rep : forall r x, plain r = Some x -> rep_ok r = true -> Rep (den r s) x.
  Proof.
    induction r; simpl plain; simpl rep_ok; intros x Hp Hok.
    - injection Hp as <-. apply (rep_ext (fun i j => i = j)); [intros; simpl; tauto | apply rep_eps].
    - injection Hp as <-. intros i j Hi. simpl. split.
      + intros (c & Hc & M & ->). pose proof (char_at_lt _ _ _ Hc). split; [lia|]. split; [lia|].
        exists c. split; auto. apply substr_single; auto.
      + intros (H1 & H2 & c & E & M). apply substr_single_inv in E; auto. destruct E as (-> & Hc). exists c. auto.
    - injection Hp as <-. intros i j Hi. cbn [Lang den cls_mem]. split.
      + intros (c & Hc & M & ->). pose proof (char_at_lt _ _ _ Hc). split; [lia|]. split; [lia|].
        exists c. split; [apply substr_single; auto|]. rewrite any_cls. exact M.
      + intros (H1 & H2 & c & E & M). apply substr_single_inv in E; auto. destruct E as (-> & Hc).
        rewrite any_cls in M. exists c. auto.
    - destruct (plain r1) as [x1|]; [|discriminate]. destruct (plain r2) as [x2|]; [|discriminate].
      injection Hp as <-. apply andb_true_iff in Hok. destruct Hok as [O1 O2].
      apply (rep_ext (fun i j => exists m, den r1 s i m /\ den r2 s m j)); [intros; simpl; tauto|].
      apply rep_cat; auto.
    - destruct (plain r1) as [x1|]; [|discriminate]. destruct (plain r2) as [x2|]; [|discriminate].
      injection Hp as <-. apply andb_true_iff in Hok. destruct Hok as [O1 O2].
      apply (rep_ext (fun i j => den r1 s i j \/ den r2 s i j)); [intros; simpl; tauto|].
      apply rep_alt; auto.
    - destruct (plain r) as [x0|]; [|discriminate]. injection Hp as <-.
      apply andb_true_iff in Hok. destruct Hok as [Hok Hb]. apply andb_true_iff in Hok. destruct Hok as [O1 _].
      pose proof (IHr x0 eq_refl O1) as HR. destruct hi as [h|].
      + apply Nat.leb_le in Hb.
        apply (rep_ext (fun i j => exists m, iter_rel (den r s) lo i m /\
                                   exists n, n <= h - lo /\ iter_rel (den r s) n m j)).
        * intros i j. simpl. split.
          -- intros (m & H1 & n & Hn & H2). exists (lo + n). split; [lia|]. split; [lia|].
             eapply iter_rel_app; eauto.
          -- intros (n & H1 & H2 & H3). replace n with (lo + (n - lo)) in H3 by lia.
             apply iter_rel_split in H3. destruct H3 as (m & Ha & Hc). exists m. split; auto.
             exists (n - lo). split; auto. lia.
        * apply (rep_cat (iter_rel (den r s) lo) (fun i j => exists n, n <= h - lo /\ iter_rel (den r s) n i j)).
          -- apply rep_pow; auto.
          -- apply rep_optpow; auto.
      + apply (rep_ext (fun i j => exists m, iter_rel (den r s) lo i m /\ exists n, iter_rel (den r s) n m j)).
        * intros i j. simpl. split.
          -- intros (m & H1 & n & H2). exists (lo + n). split; [lia|]. split; auto.
             eapply iter_rel_app; eauto.
          -- intros (n & H1 & _ & H3). replace n with (lo + (n - lo)) in H3 by lia.
             apply iter_rel_split in H3. destruct H3 as (m & Ha & Hc). exists m. split; auto.
             exists (n - lo). auto.
        * apply (rep_cat (iter_rel (den r s) lo) (fun i j => exists n, iter_rel (den r s) n i j)).
          -- apply rep_pow; auto.
          -- apply rep_star; auto.
    - apply (rep_ext (den r s)); [intros; simpl; tauto|]. apply IHr; auto.
    - discriminate.
    - discriminate.
  Qed.
End Bridge.

(* the CPython-order matcher, used as pattern.fullmatch, recognises exactly the language of the plain form *)
Theorem plain_fullmatch : forall r x, plain r = Some x -> rep_ok r = true ->
  forall s, re_fullmatch r s = rx_match x s.
Proof.
  intros r x Hp Hok s. apply bool_eq_iff. rewrite (re_fullmatch_iff r s Hok), rx_match_iff.
  pose proof (plain_rep s r x Hp Hok 0 (length s) (Nat.le_0_l _)) as H. rewrite substr_all in H.
  rewrite H. split; [tauto|]. intros. repeat split; auto. lia.
Qed.

(* the shape of every syntax theorem of C18 *)
Lemma syntax_by_check : forall B r x g, plain r = Some x -> rep_ok r = true -> equiv_check B x g = true ->
  forall s, re_fullmatch r s = true <-> rx_match g s = true.
Proof.
  intros B r x g Hp Hok He s. rewrite (plain_fullmatch r x Hp Hok s), (equiv_check_sound B x g He s). tauto.
Qed.

(* ------------------------------------------------------------------ the expressions of pyparsing_common *)
Ltac by_check B := unfold ref_integer, ref_signed_integer, ref_hex_integer, ref_real, ref_sci_real, ref_number,
                          ref_fnumber, ref_ieee_float, ref_identifier;
  eapply (syntax_by_check B); [vm_compute; reflexivity | vm_compute; reflexivity | vm_compute; reflexivity].

Lemma integer_syntax : forall s, re_fullmatch re_integer s = true <-> ref_integer s = true.
Proof. by_check 128. Qed.
Lemma signed_integer_syntax : forall s, re_fullmatch re_signed_integer s = true <-> ref_signed_integer s = true.
Proof. by_check 128. Qed.
Lemma hex_integer_syntax : forall s, re_fullmatch re_hex_integer s = true <-> ref_hex_integer s = true.
Proof. by_check 128. Qed.
Lemma real_syntax : forall s, re_fullmatch re_real s = true <-> ref_real s = true.
Proof. by_check 128. Qed.
Lemma sci_real_syntax : forall s, re_fullmatch re_sci_real s = true <-> ref_sci_real s = true.
Proof. by_check 128. Qed.
Lemma fnumber_syntax : forall s, re_fullmatch re_fnumber s = true <-> ref_fnumber s = true.
Proof. by_check 128. Qed.
Lemma ieee_float_syntax : forall s, re_fullmatch re_ieee_float s = true <-> ref_ieee_float s = true.
Proof. by_check 128. Qed.

(* conversions cannot raise: each reference is, by construction, a restriction of Python's literal grammar *)
Lemma and_left : forall a b s, rx_match (XAnd a b) s = true -> rx_match a s = true.
Proof. intros a b s H. rewrite rx_match_and in H. apply andb_true_iff in H. tauto. Qed.

Lemma integer_convertible : forall s, ref_integer s = true -> py_int_literal s = true.
Proof. intros s. apply and_left. Qed.
Lemma signed_integer_convertible : forall s, ref_signed_integer s = true -> py_int_literal s = true.
Proof. intros s. apply and_left. Qed.
Lemma hex_integer_convertible : forall s, ref_hex_integer s = true -> py_int16_literal s = true.
Proof. intros s. apply and_left. Qed.
Lemma real_convertible : forall s, ref_real s = true -> py_float_literal s = true.
Proof. intros s. apply and_left. Qed.
Lemma sci_real_convertible : forall s, ref_sci_real s = true -> py_float_literal s = true.
Proof. intros s. apply and_left. Qed.
Lemma number_convertible : forall s, ref_number s = true -> py_float_literal s = true.
Proof. intros s. apply and_left. Qed.
Lemma fnumber_convertible : forall s, ref_fnumber s = true -> py_float_literal s = true.
Proof. intros s. apply and_left. Qed.
Lemma ieee_float_convertible : forall s, ref_ieee_float s = true -> py_float_literal s = true.
Proof. intros s. apply and_left. Qed.

(* fnumber / ieee_float against their doc strings: exactly the leading-point literals are missing *)
Lemma fnumber_documented_gap : forall s,
  rx_match g_fnumber_documented s = true <-> (ref_fnumber s = true \/ (rx_match g_fnumber_documented s = true /\ rx_match leading_dot s = true)).
Proof.
  intros s. unfold ref_fnumber, g_fnumber, g_fnumber_documented. simpl xand.
  rewrite !rx_match_and, rx_match_not. destruct (rx_match g_py_float s), (rx_match (over alpha_sci) s), (rx_match leading_dot s);
    simpl; intuition congruence.
Qed.

(* number = sci_real | real | signed_integer *)
Lemma number_language : forall s,
  (re_fullmatch re_sci_real s = true \/ re_fullmatch re_real s = true \/ re_fullmatch re_signed_integer s = true)
  <-> ref_number s = true.
Proof.
  intros s.
  assert (E : equiv_check 128 (xalt [g_sci_real; g_real; g_signed_integer]) g_number = true) by (vm_compute; reflexivity).
  apply equiv_check_sound with (s := s) in E. unfold ref_number. rewrite <- E. simpl xalt.
  rewrite !rx_match_alt, !orb_true_iff, sci_real_syntax, real_syntax, signed_integer_syntax. tauto.
Qed.

(* the alternatives are tried in order; the int-typed result is produced exactly for the int() literals *)
Lemma number_float_int_disjoint : forall s,
  ref_signed_integer s = true -> ref_sci_real s = false /\ ref_real s = false.
Proof.
  intros s H.
  assert (E1 : equiv_check 128 (XAnd g_signed_integer g_sci_real) XZero = true) by (vm_compute; reflexivity).
  assert (E2 : equiv_check 128 (XAnd g_signed_integer g_real) XZero = true) by (vm_compute; reflexivity).
  apply equiv_check_sound with (s := s) in E1. apply equiv_check_sound with (s := s) in E2.
  rewrite rx_match_and, rx_match_zero in E1, E2. unfold ref_signed_integer, ref_sci_real, ref_real in *.
  rewrite H in E1, E2. simpl in E1, E2. auto.
Qed.

(* soundness of the MatchFirst model: whatever `number` accepts with parse_all is the literal of the type it converts to *)
Lemma re_match_full : forall r s, rep_ok r = true -> re_match r s 0 = Some (length s) -> re_fullmatch r s = true.
Proof.
  intros r s Hok H. apply re_fullmatch_iff; auto. apply re_match_sound in H; auto.
Qed.

Lemma number_sound : forall s cv, match_first_all number_alts s = Some cv ->
  (cv = ConvFloat /\ (ref_sci_real s = true \/ ref_real s = true) /\ py_float_literal s = true) \/
  (cv = ConvInt 10 /\ ref_signed_integer s = true /\ py_int_literal s = true).
Proof.
  intros s cv. unfold match_first_all, number_alts. simpl first_match.
  destruct (re_match re_sci_real s 0) as [e|] eqn:E1.
  { destruct (Nat.eqb e (length s)) eqn:L; [|discriminate]. apply Nat.eqb_eq in L. subst e. intros H. injection H as <-.
    apply re_match_full in E1; [|vm_compute; reflexivity]. apply sci_real_syntax in E1.
    left. split; [reflexivity|]. split; auto. apply sci_real_convertible; auto. }
  destruct (re_match re_real s 0) as [e|] eqn:E2.
  { destruct (Nat.eqb e (length s)) eqn:L; [|discriminate]. apply Nat.eqb_eq in L. subst e. intros H. injection H as <-.
    apply re_match_full in E2; [|vm_compute; reflexivity]. apply real_syntax in E2.
    left. split; [reflexivity|]. split; auto. apply real_convertible; auto. }
  destruct (re_match re_signed_integer s 0) as [e|] eqn:E3; [|discriminate].
  destruct (Nat.eqb e (length s)) eqn:L; [|discriminate]. apply Nat.eqb_eq in L. subst e. intros H. injection H as <-.
  apply re_match_full in E3; [|vm_compute; reflexivity]. apply signed_integer_syntax in E3.
  right. split; [reflexivity|]. split; auto. apply signed_integer_convertible; auto.
Qed.

(* identifier *)
Lemma identifier_latin1 : forall s, re_fullmatch re_identifier s = true <-> rx_match g_identifier_latin1 s = true.
Proof. eapply (syntax_by_check 256); [vm_compute; reflexivity | vm_compute; reflexivity | vm_compute; reflexivity]. Qed.

Lemma identifier_ascii : forall s, is_ascii s = true ->
  (re_fullmatch re_identifier s = true <-> ref_identifier s = true).
Proof.
  intros s Ha. rewrite identifier_latin1.
  assert (E : equiv_check 256 (XAnd g_identifier_latin1 (over alpha_ascii)) g_identifier_ascii = true) by (vm_compute; reflexivity).
  apply equiv_check_sound with (s := s) in E. unfold ref_identifier. rewrite <- E, rx_match_and, rx_match_over.
  assert (A : forallb (cls_mem alpha_ascii) s = true).
  { unfold is_ascii in Ha. rewrite forallb_forall in *. intros c Hc. apply Ha in Hc. apply N.ltb_lt in Hc.
    unfold alpha_ascii, cls_mem, cset_mem, items_mem. simpl. unfold in_range.
    replace (N.leb 0 c) with true by (symmetry; apply N.leb_le; lia).
    replace (N.leb c 127) with true by (symmetry; apply N.leb_le; lia). reflexivity. }
  rewrite A, andb_true_r. tauto.
Qed.

(* addresses / uuid / iso8601: the pattern against the documented shape *)
Lemma ipv4_syntax : forall s, re_fullmatch re_ipv4_address s = true <-> rx_match g_ipv4_lenient s = true.
Proof. eapply (syntax_by_check 128); [vm_compute; reflexivity | vm_compute; reflexivity | vm_compute; reflexivity]. Qed.

Lemma ipv4_accepts_wellformed : forall s, rx_match g_ipv4_strict s = true -> re_fullmatch re_ipv4_address s = true.
Proof.
  intros s H. apply ipv4_syntax. revert s H. apply (incl_check_sound 128). vm_compute. reflexivity.
Qed.

Lemma uuid_syntax : forall s, re_fullmatch re_uuid s = true <-> rx_match g_uuid s = true.
Proof. eapply (syntax_by_check 128); [vm_compute; reflexivity | vm_compute; reflexivity | vm_compute; reflexivity]. Qed.

Lemma iso8601_date_syntax : forall s, re_fullmatch re_iso8601_date s = true <-> rx_match g_iso_date s = true.
Proof. eapply (syntax_by_check 128); [vm_compute; reflexivity | vm_compute; reflexivity | vm_compute; reflexivity]. Qed.

Lemma iso8601_datetime_syntax : forall s,
  re_fullmatch re_iso8601_datetime s = true <-> rx_match g_iso_datetime_actual s = true.
Proof. eapply (syntax_by_check 128); [vm_compute; reflexivity | vm_compute; reflexivity | vm_compute; reflexivity]. Qed.

Lemma iso8601_datetime_accepts_documented : forall s,
  rx_match g_iso_datetime_documented s = true -> re_fullmatch re_iso8601_datetime s = true.
Proof.
  intros s H. apply iso8601_datetime_syntax. revert s H. apply (incl_check_sound 128). vm_compute. reflexivity.
Qed.

(* ------------------------------------------------------------------ integer values *)
Definition is_dig (c : char) : bool := in_range 48%N 57%N c.
Definition is_hex (c : char) : bool := in_range 48%N 57%N c || in_range 97%N 102%N c || in_range 65%N 70%N c.

Lemma in_range_iff : forall lo hi c, in_range lo hi c = true <-> (lo <= c /\ c <= hi)%N.
Proof. intros. unfold in_range. rewrite andb_true_iff, !N.leb_le. tauto. Qed.

Lemma in_range_false : forall lo hi c, (c < lo \/ hi < c)%N -> in_range lo hi c = false.
Proof.
  intros lo hi c H. destruct (in_range lo hi c) eqn:E; auto. apply in_range_iff in E. lia.
Qed.

Lemma cls_single_range : forall lo hi c, cls_mem (Cls false false [CI_range lo hi]) c = in_range lo hi c.
Proof. intros. unfold cls_mem, cset_mem, items_mem. simpl. destruct (in_range lo hi c); reflexivity. Qed.

Lemma cls_sign : forall c, cls_mem (Cls false false (map CI_char [43; 45]%N)) c = true -> c = 43%N \/ c = 45%N.
Proof.
  intros c. unfold cls_mem, cset_mem, items_mem. simpl.
  destruct (N.eqb c 43%N) eqn:E1; [apply N.eqb_eq in E1; auto|].
  destruct (N.eqb c 45%N) eqn:E2; [apply N.eqb_eq in E2; auto|]. simpl. discriminate.
Qed.

Lemma cls_hex : forall c, cls_mem (Cls false false [CI_range 48%N 57%N; CI_range 97%N 102%N; CI_range 65%N 70%N]) c = is_hex c.
Proof.
  intros. unfold cls_mem, cset_mem, items_mem, is_hex. simpl.
  destruct (in_range 48%N 57%N c), (in_range 97%N 102%N c), (in_range 65%N 70%N c); reflexivity.
Qed.

Lemma star_cls_forallb : forall p w, Lang (XStar (XCls p)) w -> forallb (cls_mem p) w = true.
Proof. intros p w H. rewrite <- rx_match_over. apply rx_match_iff. exact H. Qed.

Lemma forallb_ext' : forall (f g : char -> bool) l, (forall c, f c = g c) -> forallb f l = forallb g l.
Proof. intros f g l H. induction l; simpl; auto. rewrite H, IHl. reflexivity. Qed.

Lemma signed_integer_shape : forall s, ref_signed_integer s = true ->
  exists sg ds, s = sg ++ ds /\ (sg = [] \/ sg = [43%N] \/ sg = [45%N]) /\ ds <> [] /\ forallb is_dig ds = true.
Proof.
  intros s H. unfold ref_signed_integer in H.
  assert (E : equiv_check 128 g_signed_integer (XCat (xopt sign) (xplus digit)) = true) by (vm_compute; reflexivity).
  rewrite (equiv_check_sound _ _ _ E) in H. apply rx_match_iff in H.
  unfold xopt, xplus in H. cbn [Lang] in H.
  destruct H as (u & v & -> & Hu & (u' & v' & -> & (d & -> & Md) & Hstar)).
  apply star_cls_forallb in Hstar.
  exists u, (d :: v'). split; auto. split.
  - destruct Hu as [-> | (c & -> & Mc)]; auto. apply cls_sign in Mc. destruct Mc as [-> | ->]; auto.
  - split; [discriminate|]. simpl. rewrite cls_single_range in Md. unfold is_dig. rewrite Md. simpl.
    rewrite (forallb_ext' _ (cls_mem (Cls false false [CI_range 48%N 57%N]))); [exact Hstar|]. intros c. symmetry. apply cls_single_range.
Qed.

Lemma hex_integer_shape : forall s, ref_hex_integer s = true -> s <> [] /\ forallb is_hex s = true.
Proof.
  intros s H. unfold ref_hex_integer in H.
  assert (E : equiv_check 128 g_hex_integer (xplus hexdigit) = true) by (vm_compute; reflexivity).
  rewrite (equiv_check_sound _ _ _ E) in H. apply rx_match_iff in H.
  unfold xplus in H. cbn [Lang] in H.
  destruct H as (u' & v' & -> & (d & -> & Md) & Hstar). apply star_cls_forallb in Hstar.
  split; [discriminate|]. simpl. rewrite cls_hex in Md. rewrite Md. simpl.
  rewrite (forallb_ext' _ (cls_mem (Cls false false [CI_range 48%N 57%N; CI_range 97%N 102%N; CI_range 65%N 70%N]))); [exact Hstar|]. intros c. symmetry. apply cls_hex.
Qed.

Local Open Scope Z_scope.

Lemma pow_succ_nat : forall b n, b ^ Z.of_nat (S n) = b * b ^ Z.of_nat n.
Proof. intros. rewrite Nat2Z.inj_succ. apply Z.pow_succ_r. lia. Qed.

Lemma horner_digits : forall ds acc, forallb is_dig ds = true ->
  horner 10 acc ds = Some (acc * 10 ^ Z.of_nat (length ds) + digits_value 10 (map dval ds)).
Proof.
  induction ds as [|a ds IH]; intros acc H.
  - simpl. f_equal. lia.
  - simpl in H. apply andb_true_iff in H. destruct H as [Ha Hd]. unfold is_dig in Ha.
    pose proof (proj1 (in_range_iff _ _ _) Ha) as Hr.
    cbn [horner]. replace (N.eqb a 95%N) with false by (symmetry; apply N.eqb_neq; lia).
    unfold digit_val. rewrite Ha.
    replace (Z.of_N a - 48 <? 10) with true by (symmetry; apply Z.ltb_lt; lia).
    rewrite IH by auto. f_equal. cbn [length map digits_value]. rewrite map_length, pow_succ_nat. unfold dval. ring.
Qed.

Lemma digit_val_hex : forall c, is_hex c = true ->
  N.eqb c 95%N = false /\ exists d, digit_val c = Some d /\ 0 <= d < 16.
Proof.
  intros c H. unfold is_hex in H. unfold digit_val.
  destruct (in_range 48%N 57%N c) eqn:E1.
  { apply in_range_iff in E1. split; [apply N.eqb_neq; lia|]. eexists. split; [reflexivity|]. lia. }
  destruct (in_range 97%N 102%N c) eqn:E2.
  { apply in_range_iff in E2. split; [apply N.eqb_neq; lia|]. eexists. split; [reflexivity|]. lia. }
  destruct (in_range 65%N 70%N c) eqn:E3; [|discriminate].
  apply in_range_iff in E3. split; [apply N.eqb_neq; lia|]. eexists. split; [reflexivity|]. lia.
Qed.

Lemma horner_hex : forall ds acc, forallb is_hex ds = true ->
  horner 16 acc ds = Some (acc * 16 ^ Z.of_nat (length ds) + digits_value 16 (map hexval ds)).
Proof.
  induction ds as [|a ds IH]; intros acc H.
  - simpl. f_equal. lia.
  - simpl in H. apply andb_true_iff in H. destruct H as [Ha Hd].
    destruct (digit_val_hex a Ha) as (N95 & d & Dv & Hrange).
    cbn [horner]. rewrite N95, Dv.
    replace (d <? 16) with true by (symmetry; apply Z.ltb_lt; lia).
    rewrite IH by auto. f_equal. cbn [length map digits_value]. rewrite map_length, pow_succ_nat.
    replace (hexval a) with d by (unfold hexval; rewrite Dv; reflexivity). ring.
Qed.

Local Close Scope Z_scope.

Lemma strip_left_id : forall s, (forall c, In c s -> is_pyspace c = false) -> strip_left s = s.
Proof. destruct s; simpl; intros H; auto. rewrite H; auto. Qed.

Lemma strip_id : forall s, (forall c, In c s -> is_pyspace c = false) -> strip s = s.
Proof.
  intros s H. unfold strip. rewrite (strip_left_id s H). rewrite strip_left_id.
  - apply rev_involutive.
  - intros c Hc. apply in_rev in Hc. auto.
Qed.

Lemma not_space_ge33 : forall c, (33 <= c)%N -> is_pyspace c = false.
Proof. intros. unfold is_pyspace. rewrite in_range_false by lia. simpl. apply N.eqb_neq. lia. Qed.

Theorem signed_integer_value : forall s, ref_signed_integer s = true -> py_int 10 s = Some (int_value s).
Proof.
  intros s H. pose proof (signed_integer_convertible s H) as Hc.
  destruct (signed_integer_shape s H) as (sg & ds & -> & Hsg & Hne & Hd).
  assert (Dig : forall c, In c ds -> (48 <= c /\ c <= 57)%N).
  { intros c Hin. rewrite forallb_forall in Hd. apply Hd in Hin. apply in_range_iff. exact Hin. }
  assert (NS : forall c, In c (sg ++ ds) -> is_pyspace c = false).
  { intros c Hin. apply not_space_ge33. apply in_app_or in Hin. destruct Hin as [Hin | Hin].
    - destruct Hsg as [-> | [-> | ->]]; simpl in Hin; intuition; subst; lia.
    - apply Dig in Hin. lia. }
  unfold py_int. rewrite Hc, (strip_id _ NS). change (Z.of_nat 10) with 10%Z.
  destruct Hsg as [-> | [-> | ->]].
  - destruct ds as [|d ds']; [congruence|]. simpl app.
    assert (48 <= d /\ d <= 57)%N as Hdr by (apply Dig; simpl; auto).
    unfold split_sign, int_value.
    replace (N.eqb d 45%N) with false by (symmetry; apply N.eqb_neq; lia).
    replace (N.eqb d 43%N) with false by (symmetry; apply N.eqb_neq; lia).
    cbn [fst snd]. rewrite horner_digits by auto. f_equal.
  - simpl app. unfold split_sign, int_value. change (N.eqb 43%N 45%N) with false. change (N.eqb 43%N 43%N) with true.
    cbn [fst snd]. rewrite horner_digits by auto. f_equal.
  - simpl app. unfold split_sign, int_value. change (N.eqb 45%N 45%N) with true.
    cbn [fst snd]. rewrite horner_digits by auto. f_equal.
Qed.

Theorem hex_integer_value : forall s, ref_hex_integer s = true -> py_int 16 s = Some (hex_value s).
Proof.
  intros s H. pose proof (hex_integer_convertible s H) as Hc.
  destruct (hex_integer_shape s H) as (Hne & Hd).
  assert (Hx : forall c, In c s -> (48 <= c /\ c <= 102)%N /\ c <> 88%N /\ c <> 120%N).
  { intros c Hin. rewrite forallb_forall in Hd. apply Hd in Hin. unfold is_hex in Hin.
    apply orb_true_iff in Hin. destruct Hin as [Hin | Hin]; [apply orb_true_iff in Hin; destruct Hin as [Hin | Hin]|];
      apply in_range_iff in Hin; lia. }
  assert (NS : forall c, In c s -> is_pyspace c = false).
  { intros c Hin. apply not_space_ge33. apply Hx in Hin. lia. }
  unfold py_int. rewrite Hc, (strip_id _ NS). change (Z.of_nat 16) with 16%Z.
  destruct s as [|d s']; [congruence|].
  assert (Hd0 := Hx d (or_introl eq_refl)).
  unfold split_sign.
  replace (N.eqb d 45%N) with false by (symmetry; apply N.eqb_neq; lia).
  replace (N.eqb d 43%N) with false by (symmetry; apply N.eqb_neq; lia).
  cbn [fst snd].
  assert (DP : drop_hex_prefix (d :: s') = d :: s').
  { unfold drop_hex_prefix. destruct s' as [|x t]; auto.
    assert (Hx1 := Hx x (or_intror (or_introl eq_refl))).
    replace (N.eqb x 120%N) with false by (symmetry; apply N.eqb_neq; lia).
    replace (N.eqb x 88%N) with false by (symmetry; apply N.eqb_neq; lia).
    rewrite andb_false_r. reflexivity. }
  rewrite DP, horner_hex by auto. f_equal.
Qed.
