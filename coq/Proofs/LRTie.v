(* The source text that coq/Model/LR.v transcribes (memo tables, the bounded-recursion block of Forward.parseImpl, reset_cache),
   pinned: Gen/GenMemo.v is regenerated from /repo on every run and must still say exactly this. *)
From Coq Require Import List String.
From PP Require Import Gen.GenMemo.
Import ListNotations.
Local Open Scope string_scope.

Definition lr_source_text : Prop :=
  gen_lru_init = "self._capacity = capacity ; self._active = {} ; self._memory = {}" /\
  gen_lru_getitem = "try: return self._active[key] except KeyError: self._memory[key] = self._memory.pop(key) return self._memory[key]" /\
  gen_lru_setitem = "self._memory.pop(key, None) ; self._active[key] = value" /\
  gen_lru_delitem = "try: value = self._active.pop(key) except KeyError: pass else: oldest_keys = list(self._memory)[:-(self._capacity + 1)] for key_to_delete in oldest_keys: self._memory.pop(key_to_delete) self._memory[key] = value" /\
  gen_lru_clear = "self._active.clear() ; self._memory.clear()" /\
  gen_unbounded_bases = "dict" /\
  gen_unbounded_delitem = "pass" /\
  gen_forward_lr_guard = ["not ParserElement._left_recursion_enabled"] /\
  gen_forward_lr_block = "memo = ParserElement.recursion_memos ; try: prev_loc, prev_result = memo[loc, self, do_actions] if isinstance(prev_result, Exception): raise prev_result return (prev_loc, prev_result.copy()) except KeyError: act_key = (loc, self, True) peek_key = (loc, self, False) prev_loc, prev_peek = memo[peek_key] = (loc - 1, ParseException(instring, loc, 'Forward recursion without base case', self)) if do_actions: memo[act_key] = memo[peek_key] while True: try: new_loc, new_peek = super().parseImpl(instring, loc, False) except ParseException: if isinstance(prev_peek, Exception): raise new_loc, new_peek = (prev_loc, prev_peek) if new_loc <= prev_loc: if do_actions: prev_loc, prev_result = memo[peek_key] = memo[act_key] del memo[peek_key], memo[act_key] return (prev_loc, copy.copy(prev_result)) del memo[peek_key] return (prev_loc, copy.copy(prev_peek)) if do_actions: try: memo[act_key] = super().parseImpl(instring, loc, True) except ParseException as e: memo[peek_key] = memo[act_key] = (new_loc, e) raise prev_loc, prev_peek = memo[peek_key] = (new_loc, new_peek)" /\
  gen_reset_cache = "with ParserElement.packrat_cache_lock: ParserElement.packrat_cache.clear() ParserElement.packrat_cache_stats[:] = [0] * len(ParserElement.packrat_cache_stats) ParserElement.recursion_memos.clear()".

Lemma lr_source_pinned : lr_source_text.
Proof. unfold lr_source_text; repeat split; reflexivity. Qed.
