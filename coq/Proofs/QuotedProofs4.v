(* QuotedString round trip with an esc_quote and no esc_char (SQL style): one-character end quote, the esc_quote starts
   with it and is longer.  The pattern has several matches here (the first closing quote also ends one), so the proof
   follows the backtracking matcher itself: at every content unit the first alternative that matches locally leads to
   a successful continuation, hence is the one taken. *)
From Coq Require Import List NArith ZArith Arith Bool Lia.
From PP Require Import Model.Str Model.Regex Proofs.RegexProofs Model.Builtins Proofs.BuiltinsProofs Model.Quoted Gen.GenRegex
  Proofs.QuotedProofs Proofs.QuotedProofs2.
Import ListNotations.

Lemma rm_rseq_cons : forall s a l i k, rm s (rseq (a :: l)) i k = rm s a i (fun j => rm s (rseq l) j k).
Proof.
  intros s a [|b l] i k.
  - simpl. apply rm_ext. reflexivity.
  - reflexivity.
Qed.

Lemma rm_rseq_app : forall s l1 l2 i k, rm s (rseq (l1 ++ l2)) i k = rm s (rseq l1) i (fun j => rm s (rseq l2) j k).
Proof.
  intros s. induction l1 as [|a l1 IH]; intros l2 i k.
  - reflexivity.
  - cbn [app]. rewrite !rm_rseq_cons. apply rm_ext. intros j. apply IH.
Qed.

Lemma prefix_of_nil : forall v : str, v <> [] -> prefix_of v [] = false.
Proof. intros [|a v] H; [contradiction | reflexivity]. Qed.

Lemma prefix_of_self : forall v : str, prefix_of v v = true.
Proof. intros v. apply prefix_of_iff. exists []. symmetry. apply app_nil_r. Qed.

Lemma cset_neg_in : forall items c, In (CI_char c) items -> cset_mem false true items c = false.
Proof.
  intros items c H. destruct (cset_mem false true items c) eqn:M; auto.
  apply cset_neg_true in M. rewrite items_mem_char in M; [discriminate | exact H].
Qed.

Section EscQ.
  Variables (q w' : str) (e0 : char) (ml unq cws : bool).
  Let eq := [e0].
  Let w := e0 :: w'.
  Definition escq_cfg1 : qcfg :=
    {| q_quote := q; q_end := eq; q_esc := None; q_escq := Some w; q_multiline := ml; q_unquote := unq; q_cws := cws |}.
  Let cfg := escq_cfg1.
  Let body := ralt (qs_inner cfg).

  Hypothesis Hq : q <> [].
  Hypothesis Hw' : w' <> [].

  (* the user's escaping: every end-quote character becomes the esc_quote *)
  Definition dbl (c : str) : str := flat_map (fun x => if N.eqb x e0 then w else [x]) c.

  Lemma escape_is_dbl : forall c fuel, length c <= fuel -> str_replace fuel eq w c = dbl c.
  Proof.
    induction c as [|x c IH]; intros fuel Hf.
    - destruct fuel; reflexivity.
    - destruct fuel as [|f]; [simpl in Hf; lia|]. cbn [str_replace]. unfold eq at 1. cbn [prefix_of].
      rewrite andb_true_r, N.eqb_sym. cbn [dbl flat_map]. destruct (N.eqb x e0).
      + f_equal. unfold eq. cbn [length skipn]. apply IH. simpl in Hf. lia.
      + cbn [app]. f_equal. apply IH. simpl in Hf. lia.
  Qed.

  Lemma replace_back : forall c fuel, length (dbl c) <= fuel -> str_replace fuel w eq (dbl c) = c.
  Proof.
    induction c as [|x c IH]; intros fuel Hf.
    - destruct fuel; reflexivity.
    - cbn [dbl flat_map] in *. fold (dbl c) in *. destruct (N.eqb x e0) eqn:X.
      + apply N.eqb_eq in X. subst x. rewrite app_length in Hf.
        destruct fuel as [|f]; [unfold w in Hf; simpl in Hf; lia|].
        unfold w at 2. cbn [app str_replace]. fold w. change (e0 :: w' ++ dbl c) with (w ++ dbl c).
        rewrite prefix_of_app, skipn_app_exact. unfold eq. cbn [app]. f_equal. apply IH.
        unfold w in Hf. simpl in Hf. lia.
      + destruct fuel as [|f]; [simpl in Hf; lia|]. cbn [app str_replace]. unfold w at 1. cbn [prefix_of].
        rewrite N.eqb_sym, X. cbn [andb]. f_equal. apply IH. simpl in Hf. lia.
  Qed.

  Lemma dbl_length : forall c, length c <= length (dbl c).
  Proof.
    induction c as [|x c IH]; simpl; auto. rewrite app_length. destruct (N.eqb x e0); unfold w; simpl; lia.
  Qed.

  Lemma escq_inner : qs_inner cfg = [rlit w; body_set cfg].
  Proof. reflexivity. Qed.

  Lemma escq_set_mem : forall c, c <> e0 -> okc ml c ->
    cset_mem false true ([CI_char e0] ++ (if ml then [] else [CI_char NL; CI_char CR]) ++ []) c = true.
  Proof. intros c H1 H2. apply (plain_set_mem eq ml c); auto. Qed.

  Section Source.
    Variable s : str.
    Let k : cont := fun j => rm s (rlit eq) j (fun j' => Some j').

    Lemma body_at_close : forall i k', skipn i s = eq -> rm s body i k' = None.
    Proof.
      intros i k' E. unfold body. rewrite escq_inner. change (ralt [rlit w; body_set cfg]) with (RAlt (rlit w) (body_set cfg)).
      cbn [rm]. rewrite rm_rlit. unfold starts_at. rewrite E. unfold w, eq. cbn [prefix_of].
      rewrite (prefix_of_nil w' Hw').
      rewrite andb_false_r. cbn [orelse]. unfold body_set. cbn [rm]. unfold set_step. rewrite char_at_skipn, E. cbn [hd_error].
      unfold eq. cbn [hd_error]. rewrite cset_neg_in; [reflexivity|]. unfold end0. simpl. auto.
    Qed.

    Lemma greedy_units : forall rc n i, Forall (okc ml) rc -> skipn i s = dbl rc ++ eq -> length rc < n ->
      rep_max (rm s body) k n i = Some (length s).
    Proof.
      induction rc as [|x rc IH]; intros n i Hok E Hn.
      - simpl in E.
        assert (K : k i = Some (length s)).
        { unfold k. rewrite rm_rlit. unfold starts_at. rewrite E, prefix_of_self. f_equal.
          pose proof (skipn_length i s) as L. rewrite E in L. unfold eq in *. simpl in *. lia. }
        destruct n as [|n']; [exact K|]. cbn [rep_max]. rewrite body_at_close by exact E. cbn [orelse]. exact K.
      - destruct n as [|n']; [simpl in Hn; lia|]. inversion Hok as [|? ? Hx Hrest]; subst.
        cbn [rep_max]. unfold body at 1. rewrite escq_inner.
        change (ralt [rlit w; body_set cfg]) with (RAlt (rlit w) (body_set cfg)). cbn [rm]. rewrite rm_rlit.
        cbn [dbl flat_map] in E. fold (dbl rc) in E. unfold starts_at. rewrite E.
        destruct (N.eqb x e0) eqn:X.
        + (* an end-quote character of the content: the esc_quote alternative *)
          rewrite <- app_assoc, prefix_of_app.
          replace (i + length w =? i) with false by (symmetry; apply Nat.eqb_neq; unfold w; simpl; lia).
          rewrite (IH n' (i + length w)); [reflexivity | exact Hrest | | simpl in Hn; lia].
          rewrite <- skipn_plus, E, <- app_assoc. apply skipn_app_exact.
        + (* any other character: the esc_quote alternative fails on its first character, the set matches *)
          cbn [app]. unfold w at 1. cbn [prefix_of]. rewrite N.eqb_sym, X. cbn [andb orelse].
          unfold body_set. cbn [rm]. unfold set_step. rewrite char_at_skipn, E. cbn [hd_error app].
          apply N.eqb_neq in X. unfold end0. cbn [q_end q_multiline q_esc cfg escq_cfg1 hd eq].
          rewrite escq_set_mem by auto.
          replace (S i =? i) with false by (symmetry; apply Nat.eqb_neq; lia).
          rewrite (IH n' (S i)); [reflexivity | exact Hrest | | simpl in Hn; lia].
          apply (skipn_S_tl _ _ _ _ E).
    Qed.

    Variable content : str.
    Hypothesis Hs : s = q ++ dbl content ++ eq.
    Hypothesis Hok : Forall (okc ml) content.

    Theorem escq_match_whole : re_match (qs_pattern cfg) s 0 = Some (length s).
    Proof.
      unfold re_match, qs_pattern. rewrite rm_rseq_app. fold (rlit (q_quote cfg)). rewrite rm_rlit.
      cbn [q_quote q_end cfg escq_cfg1].
      assert (S0 : starts_at s 0 q = true).
      { unfold starts_at. simpl. rewrite Hs. apply prefix_of_app. }
      rewrite S0. cbn [app]. rewrite rm_rseq_cons. cbn [rm rep_min]. fold (rlit eq). fold body.
      unfold rep_extra.
      rewrite (rep_max_ext _ (fun i k0 k0' H => rm_ext s body i k0 k0' H) _ k) by (intros j; reflexivity).
      apply (greedy_units content); auto.
      - rewrite Hs. simpl. apply skipn_app_exact.
      - pose proof (dbl_length content). rewrite Hs, !app_length. lia.
    Qed.
  End Source.

  Theorem escq_roundtrip : forall content, Forall (okc ml) content ->
    ((unq && cws) = true -> no_bs (dbl content) = true) ->
    let s := q ++ dbl content ++ eq in
    qs_parse cfg s 0 = Some (length s, if unq then content else s).
  Proof.
    intros content Hok Hb s. unfold qs_parse.
    assert (C : char_at s 0 = Some (hd 0%N q)).
    { unfold s. clear - Hq. destruct q; [contradiction | reflexivity]. }
    rewrite C. cbn [q_quote cfg escq_cfg1]. rewrite N.eqb_refl.
    fold cfg. rewrite (escq_match_whole s content eq_refl Hok). rewrite substr_all.
    cbn [q_unquote cfg escq_cfg1]. destruct unq eqn:U; [|reflexivity].
    unfold unquote. cbn [q_quote q_end q_escq cfg escq_cfg1]. unfold s. rewrite inner_split; [|exact []].
    rewrite scan_noesc_id.
    - rewrite replace_back by lia. reflexivity.
    - reflexivity.
    - intros W. apply Hb. exact W.
    - lia.
  Qed.
End EscQ.

Definition escq_cfg (q eq w : str) (ml unq cws : bool) : qcfg :=
  {| q_quote := q; q_end := eq; q_esc := None; q_escq := Some w; q_multiline := ml; q_unquote := unq; q_cws := cws |}.

Theorem quoted_roundtrip_escquote : forall q eq w ml unq cws content,
  let cfg := escq_cfg q eq w ml unq cws in
  escq_hyp cfg w content = true ->
  qs_parse cfg (quoted_source cfg content) 0 =
    Some (length (quoted_source cfg content), if unq then content else quoted_source cfg content).
Proof.
  intros q eq w ml unq cws content cfg H. unfold escq_hyp, quotes_nonempty, scan_neutral in H.
  repeat (apply andb_true_iff in H; let H' := fresh "H" in destruct H as [H H']).
  cbn [q_quote q_end q_multiline q_cws q_unquote cfg escq_cfg] in *.
  destruct eq as [|e0 [|b eq']]; try discriminate.
  destruct w as [|a [|b w']]; try discriminate.
  cbn [prefix_of] in H3. rewrite andb_true_r in H3. apply N.eqb_eq in H3. subst a.
  apply negb_true_iff in H.
  assert (E : escape_content cfg content = dbl (b :: w') e0 content).
  { unfold escape_content. cbn [q_esc q_escq q_end cfg escq_cfg]. apply escape_is_dbl. lia. }
  unfold quoted_source. rewrite E in *. cbn [q_quote q_end cfg escq_cfg].
  apply (escq_roundtrip q (b :: w') e0 ml unq cws).
  - intros ->. discriminate.
  - discriminate.
  - apply no_newline_okc. exact H1.
  - intros X. rewrite X in H0. exact H0.
Qed.
