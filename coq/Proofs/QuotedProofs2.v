(* QuotedString round trip in the remaining configurations:
   (1) no esc_char and no esc_quote (plain), (2) esc_quote only, (3) esc_char and esc_quote, (4) unquote_results = false. *)
From Coq Require Import List NArith ZArith Arith Bool Lia.
From PP Require Import Model.Str Model.Regex Proofs.RegexProofs Model.Builtins Proofs.BuiltinsProofs Model.Quoted Gen.GenRegex
  Proofs.QuotedProofs.
Import ListNotations.

(* ------------------------------------------------------------------ generic facts *)
Lemma prefix_of_iff : forall w l, prefix_of w l = true <-> exists t, l = w ++ t.
Proof.
  induction w as [|a w IH]; intros l; simpl.
  - split; eauto.
  - destruct l as [|b l].
    + split; [discriminate | intros (t & H); discriminate].
    + rewrite andb_true_iff, N.eqb_eq, IH. split.
      * intros (-> & t & ->). eauto.
      * intros (t & H). injection H as -> ->. eauto.
Qed.

Lemma prefix_of_app : forall w t, prefix_of w (w ++ t) = true.
Proof. intros. apply prefix_of_iff. eauto. Qed.

Lemma den_pattern_gen : forall cfg s j, den (qs_pattern cfg) s 0 j <->
  exists m1 m2, den_list (map RChr (q_quote cfg)) s 0 m1
                /\ (exists n, iter_rel (den (ralt (qs_inner cfg)) s) n m1 m2)
                /\ den_list (map RChr (q_end cfg)) s m2 j.
Proof.
  intros cfg s j. unfold qs_pattern. rewrite den_rseq, den_list_app. split.
  - intros (m1 & H1 & H2). apply den_list_app in H2. destruct H2 as (m2 & H2 & H3).
    simpl in H2. destruct H2 as (m & (n & _ & _ & H2) & <-). exists m1, m. split; auto. split; eauto.
  - intros (m1 & m2 & H1 & (n & H2) & H3). exists m1. split; auto. apply den_list_app. exists m2. split; auto.
    simpl. exists m2. split; auto. exists n. split; [lia|]. auto.
Qed.

Lemma match_from_den : forall r s i L, rep_ok r = true -> den r s i L -> (forall j, den r s i j -> j = L) ->
  re_match r s i = Some L.
Proof.
  intros r s i L OK E U. destruct (re_match r s i) as [e1|] eqn:R.
  - apply re_match_sound in R; [|assumption]. apply U in R. congruence.
  - exfalso. eapply re_match_complete; eauto.
Qed.

Lemma pattern_rep_ok_gen : forall cfg, rep_ok (ralt (qs_inner cfg)) = true -> consuming (ralt (qs_inner cfg)) = true ->
  rep_ok (qs_pattern cfg) = true.
Proof.
  intros cfg B1 B2. unfold qs_pattern. apply rep_ok_rseq. rewrite !forallb_app, !rep_ok_chars.
  cbn [forallb rep_ok]. rewrite B1, B2. reflexivity.
Qed.

Lemma countdown_bounds : forall n k, In k (countdown n) <-> 1 <= k <= n.
Proof.
  induction n; simpl; intros k.
  - split; [intros [] | lia].
  - rewrite IHn. split; [intros [<- | H]; lia|]. intros H. destruct (Nat.eq_dec (S n) k); [left | right]; auto. lia.
Qed.

Lemma prefix_alts_ok : forall e, rep_ok (prefix_alts e) = true /\ consuming (prefix_alts e) = true.
Proof.
  intros e. unfold prefix_alts. split.
  - apply rep_ok_ralt. apply forallb_forall. intros r Hr. apply in_map_iff in Hr.
    destruct Hr as (k & <- & _). unfold prefix_alt. apply rep_ok_rseq. rewrite forallb_app, rep_ok_chars.
    cbn [forallb rep_ok andb]. rewrite andb_true_r. unfold rlit. apply rep_ok_rseq. apply rep_ok_chars.
  - apply consuming_ralt. apply forallb_forall. intros r Hr. apply in_map_iff in Hr.
    destruct Hr as (k & <- & Hk). apply countdown_bounds in Hk. unfold prefix_alt.
    destruct e as [|a e']; [simpl in Hk; lia|]. destruct k; [lia|]. cbn [firstn map app]. apply consuming_rseq_chr.
Qed.

Lemma rep_ok_rlit : forall w, rep_ok (rlit w) = true.
Proof. intros. unfold rlit. apply rep_ok_rseq. apply rep_ok_chars. Qed.

Lemma consuming_rlit : forall w, w <> [] -> consuming (rlit w) = true.
Proof. intros [|a w] H; [contradiction|]. unfold rlit. cbn [map]. apply consuming_rseq_chr. Qed.

Lemma iter_rel_impl : forall (R R' : nat -> nat -> Prop), (forall i j, R i j -> R' i j) ->
  forall n i j, iter_rel R n i j -> iter_rel R' n i j.
Proof.
  intros R R' H. induction n; simpl; intros i j Hi; auto. destruct Hi as (m & H1 & H2). exists m. split; auto.
Qed.

Lemma inner_split : forall (s : str) (q mid e : str),
  firstn (length (q ++ mid ++ e) - length q - length e) (skipn (length q) (q ++ mid ++ e)) = mid.
Proof.
  intros. rewrite skipn_app_exact. rewrite !app_length.
  replace (length q + (length mid + length e) - length q - length e) with (length mid + 0) by lia.
  rewrite firstn_app_2. simpl. apply app_nil_r.
Qed.

(* the end quote cannot be matched inside the content nor across its end *)
Lemma no_end_inside_pos : forall eq c d t, eq <> [] -> no_end_inside eq c = true ->
  skipn d (c ++ eq) = eq ++ t -> d = length c.
Proof.
  intros eq c. induction c as [|x r IH]; intros d t Hne H E.
  - simpl in E. pose proof (skipn_length d eq) as L. rewrite E, app_length in L.
    destruct eq; [contradiction|]. cbn [length] in *. lia.
  - cbn [no_end_inside] in H. apply andb_true_iff in H. destruct H as [H1 H2]. apply negb_true_iff in H1.
    destruct d as [|d'].
    + cbn [skipn app] in E, H1. rewrite E, prefix_of_app in H1. discriminate.
    + simpl. f_equal. eapply IH; eauto.
Qed.

(* the scanner without esc_char on a text without backslash (or with white-space conversion off) is the identity *)
Lemma scan_step_noesc : forall cfg c r, q_esc cfg = None -> (q_cws cfg = true -> c <> BS) ->
  scan_step cfg (c :: r) = Some ([c], r).
Proof.
  intros cfg c r He Hc. unfold scan_step. rewrite He.
  assert (T : match (if dot_ok cfg c then Some ([c], r) else None) with Some o => Some o | None => Some ([c], r) end
              = Some ([c], r)) by (destruct (dot_ok cfg c); reflexivity).
  destruct (q_cws cfg) eqn:W; [|exact T].
  specialize (Hc eq_refl).
  rewrite ws_lookup_none by (intros x r' E; injection E as E _; contradiction).
  destruct (re_match re_qs_numeric (c :: r) 0) as [e1|] eqn:R; [|exact T].
  apply qs_numeric_needs_special in R. destruct R as (x & r' & E & _). injection E as E _. contradiction.
Qed.

Lemma scan_noesc_id : forall cfg t fuel, q_esc cfg = None -> (q_cws cfg = true -> no_bs t = true) ->
  length t <= fuel -> unq_scan cfg fuel t = t.
Proof.
  intros cfg t. induction t as [|c r IH]; intros fuel He Hb Hf.
  - destruct fuel; reflexivity.
  - destruct fuel as [|f]; [simpl in Hf; lia|]. cbn [unq_scan]. rewrite scan_step_noesc; auto.
    + cbn [app]. f_equal. apply IH; auto.
      * intros W. specialize (Hb W). simpl in Hb. apply andb_true_iff in Hb. tauto.
      * simpl in Hf. lia.
    + intros W ->. specialize (Hb W). simpl in Hb. discriminate.
Qed.

(* ------------------------------------------------------------------ (4) unquote_results = false: the token is the matched source text *)
Theorem quoted_raw : forall cfg s loc e tok, q_unquote cfg = false -> qs_parse cfg s loc = Some (e, tok) ->
  re_match (qs_pattern cfg) s loc = Some e /\ tok = substr s loc e.
Proof.
  intros cfg s loc e tok Hu H. unfold qs_parse in H. destruct (char_at s loc) as [c|]; [|discriminate].
  destruct (N.eqb c (hd 0%N (q_quote cfg))); [|discriminate].
  destruct (re_match (qs_pattern cfg) s loc) as [e1|]; [|discriminate].
  rewrite Hu in H. injection H as -> <-. auto.
Qed.

(* ------------------------------------------------------------------ (1) no esc_char, no esc_quote *)
Section Plain.
  Variables (q eq : str) (ml unq cws : bool).
  Definition plain_cfg : qcfg :=
    {| q_quote := q; q_end := eq; q_esc := None; q_escq := None; q_multiline := ml; q_unquote := unq; q_cws := cws |}.
  Let cfg := plain_cfg.
  Let body := ralt (qs_inner cfg).
  Let e0 := hd 0%N eq.

  Hypothesis Hq : q <> [].
  Hypothesis Heq : eq <> [].

  Lemma plain_inner : qs_inner cfg = (if 1 <? length eq then [prefix_alts eq] else []) ++ [body_set cfg].
  Proof. reflexivity. Qed.

  Lemma plain_body_ok : rep_ok body = true /\ consuming body = true.
  Proof.
    unfold body. rewrite plain_inner. destruct (prefix_alts_ok eq) as [P1 P2]. split.
    - apply rep_ok_ralt. destruct (1 <? length eq); simpl; rewrite ?P1; reflexivity.
    - apply consuming_ralt. destruct (1 <? length eq); simpl; rewrite ?P2; reflexivity.
  Qed.

  Lemma plain_set_mem : forall c, c <> e0 -> okc ml c ->
    cset_mem false true ([CI_char e0] ++ (if ml then [] else [CI_char NL; CI_char CR]) ++ []) c = true.
  Proof.
    intros c H1 H3. apply cset_neg_true.
    destruct (items_mem _ c) eqn:M; auto. exfalso. unfold items_mem in M. apply existsb_exists in M.
    destruct M as (it & Hin & M). rewrite !in_app_iff in Hin. destruct Hin as [Hin | [Hin | Hin]].
    - simpl in Hin. destruct Hin as [<- | []]. simpl in M. apply N.eqb_eq in M. auto.
    - destruct H3 as [-> | [H3 H4]]; [destruct Hin|]. destruct ml; [destruct Hin|].
      simpl in Hin. destruct Hin as [<- | [<- | []]]; simpl in M; apply N.eqb_eq in M; auto.
    - destruct Hin.
  Qed.

  Section Source.
    Variable content : str.
    Let s := q ++ content ++ eq.
    Hypothesis Hclean : no_end_inside eq content = true.
    Hypothesis Hok : Forall (okc ml) content.

    Definition PAt (i : nat) (rc : str) : Prop := skipn i s = rc ++ eq.

    (* one character of the content per iteration: through the set when it is not the first end-quote character,
       else through the shortest look-ahead alternative  e0(?!rest of the end quote) *)
    Lemma plain_unit : forall i x rc, PAt i (x :: rc) -> no_end_inside eq (x :: rc) = true -> okc ml x ->
      den body s i (S i).
    Proof.
      intros i x rc HA Hc Hx. unfold PAt in HA. unfold body. apply den_ralt. rewrite plain_inner.
      cbn [no_end_inside] in Hc. apply andb_true_iff in Hc. destruct Hc as [Hc _]. apply negb_true_iff in Hc.
      destruct (N.eq_dec x e0) as [E | NE].
      - (* x is the first character of the end quote *)
        assert (D : (exists a, eq = [a]) \/ (exists a b t, eq = a :: b :: t)).
        { clear - Heq. destruct eq as [|a [|b t]]; [contradiction | left; eauto | right; eauto]. }
        destruct D as [(a & Eeq) | (a & b & t' & Eeq)].
        + exfalso. unfold e0 in E. rewrite Eeq in E, Hc. simpl in E. subst x. simpl in Hc. rewrite N.eqb_refl in Hc. discriminate.
        + assert (Ea : x = a) by (unfold e0 in E; rewrite Eeq in E; exact E).
          assert (L1 : (1 <? length eq) = true) by (rewrite Eeq; reflexivity).
          assert (F1 : firstn 1 eq = [a]) by (rewrite Eeq; reflexivity).
          exists (prefix_alts eq). split; [rewrite L1; simpl; auto|].
          unfold prefix_alts. apply den_ralt. exists (prefix_alt eq 1). split.
          * apply in_map. apply countdown_bounds. rewrite Eeq. simpl. lia.
          * unfold prefix_alt. apply den_rseq. apply den_list_app. exists (S i). split.
            -- apply den_chars. exists (rc ++ eq). split; [|rewrite F1; simpl; lia].
               rewrite F1, HA, Ea. reflexivity.
            -- cbn [den_list den]. exists (S i). split; auto. split; auto. intros (e1 & He1).
               apply den_rlit in He1. destruct He1 as (t & Ht & _).
               rewrite (skipn_S_tl _ _ _ _ HA) in Ht.
               assert (P : prefix_of eq ((x :: rc) ++ eq) = true).
               { apply prefix_of_iff. exists t.
                 assert (X : eq ++ t = a :: (skipn 1 eq ++ t)).
                 { rewrite <- (firstn_skipn 1 eq) at 1. rewrite F1. reflexivity. }
                 rewrite X, <- Ht, Ea. reflexivity. }
               rewrite P in Hc. discriminate.
      - exists (body_set cfg). split; [apply in_or_app; right; simpl; auto|].
        unfold body_set. simpl. exists x. split.
        + rewrite char_at_skipn, HA. reflexivity.
        + split; auto. apply plain_set_mem; auto.
    Qed.

    Lemma plain_exists : forall rc i, Forall (okc ml) rc -> no_end_inside eq rc = true -> PAt i rc ->
      exists m, iter_rel (den body s) (length rc) i m /\ PAt m [].
    Proof.
      induction rc as [|x rc IH]; intros i Hk Hc HA; simpl.
      - exists i. auto.
      - inversion Hk as [|? ? Hx Hrest]; subst.
        assert (HA2 : PAt (S i) rc) by (unfold PAt in *; rewrite (skipn_S_tl _ _ _ _ HA); reflexivity).
        assert (Hc2 : no_end_inside eq rc = true).
        { cbn [no_end_inside] in Hc. apply andb_true_iff in Hc. tauto. }
        destruct (IH _ Hrest Hc2 HA2) as (m & Hm & HAm). exists m. split; auto. exists (S i). split; auto.
        eapply plain_unit; eauto.
    Qed.

    Lemma plain_start : PAt (length q) content.
    Proof. unfold PAt, s. apply skipn_app_exact. Qed.

    Theorem plain_match_whole : re_match (qs_pattern cfg) s 0 = Some (length s).
    Proof.
      destruct plain_body_ok as [B1 B2].
      apply match_from_den.
      - apply pattern_rep_ok_gen; auto.
      - apply den_pattern_gen. cbn [q_quote q_end cfg plain_cfg].
        destruct (plain_exists content (length q) Hok Hclean plain_start) as (m & Hm & HAm).
        exists (length q), m. split; [apply den_chars; exists (content ++ eq); split; auto|]. split; [eauto|].
        apply den_chars. exists []. unfold PAt in HAm. simpl in HAm. rewrite app_nil_r. split; auto.
        pose proof (skipn_length m s) as L. rewrite HAm in L.
        assert (m <= length s).
        { eapply iter_rel_mono in Hm; [|intros; eapply den_mono; eauto]. destruct Hm as [_ Hm]. apply Hm.
          unfold s. rewrite app_length. lia. }
        lia.
      - intros j H. apply den_pattern_gen in H. cbn [q_quote q_end cfg plain_cfg] in H.
        destruct H as (m1 & m2 & H1 & (n & H2) & H3).
        apply den_chars in H1. destruct H1 as (t1 & _ & ->). simpl in H2.
        assert (Hle : length q <= m2).
        { eapply iter_rel_mono in H2; [|intros; eapply den_mono; eauto]. lia. }
        apply den_chars in H3. destruct H3 as (t & E & ->).
        replace m2 with (length q + (m2 - length q)) in E by lia.
        unfold s in E. rewrite <- skipn_plus, skipn_app_exact in E.
        apply no_end_inside_pos in E; auto.
        unfold s. rewrite !app_length. lia.
    Qed.
  End Source.

  Theorem plain_roundtrip : forall content,
    no_end_inside eq content = true -> Forall (okc ml) content ->
    ((unq && cws) = true -> no_bs content = true) ->
    let s := q ++ content ++ eq in
    qs_parse cfg s 0 = Some (length s, if unq then content else s).
  Proof.
    intros content Hc Hok Hb s. unfold qs_parse.
    assert (C : char_at s 0 = Some (hd 0%N q)).
    { unfold s. clear - Hq. destruct q; [contradiction | reflexivity]. }
    rewrite C. cbn [q_quote cfg plain_cfg]. rewrite N.eqb_refl.
    fold cfg. unfold s. rewrite (plain_match_whole content Hc Hok). fold s. rewrite substr_all.
    cbn [q_unquote cfg plain_cfg]. destruct unq eqn:U; [|reflexivity].
    unfold unquote. cbn [q_quote q_end q_escq cfg plain_cfg]. unfold s. rewrite inner_split; [|exact []].
    rewrite scan_noesc_id.
    - reflexivity.
    - reflexivity.
    - intros W. apply Hb. exact W.
    - lia.
  Qed.
End Plain.

Theorem quoted_roundtrip_plain : forall q eq ml unq cws content,
  let cfg := plain_cfg q eq ml unq cws in
  plain_hyp cfg content = true ->
  qs_parse cfg (quoted_source cfg content) 0 =
    Some (length (quoted_source cfg content), if unq then content else quoted_source cfg content).
Proof.
  intros q eq ml unq cws content cfg H. unfold plain_hyp, quotes_nonempty, scan_neutral in H.
  repeat (apply andb_true_iff in H; let H' := fresh "H" in destruct H as [H H']).
  cbn [q_quote q_end q_multiline q_cws q_unquote cfg plain_cfg] in *.
  apply negb_true_iff in H, H3.
  apply (plain_roundtrip q eq ml unq cws).
  - intros ->. discriminate.
  - intros ->. discriminate.
  - exact H2.
  - apply no_newline_okc. exact H1.
  - intros E. rewrite E in H0. exact H0.
Qed.
