(* QuotedString round trip (esc_char case): the pattern built by __init__ matches the whole canonical source and
   nothing shorter, and the unquote scanner returns the content. *)
From Coq Require Import List NArith ZArith Arith Bool Lia.
From PP Require Import Model.Str Model.Regex Proofs.RegexProofs Model.Builtins Proofs.BuiltinsProofs Model.Quoted Gen.GenRegex.
Import ListNotations.

(* ------------------------------------------------------------------ den of sequences, literals, alternations *)
Fixpoint den_list (l : list re) (s : str) (i j : nat) : Prop :=
  match l with
  | [] => i = j
  | a :: t => exists m, den a s i m /\ den_list t s m j
  end.

Lemma den_rseq : forall l s i j, den (rseq l) s i j <-> den_list l s i j.
Proof.
  induction l as [|a t IH]; intros s i j.
  - simpl. tauto.
  - destruct t as [|b t'].
    + simpl. split.
      * intros H. exists j. auto.
      * intros (m & H & <-). exact H.
    + change (rseq (a :: b :: t')) with (RSeq a (rseq (b :: t'))). simpl den. simpl den_list.
      split; intros (m & H1 & H2); exists m; split; auto; apply IH; auto.
Qed.

Lemma den_list_app : forall l1 l2 s i j,
  den_list (l1 ++ l2) s i j <-> exists m, den_list l1 s i m /\ den_list l2 s m j.
Proof.
  induction l1 as [|a t IH]; intros l2 s i j; simpl.
  - split.
    + intros H. exists i. auto.
    + intros (m & -> & H). exact H.
  - split.
    + intros (m & H1 & H2). apply IH in H2. destruct H2 as (m' & H2 & H3). exists m'. split; auto. exists m. auto.
    + intros (m' & (m & H1 & H2) & H3). exists m. split; auto. apply IH. exists m'. auto.
Qed.

Lemma den_chr : forall c s i j, den (RChr c) s i j <-> exists t, skipn i s = c :: t /\ j = S i.
Proof.
  intros c s i j. unfold RChr. cbn [den]. split.
  - intros (c' & Hc & M & ->). rewrite cset_mem_single in M. apply N.eqb_eq in M. subst c'.
    rewrite char_at_skipn in Hc. destruct (skipn i s) as [|x t] eqn:E; [discriminate|]. simpl in Hc.
    injection Hc as ->. exists t. auto.
  - intros (t & E & ->). exists c. rewrite char_at_skipn, E. cbn [hd_error]. rewrite cset_mem_single, N.eqb_refl. auto.
Qed.

Lemma den_chars : forall w s i j,
  den_list (map RChr w) s i j <-> exists t, skipn i s = w ++ t /\ j = i + length w.
Proof.
  induction w as [|c w IH]; intros s i j; simpl.
  - split.
    + intros ->. exists (skipn j s). split; auto.
    + intros (t & _ & ->). lia.
  - split.
    + intros (m & H1 & H2). apply den_chr in H1. destruct H1 as (t & E & ->).
      apply IH in H2. destruct H2 as (t' & E' & ->). rewrite (skipn_S_tl _ _ _ _ E) in E'. subst t.
      exists t'. split; auto. lia.
    + intros (t & E & ->). exists (S i). split.
      * apply den_chr. exists (w ++ t). auto.
      * apply IH. exists t. rewrite (skipn_S_tl _ _ _ _ E). split; auto. lia.
Qed.

Lemma den_rlit : forall w s i j, den (rlit w) s i j <-> exists t, skipn i s = w ++ t /\ j = i + length w.
Proof. intros. unfold rlit. rewrite den_rseq. apply den_chars. Qed.

Lemma den_ralt : forall l s i j, den (ralt l) s i j <-> exists r, In r l /\ den r s i j.
Proof.
  induction l as [|a t IH]; intros s i j.
  - simpl. split.
    + intros (c & _ & M & _). unfold cset_mem, items_mem in M. simpl in M. discriminate.
    + intros (r & [] & _).
  - destruct t as [|b t'].
    + simpl. split.
      * intros H. exists a. auto.
      * intros (r & [<- | []] & H). exact H.
    + change (ralt (a :: b :: t')) with (RAlt a (ralt (b :: t'))). simpl den. rewrite IH. split.
      * intros [H | (r & Hin & H)]; [exists a; simpl; auto | exists r; simpl In; auto].
      * intros (r & [<- | Hin] & H); [left; exact H | right; exists r; auto].
Qed.

(* rep_ok / consuming of the building blocks *)
Lemma rep_ok_rseq : forall l, forallb rep_ok l = true -> rep_ok (rseq l) = true.
Proof.
  induction l as [|a t IH]; simpl; auto. intros H. apply andb_true_iff in H. destruct H as [H1 H2].
  destruct t as [|b t']; auto. change (rseq (a :: b :: t')) with (RSeq a (rseq (b :: t'))). simpl.
  rewrite H1. apply IH. exact H2.
Qed.

Lemma rep_ok_ralt : forall l, forallb rep_ok l = true -> rep_ok (ralt l) = true.
Proof.
  induction l as [|a t IH]; simpl; auto. intros H. apply andb_true_iff in H. destruct H as [H1 H2].
  destruct t as [|b t']; auto. change (ralt (a :: b :: t')) with (RAlt a (ralt (b :: t'))). simpl.
  rewrite H1. apply IH. exact H2.
Qed.

Lemma consuming_ralt : forall l, forallb consuming l = true -> consuming (ralt l) = true.
Proof.
  induction l as [|a t IH]; simpl; auto. intros H. apply andb_true_iff in H. destruct H as [H1 H2].
  destruct t as [|b t']; auto. change (ralt (a :: b :: t')) with (RAlt a (ralt (b :: t'))). simpl.
  rewrite H1. apply IH. exact H2.
Qed.

Lemma rep_ok_chars : forall w, forallb rep_ok (map RChr w) = true.
Proof. induction w; simpl; auto. Qed.

Lemma consuming_rseq_chr : forall c t, consuming (rseq (RChr c :: t)) = true.
Proof. intros c [|b t]; reflexivity. Qed.

(* ------------------------------------------------------------------ the scanner's special alternatives need a backslash + special character *)
Lemma ws_map_keys : forall k v, In (k, v) qs_ws_map -> exists x, k = [BS; x] /\ after_backslash_special x = true.
Proof.
  intros k v H. unfold qs_ws_map in H. simpl in H.
  repeat (destruct H as [H | H]; [injection H as <- <-; eexists; split; reflexivity|]). contradiction.
Qed.

Lemma ws_lookup_none : forall t,
  (forall x r, t = BS :: x :: r -> after_backslash_special x = false) -> ws_lookup qs_ws_map t = None.
Proof.
  intros t H. assert (G : forall m, (forall k v, In (k, v) m -> In (k, v) qs_ws_map) -> ws_lookup m t = None).
  { induction m as [|[k v] m IH]; intros Hm; simpl; auto.
    destruct (ws_map_keys k v (Hm k v (or_introl eq_refl))) as (x & -> & Sx).
    destruct (prefix_of [BS; x] t) eqn:P.
    - exfalso. destruct t as [|a [|b r]]; cbn [prefix_of] in P; try discriminate.
      + rewrite andb_false_r in P. discriminate.
      + apply andb_true_iff in P. destruct P as [P1 P2]. apply andb_true_iff in P2. destruct P2 as [P2 _].
        apply N.eqb_eq in P1. apply N.eqb_eq in P2. subst. rewrite (H b r eq_refl) in Sx. discriminate.
    - apply IH. intros k' v' Hin. apply Hm. right. exact Hin. }
  apply G. auto.
Qed.

Lemma set_first : forall ic neg items t i j, den (RSet ic neg items) t i j ->
  exists c, char_at t i = Some c /\ cset_mem ic neg items c = true /\ j = S i.
Proof. intros. exact H. Qed.

Lemma qs_numeric_needs_special : forall t e, re_match re_qs_numeric t 0 = Some e ->
  exists x r, t = BS :: x :: r /\ after_backslash_special x = true.
Proof.
  intros t e H. apply re_match_sound in H; [|vm_compute; reflexivity].
  unfold re_qs_numeric in H. cbn [den] in H.
  destruct H as (m & (c & Hc & Mc & ->) & Halt).
  rewrite cset_mem_single in Mc. apply N.eqb_eq in Mc. subst c.
  assert (X : exists x, char_at t 1 = Some x /\ after_backslash_special x = true).
  { destruct Halt as [H | [H | [H | H]]].
    - destruct H as (m & (x & Hx & Mx & _) & _). exists x. split; auto.
      unfold cset_mem, items_mem in Mx. simpl in Mx. unfold after_backslash_special.
      destruct (in_range 48%N 55%N x); [reflexivity | discriminate].
    - destruct H as (x & Hx & Mx & _). exists x. split; auto.
      rewrite cset_mem_single in Mx. apply N.eqb_eq in Mx. subst. reflexivity.
    - destruct H as (m & (x & Hx & Mx & _) & _). exists x. split; auto.
      rewrite cset_mem_single in Mx. apply N.eqb_eq in Mx. subst. reflexivity.
    - destruct H as (m & (x & Hx & Mx & _) & _). exists x. split; auto.
      rewrite cset_mem_single in Mx. apply N.eqb_eq in Mx. subst. reflexivity. }
  destruct X as (x & Hx & Sx). destruct t as [|a [|b r]]; try discriminate.
  simpl in Hc, Hx. injection Hc as ->. injection Hx as ->. exists x, r. auto.
Qed.

Lemma cset_neg_true : forall items c, cset_mem false true items c = true <-> items_mem items c = false.
Proof. intros. unfold cset_mem. simpl. destruct (items_mem items c); simpl; split; congruence. Qed.

Lemma items_mem_char : forall items d, In (CI_char d) items -> items_mem items d = true.
Proof.
  intros. unfold items_mem. apply existsb_exists. exists (CI_char d). split; auto. simpl. apply N.eqb_refl.
Qed.

(* ------------------------------------------------------------------ the round trip *)
Section RoundTrip.
  Variables (q eq' : str) (e0 e : char) (ml cws : bool).
  Let eq := e0 :: eq'.
  Definition rt_cfg (unq : bool) : qcfg :=
    {| q_quote := q; q_end := eq; q_esc := Some e; q_escq := None; q_multiline := ml; q_unquote := unq; q_cws := cws |}.

  Hypothesis Hq : q <> [].
  Hypothesis Hne : e <> e0.
  Hypothesis HeNL : e <> NL.
  Hypothesis He0NL : e0 <> NL.
  Hypothesis Hsp : cws = true -> e = BS -> after_backslash_special e0 = false.

  Definition esc1 (c : char) : bool := N.eqb c e || N.eqb c e0 || (cws && N.eqb c BS).
  Definition unit1 (c : char) : str := if esc1 c then [e; c] else [c].
  Definition escs (rc : str) : str := flat_map unit1 rc.

  (* a content character is acceptable when newlines are allowed or it is not one *)
  Definition okc (c : char) : Prop := ml = true \/ (c <> NL /\ c <> CR).

  Lemma escape_content_escs : forall unq rc, escape_content (rt_cfg unq) rc = escs rc.
  Proof. reflexivity. Qed.

  Lemma esc1_false : forall c, esc1 c = false -> c <> e /\ c <> e0 /\ (cws = true -> c <> BS).
  Proof.
    intros c H. unfold esc1 in H. apply orb_false_iff in H. destruct H as [H H3].
    apply orb_false_iff in H. destruct H as [H1 H2]. apply N.eqb_neq in H1. apply N.eqb_neq in H2.
    repeat split; auto. intros ->. simpl in H3. apply N.eqb_neq in H3. exact H3.
  Qed.

  Lemma esc1_true : forall c, esc1 c = true -> c = e \/ c = e0 \/ (cws = true /\ c = BS).
  Proof.
    intros c H. unfold esc1 in H. apply orb_true_iff in H. destruct H as [H | H].
    - apply orb_true_iff in H. destruct H as [H | H]; apply N.eqb_eq in H; auto.
    - apply andb_true_iff in H. destruct H as [H1 H2]. apply N.eqb_eq in H2. auto.
  Qed.

  (* the first character of a unit is never the first character of the end quote *)
  Lemma unit_head : forall c, exists x t, unit1 c = x :: t /\ x <> e0 /\ (x = e <-> esc1 c = true).
  Proof.
    intros c. unfold unit1. destruct (esc1 c) eqn:E.
    - exists e, [c]. split; auto. split; auto. tauto.
    - destruct (esc1_false c E) as (H1 & H2 & _). exists c, []. split; auto. split; auto.
      split; [intros ->; contradiction | discriminate].
  Qed.

  Variable unq : bool.
  Let cfg := rt_cfg unq.
  Let body := ralt (qs_inner cfg).

  Section Source.
    Variable s : str.

    (* position i is the start of the units of rc, followed by the closing quote and the end of s *)
    Definition At (i : nat) (rc : str) : Prop := skipn i s = escs rc ++ eq.

    Lemma inner_cases : forall r, In r (qs_inner cfg) ->
      r = RSeq (RChr e) (RAny ml) \/ r = prefix_alts eq \/ r = body_set cfg.
    Proof.
      intros r H. unfold qs_inner in H. simpl in H. destruct H as [<- | H]; auto.
      apply in_app_or in H. destruct H as [H | H].
      - match type of H with In _ (if ?b then _ else _) => destruct b end; simpl in H; intuition.
      - simpl in H. intuition.
    Qed.

    Lemma body_set_mem : forall c, cset_mem false true
        ([CI_char e0] ++ (if ml then [] else [CI_char NL; CI_char CR]) ++ [CI_char e]) c = true ->
      c <> e0 /\ c <> e.
    Proof.
      intros c H. apply cset_neg_true in H. split; intros ->.
      - rewrite items_mem_char in H; [discriminate|]. simpl. auto.
      - rewrite items_mem_char in H; [discriminate|]. rewrite !in_app_iff. simpl. auto.
    Qed.

    Lemma body_set_mem_ok : forall c, c <> e0 -> c <> e -> okc c -> cset_mem false true
        ([CI_char e0] ++ (if ml then [] else [CI_char NL; CI_char CR]) ++ [CI_char e]) c = true.
    Proof.
      intros c H1 H2 H3. apply cset_neg_true.
      destruct (items_mem _ c) eqn:M; auto. exfalso. unfold items_mem in M. apply existsb_exists in M.
      destruct M as (it & Hin & M). rewrite !in_app_iff in Hin. destruct Hin as [Hin | [Hin | Hin]].
      - simpl in Hin. destruct Hin as [<- | []]. simpl in M. apply N.eqb_eq in M. auto.
      - destruct H3 as [-> | [H3 H4]]; [destruct Hin|]. destruct ml; [destruct Hin|].
        simpl in Hin. destruct Hin as [<- | [<- | []]]; simpl in M; apply N.eqb_eq in M; auto.
      - simpl in Hin. destruct Hin as [<- | []]. simpl in M. apply N.eqb_eq in M. auto.
    Qed.

    (* one iteration of the body consumes exactly one unit *)
    Lemma body_step : forall i m rc, At i rc -> den body s i m -> exists c rc', rc = c :: rc' /\ At m rc'.
    Proof.
      intros i m rc HA H. unfold body in H. apply den_ralt in H. destruct H as (r & Hin & H).
      apply inner_cases in Hin. unfold At in HA. destruct Hin as [-> | [-> | ->]].
      - (* esc_char . *)
        simpl den in H. destruct H as (m1 & H1 & H2). apply den_chr in H1. destruct H1 as (t & E & ->).
        destruct rc as [|c rc'].
        + simpl in HA. rewrite HA in E. unfold eq in E. injection E as E _. congruence.
        + simpl in HA. destruct (unit_head c) as (x & u & U & Hx & Hxe). rewrite U in HA. simpl in HA.
          rewrite HA in E. injection E as -> <-. assert (Ec : esc1 c = true) by (apply Hxe; reflexivity).
          unfold unit1 in U. rewrite Ec in U. injection U as <-.
          destruct H2 as (c' & Hc' & _ & ->).
          exists c, rc'. split; auto. unfold At.
          rewrite (skipn_S_tl _ _ _ _ (skipn_S_tl _ _ _ _ HA)). reflexivity.
      - (* a proper prefix of the end quote not followed by the rest *)
        unfold prefix_alts in H. apply den_ralt in H. destruct H as (r & Hin & H).
        apply in_map_iff in Hin. destruct Hin as (k & <- & Hk).
        assert (Kb : 1 <= k /\ k < length eq).
        { clear - Hk. assert (G : forall n k0, In k0 (countdown n) -> 1 <= k0 /\ k0 <= n).
          { induction n; simpl; intros k0 Hin; [destruct Hin|]. destruct Hin as [<- | Hin]; [lia|]. apply IHn in Hin. lia. }
          apply G in Hk. unfold eq in *. simpl in *. lia. }
        unfold prefix_alt in H. apply den_rseq in H. apply den_list_app in H.
        destruct H as (m1 & H1 & H2). apply den_chars in H1. destruct H1 as (t & E & ->).
        simpl in H2. destruct H2 as (m2 & (<- & HL) & <-).
        assert (F : exists u, firstn k eq = e0 :: u).
        { unfold eq. destruct k; [lia|]. simpl. eauto. }
        destruct F as (u & F). rewrite F in E.
        destruct rc as [|c rc'].
        + exfalso. apply HL. simpl in HA. exists (i + length (firstn k eq) + length (skipn k eq)).
          apply den_rlit. exists []. split; [|reflexivity]. rewrite app_nil_r, <- skipn_plus, HA, firstn_length.
          replace (Nat.min k (length eq)) with k by lia. reflexivity.
        + exfalso. simpl in HA. destruct (unit_head c) as (x & u' & U & Hx & _). rewrite U in HA. simpl in HA.
          rewrite HA in E. injection E as E _. congruence.
      - (* a character outside the excluded set *)
        unfold body_set in H. simpl in H. destruct H as (c' & Hc' & M & ->).
        apply body_set_mem in M. destruct M as [M1 M2].
        rewrite char_at_skipn in Hc'.
        destruct rc as [|c rc'].
        + simpl in HA. rewrite HA in Hc'. simpl in Hc'. injection Hc' as <-. congruence.
        + simpl in HA. destruct (unit_head c) as (x & u & U & Hx & Hxe). rewrite U in HA. simpl in HA.
          rewrite HA in Hc'. simpl in Hc'. injection Hc' as <-.
          assert (Ec : esc1 c = false).
          { destruct (esc1 c) eqn:Ec; auto. exfalso. apply M2. apply Hxe. reflexivity. }
          unfold unit1 in U. rewrite Ec in U. injection U as <- <-.
          exists c, rc'. split; auto. unfold At. rewrite (skipn_S_tl _ _ _ _ HA). reflexivity.
    Qed.

    Lemma iter_step : forall n i m rc, At i rc -> iter_rel (den body s) n i m -> exists rc', At m rc'.
    Proof.
      induction n; simpl; intros i m rc HA H.
      - subst. eauto.
      - destruct H as (m1 & H1 & H2). destruct (body_step _ _ _ HA H1) as (c & rc' & -> & HA'). eapply IHn; eauto.
    Qed.

    Lemma end_only : forall i j rc, At i rc -> den_list (map RChr eq) s i j -> rc = [] /\ j = length s.
    Proof.
      intros i j rc HA H. apply den_chars in H. destruct H as (t & E & ->). unfold At in HA.
      destruct rc as [|c rc'].
      - split; auto. simpl in HA. pose proof (skipn_length i s) as L. rewrite HA in L.
        unfold eq in L. simpl in L. unfold eq. simpl. lia.
      - exfalso. simpl in HA. destruct (unit_head c) as (x & u & U & Hx & _). rewrite U in HA. simpl in HA.
        rewrite HA in E. unfold eq in E. simpl in E. injection E as E _. congruence.
    Qed.

    Lemma in_inner_esc : In (RSeq (RChr e) (RAny ml)) (qs_inner cfg).
    Proof. unfold qs_inner. simpl. auto. Qed.

    Lemma in_inner_set : In (body_set cfg) (qs_inner cfg).
    Proof. unfold qs_inner. simpl. right. apply in_or_app. right. simpl. auto. Qed.

    Lemma body_exists : forall rc i, Forall okc rc -> At i rc ->
      exists m, iter_rel (den body s) (length rc) i m /\ At m [].
    Proof.
      induction rc as [|c rc IH]; intros i Hok HA; simpl.
      - exists i. auto.
      - inversion Hok as [|? ? Hc Hrest]; subst. unfold At in HA. simpl in HA. unfold unit1 in HA.
        destruct (esc1 c) eqn:Ec; simpl in HA.
        + assert (HA2 : At (S (S i)) rc).
          { unfold At. rewrite (skipn_S_tl _ _ _ _ (skipn_S_tl _ _ _ _ HA)). reflexivity. }
          destruct (IH _ Hrest HA2) as (m & Hm & HAm). exists m. split; auto. exists (S (S i)). split; auto.
          unfold body. apply den_ralt. exists (RSeq (RChr e) (RAny ml)). split; [apply in_inner_esc|].
          cbn [den]. exists (S i). split.
          * apply den_chr. eexists. split; eauto.
          * exists c. split.
            -- rewrite char_at_skipn, (skipn_S_tl _ _ _ _ HA). reflexivity.
            -- split; auto. destruct Hc as [-> | [Hc _]]; auto. apply N.eqb_neq in Hc. rewrite Hc.
               destruct ml; reflexivity.
        + destruct (esc1_false c Ec) as (C1 & C2 & _).
          assert (HA2 : At (S i) rc).
          { unfold At. rewrite (skipn_S_tl _ _ _ _ HA). reflexivity. }
          destruct (IH _ Hrest HA2) as (m & Hm & HAm). exists m. split; auto. exists (S i). split; auto.
          unfold body. apply den_ralt. exists (body_set cfg). split; [apply in_inner_set|].
          unfold body_set. simpl. exists c. split.
          * rewrite char_at_skipn, HA. reflexivity.
          * split; auto. apply body_set_mem_ok; auto.
    Qed.

    Lemma countdown_in : forall n k, In k (countdown n) -> 1 <= k /\ k <= n.
    Proof.
      induction n; simpl; intros k Hin; [destruct Hin|]. destruct Hin as [<- | Hin]; [lia|]. apply IHn in Hin. lia.
    Qed.

    Lemma body_rep_ok : rep_ok body = true /\ consuming body = true.
    Proof.
      unfold body. split.
      - apply rep_ok_ralt. apply forallb_forall. intros r Hin. apply inner_cases in Hin.
        destruct Hin as [-> | [-> | ->]]; try reflexivity.
        unfold prefix_alts. apply rep_ok_ralt. apply forallb_forall. intros r Hr. apply in_map_iff in Hr.
        destruct Hr as (k & <- & _). unfold prefix_alt. apply rep_ok_rseq. rewrite forallb_app, rep_ok_chars.
        cbn [forallb rep_ok andb]. rewrite andb_true_r. unfold rlit. apply rep_ok_rseq. apply rep_ok_chars.
      - apply consuming_ralt. apply forallb_forall. intros r Hin. apply inner_cases in Hin.
        destruct Hin as [-> | [-> | ->]]; try reflexivity.
        unfold prefix_alts. apply consuming_ralt. apply forallb_forall. intros r Hr. apply in_map_iff in Hr.
        destruct Hr as (k & <- & Hk). apply countdown_in in Hk. unfold prefix_alt.
        destruct k; [lia|]. unfold eq. cbn [firstn map app]. apply consuming_rseq_chr.
    Qed.

    Lemma pattern_rep_ok : rep_ok (qs_pattern cfg) = true.
    Proof.
      unfold qs_pattern. apply rep_ok_rseq. rewrite !forallb_app, !rep_ok_chars.
      destruct body_rep_ok as [B1 B2]. unfold body in B1, B2. cbn [forallb rep_ok]. rewrite B1, B2. reflexivity.
    Qed.

    Variable content : str.
    Hypothesis Hs : s = q ++ escs content ++ eq.
    Hypothesis Hok : Forall okc content.

    Lemma skipn_app_exact : forall (a b : str), skipn (length a) (a ++ b) = b.
    Proof. induction a; simpl; auto. Qed.

    Lemma at_start : At (length q) content.
    Proof. unfold At. rewrite Hs. apply skipn_app_exact. Qed.

    Lemma den_pattern : forall j, den (qs_pattern cfg) s 0 j <->
      exists m1 m2, den_list (map RChr q) s 0 m1 /\ (exists n, iter_rel (den body s) n m1 m2) /\ den_list (map RChr eq) s m2 j.
    Proof.
      intros j. unfold qs_pattern. rewrite den_rseq, den_list_app. split.
      - intros (m1 & H1 & H2). apply den_list_app in H2. destruct H2 as (m2 & H2 & H3).
        simpl in H2. destruct H2 as (m & (n & _ & _ & H2) & <-). exists m1, m. split; auto. split; eauto.
      - intros (m1 & m2 & H1 & (n & H2) & H3). exists m1. split; auto. apply den_list_app. exists m2. split; auto.
        simpl. exists m2. split; auto. exists n. split; [lia|]. auto.
    Qed.

    Theorem match_whole : re_match (qs_pattern cfg) s 0 = Some (length s).
    Proof.
      assert (Q : den_list (map RChr q) s 0 (length q)).
      { apply den_chars. exists (escs content ++ eq). split; auto. }
      assert (U : forall j, den (qs_pattern cfg) s 0 j -> j = length s).
      { intros j H. apply den_pattern in H. destruct H as (m1 & m2 & H1 & (n & H2) & H3).
        apply den_chars in H1. destruct H1 as (t & _ & ->). simpl in H2.
        destruct (iter_step _ _ _ _ at_start H2) as (rc' & HA). apply (end_only _ _ _ HA H3). }
      assert (E : den (qs_pattern cfg) s 0 (length s)).
      { apply den_pattern. destruct (body_exists content (length q) Hok at_start) as (m & Hm & HAm).
        exists (length q), m. split; auto. split; [eauto|].
        apply den_chars. exists []. unfold At in HAm. simpl in HAm. rewrite app_nil_r. split; auto.
        pose proof (skipn_length m s) as L. rewrite HAm in L. unfold eq in *. simpl in *. lia. }
      destruct (re_match (qs_pattern cfg) s 0) as [e1|] eqn:R.
      - apply re_match_sound in R; [|apply pattern_rep_ok]. apply U in R. congruence.
      - exfalso. eapply re_match_complete; eauto. apply pattern_rep_ok.
    Qed.
  End Source.

  (* the scanner on the escaped text *)
  Lemma special_esc : forall c, cws = true -> e = BS -> esc1 c = true -> after_backslash_special c = false.
  Proof.
    intros c Hc He Ec. apply esc1_true in Ec. destruct Ec as [-> | [-> | [_ ->]]].
    - rewrite He. reflexivity.
    - auto.
    - reflexivity.
  Qed.

  Lemma scan_unit : forall c rest, okc c -> scan_step cfg (unit1 c ++ rest) = Some ([c], rest).
  Proof.
    intros c rest Hc. unfold unit1. destruct (esc1 c) eqn:Ec.
    - (* escaped pair *)
      assert (NS : forall x r, e :: c :: rest = BS :: x :: r -> cws = true -> after_backslash_special x = false).
      { intros x r E Hcws. injection E as E1 E2 _. rewrite <- E2. apply special_esc; auto. }
      assert (D : dot_ok cfg c = true).
      { unfold dot_ok. simpl. destruct Hc as [-> | [Hc _]]; auto. apply N.eqb_neq in Hc. rewrite Hc. destruct ml; reflexivity. }
      cbn [app]. unfold scan_step. cbn [q_esc q_cws cfg rt_cfg]. rewrite N.eqb_refl, D. cbn [andb].
      destruct cws eqn:Hcws; auto.
      rewrite ws_lookup_none by (intros x r E; eapply NS; eauto).
      destruct (re_match re_qs_numeric (e :: c :: rest) 0) as [e1|] eqn:R; auto.
      apply qs_numeric_needs_special in R. destruct R as (x & r & E & Sx). rewrite (NS x r E eq_refl) in Sx. discriminate.
    - destruct (esc1_false c Ec) as (C1 & C2 & C3).
      assert (NS : forall x r, c :: rest = BS :: x :: r -> cws = true -> False).
      { intros x r E Hcws. injection E as E1 _. apply C3; auto. }
      cbn [app]. unfold scan_step. cbn [q_esc q_cws cfg rt_cfg].
      replace (N.eqb c e) with false by (symmetry; apply N.eqb_neq; auto). cbn [andb].
      assert (T : match match rest with x :: r' => @None (str * str) | [] => None end with Some o => Some o | None => Some ([c], rest) end = Some ([c], rest))
        by (destruct rest; reflexivity).
      destruct cws eqn:Hcws.
      + rewrite ws_lookup_none by (intros x r E; exfalso; eapply NS; eauto).
        destruct (re_match re_qs_numeric (c :: rest) 0) as [e1|] eqn:R.
        * apply qs_numeric_needs_special in R. destruct R as (x & r & E & _). exfalso. eapply NS; eauto.
        * destruct rest; reflexivity.
      + destruct rest; reflexivity.
  Qed.

  Lemma scan_escs : forall rc fuel, Forall okc rc -> length rc <= fuel -> unq_scan cfg fuel (escs rc) = rc.
  Proof.
    induction rc as [|c rc IH]; intros fuel Hok Hf.
    - destruct fuel; reflexivity.
    - destruct fuel as [|f]; [simpl in Hf; lia|]. inversion Hok as [|? ? Hc Hrest]; subst.
      change (escs (c :: rc)) with (unit1 c ++ escs rc). cbn [unq_scan]. rewrite scan_unit by auto.
      cbn [app]. f_equal. apply IH; auto. simpl in Hf. lia.
  Qed.

  Lemma escs_length : forall rc, length rc <= length (escs rc).
  Proof.
    induction rc as [|c rc IH]; simpl; auto. rewrite app_length. unfold unit1. destruct (esc1 c); simpl; lia.
  Qed.

  Theorem roundtrip : forall content, Forall okc content ->
    let s := q ++ escs content ++ eq in
    qs_parse cfg s 0 = Some (length s, if unq then content else s).
  Proof.
    intros content Hok s. unfold qs_parse.
    assert (C : char_at s 0 = Some (hd 0%N q)).
    { unfold s. clear - Hq. destruct q; [contradiction | reflexivity]. }
    rewrite C. cbn [q_quote cfg rt_cfg]. rewrite N.eqb_refl.
    rewrite (match_whole s content eq_refl Hok). rewrite substr_all. cbn [q_unquote cfg rt_cfg].
    assert (U : unquote cfg s = content).
    { unfold unquote. cbn [q_quote q_end q_escq cfg rt_cfg].
      assert (I : firstn (length s - length q - length eq) (skipn (length q) s) = escs content).
      { unfold s. rewrite skipn_app_exact. rewrite !app_length.
        replace (length q + (length (escs content) + length eq) - length q - length eq)
          with (length (escs content) + 0) by lia.
        rewrite firstn_app_2. simpl. apply app_nil_r. }
      rewrite I. apply scan_escs; auto. pose proof (escs_length content). lia. }
    rewrite U. reflexivity.
  Qed.
End RoundTrip.

(* ------------------------------------------------------------------ the statement in terms of the model's own vocabulary *)
Definition esc_cfg (q eq : str) (e : char) (ml unq cws : bool) : qcfg :=
  {| q_quote := q; q_end := eq; q_esc := Some e; q_escq := None; q_multiline := ml; q_unquote := unq; q_cws := cws |}.

Lemma no_newline_okc : forall ml content, (ml || no_newline content) = true -> Forall (okc ml) content.
Proof.
  intros ml content H. apply Forall_forall. intros c Hc. unfold okc. destruct ml; auto. right.
  simpl in H. unfold no_newline in H. rewrite forallb_forall in H. apply H in Hc.
  apply negb_true_iff in Hc. apply orb_false_iff in Hc. destruct Hc as [H1 H2].
  apply N.eqb_neq in H1. apply N.eqb_neq in H2. auto.
Qed.

Theorem quoted_roundtrip : forall q eq e ml unq cws content,
  let cfg := esc_cfg q eq e ml unq cws in
  roundtrip_hyp cfg e content = true ->
  qs_parse cfg (quoted_source cfg content) 0 =
    Some (length (quoted_source cfg content), if unq then content else quoted_source cfg content).
Proof.
  intros q eq e ml unq cws content cfg H. unfold roundtrip_hyp in H.
  repeat (apply andb_true_iff in H; let H' := fresh "H" in destruct H as [H H']).
  cbn [q_quote q_end q_multiline q_cws cfg esc_cfg] in *.
  destruct eq as [|e0 eq']; [discriminate|]. unfold end0 in *. cbn [q_end cfg esc_cfg hd] in *.
  apply negb_true_iff in H, H5, H4, H3, H2, H0.
  apply (roundtrip q eq' e0 e ml cws).
  - intros ->. discriminate.
  - apply N.eqb_neq. exact H4.
  - apply N.eqb_neq. exact H3.
  - apply N.eqb_neq. exact H2.
  - intros -> ->. simpl in H0. exact H0.
  - apply no_newline_okc. exact H1.
Qed.

(* F-18a: with both esc_char and esc_quote the esc_quote replacement runs on the already un-escaped text *)
Definition f18a_cfg : qcfg :=
  {| q_quote := [34%N]; q_end := [34%N]; q_esc := Some BS; q_escq := Some [34%N; 34%N];
     q_multiline := false; q_unquote := true; q_cws := true |}.

Lemma f18a_witness :
  quoted_source f18a_cfg [34%N; 34%N] = [34; 92; 34; 92; 34; 34]%N /\
  qs_parse f18a_cfg (quoted_source f18a_cfg [34%N; 34%N]) 0 = Some (6, [34%N]).
Proof. vm_compute. split; reflexivity. Qed.

(* F-18b: without an esc_char a backslash-t in the content cannot be kept when white-space escapes are converted *)
Definition f18b_cfg : qcfg :=
  {| q_quote := [60%N]; q_end := [62%N]; q_esc := None; q_escq := None;
     q_multiline := false; q_unquote := true; q_cws := true |}.

Lemma f18b_witness :
  qs_parse f18b_cfg (quoted_source f18b_cfg [92%N; 116%N]) 0 = Some (4, [9%N]).
Proof. vm_compute. reflexivity. Qed.
