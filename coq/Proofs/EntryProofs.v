(* C08: parse_string(parse_all=True) against the plain parse and against `expr + StringEnd()`; completeness of the
   scan_string loop; the max_matches prefix property.  Everything about the drivers of Model/Entry.v holds for EVERY
   handler `rec` interpreting the `_parse` calls; the comparison with the And built by `expr + StringEnd()` needs a handler
   that knows what an And does, i.e. the plain parser `parse (step G) fuel`, for every fuel. *)
From Coq Require Import List ZArith NArith Bool Arith Lia.
From PP Require Import Model.Str Model.Results Model.Prog Model.Core Model.Entry Model.EntryExtra.
From PP Require Import Proofs.ScanProofs Proofs.PegEquiv Proofs.Insens Proofs.Packrat.
Import ListNotations.

(* ------------------------------------------------------------------------------------------- *)
(* (1) parse_all only adds a check                                                              *)
(* ------------------------------------------------------------------------------------------- *)
Section ParseAll.
Variable rec : args -> option outcome.
Variable dw : list char.

(* a successful parse_string(parse_all=True) returns the ParseResults of the plain parse_string *)
Theorem parse_all_tokens root keeptabs input r :
  drun rec (parse_string dw root keeptabs input true) = Some (POk r) ->
  drun rec (parse_string dw root keeptabs input false) = Some (POk r).
Proof.
  unfold parse_string. cbn [drun].
  destruct (rec _) as [[loc r0|x|]|]; try discriminate; cbn [drun]; try discriminate.
  rewrite drun_lift.
  destruct (run rec _) as [[loc' r1|x|]|]; try discriminate; cbn [drun]; try discriminate.
  destruct (rec _) as [[l2 r2|x|]|]; try discriminate; cbn [drun]; try discriminate.
  intros H. exact H.
Qed.

(* and whatever makes the plain parse_string raise (or spin) makes parse_string(parse_all=True) do the same *)
Theorem parse_all_plain_failure root keeptabs input res :
  drun rec (parse_string dw root keeptabs input false) = Some res -> (forall r, res <> POk r) ->
  drun rec (parse_string dw root keeptabs input true) = Some res.
Proof.
  unfold parse_string. cbn [drun].
  destruct (rec _) as [[loc r0|x|]|]; try discriminate; cbn [drun]; try (intros H _; exact H).
  intros [= <-] N. exfalso. exact (N r0 eq_refl).
Qed.
End ParseAll.

(* ------------------------------------------------------------------------------------------- *)
(* (3) completeness of the non-overlapping, unlimited scan                                      *)
(* ------------------------------------------------------------------------------------------- *)
Section Complete.
Variable rec : args -> option outcome.
Variable root : expr. Variable s : str. Variable always_skip : bool.

(* `preparseFn(instring, loc)` and `parseFn(instring, preloc, callPreParse=False)` as the handler answers them *)
Definition prep (loc : nat) : option outcome :=
  run rec (pre_parse escape (if always_skip then preparser root else root) s loc (fun l => Ret (Ok l pr_empty))).
Definition direct (preloc : nat) : option outcome := rec (mkargs root s preloc true false).

(* The left-to-right search from position loc: the list of matches it reports and how it stops.  A position is passed
   WITHOUT a report only through ls_skip_fail (the direct parse at the pre-parsed position raises ParseException) or
   ls_skip_zero (it matches, but ends at or before the position the search has reached): in both cases the search resumes
   one character after the pre-parsed position.  It stops at the end of the text, or where something other than a
   ParseException is raised, or where the parser spins. *)
Inductive lsearch : nat -> list (pres * nat * nat) -> scan_end -> Prop :=
| ls_done loc : length s < loc -> lsearch loc [] SDone
| ls_match loc preloc p0 nl tk rest fin :
    loc <= length s -> prep loc = Some (Ok preloc p0) -> direct preloc = Some (Ok nl tk) -> loc < nl ->
    lsearch nl rest fin -> lsearch loc ((tk, preloc, nl) :: rest) fin
| ls_skip_fail loc preloc p0 x rest fin :
    loc <= length s -> prep loc = Some (Ok preloc p0) -> direct preloc = Some (Err x) -> is_pe (xk x) = true ->
    lsearch (S preloc) rest fin -> lsearch loc rest fin
| ls_skip_zero loc preloc p0 nl tk rest fin :
    loc <= length s -> prep loc = Some (Ok preloc p0) -> direct preloc = Some (Ok nl tk) -> nl <= loc ->
    lsearch (S preloc) rest fin -> lsearch loc rest fin
| ls_raise loc preloc p0 x :
    loc <= length s -> prep loc = Some (Ok preloc p0) -> direct preloc = Some (Err x) -> is_pe (xk x) = false ->
    lsearch loc [] (SErr x)
| ls_div loc preloc p0 :
    loc <= length s -> prep loc = Some (Ok preloc p0) -> direct preloc = Some Div -> lsearch loc [] SDiv
| ls_pre_raise loc x : loc <= length s -> prep loc = Some (Err x) -> lsearch loc [] (SErr x)
| ls_pre_div loc : loc <= length s -> prep loc = Some Div -> lsearch loc [] SDiv.

(* the search is a function of the position: two searches from the same place report the same matches and stop alike *)
Lemma lsearch_det loc l1 f1 : lsearch loc l1 f1 -> forall l2 f2, lsearch loc l2 f2 -> l1 = l2 /\ f1 = f2.
Proof.
  induction 1 as [loc Hl|loc preloc p0 nl tk rest fin Hl Hp Hd Hlt _ IH|loc preloc p0 x rest fin Hl Hp Hd Hx _ IH
                 |loc preloc p0 nl tk rest fin Hl Hp Hd Hle _ IH|loc preloc p0 x Hl Hp Hd Hx|loc preloc p0 Hl Hp Hd
                 |loc x Hl Hp|loc Hl Hp];
    intros l2 f2 H2; inversion H2; subst;
    repeat match goal with
           | A : prep ?l = _, B : prep ?l = _ |- _ => rewrite A in B; inversion B; subst; clear B
           | A : direct ?l = _, B : direct ?l = _ |- _ => rewrite A in B; inversion B; subst; clear B
           end;
    try lia; try congruence; try (split; reflexivity).
  - match goal with H : lsearch _ ?l ?f |- (_ :: _ = _ :: ?l) /\ _ = ?f => destruct (IH _ _ H) as [-> ->] end.
    split; reflexivity.
  - apply IH. assumption.
  - apply IH. assumption.
Qed.

(* the pre-parse of the loop never moves backwards (true by construction without ignore expressions, see prep_plain) *)
Hypothesis Hpre : forall loc preloc p0, prep loc = Some (Ok preloc p0) -> loc <= preloc.

(* scan_string's loop, non-overlapping and without max_matches, IS that search - provided the loop counter suffices, which
   it does for the counter scan_string starts with (scan_complete below): the `SDiv` of an exhausted counter never shows *)
Theorem scan_loop_complete : forall fuel loc matches acc res fin,
  1 <= fuel -> length s + 2 - loc <= fuel ->
  drun rec (scan_loop fuel root s always_skip false None loc matches acc) = Some (res, fin) ->
  exists new, res = acc ++ new /\ lsearch loc new fin.
Proof.
  induction fuel as [|f IH]; intros loc matches acc res fin H1 H2 H; [lia|]. cbn [scan_loop] in H.
  rewrite andb_true_r in H. destruct (Nat.leb loc (length s)) eqn:Hc.
  - apply Nat.leb_le in Hc. rewrite drun_lift in H. fold (prep loc) in H.
    destruct (prep loc) as [[preloc p0|x|]|] eqn:Hp; try discriminate; cbn [drun] in H.
    + pose proof (Hpre _ _ _ Hp) as Hge. fold (direct preloc) in H.
      destruct (direct preloc) as [[nl tk|x|]|] eqn:Hd; try discriminate.
      * destruct (Nat.ltb loc nl) eqn:Hlt.
        -- apply Nat.ltb_lt in Hlt. apply IH in H; [|lia|lia]. destruct H as (new & -> & Hs).
           exists ((tk, preloc, nl) :: new). rewrite <- app_assoc. split; [reflexivity|].
           eapply ls_match; eassumption.
        -- apply Nat.ltb_ge in Hlt. apply IH in H; [|lia|lia]. destruct H as (new & -> & Hs).
           exists new. split; [reflexivity|]. eapply ls_skip_zero; eassumption.
      * destruct (is_pe (xk x)) eqn:Hx.
        -- apply IH in H; [|lia|lia]. destruct H as (new & -> & Hs).
           exists new. split; [reflexivity|]. eapply ls_skip_fail; eassumption.
        -- injection H as <- <-. exists []. rewrite app_nil_r. split; [reflexivity|]. eapply ls_raise; eassumption.
      * injection H as <- <-. exists []. rewrite app_nil_r. split; [reflexivity|]. eapply ls_div; eassumption.
    + injection H as <- <-. exists []. rewrite app_nil_r. split; [reflexivity|]. apply ls_pre_raise; assumption.
    + injection H as <- <-. exists []. rewrite app_nil_r. split; [reflexivity|]. apply ls_pre_div; assumption.
  - apply Nat.leb_gt in Hc. cbn [drun] in H. injection H as <- <-. exists []. rewrite app_nil_r.
    split; [reflexivity|]. apply ls_done. exact Hc.
Qed.
End Complete.

(* without ignore expressions the pre-parse is the whitespace skip `ploc` of ScanProofs.v *)
Lemma prep_plain rec root s always_skip loc : plainpre root ->
  prep rec root s always_skip loc = Some (Ok (ploc root s always_skip loc) pr_empty).
Proof.
  intros Hp. unfold prep. rewrite pre_parse_plainpre; [reflexivity|].
  destruct always_skip; [apply plainpre_preparser; apply Hp|exact Hp].
Qed.

Theorem scan_complete rec root keeptabs input always_skip res fin :
  plainpre root ->
  drun rec (scan_string root keeptabs input None false always_skip) = Some (res, fin) ->
  lsearch rec root (if keeptabs then input else expandtabs input) always_skip 0 res fin.
Proof.
  intros Hp H. unfold scan_string in H.
  apply scan_loop_complete in H; try lia.
  - destruct H as (new & -> & Hs). exact Hs.
  - intros loc preloc p0 E. rewrite prep_plain in E by exact Hp. injection E as <- _. apply ploc_ge.
Qed.

(* the same with ignore expressions, for any handler whose pre-parse does not move backwards *)
Theorem scan_complete_gen rec root (keeptabs : bool) input always_skip res fin :
  let s := if keeptabs then input else expandtabs input in
  (forall loc preloc p0, prep rec root s always_skip loc = Some (Ok preloc p0) -> loc <= preloc) ->
  drun rec (scan_string root keeptabs input None false always_skip) = Some (res, fin) ->
  lsearch rec root s always_skip 0 res fin.
Proof.
  intros s0 Hpre H. unfold scan_string in H. fold s0 in H.
  apply scan_loop_complete in H; try lia; [|exact Hpre].
  destruct H as (new & -> & Hs). exact Hs.
Qed.

(* ------------------------------------------------------------------------------------------- *)
(* (4) max_matches = n reports the first n matches of the unlimited scan                        *)
(* ------------------------------------------------------------------------------------------- *)
Section MaxMatches.
Variable rec : args -> option outcome.
Variable root : expr. Variable s : str. Variable always_skip overlap : bool.

Lemma firstn_step {X} n m (x : X) l : m < n -> firstn (n - m) (x :: l) = x :: firstn (n - S m) l.
Proof. intros H. replace (n - m) with (S (n - S m)) by lia. reflexivity. Qed.

Lemma scan_loop_prefix : forall fuel loc mU accU res fin,
  drun rec (scan_loop fuel root s always_skip overlap None loc mU accU) = Some (res, fin) ->
  forall n mL accL, exists new fin',
    res = accU ++ new /\
    drun rec (scan_loop fuel root s always_skip overlap (Some n) loc mL accL) = Some (accL ++ firstn (n - mL) new, fin').
Proof.
  induction fuel as [|f IH]; intros loc mU accU res fin H n mL accL.
  - cbn in H. injection H as <- <-. exists [], SDiv. rewrite app_nil_r, firstn_nil, app_nil_r. split; reflexivity.
  - cbn [scan_loop] in H |- *. rewrite andb_true_r in H.
    assert (forall fin0, exists (new : list (pres * nat * nat)) (fin' : scan_end),
               accU = accU ++ new /\ Some (accL, fin0) = Some (accL ++ firstn (n - mL) new, fin')) as Hstop.
    { intros fin0. exists [], fin0. rewrite firstn_nil, !app_nil_r. split; reflexivity. }
    destruct (Nat.leb loc (length s)) eqn:Hc; cbn [andb].
    2:{ cbn [drun] in H |- *. injection H as <- <-. apply Hstop. }
    destruct (Nat.ltb mL n) eqn:Hm.
    2:{ (* the limit is reached: the limited scan stops here, the unlimited one may go on *)
        apply Nat.ltb_ge in Hm. replace (n - mL) with 0 by lia. cbn [drun firstn].
        rewrite drun_lift in H.
        destruct (run rec _) as [[preloc p0|x|]|]; try discriminate; cbn [drun] in H.
        - destruct (rec _) as [[nl tk|x|]|]; try discriminate.
          + destruct (Nat.ltb loc nl).
            * destruct overlap.
              -- rewrite drun_lift in H. destruct (run rec _) as [[nl2 p2|x|]|]; try discriminate; cbn [drun] in H.
                 ++ destruct (IH _ _ _ _ _ H 0 0 []) as (new & _ & E & _). subst res.
                    exists ([(tk, preloc, nl)] ++ new), SDone. rewrite app_assoc, app_nil_r. split; reflexivity.
                 ++ injection H as <- <-. exists [(tk, preloc, nl)], SDone. rewrite app_nil_r. split; reflexivity.
                 ++ injection H as <- <-. exists [(tk, preloc, nl)], SDone. rewrite app_nil_r. split; reflexivity.
              -- destruct (IH _ _ _ _ _ H 0 0 []) as (new & _ & E & _). subst res.
                 exists ([(tk, preloc, nl)] ++ new), SDone. rewrite app_assoc, app_nil_r. split; reflexivity.
            * destruct (IH _ _ _ _ _ H 0 0 []) as (new & _ & E & _). subst res.
              exists new, SDone. rewrite app_nil_r. split; reflexivity.
          + destruct (is_pe (xk x)).
            * destruct (IH _ _ _ _ _ H 0 0 []) as (new & _ & E & _). subst res.
              exists new, SDone. rewrite app_nil_r. split; reflexivity.
            * injection H as <- <-. exists [], SDone. rewrite !app_nil_r. split; reflexivity.
          + injection H as <- <-. exists [], SDone. rewrite !app_nil_r. split; reflexivity.
        - injection H as <- <-. exists [], SDone. rewrite !app_nil_r. split; reflexivity.
        - injection H as <- <-. exists [], SDone. rewrite !app_nil_r. split; reflexivity. }
    apply Nat.ltb_lt in Hm.
    rewrite drun_lift in H |- *.
    destruct (run rec _) as [[preloc p0|x|]|]; try discriminate; cbn [drun] in H |- *; try (injection H as <- <-; apply Hstop).
    destruct (rec _) as [[nl tk|x|]|]; try discriminate; try (injection H as <- <-; apply Hstop).
    + destruct (Nat.ltb loc nl).
      * destruct overlap.
        -- rewrite drun_lift in H |- *.
           destruct (run rec _) as [[nl2 p2|x|]|]; try discriminate; cbn [drun] in H |- *.
           ++ destruct (IH _ _ _ _ _ H n (S mL) (accL ++ [(tk, preloc, nl)])) as (new & fin' & -> & E).
              exists ((tk, preloc, nl) :: new), fin'. rewrite firstn_step by exact Hm. rewrite E.
              rewrite <- !app_assoc. split; reflexivity.
           ++ injection H as <- <-. exists [(tk, preloc, nl)], (SErr x). rewrite firstn_step by exact Hm.
              rewrite firstn_nil. split; reflexivity.
           ++ injection H as <- <-. exists [(tk, preloc, nl)], SDiv. rewrite firstn_step by exact Hm.
              rewrite firstn_nil. split; reflexivity.
        -- destruct (IH _ _ _ _ _ H n (S mL) (accL ++ [(tk, preloc, nl)])) as (new & fin' & -> & E).
           exists ((tk, preloc, nl) :: new), fin'. rewrite firstn_step by exact Hm. rewrite E.
           rewrite <- !app_assoc. split; reflexivity.
      * eapply IH. exact H.
    + destruct (is_pe (xk x)); [eapply IH; exact H|]. injection H as <- <-. apply Hstop.
Qed.
End MaxMatches.

Theorem scan_max_matches rec root keeptabs input overlap always_skip n res fin :
  drun rec (scan_string root keeptabs input None overlap always_skip) = Some (res, fin) ->
  exists fin', drun rec (scan_string root keeptabs input (Some n) overlap always_skip) = Some (firstn n res, fin').
Proof.
  unfold scan_string. intros H.
  destruct (scan_loop_prefix _ _ _ _ _ _ _ _ _ _ _ H n 0 []) as (new & fin' & E & H2).
  cbn [app] in E. subst new. exists fin'. rewrite H2. rewrite Nat.sub_0_r. reflexivity.
Qed.

(* ------------------------------------------------------------------------------------------- *)
(* (2) parse_string(parse_all=True) against `expr + StringEnd()`                                *)
(* ------------------------------------------------------------------------------------------- *)
(* skipping a smaller whitespace set first changes nothing *)
Lemma skip_white_sub s w1 w2 : (forall c, mem_char c w1 = true -> mem_char c w2 = true) ->
  forall loc, skip_white s (skip_white s loc w1) w2 = skip_white s loc w2.
Proof.
  intros Hsub. unfold skip_white.
  assert (forall f loc, run_while (length s) s (run_while f s loc (length s) (fun c => mem_char c w1)) (length s) (fun c => mem_char c w2)
                        = run_while (length s) s loc (length s) (fun c => mem_char c w2)) as H; [|intros loc; apply H].
  induction f as [|f IH]; intros loc; [reflexivity|]. cbn [run_while].
  destruct (Nat.ltb loc (length s)) eqn:L; [|reflexivity].
  destruct (at_ s loc) as [c|] eqn:E; [|reflexivity].
  destruct (mem_char c w1) eqn:M; [|reflexivity].
  rewrite IH. symmetry. apply Nat.ltb_lt in L.
  assert (forall F, length s - loc <= F ->
            run_while F s loc (length s) (fun c => mem_char c w2) = run_while (length s) s (S loc) (length s) (fun c => mem_char c w2)) as Hu.
  { intros F HF. destruct F as [|F]; [lia|]. cbn [run_while].
    assert (Nat.ltb loc (length s) = true) as -> by (apply Nat.ltb_lt; exact L).
    rewrite E, (Hsub c M). apply run_while_fuel; lia. }
  apply Hu. lia.
Qed.

(* the success part of And.parseImpl after the first element, as the handler `rec` sees it *)
Fixpoint and_ok (rec : args -> option outcome) (s : str) (d : bool) (es : list expr) (loc : nat) (acc : pres) : option (nat * pres) :=
  match es with
  | [] => Some (loc, acc)
  | c :: rest =>
    match c with
    | Tok _ _ KErrorStop => and_ok rec s d rest loc acc
    | _ => match rec (mkargs c s loc d true) with
           | Some (Ok l r) => and_ok rec s d rest l (pr_iadd acc r)
           | _ => None
           end
    end
  end.

Lemma and_ok_app rec s d es1 es2 : forall loc acc,
  and_ok rec s d (es1 ++ es2) loc acc =
  match and_ok rec s d es1 loc acc with Some (l, a) => and_ok rec s d es2 l a | None => None end.
Proof.
  induction es1 as [|c es1 IH]; intros loc acc; [reflexivity|]. cbn [app and_ok].
  assert (match rec (mkargs c s loc d true) with
          | Some (Ok l r) => and_ok rec s d (es1 ++ es2) l (pr_iadd acc r)
          | _ => None
          end =
          match match rec (mkargs c s loc d true) with
                | Some (Ok l r) => and_ok rec s d es1 l (pr_iadd acc r)
                | _ => None
                end with Some (l, a) => and_ok rec s d es2 l a | None => None end) as Hgen.
  { destruct (rec _) as [[l r|x|]|]; try reflexivity. apply IH. }
  destruct c as [a i t| | | | |]; try exact Hgen. destruct t; try exact Hgen. apply IH.
Qed.

Lemma and_ok_mono (rec1 rec2 : args -> option outcome) s d :
  (forall a o, rec1 a = Some o -> rec2 a = Some o) ->
  forall es loc acc x, and_ok rec1 s d es loc acc = Some x -> and_ok rec2 s d es loc acc = Some x.
Proof.
  intros Hm. induction es as [|c es IH]; intros loc acc x H; [exact H|]. cbn [and_ok] in *.
  assert (match rec1 (mkargs c s loc d true) with
          | Some (Ok l r) => and_ok rec1 s d es l (pr_iadd acc r)
          | _ => None
          end = Some x ->
          match rec2 (mkargs c s loc d true) with
          | Some (Ok l r) => and_ok rec2 s d es l (pr_iadd acc r)
          | _ => None
          end = Some x) as Hgen.
  { destruct (rec1 _) as [[l r|e|]|] eqn:E; try discriminate. rewrite (Hm _ _ E). apply IH. }
  destruct c as [a i t| | | | |]; try (apply Hgen; exact H). destruct t; try (apply Hgen; exact H). apply IH. exact H.
Qed.

Section AndSE.
Variable G : env.
Variable dw : list char.
Notation pparse := (parse (step G)).

(* and_go succeeds exactly when and_ok does, and then the element finishes with that result *)
Lemma and_go_ok rec e a s d pl : forall es loc acc estop l rt,
  run rec (and_go (step_k e s d pl) a s d es loc acc estop) = Some (Ok l rt) <->
  exists l' acc', and_ok rec s d es loc acc = Some (l', acc') /\ run rec (finish e d pl l' (RPR acc')) = Some (Ok l rt).
Proof.
  induction es as [|c es IH]; intros loc acc estop l rt.
  - cbn [and_go and_ok step_k]. split.
    + intros H. exists loc, acc. split; [reflexivity|exact H].
    + intros (l' & acc' & [= <- <-] & H). exact H.
  - cbn [and_go and_ok].
    assert (run rec (call c s loc d true (fun o =>
               match o with
               | Ok loc' r => and_go (step_k e s d pl) a s d es loc' (pr_iadd acc r) estop
               | Div => Ret Div
               | Err x =>
                 if estop then
                   match xk x with
                   | XSyntax => fail_of (step_k e s d pl) x
                   | XParse | XFatal => fail_of (step_k e s d pl) (mkx XSyntax (xloc x) (xmsg x) (xel x))
                   | XIndex => fail_of (step_k e s d pl) (mkx XSyntax (Z.of_nat (length s)) (MNode (nid a) 0) (Some (nid a)))
                   | _ => fail_of (step_k e s d pl) x
                   end
                 else fail_of (step_k e s d pl) x
               end)) = Some (Ok l rt) <->
            exists l' acc',
              match rec (mkargs c s loc d true) with
              | Some (Ok l0 r) => and_ok rec s d es l0 (pr_iadd acc r)
              | _ => None
              end = Some (l', acc') /\ run rec (finish e d pl l' (RPR acc')) = Some (Ok l rt)) as Hgen.
    { unfold call. cbn [run]. destruct (rec _) as [[l0 r|x|]|].
      - apply IH.
      - split; [|intros (? & ? & ? & _); discriminate].
        intros H. exfalso.
        assert (forall y, run rec (fail_of (step_k e s d pl) y) <> Some (Ok l rt)) as Hf.
        { intros y. unfold fail_of, step_k. destruct (is_index (xk y)); [|cbn; discriminate].
          destruct (mayidx (attrs_of e) || Nat.leb (length s) pl); cbn; discriminate. }
        destruct estop; [|exact (Hf _ H)]. destruct (xk x); exact (Hf _ H).
      - cbn. split; [discriminate|intros (? & ? & ? & _); discriminate].
      - split; [discriminate|intros (? & ? & ? & _); discriminate]. }
    destruct c as [ac ic t| | | | |]; try exact Hgen. destruct t; try exact Hgen. apply IH.
Qed.

(* where an And without ignore expressions starts its first element *)
Definition and_pl (a : attrs) (s : str) (loc : nat) (pre : bool) : nat :=
  if pre && callpre a then (if skipws a then skip_white s loc (white a) else loc) else loc.

Lemma and_step_ok rec a c rest s loc pre l rt :
  let e := Nary a [] NAnd (c :: rest) in
  run rec (step G (mkargs e s loc true pre)) = Some (Ok l rt) <->
  exists loc1 r1 l' acc',
    rec (mkargs c s (and_pl a s loc pre) true false) = Some (Ok loc1 r1) /\
    and_ok rec s true rest loc1 r1 = Some (l', acc') /\
    run rec (finish e true (and_pl a s loc pre) l' (RPR acc')) = Some (Ok l rt).
Proof.
  intros e. unfold step. change (a_e (mkargs e s loc true pre)) with e. change (a_s (mkargs e s loc true pre)) with s.
  change (a_do (mkargs e s loc true pre)) with true. change (a_pre (mkargs e s loc true pre)) with pre.
  change (a_loc (mkargs e s loc true pre)) with loc.
  assert (forall k, (if pre && callpre (attrs_of e) then pre_parse escape e s loc k else k loc) = k (and_pl a s loc pre)) as Hp.
  { intros k. unfold and_pl. cbn [attrs_of e]. destruct (pre && callpre a); [|reflexivity].
    rewrite pre_parse_plainpre by (split; [reflexivity|exact I]). reflexivity. }
  rewrite Hp. set (pl := and_pl a s loc pre). unfold e at 1. cbn [impl]. unfold call. cbn [run].
  destruct (rec (mkargs c s pl true false)) as [[loc1 r1|x|]|].
  - rewrite and_go_ok. split.
    + intros (l' & acc' & H1 & H2). exists loc1, r1, l', acc'. repeat split; assumption.
    + intros (? & ? & l' & acc' & [= <- <-] & H1 & H2). exists l', acc'. split; assumption.
  - split; [|intros (? & ? & ? & ? & ? & _); discriminate]. unfold failo_of, fail_of, step_k.
    destruct (is_index (xk x)); [|cbn; discriminate].
    destruct (mayidx (attrs_of e) || Nat.leb (length s) pl); cbn; discriminate.
  - cbn. split; [discriminate|intros (? & ? & ? & ? & ? & _); discriminate].
  - split; [discriminate|intros (? & ? & ? & ? & ? & _); discriminate].
Qed.

Lemma finish_and_plain a i es d pl l acc : acts a = [] -> rsname a = None ->
  finish (Nary a i NAnd es) d pl l (RPR acc) = Ret (Ok l (PR (toks acc) (dict acc) (allnames acc) (rname acc) (modalr a))).
Proof. intros Ha Hn. unfold finish. cbn [attrs_of post_parse]. rewrite Ha, Hn. reflexivity. Qed.

(* ---- the StringEnd checks ---- *)
(* "after skipping the default whitespace from l the text is over" *)
Definition at_end (s : str) (l : nat) : bool := negb (Nat.ltb (skip_white s l dw) (length s)).

Lemma stringend_step rec a s loc : acts a = [] -> rsname a = None -> callpre a = true -> skipws a = true -> white a = dw ->
  run rec (step G (mkargs (Tok a [] KStringEnd) s loc true true)) =
  Some (if at_end s loc
        then Ok (if Nat.eqb (skip_white s loc dw) (length s) then S (skip_white s loc dw) else skip_white s loc dw)
                (PR [] [] [] None (modalr a))
        else Err (mkx XParse (Z.of_nat (skip_white s loc dw)) (MNode (nid a) 0) (Some (nid a)))).
Proof.
  intros Ha Hn Hc Hs Hw. unfold step, mkargs. cbn [a_e a_s a_do a_pre a_loc attrs_of]. rewrite Hc. cbn [andb].
  rewrite pre_parse_plainpre by (split; [reflexivity|exact I]). cbn [attrs_of]. rewrite Hs, Hw.
  unfold at_end. cbn [impl tok_impl attrs_of]. set (l1 := skip_white s loc dw).
  destruct (Nat.ltb l1 (length s)); cbn [negb]; [reflexivity|].
  destruct (Nat.eqb l1 (length s)); unfold step_k, finish; cbn [attrs_of post_parse]; rewrite Ha, Hn; reflexivity.
Qed.

Lemma parse_S f a : pparse (S f) a = run (pparse f) (step G a).
Proof. reflexivity. Qed.

Lemma se_tok_parse f idE s loc :
  pparse (S f) (mkargs (se_tok idE dw) s loc true true) =
  Some (if at_end s loc
        then Ok (if Nat.eqb (skip_white s loc dw) (length s) then S (skip_white s loc dw) else skip_white s loc dw) pr_empty
        else Err (mkx XParse (Z.of_nat (skip_white s loc dw)) (MNode idE 0) (Some idE))).
Proof. cbn [parse]. unfold se_tok. rewrite stringend_step by reflexivity. reflexivity. Qed.

Lemma at_end_idem s loc : at_end s (skip_white s loc dw) = at_end s loc.
Proof. unfold at_end. rewrite skip_white_idem. reflexivity. Qed.

(* the `Empty() + StringEnd()` of parse_string: succeeds exactly at the end of the text (after default whitespace), and
   otherwise raises; two levels of fuel are all it needs *)
Lemma empty_step rec a s l : acts a = [] -> rsname a = None ->
  run rec (step G (mkargs (Tok a [] KEmpty) s l true false)) = Some (Ok l (PR [] [] [] None (modalr a))).
Proof.
  intros Ha Hn. unfold step, mkargs. cbn [a_e a_s a_do a_pre a_loc attrs_of andb impl tok_impl].
  unfold step_k, finish. cbn [attrs_of post_parse]. rewrite Ha, Hn. reflexivity.
Qed.

Lemma se_expr_step rec s loc :
  (forall a l, acts a = [] -> rsname a = None -> rec (mkargs (Tok a [] KEmpty) s l true false) = Some (Ok l (PR [] [] [] None (modalr a)))) ->
  (forall a l, acts a = [] -> rsname a = None -> callpre a = true -> skipws a = true -> white a = dw ->
     rec (mkargs (Tok a [] KStringEnd) s l true true) = run rec (step G (mkargs (Tok a [] KStringEnd) s l true true))) ->
  match run rec (step G (mkargs (se_expr dw) s loc true true)) with
  | Some (Ok _ _) => at_end s loc = true
  | Some (Err _) => at_end s loc = false
  | _ => False
  end.
Proof.
  intros HE HS. unfold se_expr, step, mkargs. cbn [a_e a_s a_do a_pre a_loc attrs_of callpre andb].
  rewrite pre_parse_plainpre by (split; [reflexivity|exact I]).
  cbn [impl attrs_of skipws white]. unfold call. cbn [run].
  set (l2 := skip_white s loc dw). rewrite HE by reflexivity.
  cbn [and_go]. unfold call. cbn [run].
  rewrite HS by reflexivity. rewrite stringend_step by reflexivity. unfold l2. rewrite at_end_idem.
  destruct (at_end s loc); cbn; reflexivity.
Qed.

Lemma se_expr_parse f s loc :
  match pparse (S (S f)) (mkargs (se_expr dw) s loc true true) with
  | Some (Ok _ _) => at_end s loc = true
  | Some (Err _) => at_end s loc = false
  | _ => False
  end.
Proof.
  change (pparse (S (S f)) (mkargs (se_expr dw) s loc true true))
    with (run (pparse (S f)) (step G (mkargs (se_expr dw) s loc true true))).
  apply se_expr_step.
  - intros a l Ha Hn. change (pparse (S f) (mkargs (Tok a [] KEmpty) s l true false))
      with (run (pparse f) (step G (mkargs (Tok a [] KEmpty) s l true false))). apply empty_step; assumption.
  - intros a l Ha Hn Hc Hs Hw.
    change (pparse (S f) (mkargs (Tok a [] KStringEnd) s l true true))
      with (run (pparse f) (step G (mkargs (Tok a [] KStringEnd) s l true true))).
    rewrite !stringend_step by assumption. reflexivity.
Qed.

(* ---- the hypotheses under which the two agree ---- *)
(* the pre-parse of a root without ignore expressions *)
Definition rpre (root : expr) (s : str) (loc : nat) : nat :=
  if skipws (attrs_of root) then skip_white s loc (white (attrs_of root)) else loc.

(* (a) starting root where the And starts it (after the whitespace skip the And inherited, without root's own pre-parse)
   gives what parse_string's own first call gives *)
Definition first_stable_at (root : expr) (s : str) (loc0 : nat) : Prop :=
  forall f, pparse f (mkargs root s loc0 true false) = pparse f (mkargs root s 0 true true).
Definition first_stable (root : expr) (s : str) : Prop := first_stable_at root s (and_start dw root s).

(* (b) root's own pre-parse before the end-of-text check of parse_all sees the end exactly when StringEnd's default
   whitespace skip does *)
Definition tail_stable (root : expr) (s : str) : Prop :=
  forall loc, at_end s (rpre root s loc) = at_end s loc.

(* sufficient for (a): root pre-parses itself, has no ignore expressions and is not a White *)
Lemma first_stable_plain root s :
  plainpre root -> callpre (attrs_of root) = true -> is_white root = false -> first_stable root s.
Proof.
  unfold first_stable, first_stable_at. intros Hp Hc Hw [|f]; [reflexivity|]. cbn [parse]. unfold step, mkargs. cbn [a_e a_s a_do a_pre a_loc].
  rewrite Hc. cbn [andb]. rewrite pre_parse_plainpre by exact Hp. unfold and_start. rewrite Hw. reflexivity.
Qed.

(* also sufficient for (a): root does not skip whitespace, and either has no pre-parse of its own or a plain one *)
Lemma first_stable_noskip root s :
  skipws (attrs_of root) = false -> is_white root = false -> (callpre (attrs_of root) = false \/ plainpre root) ->
  first_stable root s.
Proof.
  unfold first_stable, first_stable_at. intros Hs Hw Hc [|f]; [reflexivity|]. cbn [parse]. unfold step, mkargs. cbn [a_e a_s a_do a_pre a_loc].
  unfold and_start. rewrite Hw, Hs. cbn [andb].
  destruct (callpre (attrs_of root)) eqn:C; [|reflexivity].
  destruct Hc as [Hc|Hp]; [discriminate|]. rewrite pre_parse_plainpre by exact Hp. rewrite Hs. reflexivity.
Qed.

(* sufficient for (b): root's whitespace characters are among the default ones (or root skips none) *)
Lemma tail_stable_sub root s :
  (skipws (attrs_of root) = false \/ forall c, mem_char c (white (attrs_of root)) = true -> mem_char c dw = true) ->
  tail_stable root s.
Proof.
  intros H loc. unfold rpre, at_end. destruct (skipws (attrs_of root)); [|reflexivity].
  destruct H as [H|H]; [discriminate|]. rewrite (skip_white_sub s _ _ H). reflexivity.
Qed.

Lemma and_se_gen_unflat idA idE sl isk iwh root : flattenable root = false ->
  and_se_gen idA idE sl dw isk iwh root = Nary (and_attrs_gen idA sl isk iwh) [] NAnd [root; se_tok idE dw].
Proof.
  intros H. destruct root as [| a i k es | | | |]; try reflexivity. destruct k; try reflexivity.
  unfold and_se_gen. rewrite H. reflexivity.
Qed.

Lemma and_pl_start_gen idA sl isk iwh s : and_pl (and_attrs_gen idA sl isk iwh) s 0 true = and_start_gen isk iwh s.
Proof. reflexivity. Qed.

(* `and_se` is the general construction with the pair root has after streamline *)
Lemma and_se_is_gen idA idE sl root : and_se idA idE sl dw root = and_se_gen idA idE sl dw (isk_of root) (iwh_of dw root) root.
Proof. reflexivity. Qed.
Lemma and_start_is_gen root s : and_start dw root s = and_start_gen (isk_of root) (iwh_of dw root) s.
Proof. unfold and_start, and_start_gen, isk_of, iwh_of. destruct (is_white root); reflexivity. Qed.

Lemma pr_iadd_empty r : pr_iadd r pr_empty = r.
Proof. reflexivity. Qed.

(* what parse_string(parse_all=True) answers, for the plain parser with at least two levels of fuel: the result of the
   first call, if the text ends after it *)
Lemma parse_all_run root (keeptabs : bool) input f r :
  plainpre root ->
  let s := if keeptabs then input else expandtabs input in
  drun (pparse (S (S f))) (parse_string dw root keeptabs input true) = Some (POk r) <->
  exists loc, pparse (S (S f)) (mkargs root s 0 true true) = Some (Ok loc r) /\ at_end s (rpre root s loc) = true.
Proof.
  intros Hp s. unfold parse_string. fold s. cbn [drun].
  destruct (pparse (S (S f)) (mkargs root s 0 true true)) as [[loc r0|x|]|].
  - rewrite drun_lift, pre_parse_plainpre by exact Hp. cbn [run drun]. fold (rpre root s loc).
    pose proof (se_expr_parse f s (rpre root s loc)) as Hse.
    destruct (pparse (S (S f)) (mkargs (se_expr dw) s (rpre root s loc) true true)) as [[l2 r2|x|]|]; try contradiction; cbn [drun].
    + split; [intros [= <-]; exists loc; split; [reflexivity|exact Hse]|intros (? & [= <- <-] & _); reflexivity].
    + split; [discriminate|]. intros (? & [= <- <-] & E). rewrite E in Hse. discriminate.
  - cbn [drun]. split; [discriminate|intros (? & ? & _); discriminate].
  - cbn [drun]. split; [discriminate|intros (? & ? & _); discriminate].
  - split; [discriminate|intros (? & ? & _); discriminate].
Qed.

(* The equivalence, for a root that streamline() leaves as one element of the And (flattenable root = false), at matching
   fuel: the And needs one level more than the driver, because root sits one level deeper in it. *)
Theorem parse_all_iff_and_se_gen idA idE sl isk iwh root (keeptabs : bool) input f :
  let s := if keeptabs then input else expandtabs input in
  flattenable root = false -> plainpre root -> first_stable_at root s (and_start_gen isk iwh s) -> tail_stable root s ->
  (forall r, drun (pparse (S (S f))) (parse_string dw root keeptabs input true) = Some (POk r) ->
     exists l, pparse (S (S (S f))) (mkargs (and_se_gen idA idE sl dw isk iwh root) s 0 true true) = Some (Ok l (and_wrap r))) /\
  (forall l r', pparse (S (S (S f))) (mkargs (and_se_gen idA idE sl dw isk iwh root) s 0 true true) = Some (Ok l r') ->
     exists r, drun (pparse (S (S f))) (parse_string dw root keeptabs input true) = Some (POk r) /\ r' = and_wrap r).
Proof.
  intros s Hfl Hp H1 H2. rewrite and_se_gen_unflat by exact Hfl. split.
  - intros r H. apply parse_all_run in H; [|exact Hp]. fold s in H. destruct H as (loc & Hr & He).
    rewrite H2 in He. rewrite parse_S.
    pose proof (se_tok_parse (S f) idE s loc) as Hse. rewrite He in Hse.
    eexists. apply and_step_ok. rewrite and_pl_start_gen.
    eexists. eexists. eexists. eexists. split; [|split].
    + rewrite H1. exact Hr.
    + cbn [and_ok se_tok]. fold (se_tok idE dw). rewrite Hse. rewrite pr_iadd_empty. reflexivity.
    + rewrite finish_and_plain by reflexivity. reflexivity.
  - intros l r' H. rewrite parse_S in H. apply and_step_ok in H. rewrite and_pl_start_gen in H.
    destruct H as (loc1 & r1 & l' & acc' & Hr & Ho & Hf).
    rewrite finish_and_plain in Hf by reflexivity. cbn [run and_attrs_gen modalr] in Hf.
    cbn [and_ok se_tok] in Ho. fold (se_tok idE dw) in Ho. rewrite (se_tok_parse (S f) idE s loc1) in Ho.
    destruct (at_end s loc1) eqn:He; [|discriminate]. rewrite pr_iadd_empty in Ho. injection Ho as <- <-.
    injection Hf as <- <-. exists r1. split; [|reflexivity].
    apply parse_all_run; [exact Hp|]. fold s. exists loc1. split; [rewrite <- H1; exact Hr|]. rewrite H2. exact He.
Qed.

Theorem parse_all_iff_and_se idA idE sl root (keeptabs : bool) input f :
  let s := if keeptabs then input else expandtabs input in
  flattenable root = false -> plainpre root -> first_stable root s -> tail_stable root s ->
  (forall r, drun (pparse (S (S f))) (parse_string dw root keeptabs input true) = Some (POk r) ->
     exists l, pparse (S (S (S f))) (mkargs (and_se idA idE sl dw root) s 0 true true) = Some (Ok l (and_wrap r))) /\
  (forall l r', pparse (S (S (S f))) (mkargs (and_se idA idE sl dw root) s 0 true true) = Some (Ok l r') ->
     exists r, drun (pparse (S (S f))) (parse_string dw root keeptabs input true) = Some (POk r) /\ r' = and_wrap r).
Proof.
  intros s Hfl Hp H1 H2. rewrite and_se_is_gen. apply parse_all_iff_and_se_gen; try assumption.
  unfold first_stable in H1. rewrite and_start_is_gen in H1. exact H1.
Qed.

(* the result of and_ok on a one-element tail that is the StringEnd token *)
Lemma and_ok_se f idE s l acc :
  and_ok (pparse (S f)) s true [se_tok idE dw] l acc =
  if at_end s l
  then Some (if Nat.eqb (skip_white s l dw) (length s) then S (skip_white s l dw) else skip_white s l dw, acc)
  else None.
Proof.
  cbn [and_ok se_tok]. fold (se_tok idE dw). rewrite se_tok_parse. destruct (at_end s l); reflexivity.
Qed.

(* The equivalence for a root that IS an unnamed, action-free And: streamline() splices its elements into the new And, so the
   elements sit at the same depth on both sides while root's own frame costs parse_string one more level; each direction
   therefore moves up one level of fuel (fuel monotonicity of the plain parser). *)
Theorem parse_all_iff_and_se_flat_gen idA idE sl isk iwh ar c rest (keeptabs : bool) input f :
  let root := Nary ar [] NAnd (c :: rest) in
  let s := if keeptabs then input else expandtabs input in
  rsname ar = None -> acts ar = [] -> and_pl ar s 0 true = and_start_gen isk iwh s -> tail_stable root s ->
  (forall r, drun (pparse (S (S f))) (parse_string dw root keeptabs input true) = Some (POk r) ->
     exists l, pparse (S (S (S f))) (mkargs (and_se_gen idA idE sl dw isk iwh root) s 0 true true) = Some (Ok l (and_wrap r))) /\
  (forall l r', pparse (S (S (S f))) (mkargs (and_se_gen idA idE sl dw isk iwh root) s 0 true true) = Some (Ok l r') ->
     exists r, drun (pparse (S (S (S f)))) (parse_string dw root keeptabs input true) = Some (POk r) /\ r' = and_wrap r).
Proof.
  intros root s Hn Ha Hst H2.
  assert (plainpre root) as Hp by (split; [reflexivity|exact I]).
  assert (and_se_gen idA idE sl dw isk iwh root = Nary (and_attrs_gen idA sl isk iwh) [] NAnd (c :: rest ++ [se_tok idE dw])) as ->.
  { unfold and_se_gen, root. cbn [flattenable]. rewrite Hn, Ha. reflexivity. }
  split.
  - intros r H. apply parse_all_run in H; [|exact Hp]. fold s in H. destruct H as (loc & Hr & He).
    rewrite H2 in He. rewrite parse_S in Hr. apply and_step_ok in Hr.
    destruct Hr as (loc1 & r1 & l' & acc' & Hr & Ho & Hf).
    rewrite finish_and_plain in Hf by assumption. cbn [run] in Hf. injection Hf as <- <-.
    rewrite parse_S. eexists. apply and_step_ok. rewrite and_pl_start_gen, <- Hst.
    eexists. eexists. eexists. eexists. split; [|split].
    + eapply (parse_mono args outcome (step G)); [exact Hr|lia].
    + rewrite and_ok_app.
      rewrite (and_ok_mono (pparse (S f)) (pparse (S (S f))) s true
                 (fun a o Hx => parse_mono args outcome (step G) (S f) a o Hx (S (S f)) (Nat.le_succ_diag_r _)) _ _ _ _ Ho).
      rewrite and_ok_se, He. reflexivity.
    + rewrite finish_and_plain by reflexivity. reflexivity.
  - intros l r' H. rewrite parse_S in H. apply and_step_ok in H. rewrite and_pl_start_gen, <- Hst in H.
    destruct H as (loc1 & r1 & l' & acc' & Hr & Ho & Hf).
    rewrite finish_and_plain in Hf by reflexivity. cbn [run and_attrs_gen modalr] in Hf. injection Hf as <- <-.
    rewrite and_ok_app in Ho.
    destruct (and_ok (pparse (S (S f))) s true rest loc1 r1) as [[l0 acc0]|] eqn:Ho1; [|discriminate].
    rewrite and_ok_se in Ho. destruct (at_end s l0) eqn:He; [|discriminate]. injection Ho as _ <-.
    exists (PR (toks acc0) (dict acc0) (allnames acc0) (rname acc0) (modalr ar)). split; [|reflexivity].
    apply parse_all_run; [exact Hp|]. fold s. exists l0. split.
    + rewrite parse_S. apply and_step_ok. exists loc1, r1, l0, acc0. split; [exact Hr|]. split; [exact Ho1|].
      rewrite finish_and_plain by assumption. reflexivity.
    + rewrite H2. exact He.
Qed.

Theorem parse_all_iff_and_se_flat idA idE sl ar c rest (keeptabs : bool) input f :
  let root := Nary ar [] NAnd (c :: rest) in
  let s := if keeptabs then input else expandtabs input in
  rsname ar = None -> acts ar = [] -> callpre ar = true -> tail_stable root s ->
  (forall r, drun (pparse (S (S f))) (parse_string dw root keeptabs input true) = Some (POk r) ->
     exists l, pparse (S (S (S f))) (mkargs (and_se idA idE sl dw root) s 0 true true) = Some (Ok l (and_wrap r))) /\
  (forall l r', pparse (S (S (S f))) (mkargs (and_se idA idE sl dw root) s 0 true true) = Some (Ok l r') ->
     exists r, drun (pparse (S (S (S f)))) (parse_string dw root keeptabs input true) = Some (POk r) /\ r' = and_wrap r).
Proof.
  intros root s Hn Ha Hc H2. rewrite and_se_is_gen. apply parse_all_iff_and_se_flat_gen; try assumption.
  unfold and_pl, and_start_gen, isk_of, iwh_of, root. cbn [is_white attrs_of andb]. rewrite Hc. reflexivity.
Qed.
End AndSE.

(* the same under syntactic hypotheses *)
Theorem parse_all_iff_and_se_plain G dw idA idE sl root (keeptabs : bool) input f :
  let s := if keeptabs then input else expandtabs input in
  flattenable root = false -> plainpre root -> callpre (attrs_of root) = true -> is_white root = false ->
  (forall c, mem_char c (white (attrs_of root)) = true -> mem_char c dw = true) ->
  (forall r, drun (parse (step G) (S (S f))) (parse_string dw root keeptabs input true) = Some (POk r) ->
     exists l, parse (step G) (S (S (S f))) (mkargs (and_se idA idE sl dw root) s 0 true true) = Some (Ok l (and_wrap r))) /\
  (forall l r', parse (step G) (S (S (S f))) (mkargs (and_se idA idE sl dw root) s 0 true true) = Some (Ok l r') ->
     exists r, drun (parse (step G) (S (S f))) (parse_string dw root keeptabs input true) = Some (POk r) /\ r' = and_wrap r).
Proof.
  intros s Hfl Hp Hc Hw Hsub. apply parse_all_iff_and_se; try assumption.
  - apply first_stable_plain; assumption.
  - apply tail_stable_sub. right. exact Hsub.
Qed.

(* ------------------------------------------------------------------------------------------- *)
(* closed instances: the hypotheses are needed (witnesses), and they can be met (examples)      *)
(* ------------------------------------------------------------------------------------------- *)
Notation P0 := (parse (step [])).

(* a hypothesis-free consequence of the theorem used below: when every hypothesis but first_stable holds, a success of
   parse_all together with a failure of the And refutes first_stable *)
Lemma not_first_stable dw root input idA idE sl f r x :
  flattenable root = false -> plainpre root -> tail_stable dw root input ->
  drun (P0 (S (S f))) (parse_string dw root true input true) = Some (POk r) ->
  P0 (S (S (S f))) (mkargs (and_se idA idE sl dw root) input 0 true true) = Some (Err x) ->
  ~ first_stable [] dw root input.
Proof.
  intros Hfl Hp Ht H1 H2 Hs.
  destruct (parse_all_iff_and_se [] dw idA idE sl root true input f Hfl Hp Hs Ht) as [Hto _].
  destruct (Hto r H1) as (l & E). rewrite E in H2. discriminate.
Qed.

Lemma plainpre_tok a t : match t with KLineStart _ _ | KGoToCol _ => False | _ => True end -> plainpre (Tok a [] t).
Proof. intros H. split; [reflexivity|exact H]. Qed.

(* F-08a: ignore expressions.  parse_all pre-parses with root's ignorables before the end check, the And has none *)
Lemma f08a_witness : exists r x,
  flattenable f08a_root = false /\ ign_of f08a_root <> [] /\
  drun (P0 12) (parse_string DWS f08a_root true f08a_input true) = Some (POk r) /\
  P0 13 (mkargs (and_se 100 101 25 DWS f08a_root) f08a_input 0 true true) = Some (Err x) /\ is_pe (xk x) = true.
Proof.
  eexists. eexists. split; [reflexivity|]. split; [discriminate|].
  split; [vm_compute; reflexivity|]. split; vm_compute; reflexivity.
Qed.

(* F-08d: the root does not pre-parse itself (an Or), the And skips the blank that the first alternative's White needs *)
Lemma f08d_witness : exists r x,
  flattenable f08d_root = false /\ plainpre f08d_root /\ tail_stable DWS f08d_root f08d_input /\
  ~ first_stable [] DWS f08d_root f08d_input /\
  drun (P0 12) (parse_string DWS f08d_root true f08d_input true) = Some (POk r) /\
  P0 13 (mkargs (and_se 100 101 52 DWS f08d_root) f08d_input 0 true true) = Some (Err x) /\ is_pe (xk x) = true.
Proof.
  assert (plainpre f08d_root) as Hp by (split; [reflexivity|exact I]).
  assert (tail_stable DWS f08d_root f08d_input) as Ht by (apply tail_stable_sub; right; intros c H; exact H).
  eexists. eexists. split; [reflexivity|]. split; [exact Hp|]. split; [exact Ht|].
  assert (forall A B C : Prop, (B -> C -> A) -> B -> C -> A /\ B /\ C) as Hand by tauto.
  apply Hand.
  - intros H1 [H2 _]. eapply (not_first_stable DWS f08d_root f08d_input 100 101 52 10); try eassumption. reflexivity.
  - vm_compute. reflexivity.
  - split; vm_compute; reflexivity.
Qed.

(* a root that is a White: parse_string's own call skips the other whitespace, the And (skipWhitespace = False) does not *)
Lemma white_root_witness : exists r x,
  flattenable ex_white_root = false /\ plainpre ex_white_root /\ is_white ex_white_root = true /\
  drun (P0 12) (parse_string DWS ex_white_root true ex_white_input true) = Some (POk r) /\
  P0 13 (mkargs (and_se 100 101 20 DWS ex_white_root) ex_white_input 0 true true) = Some (Err x) /\ is_pe (xk x) = true.
Proof.
  eexists. eexists. split; [reflexivity|]. split; [apply plainpre_tok; exact I|]. split; [reflexivity|].
  split; [vm_compute; reflexivity|]. split; vm_compute; reflexivity.
Qed.

(* a root with its own whitespace set: every hypothesis but tail_stable holds *)
Lemma custom_white_witness : exists r x,
  flattenable ex_word_ws = false /\ plainpre ex_word_ws /\ first_stable [] DWS ex_word_ws ex_word_ws_input /\
  drun (P0 12) (parse_string DWS ex_word_ws true ex_word_ws_input true) = Some (POk r) /\
  P0 13 (mkargs (and_se 100 101 20 DWS ex_word_ws) ex_word_ws_input 0 true true) = Some (Err x) /\ is_pe (xk x) = true.
Proof.
  eexists. eexists. split; [reflexivity|]. split; [apply plainpre_tok; exact I|].
  split; [apply first_stable_plain; [apply plainpre_tok; exact I|reflexivity|reflexivity]|].
  split; [vm_compute; reflexivity|]. split; vm_compute; reflexivity.
Qed.

(* ---- examples ---- *)
Definition ex_in1 : str := [32; 97; 98; 32]%N.                 (* " ab " *)
Definition ex_in2 : str := [97; 98; 32; 44; 32]%N.             (* "ab , " *)
Definition ex_in3 : str := [97; 32; 49; 32; 98]%N.             (* "a 1 b" *)

Lemma ex_parse_all_tokens : exists r,
  drun (P0 4) (parse_string DWS ex_and true ex_in2 true) = Some (POk r) /\
  drun (P0 4) (parse_string DWS ex_and true ex_in2 false) = Some (POk r) /\ length (toks r) = 2.
Proof.
  eexists. assert (forall A B C : Prop, A -> (A -> B) -> C -> A /\ B /\ C) as Hand by tauto. apply Hand.
  - vm_compute. reflexivity.
  - apply parse_all_tokens.
  - reflexivity.
Qed.

Lemma ex_parse_all_plain_failure : exists x,
  drun (P0 4) (parse_string DWS ex_and true ex_in1 false) = Some (PErr x) /\
  drun (P0 4) (parse_string DWS ex_and true ex_in1 true) = Some (PErr x).
Proof.
  eexists. assert (forall A B : Prop, A -> (A -> B) -> A /\ B) as Hand by tauto. apply Hand.
  - vm_compute. reflexivity.
  - intros H. apply parse_all_plain_failure; [exact H|discriminate].
Qed.

Lemma ex_word_hyps s : flattenable (ex_word 1) = false /\ plainpre (ex_word 1) /\
  first_stable [] DWS (ex_word 1) s /\ tail_stable DWS (ex_word 1) s.
Proof.
  split; [reflexivity|]. split; [apply plainpre_tok; exact I|].
  split; [apply first_stable_plain; [apply plainpre_tok; exact I|reflexivity|reflexivity]|].
  apply tail_stable_sub. right. intros c H. exact H.
Qed.

Lemma ex_parse_all_iff : exists r l,
  drun (P0 3) (parse_string DWS (ex_word 1) true ex_in1 true) = Some (POk r) /\
  P0 4 (mkargs (and_se 100 101 20 DWS (ex_word 1)) ex_in1 0 true true) = Some (Ok l (and_wrap r)) /\ toks r = [TStr [97; 98]%N].
Proof.
  destruct (ex_word_hyps ex_in1) as (H1 & H2 & H3 & H4).
  destruct (parse_all_iff_and_se [] DWS 100 101 20 (ex_word 1) true ex_in1 1 H1 H2 H3 H4) as [Hto _].
  eexists. assert (forall (A C : Prop) (B : nat -> Prop), A -> (A -> exists l, B l) -> C -> exists l, A /\ B l /\ C) as Hand.
  { intros A C B a f c. destruct (f a) as [l b]. exists l. tauto. }
  apply Hand.
  - vm_compute. reflexivity.
  - apply Hto.
  - reflexivity.
Qed.

Lemma ex_parse_all_iff_flat : exists r l,
  drun (P0 3) (parse_string DWS ex_and true ex_in2 true) = Some (POk r) /\
  P0 4 (mkargs (and_se 100 101 24 DWS ex_and) ex_in2 0 true true) = Some (Ok l (and_wrap r)) /\
  and_se 100 101 24 DWS ex_and = Nary (and_attrs 100 24 DWS ex_and) [] NAnd [ex_word 2; ex_lit 3 44%N; se_tok 101 DWS].
Proof.
  assert (tail_stable DWS ex_and ex_in2) as Ht by (apply tail_stable_sub; right; intros c H; exact H).
  destruct (parse_all_iff_and_se_flat [] DWS 100 101 24 (A_ 1 true true DWS true true false true 12) (ex_word 2) [ex_lit 3 44%N]
              true ex_in2 1 eq_refl eq_refl eq_refl Ht) as [Hto _].
  eexists. assert (forall (A C : Prop) (B : nat -> Prop), A -> (A -> exists l, B l) -> C -> exists l, A /\ B l /\ C) as Hand.
  { intros A C B a f c. destruct (f a) as [l b]. exists l. tauto. }
  apply Hand.
  - vm_compute. reflexivity.
  - apply Hto.
  - reflexivity.
Qed.

(* scan of Word("ab") over "a 1 b": the position after "a" is passed without a report because "1" does not match *)
Lemma ex_scan_complete : exists res,
  drun (P0 3) (scan_string (ex_word 1) true ex_in3 None false true) = Some (res, SDone) /\
  map (fun m => (snd (fst m), snd m)) res = [(0, 1); (4, 5)] /\
  lsearch (P0 3) (ex_word 1) ex_in3 true 0 res SDone.
Proof.
  eexists. assert (forall A B C : Prop, A -> C -> (A -> B) -> A /\ C /\ B) as Hand by tauto. apply Hand.
  - vm_compute. reflexivity.
  - reflexivity.
  - intros H. assert (plainpre (ex_word 1)) as Hp by (apply plainpre_tok; exact I).
    exact (scan_complete (P0 3) (ex_word 1) true ex_in3 true _ _ Hp H).
Qed.

Lemma ex_scan_max_matches : exists res fin',
  drun (P0 3) (scan_string (ex_word 1) true ex_in3 None false true) = Some (res, SDone) /\ length res = 2 /\
  drun (P0 3) (scan_string (ex_word 1) true ex_in3 (Some 1) false true) = Some (firstn 1 res, fin').
Proof.
  eexists. assert (forall (A C : Prop) (B : scan_end -> Prop), A -> C -> (A -> exists l, B l) -> exists l, A /\ C /\ B l) as Hand.
  { intros A C B a c f. destruct (f a) as [l b]. exists l. tauto. }
  apply Hand.
  - vm_compute. reflexivity.
  - reflexivity.
  - apply scan_max_matches.
Qed.
