(* C20, positive theorems on the class Model/DiagramClass.v `dag_class`: termination with a linear fuel bound, links
   resolve, no placeholder, tokens shown, root first -- proved as invariants of the converter state over the traversal. *)
From Coq Require Import List NArith Arith Bool Lia Permutation.
From PP Require Import Model.Str Model.Diagram Model.DiagramEx Model.DiagramClass Proofs.DiagramProofs.
Import ListNotations.
Local Open Scope nat_scope.

(* ------------------------------------------------------------------------------------------------ the class, as Props *)
Lemma ranks_bound : forall G, dag_b G = true -> forall x, rkf G x <= length G.
Proof.
  intros G H x. unfold dag_b in H. apply andb_true_iff in H as [H _]. unfold rkf, lookup0.
  destruct (assoc x (ranks G)) as [n|] eqn:E; [|lia].
  apply assoc_in in E. rewrite forallb_forall in H. specialize (H _ E). simpl in H. apply Nat.leb_le; auto.
Qed.

Lemma ranks_edge : forall G, dag_b G = true -> forall x y, In y (kids G x) -> rkf G y < rkf G x.
Proof.
  intros G H x y Hin. unfold dag_b in H. apply andb_true_iff in H as [_ H].
  unfold kids, gnode in Hin. destruct (assoc x G) as [n|] eqn:E; [|simpl in Hin; contradiction].
  apply assoc_in in E. rewrite forallb_forall in H. specialize (H _ E). simpl in H.
  rewrite forallb_forall in H. specialize (H _ Hin). apply Nat.ltb_lt; auto.
Qed.

Lemma node_ok_all : forall G o, forallb (fun xn => node_ok G o (fst xn)) G = true -> forall x, node_ok G o x = true.
Proof.
  intros G o H x. destruct (assoc x G) as [n|] eqn:E.
  - apply assoc_in in E. rewrite forallb_forall in H. apply (H _ E).
  - unfold node_ok, single_slot, choose, bypass, has_kids, kids, cname, gnode. rewrite E. reflexivity.
Qed.

Lemma named_in_list : forall G x, named_b G x = true -> In (x, cname G x) (named_list G).
Proof.
  intros G x. unfold named_b, cname, gnode. destruct (assoc x G) as [n|] eqn:E; [|discriminate]. intros T.
  apply assoc_in in E. unfold named_list. apply in_flat_map. exists (x, n). split; auto. simpl. rewrite T. left; auto.
Qed.

Lemma names_inj : forall G, names_inj_b G = true ->
  forall x y, named_b G x = true -> named_b G y = true -> cname G x = cname G y -> x = y.
Proof.
  intros G H x y Nx Ny E. apply named_in_list in Nx, Ny.
  unfold names_inj_b in H. cbv zeta in H. rewrite forallb_forall in H. specialize (H _ Nx). rewrite forallb_forall in H.
  specialize (H _ Ny). simpl in H. rewrite E, seqb_refl in H. simpl in H. apply Nat.eqb_eq; auto.
Qed.

(* ------------------------------------------------------------------------------------------------ termination *)
Section DagTermination.
  Variable G : graph.
  Variable o : opts.
  Variable fx : bool.
  Variable rk : id -> nat.
  Hypothesis rk_edge : forall x y, In y (kids G x) -> rk y < rk x.

  Lemma kids_loop_ok_simple : forall rec es r i st,
    (forall e p j s, In e es -> exists r' s', rec e p j s = (Ok r', s')) ->
    exists st', kids_loop rec r es i st = (Ok tt, st').
  Proof.
    induction es as [|e es IH]; simpl; intros r i st Hrec; eauto.
    destruct (Hrec e (Some r) i (with_items st r (insert_at i None)) (or_introl eq_refl)) as (r' & s' & E). rewrite E.
    destruct (place s' r i r') as [i' st3]. apply IH. intros; apply Hrec; auto.
  Qed.

  Lemma conv_dag_terminates : forall f x d p i h st, rk x < f -> exists r st', conv G o fx f d x p i h st = (Ok r, st').
  Proof.
    induction f as [|f IH]; intros x d p i h st Hc; [lia|].
    rewrite conv_S. destruct (bypass G x) eqn:B.
    - assert (Hin : In (hd 0 (kids G x)) (kids G x)).
      { unfold bypass in B. apply andb_true_iff in B as [_ B]. destruct (n_kind (gnode G x)); try discriminate.
        unfold has_kids in B. destruct (kids G x); [discriminate|left; reflexivity]. }
      apply rk_edge in Hin.
      destruct (IH (hd 0 (kids G x)) (S d) p i
                   (if truthy (n_custom (gnode G (hd 0 (kids G x)))) then None else Some (name_of G x h))
                   (note_depth d st)) as (r & st' & E); [lia|].
      rewrite E. destruct (wrap_rn G o x r st') as [ret st2]. eauto.
    - destruct (repeat_test G fx x h (note_depth d st)) as [[r st1]|].
      + destruct (wrap_rn G o x (Some r) st1) as [ret st2]. eauto.
      + destruct (negb (n_show (gnode G x)) && negb (o_hidden o)); eauto.
        destruct (choose G o x (name_of G x h)) as [pn|]; eauto.
        destruct (create G x pn p i (note_depth d st)) as [r st1].
        destruct (kids_loop_ok_simple (fun e p0 i0 s => conv G o fx f (S d) e p0 i0 None s) (kids G x) r 0 st1) as (st2 & K).
        { intros e p0 j s Hin. apply IH. apply rk_edge in Hin. lia. }
        rewrite K. destruct (finish G o x (name_of G x h) r st2) as [ret st3]. eauto.
  Qed.
End DagTermination.

Theorem dag_terminates : forall G o fx root, dag_b G = true ->
  exists out st, (forall fuel, length G + 1 <= fuel -> to_railroad G o fx root fuel = (Ok out, st)) /\
                 frames (c_maxdepth st) <= 2 * (length G + 2).
Proof.
  intros G o fx root H.
  destruct (conv_dag_terminates G o fx (rkf G) (ranks_edge G H) (length G + 1) root 1 None 0 None init_state)
    as (r & st1 & E); [pose proof (ranks_bound G H root); lia|].
  assert (T : exists out st, to_railroad G o fx root (length G + 1) = (Ok out, st)).
  { unfold to_railroad, to_railroad_from. rewrite E. destruct (emit _ (root_extract G root st1)) as [out st2]. eauto. }
  destruct T as (out & st & T). exists out, st. split.
  - intros fuel Hf. eapply to_railroad_fuel_irrelevant; eauto.
  - apply depth_le_fuel in T. unfold frames. lia.
Qed.

(* ------------------------------------------------------------------------------------------------ lists *)
Lemma nth_error_list_set_same : forall A (l : list A) i v, i < length l -> nth_error (list_set i v l) i = Some v.
Proof. induction l as [|a l IH]; intros [|i] v H; simpl in *; try lia; auto. apply IH; lia. Qed.
Lemma nth_error_list_set_other : forall A (l : list A) i j v, i <> j -> nth_error (list_set i v l) j = nth_error l j.
Proof. induction l as [|a l IH]; intros [|i] [|j] v H; simpl; auto; try congruence. Qed.
Lemma length_list_set : forall A (l : list A) i v, length (list_set i v l) = length l.
Proof. induction l as [|a l IH]; intros [|i] v; simpl; auto. Qed.
Lemma Forall_list_set : forall A (P : A -> Prop) l i v, Forall P l -> P v -> Forall P (list_set i v l).
Proof.
  induction l as [|a l IH]; intros [|i] v H Hv; simpl; auto; inversion H; subst; constructor; auto.
Qed.
Lemma nth_error_snoc : forall A (l : list A) a r x, nth_error (l ++ [a]) r = Some x ->
  (r < length l /\ nth_error l r = Some x) \/ (r = length l /\ x = a).
Proof.
  intros A l a r x H. destruct (Nat.lt_ge_cases r (length l)) as [L|L].
  - left. split; auto. rewrite nth_error_app1 in H; auto.
  - right. rewrite nth_error_app2 in H by auto. destruct (r - length l) as [|k] eqn:E.
    + simpl in H. inversion H. split; [lia|auto].
    + simpl in H. destruct k; discriminate.
Qed.

Lemma assoc_del_same : forall A k (l : list (nat * A)), NoDup (map fst l) -> assoc k (assoc_del k l) = None.
Proof.
  induction l as [|[k2 v2] t IH]; simpl; intros N; auto. inversion N; subst.
  destruct (k =? k2) eqn:E.
  - apply Nat.eqb_eq in E; subst. destruct (assoc k2 t) eqn:Ak; auto. apply assoc_in_keys in Ak. contradiction.
  - simpl. rewrite E. auto.
Qed.
Lemma assoc_none_notin : forall A k (l : list (nat * A)), assoc k l = None -> ~ In k (map fst l).
Proof.
  induction l as [|[k2 v2] t IH]; simpl; intros H; auto. destruct (k =? k2) eqn:E; [discriminate|].
  apply Nat.eqb_neq in E. intros [C|C]; [congruence | apply IH; auto].
Qed.
Lemma assoc_set_keys : forall A k (v : A) l, assoc k l <> None -> map fst (assoc_set k v l) = map fst l.
Proof.
  induction l as [|[k2 v2] t IH]; simpl; intros H; [congruence|].
  destruct (k =? k2) eqn:E; simpl; [apply Nat.eqb_eq in E; subst; auto|]. f_equal. apply IH; auto.
Qed.
Lemma assoc_set_keys_new : forall A k (v : A) l, assoc k l = None -> map fst (assoc_set k v l) = map fst l ++ [k].
Proof.
  induction l as [|[k2 v2] t IH]; simpl; intros H; auto.
  destruct (k =? k2) eqn:E; [discriminate|]. simpl. f_equal. apply IH; auto.
Qed.
Lemma assoc_set_nodup : forall A k (v : A) l, NoDup (map fst l) -> NoDup (map fst (assoc_set k v l)).
Proof.
  intros A k v l N. destruct (assoc k l) eqn:E.
  - rewrite assoc_set_keys; auto. congruence.
  - rewrite assoc_set_keys_new; auto. apply assoc_none_notin in E.
    apply NoDup_rev in N. rewrite <- (rev_involutive (map fst l ++ [k])). apply NoDup_rev.
    rewrite rev_app_distr. simpl. constructor; auto. rewrite <- in_rev. auto.
Qed.
Lemma assoc_del_keys_incl : forall A k (l : list (nat * A)) y, In y (map fst (assoc_del k l)) -> In y (map fst l).
Proof.
  induction l as [|[k2 v2] t IH]; simpl; intros y H; auto. destruct (k =? k2); simpl in *; auto. destruct H; auto.
Qed.
Lemma assoc_del_nodup : forall A k (l : list (nat * A)), NoDup (map fst l) -> NoDup (map fst (assoc_del k l)).
Proof.
  induction l as [|[k2 v2] t IH]; simpl; intros N; auto. inversion N; subst.
  destruct (k =? k2); auto. simpl. constructor; auto. intros C. apply assoc_del_keys_incl in C. auto.
Qed.
Lemma assoc_some_in_snd : forall A k (l : list (nat * A)) v, assoc k l = Some v -> In v (map snd l).
Proof. intros A k l v H. apply assoc_in in H. apply (in_map snd) in H. auto. Qed.
Lemma in_snd_assoc : forall A (l : list (nat * A)) v, NoDup (map fst l) -> In v (map snd l) -> exists k, assoc k l = Some v.
Proof.
  induction l as [|[k2 v2] t IH]; simpl; intros v N H; [contradiction|]. inversion N; subst.
  destruct H as [<-|H].
  - exists k2. now rewrite Nat.eqb_refl.
  - destruct (IH _ H3 H) as [k Hk]. exists k. destruct (k =? k2) eqn:E; auto.
    apply Nat.eqb_eq in E; subst. apply assoc_in_keys in Hk. contradiction.
Qed.

(* ------------------------------------------------------------------------------------------------ primitives, exactly *)
Definition bm_le (st st' : cstate) : Prop := forall s b, str_assoc s (c_bm st) = Some b -> str_assoc s (c_bm st') = Some b.
Lemma bm_le_refl : forall st, bm_le st st.  Proof. unfold bm_le; auto. Qed.
Lemma bm_le_trans : forall a b c, bm_le a b -> bm_le b c -> bm_le a c.  Proof. unfold bm_le; auto. Qed.

Definition nt_node (t b : str) : pnode := {| p_func := FNonTerminal t (35%N :: b); p_slot := SLeaf |}.

Lemma new_nonterminal_spec : forall t st r st', new_nonterminal t st = (r, st') ->
  exists b, r = length (c_heap st) /\ c_heap st' = c_heap st ++ [nt_node t b] /\ str_assoc t (c_bm st') = Some b /\
    bm_le st st' /\ c_states st' = c_states st /\ c_diagrams st' = c_diagrams st /\ c_index st' = c_index st.
Proof.
  intros t st r st' H. unfold new_nonterminal in H. destruct (make_bookmark t st) as [b st1] eqn:M.
  pose proof (make_bookmark_rel _ _ _ _ M) as [[_ L] A]. pose proof (make_bookmark_sd _ _ _ _ M) as [S1 S2].
  assert (Hh : c_heap st1 = c_heap st /\ c_index st1 = c_index st).
  { unfold make_bookmark in M. destruct (str_assoc t (c_bm st)); inversion M; subst; auto. }
  destruct Hh as [Hh Hi]. unfold alloc in H. inversion H; subst. exists b. simpl. rewrite Hh.
  repeat split; auto.
Qed.

(* operations that only rewrite the slot of one existing partial (or flag an error) *)
Definition slot_only (st st' : cstate) : Prop :=
  c_states st' = c_states st /\ c_diagrams st' = c_diagrams st /\ c_index st' = c_index st /\ c_bm st' = c_bm st /\
  (c_heap st' = c_heap st \/
   exists r pn s, nth_error (c_heap st) r = Some pn /\ c_heap st' = list_set r {| p_func := p_func pn; p_slot := s |} (c_heap st)).

Lemma slot_only_refl : forall st, slot_only st st.
Proof. intros; repeat split; auto. Qed.
Lemma set_slot_only : forall st r s, slot_only st (set_slot st r s).
Proof.
  intros. unfold set_slot. destruct (nth_error (c_heap st) r) as [pn|] eqn:E; [|apply slot_only_refl].
  repeat split; auto. right. exists r, pn, s. auto.
Qed.
Lemma put_child_only : forall st r i v, slot_only st (put_child st r i v).
Proof.
  intros. unfold put_child. destruct (slot_of st r); try apply slot_only_refl; try apply set_slot_only.
  destruct (i <? length l); [apply set_slot_only | repeat split; auto].
Qed.
Lemma with_items_only : forall st r f, slot_only st (with_items st r f).
Proof. intros. unfold with_items. destruct (slot_of st r); try apply slot_only_refl; apply set_slot_only. Qed.
Lemma place_only : forall st r i it i' st', place st r i it = (i', st') -> slot_only st st'.
Proof.
  intros st r i it i' st' H. unfold place in H. destruct it.
  - destruct (slot_of st r); inversion H; subst; try apply slot_only_refl; try apply set_slot_only.
    destruct (i <? length l); [apply set_slot_only | repeat split; auto].
  - inversion H; subst. apply with_items_only.
Qed.

Lemma assoc_set_twice : forall A k (v v' : A) l, assoc_set k v' (assoc_set k v l) = assoc_set k v' l.
Proof.
  induction l as [|[k2 v2] t IH]; simpl.
  - now rewrite Nat.eqb_refl.
  - destruct (k =? k2) eqn:E; simpl; rewrite ?Nat.eqb_refl, ?E; auto. f_equal; auto.
Qed.

Definition not_nt (pn : pnode) : Prop := forall t hf, p_func pn <> FNonTerminal t hf.

(* a step that leaves the element tables, the counter and the bookmark table alone and, on the heap, rewrites one slot or
   allocates one partial that is not a NonTerminal *)
Definition quiet (st st' : cstate) : Prop :=
  c_states st' = c_states st /\ c_diagrams st' = c_diagrams st /\ c_index st' = c_index st /\ c_bm st' = c_bm st /\
  (c_heap st' = c_heap st \/
   (exists r pn s, nth_error (c_heap st) r = Some pn /\ c_heap st' = list_set r {| p_func := p_func pn; p_slot := s |} (c_heap st)) \/
   (exists pn, not_nt pn /\ c_heap st' = c_heap st ++ [pn])).

Lemma quiet_refl : forall st, quiet st st.
Proof. intros; repeat split; auto. Qed.
Lemma slot_only_quiet : forall st st', slot_only st st' -> quiet st st'.
Proof. intros st st' (A & B & C & D & [E|E]); repeat split; auto. Qed.
Lemma alloc_quiet : forall pn st, not_nt pn -> quiet st (snd (alloc pn st)).
Proof. intros. unfold alloc; simpl. repeat split; auto. right; right. exists pn; auto. Qed.
Lemma note_depth_quiet : forall d st, quiet st (note_depth d st).
Proof. intros; repeat split; auto. Qed.

Lemma wrap_rn_quiet : forall G o x ret st ret' st', wrap_rn G o x ret st = (ret', st') ->
  quiet st st' /\ (ret <> None -> ret' <> None).
Proof.
  intros G o x ret st ret' st' H. unfold wrap_rn in H. destruct ret as [r|]; [|inversion H; subst; split; [apply quiet_refl|auto]].
  destruct (o_rnames o && truthy (n_rname (gnode G x))).
  - unfold alloc in H. inversion H; subst. split; [|congruence].
    repeat split; auto. right; right. eexists; split; [|reflexivity]. intros t hf; simpl; discriminate.
  - inversion H; subst. split; [apply quiet_refl|auto].
Qed.

Lemma choose_not_nt : forall G o x nm pn, choose G o x nm = Some pn -> not_nt pn.
Proof.
  intros G o x nm pn H t hf. unfold choose in H.
  destruct (n_kind (gnode G x)); destruct (n_kids (gnode G x));
    repeat match type of H with
           | context [if ?c then _ else _] => destruct c
           end; inversion H; subst; simpl; discriminate.
Qed.

Lemma choose_slot_indep : forall G o x nm nm',
  option_map p_slot (choose G o x nm) = option_map p_slot (choose G o x nm').
Proof.
  intros. unfold choose.
  destruct (n_kind (gnode G x)); destruct (n_kids (gnode G x));
    repeat match goal with
           | |- context [if ?c then _ else _] => destruct c
           end; reflexivity.
Qed.

Section DagInv.
  Variable G : graph.
  Variable o : opts.
  Variable fx : bool.
  Variable root : id.
  Variable rk : id -> nat.
  Hypothesis rk_edge : forall x y, In y (kids G x) -> rk y < rk x.
  Hypothesis Hok : forall x, node_ok G o x = true.
  Hypothesis Hinj : forall x y, named_b G x = true -> named_b G y = true -> cname G x = cname G y -> x = y.
  Hypothesis Hroot : bypass G root = false.

  Definition has_name (dg : list (id * dentry)) (t : str) : Prop := exists y d, assoc y dg = Some d /\ d_name d = t.
  Definition good_nt (bm : list (str * str)) (dg : list (id * dentry)) (pn : pnode) : Prop :=
    forall t hf, p_func pn = FNonTerminal t hf ->
      (exists b, hf = 35%N :: b /\ str_assoc t bm = Some b) /\ has_name dg t.
  Definition nt_ok (st : cstate) : Prop := Forall (good_nt (c_bm st) (c_diagrams st)) (c_heap st).

  Definition dg_ok (st : cstate) : Prop :=
    NoDup (map fst (c_diagrams st)) /\
    (forall y d, assoc y (c_diagrams st) = Some d -> named_b G y = true /\ d_name d = cname G y) /\
    (forall y z, assoc y (c_diagrams st) <> None -> reach G y z -> named_b G z = true -> assoc z (c_diagrams st) <> None).
  Definition num_ok (st : cstate) : Prop :=
    (forall y s, assoc y (c_states st) = Some s -> if y =? root then es_number s = 1 else 2 <= es_number s) /\
    (forall y d, assoc y (c_diagrams st) = Some d -> if y =? root then d_index d = 1 else 2 <= d_index d).
  Definition GI (st : cstate) : Prop :=
    nt_ok st /\ dg_ok st /\ num_ok st /\ NoDup (map fst (c_states st)) /\
    (forall y s, assoc y (c_states st) = Some s -> named_b G y = true -> es_name s <> None).

  Definition hot (s : estate) : Prop := es_name s <> None \/ es_complete s = false.

  Definition Pre (x : id) (st : cstate) : Prop :=
    GI st /\
    (forall y s, assoc y (c_states st) = Some s -> hot s -> rk x < rk y) /\
    (c_index st = 0 -> x = root) /\ (1 <= c_index st -> rk x < rk root).

  (* what a conversion may change: nothing about elements of rank >= k; no new open element; diagrams are never lost *)
  Definition Rel (k : nat) (st st' : cstate) : Prop :=
    (forall y, k <= rk y ->
       assoc y (c_states st') = assoc y (c_states st) /\ assoc y (c_diagrams st') = assoc y (c_diagrams st)) /\
    (forall y s', assoc y (c_states st') = Some s' -> hot s' -> exists s, assoc y (c_states st) = Some s /\ hot s) /\
    (forall y, assoc y (c_diagrams st) <> None -> assoc y (c_diagrams st') <> None) /\
    c_index st <= c_index st' /\ bm_le st st'.
  Definition covered (x : id) (st : cstate) : Prop :=
    forall y, reach G x y -> named_b G y = true -> assoc y (c_diagrams st) <> None.

  Definition Post (x : id) (st st' : cstate) : Prop :=
    GI st' /\ Rel (S (rk x)) st st' /\ covered x st' /\
    (named_b G x = false -> bypass G x = false -> exists s, assoc x (c_states st') = Some s /\ ~ hot s).

  Lemma good_nt_mono : forall bm dg bm' dg' pn,
    (forall s b, str_assoc s bm = Some b -> str_assoc s bm' = Some b) ->
    (forall t, has_name dg t -> has_name dg' t) -> good_nt bm dg pn -> good_nt bm' dg' pn.
  Proof.
    intros bm dg bm' dg' pn Hb Hn H t hf E. destruct (H t hf E) as [(b & E1 & E2) N]. split; eauto.
  Qed.

  Lemma GI_quiet : forall st st', quiet st st' -> GI st -> GI st'.
  Proof.
    intros st st' (E1 & E2 & E3 & E4 & E5) (N & D & M & S & J). unfold GI, nt_ok, dg_ok, num_ok in *. rewrite E1, E2, E4.
    split; [|split; auto].
    destruct E5 as [->|[(r & pn & s & Hn & ->)|(pn & Hp & ->)]]; auto.
    - apply Forall_list_set; auto. apply nth_error_In in Hn. rewrite Forall_forall in N. specialize (N _ Hn).
      intros t hf E. simpl in E. apply N; auto.
    - apply Forall_app. split; auto. constructor; auto. intros t hf E. exfalso. eapply Hp; eauto.
  Qed.

  Lemma Pre_quiet : forall x st st', quiet st st' -> Pre x st -> Pre x st'.
  Proof.
    intros x st st' Q (A & B & C & D). pose proof (GI_quiet _ _ Q A) as A'.
    destruct Q as (E1 & E2 & E3 & E4 & _). unfold Pre. rewrite E1, E3. auto.
  Qed.

  Lemma Rel_refl : forall k st, Rel k st st.
  Proof. intros. unfold Rel. repeat split; eauto. apply bm_le_refl. Qed.
  Lemma Rel_trans : forall k a b c, Rel k a b -> Rel k b c -> Rel k a c.
  Proof.
    intros k a b c (A1 & A2 & A3 & A4 & A5) (B1 & B2 & B3 & B4 & B5). unfold Rel. repeat split.
    - destruct (B1 y H), (A1 y H). congruence.
    - destruct (B1 y H), (A1 y H). congruence.
    - intros y s' H Hh. destruct (B2 _ _ H Hh) as (s & H1 & H2). eauto.
    - auto.
    - lia.
    - eapply bm_le_trans; eauto.
  Qed.
  Lemma Rel_weaken : forall k k' a b, k <= k' -> Rel k a b -> Rel k' a b.
  Proof. intros k k' a b L (A1 & A2). split; auto. intros y H. apply A1. lia. Qed.
  Lemma Rel_quiet : forall k st st', quiet st st' -> Rel k st st'.
  Proof.
    intros k st st' (E1 & E2 & E3 & E4 & _). unfold Rel, bm_le. rewrite E1, E2, E3, E4. repeat split; eauto.
  Qed.

  Lemma Post_quiet_r : forall x st st' st'', Post x st st' -> quiet st' st'' -> Post x st st''.
  Proof.
    intros x st st' st'' (A & B & C & D) Q. pose proof (GI_quiet _ _ Q A) as A'.
    pose proof (Rel_trans _ _ _ _ B (Rel_quiet (S (rk x)) _ _ Q)) as B'.
    destruct Q as (E1 & E2 & E3 & E4 & _). unfold Post, covered in *. rewrite E1, E2.
    exact (conj A' (conj B' (conj C D))).
  Qed.

  Lemma Post_quiet_l : forall x st st' st'', quiet st st' -> Post x st' st'' -> Post x st st''.
  Proof.
    intros x st st' st'' Q (A & B & C & D).
    pose proof (Rel_trans _ _ _ _ (Rel_quiet (S (rk x)) _ _ Q) B) as B'.
    exact (conj A (conj B' (conj C D))).
  Qed.

  (* ---------------------------------------------------------------------------------------------- create *)
  Definition fresh_state (x : id) (r : ref) (p : option ref) (i n : nat) : estate :=
    {| es_conv := r; es_parent := p; es_pidx := i; es_number := n;
       es_name := if named_b G x then n_custom (gnode G x) else None; es_extract := named_b G x; es_complete := false |}.

  Lemma create_spec : forall x pn p i st r st1, create G x pn p i st = (r, st1) ->
    r = length (c_heap st) /\ c_heap st1 = c_heap st ++ [pn] /\
    c_states st1 = assoc_set x (fresh_state x r p i (S (c_index st))) (c_states st) /\
    c_diagrams st1 = c_diagrams st /\ c_index st1 = S (c_index st) /\ c_bm st1 = c_bm st.
  Proof.
    intros x pn p i st r st1 H. unfold create, alloc in H. simpl in H. unfold fresh_state, named_b.
    destruct (truthy (n_custom (gnode G x))) eqn:T.
    - unfold mark_for_extraction in H. simpl c_states in H. rewrite assoc_set_same in H. simpl in H. rewrite T in H.
      simpl in H. inversion H; subst. simpl. rewrite assoc_set_twice. repeat split; auto.
    - inversion H; subst. simpl. repeat split; auto.
  Qed.

  (* ---------------------------------------------------------------------------------------------- extraction *)
  Lemma names_le_set : forall x d dg, (forall d0, assoc x dg = Some d0 -> d_name d0 = d_name d) ->
    forall t, has_name dg t -> has_name (assoc_set x d dg) t.
  Proof.
    intros x d dg H t (y & d0 & A & N). destruct (Nat.eq_dec x y) as [->|Hne].
    - exists y, d. rewrite assoc_set_same. split; auto. rewrite <- N. symmetry; apply H; auto.
    - exists y, d0. rewrite assoc_set_other; auto.
  Qed.

  Lemma nt_forall_slot : forall bm dg h r pn s, Forall (good_nt bm dg) h -> nth_error h r = Some pn ->
    Forall (good_nt bm dg) (list_set r {| p_func := p_func pn; p_slot := s |} h).
  Proof.
    intros bm dg h r pn s N Hn. apply Forall_list_set; auto. apply nth_error_In in Hn. rewrite Forall_forall in N.
    specialize (N _ Hn). intros t hf E. simpl in E. apply N; auto.
  Qed.

  Lemma nt_forall_only : forall bm dg st st', slot_only st st' -> Forall (good_nt bm dg) (c_heap st) ->
    Forall (good_nt bm dg) (c_heap st').
  Proof.
    intros bm dg st st' (_ & _ & _ & _ & [->|(r & pn & s & Hn & ->)]) N; auto. apply nt_forall_slot; auto.
  Qed.

  (* the content that extract_into_diagram stores *)
  Definition content_of (h : list pnode) (c : ref) : ival :=
    match nth_error h c with
    | Some pn => if is_group (p_func pn) then match p_slot pn with SItem v => v | _ => IVRef c end else IVRef c
    | None => IVRef c
    end.

  Lemma extract_GI : forall x st pos,
    GI st -> assoc x (c_states st) = Some pos -> named_b G x = true -> oname (es_name pos) = cname G x ->
    (forall z, reach G x z -> named_b G z = true -> z <> x -> assoc z (c_diagrams st) <> None) ->
    GI (extract_into_diagram x st) /\
    c_states (extract_into_diagram x st) = assoc_del x (c_states st) /\
    (exists d, c_diagrams (extract_into_diagram x st) = assoc_set x d (c_diagrams st) /\ d_name d = cname G x) /\
    c_index (extract_into_diagram x st) = c_index st /\ bm_le st (extract_into_diagram x st).
  Proof.
    intros x st pos (N & (D1 & D2 & D3) & (M1 & M2) & S & J) Hp Nx Hn Hc.
    unfold extract_into_diagram. rewrite Hp. cbv zeta.
    set (sta := match es_parent pos with
                | Some p => let '(r, st0) := new_nonterminal (oname (es_name pos)) st in put_child st0 p (es_pidx pos) r
                | None => st end).
    set (d := {| d_name := oname (es_name pos);
                 d_content := match nth_error (c_heap sta) (es_conv pos) with
                              | Some pn => if is_group (p_func pn) then match p_slot pn with SItem v => v | _ => IVRef (es_conv pos) end
                                           else IVRef (es_conv pos)
                              | None => IVRef (es_conv pos) end;
                 d_index := es_number pos |}).
    assert (Hd0 : forall d0, assoc x (c_diagrams st) = Some d0 -> d_name d0 = d_name d).
    { intros d0 H0. destruct (D2 _ _ H0) as [_ E]. simpl. congruence. }
    assert (A : c_states sta = c_states st /\ c_diagrams sta = c_diagrams st /\ c_index sta = c_index st /\ bm_le st sta /\
                Forall (good_nt (c_bm sta) (assoc_set x d (c_diagrams st))) (c_heap sta)).
    { subst sta. destruct (es_parent pos) as [p|].
      - destruct (new_nonterminal (oname (es_name pos)) st) as [r0 st0] eqn:E.
        apply new_nonterminal_spec in E as (b & _ & Hh & Hb & Hle & Hs & Hdg & Hi).
        pose proof (put_child_only st0 p (es_pidx pos) r0) as PO. pose proof PO as (P1 & P2 & P3 & P4 & _).
        repeat split; try congruence.
        + unfold bm_le in *. rewrite P4. auto.
        + eapply nt_forall_only; eauto. rewrite P4, Hh. apply Forall_app. split.
          * eapply Forall_impl; [|exact N]. intros pn Hg.
            apply (good_nt_mono (c_bm st) (c_diagrams st)); [exact Hle | apply names_le_set; auto | exact Hg].
          * constructor; auto. intros t hf Et. simpl in Et. inversion Et; subst. split; eauto.
            exists x, d. rewrite assoc_set_same. auto.
      - repeat split; auto; try apply bm_le_refl.
        eapply Forall_impl; [|exact N]. intros pn Hg.
        apply (good_nt_mono (c_bm st) (c_diagrams st)); [auto | apply names_le_set; auto | exact Hg]. }
    destruct A as (As & Ad & Ai & Ab & Ah). simpl. rewrite Ad, As.
    split; [|split; [|split; [|split]]]; auto.
    - (* GI *)
      unfold GI, nt_ok, dg_ok, num_ok. simpl. split; [exact Ah|]. split; [|split; [|split]].
      + split; [apply assoc_set_nodup; auto|]. split.
        * intros y d1 H1. destruct (Nat.eq_dec x y) as [->|Hne].
          -- rewrite assoc_set_same in H1. inversion H1; subst. simpl. auto.
          -- rewrite assoc_set_other in H1 by auto. apply D2; auto.
        * intros y z Hy Hr Nz. destruct (Nat.eq_dec x z) as [->|Hnz]; [rewrite assoc_set_same; discriminate|].
          rewrite assoc_set_other by auto. destruct (Nat.eq_dec x y) as [->|Hne].
          -- apply Hc; auto.
          -- rewrite assoc_set_other in Hy by auto. eapply D3; eauto.
      + split.
        * intros y s1 H1. destruct (Nat.eq_dec x y) as [->|Hne].
          -- rewrite assoc_del_same in H1 by auto. discriminate.
          -- rewrite assoc_del_other in H1 by auto. apply M1; auto.
        * intros y d1 H1. destruct (Nat.eq_dec x y) as [->|Hne].
          -- rewrite assoc_set_same in H1. inversion H1; subst. simpl. apply M1; auto.
          -- rewrite assoc_set_other in H1 by auto. apply M2; auto.
      + apply assoc_del_nodup; auto.
      + intros y s1 H1 Ny. destruct (Nat.eq_dec x y) as [->|Hne].
        * rewrite assoc_del_same in H1 by auto. discriminate.
        * rewrite assoc_del_other in H1 by auto. eapply J; eauto.
    - exists d. split; auto.
  Qed.

  Lemma nn_GI : forall t st r st', new_nonterminal t st = (r, st') -> GI st -> has_name (c_diagrams st) t ->
    GI st' /\ c_states st' = c_states st /\ c_diagrams st' = c_diagrams st /\ c_index st' = c_index st /\ bm_le st st'.
  Proof.
    intros t st r st' H (N & D & M & S & J) Hn. apply new_nonterminal_spec in H as (b & _ & Hh & Hb & Hle & Hs & Hdg & Hi).
    split; [|auto]. unfold GI, nt_ok, dg_ok, num_ok in *. rewrite Hs, Hdg, Hh. split; [|auto].
    apply Forall_app. split.
    - eapply Forall_impl; [|exact N]. intros pn Hg.
      apply (good_nt_mono (c_bm st) (c_diagrams st)); [exact Hle | auto | exact Hg].
    - constructor; auto. intros t0 hf Et. simpl in Et. inversion Et; subst. split; eauto.
  Qed.

  Lemma GI_set_state : forall st x s s', GI st -> assoc x (c_states st) = Some s -> es_number s' = es_number s ->
    es_name s' = es_name s ->
    GI (set_states st (assoc_set x s' (c_states st))).
  Proof.
    intros st x s s' (N & D & (M1 & M2) & S & J) Hs Hn Hnm. unfold GI, nt_ok, dg_ok, num_ok. simpl.
    split; auto. split; auto. split; [split; auto|split; [apply assoc_set_nodup; auto|]].
    - intros y s1 H1. destruct (Nat.eq_dec x y) as [->|Hne].
      + rewrite assoc_set_same in H1. inversion H1; subst. rewrite Hn. apply M1; auto.
      + rewrite assoc_set_other in H1 by auto. apply M1; auto.
    - intros y s1 H1 Ny. destruct (Nat.eq_dec x y) as [->|Hne].
      + rewrite assoc_set_same in H1. inversion H1; subst. rewrite Hnm. eapply J; eauto.
      + rewrite assoc_set_other in H1 by auto. eapply J; eauto.
  Qed.

  (* ---------------------------------------------------------------------------------------------- finish *)
  Lemma finish_B : forall x nm r st s ret st',
    GI st -> assoc x (c_states st) = Some s ->
    es_extract s = named_b G x -> (named_b G x = true -> oname (es_name s) = cname G x) ->
    (forall z, reach G x z -> named_b G z = true -> z <> x -> assoc z (c_diagrams st) <> None) ->
    finish G o x nm r st = (ret, st') ->
    GI st' /\ ret <> None /\ c_index st' = c_index st /\ bm_le st st' /\
    (if named_b G x
     then c_states st' = assoc_del x (c_states st) /\ exists d, c_diagrams st' = assoc_set x d (c_diagrams st)
     else c_states st' = assoc_set x (set_complete s) (c_states st) /\ c_diagrams st' = c_diagrams st).
  Proof.
    intros x nm r st s ret st' HG Hs He Hn Hc H. unfold finish in H.
    match type of H with (let '(_, _) := ?A in _) = _ => destruct A as [ret1 st1] eqn:E1 end.
    assert (Q1 : quiet st st1).
    { destruct (match slot_of st r with SItems [] => true | SItem IVNone => true | _ => false end).
      - unfold alloc in E1. inversion E1; subst. repeat split; auto. right; right. eexists; split; [|reflexivity].
        intros t hf; simpl; discriminate.
      - inversion E1; subst. apply quiet_refl. }
    pose proof (GI_quiet _ _ Q1 HG) as G1. destruct Q1 as (Q1s & Q1d & Q1i & Q1b & _).
    rewrite Q1s, Hs in H.
    set (st2 := set_states st1 (assoc_set x (set_complete s) (c_states st))) in *.
    assert (G2 : GI st2).
    { subst st2. replace (c_states st) with (c_states st1) by auto. apply GI_set_state with (s := s); auto. rewrite Q1s; auto. }
    assert (Hs2 : assoc x (c_states st2) = Some (set_complete s)) by (subst st2; simpl; apply assoc_set_same).
    rewrite Hs2 in H. simpl es_extract in H. simpl es_complete in H. rewrite He, andb_true_r in H.
    destruct (named_b G x) eqn:Nx.
    - destruct (extract_GI x st2 (set_complete s) G2 Hs2 Nx (Hn eq_refl)) as (G3 & S3 & (d & D3 & Dn) & I3 & B3).
      { subst st2. simpl. rewrite Q1d. auto. }
      rewrite D3, assoc_set_same in H.
      destruct (new_nonterminal (d_name d) (extract_into_diagram x st2)) as [r4 st4] eqn:E4.
      destruct (nn_GI _ _ _ _ E4 G3) as (G4 & S4 & D4 & I4 & B4).
      { exists x, d. rewrite D3, assoc_set_same. auto. }
      apply wrap_rn_quiet in H as [Q5 R5]. pose proof (GI_quiet _ _ Q5 G4) as G5.
      destruct Q5 as (Q5s & Q5d & Q5i & Q5b & _).
      split; auto. split; [apply R5; discriminate|]. split; [subst st2; simpl in *; congruence|].
      split.
      + unfold bm_le in *. rewrite Q5b. intros s0 b0 Hb0. apply B4, B3. subst st2; simpl. rewrite Q1b; auto.
      + split.
        * rewrite Q5s, S4, S3. subst st2; simpl.
          clear. induction (c_states st) as [|[k v] t IH]; simpl; [now rewrite Nat.eqb_refl|].
          destruct (x =? k) eqn:E; simpl; rewrite ?Nat.eqb_refl, ?E; auto. f_equal; auto.
        * exists d. rewrite Q5d, D4, D3. subst st2; simpl. rewrite Q1d; auto.
    - apply wrap_rn_quiet in H as [Q5 R5]. pose proof (GI_quiet _ _ Q5 G2) as G5.
      destruct Q5 as (Q5s & Q5d & Q5i & Q5b & _).
      split; auto. split; [apply R5; discriminate|]. split; [subst st2; simpl in *; congruence|].
      split; [unfold bm_le; rewrite Q5b; subst st2; simpl; rewrite Q1b; auto|].
      split; [rewrite Q5s; reflexivity | rewrite Q5d; subst st2; simpl; auto].
  Qed.

  (* ---------------------------------------------------------------------------------------------- class facts *)
  Lemma ok_shown : forall x, negb (n_show (gnode G x)) && negb (o_hidden o) = false.
  Proof.
    intros x. pose proof (Hok x) as H. unfold node_ok in H. repeat (apply andb_true_iff in H as [H ?]).
    destruct (n_show (gnode G x)), (o_hidden o); simpl in *; auto; discriminate.
  Qed.
  Lemma ok_choose : forall x nm, exists pn, choose G o x nm = Some pn.
  Proof.
    intros x nm. pose proof (Hok x) as H. unfold node_ok in H. repeat (apply andb_true_iff in H as [H ?]).
    pose proof (choose_slot_indep G o x nm []) as E.
    destruct (choose G o x []) as [pn0|]; [|discriminate]. destruct (choose G o x nm) as [pn|]; [eauto|discriminate].
  Qed.
  Lemma ok_bypass : forall x, bypass G x = true -> kids G x = [hd 0 (kids G x)] /\ named_b G x = false.
  Proof.
    intros x B. pose proof (Hok x) as H. unfold node_ok in H. repeat (apply andb_true_iff in H as [H ?]).
    rewrite B in *. split.
    - destruct (kids G x) as [|a [|b t]]; simpl in *; try discriminate; auto.
    - unfold bypass in B. apply andb_true_iff in B as [B _]. apply negb_true_iff in B. exact B.
  Qed.

  Lemma Rel_of_eqs : forall k st st', c_states st' = c_states st -> c_diagrams st' = c_diagrams st ->
    c_index st <= c_index st' -> bm_le st st' -> Rel k st st'.
  Proof. intros k st st' E1 E2 E3 E4. unfold Rel. rewrite E1, E2. repeat split; eauto. Qed.

  Lemma covered_mono : forall e st st', covered e st ->
    (forall y, assoc y (c_diagrams st) <> None -> assoc y (c_diagrams st') <> None) -> covered e st'.
  Proof. unfold covered; auto. Qed.

  Lemma not_hot_complete : forall s, es_name s = None -> ~ hot (set_complete s).
  Proof. intros s H [C|C]; simpl in C; congruence. Qed.

  (* ---------------------------------------------------------------------------------------------- the repeat test *)
  Lemma repeat_test_B : forall x h st r st', Pre x st -> repeat_test G fx x h st = Some (r, st') ->
    exists d, assoc x (c_diagrams st) = Some d /\ new_nonterminal (d_name d) st = (r, st').
  Proof.
    intros x h st r st' (_ & Hh & _) H. unfold repeat_test in H. destruct (worth G x); [|discriminate].
    assert (ID : in_diagrams x st = Some (r, st') ->
                 exists d, assoc x (c_diagrams st) = Some d /\ new_nonterminal (d_name d) st = (r, st')).
    { unfold in_diagrams. destruct (assoc x (c_diagrams st)) as [d|]; [|discriminate]. intros E. inversion E. eauto. }
    destruct (assoc x (c_states st)) as [s|] eqn:Es; auto.
    destruct (es_name s) eqn:En.
    - exfalso. assert (rk x < rk x); [|lia]. eapply Hh; eauto. left; congruence.
    - destruct (es_complete s) eqn:Ec.
      + rewrite andb_false_r in H. auto.
      + exfalso. assert (rk x < rk x); [|lia]. eapply Hh; eauto. right; auto.
  Qed.

  (* ---------------------------------------------------------------------------------------------- the child loop *)
  Definition LPre (x : id) (s : cstate) : Prop :=
    GI s /\ (forall y sy, assoc y (c_states s) = Some sy -> hot sy -> y = x \/ rk x < rk y) /\ 1 <= c_index s.

  Lemma LPre_quiet : forall x st st', quiet st st' -> LPre x st -> LPre x st'.
  Proof.
    intros x st st' Q (A & B & C). pose proof (GI_quiet _ _ Q A) as A'.
    destruct Q as (E1 & E2 & E3 & E4 & _). unfold LPre. rewrite E1, E3. auto.
  Qed.

  Lemma kids_loop_B : forall rec x, rk x <= rk root ->
    forall es, incl es (kids G x) ->
    (forall e p j s r' s', In e es -> Pre e s -> rec e p j s = (Ok r', s') -> Post e s s' /\ r' <> None) ->
    forall r i st u st', LPre x st -> kids_loop rec r es i st = (Ok u, st') ->
      LPre x st' /\ Rel (rk x) st st' /\ forall e, In e es -> covered e st'.
  Proof.
    intros rec x Hx. induction es as [|e es IH]; simpl; intros Hin Hrec r i st u st' L H.
    - inversion H; subst. split; auto. split; [apply Rel_refl|]. intros e [].
    - pose proof (slot_only_quiet _ _ (with_items_only st r (insert_at i None))) as Q1.
      destruct (rec e (Some r) i (with_items st r (insert_at i None))) as [[item|] st2] eqn:E; [|discriminate].
      destruct (place st2 r i item) as [i' st3] eqn:P. apply place_only in P. apply slot_only_quiet in P.
      assert (He : In e (kids G x)) by (apply Hin; left; auto). pose proof (rk_edge _ _ He) as Hr.
      pose proof (LPre_quiet _ _ _ Q1 L) as (A1 & B1 & C1).
      destruct (Hrec e (Some r) i (with_items st r (insert_at i None)) item st2 (or_introl eq_refl)) as [(PG & PR & PC & _) _]; auto.
      { split; auto. split; [|split].
        - intros y sy Hy Hh. destruct (B1 _ _ Hy Hh) as [->|]; lia.
        - intros C0. lia.
        - intros _. lia. }
      assert (L3 : LPre x st3).
      { apply (LPre_quiet _ _ _ P). split; auto. destruct PR as (_ & R2 & _ & R4 & _). split; [|lia].
        intros y sy Hy Hh. destruct (R2 _ _ Hy Hh) as (s0 & H0 & Hh0). eauto. }
      assert (R3 : Rel (rk x) st st3).
      { eapply Rel_trans; [apply Rel_quiet; exact Q1|]. eapply Rel_trans; [|apply Rel_quiet; exact P].
        eapply Rel_weaken; [|exact PR]. lia. }
      destruct (IH (fun a Ha => Hin a (or_intror Ha)) (fun e0 p j s r' s' H0 => Hrec e0 p j s r' s' (or_intror H0))
                   r i' st3 u st' L3 H) as (L' & R' & C').
      split; auto. split; [eapply Rel_trans; eauto|].
      intros e0 [<-|H0]; auto.
      eapply covered_mono; [exact PC|]. intros y Hy.
      destruct P as (_ & Pd & _). destruct R' as (_ & _ & R'd & _). apply R'd. rewrite Pd. auto.
  Qed.

  (* ---------------------------------------------------------------------------------------------- the conversion *)
  Lemma reach_kids : forall x y, reach G x y -> y = x \/ exists e, In e (kids G x) /\ reach G e y.
  Proof. intros x y H. inversion H; subst; eauto. Qed.

  Lemma GI_create : forall x pn p i st r st1, Pre x st -> not_nt pn -> create G x pn p i st = (r, st1) ->
    LPre x st1 /\ assoc x (c_states st1) = Some (fresh_state x r p i (S (c_index st))) /\
    (forall y, y <> x -> assoc y (c_states st1) = assoc y (c_states st)) /\
    c_diagrams st1 = c_diagrams st /\ c_index st1 = S (c_index st) /\ c_bm st1 = c_bm st.
  Proof.
    intros x pn p i st r st1 ((N & D & (M1 & M2) & S & J) & Hh & I0 & I1) Hp C.
    apply create_spec in C as (_ & Ch & Cs & Cd & Ci & Cb).
    split; [|split; [rewrite Cs; apply assoc_set_same|split; [intros; rewrite Cs; apply assoc_set_other; auto|auto]]].
    unfold LPre, GI, nt_ok, dg_ok, num_ok. rewrite Ch, Cs, Cd, Ci, Cb. split; [split; [|split; [|split; [|split]]]|split]; auto.
    - apply Forall_app. split; auto. constructor; auto. intros t hf E. exfalso. eapply Hp; eauto.
    - split; auto. intros y s Hy. destruct (Nat.eq_dec x y) as [->|Hne].
      + rewrite assoc_set_same in Hy. inversion Hy; subst. simpl.
        destruct (y =? root) eqn:E.
        * apply Nat.eqb_eq in E; subst. destruct (c_index st); auto. assert (rk root < rk root) by (apply I1; lia). lia.
        * apply Nat.eqb_neq in E. destruct (c_index st); [exfalso; auto | lia].
      + rewrite assoc_set_other in Hy by auto. apply M1; auto.
    - apply assoc_set_nodup; auto.
    - intros y s Hy Ny. destruct (Nat.eq_dec x y) as [->|Hne].
      + rewrite assoc_set_same in Hy. inversion Hy; subst. simpl. rewrite Ny. unfold named_b in Ny.
        destruct (n_custom (gnode G y)); [discriminate|simpl in Ny; discriminate].
      + rewrite assoc_set_other in Hy by auto. eapply J; eauto.
    - intros y sy Hy Hhot. destruct (Nat.eq_dec x y) as [->|Hne]; auto.
      rewrite assoc_set_other in Hy by auto. right. eapply Hh; eauto.
    - lia.
  Qed.

  Lemma conv_B : forall f d x p i h st ret st', Pre x st -> conv G o fx f d x p i h st = (Ok ret, st') ->
    Post x st st' /\ ret <> None.
  Proof.
    induction f as [|f IH]; intros d x p i h st ret st' HP H; [simpl in H; discriminate|].
    rewrite conv_S in H.
    pose proof (note_depth_quiet d st) as Q0. pose proof (Pre_quiet _ _ _ Q0 HP) as HP0.
    assert (Wrap : forall st1 r1, Post x (note_depth d st) st1 -> r1 <> None ->
                   (let '(ret0, st2) := wrap_rn G o x r1 st1 in (Ok ret0, st2)) = (Ok ret, st') -> Post x st st' /\ ret <> None).
    { intros st1 r1 P1 R1 W. destruct (wrap_rn G o x r1 st1) as [ret0 st2] eqn:E. inversion W; subst.
      apply wrap_rn_quiet in E as [Q R]. split; auto.
      eapply Post_quiet_l; [exact Q0|]. eapply Post_quiet_r; eauto. }
    destruct (bypass G x) eqn:B.
    - (* by-passed Forward / Located *)
      destruct (ok_bypass x B) as [Hk Nx].
      assert (Hc : In (hd 0 (kids G x)) (kids G x)) by (rewrite Hk at 2; left; auto).
      pose proof (rk_edge _ _ Hc) as Hr.
      destruct (conv G o fx f (S d) (hd 0 (kids G x)) p i _ (note_depth d st)) as [[r1|] st1] eqn:E; [|discriminate].
      destruct HP0 as (A0 & B0 & C0 & D0).
      apply IH in E as [(PG & PR & PC & _) R1].
      2:{ split; auto. split; [|split].
          - intros y s Hy Hh. specialize (B0 _ _ Hy Hh). lia.
          - intros Z. specialize (C0 Z). subst. congruence.
          - intros Z. specialize (D0 Z). lia. }
      apply (Wrap st1 r1); auto. split; auto. split; [eapply Rel_weaken; [|exact PR]; lia|]. split.
      + intros y Hy Ny. apply reach_kids in Hy as [->|(e & He & Hy)]; [congruence|].
        rewrite Hk in He. destruct He as [<-|[]]. apply PC; auto.
      + intros _ Z. congruence.
    - destruct (repeat_test G fx x h (note_depth d st)) as [[r1 st1]|] eqn:RT.
      + (* a link to the sub-diagram made earlier *)
        destruct (repeat_test_B _ _ _ _ _ HP0 RT) as (d0 & Hd0 & NN).
        destruct HP0 as (A0 & _). pose proof A0 as (_ & (_ & D2 & D3) & _).
        destruct (nn_GI _ _ _ _ NN A0) as (G1 & S1 & D1 & I1 & B1); [exists x, d0; auto|].
        apply (Wrap st1 (Some r1)); [|discriminate|exact H]. split; auto.
        split; [apply Rel_of_eqs; auto; lia|]. split.
        * intros y Hy Ny. rewrite D1. eapply D3; eauto. congruence.
        * intros Nx _. destruct (D2 _ _ Hd0). congruence.
      + rewrite ok_shown in H. destruct (ok_choose x (name_of G x h)) as [pn Hpn]. rewrite Hpn in H.
        destruct (create G x pn p i (note_depth d st)) as [r st1] eqn:C.
        destruct (GI_create _ _ _ _ _ _ _ HP0 (choose_not_nt _ _ _ _ _ Hpn) C) as (L1 & Sx & So & Cd & Ci & Cb).
        destruct (kids_loop _ r (kids G x) 0 st1) as [[u|] st2] eqn:K; [|discriminate].
        destruct (finish G o x (name_of G x h) r st2) as [ret3 st3] eqn:Fi. inversion H; subst ret3 st3. clear H.
        assert (Hx : rk x <= rk root).
        { destruct HP0 as (_ & _ & C0 & D0). destruct (c_index (note_depth d st)) eqn:Z; [rewrite C0; auto | assert (rk x < rk root) by (apply D0; lia); lia]. }
        destruct (kids_loop_B _ x Hx (kids G x) (incl_refl _)
                    (fun e p0 j s r' s' _ Hp0 E0 => IH (S d) e p0 j None s r' s' Hp0 E0) r 0 st1 u st2 L1 K)
          as ((G2 & H2 & I2) & (R2a & R2b & R2c & R2d & R2e) & C2).
        assert (Sx2 : assoc x (c_states st2) = Some (fresh_state x r p i (S (c_index (note_depth d st))))).
        { destruct (R2a x (le_n _)) as [E _]. congruence. }
        assert (Cov : forall z, reach G x z -> named_b G z = true -> z <> x -> assoc z (c_diagrams st2) <> None).
        { intros z Hz Nz Hne. apply reach_kids in Hz as [->|(e & He & Hz)]; [congruence|]. eapply C2; eauto. }
        destruct (finish_B x (name_of G x h) r st2 (fresh_state x r p i (S (c_index (note_depth d st)))) ret st' G2 Sx2 eq_refl) as (G3 & R3 & I3 & B3 & F3); auto.
        { intros Nx. simpl. rewrite Nx. reflexivity. }
        split; auto. eapply Post_quiet_l; [exact Q0|].
        assert (Dx : forall y, y <> x -> assoc y (c_diagrams st') = assoc y (c_diagrams st2)).
        { intros y Hy. destruct (named_b G x); [destruct F3 as (_ & dd & ->); apply assoc_set_other; auto | destruct F3 as (_ & ->); auto]. }
        assert (Sy : forall y, y <> x -> assoc y (c_states st') = assoc y (c_states st2)).
        { intros y Hy. destruct (named_b G x); destruct F3 as (-> & _); [apply assoc_del_other | apply assoc_set_other]; auto. }
        assert (Dm : forall y, assoc y (c_diagrams st2) <> None -> assoc y (c_diagrams st') <> None).
        { intros y Hy. destruct (Nat.eq_dec y x) as [->|Hne]; [|rewrite Dx; auto].
          destruct (named_b G x); [destruct F3 as (_ & dd & ->); rewrite assoc_set_same; discriminate | destruct F3 as (_ & ->); auto]. }
        split; auto. split; [|split].
        * (* Rel *)
          unfold Rel. split; [|split; [|split; [|split]]].
          -- intros y Hy. assert (y <> x) by (intro; subst; lia). destruct (R2a y ltac:(lia)) as [E1 E2].
             rewrite Sy, Dx, E1, E2, So, Cd; auto.
          -- intros y s' Hy Hh. destruct (Nat.eq_dec y x) as [->|Hne].
             ++ exfalso. destruct (named_b G x) eqn:Nx; destruct F3 as (F3 & _); rewrite F3 in Hy.
                ** rewrite assoc_del_same in Hy; [discriminate|]. destruct G2 as (_ & _ & _ & S2 & _); auto.
                ** rewrite assoc_set_same in Hy. inversion Hy; subst. revert Hh. apply not_hot_complete. simpl. rewrite Nx. auto.
             ++ rewrite Sy in Hy by auto. destruct (R2b _ _ Hy Hh) as (s0 & H0 & Hh0). rewrite So in H0 by auto. eauto.
          -- intros y Hy. apply Dm, R2c. rewrite Cd. auto.
          -- lia.
          -- eapply bm_le_trans; [|exact B3]. unfold bm_le in *. intros s0 b0 E0. apply R2e. rewrite Cb. auto.
        * intros y Hy Ny. apply reach_kids in Hy as [->|(e & He & Hy)].
          -- rewrite Ny in F3. destruct F3 as (_ & dd & ->). rewrite assoc_set_same. discriminate.
          -- apply Dm. eapply C2; eauto.
        * intros Nx _. rewrite Nx in F3. destruct F3 as (-> & _). rewrite assoc_set_same. eexists; split; eauto.
          apply not_hot_complete. simpl. rewrite Nx. auto.
  Qed.

  (* ---------------------------------------------------------------------------------------------- the final state *)
  Definition FI (st : cstate) : Prop :=
    nt_ok st /\ NoDup (map fst (c_diagrams st)) /\
    (forall y d, assoc y (c_diagrams st) = Some d ->
       d_name d = cname G y /\ (named_b G y = true \/ y = root) /\ (if y =? root then d_index d = 1 else 2 <= d_index d)) /\
    assoc root (c_diagrams st) <> None.

  Lemma init_Pre : Pre root init_state.
  Proof.
    unfold Pre, GI, nt_ok, dg_ok, num_ok. simpl. repeat split; try constructor; try discriminate; auto; try (intros; discriminate).
    intros; lia.
  Qed.

  Lemma extract_root_FI : forall st pos,
    GI st -> assoc root (c_states st) = Some pos -> named_b G root = false -> es_name pos = Some [] ->
    FI (extract_into_diagram root st).
  Proof.
    intros st pos (N & (D1 & D2 & D3) & (M1 & M2) & S & J) Hp Nx Hn.
    assert (Hc : cname G root = []).
    { unfold cname, named_b in *. destruct (n_custom (gnode G root)) as [[|c t]|]; simpl in *; auto; discriminate. }
    assert (Hr : assoc root (c_diagrams st) = None).
    { destruct (assoc root (c_diagrams st)) eqn:E; auto. destruct (D2 _ _ E). congruence. }
    unfold extract_into_diagram. rewrite Hp. cbv zeta.
    set (sta := match es_parent pos with
                | Some p => let '(r, st0) := new_nonterminal (oname (es_name pos)) st in put_child st0 p (es_pidx pos) r
                | None => st end).
    set (d := {| d_name := oname (es_name pos);
                 d_content := match nth_error (c_heap sta) (es_conv pos) with
                              | Some pn => if is_group (p_func pn) then match p_slot pn with SItem v => v | _ => IVRef (es_conv pos) end
                                           else IVRef (es_conv pos)
                              | None => IVRef (es_conv pos) end;
                 d_index := es_number pos |}).
    assert (Hd0 : forall d0, assoc root (c_diagrams st) = Some d0 -> d_name d0 = d_name d) by (intros; congruence).
    assert (A : c_diagrams sta = c_diagrams st /\
                Forall (good_nt (c_bm sta) (assoc_set root d (c_diagrams st))) (c_heap sta)).
    { subst sta. destruct (es_parent pos) as [p|].
      - destruct (new_nonterminal (oname (es_name pos)) st) as [r0 st0] eqn:E.
        apply new_nonterminal_spec in E as (b & _ & Hh & Hb & Hle & Hs & Hdg & Hi).
        pose proof (put_child_only st0 p (es_pidx pos) r0) as PO. pose proof PO as (P1 & P2 & P3 & P4 & _).
        split; [congruence|].
        eapply nt_forall_only; eauto. rewrite P4, Hh. apply Forall_app. split.
        + eapply Forall_impl; [|exact N]. intros pn Hg.
          apply (good_nt_mono (c_bm st) (c_diagrams st)); [exact Hle | apply names_le_set; auto | exact Hg].
        + constructor; auto. intros t hf Et. simpl in Et. inversion Et; subst. split; eauto.
          exists root, d. rewrite assoc_set_same. auto.
      - split; auto.
        eapply Forall_impl; [|exact N]. intros pn Hg.
        apply (good_nt_mono (c_bm st) (c_diagrams st)); [auto | apply names_le_set; auto | exact Hg]. }
    destruct A as (Ad & Ah). unfold FI, nt_ok. simpl. rewrite Ad.
    split; [exact Ah|]. split; [apply assoc_set_nodup; auto|]. split; [|rewrite assoc_set_same; discriminate].
    intros y d1 H1. destruct (Nat.eq_dec root y) as [<-|Hne].
    - rewrite assoc_set_same in H1. inversion H1; subst. simpl. rewrite Hn, Hc, Nat.eqb_refl. split; auto. split; auto.
      specialize (M1 _ _ Hp). rewrite Nat.eqb_refl in M1. auto.
    - rewrite assoc_set_other in H1 by auto. destruct (D2 _ _ H1). split; auto. split; auto. apply M2; auto.
  Qed.

  Lemma GI_states_irrelevant : forall st l, GI st -> NoDup (map fst l) ->
    (forall y s, assoc y l = Some s -> (if y =? root then es_number s = 1 else 2 <= es_number s) /\
                                       (named_b G y = true -> es_name s <> None)) ->
    GI (set_states st l).
  Proof.
    intros st l (N & D & (M1 & M2) & S & J) Hl H. unfold GI, nt_ok, dg_ok, num_ok. simpl.
    split; auto. split; auto. split; [split; auto; intros; apply H; auto|]. split; auto. intros; eapply H; eauto.
  Qed.

  Lemma conv_final : forall fuel ret st1, conv G o fx fuel 1 root None 0 None init_state = (Ok ret, st1) ->
    FI (root_extract G root st1).
  Proof.
    intros fuel ret st1 H. destruct (conv_B _ _ _ _ _ _ _ _ _ init_Pre H) as [(G1 & R1 & C1 & U1) _].
    destruct (named_b G root) eqn:Nr.
    - assert (Hs : assoc root (c_states st1) = None).
      { destruct (assoc root (c_states st1)) as [s|] eqn:E; auto. exfalso.
        destruct G1 as (_ & _ & _ & _ & J). destruct R1 as (_ & R2 & _).
        destruct (R2 root s E) as (s0 & H0 & _); [left; eapply J; eauto|]. simpl in H0. discriminate. }
      unfold root_extract. rewrite Hs. destruct G1 as (N & (D1 & D2 & D3) & (M1 & M2) & S & J).
      split; auto. split; auto. split; [|apply C1; [constructor|auto]].
      intros y d Hy. destruct (D2 _ _ Hy). split; auto. split; auto. apply M2; auto.
    - destruct (U1 eq_refl Hroot) as (s & Hs & Hh).
      unfold root_extract. rewrite Hs. unfold named_b in Nr. rewrite Nr.
      unfold mark_for_extraction. simpl c_states. rewrite assoc_set_same. simpl. rewrite Nr. simpl.
      match goal with |- FI (extract_into_diagram root ?S) => set (stb := S) end.
      apply extract_root_FI with (pos := {| es_conv := es_conv s; es_parent := es_parent s; es_pidx := es_pidx s;
                                             es_number := es_number s; es_name := Some []; es_extract := true;
                                             es_complete := es_complete s |}); auto.
      + subst stb. pose proof G1 as (_ & _ & (M1 & _) & S & J).
        match goal with |- GI (set_states (set_states st1 ?a) ?b) =>
          change (set_states (set_states st1 a) b) with (set_states st1 b) end.
        apply GI_states_irrelevant; auto.
        * apply assoc_set_nodup. apply assoc_set_nodup. auto.
        * intros y s0 H0. rewrite assoc_set_twice in H0. destruct (Nat.eq_dec root y) as [<-|Hne].
          -- rewrite assoc_set_same in H0. inversion H0; subst. simpl. split; [apply (M1 _ _ Hs)|discriminate].
          -- rewrite assoc_set_other in H0 by auto. split; [apply M1; auto | intros; eapply J; eauto].
      + subst stb. simpl. apply assoc_set_same.
  Qed.
End DagInv.

(* ------------------------------------------------------------------------------------------------ the output *)
Lemma existsb_seqb_notin : forall n seen, ~ In n seen -> existsb (str_eqb n) seen = false.
Proof.
  induction seen as [|a seen IH]; simpl; intros H; auto. apply orb_false_iff. split.
  - destruct (str_eqb n a) eqn:E; auto. apply seqb_eq in E. subst. exfalso; apply H; auto.
  - apply IH. intro; apply H; auto.
Qed.

Lemma dedup_id : forall ds seen, NoDup (map d_name ds) ->
  (forall d, In d ds -> d_name d <> ELLIPSIS /\ ~ In (d_name d) seen) -> dedup seen ds = ds.
Proof.
  induction ds as [|d ds IH]; simpl; intros seen N H; auto. inversion N as [|? ? Nin N']; subst.
  destruct (H d (or_introl eq_refl)) as [H1 H2].
  destruct (str_eqb (d_name d) ELLIPSIS) eqn:E; [apply seqb_eq in E; contradiction|].
  rewrite existsb_seqb_notin by auto. f_equal. apply IH; auto.
  intros d' Hd'. destruct (H d' (or_intror Hd')) as [A B]. split; auto. intros [C|C]; [|auto].
  apply Nin. rewrite C. apply in_map; auto.
Qed.

Lemma select_perm : forall ds, NoDup (map d_name ds) -> (forall d, In d ds -> d_name d <> ELLIPSIS) ->
  Permutation (select ds) ds.
Proof.
  intros ds N H. unfold select. eapply Permutation_trans; [apply sort_by_index_perm|].
  destruct ds as [|a [|b t]]; auto. rewrite dedup_id; auto.
Qed.

Lemma make_bookmark_heap : forall s st b st', make_bookmark s st = (b, st') -> c_heap st' = c_heap st.
Proof. intros s st b st' H. unfold make_bookmark in H. destruct (str_assoc s (c_bm st)); inversion H; subst; auto. Qed.

Lemma emit_items : forall ds st out st', emit ds st = (out, st') ->
  forall od, In od out -> exists d, In d ds /\ od_name od = d_name d /\ od_index od = d_index d /\
                                    od_item od = resolve_ival (c_heap st) (d_content d).
Proof.
  induction ds as [|d ds IH]; simpl; intros st out st' H od Hin.
  - inversion H; subst. contradiction.
  - destruct (make_bookmark (d_name d) st) as [b st1] eqn:M. destruct (emit ds st1) as [out1 st2] eqn:E.
    inversion H; subst. destruct Hin as [<-|Hin].
    + exists d. simpl. auto.
    + destruct (IH _ _ _ E _ Hin) as (d' & A & B & C & D). exists d'. rewrite (make_bookmark_heap _ _ _ _ M) in D. auto.
Qed.

Lemma resolve_nts : forall f h r t hf, In (t, hf) (item_nts (resolve f h r)) ->
  exists q pn, nth_error h q = Some pn /\ p_func pn = FNonTerminal t hf.
Proof.
  induction f as [|f IH]; intros h r t hf H; [simpl in H; contradiction|].
  cbn [resolve] in H. destruct (nth_error h r) as [pn|] eqn:E; [|simpl in H; contradiction].
  cbn [item_nts] in H. apply in_app_or in H as [H|H].
  - destruct (p_func pn) eqn:F; simpl in H; try contradiction. destruct H as [H|[]]. inversion H; subst. eauto.
  - apply in_flat_map in H as (c & Hc & Ht). destruct (p_slot pn) as [|v|l]; simpl in Hc; try contradiction.
    + destruct v; simpl in Hc; destruct Hc as [<-|[]]; simpl in Ht; try contradiction. eapply IH; eauto.
    + apply in_map_iff in Hc as (oc & <- & _). destruct oc; simpl in Ht; [eapply IH; eauto|contradiction].
Qed.

Lemma in_assoc_nodup : forall A (l : list (nat * A)) k v, NoDup (map fst l) -> In (k, v) l -> assoc k l = Some v.
Proof.
  induction l as [|[k2 v2] t IH]; simpl; intros k v N H; [contradiction|]. inversion N; subst.
  destruct H as [H|H].
  - inversion H; subst. now rewrite Nat.eqb_refl.
  - destruct (k =? k2) eqn:E; [|auto]. apply Nat.eqb_eq in E; subst. exfalso. apply H2.
    apply (in_map fst) in H. auto.
Qed.

Lemma nodup_names : forall (l : list (id * dentry)), NoDup (map fst l) ->
  (forall y d y' d', In (y, d) l -> In (y', d') l -> d_name d = d_name d' -> y = y') ->
  NoDup (map d_name (map snd l)).
Proof.
  induction l as [|[k v] t IH]; simpl; intros N H; [constructor|]. inversion N; subst. constructor.
  - intros C. apply in_map_iff in C as (d' & E & C). apply in_map_iff in C as ([k' d''] & E' & C). simpl in E'; subst d''.
    assert (k = k') by (eapply H; [left; reflexivity | right; exact C | auto]). subst. apply H2.
    apply (in_map fst) in C. auto.
  - apply IH; auto. intros. eapply H; eauto.
Qed.

Lemma NoDup_map_inj : forall A B (f : A -> B) l a b, NoDup (map f l) -> In a l -> In b l -> f a = f b -> a = b.
Proof.
  induction l as [|x l IH]; simpl; intros a b N Ha Hb E; [contradiction|]. inversion N; subst.
  destruct Ha as [->|Ha], Hb as [->|Hb]; auto.
  - exfalso. apply H1. rewrite E. apply in_map; auto.
  - exfalso. apply H1. rewrite <- E. apply in_map; auto.
Qed.

Lemma named_cname : forall G y, named_b G y = true -> cname G y <> [].
Proof. intros G y H. unfold named_b, cname in *. destruct (n_custom (gnode G y)) as [[|c t]|]; simpl in *; congruence. Qed.
Lemma unnamed_cname : forall G y, named_b G y = false -> cname G y = [].
Proof. intros G y H. unfold named_b, cname in *. destruct (n_custom (gnode G y)) as [[|c t]|]; simpl in *; congruence. Qed.

Section DagOutput.
  Variable G : graph.
  Variable o : opts.
  Variable fx : bool.
  Variable root : id.
  Hypothesis Hcls : dag_class G o root = true.

  Lemma class_parts : dag_b G = true /\ (forall x, node_ok G o x = true) /\
    (forall x y, named_b G x = true -> named_b G y = true -> cname G x = cname G y -> x = y) /\ bypass G root = false.
  Proof.
    pose proof Hcls as Hc. unfold dag_class in Hc. apply andb_true_iff in Hc as [Hc H4].
    apply andb_true_iff in Hc as [Hc H3]. apply andb_true_iff in Hc as [H1 H2].
    split; auto. split; [apply node_ok_all; auto|]. split; [apply names_inj; auto|]. apply negb_true_iff; auto.
  Qed.

  (* the shape of every successful run on a graph of the class *)
  Lemma dag_output : forall fuel out st, to_railroad G o fx root fuel = (Ok out, st) ->
    exists st2 ds, FI G root st2 /\ Permutation ds (map snd (c_diagrams st2)) /\ sorted_idx ds /\
                   NoDup (map d_name ds) /\ emit ds st2 = (out, st).
  Proof.
    intros fuel out st H. destruct class_parts as (Hd & Hok & Hinj & Hr).
    unfold to_railroad, to_railroad_from in H.
    destruct (conv G o fx fuel 1 root None 0 None init_state) as [[ret|] st1] eqn:C; [|discriminate].
    pose proof (conv_final G o fx root (rkf G) (ranks_edge G Hd) Hok Hr _ _ _ C) as F.
    destruct (emit _ (root_extract G root st1)) as [out' st'] eqn:E. inversion H; subst out' st'.
    exists (root_extract G root st1), (select (map snd (c_diagrams (root_extract G root st1)))).
    destruct F as (N & K & D & R).
    assert (Nn : NoDup (map d_name (map snd (c_diagrams (root_extract G root st1))))).
    { apply nodup_names; auto. intros y d y' d' Hy Hy' En.
      apply in_assoc_nodup in Hy, Hy'; auto. destruct (D _ _ Hy) as (E1 & T1 & _). destruct (D _ _ Hy') as (E2 & T2 & _).
      assert (Ec : cname G y = cname G y') by congruence.
      destruct (named_b G y) eqn:N1, (named_b G y') eqn:N2; auto.
      - destruct T2 as [T2|T2]; [congruence|]. apply named_cname in N1. apply unnamed_cname in N2. congruence.
      - destruct T1 as [T1|T1]; [congruence|]. apply named_cname in N2. apply unnamed_cname in N1. congruence.
      - destruct T1 as [T1|T1]; [congruence|]. destruct T2 as [T2|T2]; [congruence|]. congruence. }
    assert (Ne : forall d, In d (map snd (c_diagrams (root_extract G root st1))) -> d_name d <> ELLIPSIS).
    { intros d Hd0. apply in_snd_assoc in Hd0 as [y Hy]; auto. destruct (D _ _ Hy) as (E1 & _). rewrite E1.
      pose proof (Hok y) as Hy0. unfold node_ok in Hy0. apply andb_true_iff in Hy0 as [_ Hy0]. apply negb_true_iff in Hy0.
      intros C0. rewrite C0, seqb_refl in Hy0. discriminate. }
    pose proof (select_perm _ Nn Ne) as P.
    split; [split; auto|]. split; auto. split; [apply sort_by_index_sorted|]. split; auto.
    eapply Permutation_NoDup; [apply Permutation_map; apply Permutation_sym; exact P | exact Nn].
  Qed.

  Theorem dag_links_resolve : forall fuel out st, to_railroad G o fx root fuel = (Ok out, st) ->
    forall od t hf, In od out -> In (t, hf) (item_nts (od_item od)) ->
      exists od', In od' out /\ od_name od' = t /\ hf = 35%N :: od_bookmark od' /\
                  forall od'', In od'' out -> hf = 35%N :: od_bookmark od'' -> od'' = od'.
  Proof.
    intros fuel out st H od t hf Hod Hnt.
    pose proof (bookmarks_distinct _ _ _ _ _ _ _ _ init_bm_ok H) as NB.
    destruct (dag_output _ _ _ H) as (st2 & ds & (N & K & D & R) & P & _ & Nn & E).
    destruct (emit_items _ _ _ _ E _ Hod) as (d & Hd & _ & _ & Hi).
    assert (Hq : exists q pn, nth_error (c_heap st2) q = Some pn /\ p_func pn = FNonTerminal t hf).
    { rewrite Hi in Hnt. unfold resolve_ival in Hnt. destruct (d_content d) as [| |r0]; [simpl in Hnt; contradiction|simpl in Hnt; contradiction|].
      exact (resolve_nts _ _ _ _ _ Hnt). }
    destruct Hq as (q & pn & Hq & Hf). apply nth_error_In in Hq. unfold nt_ok in N. rewrite Forall_forall in N.
    destruct (N _ Hq _ _ Hf) as [(b & -> & Hb) (y & dy & Hy & Hn)].
    destruct (emit_facts _ _ _ _ E) as ((_ & Le) & En & Eb).
    assert (Hin : In t (map od_name out)).
    { rewrite En. apply in_map_iff. exists dy. split; auto. eapply Permutation_in; [apply Permutation_sym; exact P|].
      eapply assoc_some_in_snd; eauto. }
    apply in_map_iff in Hin as (od' & Hn' & Hod'). exists od'. split; auto. split; auto.
    assert (Hb' : od_bookmark od' = b).
    { specialize (Eb _ Hod'). rewrite Hn' in Eb. apply Le in Hb. congruence. }
    split; [congruence|]. intros od'' Ho'' Eq. inversion Eq. eapply NoDup_map_inj; eauto. congruence.
  Qed.

  Theorem dag_root_first : forall fuel out st, to_railroad G o fx root fuel = (Ok out, st) ->
    exists od rest, out = od :: rest /\ od_index od = 1 /\ od_name od = cname G root /\
                    forall e, In e rest -> 2 <= od_index e.
  Proof.
    intros fuel out st H.
    destruct (dag_output _ _ _ H) as (st2 & ds & (N & K & D & R) & P & Srt & Nn & E).
    destruct (assoc root (c_diagrams st2)) as [dr|] eqn:Hr; [|congruence]. clear R.
    assert (Hdr : In dr ds).
    { eapply Permutation_in; [apply Permutation_sym; exact P|]. eapply assoc_some_in_snd; eauto. }
    assert (Key : forall d, In d ds -> d = dr \/ 2 <= d_index d).
    { intros d Hd. eapply Permutation_in in Hd; [|exact P]. apply in_snd_assoc in Hd as [y Hy]; auto.
      destruct (D _ _ Hy) as (_ & _ & I). destruct (y =? root) eqn:Ey; [|auto].
      apply Nat.eqb_eq in Ey; subst. left. congruence. }
    assert (Ir : d_index dr = 1) by (destruct (D _ _ Hr) as (_ & _ & I); rewrite Nat.eqb_refl in I; auto).
    assert (Nr : d_name dr = cname G root) by (destruct (D _ _ Hr) as (I & _); auto).
    destruct ds as [|d0 t]; [contradiction|].
    assert (H0 : d0 = dr).
    { destruct (Key d0 (or_introl eq_refl)) as [|Hge]; auto. destruct Hdr as [|Hdr]; auto.
      pose proof (sorted_head_min _ _ Srt _ Hdr). lia. }
    subst d0. simpl in E. destruct (make_bookmark (d_name dr) st2) as [b st3] eqn:M.
    destruct (emit t st3) as [out1 st4] eqn:E1. inversion E; subst. eexists; eexists. split; [reflexivity|].
    simpl. split; auto. split; auto. intros e He.
    destruct (emit_items _ _ _ _ E1 _ He) as (d & Hd & En & Ei & _). rewrite Ei.
    destruct (Key d (or_intror Hd)) as [Hk|Hk]; auto. subst d. exfalso. simpl in Nn. inversion Nn; subst. apply H2. apply in_map; auto.
  Qed.
End DagOutput.
