(* C01: the element semantics (Model/Core.v `step`, run by `parse`) agrees with the reference PEG reading
   (Model/Peg.v) on every grammar of `in_class`, every input, every location, every fuel. *)
From Coq Require Import List ZArith NArith Bool Arith Lia.
From PP Require Import Model.Str Model.Results Model.Prog Model.Core Model.Peg Proofs.EachFacts Proofs.EachPeg Proofs.OrCombineFacts.
Import ListNotations.

(* ------------------------------------------------------------------------------------------- *)
(* whitespace skipping is idempotent                                                            *)
(* ------------------------------------------------------------------------------------------- *)
Section Skip.
Variable s : str. Variable p : char -> bool.

Definition stopped (r : nat) : Prop :=
  length s <= r \/ exists c, at_ s r = Some c /\ p c = false.

Lemma run_while_stop fuel : forall loc, length s <= loc + fuel -> stopped (run_while fuel s loc (length s) p).
Proof.
  induction fuel as [|f IH]; intros loc H; simpl.
  - left. lia.
  - destruct (Nat.ltb loc (length s)) eqn:L.
    + apply Nat.ltb_lt in L. unfold at_. destruct (nth_error s loc) as [c|] eqn:E.
      * destruct (p c) eqn:P; [apply IH; lia | right; exists c; unfold at_; auto].
      * apply nth_error_None in E. lia.
    + apply Nat.ltb_ge in L. left. exact L.
Qed.

Lemma run_while_at_stop fuel r : stopped r -> run_while fuel s r (length s) p = r.
Proof.
  intros [H|[c [E P]]]; destruct fuel; simpl; try reflexivity.
  - assert (Nat.ltb r (length s) = false) as -> by (apply Nat.ltb_ge; lia). reflexivity.
  - destruct (Nat.ltb r (length s)); [|reflexivity]. rewrite E, P. reflexivity.
Qed.
End Skip.

Lemma skip_white_idem s loc w : skip_white s (skip_white s loc w) w = skip_white s loc w.
Proof. unfold skip_white. apply run_while_at_stop. apply run_while_stop. lia. Qed.

Lemma str_eqb_eq : forall a b : str, str_eqb a b = true -> a = b.
Proof.
  induction a as [|x a IH]; intros [|y b] H; simpl in H; try discriminate; [reflexivity|].
  apply andb_prop in H as [H1 H2]. apply N.eqb_eq in H1. subst. f_equal. apply IH. exact H2.
Qed.

(* ------------------------------------------------------------------------------------------- *)
(* token-list view of the results operations                                                     *)
(* ------------------------------------------------------------------------------------------- *)
Lemma toks_setname r k v p : toks (pr_setname r k v p) = toks r.
Proof. reflexivity. Qed.

Lemma toks_fold_setname (items : list (str * tok * Z)) : forall r,
  toks (fold_left (fun acc kvp => match kvp with (k, v, p) => pr_setname acc k v p end) items r) = toks r.
Proof. induction items as [|[[k v] p] items IH]; intros r; simpl; [reflexivity|]. rewrite IH. reflexivity. Qed.

Lemma toks_iadd a b : toks (pr_iadd a b) = toks a ++ toks b.
Proof.
  unfold pr_iadd. destruct (negb (pr_bool b)) eqn:E.
  - unfold pr_bool in E. destruct (toks b); [rewrite app_nil_r; reflexivity|]. simpl in E. discriminate.
  - simpl. rewrite toks_fold_setname. reflexivity.
Qed.

Lemma as_list_iadd a b : pr_as_list (pr_iadd a b) = pr_as_list a ++ pr_as_list b.
Proof. unfold pr_as_list. rewrite toks_iadd, map_app. reflexivity. Qed.

Lemma as_list_init_noname x asl m : pr_as_list (pr_init x None asl m) = raw_tokens x.
Proof. reflexivity. Qed.

Lemma as_list_del_all r : pr_as_list (pr_del_all r) = [].
Proof. reflexivity. Qed.

(* ------------------------------------------------------------------------------------------- *)
(* facts about token implementations                                                            *)
(* ------------------------------------------------------------------------------------------- *)
Lemma at_none s i : at_ s i = None -> length s <= i.
Proof. unfold at_. apply nth_error_None. Qed.
Lemma at_some s i c : at_ s i = Some c -> i < length s.
Proof. unfold at_. intros H. apply nth_error_Some. congruence. Qed.

Ltac brk :=
  repeat match goal with
         | |- context [match ?x with _ => _ end] => destruct x eqn:?
         | |- context [if ?x then _ else _] => destruct x eqn:?
         end.

Lemma tok_impl_exc_kind a t s l x : tok_in_class t = true -> tok_impl a t s l = IExc x -> xk x = XParse.
Proof.
  intros Hc. destruct t; try discriminate Hc; unfold tok_impl, pexc, pexc_sfx; cbv zeta;
    brk; intros H; try discriminate H; injection H as <-; reflexivity.
Qed.

Lemma tok_impl_index a t s l : tok_in_class t = true -> tok_impl a t s l = IIndexError -> length s <= l.
Proof.
  intros Hc. destruct t; try discriminate Hc; unfold tok_impl, pexc, pexc_sfx; cbv zeta;
    brk; intros H; try discriminate H;
    repeat match goal with
           | E : context [match ?x with _ => _ end] |- _ => destruct x eqn:?; try discriminate E
           | E : context [if ?x then _ else _] |- _ => destruct x eqn:?; try discriminate E
           end;
    repeat match goal with
           | E : at_ _ _ = None |- _ => apply at_none in E
           | E : at_ _ _ = Some _ |- _ => apply at_some in E
           | E : (_ <? _)%nat = true |- _ => apply Nat.ltb_lt in E
           | E : (_ <? _)%nat = false |- _ => apply Nat.ltb_ge in E
           | E : (_ && _) = true |- _ => apply andb_prop in E; destruct E
           | E : (_ <=? _)%Z = false |- _ => apply Z.leb_gt in E
           end; try lia.
Qed.

(* ------------------------------------------------------------------------------------------- *)
(* the equivalence                                                                              *)
(* ------------------------------------------------------------------------------------------- *)
(* what Each's initExprGroups derives from operands of the class stays in the class *)
Lemma in_class_rep_operand G a i z b ne : in_class G (Rep a i z b ne) = true ->
  in_class G (snd (rep_operand (Rep a i z b ne) b)) = true.
Proof.
  intros H. simpl in H. apply andb_prop in H as [H _].
  apply andb_prop in H as [H Hb]. apply andb_prop in H as [Hp _].
  unfold rep_operand. cbn [attrs_of]. unfold plain_attrs in Hp.
  destruct (acts a); [|discriminate]. destruct (rsname a); [discriminate|]. exact Hb.
Qed.
Lemma in_class_opt_body G a i dflt b : in_class G (Enh a i (EOpt dflt) b) = true -> in_class G b = true.
Proof. intros H. simpl in H. apply andb_prop in H as [H _]. apply andb_prop in H as [_ H]. exact H. Qed.

Section Equiv.
Variable G : env.
Variable s : str.
Hypothesis HG : env_in_class G = true.

Notation pparse := (parse (step G)).
Notation ppeg := (peg G s).

Definition stable (e : expr) (loc : nat) : Prop := eff s e loc = loc.
Definition good (o : option outcome) (r : res) : Prop := proj o = Some r.

Lemma eff_stable e loc : stable e (eff s e loc).
Proof. unfold stable, eff. destruct (callpre (attrs_of e) && skipws (attrs_of e)); [apply skip_white_idem|reflexivity]. Qed.

Lemma stable_child e c loc : child_ok (attrs_of e) c = true -> stable c (eff s e loc).
Proof.
  unfold child_ok, stable, eff. intros H.
  destruct (callpre (attrs_of c) && skipws (attrs_of c)) eqn:Ec; [|reflexivity].
  simpl in H. apply andb_prop in H as [H1 H2]. rewrite H1. apply str_eqb_eq in H2. rewrite <- H2.
  apply skip_white_idem.
Qed.

Definition inv (f : nat) : Prop := forall e, in_class G e = true -> forall loc d,
  good (pparse f (mkargs e s loc d true)) (ppeg f e loc) /\
  (stable e loc -> good (pparse f (mkargs e s loc d false)) (ppeg f e loc)).

(* a call WITHOUT pre-parse at ANY location (how SkipTo calls its target): the reading of `nopre e` *)
Definition invnp (f : nat) : Prop := forall e, in_class G e = true -> np_ok G e = true -> forall loc d,
  good (pparse f (mkargs e s loc d false)) (ppeg f (nopre e) loc).

(* one level of the reading, at the location reached after the element's own whitespace skip (a copy of the body of `peg`) *)
Definition peg_at (f : nat) (e : expr) (loc : nat) : res :=
  let a := attrs_of e in
  match e with
  | Tok _ _ t =>
    match tok_impl a t s loc with
    | IOk l r => POk l (raw_tokens r)
    | _ => PFail
    end
  | Nary _ _ NAnd es => peg_seq (ppeg f) es loc []
  | Nary _ _ NMatchFirst es => peg_first (ppeg f) es loc
  | Nary _ _ NOr es =>
    let loc1 := if forallb (fun c => callpre (attrs_of c)) es
                then (if skipws a then skip_white s loc (white a) else loc) else loc in
    peg_longest (ppeg f) es loc1 None
  | Nary _ _ (NEach info) es => peg_each s (ppeg f) es info loc
  | Enh _ _ (EOpt d) c =>
    match ppeg f c loc with
    | PFail => POk loc (match d with Some v => [tok_as_list v] | None => [] end)
    | r => r
    end
  | Enh _ _ ENot c => match ppeg f c loc with POk _ _ => PFail | PFail => POk loc [] | r => r end
  | Enh _ _ EFollowedBy c => match ppeg f c loc with POk _ _ => POk loc [] | r => r end
  | Enh _ _ ELookahead c => match ppeg f c loc with POk _ _ => POk loc [] | r => r end
  | Enh _ _ (EGroup false) c => match ppeg f c loc with POk l ts => POk l [TList ts] | r => r end
  | Enh _ _ ESuppress c => match ppeg f c loc with POk l _ => POk l [] | r => r end
  | Enh _ _ EPass c => ppeg f c loc
  | Enh _ _ (ECombine join) c =>
    match ppeg f c loc with
    | POk l ts => POk l [TStr (concat (join_strings join ts))]
    | r => r
    end
  | Rep _ _ zero body (Some ne) =>
    match ppeg f ne loc with
    | PFail => if zero then POk loc [] else PFail
    | POk _ _ =>
      match ppeg f body loc with
      | POk l ts => peg_star_stop (ppeg f) (length s + 3) body ne l ts
      | PFail => if zero then POk loc [] else PFail
      | r => r
      end
    | r => r
    end
  | Rep _ _ zero body None =>
    match ppeg f body loc with
    | POk l ts => peg_star (ppeg f) (length s + 3) body l ts
    | PFail => if zero then POk loc [] else PFail
    | r => r
    end
  | Skip _ _ target incl [] failon =>
    match peg_skip_scan s (ppeg f) (length s + 2) target failon loc with
    | POk tl _ =>
      if incl then match ppeg f (nopre target) tl with
                   | POk l ts => POk l (TStr (slice_ s loc tl) :: ts)
                   | r => r
                   end
      else POk tl [TStr (slice_ s loc tl)]
    | r => r
    end
  | Fwd _ _ (Some id) => match nth_error G id with Some c => ppeg f c loc | None => PFail end
  | _ => PFail
  end.

Lemma peg_S f e loc0 : ppeg (S f) e loc0 = peg_at f e (eff s e loc0).
Proof. reflexivity. Qed.

Lemma eff_nopre e L : eff s (nopre e) L = L.
Proof. unfold eff. destruct e; reflexivity. Qed.

Lemma tok_impl_nopre a t l : tok_impl (nopre_attrs a) t s l = tok_impl a t s l.
Proof. destruct t; reflexivity. Qed.

Lemma peg_at_nopre f e L : peg_at f (nopre e) L = peg_at f e L.
Proof.
  destruct e as [a i t|a i k es|a i k c|a i z b ne|a i c inc ig fo|a i id]; reflexivity.
Qed.

Definition head_ok (e : expr) (L : nat) : Prop := forall c, head_child G e = Some c -> stable c L.

Lemma nonskip_stable c L : nonskip c = true -> stable c L.
Proof.
  unfold nonskip, stable, eff. destruct (callpre (attrs_of c) && skipws (attrs_of c)); [discriminate|reflexivity].
Qed.

Lemma in_class_head e c : in_class G e = true -> head_child G e = Some c -> child_ok (attrs_of e) c = true.
Proof.
  destruct e as [a i t|a i k es|a i k c0|a i z b ne|a i c0 inc ig fo|a i id]; cbn [head_child attrs_of]; intros H Hh;
    try discriminate Hh.
  - destruct k; try discriminate Hh. destruct es as [|c1 rest]; [discriminate Hh|]. injection Hh as <-.
    simpl in H. apply andb_prop in H as [H _]. apply andb_prop in H as [_ H]. exact H.
  - simpl in H. apply andb_prop in H as [_ Hk].
    destruct k; try discriminate Hk; try discriminate Hh; injection Hh as <-;
      first [ exact Hk | destruct aspy; [discriminate Hk|exact Hk] | apply andb_prop in Hk as [Hk _]; exact Hk ].
  - destruct id as [id|]; [|discriminate Hh]. simpl in H. apply andb_prop in H as [_ H]. rewrite Hh in H. exact H.
Qed.

(* plain attributes: no actions, no name, no ignorables *)
Lemma in_class_plain e : in_class G e = true -> plain_attrs (attrs_of e) = true /\ ign_of e = [].
Proof.
  destruct e as [a i t|a i k es|a i k c|a i z b ne|a i c inc ig fo|a i id]; simpl; intros H;
    try discriminate H.
  - apply andb_prop in H as [H _]. apply andb_prop in H as [H1 H2]. destruct i; [auto|discriminate].
  - destruct k; try discriminate H.
    + repeat (apply andb_prop in H as [H ?]). destruct i; [auto|discriminate].
    + repeat (apply andb_prop in H as [H ?]). destruct i; [auto|discriminate].
    + repeat (apply andb_prop in H as [H ?]). destruct i; [auto|discriminate].
    + repeat (apply andb_prop in H as [H ?]). destruct i; [auto|discriminate].
  - repeat (apply andb_prop in H as [H ?]). destruct i; [auto|discriminate].
  - repeat (apply andb_prop in H as [H ?]). destruct i; [auto|discriminate].
  - destruct ig; [|discriminate H]. destruct fo; [discriminate H|].
    repeat (apply andb_prop in H as [H ?]). destruct i; [auto|discriminate].
  - destruct id; [|discriminate H]. repeat (apply andb_prop in H as [H ?]). destruct i; [auto|discriminate].
Qed.

Lemma plain_inv a : plain_attrs a = true -> acts a = [] /\ rsname a = None.
Proof. unfold plain_attrs. destruct (acts a); destruct (rsname a); try discriminate; auto. Qed.

Lemma skip_ignorables_nil fail n loc k : skip_ignorables fail n [] s loc k = k loc.
Proof. destruct n; reflexivity. Qed.

Lemma pre_parse_plain fail e loc k : in_class G e = true ->
  pre_parse fail e s loc k = k (if skipws (attrs_of e) then skip_white s loc (white (attrs_of e)) else loc).
Proof.
  intros H. destruct (in_class_plain e H) as [_ Hi].
  destruct e as [a i t|a i kk es|a i kk c|a i z b ne|a i c inc ig fo|a i id]; simpl in *; subst i; try reflexivity.
  all: try (unfold pre_parse; cbn [ign_of attrs_of]; rewrite skip_ignorables_nil; reflexivity).
  destruct t; simpl in H; rewrite ?andb_false_r in H; try discriminate H;
    unfold pre_parse; cbn [ign_of attrs_of]; rewrite skip_ignorables_nil; reflexivity.
Qed.

Lemma finish_plain e d pl l r : in_class G e = true ->
  finish e d pl l r = Ret (Ok l (pr_init (post_parse e r) None (aslist (attrs_of e)) (modalr (attrs_of e)))).
Proof.
  intros H. destruct (in_class_plain e H) as [Hp _]. destruct (plain_inv _ Hp) as [Ha Hn].
  unfold finish. rewrite Ha, Hn. reflexivity.
Qed.

Lemma step_plain e loc d pre : in_class G e = true ->
  step G (mkargs e s loc d pre) =
  let L := if pre then eff s e loc else loc in
  impl G e s L d (step_k e s d L).
Proof.
  intros H. unfold step. cbn [a_e a_s a_do a_pre a_loc mkargs]. unfold eff.
  destruct pre; cbn [andb].
  - destruct (callpre (attrs_of e)); cbn [andb]; [|reflexivity].
    rewrite pre_parse_plain by exact H. reflexivity.
  - reflexivity.
Qed.

Lemma good_pe_fail x r : good (Some (Err x)) r -> is_pe (xk x) = true /\ r = PFail.
Proof. unfold good, proj. destruct (is_pe (xk x)); [intros [= <-]; auto|discriminate]. Qed.

Lemma is_pe_not_index k : is_pe k = true -> is_index k = false.
Proof. destruct k; simpl; congruence. Qed.
Lemma is_pe_not_fatal k : is_pe k = true -> is_fatal k = false.
Proof. destruct k; simpl; congruence. Qed.
Lemma is_pe_kind k : is_pe k = true -> k = XParse.
Proof. destruct k; simpl; congruence. Qed.

Section Level.
Variable f : nat.
Hypothesis IH : inv f.
Hypothesis IHnp : invnp f.

(* failing out of a container with a ParseException *)
Lemma fail_pe e d L x : is_pe (xk x) = true ->
  run (pparse f) (fail_of (step_k e s d L) x) = Some (Err x).
Proof. intros H. unfold fail_of, step_k. rewrite (is_pe_not_index _ H). reflexivity. Qed.

Lemma not_errorstop c : in_class G c = true ->
  match c with Tok _ _ KErrorStop => False | _ => True end.
Proof.
  destruct c as [a i t| | | | |]; try exact (fun _ => I). destruct t; try exact (fun _ => I).
  simpl. intros H. repeat (apply andb_prop in H as [H ?]). discriminate.
Qed.

Lemma and_go_ok e d L a0 : in_class G e = true ->
  (forall l acc, run (pparse f) (step_k e s d L (inr (l, RPR acc))) = Some (Ok l (PR (toks acc) (dict acc) (allnames acc) (rname acc) (modalr (attrs_of e))))) ->
  forall rest,
  (fix all (l : list expr) : bool := match l with [] => true | x :: r => in_class G x && all r end) rest = true ->
  forall loc acc,
  good (run (pparse f) (and_go (step_k e s d L) a0 s d rest loc acc false)) (peg_seq (ppeg f) rest loc (pr_as_list acc)).
Proof.
  intros He HK. induction rest as [|c rest IHr]; intros Hall loc acc.
  - cbn [and_go peg_seq]. rewrite HK. reflexivity.
  - apply andb_prop in Hall as [Hc Hall].
    pose proof (not_errorstop c Hc) as NE.
    assert (and_go (step_k e s d L) a0 s d (c :: rest) loc acc false =
            call c s loc d true (fun o =>
              match o with
              | Ok loc' r => and_go (step_k e s d L) a0 s d rest loc' (pr_iadd acc r) false
              | Div => Ret Div
              | Err x => fail_of (step_k e s d L) x
              end)) as ->.
    { destruct c as [a i t| | | | |]; try reflexivity. destruct t; try reflexivity. contradiction. }
    unfold call. cbn [run peg_seq].
    destruct (IH c Hc loc d) as [H1 _]. unfold good in H1.
    destruct (pparse f (mkargs c s loc d true)) as [[l r|x|]|]; simpl in H1.
    + injection H1 as <-. rewrite <- as_list_iadd. apply IHr. exact Hall.
    + destruct (is_pe (xk x)) eqn:K; [|discriminate]. injection H1 as <-.
      rewrite fail_pe by exact K. unfold good. simpl. rewrite K. reflexivity.
    + injection H1 as <-. reflexivity.
    + injection H1 as <-. reflexivity.
Qed.

Lemma all_in l c :
  (fix all (l : list expr) : bool := match l with [] => true | x :: r => in_class G x && all r end) l = true ->
  In c l -> in_class G c = true.
Proof.
  induction l as [|x l IHl]; intros H [].
  - subst. apply andb_prop in H as [H _]. exact H.
  - apply andb_prop in H as [_ H]. apply IHl; assumption.
Qed.

Lemma mf_go_ok e d L : in_class G e = true ->
  (forall l acc, run (pparse f) (step_k e s d L (inr (l, RPR acc))) = Some (Ok l (PR (toks acc) (dict acc) (allnames acc) (rname acc) (modalr (attrs_of e))))) ->
  forall es,
  (fix all (l : list expr) : bool := match l with [] => true | x :: r => in_class G x && all r end) es = true ->
  forall best, (match best with Some b => is_pe (xk b) = true | None => True end) ->
  good (run (pparse f) (mf_go (step_k e s d L) e s L d es best)) (peg_first (ppeg f) es L).
Proof.
  intros He HK. induction es as [|c rest IHr]; intros Hall best Hb.
  - cbn [mf_go peg_first]. unfold alt_fail. destruct best as [b|].
    + rewrite pre_parse_plain by exact He.
      match goal with |- context [fail_of _ ?X] => set (bx := X) end.
      assert (is_pe (xk bx) = true) as Kb.
      { unfold bx. destruct (xloc b =? _)%Z; [exact Hb|exact Hb]. }
      rewrite fail_pe by exact Kb. unfold good. simpl. rewrite Kb. reflexivity.
    + rewrite fail_pe by reflexivity. reflexivity.
  - apply andb_prop in Hall as [Hc Hall]. cbn [mf_go peg_first]. unfold call. cbn [run].
    destruct (IH c Hc L d) as [H1 _]. unfold good in H1.
    destruct (pparse f (mkargs c s L d true)) as [[l r|x|]|]; simpl in H1.
    + injection H1 as <-. rewrite HK. reflexivity.
    + destruct (is_pe (xk x)) eqn:K; [|discriminate]. injection H1 as <-.
      rewrite (is_pe_not_fatal _ K). rewrite ?K. apply IHr; [exact Hall|].
      unfold better. destruct best as [b|]; [destruct (xloc b <? xloc x)%Z|]; assumption.
    + injection H1 as <-. reflexivity.
    + injection H1 as <-. reflexivity.
Qed.

(* ---- Or ('^') ----
   First pass: every alternative is tried (try_parse, do_actions = False) and the successes are collected as (end, alt).
   In the class no alternative raises anything but a ParseException, so `fatals` stays empty.  `or_rel` ties the list of
   matches to the state of the reading's `peg_longest`: the head of the stably sorted list is the reading's current best
   (the leftmost alternative of greatest end).  Second pass: the head is parsed again by the very same call (do_actions =
   False), or with do_actions = True, where the induction hypothesis gives the same end and tokens (no actions in the
   class), so `or_go2` returns at its first iteration. *)
Definition or_k (e : expr) (d : bool) (L L1 : nat) : list (nat * expr) -> list (exn * nat) -> option exn -> prg :=
  fun matches fatals best =>
    let tail (best : option exn) : prg :=
      match pick_fatal fatals with
      | Some fx => fail_of (step_k e s d L) fx
      | None => alt_fail (fail_of (step_k e s d L)) e s L1 best
      end in
    match matches with
    | [] => tail best
    | _ =>
      let sorted := sort_desc (fun p => Z.of_nat (fst p)) matches in
      if negb d then
        match sorted with
        | (_, c) :: _ => call c s L1 false true (fun o => match o with Ok l r => step_k e s d L (inr (l, RPR r)) | _ => failo_of (step_k e s d L) o end)
        | [] => tail best
        end
      else or_go2 (step_k e s d L) tail s L1 sorted None best
    end.

Definition or_rel (L1 : nat) (matches : list (nat * expr)) (pb : option (nat * list tok)) : Prop :=
  match pb with
  | None => matches = []
  | Some (l, ts) => exists c rest, sort_desc (fun p => Z.of_nat (fst p)) matches = (l, c) :: rest /\
                                   in_class G c = true /\ ppeg f c L1 = POk l ts
  end.

Definition best_pe (best : option exn) : Prop := match best with Some b => is_pe (xk b) = true | None => True end.

Lemma alt_fail_ok e d L L1 best : in_class G e = true -> best_pe best ->
  good (run (pparse f) (alt_fail (fail_of (step_k e s d L)) e s L1 best)) PFail.
Proof.
  intros He Hb. unfold alt_fail. destruct best as [b|].
  - rewrite pre_parse_plain by exact He.
    match goal with |- context [fail_of _ ?X] => set (bx := X) end.
    assert (is_pe (xk bx) = true) as Kb.
    { unfold bx. destruct (xloc b =? _)%Z; [exact Hb|exact Hb]. }
    rewrite fail_pe by exact Kb. unfold good. simpl. rewrite Kb. reflexivity.
  - rewrite fail_pe by reflexivity. reflexivity.
Qed.

Lemma or_k_ok e d L L1 : in_class G e = true ->
  (forall l acc, run (pparse f) (step_k e s d L (inr (l, RPR acc))) = Some (Ok l (PR (toks acc) (dict acc) (allnames acc) (rname acc) (modalr (attrs_of e))))) ->
  forall matches best pb, or_rel L1 matches pb -> best_pe best ->
  good (run (pparse f) (or_k e d L L1 matches [] best)) (match pb with Some (l, ts) => POk l ts | None => PFail end).
Proof.
  intros He HK matches best pb HR Hb. destruct pb as [[l ts]|]; cbn [or_rel] in HR.
  - destruct HR as (c & rest & Hs & Hc & Hp).
    destruct matches as [|m ms]; [discriminate Hs|].
    unfold or_k. cbv zeta. rewrite Hs.
    assert (Hcall : forall d0, exists r, pparse f (mkargs c s L1 d0 true) = Some (Ok l r) /\ pr_as_list r = ts).
    { intros d0. destruct (IH c Hc L1 d0) as [H1 _]. unfold good in H1. rewrite Hp in H1.
      destruct (pparse f (mkargs c s L1 d0 true)) as [[l' r|x|]|]; simpl in H1.
      - injection H1 as -> <-. eexists. split; reflexivity.
      - destruct (is_pe (xk x)); discriminate H1.
      - discriminate H1.
      - discriminate H1. }
    destruct d; cbn [negb].
    + cbn [or_go2]. unfold call. cbn [run]. destruct (Hcall true) as (r & -> & <-).
      rewrite Nat.leb_refl. rewrite HK. reflexivity.
    + unfold call. cbn [run]. destruct (Hcall false) as (r & -> & <-). rewrite HK. reflexivity.
  - subst matches. unfold or_k. cbv zeta. cbn [pick_fatal sort_desc fold_left]. apply alt_fail_ok; assumption.
Qed.

Lemma or_pass1_ok e d L L1 : in_class G e = true ->
  (forall l acc, run (pparse f) (step_k e s d L (inr (l, RPR acc))) = Some (Ok l (PR (toks acc) (dict acc) (allnames acc) (rname acc) (modalr (attrs_of e))))) ->
  forall es,
  (fix all (l : list expr) : bool := match l with [] => true | x :: r => in_class G x && all r end) es = true ->
  forall matches best pb, or_rel L1 matches pb -> best_pe best ->
  good (run (pparse f) (or_pass1 (fail_of (step_k e s d L)) e es s L1 matches [] best (or_k e d L L1)))
       (peg_longest (ppeg f) es L1 pb).
Proof.
  intros He HK. induction es as [|c rest IHr]; intros Hall matches best pb HR Hb.
  - cbn [or_pass1 peg_longest].
    apply or_k_ok; assumption.
  - apply andb_prop in Hall as [Hc Hall]. cbn [or_pass1 peg_longest]. unfold try_parse, call. cbn [run].
    destruct (IH c Hc L1 false) as [H1 _]. unfold good in H1.
    destruct (pparse f (mkargs c s L1 false true)) as [[l r|x|]|]; simpl in H1.
    + injection H1 as H1. rewrite <- H1. apply IHr; [exact Hall| |exact Hb].
      destruct pb as [[bl bts]|]; cbn [or_rel] in HR |- *.
      * destruct HR as (c0 & rest0 & Hs & Hc0 & Hp0).
        destruct (sort_desc_head_step matches bl c0 rest0 l c Hs) as (rest' & Hs').
        destruct (Nat.ltb bl l); cbn [or_rel]; eexists; eexists; (split; [exact Hs'|]); split; auto.
      * subst matches. exists c, []. split; [reflexivity|]. split; auto.
    + destruct (is_pe (xk x)) eqn:K; [|discriminate]. injection H1 as H1. rewrite <- H1.
      rewrite (is_pe_not_fatal _ K). rewrite ?K. apply IHr; [exact Hall|exact HR|].
      unfold better, best_pe in *. destruct best as [b|]; [destruct (xloc b <? xloc x)%Z|]; assumption.
    + injection H1 as <-. reflexivity.
    + injection H1 as <-. reflexivity.
Qed.

Lemma rep_go_ok e body d L foe : in_class G e = true -> in_class G body = true ->
  (forall l acc, run (pparse f) (step_k e s d L (inr (l, RPR acc))) = Some (Ok l (PR (toks acc) (dict acc) (allnames acc) (rname acc) (modalr (attrs_of e))))) ->
  forall n loc acc,
  good (run (pparse f) (rep_go (step_k e s d L) foe e body None s d n loc acc)) (peg_star (ppeg f) n body loc (pr_as_list acc)).
Proof.
  intros He Hb HK. destruct (in_class_plain e He) as [_ Hi].
  induction n as [|n IHn]; intros loc acc; [reflexivity|].
  cbn [rep_go peg_star]. unfold check_ender. rewrite Hi. rewrite skip_ignorables_nil. unfold call. cbn [run].
  destruct (IH body Hb loc d) as [H1 _]. unfold good in H1.
  destruct (pparse f (mkargs body s loc d true)) as [[l r|x|]|]; simpl in H1.
  - injection H1 as <-. destruct (Nat.eqb l loc); [reflexivity|]. rewrite <- as_list_iadd. apply IHn.
  - destruct (is_pe (xk x)) eqn:K; [|discriminate]. injection H1 as <-.
    rewrite ?K. cbn [orb]. rewrite HK. reflexivity.
  - injection H1 as <-. reflexivity.
  - injection H1 as <-. reflexivity.
Qed.

(* repetition with stop_on: the sentinel `ne` (NotAny(stop_on)) is tried before every round by try_parse (do_actions = False,
   with pre-parse): by the induction hypothesis it answers Ok (the round goes on), a ParseException (the loop ends with what
   was accumulated), Div or out-of-fuel: never a fatal exception, so try_parse's conversion is not exercised. *)
Lemma rep_go_stop_ok e body ne d L foe : in_class G e = true -> in_class G body = true -> in_class G ne = true ->
  (forall l acc, run (pparse f) (step_k e s d L (inr (l, RPR acc))) = Some (Ok l (PR (toks acc) (dict acc) (allnames acc) (rname acc) (modalr (attrs_of e))))) ->
  forall n loc acc,
  good (run (pparse f) (rep_go (step_k e s d L) foe e body (Some ne) s d n loc acc)) (peg_star_stop (ppeg f) n body ne loc (pr_as_list acc)).
Proof.
  intros He Hb Hne HK. destruct (in_class_plain e He) as [_ Hi].
  induction n as [|n IHn]; intros loc acc; [reflexivity|].
  cbn [rep_go peg_star_stop]. rewrite Hi. rewrite skip_ignorables_nil. unfold check_ender, try_parse, call. cbn [run].
  destruct (IH ne Hne loc false) as [N1 _]. unfold good in N1.
  destruct (pparse f (mkargs ne s loc false true)) as [[nl nr|nx|]|]; simpl in N1.
  - injection N1 as <-. unfold call. cbn [run].
    destruct (IH body Hb loc d) as [H1 _]. unfold good in H1.
    destruct (pparse f (mkargs body s loc d true)) as [[l r|x|]|]; simpl in H1.
    + injection H1 as <-. destruct (Nat.eqb l loc); [reflexivity|]. rewrite <- as_list_iadd. apply IHn.
    + destruct (is_pe (xk x)) eqn:K; [|discriminate]. injection H1 as <-.
      rewrite ?K. cbn [orb]. rewrite HK. reflexivity.
    + injection H1 as <-. reflexivity.
    + injection H1 as <-. reflexivity.
  - destruct (is_pe (xk nx)) eqn:K; [|discriminate]. injection N1 as <-.
    rewrite (is_pe_not_fatal _ K). cbn [andb]. rewrite ?K. cbn [orb]. rewrite HK. reflexivity.
  - injection N1 as <-. reflexivity.
  - injection N1 as <-. reflexivity.
Qed.

(* SkipTo's scan: the target is called without pre-parse (do_actions = False) at tmploc, tmploc + 1, ... up to the end of
   the text; by `invnp` each of these calls obeys the reading of `nopre target` *)
Lemma skipto_scan_ok e target d L : in_class G target = true -> np_ok G target = true ->
  forall (K : nat -> prg) (Kp : nat -> res), (forall tl, good (run (pparse f) (K tl)) (Kp tl)) ->
  forall n loc0 tl,
  good (run (pparse f) (skipto_scan (fail_of (step_k e s d L)) n e target None None s loc0 tl K))
       (match peg_skip_scan s (ppeg f) n target None tl with
        | POk tl' _ => Kp tl' | PFail => PFail | PDiv => PDiv | POut => POut end).
Proof.
  intros Hc Hnp K Kp HKK. induction n as [|n IHn]; intros loc0 tl.
  - cbn [skipto_scan peg_skip_scan]. rewrite fail_pe by reflexivity. reflexivity.
  - cbn [skipto_scan peg_skip_scan]. destruct (Nat.ltb (length s) tl).
    + rewrite fail_pe by reflexivity. reflexivity.
    + unfold call. cbn [run].
      pose proof (IHnp target Hc Hnp tl false) as H1. unfold good in H1.
      destruct (pparse f (mkargs target s tl false false)) as [[l r|x|]|]; simpl in H1.
      * injection H1 as <-. apply HKK.
      * destruct (is_pe (xk x)) eqn:K1; [|discriminate]. injection H1 as <-. rewrite ?K1. cbn [orb]. apply IHn.
      * injection H1 as <-. reflexivity.
      * injection H1 as <-. reflexivity.
Qed.

Lemma env_lookup id c : nth_error G id = Some c -> in_class G c = true.
Proof.
  intros H. unfold env_in_class in HG. rewrite forallb_forall in HG. apply HG. eapply nth_error_In. exact H.
Qed.

Lemma level_core e : in_class G e = true -> forall L d, head_ok e L ->
  good (run (pparse f) (impl G e s L d (step_k e s d L))) (peg_at f e L).
Proof.
  intros He L d Hst.
  assert (HK : forall l acc, run (pparse f) (step_k e s d L (inr (l, RPR acc))) =
                             Some (Ok l (pr_init (post_parse e (RPR acc)) None (aslist (attrs_of e)) (modalr (attrs_of e))))).
  { intros l acc. unfold step_k. rewrite finish_plain by exact He. reflexivity. }
  destruct e as [a i t|a i k es|a i k c|a i z body ne|a i c inc ig fo|a i id]; cbn [peg_at attrs_of].
  - (* tokens *)
    pose proof He as He'. simpl in He. repeat (apply andb_prop in He as [He ?]).
    cbn [impl]. unfold step_k. cbn [attrs_of].
    destruct (tok_impl a t s L) as [l r|x|] eqn:E; cbv beta iota.
    + rewrite finish_plain by exact He'. reflexivity.
    + unfold good. cbn [run proj]. rewrite (tok_impl_exc_kind _ _ _ _ _ H E). reflexivity.
    + pose proof (tok_impl_index _ _ _ _ H E) as Hl.
      assert (Nat.leb (length s) L = true) as -> by (apply Nat.leb_le; exact Hl).
      rewrite orb_true_r. reflexivity.
  - destruct k; try discriminate He.
    + (* And *)
      simpl in He. apply andb_prop in He as [He Hall]. apply andb_prop in He as [He Hck].
      destruct es as [|c rest]; [discriminate|].
      apply andb_prop in Hall as [Hc Hall].
      cbn [impl]. unfold call. cbn [run peg_seq].
      destruct (IH c Hc L d) as [_ H2].
      specialize (H2 (Hst c eq_refl)). unfold good in H2.
      destruct (pparse f (mkargs c s L d false)) as [[l r|x|]|]; simpl in H2.
      * injection H2 as <-. cbn [app].
        eapply (and_go_ok (Nary a i NAnd (c :: rest)) d L a); try exact Hall.
        -- simpl. rewrite He, Hck, Hc, Hall. reflexivity.
        -- intros l0 acc. rewrite HK. reflexivity.
      * destruct (is_pe (xk x)) eqn:K; [|discriminate]. injection H2 as <-.
        unfold failo_of. rewrite fail_pe by exact K. unfold good. simpl. rewrite K. reflexivity.
      * injection H2 as <-. reflexivity.
      * injection H2 as <-. reflexivity.
    + (* MatchFirst *)
      pose proof He as He'. simpl in He. apply andb_prop in He as [He Hall].
      cbn [impl]. apply mf_go_ok; [exact He'| |exact Hall|exact I].
      intros l0 acc. rewrite HK. reflexivity.
    + (* Or *)
      pose proof He as He'. simpl in He. apply andb_prop in He as [He Hall].
      cbn [impl attrs_of].
      destruct (forallb (fun c => callpre (attrs_of c)) es).
      * rewrite pre_parse_plain by exact He'. cbn [attrs_of].
        apply (or_pass1_ok (Nary a i NOr es) d L _ He'); [|exact Hall|reflexivity|exact I].
        intros l0 acc. rewrite HK. reflexivity.
      * apply (or_pass1_ok (Nary a i NOr es) d L _ He'); [|exact Hall|reflexivity|exact I].
        intros l0 acc. rewrite HK. reflexivity.
    + (* Each *)
      simpl in He. apply andb_prop in He as [He Hall]. apply andb_prop in He as [He Hnull].
      apply andb_prop in He as [Hp Hi]. destruct i; [|discriminate Hi].
      cbn [impl]. unfold good.
      apply each_impl_ok with (Q := fun c => in_class G c = true).
      * intros c Hc l0 d0. exact (proj1 (IH c Hc l0 d0)).
      * intros a0 i0 z b ne. apply in_class_rep_operand.
      * intros a0 i0 dflt b. apply in_class_opt_body.
      * exact Hp.
      * apply Forall_forall. intros c Hin. eapply all_in; eassumption.
      * destruct (each_opt2 (each_zip es info)); [reflexivity|discriminate Hnull].
  - (* enhancements *)
    pose proof He as He'. simpl in He. apply andb_prop in He as [He Hk]. apply andb_prop in He as [He Hc].
    destruct k; try discriminate Hk; cbn [impl]; unfold call, can_parse_next, try_parse, call; cbn [run].
    + (* EPass *)
      destruct (IH c Hc L d) as [_ H2].
      specialize (H2 (Hst c eq_refl)). unfold good in H2.
      destruct (pparse f (mkargs c s L d false)) as [[l r|x|]|]; simpl in H2.
      * injection H2 as <-. rewrite HK. reflexivity.
      * destruct (is_pe (xk x)) eqn:K; [|discriminate]. injection H2 as <-.
        assert (is_pe (xk (enh_rewrite a false L x)) = true) as K'
          by (unfold enh_rewrite; rewrite (is_pe_kind _ K); reflexivity).
        rewrite fail_pe by exact K'. unfold good. simpl. rewrite K'. reflexivity.
      * injection H2 as <-. reflexivity.
      * injection H2 as <-. reflexivity.
    + (* EGroup false *)
      destruct aspy; [discriminate Hk|].
      destruct (IH c Hc L d) as [_ H2].
      specialize (H2 (Hst c eq_refl)). unfold good in H2.
      destruct (pparse f (mkargs c s L d false)) as [[l r|x|]|]; simpl in H2.
      * injection H2 as <-. rewrite HK. reflexivity.
      * destruct (is_pe (xk x)) eqn:K; [|discriminate]. injection H2 as <-.
        assert (is_pe (xk (enh_rewrite a false L x)) = true) as K'
          by (unfold enh_rewrite; rewrite (is_pe_kind _ K); reflexivity).
        rewrite fail_pe by exact K'. unfold good. simpl. rewrite K'. reflexivity.
      * injection H2 as <-. reflexivity.
      * injection H2 as <-. reflexivity.
    + (* ESuppress *)
      destruct (IH c Hc L d) as [_ H2].
      specialize (H2 (Hst c eq_refl)). unfold good in H2.
      destruct (pparse f (mkargs c s L d false)) as [[l r|x|]|]; simpl in H2.
      * injection H2 as <-. rewrite HK. reflexivity.
      * destruct (is_pe (xk x)) eqn:K; [|discriminate]. injection H2 as <-.
        assert (is_pe (xk (enh_rewrite a false L x)) = true) as K'
          by (unfold enh_rewrite; rewrite (is_pe_kind _ K); reflexivity).
        rewrite fail_pe by exact K'. unfold good. simpl. rewrite K'. reflexivity.
      * injection H2 as <-. reflexivity.
      * injection H2 as <-. reflexivity.
    + (* ECombine: the content yields scalar tokens only (flat_class), on which _asStringList is the reading's join *)
      apply andb_prop in Hk as [Hk Hflat].
      destruct (IH c Hc L d) as [_ H2].
      specialize (H2 (Hst c eq_refl)). unfold good in H2.
      destruct (pparse f (mkargs c s L d false)) as [[l r|x|]|]; simpl in H2.
      * injection H2 as H2. rewrite <- H2.
        pose proof (flat_scalars G s f c Hflat L l (pr_as_list r) (eq_sym H2)) as Hsc.
        rewrite HK. unfold good. cbn [proj post_parse].
        destruct (in_class_plain _ He') as [Hp _]. destruct (plain_inv _ Hp) as [_ Hn]. cbn [attrs_of] in Hn |- *.
        rewrite Hn. rewrite as_list_init_noname. unfold raw_tokens. cbn [pr_new].
        rewrite as_list_iadd, as_list_del_all. rewrite (combine_join join r Hsc). reflexivity.
      * destruct (is_pe (xk x)) eqn:K; [|discriminate]. injection H2 as <-.
        assert (is_pe (xk (enh_rewrite a false L x)) = true) as K'
          by (unfold enh_rewrite; rewrite (is_pe_kind _ K); reflexivity).
        rewrite fail_pe by exact K'. unfold good. simpl. rewrite K'. reflexivity.
      * injection H2 as <-. reflexivity.
      * injection H2 as <-. reflexivity.
    + (* EOpt *)
      destruct (IH c Hc L d) as [_ H2].
      specialize (H2 (Hst c eq_refl)). unfold good in H2.
      destruct (pparse f (mkargs c s L d false)) as [[l r|x|]|]; simpl in H2.
      * injection H2 as <-. rewrite HK. reflexivity.
      * destruct (is_pe (xk x)) eqn:K; [|discriminate]. injection H2 as <-.
        rewrite ?K. cbn [orb].
        destruct (in_class_plain c Hc) as [Hpc _]. destruct (plain_inv _ Hpc) as [_ Hn]. rewrite Hn.
        unfold step_k. destruct default as [v|]; rewrite finish_plain by exact He'; reflexivity.
      * injection H2 as <-. reflexivity.
      * injection H2 as <-. reflexivity.
    + (* ENot *)
      destruct (IH c Hc L d) as [H1 _]. unfold good in H1.
      destruct (pparse f (mkargs c s L d true)) as [[l r|x|]|]; simpl in H1.
      * injection H1 as <-. rewrite fail_pe by reflexivity. reflexivity.
      * destruct (is_pe (xk x)) eqn:K; [|discriminate]. injection H1 as <-.
        rewrite (is_pe_not_fatal _ K). cbn [andb]. rewrite ?K. cbn [orb].
        unfold step_k. rewrite finish_plain by exact He'. reflexivity.
      * injection H1 as <-. reflexivity.
      * injection H1 as <-. reflexivity.
    + (* EFollowedBy *)
      destruct (IH c Hc L d) as [H1 _]. unfold good in H1.
      destruct (pparse f (mkargs c s L d true)) as [[l r|x|]|]; simpl in H1.
      * injection H1 as <-. rewrite HK. reflexivity.
      * destruct (is_pe (xk x)) eqn:K; [|discriminate]. injection H1 as <-.
        unfold failo_of. rewrite fail_pe by exact K. unfold good. simpl. rewrite K. reflexivity.
      * injection H1 as <-. reflexivity.
      * injection H1 as <-. reflexivity.
    + (* ELookahead *)
      destruct (IH c Hc L false) as [H1 _]. unfold good in H1.
      destruct (pparse f (mkargs c s L false true)) as [[l r|x|]|]; simpl in H1.
      * injection H1 as <-. unfold step_k. rewrite finish_plain by exact He'. reflexivity.
      * destruct (is_pe (xk x)) eqn:K; [|discriminate]. injection H1 as <-.
        rewrite (is_pe_not_fatal _ K). cbn [andb].
        unfold failo_of. rewrite fail_pe by exact K. unfold good. simpl. rewrite K. reflexivity.
      * injection H1 as <-. reflexivity.
      * injection H1 as <-. reflexivity.
  - (* repetition *)
    pose proof He as He'. simpl in He. apply andb_prop in He as [He Hne]. apply andb_prop in He as [He Hb].
    destruct ne as [ne|].
    + (* with stop_on *)
      cbn [impl]. unfold check_ender, try_parse, call. cbn [run].
      destruct (IH ne Hne L false) as [N1 _]. unfold good in N1.
      destruct (pparse f (mkargs ne s L false true)) as [[nl nr|nx|]|]; simpl in N1.
      * injection N1 as <-. cbn [run].
        destruct (IH body Hb L d) as [H1 _]. unfold good in H1.
        destruct (pparse f (mkargs body s L d true)) as [[l r|x|]|]; simpl in H1.
        -- injection H1 as <-. apply rep_go_stop_ok; [exact He'|exact Hb|exact Hne|].
           intros l0 acc. rewrite HK. reflexivity.
        -- destruct (is_pe (xk x)) eqn:K; [|discriminate]. injection H1 as <-.
           rewrite ?K. cbn [orb]. destruct z; cbn [andb].
           ++ destruct (in_class_plain _ He') as [Hp _]. destruct (plain_inv _ Hp) as [_ Hn]. simpl in Hn.
              rewrite HK. cbn [attrs_of]. rewrite Hn. reflexivity.
           ++ rewrite fail_pe by exact K. unfold good. simpl. rewrite K. reflexivity.
        -- injection H1 as <-. reflexivity.
        -- injection H1 as <-. reflexivity.
      * destruct (is_pe (xk nx)) eqn:K; [|discriminate]. injection N1 as <-.
        rewrite (is_pe_not_fatal _ K). cbn [andb]. rewrite ?K. cbn [orb]. destruct z; cbn [andb].
        -- destruct (in_class_plain _ He') as [Hp _]. destruct (plain_inv _ Hp) as [_ Hn]. simpl in Hn.
           rewrite HK. cbn [attrs_of]. rewrite Hn. reflexivity.
        -- rewrite fail_pe by exact K. unfold good. simpl. rewrite K. reflexivity.
      * injection N1 as <-. reflexivity.
      * injection N1 as <-. reflexivity.
    + (* without stop_on *)
    cbn [impl]. unfold check_ender, call. cbn [run].
    destruct (IH body Hb L d) as [H1 _]. unfold good in H1.
    destruct (pparse f (mkargs body s L d true)) as [[l r|x|]|]; simpl in H1.
    * injection H1 as <-. apply rep_go_ok; [exact He'|exact Hb|].
      intros l0 acc. rewrite HK. reflexivity.
    * destruct (is_pe (xk x)) eqn:K; [|discriminate]. injection H1 as <-.
      rewrite ?K. cbn [orb]. destruct z; cbn [andb].
      -- destruct (in_class_plain _ He') as [Hp _]. destruct (plain_inv _ Hp) as [_ Hn]. simpl in Hn.
         rewrite HK. cbn [attrs_of]. rewrite Hn. reflexivity.
      -- rewrite fail_pe by exact K. unfold good. simpl. rewrite K. reflexivity.
    * injection H1 as <-. reflexivity.
    * injection H1 as <-. reflexivity.
  - (* SkipTo *)
    pose proof He as He'. simpl in He. destruct ig; [|discriminate He]. destruct fo; [discriminate He|].
    apply andb_prop in He as [He Hnp]. apply andb_prop in He as [He Hc].
    cbn [impl].
    apply (skipto_scan_ok (Skip a i c inc [] None) c d L Hc Hnp _
             (fun tl => if inc then match ppeg f (nopre c) tl with
                                    | POk l ts => POk l (TStr (slice_ s L tl) :: ts)
                                    | r => r
                                    end
                        else POk tl [TStr (slice_ s L tl)])).
    intros tl. destruct inc.
    + unfold call. cbn [run].
      pose proof (IHnp c Hc Hnp tl d) as H1. unfold good in H1.
      destruct (pparse f (mkargs c s tl d false)) as [[l r|x|]|]; simpl in H1.
      * injection H1 as <-. rewrite HK. unfold good. cbn [proj post_parse].
        rewrite as_list_init_noname. unfold raw_tokens. cbn [pr_new]. rewrite as_list_iadd. reflexivity.
      * destruct (is_pe (xk x)) eqn:K1; [|discriminate]. injection H1 as <-.
        unfold failo_of. rewrite fail_pe by exact K1. unfold good. simpl. rewrite K1. reflexivity.
      * injection H1 as <-. reflexivity.
      * injection H1 as <-. reflexivity.
    + rewrite HK. reflexivity.
  - (* Forward *)
    destruct id as [id|]; [|discriminate He].
    pose proof He as He'. simpl in He. apply andb_prop in He as [He Hk].
    cbn [impl]. destruct (nth_error G id) as [c|] eqn:En.
    + pose proof (env_lookup id c En) as Hc.
      unfold call. cbn [run].
      destruct (IH c Hc L d) as [_ H2].
      specialize (H2 (Hst c En)). unfold good in H2.
      destruct (pparse f (mkargs c s L d false)) as [[l r|x|]|]; simpl in H2.
      * injection H2 as <-. rewrite HK. reflexivity.
      * destruct (is_pe (xk x)) eqn:K; [|discriminate]. injection H2 as <-.
        assert (is_pe (xk (enh_rewrite a true L x)) = true) as K'
          by (unfold enh_rewrite; rewrite (is_pe_kind _ K); reflexivity).
        rewrite fail_pe by exact K'. unfold good. simpl. rewrite K'. reflexivity.
      * injection H2 as <-. reflexivity.
      * injection H2 as <-. reflexivity.
    + rewrite fail_pe by reflexivity. reflexivity.
Qed.

Lemma level_step e : in_class G e = true -> forall loc0 d pre,
  (pre = false -> stable e loc0) ->
  good (run (pparse f) (step G (mkargs e s loc0 d pre))) (ppeg (S f) e loc0).
Proof.
  intros He loc0 d pre Hst.
  rewrite step_plain by exact He. cbv zeta.
  assert ((if pre then eff s e loc0 else loc0) = eff s e loc0) as ->.
  { destruct pre; [reflexivity|]. symmetry. apply Hst. reflexivity. }
  rewrite peg_S. apply level_core; [exact He|].
  intros c Hc. apply stable_child. exact (in_class_head e c He Hc).
Qed.

(* a call without pre-parse at any location: the element itself does not skip; the component it calls without pre-parse
   never skips (np_ok), so it is at a stable location wherever it is called *)
Lemma level_np e : in_class G e = true -> np_ok G e = true -> forall L d,
  good (run (pparse f) (step G (mkargs e s L d false))) (ppeg (S f) (nopre e) L).
Proof.
  intros He Hn L d. rewrite step_plain by exact He. cbv zeta.
  rewrite peg_S, eff_nopre, peg_at_nopre.
  apply level_core; [exact He|].
  intros c Hc. unfold np_ok in Hn. rewrite Hc in Hn. apply nonskip_stable. exact Hn.
Qed.
End Level.

Theorem peg_equiv_np : forall f, inv f /\ invnp f.
Proof.
  induction f as [|f [IHf IHn]]; split.
  - intros e He loc d. split; intros; reflexivity.
  - intros e He Hn loc d. reflexivity.
  - intros e He loc d.
    split; [|intros Hs]; cbn [parse]; apply level_step; try assumption; congruence.
  - intros e He Hn loc d. cbn [parse]. apply level_np; assumption.
Qed.

Theorem peg_equiv : forall f, inv f.
Proof. exact (fun f => proj1 (peg_equiv_np f)). Qed.

(* how SkipTo calls its target: without pre-parse, at any location *)
Theorem peg_equiv_nopre_any : forall f, invnp f.
Proof. exact (fun f => proj2 (peg_equiv_np f)). Qed.
End Equiv.

(* Each over operands of the class, spelled out (a special case of peg_equiv: such an Each node is itself in the class) *)
Theorem each_reading_in_class : forall (G : env) (s : str), env_in_class G = true ->
  forall f a info es, plain_attrs a = true -> forallb (in_class G) es = true ->
  each_opt2 (each_zip es info) = [] ->
  forall loc0 d pre,
  proj (parse (step G) (S f) (mkargs (Nary a [] (NEach info) es) s loc0 d pre))
  = Some (peg_each s (peg G s f) es info (if pre then eff s (Nary a [] (NEach info) es) loc0 else loc0)).
Proof.
  intros G s HG f a info es Hp Hes Hnull loc0 d pre. cbn [parse].
  apply (each_reading G s (parse (step G) f) (peg G s f) (fun c => in_class G c = true)); try assumption.
  - intros c Hc loc d0. exact (proj1 (peg_equiv G s HG f c Hc loc d0)).
  - intros a0 i z b ne. apply in_class_rep_operand.
  - intros a0 i dflt b. apply in_class_opt_body.
  - apply Forall_forall. rewrite forallb_forall in Hes. exact Hes.
Qed.
